(* Proofs/CfiRdBase.v — byte-level facts used by the C05 proofs: fixed-width and LEB128 read-after-
   encode lemmas (encoders of Spec/CfiSpec.v and Spec/LebSpec.v against the readers of Model/Prim.v,
   Model/Leb.v), and the algebra of the offset-tracking reader of Model/CfiRd.v. *)
From Coq Require Import List NArith ZArith Bool Lia ZifyBool ZifyN ZifyNat.
From Coq.Strings Require Import Byte.
Require Import GV.Base.Res GV.Base.Byt GV.Base.Ints GV.Model.Leb GV.Model.Prim GV.Spec.LebSpec.
Require Import GV.Spec.CfiSpec GV.Model.CfiRd.
Import ListNotations.
Local Open Scope N_scope.

Local Ltac Zify.zify_post_hook ::= Z.div_mod_to_equations.
Local Arguments N.add : simpl never.
Local Arguments N.sub : simpl never.
Local Arguments N.mul : simpl never.
Local Arguments N.shiftl : simpl never.
Local Arguments N.shiftr : simpl never.
Local Arguments N.land : simpl never.
Local Arguments N.lor : simpl never.
Local Arguments N.pow : simpl never.
Local Arguments N.div : simpl never.
Local Arguments N.modulo : simpl never.

(* ------------------------------------------------------------------ bytes *)
Lemma byte_cont_low7 : forall b : byte,
  has_cont (b2n b) = (128 <=? b2n b) /\ low7 (b2n b) = b2n b mod 128.
Proof. destruct b; vm_compute; split; reflexivity. Qed.

Lemma has_cont_n2b x : x < 256 -> has_cont (b2n (n2b x)) = (128 <=? x).
Proof. intros H. rewrite (proj1 (byte_cont_low7 _)), b2n_n2b_small by exact H. reflexivity. Qed.
Lemma low7_n2b x : x < 256 -> low7 (b2n (n2b x)) = x mod 128.
Proof. intros H. rewrite (proj2 (byte_cont_low7 _)), b2n_n2b_small by exact H. reflexivity. Qed.

(* ------------------------------------------------------------------ take / fixed width *)
Lemma take_app : forall n (e rest : list byte), length e = n -> take n (e ++ rest) = Some (e, rest).
Proof.
  induction n as [|n IH]; intros [|b e] rest H; simpl in *; try discriminate; auto.
  injection H as H. now rewrite IH.
Qed.

Lemma take_some_len : forall n (bs h t : list byte), take n bs = Some (h, t) -> bs = h ++ t /\ length h = n.
Proof.
  induction n as [|n IH]; intros bs h t H; simpl in H.
  - injection H as <- <-. auto.
  - destruct bs as [|b r]; [discriminate|].
    destruct (take n r) as [[h' t']|] eqn:E; [|discriminate].
    injection H as <- <-. apply IH in E as [-> <-]. auto.
Qed.

Lemma take_none_len : forall n (bs : list byte), take n bs = None -> (length bs < n)%nat.
Proof.
  induction n as [|n IH]; intros bs H; simpl in H; [discriminate|].
  destruct bs as [|b r]; simpl; [lia|].
  destruct (take n r) as [[h' t']|] eqn:E; [discriminate|]. apply IH in E. lia.
Qed.

Lemma take_firstn_skipn : forall n (bs : list byte), (n <= length bs)%nat -> take n bs = Some (firstn n bs, skipn n bs).
Proof.
  induction n as [|n IH]; intros bs H; simpl; auto.
  destruct bs as [|b r]; simpl in *; [lia|]. rewrite IH by lia. reflexivity.
Qed.

Lemma le_n_length : forall n v, length (le_n n v) = n.
Proof. induction n; intros; simpl; auto. Qed.

Lemma un_bytes_length n be v : length (un_bytes n be v) = n.
Proof. unfold un_bytes. destruct be; [rewrite rev_length|]; apply le_n_length. Qed.

Lemma le_val_le_n : forall n v, le_val (le_n n v) = v mod 256 ^ N.of_nat n.
Proof.
  induction n as [|n IH]; intros v.
  - cbn [le_n le_val]. change (N.of_nat 0) with 0. rewrite N.pow_0_r, N.mod_1_r. reflexivity.
  - cbn [le_n le_val]. rewrite IH, b2n_n2b.
    rewrite Nat2N.inj_succ, N.pow_succ_r', N.mod_mul_r; [reflexivity|lia|].
    apply N.pow_nonzero. lia.
Qed.

Lemma read_un_enc : forall n be v rest,
  read_un n be (un_bytes n be v ++ rest) = Ok (v mod 256 ^ N.of_nat n, rest).
Proof.
  intros. unfold read_un, read_bytes. rewrite take_app by apply un_bytes_length.
  cbn [bind]. unfold un_bytes, be_val. destruct be.
  - rewrite rev_involutive, le_val_le_n. reflexivity.
  - rewrite le_val_le_n. reflexivity.
Qed.

Lemma read_un_small : forall n be v rest, v < 256 ^ N.of_nat n ->
  read_un n be (un_bytes n be v ++ rest) = Ok (v, rest).
Proof. intros. rewrite read_un_enc, N.mod_small by assumption. reflexivity. Qed.

Lemma read_in_enc : forall n be v rest,
  read_in n be (un_bytes n be v ++ rest) = Ok (to_signed (8 * N.of_nat n) (v mod 256 ^ N.of_nat n), rest).
Proof. intros. unfold read_in. rewrite read_un_enc. reflexivity. Qed.

Lemma read_un_eof : forall n be bs, (length bs < n)%nat -> read_un n be bs = Err EUnexpectedEof.
Proof.
  intros. unfold read_un, read_bytes. destruct (take n bs) as [[h t]|] eqn:E; [|reflexivity].
  apply take_some_len in E as [-> E]. rewrite app_length in H. lia.
Qed.

Lemma read_un_firstn : forall n be bs, (n <= length bs)%nat ->
  read_un n be bs = Ok ((if be then be_val (firstn n bs) else le_val (firstn n bs)), skipn n bs).
Proof. intros. unfold read_un, read_bytes. rewrite take_firstn_skipn by assumption. reflexivity. Qed.

(* ------------------------------------------------------------------ bit algebra *)
Lemma lor_disjoint_add : forall a b s, a < 2 ^ s -> N.lor a (b * 2 ^ s) = a + b * 2 ^ s.
Proof.
  intros a b s Ha.
  assert (Hl : N.land a (b * 2 ^ s) = 0).
  { apply N.bits_inj. intros n. rewrite N.land_spec, N.bits_0.
    destruct (N.lt_ge_cases n s) as [Hn|Hn].
    - rewrite N.mul_pow2_bits_low by exact Hn. apply andb_false_r.
    - rewrite <- (N.mod_small a (2 ^ s)) by exact Ha.
      rewrite N.mod_pow2_bits_high by exact Hn. reflexivity. }
  rewrite <- N.lxor_lor by exact Hl. symmetry. apply N.add_nocarry_lxor. exact Hl.
Qed.

Lemma pow2_split : forall a b, 2 ^ (a + b) = 2 ^ a * 2 ^ b.
Proof. intros. apply N.pow_add_r. Qed.

Lemma shl64_small : forall dbg x s, s < 64 -> x * 2 ^ s < two64 -> shl64 dbg x s = Ok (x * 2 ^ s).
Proof.
  intros dbg x s Hs Hx. unfold shl64.
  destruct (64 <=? s) eqn:E; [lia|]. rewrite N.shiftl_mul_pow2, wrap64_small by exact Hx. reflexivity.
Qed.

(* ------------------------------------------------------------------ ULEB128 *)
Lemma enc_uleb_fuel_S : forall f v,
  enc_uleb_fuel (S f) v = if v <? 128 then [n2b v] else n2b (128 + v mod 128) :: enc_uleb_fuel f (v / 128).
Proof. reflexivity. Qed.

Lemma uleb_loop_enc : forall dbg f v result shift rest,
  shift <= 63 -> result < 2 ^ shift -> v < 2 ^ (64 - shift) -> (0 < f)%nat -> v < 128 ^ N.of_nat f ->
  uleb_loop dbg result shift (enc_uleb_fuel f v ++ rest) = Ok (result + v * 2 ^ shift, rest).
Proof.
  intros dbg f. induction f as [|f IH]; intros v result shift rest Hs Hr Hv Hf0 Hf.
  - lia.
  - rewrite enc_uleb_fuel_S.
    assert (Hp : 2 ^ 64 = 2 ^ shift * 2 ^ (64 - shift)) by (rewrite <- N.pow_add_r; f_equal; lia).
    assert (Hp0 : 0 < 2 ^ shift) by (apply N.neq_0_lt_0, N.pow_nonzero; lia).
    destruct (v <? 128) eqn:Ev.
    + cbn [app uleb_loop]. rewrite low7_n2b, has_cont_n2b, b2n_n2b_small by lia.
      assert (Hchk : (shift =? 63) && negb (v =? 0) && negb (v =? 1) = false).
      { destruct (shift =? 63) eqn:E63; [|reflexivity].
        apply N.eqb_eq in E63. subst shift. change (2 ^ (64 - 63)) with 2 in Hv.
        assert (v = 0 \/ v = 1) as [->| ->] by lia; reflexivity. }
      rewrite Hchk.
      rewrite N.mod_small by lia.
      rewrite shl64_small.
      * cbn [bind]. rewrite lor_disjoint_add by exact Hr.
        destruct (128 <=? v) eqn:E; [lia|]. reflexivity.
      * lia.
      * change two64 with (2 ^ 64). rewrite Hp. rewrite (N.mul_comm v). apply N.mul_lt_mono_pos_l; assumption.
    + (* continuation byte *)
      assert (Hs56 : shift <= 56).
      { destruct (N.le_gt_cases shift 56) as [H|H]; [exact H|exfalso].
        assert (2 ^ (64 - shift) <= 2 ^ 7) by (apply N.pow_le_mono_r; lia).
        change (2 ^ 7) with 128 in *. lia. }
      cbn [app uleb_loop].
      assert (Hb : 128 + v mod 128 < 256) by (pose proof (N.mod_lt v 128); lia).
      rewrite low7_n2b, has_cont_n2b, b2n_n2b_small by exact Hb.
      destruct (shift =? 63) eqn:E63; [lia|]. cbn [andb].
      replace ((128 + v mod 128) mod 128) with (v mod 128)
        by (rewrite N.add_mod, N.mod_same, N.add_0_l, N.mod_mod, N.mod_mod by lia; reflexivity).
      assert (Hsh : v mod 128 * 2 ^ shift < 2 ^ (shift + 7)).
      { rewrite N.pow_add_r. change (2 ^ 7) with 128. rewrite (N.mul_comm (2 ^ shift)).
        apply N.mul_lt_mono_pos_r; [exact Hp0|]. apply N.mod_lt. lia. }
      rewrite shl64_small.
      * cbn [bind]. rewrite lor_disjoint_add by exact Hr.
        destruct (128 <=? 128 + v mod 128) eqn:E; [|lia].
        rewrite IH.
        -- f_equal. f_equal. rewrite N.pow_add_r. change (2 ^ 7) with 128.
           rewrite (N.div_mod v 128) at 3 by lia. lia.
        -- lia.
        -- rewrite N.pow_add_r. change (2 ^ 7) with 128.
           assert (result + v mod 128 * 2 ^ shift < 2 ^ shift + v mod 128 * 2 ^ shift) by lia.
           assert (v mod 128 <= 127) by (pose proof (N.mod_lt v 128); lia).
           nia.
        -- apply N.div_lt_upper_bound; [lia|].
           replace (64 - shift) with (7 + (64 - (shift + 7))) in Hv by lia.
           rewrite N.pow_add_r in Hv. exact Hv.
        -- destruct f as [|f']; [|lia]. exfalso.
           change (N.of_nat 1) with 1 in Hf. rewrite N.pow_1_r in Hf. lia.
        -- apply N.div_lt_upper_bound; [lia|].
           rewrite Nat2N.inj_succ, N.pow_succ_r' in Hf. exact Hf.
      * lia.
      * change two64 with (2 ^ 64).
        apply N.lt_le_trans with (2 ^ (shift + 7)); [exact Hsh|]. apply N.pow_le_mono_r; lia.
Qed.

Lemma read_uleb_enc : forall dbg v rest, v < 2 ^ 64 ->
  read_uleb128 dbg (enc_uleb v ++ rest) = Ok (v, rest).
Proof.
  intros dbg v rest Hv. unfold enc_uleb. change 19%nat with (S 18). rewrite enc_uleb_fuel_S.
  destruct (v <? 128) eqn:Ev.
  - cbn [app read_uleb128]. rewrite has_cont_n2b, b2n_n2b_small by lia.
    destruct (128 <=? v) eqn:E; [lia|]. reflexivity.
  - cbn [app read_uleb128].
    assert (Hb : 128 + v mod 128 < 256) by (pose proof (N.mod_lt v 128); lia).
    rewrite low7_n2b, has_cont_n2b by exact Hb.
    destruct (128 <=? 128 + v mod 128) eqn:E; [|lia].
    replace ((128 + v mod 128) mod 128) with (v mod 128)
      by (rewrite N.add_mod, N.mod_same, N.add_0_l, N.mod_mod, N.mod_mod by lia; reflexivity).
    rewrite uleb_loop_enc.
    + f_equal. f_equal. change (2 ^ 7) with 128. rewrite (N.div_mod v 128) at 3 by lia. lia.
    + lia.
    + change (2 ^ 7) with 128. apply N.mod_lt. lia.
    + change (2 ^ (64 - 7)) with (2 ^ 57). apply N.div_lt_upper_bound; [lia|].
      change (128 * 2 ^ 57) with (2 ^ 64). exact Hv.
    + lia.
    + apply N.div_lt_upper_bound; [lia|].
      apply N.lt_le_trans with (2 ^ 64); [exact Hv|]. vm_compute. discriminate.
Qed.

Lemma enc_uleb_nonempty : forall v, enc_uleb v <> [].
Proof. intros v. unfold enc_uleb. change 19%nat with (S 18). rewrite enc_uleb_fuel_S. destruct (v <? 128); discriminate. Qed.

(* ------------------------------------------------------------------ SLEB128 *)
Lemma to_i64_small : forall x, x < 2 ^ 63 -> to_i64 x = Z.of_N x.
Proof.
  intros x H. unfold to_i64, to_signed, wrapN. change (2 ^ (64 - 1)) with (2 ^ 63).
  assert (2 ^ 63 < 2 ^ 64) by (vm_compute; reflexivity).
  rewrite N.mod_small by lia. destruct (x <? 2 ^ 63) eqn:E; [reflexivity|lia].
Qed.

Lemma to_i64_big : forall x, 2 ^ 63 <= x -> x < 2 ^ 64 -> to_i64 x = (Z.of_N x - Z.of_N (2 ^ 64))%Z.
Proof.
  intros x H1 H2. unfold to_i64, to_signed, wrapN. change (2 ^ (64 - 1)) with (2 ^ 63).
  rewrite N.mod_small by lia. destruct (x <? 2 ^ 63) eqn:E; [lia|reflexivity].
Qed.

Lemma shl64_lt64 : forall dbg x s, s < 64 -> shl64 dbg x s = Ok ((x * 2 ^ s) mod 2 ^ 64).
Proof.
  intros dbg x s Hs. unfold shl64. destruct (64 <=? s) eqn:E; [lia|].
  rewrite N.shiftl_mul_pow2. reflexivity.
Qed.

Lemma enc_sleb_fuel_S : forall f z,
  enc_sleb_fuel (S f) z =
  let b := (z mod 128)%Z in let z' := (z / 128)%Z in
  if ((z' =? 0)%Z && (b <? 64)%Z) || ((z' =? -1)%Z && (64 <=? b)%Z) then [n2b (Z.to_N b)]
  else n2b (128 + Z.to_N b) :: enc_sleb_fuel f z'.
Proof. reflexivity. Qed.

Lemma land64_byte : forall b : byte, (N.land (b2n b) 64 =? 64) = (64 <=? b2n b mod 128).
Proof. destruct b; vm_compute; reflexivity. Qed.

Lemma sleb_loop_enc : forall dbg f z result shift rest,
  shift <= 63 -> shift mod 7 = 0 -> result < 2 ^ shift ->
  (- Z.of_N (2 ^ (63 - shift)) <= z < Z.of_N (2 ^ (63 - shift)))%Z ->
  (0 < f)%nat -> (- Z.of_N (64 * 128 ^ N.of_nat (f - 1)) <= z < Z.of_N (64 * 128 ^ N.of_nat (f - 1)))%Z ->
  sleb_loop dbg result shift (enc_sleb_fuel f z ++ rest) = Ok ((z * Z.of_N (2 ^ shift) + Z.of_N result)%Z, rest).
Proof.
  intros dbg f. induction f as [|f IH]; intros z result shift rest Hs H7 Hr Hz Hf0 Hf; [lia|].
  rewrite enc_sleb_fuel_S. cbv zeta.
  set (b := Z.to_N (z mod 128)%Z).
  assert (Hb : Z.of_N b = (z mod 128)%Z) by (unfold b; rewrite Z2N.id; lia).
  assert (Hb128 : b < 128) by lia.
  set (z' := (z / 128)%Z) in *.
  assert (Hzz : z = (128 * z' + Z.of_N b)%Z) by lia.
  assert (Hcases : shift <= 56 \/ shift = 63) by lia.
  assert (HP0 : 0 < 2 ^ shift) by (apply N.neq_0_lt_0, N.pow_nonzero; lia).
  destruct (((z' =? 0)%Z && (z mod 128 <? 64)%Z) || ((z' =? -1)%Z && (64 <=? z mod 128)%Z)) eqn:Edone.
  - (* last byte *)
    cbn [app sleb_loop]. fold b.
    rewrite low7_n2b, has_cont_n2b, land64_byte, b2n_n2b_small by lia.
    rewrite (N.mod_small b 128) by lia.
    destruct (128 <=? b) eqn:E128; [lia|].
    destruct Hcases as [Hs56| ->].
    + (* shift <= 56: no wrap *)
      destruct (shift =? 63) eqn:E63; [lia|]. cbn [andb].
      assert (Hpow : 2 ^ 63 = 2 ^ shift * 2 ^ (63 - shift)) by (rewrite <- N.pow_add_r; f_equal; lia).
      assert (Hpow7 : 2 ^ (shift + 7) = 128 * 2 ^ shift) by (rewrite N.pow_add_r; change (2 ^ 7) with 128; lia).
      assert (H6364 : 2 ^ 64 = 2 * 2 ^ 63) by reflexivity.
      assert (Hle : 2 ^ (shift + 7) <= 2 ^ 63) by (apply N.pow_le_mono_r; lia).
      rewrite shl64_lt64 by lia. cbn [bind].
      rewrite (N.mod_small (b * 2 ^ shift)) by nia.
      rewrite lor_disjoint_add by exact Hr.
      destruct (shift + 7 <? 64) eqn:E64; [|lia]. cbn [andb].
      destruct (64 <=? b) eqn:Eb.
      * (* negative *)
        assert (Hz' : z' = (-1)%Z) by lia.
        rewrite shl64_lt64 by lia. cbn [bind].
        assert (Hones : ((two64 - 1) * 2 ^ (shift + 7)) mod 2 ^ 64 = (2 ^ (64 - (shift + 7)) - 1) * 2 ^ (shift + 7)).
        { change two64 with (2 ^ 64).
          assert (H64 : 2 ^ 64 = 2 ^ (64 - (shift + 7)) * 2 ^ (shift + 7)) by (rewrite <- N.pow_add_r; f_equal; lia).
          assert (0 < 2 ^ (64 - (shift + 7))) by (apply N.neq_0_lt_0, N.pow_nonzero; lia).
          assert (0 < 2 ^ (shift + 7)) by (apply N.neq_0_lt_0, N.pow_nonzero; lia).
          replace ((2 ^ 64 - 1) * 2 ^ (shift + 7)) with
            ((2 ^ (64 - (shift + 7)) - 1) * 2 ^ (shift + 7) + (2 ^ (shift + 7) - 1) * 2 ^ 64) by nia.
          rewrite N.mod_add by lia. apply N.mod_small. nia. }
        rewrite Hones. rewrite lor_disjoint_add by nia.
        assert (H64 : 2 ^ 64 = 2 ^ (64 - (shift + 7)) * 2 ^ (shift + 7)) by (rewrite <- N.pow_add_r; f_equal; lia).
        assert (0 < 2 ^ (64 - (shift + 7))) by (apply N.neq_0_lt_0, N.pow_nonzero; lia).
        rewrite to_i64_big by nia.
        subst z'; f_equal; f_equal; nia.
      * (* non-negative *)
        assert (Hz' : z' = 0%Z) by lia.
        rewrite to_i64_small by nia. f_equal; f_equal; nia.
    + (* shift = 63: tenth byte *)
      change (2 ^ (63 - 63)) with 1 in Hz.
      cbn [N.eqb Pos.eqb andb].
      assert (Hzb : (z = 0%Z /\ b = 0) \/ (z = (-1)%Z /\ b = 127)) by lia.
      destruct Hzb as [[-> ->]|[-> ->]].
      * cbn [N.eqb negb andb]. rewrite shl64_lt64 by lia. cbn [bind].
        change ((0 * 2 ^ 63) mod 2 ^ 64) with 0. rewrite N.lor_0_r.
        change (63 + 7 <? 64) with false. cbn [andb].
        rewrite to_i64_small by exact Hr. f_equal; f_equal; lia.
      * change (negb (127 =? 0)) with true. change (negb (127 =? 127)) with false. cbn [andb].
        rewrite shl64_lt64 by lia. cbn [bind].
        change ((127 * 2 ^ 63) mod 2 ^ 64) with (1 * 2 ^ 63).
        rewrite lor_disjoint_add by exact Hr.
        change (63 + 7 <? 64) with false. cbn [andb].
        assert (2 ^ 64 = 2 * 2 ^ 63) by reflexivity.
        rewrite to_i64_big by lia. f_equal; f_equal; lia.
  - (* continuation byte *)
    assert (Hs56 : shift <= 56).
    { destruct Hcases as [H|H]; [exact H|exfalso]. subst shift.
      change (2 ^ (63 - 63)) with 1 in Hz. lia. }
    cbn [app sleb_loop]. fold b.
    assert (Hbb : 128 + b < 256) by lia.
    rewrite low7_n2b, has_cont_n2b, b2n_n2b_small by exact Hbb.
    destruct (shift =? 63) eqn:E63; [lia|]. cbn [andb].
    replace ((128 + b) mod 128) with b
      by (rewrite N.add_mod, N.mod_same, N.add_0_l, N.mod_mod by lia; symmetry; apply N.mod_small; lia).
    assert (Hpow : 2 ^ 63 = 2 ^ shift * 2 ^ (63 - shift)) by (rewrite <- N.pow_add_r; f_equal; lia).
    assert (Hpow7 : 2 ^ (shift + 7) = 128 * 2 ^ shift) by (rewrite N.pow_add_r; change (2 ^ 7) with 128; lia).
    assert (H6364 : 2 ^ 64 = 2 * 2 ^ 63) by reflexivity.
    assert (Hle : 2 ^ (shift + 7) <= 2 ^ 63) by (apply N.pow_le_mono_r; lia).
    rewrite shl64_lt64 by lia. cbn [bind].
    rewrite (N.mod_small (b * 2 ^ shift)) by nia.
    rewrite lor_disjoint_add by exact Hr.
    destruct (128 <=? 128 + b) eqn:E; [|lia].
    assert (Hsplit : 2 ^ (63 - shift) = 128 * 2 ^ (63 - (shift + 7))).
    { replace (63 - shift) with (7 + (63 - (shift + 7))) by lia. rewrite N.pow_add_r. reflexivity. }
    rewrite IH.
    + rewrite Hpow7; f_equal; f_equal; nia.
    + lia.
    + rewrite N.add_mod, H7 by lia. reflexivity.
    + nia.
    + rewrite Hsplit in Hz. lia.
    + destruct f as [|f']; [|lia]. exfalso.
      cbn [Nat.sub N.of_nat] in Hf. rewrite N.pow_0_r in Hf. lia.
    + destruct f as [|f'].
      * exfalso. cbn [Nat.sub N.of_nat] in Hf. rewrite N.pow_0_r in Hf. lia.
      * replace (S (S f') - 1)%nat with (S f') in Hf by lia.
        replace (S f' - 1)%nat with f' by lia.
        rewrite Nat2N.inj_succ, N.pow_succ_r' in Hf. lia.
Qed.

Lemma read_sleb_enc : forall dbg z rest, (- 2 ^ 63 <= z < 2 ^ 63)%Z ->
  read_sleb128 dbg (enc_sleb z ++ rest) = Ok (z, rest).
Proof.
  intros dbg z rest Hz. unfold read_sleb128, enc_sleb.
  rewrite sleb_loop_enc.
  - change (2 ^ 0) with 1; f_equal; f_equal; lia.
  - lia.
  - reflexivity.
  - change (2 ^ 0) with 1. lia.
  - change (2 ^ (63 - 0)) with (2 ^ 63). change (Z.of_N (2 ^ 63)) with (2 ^ 63)%Z. exact Hz.
  - lia.
  - change (Z.of_N (64 * 128 ^ N.of_nat (19 - 1))) with (64 * 128 ^ 18)%Z.
    assert (2 ^ 63 < 64 * 128 ^ 18)%Z by (vm_compute; reflexivity). lia.
Qed.

(* ------------------------------------------------------------------ reader algebra *)
Lemma nlen_app : forall a b, nlen (a ++ b) = nlen a + nlen b.
Proof. intros. unfold nlen. rewrite app_length. lia. Qed.

Lemma nlen_cons : forall x l, nlen (x :: l) = 1 + nlen l.
Proof. intros. unfold nlen. cbn [length]. lia. Qed.

Lemma nlen_blen : forall l, nlen l = blen l.
Proof. reflexivity. Qed.

Lemma lift_app : forall A (f : list byte -> res (A * list byte)) o e rest a,
  f (e ++ rest) = Ok (a, rest) -> lift f (mkrd o (e ++ rest)) = Ok (a, mkrd (o + nlen e) rest).
Proof.
  intros A f o e rest a H. unfold lift. cbn [win off]. rewrite H. cbn [bind].
  rewrite nlen_app. do 2 f_equal. f_equal. lia.
Qed.

Lemma lift_err : forall A (f : list byte -> res (A * list byte)) o w e,
  f w = Err e -> lift f (mkrd o w) = Err e.
Proof. intros A f o w e H. unfold lift. cbn [win]. rewrite H. reflexivity. Qed.

Lemma firstn_nlen_app : forall (e rest : list byte), firstn (N.to_nat (nlen e)) (e ++ rest) = e.
Proof.
  intros. unfold nlen. rewrite Nat2N.id. rewrite firstn_app, Nat.sub_diag, firstn_all. cbn [firstn]. apply app_nil_r.
Qed.
Lemma skipn_nlen_app : forall (e rest : list byte), skipn (N.to_nat (nlen e)) (e ++ rest) = rest.
Proof.
  intros. unfold nlen. rewrite Nat2N.id. rewrite skipn_app, Nat.sub_diag, skipn_all. reflexivity.
Qed.

Lemma rd_split_app : forall o e rest,
  rd_split (nlen e) (mkrd o (e ++ rest)) = Ok (mkrd o e, mkrd (o + nlen e) rest).
Proof.
  intros. unfold rd_split. cbn [win off]. rewrite nlen_app.
  destruct (nlen e + nlen rest <? nlen e) eqn:E; [lia|].
  rewrite firstn_nlen_app, skipn_nlen_app. reflexivity.
Qed.

Lemma rd_skip_app : forall o e rest,
  rd_skip (nlen e) (mkrd o (e ++ rest)) = Ok (mkrd (o + nlen e) rest).
Proof.
  intros. unfold rd_skip. cbn [win off]. rewrite nlen_app.
  destruct (nlen e + nlen rest <? nlen e) eqn:E; [lia|].
  rewrite skipn_nlen_app. reflexivity.
Qed.

Lemma rd_u8_cons : forall o b rest, rd_u8 (mkrd o (b :: rest)) = Ok (b2n b, mkrd (o + 1) rest).
Proof.
  intros. unfold rd_u8. change (b :: rest) with ([b] ++ rest). rewrite (lift_app _ _ _ _ _ (b2n b)); reflexivity.
Qed.

(* ------------------------------------------------------------------ sized arithmetic *)
Definition asz_ok (asz : N) : Prop := asz = 1 \/ asz = 2 \/ asz = 4 \/ asz = 8.

Lemma ones_sized_ok : forall dbg asz, asz_ok asz -> ones_sized dbg asz = Ok (N.ones (8 * asz)).
Proof. intros dbg asz [->|[->|[->| ->]]]; destruct dbg; vm_compute; reflexivity. Qed.

Lemma wadd_sized_ok : forall dbg a len asz, asz_ok asz ->
  wadd_sized dbg a len asz = Ok ((a + len) mod 2 ^ (8 * asz)).
Proof.
  intros dbg a len asz H. unfold wadd_sized. rewrite ones_sized_ok by exact H. cbn [bind].
  rewrite N.land_ones. unfold wrap64. change two64 with (2 ^ 64).
  f_equal.
  assert (Hd : 2 ^ 64 = 2 ^ (8 * asz) * 2 ^ (64 - 8 * asz)).
  { rewrite <- N.pow_add_r. f_equal. destruct H as [->|[->|[->| ->]]]; reflexivity. }
  rewrite Hd. rewrite N.mod_mul_r by (apply N.pow_nonzero; lia).
  rewrite (N.mul_comm (2 ^ (8 * asz)) (_ mod _)), N.mod_add by (apply N.pow_nonzero; lia).
  apply N.mod_mod. apply N.pow_nonzero. lia.
Qed.

Lemma read_address_ok : forall asz be bs, asz_ok asz -> read_address asz be bs = read_un (N.to_nat asz) be bs.
Proof. intros asz be bs [->|[->|[->| ->]]]; reflexivity. Qed.

Lemma of_i64_s64 : forall v, v < 2 ^ 64 -> of_i64 (s64 v) = v.
Proof.
  intros v Hv. unfold of_i64, of_signed, s64.
  assert (H6364 : 2 ^ 64 = 2 * 2 ^ 63) by reflexivity.
  change (Z.of_N (2 ^ 64)) with (2 ^ 64)%Z.
  assert (Hz : (2 ^ 64 = 2 * Z.of_N (2 ^ 63))%Z) by reflexivity.
  destruct (v <? 2 ^ 63) eqn:E.
  - rewrite Z.mod_small by lia. lia.
  - replace (Z.of_N v - 2 ^ 64)%Z with (Z.of_N v + (-1) * 2 ^ 64)%Z by lia.
    rewrite Z.mod_add by lia. rewrite Z.mod_small by lia. lia.
Qed.

Lemma s64_range : forall v, v < 2 ^ 64 -> (- 2 ^ 63 <= s64 v < 2 ^ 63)%Z.
Proof.
  intros v Hv. unfold s64.
  assert (Hz : (2 ^ 64 = 2 * 2 ^ 63)%Z) by reflexivity.
  assert (Hz2 : Z.of_N (2 ^ 64) = (2 ^ 64)%Z) by reflexivity.
  assert (Hz3 : Z.of_N (2 ^ 63) = (2 ^ 63)%Z) by reflexivity.
  destruct (v <? 2 ^ 63) eqn:E; lia.
Qed.

(* sign extension of a k-byte two's complement field back to the u64 it came from *)
Lemma of_i64_to_signed : forall bits v, (bits = 16 \/ bits = 32 \/ bits = 64) -> v < 2 ^ 64 ->
  (v < 2 ^ (bits - 1) \/ 2 ^ 64 - 2 ^ (bits - 1) <= v) ->
  of_i64 (to_signed bits (v mod 2 ^ bits)) = v.
Proof.
  intros bits v Hb Hv Hfit. unfold of_i64, of_signed, to_signed, wrapN.
  rewrite N.mod_mod by (apply N.pow_nonzero; lia).
  assert (Hz64 : Z.of_N (2 ^ 64) = (2 ^ 64)%Z) by reflexivity. rewrite Hz64.
  destruct Hb as [->|[->| ->]].
  - change (2 ^ (16 - 1)) with 32768 in *. change (2 ^ 16) with 65536.
    change (2 ^ 64) with 18446744073709551616 in *. change (2 ^ 64)%Z with 18446744073709551616%Z.
    change (Z.of_N 65536) with 65536%Z.
    destruct (v mod 65536 <? 32768) eqn:E; lia.
  - change (2 ^ (32 - 1)) with 2147483648 in *. change (2 ^ 32) with 4294967296.
    change (2 ^ 64) with 18446744073709551616 in *. change (2 ^ 64)%Z with 18446744073709551616%Z.
    change (Z.of_N 4294967296) with 4294967296%Z.
    destruct (v mod 4294967296 <? 2147483648) eqn:E; lia.
  - change (2 ^ (64 - 1)) with 9223372036854775808 in *.
    change (2 ^ 64) with 18446744073709551616 in *. change (2 ^ 64)%Z with 18446744073709551616%Z.
    change (Z.of_N 18446744073709551616) with 18446744073709551616%Z.
    destruct (v mod 18446744073709551616 <? 9223372036854775808) eqn:E; lia.
Qed.

(* ------------------------------------------------------------------ DW_EH_PE bytes (finite sweeps) *)
Definition all256 : list N := map N.of_nat (seq 0 256).

Lemma in_all256 e : e < 256 -> In e all256.
Proof.
  intros H. unfold all256. apply in_map_iff. exists (N.to_nat e). split.
  - apply N2Nat.id.
  - apply in_seq. lia.
Qed.

Lemma sweep256 (P : N -> bool) : forallb P all256 = true -> forall e, e < 256 -> P e = true.
Proof. intros H e He. rewrite forallb_forall in H. apply H, in_all256, He. Qed.

Lemma pe_valid_all_lem_base : forall e, e < 256 -> pe_is_valid e = valid_spec e.
Proof.
  intros e He.
  apply (sweep256 (fun e => Bool.eqb (pe_is_valid e) (valid_spec e))) in He.
  - now apply eqb_prop.
  - vm_compute. reflexivity.
Qed.

Lemma pe_decomp_base : forall e, e < 256 ->
  pe_format e = fmt_of e /\ pe_application e = app_of e /\
  pe_is_indirect e = negb (ind_of e =? 0) /\ pe_is_absent e = (e =? 255) /\
  e = fmt_of e + app_of e + ind_of e.
Proof.
  intros e He.
  apply (sweep256 (fun e => (pe_format e =? fmt_of e) && (pe_application e =? app_of e)
            && Bool.eqb (pe_is_indirect e) (negb (ind_of e =? 0))
            && Bool.eqb (pe_is_absent e) (e =? 255)
            && (e =? fmt_of e + app_of e + ind_of e))) in He.
  - repeat rewrite andb_true_iff in He. destruct He as [[[[H1 H2] H3] H4] H5].
    apply N.eqb_eq in H1, H2, H5. apply eqb_prop in H3, H4. auto.
  - vm_compute. reflexivity.
Qed.

Lemma read_address_ok_fun : forall asz be, asz_ok asz -> read_address asz be = read_un (N.to_nat asz) be.
Proof. intros asz be [->|[->|[->| ->]]]; reflexivity. Qed.
