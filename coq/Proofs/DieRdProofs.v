(* Proofs/DieRdProofs.v — lemmas about Model/DieRd.v (unit headers, entries, cursors, trees). *)
From Coq Require Import List NArith ZArith Bool Lia ZifyBool ZifyN ZifyNat.
From Coq.Strings Require Import Byte.
Require Import GV.Base.Res GV.Base.Byt GV.Base.Ints GV.Model.Leb GV.Model.Prim
               GV.Spec.LebSpec GV.Spec.FormSpec GV.Model.Attr GV.Spec.Forest GV.Model.AbbrevRd
               GV.Model.DieRd GV.Proofs.AttrProofs GV.Proofs.AbbrevRdProofs.
Import ListNotations.
Local Open Scope N_scope.
Local Arguments N.add : simpl never.
Local Arguments N.sub : simpl never.
Local Arguments N.mul : simpl never.
Local Arguments N.pow : simpl never.
Local Arguments N.div : simpl never.
Local Arguments N.modulo : simpl never.
Local Arguments N.of_nat : simpl never.
Local Arguments Z.add : simpl never.
Local Arguments Z.sub : simpl never.

(* ------------------------------------------------------------------ *)
(** * Lengths *)

Lemma nlen_app {A} (a b : list A) : nlen (a ++ b) = nlen a + nlen b.
Proof. unfold nlen. rewrite app_length. lia. Qed.
Lemma nlen_cons {A} (x : A) (l : list A) : nlen (x :: l) = 1 + nlen l.
Proof. unfold nlen. cbn [length]. lia. Qed.
Lemma nlen_nil {A} : nlen (@nil A) = 0. Proof. reflexivity. Qed.

Lemma enc_fixed_length n bigend v : length (enc_fixed n bigend v) = n.
Proof. unfold enc_fixed. destruct bigend; [rewrite rev_length|]; apply le_enc_length. Qed.
Lemma nlen_enc_fixed n bigend v : nlen (enc_fixed n bigend v) = N.of_nat n.
Proof. unfold nlen. rewrite enc_fixed_length. reflexivity. Qed.

Lemma enc_utype_len bigend fmt64 t : nlen (enc_utype bigend fmt64 t) = nlen (enc_utype false fmt64 t).
Proof. destruct t; cbn [enc_utype]; rewrite ?nlen_app, ?nlen_enc_fixed; reflexivity. Qed.

Lemma header_fields_len bigend h : nlen (enc_header_fields bigend h) = nlen (enc_header_fields false h).
Proof.
  unfold enc_header_fields. rewrite !nlen_app, (enc_utype_len bigend), !nlen_enc_fixed.
  destruct (uh_version h =? 5); rewrite ?nlen_app, ?nlen_cons, ?nlen_enc_fixed, ?nlen_nil; reflexivity.
Qed.

Lemma unit_length_of_be bigend h n : unit_length_of bigend h n = unit_length_of false h n.
Proof. unfold unit_length_of. rewrite header_fields_len. reflexivity. Qed.

Lemma header_len_eq bigend h n :
  nlen (enc_header bigend h n) = header_len h.
Proof.
  unfold header_len, enc_header. rewrite !nlen_app, header_fields_len. f_equal.
  unfold enc_initial_length. destruct (uh_fmt64 h); rewrite ?nlen_app, !nlen_enc_fixed; reflexivity.
Qed.

Lemma header_len_split h :
  header_len h = initial_length_size (uh_fmt64 h) + nlen (enc_header_fields false h).
Proof.
  unfold header_len, enc_header, enc_initial_length, initial_length_size. rewrite nlen_app.
  destruct (uh_fmt64 h); rewrite ?nlen_app, !nlen_enc_fixed; reflexivity.
Qed.

(* ------------------------------------------------------------------ *)
(** * Theorem 2: unit headers *)

Lemma read_initial_length_enc bigend (f64 : bool) len rest :
  (if f64 then len < two64 else len < 4294967280) ->
  read_initial_length bigend (enc_initial_length bigend f64 len ++ rest) = Ok ((len, f64), rest).
Proof.
  intros H. unfold read_initial_length, enc_initial_length. destruct f64.
  - rewrite <- app_assoc. rewrite read_un_enc by (cbn; lia). cbn [bind].
    change (4294967295 <? 4294967280) with false. change (4294967295 =? 4294967295) with true. cbv iota.
    rewrite read_un_enc by (change (256 ^ N.of_nat 8) with two64; exact H). reflexivity.
  - rewrite read_un_enc by (change (256 ^ N.of_nat 4) with 4294967296; lia). cbn [bind].
    replace (len <? 4294967280) with true by lia. reflexivity.
Qed.

Lemma read_word_enc (f64 : bool) bigend v rest :
  v < 2 ^ (8 * N.of_nat (word f64)) ->
  read_word f64 bigend (enc_fixed (word f64) bigend v ++ rest) = Ok (v, rest).
Proof.
  intros H. unfold read_word. destruct f64; cbn [word] in *; apply read_un_enc; rewrite pow256; exact H.
Qed.

Lemma read_u64_enc bigend v rest : v < two64 -> read_u64 bigend (enc_fixed 8 bigend v ++ rest) = Ok (v, rest).
Proof. intros H. apply read_un_enc. exact H. Qed.

Lemma parse_unit_type_enc bigend (f64 : bool) t rest :
  match t with
  | UCompile | UPartial => True
  | UType s o | USplitType s o => s < two64 /\ o < 2 ^ (8 * N.of_nat (word f64))
  | USkeleton i | USplitCompile i => i < two64
  end ->
  parse_unit_type bigend f64 (ut_code t) (enc_utype bigend f64 t ++ rest) = Ok (t, rest).
Proof.
  destruct t; cbn [ut_code enc_utype parse_unit_type N.eqb Pos.eqb app]; intros H; try reflexivity;
    rewrite <- ?app_assoc.
  - destruct H. rewrite read_u64_enc by assumption. cbn [bind]. rewrite read_word_enc by assumption. reflexivity.
  - rewrite read_u64_enc by assumption. reflexivity.
  - rewrite read_u64_enc by assumption. reflexivity.
  - destruct H. rewrite read_u64_enc by assumption. cbn [bind]. rewrite read_word_enc by assumption. reflexivity.
Qed.

Lemma read_address_size_byte asz rest :
  asz = 1 \/ asz = 2 \/ asz = 4 \/ asz = 8 -> read_address_size (n2b asz :: rest) = Ok (asz, rest).
Proof. intros [->|[->|[->| ->]]]; reflexivity. Qed.

Definition parsed_header (bigend types : bool) (uoff : N) (h : uheader) (body : list byte) : unit_header :=
  mkUnit (mkEnc (uh_version h) (uh_fmt64 h) (uh_asize h) bigend)
         (unit_length_of bigend h (nlen body)) (uh_type h) (uh_abbrev_off h) types uoff body.

Lemma header_roundtrip bigend types uoff h body rest :
  uheader_ok types h (nlen body) ->
  parse_unit_header bigend types uoff (enc_unit bigend h body ++ rest) =
  Ok (parsed_header bigend types uoff h body, rest).
Proof.
  intros (Hv & Ha & Ho & Ht & Hl). unfold parsed_header.
  destruct h as [version f64 asz ut aoff]. cbn [uh_version uh_fmt64 uh_asize uh_type uh_abbrev_off] in *.
  unfold parse_unit_header, enc_unit, enc_header. cbn [uh_fmt64].
  set (h := mkUH version f64 asz ut aoff) in *.
  set (fields := enc_header_fields bigend h).
  rewrite <- !app_assoc.
  rewrite <- (unit_length_of_be bigend) in Hl.
  rewrite read_initial_length_enc by (destruct f64; [lia|exact Hl]). cbn [bind].
  assert (Esplit : split_n (unit_length_of bigend h (nlen body)) (fields ++ body ++ rest)
                   = Ok (fields ++ body, rest)).
  { unfold unit_length_of. fold fields. rewrite <- nlen_app. rewrite app_assoc. apply split_n_app. }
  rewrite Esplit. cbn [bind]. clear Esplit.
  unfold fields, enc_header_fields. cbn [uh_version uh_fmt64 uh_asize uh_type uh_abbrev_off h].
  rewrite <- !app_assoc. unfold read_u16.
  rewrite read_un_enc by (change (256 ^ N.of_nat 2) with 65536; lia). cbn [bind].
  assert (Hty : match ut with
                | UCompile | UPartial => True
                | UType s o | USplitType s o => s < two64 /\ o < 2 ^ (8 * N.of_nat (word f64))
                | USkeleton i | USplitCompile i => i < two64
                end).
  { unfold utype_ok in Ht. cbn [uh_type uh_version uh_fmt64 h] in Ht. destruct ut; tauto. }
  destruct (N.eqb_spec version 5) as [V5|V5].
  - subst version. change ((2 <=? 5) && (5 <=? 4)) with false. cbv iota.
    rewrite <- ?app_assoc. cbn [app read_u8 bind]. rewrite b2n_n2b_small by (destruct ut; cbn; lia).
    rewrite read_address_size_byte by assumption. cbn [bind].
    rewrite read_word_enc by assumption. cbn [bind].
    rewrite parse_unit_type_enc by assumption. reflexivity.
  - replace ((2 <=? version) && (version <=? 4)) with true by lia.
    rewrite <- ?app_assoc. rewrite read_word_enc by assumption. cbn [bind app].
    rewrite read_address_size_byte by assumption. cbn [bind].
    unfold utype_ok in Ht. cbn [uh_type uh_version uh_fmt64 h] in Ht.
    destruct ut; try (exfalso; lia).
    + destruct Ht as [Ht|Ht]; [lia|]. subst types. cbn [enc_utype app]. reflexivity.
    + destruct Ht as ([Ht|Ht] & _); [lia|]. subst types.
      rewrite (parse_unit_type_enc bigend f64 (UType signature type_offset)) by assumption. reflexivity.
Qed.

(* header_size of a parsed header is the length of the encoded header; nothing overflows *)
Lemma header_size_parsed dbg bigend types uoff h body :
  unit_length_of false h (nlen body) + 12 < two64 ->
  header_size dbg (parsed_header bigend types uoff h body) = Ok (header_len h).
Proof.
  intros Hl. unfold header_size, length_including_self, parsed_header.
  cbn [u_enc u_length u_entries fmt64]. rewrite unit_length_of_be.
  unfold chk_add. change (2 ^ 64) with two64.
  assert (initial_length_size (uh_fmt64 h) <= 12) by (destruct (uh_fmt64 h); cbn; lia).
  replace (initial_length_size (uh_fmt64 h) + unit_length_of false h (nlen body) <? two64) with true by lia.
  cbn [bind]. unfold chk_sub.
  rewrite header_len_split. unfold unit_length_of in *.
  replace (nlen body <=? initial_length_size (uh_fmt64 h) + (nlen (enc_header_fields false h) + nlen body))
    with true by lia.
  f_equal. lia.
Qed.

(* ------------------------------------------------------------------ *)
(** * Trees: induction, sizes, lists of siblings *)

Lemma tree_ind' (P : tree -> Prop) :
  (forall tag flag items kids, Forall P kids -> P (Node tag flag items kids)) -> forall t, P t.
Proof.
  intros H. fix IH 1. intros [tag flag items kids]. apply H.
  induction kids as [|k kids IHk]; constructor; [apply IH|exact IHk].
Qed.

Lemma on_list_cons {A} (f : N -> tree -> list A) size off t r :
  on_list f size off (t :: r) = f off t ++ on_list f size (off + size t) r.
Proof. reflexivity. Qed.

Lemma on_list_app {A} (f : N -> tree -> list A) size : forall a off b,
  on_list f size off (a ++ b) = on_list f size off a ++ on_list f size (off + sumN (map size a)) b.
Proof.
  induction a as [|t a IH]; intros off b.
  - cbn [app map sumN fold_right on_list]. rewrite N.add_0_r. reflexivity.
  - cbn [app map]. rewrite !on_list_cons, IH, <- app_assoc. cbn [sumN fold_right].
    rewrite N.add_assoc. reflexivity.
Qed.

Lemma on_list_ext {A} (f g : N -> tree -> list A) size : forall l off,
  Forall (fun t => forall o, f o t = g o t) l -> on_list f size off l = on_list g size off l.
Proof.
  induction l as [|t l IH]; intros off H; [reflexivity|]. inversion H; subst.
  rewrite !on_list_cons. f_equal; auto.
Qed.

Lemma sumN_app a b : sumN (a ++ b) = sumN a + sumN b.
Proof. unfold sumN. induction a as [|x a IH]; cbn [app fold_right]; [lia|]. rewrite IH. lia. Qed.

Lemma enc_item_len bigend next it : nlen (enc_item bigend next it) = item_len it.
Proof. destruct it; cbn [enc_item item_len]; [reflexivity|apply nlen_enc_fixed]. Qed.

Lemma nlen_concat_items bigend next items :
  nlen (concat (map (enc_item bigend next) items)) = sumN (map item_len items).
Proof.
  induction items as [|it items IH]; cbn [map concat sumN fold_right]; [reflexivity|].
  rewrite nlen_app, enc_item_len, IH. reflexivity.
Qed.

Lemma tree_size_unfold codes t :
  tree_size codes t =
  nlen (enc_uleb (t_code codes t)) + sumN (map item_len (t_items t)) +
  (if has_children t then sumN (map (tree_size codes) (t_kids t)) + 1 else 0).
Proof. destruct t. reflexivity. Qed.

Lemma tree_size_pos codes t : 1 <= tree_size codes t.
Proof.
  rewrite tree_size_unfold. pose proof (enc_uleb_length (t_code codes t)). unfold nlen. lia.
Qed.

Lemma enc_tree_unfold codes bigend off t :
  enc_tree codes bigend off t =
  enc_uleb (t_code codes t) ++ concat (map (enc_item bigend (off + tree_size codes t)) (t_items t)) ++
  (if has_children t
   then on_list (enc_tree codes bigend) (tree_size codes) (kids_off codes off t) (t_kids t) ++ [x00]
   else []).
Proof. destruct t. reflexivity. Qed.

Lemma on_list_len codes bigend : forall l off,
  Forall (fun t => forall o, nlen (enc_tree codes bigend o t) = tree_size codes t) l ->
  nlen (on_list (enc_tree codes bigend) (tree_size codes) off l) = sumN (map (tree_size codes) l).
Proof.
  induction l as [|t l IH]; intros off H; [reflexivity|]. inversion H; subst.
  rewrite on_list_cons, nlen_app. cbn [map sumN fold_right]. rewrite IH by assumption.
  fold (sumN (map (tree_size codes) l)). f_equal. auto.
Qed.

Lemma enc_tree_len codes bigend : forall t off, nlen (enc_tree codes bigend off t) = tree_size codes t.
Proof.
  induction t as [tag flag items kids IH] using tree_ind'. intros off.
  rewrite enc_tree_unfold, tree_size_unfold. cbn [t_items t_kids].
  rewrite !nlen_app, nlen_concat_items.
  destruct (has_children (Node tag flag items kids)).
  - rewrite nlen_app, on_list_len by exact IH. change (nlen [x00]) with 1. lia.
  - change (nlen (@nil byte)) with 0. lia.
Qed.

Lemma enc_forest_list_len codes bigend off f :
  nlen (on_list (enc_tree codes bigend) (tree_size codes) off f) = forest_size codes f.
Proof. apply on_list_len. apply Forall_forall. intros t _ o. apply enc_tree_len. Qed.

(* children exist only under DW_CHILDREN_yes *)
Lemma no_children_no_kids t : has_children t = false -> t_kids t = [].
Proof. destruct t as [tag flag items [|k kids]]; cbn; [reflexivity|]. destruct flag; discriminate. Qed.

(* ------------------------------------------------------------------ *)
(** * Reading one entry *)

Definition depth_ok (d : Z) (inp : list byte) : Prop :=
  (- 9223372036854775808 + Z.of_N (nlen inp) <= d /\ d + Z.of_N (nlen inp) < 9223372036854775808)%Z.

Lemma chk_s_ok dbg z : (- 9223372036854775808 <= z < 9223372036854775808)%Z -> chk_s 64 dbg z = Ok z.
Proof.
  intros H. unfold chk_s, in_signed.
  match goal with |- (if ?c then _ else _) = _ => destruct c eqn:C end; [reflexivity|].
  exfalso. change (Z.of_N (2 ^ (64 - 1))) with 9223372036854775808%Z in C. lia.
Qed.

Lemma next_offset_ok dbg inp E d : nlen inp <= E -> next_offset dbg (mkRaw inp E d) = Ok (E - nlen inp).
Proof.
  intros H. unfold next_offset, chk_sub. cbn [r_end r_in].
  replace (nlen inp <=? E) with true by lia. reflexivity.
Qed.

(* a null entry *)
Lemma read_null dbg e tbl rest E d :
  nlen (x00 :: rest) <= E -> depth_ok d (x00 :: rest) ->
  read_entry dbg e tbl (mkRaw (x00 :: rest) E d) =
  Ok (false, null_at (E - nlen (x00 :: rest)) d, mkRaw rest E (d - 1)).
Proof.
  intros HE [D1 D2]. unfold read_entry. cbn [r_depth]. rewrite next_offset_ok by assumption. cbn [bind].
  unfold read_abbreviation. cbn [r_in r_end r_depth read_uleb128 has_cont b2n Byte.to_N N.land N.eqb negb bind].
  rewrite nlen_cons in D1, D2.
  rewrite chk_s_ok by lia. reflexivity.
Qed.

(* attributes of an entry *)
Lemma sib_attr_roundtrip dbg e w next rest :
  next < 2 ^ (8 * N.of_nat (sib_len w)) ->
  parse_attribute dbg e (sib_spec w) (enc_fixed (sib_len w) (be e) next ++ rest) = Ok (VUnitRef next, rest).
Proof.
  intros H. unfold parse_attribute, sib_spec. cbn [at_form].
  destruct w; cbn [sib_form sib_len] in *.
  - cbn [parse_form N.eqb Pos.eqb]. unfold parse_direct.
    cbn [N.eqb Pos.eqb DW_FORM_addr DW_FORM_block1 DW_FORM_block2 DW_FORM_block4 DW_FORM_block DW_FORM_data1
         DW_FORM_data2 DW_FORM_data4 DW_FORM_data8 DW_FORM_data16 DW_FORM_udata DW_FORM_sdata DW_FORM_exprloc
         DW_FORM_flag DW_FORM_flag_present DW_FORM_sec_offset DW_FORM_ref1].
    rewrite (read_u8_un_be (be e)), read_un_enc by (rewrite pow256; exact H). reflexivity.
  - cbn [parse_form N.eqb Pos.eqb]. unfold parse_direct.
    cbn [N.eqb Pos.eqb DW_FORM_addr DW_FORM_block1 DW_FORM_block2 DW_FORM_block4 DW_FORM_block DW_FORM_data1
         DW_FORM_data2 DW_FORM_data4 DW_FORM_data8 DW_FORM_data16 DW_FORM_udata DW_FORM_sdata DW_FORM_exprloc
         DW_FORM_flag DW_FORM_flag_present DW_FORM_sec_offset DW_FORM_ref1 DW_FORM_ref2].
    unfold read_u16. rewrite read_un_enc by (rewrite pow256; exact H). reflexivity.
  - cbn [parse_form N.eqb Pos.eqb]. unfold parse_direct.
    cbn [N.eqb Pos.eqb DW_FORM_addr DW_FORM_block1 DW_FORM_block2 DW_FORM_block4 DW_FORM_block DW_FORM_data1
         DW_FORM_data2 DW_FORM_data4 DW_FORM_data8 DW_FORM_data16 DW_FORM_udata DW_FORM_sdata DW_FORM_exprloc
         DW_FORM_flag DW_FORM_flag_present DW_FORM_sec_offset DW_FORM_ref1 DW_FORM_ref2 DW_FORM_ref4].
    unfold read_u32. rewrite read_un_enc by (rewrite pow256; exact H). reflexivity.
  - cbn [parse_form N.eqb Pos.eqb]. unfold parse_direct.
    cbn [N.eqb Pos.eqb DW_FORM_addr DW_FORM_block1 DW_FORM_block2 DW_FORM_block4 DW_FORM_block DW_FORM_data1
         DW_FORM_data2 DW_FORM_data4 DW_FORM_data8 DW_FORM_data16 DW_FORM_udata DW_FORM_sdata DW_FORM_exprloc
         DW_FORM_flag DW_FORM_flag_present DW_FORM_sec_offset DW_FORM_ref1 DW_FORM_ref2 DW_FORM_ref4
         DW_FORM_ref8].
    unfold read_u64. rewrite read_un_enc by (rewrite pow256; exact H). reflexivity.
Qed.

Lemma attr_ok_roundtrip dbg e a rest : addr_size_ok e -> attr_ok e a ->
  parse_attribute dbg e (a_spec a) (a_bytes a ++ rest) = Ok (a_value a, rest).
Proof.
  intros He (u & (Hf & Hi & Hfit & _) & Hr). unfold resolve in Hr.
  destruct (enc_layout (form_layout (u_form u) e) (be e) (u_data u)) as [p|] eqn:E1; [|discriminate].
  destruct (form_value e (u_name u) (u_implicit u) (u_form u) (u_data u)) as [v|] eqn:E2; [|discriminate].
  inversion Hr; subst a. cbn [a_spec a_bytes a_value]. rewrite <- app_assoc.
  apply (attr_roundtrip dbg e (u_name u) (u_implicit u) (u_hops u) (u_form u) (u_data u) p v rest); assumption.
Qed.

Definition item_ok (e : enc) (it : item) : Prop := match it with IAttr a => attr_ok e a | ISib _ => True end.
Definition item_fits (next : N) (it : item) : Prop :=
  match it with ISib w => next < 2 ^ (8 * N.of_nat (sib_len w)) | IAttr _ => True end.

Lemma read_items dbg e next : forall items rest,
  addr_size_ok e -> Forall (item_ok e) items -> Forall (item_fits next) items ->
  read_attrs dbg e (map item_spec items) (concat (map (enc_item (be e) next) items) ++ rest) =
  Ok (map (item_val next) items, rest).
Proof.
  intros items rest He. unfold read_attrs.
  assert (G : forall items rest, Forall (item_ok e) items -> Forall (item_fits next) items ->
              read_attributes dbg e (map item_spec items) (concat (map (enc_item (be e) next) items) ++ rest) =
              Ok (map (fun it => snd (item_val next it)) items, rest)).
  { clear items rest. induction items as [|it items IH]; intros rest Hok Hfit; [reflexivity|].
    inversion Hok; subst. inversion Hfit; subst.
    cbn [map concat read_attributes]. rewrite <- app_assoc.
    assert (E : parse_attribute dbg e (item_spec it)
                  (enc_item (be e) next it ++ concat (map (enc_item (be e) next) items) ++ rest) =
                Ok (snd (item_val next it), concat (map (enc_item (be e) next) items) ++ rest)).
    { destruct it as [a|w]; cbn [item_spec enc_item item_val snd].
      - apply attr_ok_roundtrip; assumption.
      - apply sib_attr_roundtrip. assumption. }
    rewrite E. cbn [bind]. rewrite IH by assumption. reflexivity. }
  intros Hok Hfit. rewrite G by assumption. cbn [bind]. f_equal. f_equal.
  clear. induction items as [|it items IH]; [reflexivity|]. cbn [map combine]. rewrite IH. f_equal.
  destruct it; reflexivity.
Qed.

(* the bytes of an entry itself, and the bytes after them: its children and their terminator *)
Definition head_bytes (codes : coding) (bigend : bool) (off : N) (t : tree) : list byte :=
  enc_uleb (t_code codes t) ++ concat (map (enc_item bigend (off + tree_size codes t)) (t_items t)).

Definition kids_bytes (codes : coding) (bigend : bool) (off : N) (t : tree) : list byte :=
  if has_children t
  then on_list (enc_tree codes bigend) (tree_size codes) (kids_off codes off t) (t_kids t) ++ [x00]
  else [].

Lemma enc_tree_split codes bigend off t :
  enc_tree codes bigend off t = head_bytes codes bigend off t ++ kids_bytes codes bigend off t.
Proof. rewrite enc_tree_unfold. unfold head_bytes, kids_bytes. rewrite app_assoc. reflexivity. Qed.

Lemma head_bytes_len codes bigend off t :
  nlen (head_bytes codes bigend off t) = kids_off codes off t - off.
Proof. unfold head_bytes, kids_off. rewrite nlen_app, nlen_concat_items. lia. Qed.

Lemma kids_off_ge codes off t : off < kids_off codes off t.
Proof. unfold kids_off. pose proof (enc_uleb_length (t_code codes t)). unfold nlen. lia. Qed.

Lemma head_bytes_cons codes bigend off t : exists b r, head_bytes codes bigend off t = b :: r.
Proof. unfold head_bytes. destruct (enc_uleb_cons (t_code codes t)) as (b & r & E). rewrite E. cbn [app]. eauto. Qed.

Definition covered (tbl : abbrevs) (codes : coding) (t : tree) : Prop :=
  tbl_get tbl (t_code codes t) = Some (t_abbrev codes t).

Definition post_depth (d : Z) (t : tree) : Z := if has_children t then (d + 1)%Z else d.

(* the root entry of a tree, whatever follows its attributes *)
Lemma read_head dbg e tbl codes t off d rest E :
  addr_size_ok e -> covered tbl codes t -> node_ok codes e t -> node_fits codes (off, t) ->
  E = off + nlen (head_bytes codes (be e) off t) + nlen rest -> E < two64 ->
  depth_ok d (head_bytes codes (be e) off t ++ rest) ->
  read_entry dbg e tbl (mkRaw (head_bytes codes (be e) off t ++ rest) E d) =
  Ok (true, root_die codes off d t, mkRaw rest E (post_depth d t)).
Proof.
  intros He Hcov [Hab Hitems] Hfit HE HE64 [D1 D2].
  unfold read_entry. cbn [r_depth].
  rewrite next_offset_ok by (rewrite nlen_app; lia). cbn [bind].
  replace (E - nlen (head_bytes codes (be e) off t ++ rest)) with off by (rewrite nlen_app; lia).
  unfold read_abbreviation. cbn [r_in r_end r_depth].
  unfold head_bytes. rewrite <- !app_assoc.
  destruct Hab as (Hc & Htag & Hspecs). cbn [t_abbrev ab_code] in Hc.
  rewrite read_uleb128_enc by lia. cbn [bind].
  replace (t_code codes t =? 0) with false by lia.
  unfold covered in Hcov. rewrite Hcov.
  rewrite nlen_app in D1, D2. destruct (head_bytes_cons codes (be e) off t) as (b0 & r0 & Eh).
  rewrite Eh, nlen_cons in D1, D2.
  assert (Hd : (if has_children t then chk_s 64 dbg (d + 1) else Ok d) = Ok (post_depth d t)).
  { unfold post_depth. destruct (has_children t); [apply chk_s_ok; lia|reflexivity]. }
  unfold t_abbrev. cbn [ab_children ab_specs ab_tag].
  rewrite Hd. cbn [bind r_in r_end r_depth ab_children ab_specs ab_tag].
  unfold node_fits in Hfit. cbn [fst snd] in Hfit.
  unfold t_specs. rewrite read_items; try assumption.
  cbn [bind]. unfold root_die. reflexivity.
Qed.

Lemma root_die_not_null codes e off d t : node_ok codes e t -> is_null (root_die codes off d t) = false.
Proof.
  intros [(_ & Ht & _) _]. cbn [t_abbrev ab_tag] in Ht. unfold is_null, root_die. cbn [d_tag]. lia.
Qed.

(* ------------------------------------------------------------------ *)
(** * The entry stream as a list of events *)

Record xev : Type := mkX { x_bytes : list byte; x_die : die; x_post : Z }.

Definition xbytes (l : list xev) : list byte := concat (map x_bytes l).

(* reading an event's bytes, at its offset and depth, reports its entry and moves to x_post *)
Definition ev_ok (dbg : bool) (e : enc) (tbl : abbrevs) (x : xev) : Prop :=
  (exists b r, x_bytes x = b :: r) /\
  (d_depth (x_die x) - 1 <= x_post x <= d_depth (x_die x) + 1)%Z /\
  forall rest E,
    E = d_offset (x_die x) + nlen (x_bytes x) + nlen rest -> E < two64 ->
    depth_ok (d_depth (x_die x)) (x_bytes x ++ rest) ->
    read_entry dbg e tbl (mkRaw (x_bytes x ++ rest) E (d_depth (x_die x))) =
    Ok (negb (is_null (x_die x)), x_die x, mkRaw rest E (x_post x)).

Definition null_ev (off : N) (d : Z) : xev := mkX [x00] (null_at off d) (d - 1).

Lemma null_ev_ok dbg e tbl off d : ev_ok dbg e tbl (null_ev off d).
Proof.
  split; [cbn; eauto|]. split; [cbn [null_ev x_die x_post null_at d_depth]; lia|].
  intros rest E HE HE64 Hd. cbn [null_ev x_bytes x_die x_post null_at d_depth d_offset app] in *.
  rewrite read_null; [|rewrite nlen_cons in *; change (nlen [x00]) with 1 in HE; lia|exact Hd].
  replace (E - nlen (x00 :: rest)) with off by (rewrite nlen_cons; change (nlen [x00]) with 1 in HE; lia).
  reflexivity.
Qed.

Definition head_ev (codes : coding) (bigend : bool) (d : Z) (off : N) (t : tree) : xev :=
  mkX (head_bytes codes bigend off t) (root_die codes off d t) (post_depth d t).

Lemma head_ev_ok dbg e tbl codes d off t :
  addr_size_ok e -> covered tbl codes t -> node_ok codes e t -> node_fits codes (off, t) ->
  ev_ok dbg e tbl (head_ev codes (be e) d off t).
Proof.
  intros He Hc Hok Hfit. split; [apply head_bytes_cons|].
  split; [cbn [head_ev x_die x_post root_die d_depth]; unfold post_depth; destruct (has_children t); lia|].
  intros rest E HE HE64 Hd. cbn [head_ev x_bytes x_die x_post] in *.
  rewrite (root_die_not_null codes e off d t Hok). cbn [negb].
  cbn [root_die d_depth d_offset] in *. apply read_head; assumption.
Qed.

Fixpoint evs (codes : coding) (bigend : bool) (d : Z) (off : N) (t : tree) : list xev :=
  match t with
  | Node tag flag items kids =>
      head_ev codes bigend d off t ::
      (if has_children t
       then on_list (evs codes bigend (d + 1)) (tree_size codes) (kids_off codes off t) kids ++
            [null_ev (off + tree_size codes t - 1) (d + 1)]
       else [])
  end.

Lemma evs_unfold codes bigend d off t :
  evs codes bigend d off t =
  head_ev codes bigend d off t ::
  (if has_children t
   then on_list (evs codes bigend (d + 1)) (tree_size codes) (kids_off codes off t) (t_kids t) ++
        [null_ev (off + tree_size codes t - 1) (d + 1)]
   else []).
Proof. destruct t. reflexivity. Qed.

Definition evs_list (codes : coding) (bigend : bool) (d : Z) (off : N) (l : list tree) : list xev :=
  on_list (evs codes bigend d) (tree_size codes) off l.

Lemma xbytes_app a b : xbytes (a ++ b) = xbytes a ++ xbytes b.
Proof. unfold xbytes. rewrite map_app, concat_app. reflexivity. Qed.

(* the events spell the encoding *)
Lemma evs_list_bytes_of codes bigend d : forall l off,
  Forall (fun t => forall d o, xbytes (evs codes bigend d o t) = enc_tree codes bigend o t) l ->
  xbytes (evs_list codes bigend d off l) = on_list (enc_tree codes bigend) (tree_size codes) off l.
Proof.
  unfold evs_list. induction l as [|t l IH]; intros off H; [reflexivity|]. inversion H; subst.
  rewrite !on_list_cons, xbytes_app, IH by assumption. f_equal. auto.
Qed.

Lemma evs_bytes codes bigend : forall t d off, xbytes (evs codes bigend d off t) = enc_tree codes bigend off t.
Proof.
  induction t as [tag flag items kids IH] using tree_ind'. intros d off.
  rewrite evs_unfold, enc_tree_split. cbn [t_kids]. unfold kids_bytes.
  change (xbytes (?x :: ?l)) with (x_bytes x ++ xbytes l). cbn [head_ev x_bytes]. f_equal.
  destruct (has_children (Node tag flag items kids)); [|reflexivity].
  rewrite xbytes_app. fold (evs_list codes bigend (d + 1) (kids_off codes off (Node tag flag items kids)) kids).
  rewrite evs_list_bytes_of by exact IH. reflexivity.
Qed.

Lemma evs_list_bytes codes bigend d l off :
  xbytes (evs_list codes bigend d off l) = on_list (enc_tree codes bigend) (tree_size codes) off l.
Proof. apply evs_list_bytes_of. apply Forall_forall. intros t _ d' o. apply evs_bytes. Qed.

(* the events report the entry sequence of the specification *)
Lemma evs_list_dies_of codes bigend d : forall l off,
  Forall (fun t => forall d o, map x_die (evs codes bigend d o t) = seq_tree codes d o t) l ->
  map x_die (evs_list codes bigend d off l) = on_list (seq_tree codes d) (tree_size codes) off l.
Proof.
  unfold evs_list. induction l as [|t l IH]; intros off H; [reflexivity|]. inversion H; subst.
  rewrite !on_list_cons, map_app, IH by assumption. f_equal. auto.
Qed.

Lemma seq_tree_unfold codes d off t :
  seq_tree codes d off t =
  root_die codes off d t ::
  (if has_children t
   then on_list (seq_tree codes (d + 1)) (tree_size codes) (kids_off codes off t) (t_kids t) ++
        [null_at (off + tree_size codes t - 1) (d + 1)]
   else []).
Proof. destruct t. reflexivity. Qed.

Lemma evs_dies codes bigend : forall t d off, map x_die (evs codes bigend d off t) = seq_tree codes d off t.
Proof.
  induction t as [tag flag items kids IH] using tree_ind'. intros d off.
  rewrite evs_unfold, seq_tree_unfold. cbn [t_kids map head_ev x_die]. f_equal.
  destruct (has_children (Node tag flag items kids)); [|reflexivity].
  rewrite map_app. fold (evs_list codes bigend (d + 1) (kids_off codes off (Node tag flag items kids)) kids).
  rewrite evs_list_dies_of by exact IH. reflexivity.
Qed.

Lemma evs_list_dies codes bigend d l off :
  map x_die (evs_list codes bigend d off l) = on_list (seq_tree codes d) (tree_size codes) off l.
Proof. apply evs_list_dies_of. apply Forall_forall. intros t _ d' o. apply evs_dies. Qed.

(* offsets and depths of consecutive events *)
Fixpoint chain (off : N) (d : Z) (l : list xev) : Prop :=
  match l with
  | [] => True
  | x :: l' => d_offset (x_die x) = off /\ d_depth (x_die x) = d /\
               chain (off + nlen (x_bytes x)) (x_post x) l'
  end.
Fixpoint end_depth (d : Z) (l : list xev) : Z :=
  match l with [] => d | x :: l' => end_depth (x_post x) l' end.

Lemma chain_app : forall l1 off d l2,
  chain off d (l1 ++ l2) <-> chain off d l1 /\ chain (off + nlen (xbytes l1)) (end_depth d l1) l2.
Proof.
  induction l1 as [|x l1 IH]; intros off d l2.
  - cbn [app chain end_depth xbytes map concat]. change (nlen (@nil byte)) with 0. rewrite N.add_0_r. tauto.
  - cbn [app chain end_depth]. rewrite IH.
    change (xbytes (x :: l1)) with (x_bytes x ++ xbytes l1). rewrite nlen_app, N.add_assoc. tauto.
Qed.

Lemma end_depth_app : forall l1 d l2, end_depth d (l1 ++ l2) = end_depth (end_depth d l1) l2.
Proof. induction l1 as [|x l1 IH]; intros d l2; [reflexivity|]. cbn [app end_depth]. apply IH. Qed.

Lemma evs_list_chain_of codes bigend d : forall l off,
  Forall (fun t => forall d o, chain o d (evs codes bigend d o t) /\ end_depth d (evs codes bigend d o t) = d) l ->
  chain off d (evs_list codes bigend d off l) /\ end_depth d (evs_list codes bigend d off l) = d.
Proof.
  unfold evs_list. induction l as [|t l IH]; intros off H; [split; reflexivity|]. inversion H as [|? ? Ht Hl]; subst.
  rewrite on_list_cons. destruct (Ht d off) as [C1 E1]. destruct (IH (off + tree_size codes t) Hl) as [C2 E2].
  split.
  - apply chain_app. split; [exact C1|]. rewrite E1, evs_bytes, enc_tree_len. exact C2.
  - rewrite end_depth_app, E1. exact E2.
Qed.

Lemma evs_chain codes bigend : forall t d off,
  chain off d (evs codes bigend d off t) /\ end_depth d (evs codes bigend d off t) = d.
Proof.
  induction t as [tag flag items kids IH] using tree_ind'. intros d off.
  set (t := Node tag flag items kids) in *.
  rewrite evs_unfold. change (t_kids t) with kids.
  cbn [chain end_depth head_ev x_die x_bytes x_post root_die d_offset d_depth].
  unfold post_depth. destruct (has_children t) eqn:Hc.
  - fold (evs_list codes bigend (d + 1) (kids_off codes off t) kids).
    destruct (evs_list_chain_of codes bigend (d + 1) kids (kids_off codes off t) IH) as [C E].
    pose proof (kids_off_ge codes off t) as Hk.
    rewrite head_bytes_len. replace (off + (kids_off codes off t - off)) with (kids_off codes off t) by lia.
    split.
    + split; [reflexivity|]. split; [reflexivity|]. apply chain_app. split; [exact C|].
      rewrite E. cbn [chain null_ev x_die null_at d_offset d_depth]. repeat split.
      rewrite evs_list_bytes, enc_forest_list_len.
      rewrite (tree_size_unfold codes t), Hc. unfold kids_off, forest_size. cbn [t_kids t]. lia.
    + rewrite end_depth_app, E. cbn [end_depth null_ev x_post]. lia.
  - cbn [chain end_depth]. auto.
Qed.

Lemma evs_list_chain codes bigend d l off :
  chain off d (evs_list codes bigend d off l) /\ end_depth d (evs_list codes bigend d off l) = d.
Proof. apply evs_list_chain_of. apply Forall_forall. intros t _ d' o. apply evs_chain. Qed.

(* every event of a well-formed forest is readable *)
Definition placed_ok (e : enc) (tbl : abbrevs) (codes : coding) (p : N * tree) : Prop :=
  covered tbl codes (snd p) /\ node_ok codes e (snd p) /\ node_fits codes p.

Lemma placed_unfold codes off t :
  placed codes off t = (off, t) :: on_list (placed codes) (tree_size codes) (kids_off codes off t) (t_kids t).
Proof. destruct t. reflexivity. Qed.

Lemma evs_list_ok_of dbg e tbl codes d : forall l off,
  Forall (fun t => forall d o, Forall (placed_ok e tbl codes) (placed codes o t) ->
                               Forall (ev_ok dbg e tbl) (evs codes (be e) d o t)) l ->
  Forall (placed_ok e tbl codes) (on_list (placed codes) (tree_size codes) off l) ->
  Forall (ev_ok dbg e tbl) (evs_list codes (be e) d off l).
Proof.
  unfold evs_list. induction l as [|t l IH]; intros off H Hp; [constructor|]. inversion H; subst.
  rewrite on_list_cons in *. apply Forall_app in Hp. destruct Hp as [Hp1 Hp2].
  apply Forall_app. split; auto.
Qed.

Lemma evs_ok dbg e tbl codes : addr_size_ok e -> forall t d off,
  Forall (placed_ok e tbl codes) (placed codes off t) -> Forall (ev_ok dbg e tbl) (evs codes (be e) d off t).
Proof.
  intros He. induction t as [tag flag items kids IH] using tree_ind'. intros d off Hp.
  set (t := Node tag flag items kids) in *.
  rewrite placed_unfold in Hp. inversion Hp as [|? ? (Hc & Hok & Hfit) Hk]; subst. cbn [snd t_kids t] in *.
  rewrite evs_unfold. change (t_kids t) with kids. constructor; [apply head_ev_ok; assumption|].
  destruct (has_children t); [|constructor].
  apply Forall_app. split; [|constructor; [apply null_ev_ok|constructor]].
  apply (evs_list_ok_of dbg e tbl codes (d + 1) kids); assumption.
Qed.

Lemma evs_list_ok dbg e tbl codes d l off : addr_size_ok e ->
  Forall (placed_ok e tbl codes) (on_list (placed codes) (tree_size codes) off l) ->
  Forall (ev_ok dbg e tbl) (evs_list codes (be e) d off l).
Proof.
  intros He. apply evs_list_ok_of. apply Forall_forall. intros t _ d' o. apply evs_ok. exact He.
Qed.

(* padding *)
Fixpoint pad_evs (off : N) (d : Z) (n : nat) : list xev :=
  match n with O => [] | S k => null_ev off d :: pad_evs (off + 1) (d - 1) k end.

Lemma pad_evs_bytes : forall n off d, xbytes (pad_evs off d n) = repeat x00 n.
Proof. induction n as [|n IH]; intros off d; [reflexivity|]. cbn [pad_evs repeat]. change (xbytes (?x :: ?l)) with (x_bytes x ++ xbytes l). rewrite IH. reflexivity. Qed.
Lemma pad_evs_dies : forall n off d, map x_die (pad_evs off d n) = pad_nulls off d n.
Proof. induction n as [|n IH]; intros off d; [reflexivity|]. cbn [pad_evs pad_nulls map]. rewrite IH. reflexivity. Qed.
Lemma pad_evs_chain : forall n off d, chain off d (pad_evs off d n).
Proof.
  induction n as [|n IH]; intros off d; [exact I|]. cbn [pad_evs chain null_ev x_die x_bytes x_post null_at d_offset d_depth].
  repeat split. change (nlen [x00]) with 1. apply IH.
Qed.
Lemma pad_evs_ok dbg e tbl : forall n off d, Forall (ev_ok dbg e tbl) (pad_evs off d n).
Proof. induction n as [|n IH]; intros off d; constructor; [apply null_ev_ok|apply IH]. Qed.

(* ------------------------------------------------------------------ *)
(** * Theorem 3: the raw loop over a chain of readable events *)

Lemma depth_ok_step d x rest :
  (exists b r, x_bytes x = b :: r) -> (d - 1 <= x_post x <= d + 1)%Z ->
  depth_ok d (x_bytes x ++ rest) -> depth_ok (x_post x) rest.
Proof.
  intros (b & r & E) Hp [D1 D2]. rewrite E in D1, D2. cbn [app] in D1, D2. rewrite nlen_cons, nlen_app in D1, D2.
  split; lia.
Qed.

Lemma raw_loop_chain dbg e tbl : forall l off d rest E fuel,
  Forall (ev_ok dbg e tbl) l -> chain off d l ->
  E = off + nlen (xbytes l) + nlen rest -> E < two64 -> depth_ok d (xbytes l ++ rest) ->
  raw_loop (length l + fuel) dbg e tbl (mkRaw (xbytes l ++ rest) E d) =
  (let* (l', err) := raw_loop fuel dbg e tbl (mkRaw rest E (end_depth d l)) in Ok (map x_die l ++ l', err)) /\
  depth_ok (end_depth d l) rest.
Proof.
  induction l as [|x l IH]; intros off d rest E fuel Hok Hch HE HE64 Hd.
  - cbn [length Nat.add xbytes map concat app end_depth]. split; [|exact Hd].
    destruct (raw_loop fuel dbg e tbl (mkRaw rest E d)) as [[l' err]| | |]; reflexivity.
  - inversion Hok as [|? ? Hx Hl]; subst. destruct Hch as (Ho & Hdd & Hch).
    destruct Hx as (Hne & Hpost & Hread).
    change (xbytes (x :: l)) with (x_bytes x ++ xbytes l) in *. rewrite <- app_assoc in *.
    cbn [length Nat.add raw_loop].
    destruct Hne as (b & r & Eb).
    replace (raw_is_empty (mkRaw (x_bytes x ++ xbytes l ++ rest) (off + nlen (x_bytes x ++ xbytes l) + nlen rest) d))
      with false by (unfold raw_is_empty; cbn [r_in]; rewrite Eb; reflexivity).
    rewrite <- Hdd. rewrite (Hread (xbytes l ++ rest)); [| rewrite Ho, !nlen_app; lia | assumption | rewrite Hdd; exact Hd].
    rewrite nlen_app in HE64 |- *.
    assert (Hd' : depth_ok (x_post x) (xbytes l ++ rest)).
    { apply (depth_ok_step d x); [eauto|lia|exact Hd]. }
    destruct (IH (off + nlen (x_bytes x)) (x_post x) rest (off + (nlen (x_bytes x) + nlen (xbytes l)) + nlen rest) fuel)
      as [IH1 IH2]; try assumption; [lia|].
    rewrite IH1. cbn [end_depth]. split; [|exact IH2].
    destruct (raw_loop fuel dbg e tbl (mkRaw rest (off + (nlen (x_bytes x) + nlen (xbytes l)) + nlen rest) (end_depth (x_post x) l)))
      as [[l' err]| | |]; reflexivity.
Qed.

(* ------------------------------------------------------------------ *)
(** * A whole unit *)

Lemma placed_nodes codes : forall t off, map snd (placed codes off t) = nodes t.
Proof.
  induction t as [tag flag items kids IH] using tree_ind'. intros off.
  rewrite placed_unfold. cbn [map snd nodes t_kids]. f_equal.
  generalize (kids_off codes off (Node tag flag items kids)). clear -IH.
  induction kids as [|k kids IHk]; intros o; [reflexivity|]. inversion IH; subst.
  rewrite on_list_cons, map_app. cbn [flat_map]. f_equal; auto.
Qed.

Lemma placed_list_nodes codes : forall f off,
  map snd (on_list (placed codes) (tree_size codes) off f) = forest_nodes f.
Proof.
  induction f as [|t f IH]; intros off; [reflexivity|].
  rewrite on_list_cons, map_app, placed_nodes, IH. reflexivity.
Qed.

Definition all_covered (tbl : abbrevs) (codes : coding) (f : list tree) : Prop :=
  Forall (covered tbl codes) (forest_nodes f).

Lemma placed_ok_all e tbl codes off f :
  all_covered tbl codes f -> forest_ok codes e f -> sibs_fit codes off f ->
  Forall (placed_ok e tbl codes) (on_list (placed codes) (tree_size codes) off f).
Proof.
  unfold all_covered, forest_ok, sibs_fit. rewrite <- (placed_list_nodes codes f off).
  set (l := on_list (placed codes) (tree_size codes) off f). clearbody l.
  rewrite !Forall_forall. intros H1 H2 H3 p Hp. unfold placed_ok. split; [|split].
  - apply H1. apply in_map. exact Hp.
  - apply H2. apply in_map. exact Hp.
  - apply H3. exact Hp.
Qed.

(* all events of a unit body *)
Definition body_evs (codes : coding) (bigend : bool) (off : N) (f : list tree) (pad : nat) : list xev :=
  evs_list codes bigend 0 off f ++ pad_evs (off + forest_size codes f) 0 pad.

Lemma body_evs_bytes codes bigend off f pad :
  xbytes (body_evs codes bigend off f pad) = enc_forest codes bigend off f pad.
Proof. unfold body_evs, enc_forest. rewrite xbytes_app, evs_list_bytes, pad_evs_bytes. reflexivity. Qed.

Lemma body_evs_dies codes bigend off f pad :
  map x_die (body_evs codes bigend off f pad) = raw_seq codes off f pad.
Proof. unfold body_evs, raw_seq. rewrite map_app, evs_list_dies, pad_evs_dies. reflexivity. Qed.

Lemma body_evs_chain codes bigend off f pad : chain off 0 (body_evs codes bigend off f pad).
Proof.
  unfold body_evs. apply chain_app. destruct (evs_list_chain codes bigend 0 f off) as [C E].
  split; [exact C|]. rewrite E, evs_list_bytes, enc_forest_list_len. apply pad_evs_chain.
Qed.

Lemma body_evs_ok dbg e tbl codes off f pad : addr_size_ok e ->
  all_covered tbl codes f -> forest_ok codes e f -> sibs_fit codes off f ->
  Forall (ev_ok dbg e tbl) (body_evs codes (be e) off f pad).
Proof.
  intros He H1 H2 H3. unfold body_evs. apply Forall_app. split.
  - apply evs_list_ok; [exact He|]. apply placed_ok_all; assumption.
  - apply pad_evs_ok.
Qed.

Lemma xbytes_length_le : forall l, Forall (fun x => exists b r, x_bytes x = b :: r) l ->
  (length l <= length (xbytes l))%nat.
Proof.
  induction l as [|x l IH]; intros H; [cbn; lia|]. inversion H as [|? ? (b & r & E) Hl]; subst.
  change (xbytes (x :: l)) with (x_bytes x ++ xbytes l). rewrite app_length, E. cbn [length].
  specialize (IH Hl). lia.
Qed.

(* the raw loop over a complete chain: fuel S |input| is enough *)
Lemma raw_loop_all dbg e tbl l off E :
  Forall (ev_ok dbg e tbl) l -> chain off 0 l -> E = off + nlen (xbytes l) -> E < two63 ->
  raw_loop (S (length (xbytes l))) dbg e tbl (mkRaw (xbytes l) E 0) = Ok (map x_die l, None).
Proof.
  intros Hok Hch HE HE63.
  assert (Hlen : (length l <= length (xbytes l))%nat).
  { apply xbytes_length_le. eapply Forall_impl; [|exact Hok]. intros x (H & _). exact H. }
  replace (S (length (xbytes l))) with (length l + S (length (xbytes l) - length l))%nat by lia.
  rewrite <- (app_nil_r (xbytes l)) at 2.
  destruct (raw_loop_chain dbg e tbl l off 0 [] E (S (length (xbytes l) - length l))) as [R _]; try assumption.
  - change (nlen (@nil byte)) with 0. lia.
  - unfold two63 in HE63. unfold two64. lia.
  - rewrite app_nil_r. unfold two63 in HE63. split; unfold nlen in *; lia.
  - rewrite R. cbn [raw_loop raw_is_empty r_in is_nil bind]. rewrite app_nil_r. reflexivity.
Qed.

(* positioned access: the entries from a unit offset on *)
Lemma skip_n_app_len pre post : skip_n (nlen pre) (pre ++ post) = Ok post.
Proof. apply skip_n_app. Qed.

Lemma entries_raw_at dbg bigend types uoff h pre post o :
  header_len h + nlen (pre ++ post) < two63 -> post <> [] -> o = header_len h + nlen pre ->
  entries_raw dbg (parsed_header bigend types uoff h (pre ++ post)) (Some o) =
  Ok (mkRaw post (header_len h + nlen (pre ++ post)) 0).
Proof.
  intros Hlen Hpost Ho. unfold entries_raw, range_from, is_in_bounds. cbn [bind].
  assert (Hhs : header_size dbg (parsed_header bigend types uoff h (pre ++ post)) = Ok (header_len h)).
  { apply header_size_parsed. rewrite header_len_split in Hlen. unfold unit_length_of, two63 in *. unfold two64.
    assert (initial_length_size (uh_fmt64 h) >= 4) by (destruct (uh_fmt64 h); cbn; lia). lia. }
  rewrite Hhs. cbn [bind]. replace (o <? header_len h) with false by lia.
  cbn [parsed_header u_entries]. rewrite nlen_app in *.
  assert (0 < nlen post) by (destruct post; [congruence|rewrite nlen_cons; lia]).
  replace (o - header_len h <? nlen pre + nlen post) with true by lia. cbn [negb bind].
  unfold chk_sub. replace (header_len h <=? o) with true by lia. cbn [bind].
  replace (o - header_len h) with (nlen pre) by lia. rewrite skip_n_app_len. cbn [bind].
  unfold raw_new, chk_add. change (2 ^ 64) with two64. unfold two63 in Hlen. unfold two64.
  replace (o + nlen post <? 18446744073709551616) with true by lia. cbn [bind]. f_equal. f_equal. lia.
Qed.

Lemma entries_raw_root dbg bigend types uoff h body :
  header_len h + nlen body < two63 -> body <> [] ->
  entries_raw dbg (parsed_header bigend types uoff h body) None = Ok (mkRaw body (header_len h + nlen body) 0).
Proof.
  intros Hlen Hb. unfold entries_raw.
  assert (Hhs : header_size dbg (parsed_header bigend types uoff h body) = Ok (header_len h)).
  { apply header_size_parsed. rewrite header_len_split in Hlen. unfold unit_length_of, two63 in *. unfold two64.
    assert (initial_length_size (uh_fmt64 h) >= 4) by (destruct (uh_fmt64 h); cbn; lia). lia. }
  rewrite Hhs. cbn [bind].
  pose proof (entries_raw_at dbg bigend types uoff h [] body (header_len h)) as H.
  cbn [app] in H. unfold entries_raw in H. cbn [bind] in H. apply H; [assumption|assumption|].
  change (nlen (@nil byte)) with 0. lia.
Qed.

Definition unit_enc (bigend : bool) (h : uheader) : enc :=
  mkEnc (uh_version h) (uh_fmt64 h) (uh_asize h) bigend.

(* Theorem 3 *)
Lemma raw_is_preorder dbg bigend types uoff h codes f pad tbl :
  let e := unit_enc bigend h in
  let body := enc_forest codes bigend (header_len h) f pad in
  addr_size_ok e -> header_len h + nlen body < two63 -> body <> [] ->
  all_covered tbl codes f -> forest_ok codes e f -> sibs_fit codes (header_len h) f ->
  read_all_raw dbg (parsed_header bigend types uoff h body) tbl None =
  Ok (raw_seq codes (header_len h) f pad, None).
Proof.
  intros e body He Hlen Hb H1 H2 H3. unfold read_all_raw.
  rewrite entries_raw_root by assumption. cbn [bind r_in].
  change (u_enc (parsed_header bigend types uoff h body)) with e.
  unfold body. rewrite <- (body_evs_bytes codes bigend (header_len h) f pad).
  rewrite raw_loop_all with (off := header_len h).
  - rewrite body_evs_dies. reflexivity.
  - change bigend with (be e). apply body_evs_ok; assumption.
  - apply body_evs_chain.
  - reflexivity.
  - rewrite body_evs_bytes. exact Hlen.
Qed.

(* the entries proper of the raw sequence are the preorder *)
Definition not_null (d : die) : bool := negb (is_null d).

Lemma filter_seq_list_of codes e d : forall l off,
  Forall (fun t => Forall (node_ok codes e) (nodes t) ->
                   forall d o, filter not_null (seq_tree codes d o t) = pre_tree codes d o t) l ->
  Forall (node_ok codes e) (forest_nodes l) ->
  filter not_null (on_list (seq_tree codes d) (tree_size codes) off l) =
  on_list (pre_tree codes d) (tree_size codes) off l.
Proof.
  induction l as [|t l IH]; intros off H Hok; [reflexivity|]. inversion H; subst.
  cbn [forest_nodes flat_map] in Hok. apply Forall_app in Hok. destruct Hok as [Ht Hl].
  rewrite !on_list_cons, filter_app. f_equal; auto.
Qed.

Lemma filter_seq_tree codes e : forall t, Forall (node_ok codes e) (nodes t) ->
  forall d off, filter not_null (seq_tree codes d off t) = pre_tree codes d off t.
Proof.
  induction t as [tag flag items kids IH] using tree_ind'. intros Hok d off.
  set (t := Node tag flag items kids) in *.
  cbn [nodes t] in Hok. inversion Hok as [|? ? Ht Hk]; subst.
  rewrite seq_tree_unfold. change (pre_tree codes d off t) with
    (root_die codes off d t :: on_list (pre_tree codes (d + 1)) (tree_size codes) (kids_off codes off t) kids).
  change (t_kids t) with kids. cbn [filter]. unfold not_null at 1.
  rewrite (root_die_not_null codes e off d t Ht). cbn [negb]. f_equal.
  destruct (has_children t) eqn:Hc.
  - rewrite filter_app. cbn [filter not_null is_null null_at d_tag N.eqb negb]. rewrite app_nil_r.
    apply (filter_seq_list_of codes e (d + 1) kids); assumption.
  - apply no_children_no_kids in Hc. change (t_kids t) with kids in Hc. subst kids. reflexivity.
Qed.

Lemma filter_pad_nulls : forall n off d, filter not_null (pad_nulls off d n) = [].
Proof. induction n as [|n IH]; intros off d; [reflexivity|]. cbn [pad_nulls filter not_null is_null null_at d_tag N.eqb negb]. apply IH. Qed.

Lemma raw_seq_preorder codes e off f pad : forest_ok codes e f ->
  filter not_null (raw_seq codes off f pad) = preorder codes off 0 f.
Proof.
  intros Hok. unfold raw_seq, preorder. rewrite filter_app, filter_pad_nulls, app_nil_r.
  apply (filter_seq_list_of codes e 0 f); [|exact Hok].
  apply Forall_forall. intros t _ Ht d o. apply (filter_seq_tree codes e); assumption.
Qed.

(* ------------------------------------------------------------------ *)
(** * A reader positioned in front of a chain of events *)

Record at_chain (dbg : bool) (e : enc) (tbl : abbrevs) (E : N) (rest : list byte) (r : raw_st) (l : list xev)
  : Prop := mkAt {
  at_ok : Forall (ev_ok dbg e tbl) l;
  at_in : r_in r = xbytes l ++ rest;
  at_end : r_end r = E;
  at_chn : chain (E - nlen (xbytes l ++ rest)) (r_depth r) l;
  at_le : nlen (xbytes l ++ rest) <= E;
  at_lt : E < two64;
  at_depth : depth_ok (r_depth r) (xbytes l ++ rest)
}.

Lemma at_chain_step dbg e tbl E rest r x l :
  at_chain dbg e tbl E rest r (x :: l) ->
  read_entry dbg e tbl r = Ok (negb (is_null (x_die x)), x_die x, mkRaw (xbytes l ++ rest) E (x_post x)) /\
  at_chain dbg e tbl E rest (mkRaw (xbytes l ++ rest) E (x_post x)) l /\
  d_offset (x_die x) = E - nlen (xbytes (x :: l) ++ rest) /\ d_depth (x_die x) = r_depth r /\
  (exists b r0, r_in r = b :: r0).
Proof.
  intros [Hok Hin Hend Hch Hle Hlt Hd]. apply Forall_cons_iff in Hok. destruct Hok as [Hx Hl].
  destruct Hch as (Ho & Hdd & Hch). destruct Hx as (Hne & Hpost & Hread).
  change (xbytes (x :: l)) with (x_bytes x ++ xbytes l) in *. rewrite <- app_assoc in *.
  rewrite !nlen_app in *.
  destruct r as [inp E' d]. cbn [r_in r_end r_depth] in *. subst inp E'.
  split; [|split; [|split; [|split]]].
  - rewrite <- Hdd. apply Hread; [rewrite Ho, !nlen_app; lia|exact Hlt|rewrite Hdd; exact Hd].
  - split; cbn [r_in r_end r_depth]; try assumption; try reflexivity.
    + rewrite nlen_app. replace (E - (nlen (xbytes l) + nlen rest)) with (E - (nlen (x_bytes x) + (nlen (xbytes l) + nlen rest)) + nlen (x_bytes x)) by lia.
      exact Hch.
    + rewrite nlen_app. lia.
    + apply (depth_ok_step d x); [exact Hne|lia|exact Hd].
  - exact Ho.
  - exact Hdd.
  - destruct Hne as (b & r0 & Eb). rewrite Eb. cbn [app]. eauto.
Qed.

Lemma next_entry_chain dbg e tbl E rest c x l :
  at_chain dbg e tbl E rest (c_raw c) (x :: l) ->
  next_entry dbg e tbl c = Ok (SOk true (mkCur (mkRaw (xbytes l ++ rest) E (x_post x)) (x_die x))).
Proof.
  intros H. destruct (at_chain_step _ _ _ _ _ _ _ _ H) as (Hr & _ & _ & _ & (b & r0 & Eb)).
  unfold next_entry, raw_is_empty. rewrite Eb. cbn [is_nil]. rewrite Hr. reflexivity.
Qed.

Lemma next_entry_end dbg e tbl c : r_in (c_raw c) = [] ->
  next_entry dbg e tbl c = Ok (SOk false (mkCur (c_raw c) (set_null (c_cur c)))).
Proof. intros H. unfold next_entry, raw_is_empty. rewrite H. reflexivity. Qed.

(* `while cursor.next_entry()?` reports every event *)
Lemma entries_all_chain dbg e tbl E : forall l fuel c,
  at_chain dbg e tbl E [] (c_raw c) l -> (length l < fuel)%nat ->
  entries_all fuel dbg e tbl c = Ok (map x_die l, None).
Proof.
  induction l as [|x l IH]; intros fuel c Hat Hf; (destruct fuel; [lia|]); cbn [entries_all].
  - rewrite next_entry_end; [reflexivity|]. destruct Hat as [_ Hin _ _ _ _ _]. exact Hin.
  - rewrite (next_entry_chain _ _ _ _ _ _ _ _ Hat). cbn [bind c_cur].
    destruct (at_chain_step _ _ _ _ _ _ _ _ Hat) as (_ & Hat' & _).
    rewrite (IH fuel (mkCur (mkRaw (xbytes l ++ []) E (x_post x)) (x_die x))); [reflexivity|exact Hat'|cbn in Hf; lia].
Qed.

(* next_dfs: skip the leading null events *)
Fixpoint skip_nulls (l : list xev) : list xev :=
  match l with
  | [] => []
  | x :: l' => if is_null (x_die x) then skip_nulls l' else l
  end.

Lemma skip_nulls_filter : forall l,
  match skip_nulls l with
  | [] => filter not_null (map x_die l) = []
  | x :: l' => filter not_null (map x_die l) = x_die x :: filter not_null (map x_die l') /\
               is_null (x_die x) = false /\ (length l' < length l)%nat
  end.
Proof.
  induction l as [|x l IH]; [reflexivity|]. cbn [skip_nulls map filter].
  assert (Hn : not_null (x_die x) = negb (is_null (x_die x))) by reflexivity.
  destruct (is_null (x_die x)) eqn:En; cbn [negb] in Hn; rewrite Hn.
  - destruct (skip_nulls l) as [|y l']; [exact IH|]. destruct IH as (A & B & C).
    split; [exact A|]. split; [exact B|]. cbn [length]. lia.
  - split; [reflexivity|]. split; [exact En|]. cbn [length]. lia.
Qed.

Lemma next_dfs_chain dbg e tbl E : forall l fuel c,
  at_chain dbg e tbl E [] (c_raw c) l -> (length l < fuel)%nat ->
  match skip_nulls l with
  | [] => exists c', next_dfs fuel dbg e tbl c = Ok (SOk None c')
  | x :: l' => next_dfs fuel dbg e tbl c =
                 Ok (SOk (Some (x_die x)) (mkCur (mkRaw (xbytes l' ++ []) E (x_post x)) (x_die x))) /\
               at_chain dbg e tbl E [] (mkRaw (xbytes l' ++ []) E (x_post x)) l'
  end.
Proof.
  induction l as [|x l IH]; intros fuel c Hat Hf; (destruct fuel; [lia|]); cbn [next_dfs skip_nulls].
  - rewrite next_entry_end; [cbn [bind]; eauto|]. destruct Hat as [_ Hin _ _ _ _ _]. exact Hin.
  - rewrite (next_entry_chain _ _ _ _ _ _ _ _ Hat). cbn [bind c_cur].
    destruct (at_chain_step _ _ _ _ _ _ _ _ Hat) as (_ & Hat' & _).
    destruct (is_null (x_die x)) eqn:En; cbn [negb].
    + apply (IH fuel (mkCur (mkRaw (xbytes l ++ []) E (x_post x)) (x_die x))); [exact Hat'|cbn in Hf; lia].
    + split; [reflexivity|exact Hat'].
Qed.

Lemma at_chain_fuel dbg e tbl E r l : at_chain dbg e tbl E [] r l -> (length l < S (length (r_in r)))%nat.
Proof.
  intros [Hok Hin _ _ _ _ _]. rewrite Hin, app_nil_r.
  assert ((length l <= length (xbytes l))%nat); [|lia].
  apply xbytes_length_le. eapply Forall_impl; [|exact Hok]. intros x (H & _). exact H.
Qed.

(* Theorem 4: `while let Some(entry) = cursor.next_dfs()?` reports the non-null events *)
Lemma dfs_all_chain dbg e tbl E : forall fuel l c,
  at_chain dbg e tbl E [] (c_raw c) l -> (length l < fuel)%nat ->
  dfs_all fuel dbg e tbl c = Ok (filter not_null (map x_die l), None).
Proof.
  induction fuel as [|fuel IH]; intros l c Hat Hf; [lia|]. cbn [dfs_all].
  pose proof (next_dfs_chain dbg e tbl E l (cursor_fuel c) c Hat (at_chain_fuel _ _ _ _ _ _ Hat)) as Hn.
  pose proof (skip_nulls_filter l) as Hs.
  destruct (skip_nulls l) as [|x l'].
  - destruct Hn as (c' & Hn). rewrite Hn, Hs. reflexivity.
  - destruct Hn as (Hn & Hat'). destruct Hs as (Hs & _ & Hlen). rewrite Hn, Hs. cbn [bind].
    rewrite (IH l' (mkCur (mkRaw (xbytes l' ++ []) E (x_post x)) (x_die x))); [reflexivity|exact Hat'|lia].
Qed.

(* the cursor at the start of a well-formed unit *)
Lemma at_chain_init dbg e tbl l off E :
  Forall (ev_ok dbg e tbl) l -> chain off 0 l -> E = off + nlen (xbytes l) -> E < two63 ->
  at_chain dbg e tbl E [] (mkRaw (xbytes l) E 0) l.
Proof.
  intros Hok Hch HE HE63. unfold two63 in HE63.
  split; cbn [r_in r_end r_depth]; rewrite ?app_nil_r; try reflexivity; try assumption.
  - replace (E - nlen (xbytes l)) with off by lia. exact Hch.
  - lia.
  - unfold two64. lia.
  - split; unfold nlen in *; lia.
Qed.

Lemma entries_parsed dbg bigend types uoff h body :
  header_len h + nlen body < two63 ->
  entries dbg (parsed_header bigend types uoff h body) =
  Ok (mkCur (mkRaw body (header_len h + nlen body) 0) null_die).
Proof.
  intros Hlen. unfold entries.
  assert (Hhs : header_size dbg (parsed_header bigend types uoff h body) = Ok (header_len h)).
  { apply header_size_parsed. rewrite header_len_split in Hlen. unfold unit_length_of, two63 in *. unfold two64.
    assert (initial_length_size (uh_fmt64 h) >= 4) by (destruct (uh_fmt64 h); cbn; lia). lia. }
  rewrite Hhs. cbn [bind parsed_header u_entries]. unfold cursor_new, raw_new, chk_add.
  change (2 ^ 64) with two64. unfold two63 in Hlen. unfold two64.
  replace (header_len h + nlen body <? 18446744073709551616) with true by lia. reflexivity.
Qed.

Lemma unit_at_chain dbg bigend h codes f pad tbl :
  let e := unit_enc bigend h in
  let body := enc_forest codes bigend (header_len h) f pad in
  addr_size_ok e -> header_len h + nlen body < two63 ->
  all_covered tbl codes f -> forest_ok codes e f -> sibs_fit codes (header_len h) f ->
  at_chain dbg e tbl (header_len h + nlen body) [] (mkRaw body (header_len h + nlen body) 0)
           (body_evs codes bigend (header_len h) f pad).
Proof.
  intros e body He Hlen H1 H2 H3. unfold body.
  rewrite <- (body_evs_bytes codes bigend (header_len h) f pad).
  apply (at_chain_init dbg e tbl _ (header_len h)).
  - change bigend with (be e). apply body_evs_ok; assumption.
  - apply body_evs_chain.
  - reflexivity.
  - rewrite body_evs_bytes. exact Hlen.
Qed.

Lemma dfs_is_preorder dbg bigend types uoff h codes f pad tbl :
  let e := unit_enc bigend h in
  let body := enc_forest codes bigend (header_len h) f pad in
  addr_size_ok e -> header_len h + nlen body < two63 ->
  all_covered tbl codes f -> forest_ok codes e f -> sibs_fit codes (header_len h) f ->
  exists c, entries dbg (parsed_header bigend types uoff h body) = Ok c /\
            dfs_all (cursor_fuel c) dbg e tbl c = Ok (preorder codes (header_len h) 0 f, None) /\
            entries_all (cursor_fuel c) dbg e tbl c = Ok (raw_seq codes (header_len h) f pad, None).
Proof.
  intros e body He Hlen H1 H2 H3. eexists. split; [apply entries_parsed; exact Hlen|].
  pose proof (unit_at_chain dbg bigend h codes f pad tbl He Hlen H1 H2 H3) as Hat.
  fold e body in Hat.
  set (c := mkCur (mkRaw body (header_len h + nlen body) 0) null_die).
  change (mkRaw body (header_len h + nlen body) 0) with (c_raw c) in Hat.
  pose proof (at_chain_fuel _ _ _ _ _ _ Hat) as Hf. unfold cursor_fuel.
  split.
  - rewrite (dfs_all_chain dbg e tbl _ _ _ c Hat Hf). rewrite body_evs_dies.
    rewrite (raw_seq_preorder codes e) by assumption. reflexivity.
  - rewrite (entries_all_chain dbg e tbl _ _ _ c Hat Hf). rewrite body_evs_dies. reflexivity.
Qed.

(* ------------------------------------------------------------------ *)
(** * The abbreviation table of a forest covers the forest *)

Lemma aspec_eqb_eq a b : aspec_eqb a b = true <-> a = b.
Proof.
  unfold aspec_eqb. destruct a as [n1 f1 i1], b as [n2 f2 i2]. cbn [at_name at_form at_implicit].
  split.
  - intros H. apply andb_prop in H. destruct H as [H H3]. apply andb_prop in H. destruct H as [H1 H2].
    apply N.eqb_eq in H1, H2. apply Z.eqb_eq in H3. subst. reflexivity.
  - intros H. inversion H; subst. rewrite !N.eqb_refl, Z.eqb_refl. reflexivity.
Qed.

Lemma specs_eqb_eq : forall a b, specs_eqb a b = true <-> a = b.
Proof.
  induction a as [|x a IH]; intros [|y b]; cbn [specs_eqb]; split; try discriminate; try reflexivity.
  - intros H. apply andb_prop in H. destruct H as [H1 H2]. apply aspec_eqb_eq in H1. apply IH in H2. subst. reflexivity.
  - intros H. inversion H; subst. apply andb_true_intro. split; [apply aspec_eqb_eq|apply IH]; reflexivity.
Qed.

Lemma abbrev_eqb_eq a b : abbrev_eqb a b = true <-> a = b.
Proof.
  unfold abbrev_eqb. destruct a as [c1 t1 h1 s1], b as [c2 t2 h2 s2]. cbn [ab_code ab_tag ab_children ab_specs].
  split.
  - intros H. apply andb_prop in H. destruct H as [H H4]. apply andb_prop in H. destruct H as [H H3].
    apply andb_prop in H. destruct H as [H1 H2]. apply N.eqb_eq in H1, H2. apply Bool.eqb_prop in H3.
    apply specs_eqb_eq in H4. subst. reflexivity.
  - intros H. inversion H; subst. rewrite !N.eqb_refl, Bool.eqb_reflx.
    cbn [andb]. apply specs_eqb_eq. reflexivity.
Qed.

Lemma dedup_in : forall l x, In x (dedup l) <-> In x l.
Proof.
  induction l as [|a l IH]; intros x; [tauto|]. cbn [dedup In]. rewrite filter_In, IH.
  split.
  - intros [H|[H _]]; auto.
  - intros [H|H]; [auto|]. destruct (abbrev_eqb a x) eqn:E.
    + apply abbrev_eqb_eq in E. auto.
    + right. split; [exact H|reflexivity].
Qed.

Lemma NoDup_map_filter {A B} (g : A -> B) (p : A -> bool) : forall l, NoDup (map g l) -> NoDup (map g (filter p l)).
Proof.
  induction l as [|a l IH]; intros H; [constructor|]. cbn [map] in H. inversion H as [|? ? Hn Hl]; subst.
  cbn [filter]. destruct (p a); [|auto]. cbn [map]. constructor; [|auto].
  intros Hin. apply Hn. apply in_map_iff in Hin. destruct Hin as (x & E & Hx). apply filter_In in Hx.
  apply in_map_iff. exists x. tauto.
Qed.

Lemma dedup_codes_nodup : forall l,
  (forall a b, In a l -> In b l -> ab_code a = ab_code b -> a = b) -> NoDup (codes_of (dedup l)).
Proof.
  induction l as [|a l IH]; intros Hinj; [constructor|]. cbn [dedup codes_of map]. constructor.
  - intros Hin. apply in_map_iff in Hin. destruct Hin as (b & E & Hb). apply filter_In in Hb.
    destruct Hb as [Hb Hne]. apply (proj1 (dedup_in _ _)) in Hb.
    assert (a = b) by (apply Hinj; [left; reflexivity|right; exact Hb|symmetry; exact E]).
    subst b. assert (abbrev_eqb a a = true) by (apply abbrev_eqb_eq; reflexivity).
    rewrite H in Hne. discriminate.
  - apply NoDup_map_filter. apply IH. intros x y Hx Hy. apply Hinj; right; assumption.
Qed.

Lemma forest_table dbg codes e f tail rest :
  forest_ok codes e f -> codes_injective codes f ->
  (tail = [] /\ rest = [] \/ tail = x00 :: rest) ->
  exists tbl, parse_abbrevs dbg (enc_decls (forest_abbrevs codes f) ++ tail) = Ok (tbl, rest) /\
              all_covered tbl codes f.
Proof.
  intros Hok Hinj Htail. unfold forest_abbrevs.
  set (l := map (t_abbrev codes) (forest_nodes f)).
  destruct (abbrev_get_full dbg (dedup l) tail rest) as (tbl & Hp & _ & Hget & _).
  - apply Forall_forall. intros a Ha. apply (proj1 (dedup_in _ _)) in Ha. unfold l in Ha. apply in_map_iff in Ha.
    destruct Ha as (t & <- & Ht). unfold forest_ok in Hok. rewrite Forall_forall in Hok.
    apply (Hok t Ht).
  - apply dedup_codes_nodup. intros a b Ha Hb. unfold l in Ha, Hb. apply in_map_iff in Ha, Hb.
    destruct Ha as (t1 & <- & Ht1). destruct Hb as (t2 & <- & Ht2). apply Hinj; assumption.
  - exact Htail.
  - exists tbl. split; [exact Hp|]. unfold all_covered. apply Forall_forall. intros t Ht.
    unfold covered. apply (Hget (t_abbrev codes t)). apply dedup_in. unfold l. apply in_map. exact Ht.
Qed.
