(* Proofs/DieRdProofs.v — lemmas about Model/DieRd.v (unit headers, entries, cursors, trees). *)
From Coq Require Import List NArith ZArith Bool Lia ZifyBool ZifyN ZifyNat.
From Coq.Strings Require Import Byte.
Require Import GV.Base.Res GV.Base.Byt GV.Base.Ints GV.Model.Leb GV.Model.Prim
               GV.Spec.LebSpec GV.Spec.FormSpec GV.Model.Attr GV.Spec.Forest GV.Model.AbbrevRd
               GV.Model.DieRd GV.Proofs.AttrProofs GV.Proofs.AbbrevRdProofs.
Import ListNotations.
Local Open Scope N_scope.
Local Arguments N.add : simpl never.
Local Arguments N.sub : simpl never.
Local Arguments N.mul : simpl never.
Local Arguments N.pow : simpl never.
Local Arguments N.div : simpl never.
Local Arguments N.modulo : simpl never.
Local Arguments N.of_nat : simpl never.
Local Arguments Z.add : simpl never.
Local Arguments Z.sub : simpl never.

(* ------------------------------------------------------------------ *)
(** * Lengths *)

Lemma nlen_app {A} (a b : list A) : nlen (a ++ b) = nlen a + nlen b.
Proof. unfold nlen. rewrite app_length. lia. Qed.
Lemma nlen_cons {A} (x : A) (l : list A) : nlen (x :: l) = 1 + nlen l.
Proof. unfold nlen. cbn [length]. lia. Qed.
Lemma nlen_nil {A} : nlen (@nil A) = 0. Proof. reflexivity. Qed.

Lemma enc_fixed_length n bigend v : length (enc_fixed n bigend v) = n.
Proof. unfold enc_fixed. destruct bigend; [rewrite rev_length|]; apply le_enc_length. Qed.
Lemma nlen_enc_fixed n bigend v : nlen (enc_fixed n bigend v) = N.of_nat n.
Proof. unfold nlen. rewrite enc_fixed_length. reflexivity. Qed.

Lemma enc_utype_len bigend fmt64 t : nlen (enc_utype bigend fmt64 t) = nlen (enc_utype false fmt64 t).
Proof. destruct t; cbn [enc_utype]; rewrite ?nlen_app, ?nlen_enc_fixed; reflexivity. Qed.

Lemma header_fields_len bigend h : nlen (enc_header_fields bigend h) = nlen (enc_header_fields false h).
Proof.
  unfold enc_header_fields. rewrite !nlen_app, (enc_utype_len bigend), !nlen_enc_fixed.
  destruct (uh_version h =? 5); rewrite ?nlen_app, ?nlen_cons, ?nlen_enc_fixed, ?nlen_nil; reflexivity.
Qed.

Lemma unit_length_of_be bigend h n : unit_length_of bigend h n = unit_length_of false h n.
Proof. unfold unit_length_of. rewrite header_fields_len. reflexivity. Qed.

Lemma header_len_eq bigend h n :
  nlen (enc_header bigend h n) = header_len h.
Proof.
  unfold header_len, enc_header. rewrite !nlen_app, header_fields_len. f_equal.
  unfold enc_initial_length. destruct (uh_fmt64 h); rewrite ?nlen_app, !nlen_enc_fixed; reflexivity.
Qed.

Lemma header_len_split h :
  header_len h = initial_length_size (uh_fmt64 h) + nlen (enc_header_fields false h).
Proof.
  unfold header_len, enc_header, enc_initial_length, initial_length_size. rewrite nlen_app.
  destruct (uh_fmt64 h); rewrite ?nlen_app, !nlen_enc_fixed; reflexivity.
Qed.

(* ------------------------------------------------------------------ *)
(** * Theorem 2: unit headers *)

Lemma read_initial_length_enc bigend (f64 : bool) len rest :
  (if f64 then len < two64 else len < 4294967280) ->
  read_initial_length bigend (enc_initial_length bigend f64 len ++ rest) = Ok ((len, f64), rest).
Proof.
  intros H. unfold read_initial_length, enc_initial_length. destruct f64.
  - rewrite <- app_assoc. rewrite read_un_enc by (cbn; lia). cbn [bind].
    change (4294967295 <? 4294967280) with false. change (4294967295 =? 4294967295) with true. cbv iota.
    rewrite read_un_enc by (change (256 ^ N.of_nat 8) with two64; exact H). reflexivity.
  - rewrite read_un_enc by (change (256 ^ N.of_nat 4) with 4294967296; lia). cbn [bind].
    replace (len <? 4294967280) with true by lia. reflexivity.
Qed.

Lemma read_word_enc (f64 : bool) bigend v rest :
  v < 2 ^ (8 * N.of_nat (word f64)) ->
  read_word f64 bigend (enc_fixed (word f64) bigend v ++ rest) = Ok (v, rest).
Proof.
  intros H. unfold read_word. destruct f64; cbn [word] in *; apply read_un_enc; rewrite pow256; exact H.
Qed.

Lemma read_u64_enc bigend v rest : v < two64 -> read_u64 bigend (enc_fixed 8 bigend v ++ rest) = Ok (v, rest).
Proof. intros H. apply read_un_enc. exact H. Qed.

Lemma parse_unit_type_enc bigend (f64 : bool) t rest :
  match t with
  | UCompile | UPartial => True
  | UType s o | USplitType s o => s < two64 /\ o < 2 ^ (8 * N.of_nat (word f64))
  | USkeleton i | USplitCompile i => i < two64
  end ->
  parse_unit_type bigend f64 (ut_code t) (enc_utype bigend f64 t ++ rest) = Ok (t, rest).
Proof.
  destruct t; cbn [ut_code enc_utype parse_unit_type N.eqb Pos.eqb app]; intros H; try reflexivity;
    rewrite <- ?app_assoc.
  - destruct H. rewrite read_u64_enc by assumption. cbn [bind]. rewrite read_word_enc by assumption. reflexivity.
  - rewrite read_u64_enc by assumption. reflexivity.
  - rewrite read_u64_enc by assumption. reflexivity.
  - destruct H. rewrite read_u64_enc by assumption. cbn [bind]. rewrite read_word_enc by assumption. reflexivity.
Qed.

Lemma read_address_size_byte asz rest :
  asz = 1 \/ asz = 2 \/ asz = 4 \/ asz = 8 -> read_address_size (n2b asz :: rest) = Ok (asz, rest).
Proof. intros [->|[->|[->| ->]]]; reflexivity. Qed.

Definition parsed_header (bigend types : bool) (uoff : N) (h : uheader) (body : list byte) : unit_header :=
  mkUnit (mkEnc (uh_version h) (uh_fmt64 h) (uh_asize h) bigend)
         (unit_length_of bigend h (nlen body)) (uh_type h) (uh_abbrev_off h) types uoff body.

Lemma header_roundtrip bigend types uoff h body rest :
  uheader_ok types h (nlen body) ->
  parse_unit_header bigend types uoff (enc_unit bigend h body ++ rest) =
  Ok (parsed_header bigend types uoff h body, rest).
Proof.
  intros (Hv & Ha & Ho & Ht & Hl). unfold parsed_header.
  destruct h as [version f64 asz ut aoff]. cbn [uh_version uh_fmt64 uh_asize uh_type uh_abbrev_off] in *.
  unfold parse_unit_header, enc_unit, enc_header. cbn [uh_fmt64].
  set (h := mkUH version f64 asz ut aoff) in *.
  set (fields := enc_header_fields bigend h).
  rewrite <- !app_assoc.
  rewrite <- (unit_length_of_be bigend) in Hl.
  rewrite read_initial_length_enc by (destruct f64; [lia|exact Hl]). cbn [bind].
  assert (Esplit : split_n (unit_length_of bigend h (nlen body)) (fields ++ body ++ rest)
                   = Ok (fields ++ body, rest)).
  { unfold unit_length_of. fold fields. rewrite <- nlen_app. rewrite app_assoc. apply split_n_app. }
  rewrite Esplit. cbn [bind]. clear Esplit.
  unfold fields, enc_header_fields. cbn [uh_version uh_fmt64 uh_asize uh_type uh_abbrev_off h].
  rewrite <- !app_assoc. unfold read_u16.
  rewrite read_un_enc by (change (256 ^ N.of_nat 2) with 65536; lia). cbn [bind].
  assert (Hty : match ut with
                | UCompile | UPartial => True
                | UType s o | USplitType s o => s < two64 /\ o < 2 ^ (8 * N.of_nat (word f64))
                | USkeleton i | USplitCompile i => i < two64
                end).
  { unfold utype_ok in Ht. cbn [uh_type uh_version uh_fmt64 h] in Ht. destruct ut; tauto. }
  destruct (N.eqb_spec version 5) as [V5|V5].
  - subst version. change ((2 <=? 5) && (5 <=? 4)) with false. cbv iota.
    rewrite <- ?app_assoc. cbn [app read_u8 bind]. rewrite b2n_n2b_small by (destruct ut; cbn; lia).
    rewrite read_address_size_byte by assumption. cbn [bind].
    rewrite read_word_enc by assumption. cbn [bind].
    rewrite parse_unit_type_enc by assumption. reflexivity.
  - replace ((2 <=? version) && (version <=? 4)) with true by lia.
    rewrite <- ?app_assoc. rewrite read_word_enc by assumption. cbn [bind app].
    rewrite read_address_size_byte by assumption. cbn [bind].
    unfold utype_ok in Ht. cbn [uh_type uh_version uh_fmt64 h] in Ht.
    destruct ut; try (exfalso; lia).
    + destruct Ht as [Ht|Ht]; [lia|]. subst types. cbn [enc_utype app]. reflexivity.
    + destruct Ht as ([Ht|Ht] & _); [lia|]. subst types.
      rewrite (parse_unit_type_enc bigend f64 (UType signature type_offset)) by assumption. reflexivity.
Qed.

(* header_size of a parsed header is the length of the encoded header; nothing overflows *)
Lemma header_size_parsed dbg bigend types uoff h body :
  unit_length_of false h (nlen body) + 12 < two64 ->
  header_size dbg (parsed_header bigend types uoff h body) = Ok (header_len h).
Proof.
  intros Hl. unfold header_size, length_including_self, parsed_header.
  cbn [u_enc u_length u_entries fmt64]. rewrite unit_length_of_be.
  unfold chk_add. change (2 ^ 64) with two64.
  assert (initial_length_size (uh_fmt64 h) <= 12) by (destruct (uh_fmt64 h); cbn; lia).
  replace (initial_length_size (uh_fmt64 h) + unit_length_of false h (nlen body) <? two64) with true by lia.
  cbn [bind]. unfold chk_sub.
  rewrite header_len_split. unfold unit_length_of in *.
  replace (nlen body <=? initial_length_size (uh_fmt64 h) + (nlen (enc_header_fields false h) + nlen body))
    with true by lia.
  f_equal. lia.
Qed.

(* ------------------------------------------------------------------ *)
(** * Trees: induction, sizes, lists of siblings *)

Lemma tree_ind' (P : tree -> Prop) :
  (forall tag flag items kids, Forall P kids -> P (Node tag flag items kids)) -> forall t, P t.
Proof.
  intros H. fix IH 1. intros [tag flag items kids]. apply H.
  induction kids as [|k kids IHk]; constructor; [apply IH|exact IHk].
Qed.

Lemma on_list_cons {A} (f : N -> tree -> list A) size off t r :
  on_list f size off (t :: r) = f off t ++ on_list f size (off + size t) r.
Proof. reflexivity. Qed.

Lemma on_list_app {A} (f : N -> tree -> list A) size : forall a off b,
  on_list f size off (a ++ b) = on_list f size off a ++ on_list f size (off + sumN (map size a)) b.
Proof.
  induction a as [|t a IH]; intros off b.
  - cbn [app map sumN fold_right on_list]. rewrite N.add_0_r. reflexivity.
  - cbn [app map]. rewrite !on_list_cons, IH, <- app_assoc. cbn [sumN fold_right].
    rewrite N.add_assoc. reflexivity.
Qed.

Lemma on_list_ext {A} (f g : N -> tree -> list A) size : forall l off,
  Forall (fun t => forall o, f o t = g o t) l -> on_list f size off l = on_list g size off l.
Proof.
  induction l as [|t l IH]; intros off H; [reflexivity|]. inversion H; subst.
  rewrite !on_list_cons. f_equal; auto.
Qed.

Lemma sumN_app a b : sumN (a ++ b) = sumN a + sumN b.
Proof. unfold sumN. induction a as [|x a IH]; cbn [app fold_right]; [lia|]. rewrite IH. lia. Qed.

Lemma enc_item_len bigend next it : nlen (enc_item bigend next it) = item_len it.
Proof. destruct it; cbn [enc_item item_len]; [reflexivity|apply nlen_enc_fixed]. Qed.

Lemma nlen_concat_items bigend next items :
  nlen (concat (map (enc_item bigend next) items)) = sumN (map item_len items).
Proof.
  induction items as [|it items IH]; cbn [map concat sumN fold_right]; [reflexivity|].
  rewrite nlen_app, enc_item_len, IH. reflexivity.
Qed.

Lemma tree_size_unfold codes t :
  tree_size codes t =
  nlen (enc_uleb (t_code codes t)) + sumN (map item_len (t_items t)) +
  (if has_children t then sumN (map (tree_size codes) (t_kids t)) + 1 else 0).
Proof. destruct t. reflexivity. Qed.

Lemma tree_size_pos codes t : 1 <= tree_size codes t.
Proof.
  rewrite tree_size_unfold. pose proof (enc_uleb_length (t_code codes t)). unfold nlen. lia.
Qed.

Lemma enc_tree_unfold codes bigend off t :
  enc_tree codes bigend off t =
  enc_uleb (t_code codes t) ++ concat (map (enc_item bigend (off + tree_size codes t)) (t_items t)) ++
  (if has_children t
   then on_list (enc_tree codes bigend) (tree_size codes) (kids_off codes off t) (t_kids t) ++ [x00]
   else []).
Proof. destruct t. reflexivity. Qed.

Lemma on_list_len codes bigend : forall l off,
  Forall (fun t => forall o, nlen (enc_tree codes bigend o t) = tree_size codes t) l ->
  nlen (on_list (enc_tree codes bigend) (tree_size codes) off l) = sumN (map (tree_size codes) l).
Proof.
  induction l as [|t l IH]; intros off H; [reflexivity|]. inversion H; subst.
  rewrite on_list_cons, nlen_app. cbn [map sumN fold_right]. rewrite IH by assumption.
  fold (sumN (map (tree_size codes) l)). f_equal. auto.
Qed.

Lemma enc_tree_len codes bigend : forall t off, nlen (enc_tree codes bigend off t) = tree_size codes t.
Proof.
  induction t as [tag flag items kids IH] using tree_ind'. intros off.
  rewrite enc_tree_unfold, tree_size_unfold. cbn [t_items t_kids].
  rewrite !nlen_app, nlen_concat_items.
  destruct (has_children (Node tag flag items kids)).
  - rewrite nlen_app, on_list_len by exact IH. change (nlen [x00]) with 1. lia.
  - change (nlen (@nil byte)) with 0. lia.
Qed.

Lemma enc_forest_list_len codes bigend off f :
  nlen (on_list (enc_tree codes bigend) (tree_size codes) off f) = forest_size codes f.
Proof. apply on_list_len. apply Forall_forall. intros t _ o. apply enc_tree_len. Qed.

(* children exist only under DW_CHILDREN_yes *)
Lemma no_children_no_kids t : has_children t = false -> t_kids t = [].
Proof. destruct t as [tag flag items [|k kids]]; cbn; [reflexivity|]. destruct flag; discriminate. Qed.

(* ------------------------------------------------------------------ *)
(** * Reading one entry *)

Definition depth_ok (d : Z) (inp : list byte) : Prop :=
  (- 9223372036854775808 + Z.of_N (nlen inp) <= d /\ d + Z.of_N (nlen inp) < 9223372036854775808)%Z.

Lemma chk_s_ok dbg z : (- 9223372036854775808 <= z < 9223372036854775808)%Z -> chk_s 64 dbg z = Ok z.
Proof.
  intros H. unfold chk_s, in_signed.
  match goal with |- (if ?c then _ else _) = _ => destruct c eqn:C end; [reflexivity|].
  exfalso. change (Z.of_N (2 ^ (64 - 1))) with 9223372036854775808%Z in C. lia.
Qed.

Lemma next_offset_ok dbg inp E d : nlen inp <= E -> next_offset dbg (mkRaw inp E d) = Ok (E - nlen inp).
Proof.
  intros H. unfold next_offset, chk_sub. cbn [r_end r_in].
  replace (nlen inp <=? E) with true by lia. reflexivity.
Qed.

(* a null entry *)
Lemma read_null dbg e tbl rest E d :
  nlen (x00 :: rest) <= E -> depth_ok d (x00 :: rest) ->
  read_entry dbg e tbl (mkRaw (x00 :: rest) E d) =
  Ok (false, null_at (E - nlen (x00 :: rest)) d, mkRaw rest E (d - 1)).
Proof.
  intros HE [D1 D2]. unfold read_entry. cbn [r_depth]. rewrite next_offset_ok by assumption. cbn [bind].
  unfold read_abbreviation. cbn [r_in r_end r_depth read_uleb128 has_cont b2n Byte.to_N N.land N.eqb negb bind].
  rewrite nlen_cons in D1, D2.
  rewrite chk_s_ok by lia. reflexivity.
Qed.

(* attributes of an entry *)
Lemma sib_attr_roundtrip dbg e w next rest :
  next < 2 ^ (8 * N.of_nat (sib_len w)) ->
  parse_attribute dbg e (sib_spec w) (enc_fixed (sib_len w) (be e) next ++ rest) = Ok (VUnitRef next, rest).
Proof.
  intros H. unfold parse_attribute, sib_spec. cbn [at_form].
  destruct w; cbn [sib_form sib_len] in *.
  - cbn [parse_form N.eqb Pos.eqb]. unfold parse_direct.
    cbn [N.eqb Pos.eqb DW_FORM_addr DW_FORM_block1 DW_FORM_block2 DW_FORM_block4 DW_FORM_block DW_FORM_data1
         DW_FORM_data2 DW_FORM_data4 DW_FORM_data8 DW_FORM_data16 DW_FORM_udata DW_FORM_sdata DW_FORM_exprloc
         DW_FORM_flag DW_FORM_flag_present DW_FORM_sec_offset DW_FORM_ref1].
    rewrite (read_u8_un_be (be e)), read_un_enc by (rewrite pow256; exact H). reflexivity.
  - cbn [parse_form N.eqb Pos.eqb]. unfold parse_direct.
    cbn [N.eqb Pos.eqb DW_FORM_addr DW_FORM_block1 DW_FORM_block2 DW_FORM_block4 DW_FORM_block DW_FORM_data1
         DW_FORM_data2 DW_FORM_data4 DW_FORM_data8 DW_FORM_data16 DW_FORM_udata DW_FORM_sdata DW_FORM_exprloc
         DW_FORM_flag DW_FORM_flag_present DW_FORM_sec_offset DW_FORM_ref1 DW_FORM_ref2].
    unfold read_u16. rewrite read_un_enc by (rewrite pow256; exact H). reflexivity.
  - cbn [parse_form N.eqb Pos.eqb]. unfold parse_direct.
    cbn [N.eqb Pos.eqb DW_FORM_addr DW_FORM_block1 DW_FORM_block2 DW_FORM_block4 DW_FORM_block DW_FORM_data1
         DW_FORM_data2 DW_FORM_data4 DW_FORM_data8 DW_FORM_data16 DW_FORM_udata DW_FORM_sdata DW_FORM_exprloc
         DW_FORM_flag DW_FORM_flag_present DW_FORM_sec_offset DW_FORM_ref1 DW_FORM_ref2 DW_FORM_ref4].
    unfold read_u32. rewrite read_un_enc by (rewrite pow256; exact H). reflexivity.
  - cbn [parse_form N.eqb Pos.eqb]. unfold parse_direct.
    cbn [N.eqb Pos.eqb DW_FORM_addr DW_FORM_block1 DW_FORM_block2 DW_FORM_block4 DW_FORM_block DW_FORM_data1
         DW_FORM_data2 DW_FORM_data4 DW_FORM_data8 DW_FORM_data16 DW_FORM_udata DW_FORM_sdata DW_FORM_exprloc
         DW_FORM_flag DW_FORM_flag_present DW_FORM_sec_offset DW_FORM_ref1 DW_FORM_ref2 DW_FORM_ref4
         DW_FORM_ref8].
    unfold read_u64. rewrite read_un_enc by (rewrite pow256; exact H). reflexivity.
Qed.

Lemma attr_ok_roundtrip dbg e a rest : addr_size_ok e -> attr_ok e a ->
  parse_attribute dbg e (a_spec a) (a_bytes a ++ rest) = Ok (a_value a, rest).
Proof.
  intros He (u & (Hf & Hi & Hfit & _) & Hr). unfold resolve in Hr.
  destruct (enc_layout (form_layout (u_form u) e) (be e) (u_data u)) as [p|] eqn:E1; [|discriminate].
  destruct (form_value e (u_name u) (u_implicit u) (u_form u) (u_data u)) as [v|] eqn:E2; [|discriminate].
  inversion Hr; subst a. cbn [a_spec a_bytes a_value]. rewrite <- app_assoc.
  apply (attr_roundtrip dbg e (u_name u) (u_implicit u) (u_hops u) (u_form u) (u_data u) p v rest); assumption.
Qed.

Definition item_ok (e : enc) (it : item) : Prop := match it with IAttr a => attr_ok e a | ISib _ => True end.
Definition item_fits (next : N) (it : item) : Prop :=
  match it with ISib w => next < 2 ^ (8 * N.of_nat (sib_len w)) | IAttr _ => True end.

Lemma read_items dbg e next : forall items rest,
  addr_size_ok e -> Forall (item_ok e) items -> Forall (item_fits next) items ->
  read_attrs dbg e (map item_spec items) (concat (map (enc_item (be e) next) items) ++ rest) =
  Ok (map (item_val next) items, rest).
Proof.
  intros items rest He. unfold read_attrs.
  assert (G : forall items rest, Forall (item_ok e) items -> Forall (item_fits next) items ->
              read_attributes dbg e (map item_spec items) (concat (map (enc_item (be e) next) items) ++ rest) =
              Ok (map (fun it => snd (item_val next it)) items, rest)).
  { clear items rest. induction items as [|it items IH]; intros rest Hok Hfit; [reflexivity|].
    inversion Hok; subst. inversion Hfit; subst.
    cbn [map concat read_attributes]. rewrite <- app_assoc.
    assert (E : parse_attribute dbg e (item_spec it)
                  (enc_item (be e) next it ++ concat (map (enc_item (be e) next) items) ++ rest) =
                Ok (snd (item_val next it), concat (map (enc_item (be e) next) items) ++ rest)).
    { destruct it as [a|w]; cbn [item_spec enc_item item_val snd].
      - apply attr_ok_roundtrip; assumption.
      - apply sib_attr_roundtrip. assumption. }
    rewrite E. cbn [bind]. rewrite IH by assumption. reflexivity. }
  intros Hok Hfit. rewrite G by assumption. cbn [bind]. f_equal. f_equal.
  clear. induction items as [|it items IH]; [reflexivity|]. cbn [map combine]. rewrite IH. f_equal.
  destruct it; reflexivity.
Qed.

(* the bytes of an entry itself, and the bytes after them: its children and their terminator *)
Definition head_bytes (codes : coding) (bigend : bool) (off : N) (t : tree) : list byte :=
  enc_uleb (t_code codes t) ++ concat (map (enc_item bigend (off + tree_size codes t)) (t_items t)).

Definition kids_bytes (codes : coding) (bigend : bool) (off : N) (t : tree) : list byte :=
  if has_children t
  then on_list (enc_tree codes bigend) (tree_size codes) (kids_off codes off t) (t_kids t) ++ [x00]
  else [].

Lemma enc_tree_split codes bigend off t :
  enc_tree codes bigend off t = head_bytes codes bigend off t ++ kids_bytes codes bigend off t.
Proof. rewrite enc_tree_unfold. unfold head_bytes, kids_bytes. rewrite app_assoc. reflexivity. Qed.

Lemma head_bytes_len codes bigend off t :
  nlen (head_bytes codes bigend off t) = kids_off codes off t - off.
Proof. unfold head_bytes, kids_off. rewrite nlen_app, nlen_concat_items. lia. Qed.

Lemma kids_off_ge codes off t : off < kids_off codes off t.
Proof. unfold kids_off. pose proof (enc_uleb_length (t_code codes t)). unfold nlen. lia. Qed.

Lemma head_bytes_cons codes bigend off t : exists b r, head_bytes codes bigend off t = b :: r.
Proof. unfold head_bytes. destruct (enc_uleb_cons (t_code codes t)) as (b & r & E). rewrite E. cbn [app]. eauto. Qed.

Definition covered (tbl : abbrevs) (codes : coding) (t : tree) : Prop :=
  tbl_get tbl (t_code codes t) = Some (t_abbrev codes t).

Definition post_depth (d : Z) (t : tree) : Z := if has_children t then (d + 1)%Z else d.

(* the root entry of a tree, whatever follows its attributes *)
Lemma read_head dbg e tbl codes t off d rest E :
  addr_size_ok e -> covered tbl codes t -> node_ok codes e t -> node_fits codes (off, t) ->
  E = off + nlen (head_bytes codes (be e) off t) + nlen rest -> E < two64 ->
  depth_ok d (head_bytes codes (be e) off t ++ rest) ->
  read_entry dbg e tbl (mkRaw (head_bytes codes (be e) off t ++ rest) E d) =
  Ok (true, root_die codes off d t, mkRaw rest E (post_depth d t)).
Proof.
  intros He Hcov [Hab Hitems] Hfit HE HE64 [D1 D2].
  unfold read_entry. cbn [r_depth].
  rewrite next_offset_ok by (rewrite nlen_app; lia). cbn [bind].
  replace (E - nlen (head_bytes codes (be e) off t ++ rest)) with off by (rewrite nlen_app; lia).
  unfold read_abbreviation. cbn [r_in r_end r_depth].
  unfold head_bytes. rewrite <- !app_assoc.
  destruct Hab as (Hc & Htag & Hspecs). cbn [t_abbrev ab_code] in Hc.
  rewrite read_uleb128_enc by lia. cbn [bind].
  replace (t_code codes t =? 0) with false by lia.
  unfold covered in Hcov. rewrite Hcov.
  rewrite nlen_app in D1, D2. destruct (head_bytes_cons codes (be e) off t) as (b0 & r0 & Eh).
  rewrite Eh, nlen_cons in D1, D2.
  assert (Hd : (if has_children t then chk_s 64 dbg (d + 1) else Ok d) = Ok (post_depth d t)).
  { unfold post_depth. destruct (has_children t); [apply chk_s_ok; lia|reflexivity]. }
  unfold t_abbrev. cbn [ab_children ab_specs ab_tag].
  rewrite Hd. cbn [bind r_in r_end r_depth ab_children ab_specs ab_tag].
  unfold node_fits in Hfit. cbn [fst snd] in Hfit.
  unfold t_specs. rewrite read_items; try assumption.
  cbn [bind]. unfold root_die. reflexivity.
Qed.

Lemma root_die_not_null codes e off d t : node_ok codes e t -> is_null (root_die codes off d t) = false.
Proof.
  intros [(_ & Ht & _) _]. cbn [t_abbrev ab_tag] in Ht. unfold is_null, root_die. cbn [d_tag]. lia.
Qed.
