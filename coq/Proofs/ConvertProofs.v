(* Proofs/ConvertProofs.v — exactness of the conversion arithmetic (C12). *)
From Coq Require Import NArith ZArith Bool Lia ZifyBool ZifyN.
Require Import GV.Base.Res GV.Base.Ints GV.Model.ConvertArith.
Local Open Scope Z_scope.

Lemma in_signed_32_64 z : in_signed 32 z = true -> in_signed 64 z = true.
Proof. unfold in_signed. change (2 ^ (32 - 1))%N with 2147483648%N. change (2 ^ (64 - 1))%N with 9223372036854775808%N. lia. Qed.

Lemma convert_offset_exact (o : N) :
  match convert_offset o with
  | Ok v => v = Z.of_N o /\ in_signed 32 v = true
  | Err e => e = CUnsupportedCfiInstruction /\ in_signed 32 (Z.of_N o) = false
  | _ => False
  end.
Proof. unfold convert_offset. destruct (in_signed 32 (Z.of_N o)) eqn:E; auto. Qed.

Lemma convert_factored_offset_exact (f daf : Z) :
  in_signed 64 f = true -> in_signed 64 daf = true ->
  match convert_factored_offset f daf with
  | Ok v => v = (f * daf)%Z /\ in_signed 32 v = true
  | Err e => e = CUnsupportedCfiInstruction /\ in_signed 32 (f * daf)%Z = false
  | _ => False
  end.
Proof.
  intros _ _. unfold convert_factored_offset.
  destruct (in_signed 64 (f * daf)) eqn:E64; destruct (in_signed 32 (f * daf)) eqn:E32; auto.
  apply in_signed_32_64 in E32. congruence.
Qed.

Lemma convert_factors_exact (caf : N) (daf : Z) :
  match convert_factors caf daf with
  | Ok (c, d) => c = caf /\ d = daf /\ (caf < 256)%N /\ in_signed 8 daf = true
  | Err e => e = CUnsupportedCfiInstruction /\ ((256 <= caf)%N \/ in_signed 8 daf = false)
  | _ => False
  end.
Proof.
  unfold convert_factors. destruct (caf <? 256)%N eqn:E1; [destruct (in_signed 8 daf) eqn:E2|].
  - repeat split; auto. lia.
  - split; auto.
  - split; auto. left. lia.
Qed.

Lemma convert_advance_exact (offset delta caf : N) :
  (offset < 2 ^ 32)%N -> (delta < 2 ^ 32)%N ->
  match convert_advance offset delta caf with
  | Ok v => v = (offset + delta * caf)%N /\ (v < 2 ^ 32)%N
  | Err e => e = CUnsupportedCfiInstruction /\ (2 ^ 32 <= offset + delta * caf \/ 2 ^ 32 <= caf)%N
  | _ => False
  end.
Proof.
  intros _ _. unfold convert_advance.
  destruct (caf <? 2 ^ 32)%N eqn:E1; [|split; auto; right; lia].
  destruct (delta * caf <? 2 ^ 32)%N eqn:E2; [|split; auto; left; lia].
  destruct (offset + delta * caf <? 2 ^ 32)%N eqn:E3.
  - split; auto. lia.
  - split; auto. left. lia.
Qed.
