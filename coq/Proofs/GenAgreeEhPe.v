(* Proofs/GenAgreeEhPe.v — translator tie for DwEhPe (src/constants.rs): the functions regenerated from the
   source text (coq/Gen/EhPe.v) equal the hand-written ones of Model/CfiRd.v on every u8. *)
From Coq Require Import List NArith Bool Lia.
Require Import GV.Proofs.GenSweep.
Require GV.Gen.EhPe GV.Model.CfiRd.
Local Open Scope N_scope.

(* masks: for every N, not only bytes *)
Lemma gen_pe_format_agree : forall e, EhPe.format e = CfiRd.pe_format e.
Proof. reflexivity. Qed.
Lemma gen_pe_application_agree : forall e, EhPe.application e = CfiRd.pe_application e.
Proof. reflexivity. Qed.
Lemma gen_pe_is_absent_agree : forall e, EhPe.is_absent e = CfiRd.pe_is_absent e.
Proof. reflexivity. Qed.
Lemma gen_pe_is_indirect_agree : forall e, EhPe.is_indirect e = CfiRd.pe_is_indirect e.
Proof. reflexivity. Qed.

Definition pe_agree (e : N) : bool :=
  Bool.eqb (EhPe.is_valid_encoding e) (CfiRd.pe_is_valid e)
  && Bool.eqb (EhPe.format_known (EhPe.format e)) (CfiRd.pe_format_known (CfiRd.pe_format e))
  && Bool.eqb (EhPe.application_known (EhPe.application e)) (CfiRd.pe_application_known (CfiRd.pe_application e)).

Lemma gen_pe_sweep : forallb pe_agree (count_up 256) = true.
Proof. vm_compute. reflexivity. Qed.

(* all 256 pointer-encoding bytes *)
Lemma gen_pe_is_valid_agree : forall e, e < 256 -> EhPe.is_valid_encoding e = CfiRd.pe_is_valid e.
Proof.
  intros e H. pose proof (sweep_lt _ _ gen_pe_sweep e H) as S. unfold pe_agree in S.
  apply andb_prop in S. destruct S as [S _]. apply andb_prop in S. destruct S as [S _].
  apply Bool.eqb_prop. exact S.
Qed.

Lemma gen_pe_known_agree : forall e, e < 256 ->
  EhPe.format_known (EhPe.format e) = CfiRd.pe_format_known (CfiRd.pe_format e) /\
  EhPe.application_known (EhPe.application e) = CfiRd.pe_application_known (CfiRd.pe_application e).
Proof.
  intros e H. pose proof (sweep_lt _ _ gen_pe_sweep e H) as S. unfold pe_agree in S.
  apply andb_prop in S. destruct S as [S S3]. apply andb_prop in S. destruct S as [_ S2].
  split; apply Bool.eqb_prop; assumption.
Qed.

(* what parse_pointer_encoding accepts, stated with the regenerated predicate: for every input *)
Lemma gen_parse_pointer_encoding : forall r e r',
  CfiRd.parse_pointer_encoding r = GV.Base.Res.Ok (e, r') -> EhPe.is_valid_encoding e = true.
Proof.
  intros r e r' H. unfold CfiRd.parse_pointer_encoding in H.
  destruct (CfiRd.rd_u8 r) as [[e0 r0]| | |] eqn:E; cbn in H; try discriminate.
  destruct (CfiRd.pe_is_valid e0) eqn:V; [|discriminate].
  injection H as <- <-.
  assert (e0 < 256) as Hlt.
  { unfold CfiRd.rd_u8, CfiRd.lift in E.
    destruct (GV.Model.Leb.read_u8 (CfiRd.win r)) as [[a rest]| | |] eqn:R; cbn in E; try discriminate.
    injection E as <- _. unfold GV.Model.Leb.read_u8 in R.
    destruct (CfiRd.win r) as [|b t]; cbn in R; [discriminate|]. injection R as <- _.
    apply GV.Base.Byt.b2n_lt. }
  rewrite gen_pe_is_valid_agree by exact Hlt. exact V.
Qed.
