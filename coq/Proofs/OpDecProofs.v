(* Proofs/OpDecProofs.v — lemmas about Model/OpDec.v (Operation::parse). *)
From Coq Require Import List NArith ZArith Bool Lia ZifyBool ZifyN ZifyNat.
From Coq.Strings Require Import Byte.
Require Import GV.Base.Res GV.Base.Byt GV.Base.Ints GV.Spec.LebSpec GV.Model.Leb GV.Model.Prim
  GV.Model.OpDec GV.Model.OpVal GV.Spec.StackSpec GV.Proofs.LebProofs.
Import ListNotations.
Local Open Scope N_scope.

Lemma read_u8_un (be : bool) (bs : list byte) : read_u8 bs = read_un 1 be bs.
Proof.
  destruct bs as [|b r]; [reflexivity|].
  unfold read_u8, read_un, read_bytes. cbn [take bind].
  destruct be; unfold be_val; cbn [rev app le_val]; f_equal; f_equal; lia.
Qed.

Ltac dt_step :=
  match goal with
  | |- ?a = ?a => reflexivity
  | |- context [bind (if ?c then _ else _) _] => destruct c eqn:?
  | |- context [bind ?x _] =>
      lazymatch x with
      | context [bind _ _] => fail
      | Ok _ => fail
      | Err _ => fail
      | _ => destruct x as [[? ?]| ? | |]
      end
  | |- context [if ?c then _ else _] => destruct c eqn:?
  end.

Lemma decode_table_lemma (dbg : bool) (e : enc) (opc : byte) (bs : list byte) :
  parse_opcode dbg e opc bs = generic_decode dbg e opc bs.
Proof.
  destruct opc; try reflexivity;
  unfold parse_opcode, parse_wasm, generic_decode, op_layout, read_operands, read_operand, read_register,
    register_from_u64, read_offset, read_u, read_i, two16, two64;
  rewrite ?(read_u8_un (e_be e));
  cbn [bind app op_build b2n Byte.to_N];
  repeat (dt_step; cbn [bind app op_build b2n Byte.to_N]); try reflexivity; try (exfalso; lia).
Qed.

(* ---------------------------------------------------------------- no panic, input consumption *)

(* r is what is left of bs after removing a prefix *)
Definition sfx (r bs : list byte) : Prop := exists u, bs = u ++ r.

Lemma sfx_refl bs : sfx bs bs.
Proof. now exists []. Qed.
Lemma sfx_trans a b c : sfx a b -> sfx b c -> sfx a c.
Proof. intros [u ->] [v ->]. exists (v ++ u). now rewrite app_assoc. Qed.
Lemma sfx_cons b r bs : sfx r bs -> sfx r (b :: bs).
Proof. intros [u ->]. now exists (b :: u). Qed.
Lemma sfx_length r bs : sfx r bs -> (length r <= length bs)%nat.
Proof. intros [u ->]. rewrite app_length. lia. Qed.

(* a reader result that is no panic, no fuel exhaustion, and leaves a suffix of its input *)
Definition rgood {A} (bs : list byte) (r : res (A * list byte)) : Prop :=
  r <> Panic /\ r <> OutOfFuel /\ forall v rest, r = Ok (v, rest) -> sfx rest bs.

Lemma rgood_ok {A} bs (v : A) r : sfx r bs -> rgood bs (Ok (v, r)).
Proof. intros H. split; [|split]; try discriminate. intros v' r' E. now inversion E; subst. Qed.
Lemma rgood_err {A} bs e : @rgood A bs (Err e).
Proof. split; [|split]; discriminate. Qed.
Lemma rgood_weaken {A} r bs (x : res (A * list byte)) : sfx r bs -> rgood r x -> rgood bs x.
Proof. intros S (H1 & H2 & H3). split; [|split]; auto. intros v rest E. eapply sfx_trans; eauto. Qed.
Lemma rgood_bind {A B} bs (m : res (A * list byte)) (f : A * list byte -> res (B * list byte)) :
  rgood bs m -> (forall v r, sfx r bs -> rgood bs (f (v, r))) -> rgood bs (bind m f).
Proof.
  intros (H1 & H2 & H3) Hf. destruct m as [[v r]| e | |]; cbn [bind].
  - apply Hf. exact (H3 v r eq_refl).
  - apply rgood_err.
  - now destruct H1.
  - now destruct H2.
Qed.
(* bind of a pure (non-reader) step *)
Lemma rgood_bind_pure {A B} bs (m : res A) (f : A -> res (B * list byte)) :
  m <> Panic -> m <> OutOfFuel -> (forall v, rgood bs (f v)) -> rgood bs (bind m f).
Proof. intros H1 H2 Hf. destruct m; cbn [bind]; auto using rgood_err; contradiction. Qed.

Lemma take_sfx n : forall bs h t, take n bs = Some (h, t) -> bs = h ++ t.
Proof.
  induction n as [|n IH]; intros bs h t H; cbn [take] in H.
  - now inversion H.
  - destruct bs as [|b r]; [discriminate|]. destruct (take n r) as [[h' t']|] eqn:E; [|discriminate].
    inversion H; subst. cbn. f_equal. now apply IH.
Qed.

Lemma read_bytes_good n bs : rgood bs (read_bytes n bs).
Proof.
  unfold read_bytes. destruct (take n bs) as [[h t]|] eqn:E; [|apply rgood_err].
  apply rgood_ok. exists h. now apply take_sfx in E.
Qed.
Lemma read_un_good n be bs : rgood bs (read_un n be bs).
Proof. unfold read_un. apply rgood_bind; [apply read_bytes_good|]. intros v r S. now apply rgood_ok. Qed.
Lemma read_in_good n be bs : rgood bs (read_in n be bs).
Proof. unfold read_in. apply rgood_bind; [apply read_un_good|]. intros v r S. now apply rgood_ok. Qed.
Lemma read_u8_good bs : rgood bs (read_u8 bs).
Proof. rewrite (read_u8_un false). apply read_un_good. Qed.
Lemma read_address_good sz be bs : rgood bs (read_address sz be bs).
Proof. unfold read_address. repeat (destruct (_ =? _)); auto using read_un_good, rgood_err. Qed.
Lemma read_word_good f be bs : rgood bs (read_word f be bs).
Proof. unfold read_word. destruct f; apply read_un_good. Qed.

Lemma read_uleb128_good dbg bs : rgood bs (read_uleb128 dbg bs).
Proof.
  rewrite read_uleb128_exact. unfold uleb_spec.
  destruct (split_leb bs) as [[en r]|] eqn:S.
  - apply split_leb_app in S. destruct (_ && _); [|apply rgood_err]. apply rgood_ok. now exists en.
  - destruct (_ <=? _)%nat; apply rgood_err.
Qed.
Lemma read_sleb128_good dbg bs : rgood bs (read_sleb128 dbg bs).
Proof.
  rewrite read_sleb128_exact. unfold sleb_spec.
  destruct (split_leb bs) as [[en r]|] eqn:S.
  - apply split_leb_app in S. destruct (_ && _); [|apply rgood_err]. apply rgood_ok. now exists en.
  - destruct (_ <=? _)%nat; apply rgood_err.
Qed.
Lemma read_uleb128_u32_good dbg bs : rgood bs (read_uleb128_u32 dbg bs).
Proof.
  unfold read_uleb128_u32. apply rgood_bind; [apply read_uleb128_good|]. intros v r S.
  destruct (_ <? _); auto using rgood_ok, rgood_err.
Qed.
Lemma split_n_good len bs : rgood bs (split_n len bs).
Proof.
  unfold split_n. destruct (_ <? _); [apply rgood_err|]. apply rgood_ok.
  exists (firstn (N.to_nat len) bs). now rewrite firstn_skipn.
Qed.
Lemma read_register_good dbg bs : rgood bs (read_register dbg bs).
Proof.
  unfold read_register. apply rgood_bind; [apply read_uleb128_good|]. intros v r S.
  unfold register_from_u64. destruct (_ <? _); cbn [bind]; auto using rgood_ok, rgood_err.
Qed.
Lemma read_offset_good e bs : rgood bs (read_offset e bs).
Proof. apply read_word_good. Qed.

Global Hint Resolve read_un_good read_in_good read_u8_good read_address_good read_word_good read_uleb128_good
  read_sleb128_good read_uleb128_u32_good split_n_good read_register_good read_offset_good sfx_refl rgood_err : rgood.

Ltac rgood_step :=
  match goal with
  | |- rgood _ (Ok (_, _)) => apply rgood_ok; eauto using sfx_trans, sfx_refl
  | |- rgood _ (Err _) => apply rgood_err
  | |- rgood _ (if ?c then _ else _) => destruct c
  | |- rgood _ (bind (if ?c then _ else _) _) => destruct c
  | |- rgood ?bs (bind ?m _) =>
      apply rgood_bind;
      [ first [ solve [auto with rgood]
              | match goal with S : sfx ?r bs |- rgood bs (_ ?r) => apply (rgood_weaken r bs _ S); auto with rgood end
              | match goal with S : sfx ?r bs |- rgood bs (_ _ ?r) => apply (rgood_weaken r bs _ S); auto with rgood end
              | match goal with S : sfx ?r bs |- rgood bs (_ _ _ ?r) => apply (rgood_weaken r bs _ S); auto with rgood end
              | match goal with S : sfx ?r bs |- rgood bs (_ _ _ _ ?r) => apply (rgood_weaken r bs _ S); auto with rgood end ]
      | intros ? ? ?; cbn beta iota ]
  end.

Lemma parse_wasm_good dbg e bs : rgood bs (parse_wasm dbg e bs).
Proof. unfold parse_wasm, read_u. repeat rgood_step. Qed.

Lemma parse_opcode_good dbg e opc bs : rgood bs (parse_opcode dbg e opc bs).
Proof.
  destruct opc; unfold parse_opcode; try apply rgood_err; try apply parse_wasm_good;
    unfold read_u, read_i; repeat rgood_step.
Qed.

Lemma parse_op_good dbg e bs : rgood bs (parse_op dbg e bs).
Proof.
  destruct bs as [|b r]; [apply rgood_err|]. cbn [parse_op].
  eapply rgood_weaken; [|apply parse_opcode_good]. apply sfx_cons, sfx_refl.
Qed.

Lemma parse_op_no_panic_lemma dbg e bs : parse_op dbg e bs <> Panic /\ parse_op dbg e bs <> OutOfFuel.
Proof. destruct (parse_op_good dbg e bs) as (H1 & H2 & _). now split. Qed.

(* a successful parse consumes the opcode byte and possibly more *)
Lemma parse_op_consumes dbg e bs o rest :
  parse_op dbg e bs = Ok (o, rest) -> exists b u, bs = b :: u ++ rest.
Proof.
  destruct bs as [|b r]; [discriminate|]. cbn [parse_op]. intros H.
  destruct (parse_opcode_good dbg e b r) as (_ & _ & H3). destruct (H3 _ _ H) as [u ->]. now exists b, u.
Qed.
Lemma parse_op_shorter dbg e bs o rest :
  parse_op dbg e bs = Ok (o, rest) -> (length rest < length bs)%nat.
Proof.
  intros H. apply parse_op_consumes in H. destruct H as (b & u & ->). cbn [length]. rewrite app_length. lia.
Qed.

(* decoding does not depend on the build mode *)
Lemma read_operand_dbg e k bs : read_operand true e k bs = read_operand false e k bs.
Proof.
  destruct k; cbn [read_operand]; unfold read_uleb128_u32; rewrite ?read_uleb128_exact, ?read_sleb128_exact; try reflexivity.
  destruct (read_u8 bs) as [[sub r]| | |]; cbn [bind]; try reflexivity.
  now rewrite !read_uleb128_exact.
Qed.
Lemma read_operands_dbg e ks : forall bs, read_operands true e ks bs = read_operands false e ks bs.
Proof.
  induction ks as [|k ks IH]; intros bs; cbn [read_operands]; [reflexivity|].
  rewrite read_operand_dbg. destruct (read_operand false e k bs) as [[a r]| | |]; cbn [bind]; try reflexivity.
  now rewrite IH.
Qed.
Lemma parse_op_dbg e bs : parse_op true e bs = parse_op false e bs.
Proof.
  destruct bs as [|b r]; [reflexivity|]. cbn [parse_op]. rewrite !decode_table_lemma.
  unfold generic_decode. destruct (op_layout b); [|reflexivity]. now rewrite read_operands_dbg.
Qed.

(* OperationIter: the stated fuel suffices, and the iteration neither panics nor loops *)
Lemma operations_fuel_ok dbg e : forall fuel bs, (length bs < fuel)%nat ->
  snd (operations_fuel fuel dbg e bs) <> Some OutOfFuel /\ snd (operations_fuel fuel dbg e bs) <> Some Panic.
Proof.
  induction fuel as [|f IH]; intros bs L; [lia|]. cbn [operations_fuel].
  destruct bs as [|b r] eqn:Ebs; [cbn; split; discriminate|]. rewrite <- Ebs in *.
  destruct (parse_op_no_panic_lemma dbg e bs) as [NP NF].
  destruct (parse_op dbg e bs) as [[o rest]| x | |] eqn:P; try contradiction.
  - apply parse_op_shorter in P. specialize (IH rest ltac:(lia)).
    destruct (operations_fuel f dbg e rest) as [l t]. exact IH.
  - cbn; split; discriminate.
Qed.
Lemma operations_total dbg e bs :
  snd (operations dbg e bs) <> Some OutOfFuel /\ snd (operations dbg e bs) <> Some Panic.
Proof. apply operations_fuel_ok. lia. Qed.

(* ---------------------------------------------------------------- decode (encode o) = o *)
Local Ltac Zify.zify_post_hook ::= Z.to_euclidean_division_equations.

(* ---- one byte produced by n2b ---- *)
Lemma n2b_small_facts m : m < 128 ->
  cont_bit (n2b m) = false /\ N.land (b2n (n2b m)) 127 = m /\
  cont_bit (n2b (128 + m)) = true /\ N.land (b2n (n2b (128 + m))) 127 = m.
Proof.
  intros H. unfold cont_bit. rewrite !b2n_n2b_small by lia.
  change 127 with (N.ones 7). rewrite !N.land_ones. change (2 ^ 7) with 128.
  assert (A : N.land m 128 = 0).
  { apply N.bits_inj_0. intros i. rewrite N.land_spec. change 128 with (2 ^ 7). rewrite N.pow2_bits_eqb.
    destruct (7 =? i) eqn:E; [|apply andb_false_r]. apply N.eqb_eq in E. subst i.
    rewrite andb_true_r. apply N.bits_above_log2. destruct (N.eq_dec m 0) as [->|NZ]; [reflexivity|].
    apply N.log2_lt_pow2; [lia|]. change (2 ^ 7) with 128. lia. }
  assert (B : N.land (128 + m) 128 = 128).
  { change 128 with (2 ^ 7) at 1 3. rewrite N.add_comm.
    replace (m + 2 ^ 7) with (N.lor m (2 ^ 7)).
    - rewrite N.land_lor_distr_l. change (2 ^ 7) with 128. rewrite A, N.land_diag. reflexivity.
    - change (2 ^ 7) with 128. rewrite <- N.lxor_lor by exact A. symmetry. now apply N.add_nocarry_lxor. }
  rewrite A, B. repeat split; try reflexivity; lia.
Qed.

Lemma enc_uleb_fuel_S f v : enc_uleb_fuel (S f) v =
  if v <? 128 then [n2b v] else n2b (128 + v mod 128) :: enc_uleb_fuel f (v / 128).
Proof. reflexivity. Qed.

Lemma enc_uleb_fuel_ok r : forall fuel v, v < 128 ^ N.of_nat (S fuel) ->
  split_leb (enc_uleb_fuel (S fuel) v ++ r) = Some (enc_uleb_fuel (S fuel) v, r) /\
  uval (enc_uleb_fuel (S fuel) v) = v /\
  (forall k, v < 128 ^ N.of_nat k -> (1 <= k)%nat -> (length (enc_uleb_fuel (S fuel) v) <= k)%nat).
Proof.
  induction fuel as [|f IH]; intros v H; rewrite enc_uleb_fuel_S; destruct (v <? 128) eqn:E.
  - destruct (n2b_small_facts v ltac:(lia)) as (C1 & U1 & _ & _).
    cbn [app split_leb uval length]. rewrite C1, U1. repeat split; try lia.
  - replace (128 ^ N.of_nat 1) with 128 in H by reflexivity. lia.
  - destruct (n2b_small_facts v ltac:(lia)) as (C1 & U1 & _ & _).
    cbn [app split_leb uval length]. rewrite C1, U1. repeat split; try lia.
  - assert (D : v / 128 < 128 ^ N.of_nat (S f)).
    { apply N.div_lt_upper_bound; [lia|]. rewrite (Nat2N.inj_succ (S f)), N.pow_succ_r' in H. lia. }
    destruct (IH (v / 128) D) as (S1 & U1 & L1).
    destruct (n2b_small_facts (v mod 128) ltac:(apply N.mod_lt; lia)) as (_ & _ & C2 & U2).
    cbn [app split_leb uval length]. rewrite C2, S1, U2, U1. repeat split; try lia.
    intros k K1 K2. destruct k as [|k]; [lia|]. cbn [length].
    destruct k as [|k].
    + replace (128 ^ N.of_nat 1) with 128 in K1 by reflexivity. lia.
    + apply le_n_S. apply L1; [|lia]. apply N.div_lt_upper_bound; [lia|].
      rewrite (Nat2N.inj_succ (S k)), N.pow_succ_r' in K1. lia.
Qed.

Lemma read_uleb128_enc dbg v r : v < 2 ^ 64 -> read_uleb128 dbg (enc_uleb v ++ r) = Ok (v, r).
Proof.
  intros H. rewrite read_uleb128_exact. unfold uleb_spec, enc_uleb.
  assert (P1 : 2 ^ 64 <= 128 ^ N.of_nat 19) by (vm_compute; discriminate).
  assert (P2 : 2 ^ 64 <= 128 ^ N.of_nat 10) by (vm_compute; discriminate).
  assert (B : v < 128 ^ N.of_nat 19) by lia.
  destruct (enc_uleb_fuel_ok r 18 v B) as (S1 & U1 & L1). rewrite S1, U1.
  assert (L : (length (enc_uleb_fuel 19 v) <= 10)%nat) by (apply L1; lia).
  destruct (length (enc_uleb_fuel 19 v) <=? 10)%nat eqn:E1; [|lia].
  destruct (v <? 2 ^ 64) eqn:E2; [reflexivity|lia].
Qed.

Lemma enc_sleb_fuel_S f z : enc_sleb_fuel (S f) z =
  let b := Z.to_N (z mod 128) in
  let q := (z / 128)%Z in
  if ((q =? 0)%Z && (b <? 64)) || ((q =? -1)%Z && (64 <=? b)) then [n2b b]
  else n2b (128 + b) :: enc_sleb_fuel f q.
Proof. reflexivity. Qed.

(* half of the modulus at L bytes: 2^(7L-1) *)
Definition hp (L : nat) : Z := (64 * 128 ^ (Z.of_nat L - 1))%Z.
Lemma hp_1 : hp 1 = 64%Z. Proof. reflexivity. Qed.
Lemma hp_S L : (1 <= L)%nat -> hp (S L) = (128 * hp L)%Z.
Proof.
  intros H. unfold hp. replace (Z.of_nat (S L) - 1)%Z with (Z.succ (Z.of_nat L - 1))%Z by lia.
  rewrite Z.pow_succ_r by lia. lia.
Qed.
Lemma hp_pos L : (1 <= L)%nat -> (0 < hp L)%Z.
Proof. intros H. unfold hp. assert (0 < 128 ^ (Z.of_nat L - 1))%Z by (apply Z.pow_pos_nonneg; lia). lia. Qed.

Lemma enc_sleb_fuel_ok r : forall f z, (- hp (S f) <= z < hp (S f))%Z ->
  split_leb (enc_sleb_fuel (S f) z ++ r) = Some (enc_sleb_fuel (S f) z, r) /\
  exists L, length (enc_sleb_fuel (S f) z) = L /\ (1 <= L <= S f)%nat /\
    Z.of_N (uval (enc_sleb_fuel (S f) z)) = (z mod (2 * hp L))%Z /\ (- hp L <= z < hp L)%Z.
Proof.
  induction f as [|f IH]; intros z R; rewrite enc_sleb_fuel_S; cbv zeta;
    set (b := Z.to_N (z mod 128)); set (q := (z / 128)%Z);
    assert (B : b < 128) by (unfold b; lia);
    assert (ZQ : z = (128 * q + Z.of_N b)%Z) by (unfold b, q; lia);
    destruct (((q =? 0)%Z && (b <? 64)) || ((q =? -1)%Z && (64 <=? b))) eqn:T.
  - destruct (n2b_small_facts b B) as (C1 & U1 & _ & _).
    cbn [app split_leb uval length]. rewrite C1, U1. split; [reflexivity|]. exists 1%nat.
    rewrite hp_1. repeat split; try lia.
  - rewrite hp_1 in R. exfalso. lia.
  - destruct (n2b_small_facts b B) as (C1 & U1 & _ & _).
    cbn [app split_leb uval length]. rewrite C1, U1. split; [reflexivity|]. exists 1%nat.
    rewrite hp_1. repeat split; try lia.
  - rewrite hp_S in R by lia. pose proof (hp_pos (S f) ltac:(lia)) as HP.
    assert (RQ : (- hp (S f) <= q < hp (S f))%Z) by lia.
    destruct (IH q RQ) as (S1 & L & LL & LR & UV & RG).
    destruct (n2b_small_facts b B) as (_ & _ & C2 & U2).
    cbn [app split_leb uval length]. rewrite C2, S1, U2. split; [reflexivity|]. exists (S L).
    rewrite LL. rewrite (hp_S L) by lia. pose proof (hp_pos L ltac:(lia)) as HL.
    repeat split; try lia.
    rewrite N2Z.inj_add, N2Z.inj_mul, UV. change (Z.of_N 128) with 128%Z.
    set (P := (2 * hp L)%Z) in *.
    apply Z.mod_unique_pos with (q := (q / P)%Z); [lia|].
    rewrite ZQ at 1. pose proof (Z.div_mod q P ltac:(lia)). lia.
Qed.

Lemma hp_N L : (1 <= L)%nat -> Z.of_N (2 ^ (7 * N.of_nat L - 1)) = hp L /\ Z.of_N (2 ^ (7 * N.of_nat L)) = (2 * hp L)%Z.
Proof.
  induction L as [|L IH]; intros H; [lia|].
  destruct L as [|L].
  - split; reflexivity.
  - destruct (IH ltac:(lia)) as [I1 I2]. rewrite (hp_S (S L)) by lia.
    replace (7 * N.of_nat (S (S L)) - 1) with (7 + (7 * N.of_nat (S L) - 1)) by lia.
    replace (7 * N.of_nat (S (S L))) with (7 + 7 * N.of_nat (S L)) by lia.
    rewrite !N.pow_add_r, !N2Z.inj_mul, I1, I2. change (Z.of_N (2 ^ 7)) with 128%Z. lia.
Qed.

Lemma read_sleb128_enc dbg z r : in_i64 z = true -> read_sleb128 dbg (enc_sleb z ++ r) = Ok (z, r).
Proof.
  intros H. rewrite read_sleb128_exact. unfold sleb_spec, enc_sleb. unfold in_i64 in H.
  assert (HP10 : hp 10 = 590295810358705651712%Z) by reflexivity.
  destruct (enc_sleb_fuel_ok r 9 z ltac:(rewrite HP10; lia)) as (S1 & L & LL & LR & UV & RG).
  rewrite S1. rewrite LL.
  destruct (L <=? 10)%nat eqn:E1; [|lia]. cbn [andb].
  assert (SV : sval (enc_sleb_fuel 10 z) = z).
  { rewrite sval_sval_at, LL. unfold sval_at. destruct (hp_N L ltac:(lia)) as [N1 N2].
    pose proof (hp_pos L ltac:(lia)) as HL.
    assert (M : (z mod (2 * hp L) = if 0 <=? z then z else z + 2 * hp L)%Z).
    { destruct (0 <=? z)%Z eqn:EZ.
      - apply Z.mod_small. lia.
      - symmetry. apply Z.mod_unique_pos with (q := (-1)%Z); lia. }
    rewrite M in UV. clear M. generalize dependent (uval (enc_sleb_fuel 10 z)). intros u UV.
    destruct (0 <=? z)%Z eqn:EZ;
    destruct (u <? 2 ^ (7 * N.of_nat L - 1)) eqn:E;
      [apply N.ltb_lt in E; apply N2Z.inj_lt in E|apply N.ltb_ge in E; apply N2Z.inj_le in E|
       apply N.ltb_lt in E; apply N2Z.inj_lt in E|apply N.ltb_ge in E; apply N2Z.inj_le in E];
      rewrite N1 in E; rewrite ?N2; lia. }
  rewrite SV. unfold in_i64. rewrite H. reflexivity.
Qed.

(* ---- fixed-width fields ---- *)
Lemma take_app (h r : list byte) : take (length h) (h ++ r) = Some (h, r).
Proof. induction h as [|x h IH]; cbn [length app take]; [reflexivity|]. now rewrite IH. Qed.
Lemma le_bytes_length n : forall v, length (le_bytes n v) = n.
Proof. induction n as [|n IH]; intros v; cbn [le_bytes length]; [reflexivity|]. now rewrite IH. Qed.
Lemma le_val_le_bytes n : forall v, le_val (le_bytes n v) = v mod 256 ^ N.of_nat n.
Proof.
  induction n as [|n IH]; intros v; cbn [le_bytes le_val].
  - change (256 ^ N.of_nat 0) with 1. now rewrite N.mod_1_r.
  - rewrite IH, b2n_n2b, Nat2N.inj_succ, N.pow_succ_r'.
    rewrite N.mod_mul_r by (try apply N.pow_nonzero; lia). reflexivity.
Qed.
Lemma read_un_enc n be v r : v < 256 ^ N.of_nat n -> read_un n be (enc_un n be v ++ r) = Ok (v, r).
Proof.
  intros H. unfold read_un, read_bytes, enc_un, be_bytes.
  destruct be.
  - replace n with (length (rev (le_bytes n v))) at 1 by (rewrite rev_length; apply le_bytes_length).
    rewrite take_app. cbn [bind]. unfold be_val. rewrite rev_involutive, le_val_le_bytes, N.mod_small by exact H. reflexivity.
  - replace n with (length (le_bytes n v)) at 1 by apply le_bytes_length.
    rewrite take_app. cbn [bind]. rewrite le_val_le_bytes, N.mod_small by exact H. reflexivity.
Qed.
Lemma read_in_enc n be z r : (n = 1 \/ n = 2 \/ n = 4 \/ n = 8)%nat -> in_signed (8 * N.of_nat n) z = true ->
  read_in n be (enc_un n be (of_signed (8 * N.of_nat n) z) ++ r) = Ok (z, r).
Proof.
  intros Hn H. unfold read_in. rewrite read_un_enc.
  - cbn [bind]. f_equal. f_equal.
    destruct Hn as [-> | [-> | [-> | ->]]];
      change (8 * N.of_nat 1) with 8 in *; change (8 * N.of_nat 2) with 16 in *;
      change (8 * N.of_nat 4) with 32 in *; change (8 * N.of_nat 8) with 64 in *;
      unfold in_signed, to_signed, of_signed, wrapN in *;
      change (8 - 1) with 7 in *; change (16 - 1) with 15 in *; change (32 - 1) with 31 in *; change (64 - 1) with 63 in *;
      match goal with |- context [if ?c then _ else _] => destruct c eqn:? end; lia.
  - destruct Hn as [-> | [-> | [-> | ->]]];
      change (8 * N.of_nat 1) with 8 in *; change (8 * N.of_nat 2) with 16 in *;
      change (8 * N.of_nat 4) with 32 in *; change (8 * N.of_nat 8) with 64 in *;
      change (N.of_nat 1) with 1; change (N.of_nat 2) with 2; change (N.of_nat 4) with 4; change (N.of_nat 8) with 8;
      unfold of_signed; lia.
Qed.
Lemma split_n_app d r : split_n (N.of_nat (length d)) (d ++ r) = Ok (d, r).
Proof.
  unfold split_n. rewrite app_length. destruct (_ <? _) eqn:E; [lia|].
  rewrite Nat2N.id, firstn_app, skipn_app, Nat.sub_diag, firstn_all, skipn_all. cbn. now rewrite app_nil_r.
Qed.
Lemma read_u8_enc v r : v < 256 -> read_u8 (n2b v :: r) = Ok (v, r).
Proof. intros H. cbn [read_u8]. now rewrite b2n_n2b_small. Qed.

Ltac rt_side := first [ assumption | lia | (unfold u64, fits_off in *; lia) | tauto ].
Ltac rt :=
  repeat (rewrite <- ?app_assoc; cbn [app bind];
    first [ rewrite read_uleb128_enc by rt_side
          | rewrite read_sleb128_enc by rt_side
          | rewrite read_un_enc by rt_side
          | rewrite read_u8_enc by rt_side
          | rewrite split_n_app ]); cbn [app bind].

Lemma decode_roundtrip_lemma dbg e o rest : wf_op e o -> parse_op dbg e (enc_op e o ++ rest) = Ok (o, rest).
Proof.
  intros W. destruct o; cbn [enc_op wf_op] in *.
  all: try reflexivity.
  - (* Deref *) destruct W as [W1 W2]. destruct (base_type =? 0) eqn:E; destruct space; cbn [app parse_op parse_opcode];
      rt; try (apply N.eqb_eq in E; subst); reflexivity.
  - (* Pick *) cbn [app parse_op parse_opcode]. rt. reflexivity.
  - cbn [app parse_op parse_opcode]. rt. reflexivity.
  - (* Bra *) cbn [app parse_op parse_opcode]. unfold read_i, enc_i16. change 16 with (8 * N.of_nat 2).
    rewrite read_in_enc by (auto; right; left; reflexivity). reflexivity.
  - (* Skip *) cbn [app parse_op parse_opcode]. unfold read_i, enc_i16. change 16 with (8 * N.of_nat 2).
    rewrite read_in_enc by (auto; right; left; reflexivity). reflexivity.
  - cbn [app parse_op parse_opcode]. rt. reflexivity.
  - cbn [app parse_op parse_opcode]. rt. reflexivity.
  - (* Register *) cbn [app parse_op parse_opcode]. unfold read_register, register_from_u64, two16. rt.
    destruct (register <? 65536) eqn:E; [reflexivity|lia].
  - (* RegisterOffset *) destruct W as (W1 & W2 & W3 & W4).
    destruct (base_type =? 0) eqn:E; cbn [app parse_op parse_opcode]; unfold read_register, register_from_u64, two16; rt;
      (destruct (register <? 65536) eqn:E2; [|lia]); cbn [bind]; rt.
    + apply N.eqb_eq in E. now subst.
    + apply N.eqb_neq in E. now rewrite (W4 E).
  - cbn [app parse_op parse_opcode]. rt. reflexivity.
  - (* Call *) destruct offset; cbn [app parse_op parse_opcode]; unfold read_u, read_offset, read_word, enc_off, fits_off in *;
      destruct (e_fmt64 e); rt; reflexivity.
  - (* VariableValue *) cbn [app parse_op parse_opcode]; unfold read_offset, read_word, enc_off, fits_off in *;
      destruct (e_fmt64 e); rt; reflexivity.
  - (* Piece *) destruct bit_offset as [off|]; cbn [app parse_op parse_opcode].
    + destruct W. rt. reflexivity.
    + destruct W as [W1 W2]. unfold u64 in *. change (2 ^ 64) with 18446744073709551616 in *.
      rewrite read_uleb128_enc by (change (2 ^ 64) with 18446744073709551616; lia). cbn [bind].
      unfold two64. replace (size_in_bits / 8 * 8) with size_in_bits by lia.
      destruct (size_in_bits <? 18446744073709551616) eqn:E; [reflexivity|lia].
  - (* ImplicitValue *) cbn [app parse_op parse_opcode]. unfold enc_block. rt. reflexivity.
  - (* ImplicitPointer *) destruct W as [W1 W2]. cbn [app parse_op parse_opcode].
    destruct (e_ver e =? 2).
    + destruct W1 as [A B]. unfold enc_addr, read_address.
      destruct A as [A | [A | [A | A]]]; rewrite A in *; cbn [N.eqb Pos.eqb N.to_nat Pos.to_nat Pos.iter_op Nat.add]; rt; reflexivity.
    + unfold read_offset, read_word, enc_off, fits_off in *. destruct (e_fmt64 e); rt; reflexivity.
  - (* EntryValue *) cbn [app parse_op parse_opcode]. unfold enc_block. rt. reflexivity.
  - cbn [app parse_op parse_opcode]. unfold read_u. rt. reflexivity.
  - (* Address *) destruct W as [A B]. cbn [app parse_op parse_opcode]. unfold enc_addr, read_address.
    destruct A as [A | [A | [A | A]]]; rewrite A in *; cbn [N.eqb Pos.eqb N.to_nat Pos.to_nat Pos.iter_op Nat.add]; rt; reflexivity.
  - cbn [app parse_op parse_opcode]. rt. reflexivity.
  - cbn [app parse_op parse_opcode]. rt. reflexivity.
  - (* TypedLiteral *) destruct W. cbn [app parse_op parse_opcode]. rt. reflexivity.
  - cbn [app parse_op parse_opcode]. rt. reflexivity.
  - cbn [app parse_op parse_opcode]. rt. reflexivity.
  - (* Wasm *) cbn [app parse_op parse_opcode]. unfold parse_wasm, read_uleb128_u32, two32. cbn [read_u8 bind b2n Byte.to_N N.eqb].
    rewrite read_uleb128_enc by (change (2 ^ 64) with 18446744073709551616; change (2 ^ 32) with 4294967296 in W; lia). cbn [bind].
    change (2 ^ 32) with 4294967296 in W. destruct (index <? 4294967296) eqn:E; [reflexivity|lia].
  - cbn [app parse_op parse_opcode]. unfold parse_wasm, read_uleb128_u32, two32. cbn [read_u8 bind b2n Byte.to_N N.eqb].
    rewrite read_uleb128_enc by (change (2 ^ 64) with 18446744073709551616; change (2 ^ 32) with 4294967296 in W; lia). cbn [bind].
    change (2 ^ 32) with 4294967296 in W. destruct (index <? 4294967296) eqn:E; [reflexivity|lia].
  - cbn [app parse_op parse_opcode]. unfold parse_wasm, read_uleb128_u32, two32. cbn [read_u8 bind b2n Byte.to_N N.eqb].
    rewrite read_uleb128_enc by (change (2 ^ 64) with 18446744073709551616; change (2 ^ 32) with 4294967296 in W; lia). cbn [bind].
    change (2 ^ 32) with 4294967296 in W. destruct (index <? 4294967296) eqn:E; [reflexivity|lia].
Qed.
