(* Proofs/LineRtRows.v — the instruction lists the line writer emits are well-formed programs of the line
   READER's specification (Spec/LineSpec.v: prog_wf) and mean the same rows there as in Spec/LineAdvSpec.v;
   with C04's rows_refine_spec this gives: LineRd.rows_model over the written program = meaning of the
   script. Part of property C13. *)
From Coq Require Import List NArith ZArith Bool Lia ZifyBool ZifyN ZifyNat.
From Coq.Strings Require Import Byte.
Require Import GV.Base.Res GV.Base.Byt GV.Base.Ints GV.Model.Leb GV.Model.Prim.
Require Import GV.Spec.LineSpec GV.Model.LineRd GV.Proofs.LineRdRefine GV.Proofs.LineRdInsn.
Require GV.Spec.LineAdvSpec GV.Model.LineWr GV.Proofs.LineWrProofs GV.Proofs.LineWrSeqProofs.
Require Import GV.Proofs.LineRtBytes.
Import ListNotations.

Local Ltac Zify.zify_post_hook ::= Z.div_mod_to_equations.

Module A := GV.Spec.LineAdvSpec.
Module P1 := GV.Proofs.LineWrProofs.
Module P2 := GV.Proofs.LineWrSeqProofs.

Local Open Scope Z_scope.

(* ------------------------------------------------------------------ the two specification machines agree *)

Definition r2s (r : A.regs) : sregs :=
  mk_sregs (A.r_address r) (A.r_op_index r) (A.r_file r) (A.r_line r) (A.r_column r) (A.r_is_stmt r)
           (A.r_basic_block r) (A.r_end_sequence r) (A.r_prologue_end r) (A.r_epilogue_begin r)
           (A.r_isa r) (A.r_discriminator r).

(* rows and final registers of the reader's specification machine *)
Fixpoint srun (h : header) (s : sregs) (is : list insn) : list sregs * sregs :=
  match is with
  | [] => ([], s)
  | i :: tl =>
      let '(s', r) := exec_spec h s i in
      let '(rows, sf) := srun h s' tl in
      (match r with Some x => x :: rows | None => rows end, sf)
  end.

Lemma srun_rows h : forall is s, rows_from h s is = fst (srun h s is).
Proof.
  induction is as [|i is IH]; intros s; [reflexivity|]. cbn [rows_from srun].
  destruct (exec_spec h s i) as [s' [x|]]; rewrite IH; destruct (srun h s' is); reflexivity.
Qed.

Lemma srun_app h : forall a b s,
  srun h s (a ++ b) = let '(r1, s1) := srun h s a in let '(r2, s2) := srun h s1 b in (r1 ++ r2, s2).
Proof.
  induction a as [|i a IH]; intros b s; cbn [app srun].
  - destruct (srun h s b); reflexivity.
  - destruct (exec_spec h s i) as [s' [x|]]; rewrite IH; destruct (srun h s' a) as [r1 s1];
      destruct (srun h s1 b) as [r2 s2]; reflexivity.
Qed.

Lemma prog_wf_from_app h : forall a b s,
  prog_wf_from h s (a ++ b) = prog_wf_from h s a && prog_wf_from h (snd (srun h s a)) b.
Proof.
  induction a as [|i a IH]; intros b s; cbn [app prog_wf_from srun]; [reflexivity|].
  rewrite IH. destruct (exec_spec h s i) as [s' [x|]]; cbn [fst]; destruct (srun h s' a); cbn [snd];
    now rewrite andb_assoc.
Qed.

Definition nosym (i : W.linsn) : Prop :=
  match i with W.ISetAddress (W.ASym _ _) => False | _ => True end.

Lemma exec_iso e l h i r :
  hdr_matches e l h -> nosym i -> A.r_end_sequence r = false ->
  exec_spec h (r2s r) (tr (W.e_version e) i) =
  (r2s (snd (A.step (W.params_of l) (W.denote (W.e_version e) i) r)),
   match fst (A.step (W.params_of l) (W.denote (W.e_version e) i) r) with
   | [x] => Some (r2s x) | _ => None end).
Proof.
  intros (Hv & Ha & Hm & Ho & Hd & Hb & Hr & Hob & Hs) Hn He.
  destruct r as [addr opi file line col stmt bb es pe eb isa disc]. cbn in He. subst es.
  destruct i; cbn [tr W.denote A.step A.exec exec_spec]; unfold r2s, A.after_row; cbn;
    unfold s_advance, s_add_line, s_after_row, sp_op_adv, sp_line_inc, adjusted, s_init,
           A.special_op_adv, A.special_line_adv, A.init_regs; cbn;
    rewrite ?Hm, ?Ho, ?Hr, ?Hob, ?Hb, ?Hd; try reflexivity.
  - destruct a as [a|s ad]; [reflexivity|contradiction].
Qed.

Lemma step_end_false p i r : A.r_end_sequence r = false ->
  A.r_end_sequence (snd (A.step p i r)) = false.
Proof.
  intros He. destruct r as [addr opi file line col stmt bb es pe eb isa disc]. cbn in He. subst es.
  destruct i; reflexivity.
Qed.

Lemma step_rows_shape p i r : match fst (A.step p i r) with [] | [_] => True | _ => False end.
Proof. unfold A.step. destruct (A.exec p i r) as [r' []]; exact I. Qed.

Lemma srun_iso e l h : forall is r rows r',
  hdr_matches e l h -> Forall nosym is -> A.r_end_sequence r = false ->
  A.run (W.params_of l) (map (W.denote (W.e_version e)) is) r = (rows, r') ->
  srun h (r2s r) (map (tr (W.e_version e)) is) = (map r2s rows, r2s r') /\ A.r_end_sequence r' = false.
Proof.
  induction is as [|i is IH]; intros r rows r' Hm Hn He Hrun.
  - cbn in Hrun. inversion Hrun; subst. split; [reflexivity|exact He].
  - inversion Hn as [|x xs Hi His]; subst. cbn [map A.run srun] in *.
    rewrite (exec_iso e l h i r Hm Hi He).
    pose proof (step_rows_shape (W.params_of l) (W.denote (W.e_version e) i) r) as Hsh.
    pose proof (step_end_false (W.params_of l) (W.denote (W.e_version e) i) r He) as He1.
    destruct (A.step (W.params_of l) (W.denote (W.e_version e) i) r) as [rows1 r1]. cbn [fst snd] in *.
    destruct (A.run (W.params_of l) (map (W.denote (W.e_version e)) is) r1) as [rows2 r2] eqn:E2.
    inversion Hrun; subst.
    destruct (IH r1 rows2 r' Hm His He1 E2) as [IH1 IH2]. rewrite IH1. split; [|exact IH2].
    destruct rows1 as [|x [|y t]]; [reflexivity|reflexivity|contradiction].
Qed.

(* ------------------------------------------------------------------ bounds and generic well-formedness *)

Definition bounds (h : header) (s : sregs) : Prop :=
  0 <= s_address s <= addr_mask h /\ 0 <= s_line s < two64z.

Lemma bounds_check h s : bounds h s ->
  ((0 <=? s_address s) && (s_address s <=? addr_mask h) && (0 <=? s_line s) && (s_line s <? two64z)) = true.
Proof. intros [[? ?] [? ?]]. repeat (apply andb_true_intro; split); lia. Qed.

(* instructions that touch neither the address, the op_index nor the line *)
Definition neutral (i : insn) : Prop :=
  match i with
  | ISetFile _ | ISetColumn _ | INegateStmt | ISetBasicBlock | ISetPrologueEnd | ISetEpilogueBegin
  | ISetIsa _ | ISetDiscriminator _ => True
  | _ => False
  end.

Lemma neutral_step h s i : neutral i -> bounds h s -> insn_wf h i = true ->
  step_wf h s i = true /\ bounds h (fst (exec_spec h s i)).
Proof.
  intros Hn Hb Hw. pose proof (bounds_check h s Hb) as Hc.
  destruct i; try contradiction; unfold step_wf; cbn [exec_spec fst s_address s_line]; rewrite Hw;
    (split; [cbn [andb]; rewrite ?andb_true_r; exact Hc | exact Hb]).
Qed.

Lemma neutral_wf h : forall is s, Forall neutral is -> bounds h s -> forallb (insn_wf h) is = true ->
  prog_wf_from h s is = true.
Proof.
  induction is as [|i is IH]; intros s Hn Hb Hw; [reflexivity|].
  inversion Hn as [|x xs Hi His]; subst. cbn [forallb] in Hw. apply andb_true_iff in Hw as [Hw1 Hw2].
  destruct (neutral_step h s i Hi Hb Hw1) as [Hs Hb']. cbn [prog_wf_from]. rewrite Hs. cbn [andb].
  apply IH; assumption.
Qed.

(* the address never decreases under an operation advance >= 0 *)
Lemma s_advance_mono h s n : pwf h -> 0 <= n -> 0 <= s_op_index s ->
  s_address s <= s_address (s_advance h n s) /\ 0 <= s_op_index (s_advance h n s) < Z.of_N (h_max_ops h) /\
  s_line (s_advance h n s) = s_line s.
Proof.
  intros [Hmil Hmops _ _ _ _ _] Hn Ho. unfold s_advance. cbn.
  assert (0 <= (s_op_index s + n) / Z.of_N (h_max_ops h)) by (apply Z.div_pos; lia).
  assert (0 <= Z.of_N (h_min_inst_len h) * ((s_op_index s + n) / Z.of_N (h_max_ops h)))
    by (apply Z.mul_nonneg_nonneg; lia).
  split; [lia|]. split; [apply Z.mod_pos_bound; lia|reflexivity].
Qed.

Lemma sp_op_adv_nonneg h v : pwf h -> Z.of_N (h_opcode_base h) <= v -> 0 <= sp_op_adv h v.
Proof. intros [_ _ Hlr _ _ _ _] Hv. unfold sp_op_adv, adjusted. apply Z.div_pos; lia. Qed.

(* ------------------------------------------------------------------ single instructions *)

Definition bounds_b (h : header) (s : sregs) : bool :=
  (0 <=? s_address s) && (s_address s <=? addr_mask h) && (0 <=? s_line s) && (s_line s <? two64z).

Definition extra_ok (h : header) (s : sregs) (i : insn) : bool :=
  match i with
  | IAdvancePc n => (s_op_index s + Z.of_N n <? two64z)
  | ISetAddress a => (s_address s <=? Z.of_N a) && (Z.of_N a <? addr_mask h - 1)
  | ISpecial op => (0 <=? s_line s + sp_line_inc h (Z.of_N op))
  | _ => true
  end.

Lemma step_wf_eq h s i :
  step_wf h s i = insn_wf h i && bounds_b h (fst (exec_spec h s i)) && extra_ok h s i.
Proof.
  unfold step_wf, bounds_b, extra_ok. destruct (exec_spec h s i) as [s' o]. cbn [fst].
  rewrite !andb_assoc. reflexivity.
Qed.

Lemma bounds_b_true h s : bounds h s -> bounds_b h s = true.
Proof. exact (bounds_check h s). Qed.

Lemma bounds_b_after_row h x : bounds_b h (s_after_row x) = bounds_b h x.
Proof. reflexivity. Qed.

Section WithHeader.
Variables (e : W.enc) (l : W.lenc) (h : header).
Hypothesis HM : hdr_matches e l h.
Hypothesis HP : enc_params_ok e l.

Let P : pwf h := hdr_matches_pwf e l h HM HP.

Lemma ob13 : h_opcode_base h = 13%N.
Proof. pose proof HM as (_ & _ & _ & _ & _ & _ & _ & H & _). exact H. Qed.

Lemma std_known_ok k : (k < 13)%N -> std_known h k = true.
Proof. intros H. unfold std_known. rewrite ob13. apply N.ltb_lt. exact H. Qed.

Lemma advline_step s z :
  (-9223372036854775808 <= z < 9223372036854775808) -> bounds h s -> 0 <= s_line s + z < two64z ->
  step_wf h s (IAdvanceLine z) = true.
Proof.
  intros Hz [Ha Hl] Hl'. rewrite step_wf_eq. cbn [insn_wf exec_spec fst extra_ok].
  rewrite std_known_ok by lia. unfold bounds_b, s_add_line. cbn.
  repeat (apply andb_true_intro; split); lia.
Qed.

Lemma advpc_step s n :
  (n < 18446744073709551616)%N -> bounds h s -> 0 <= s_op_index s ->
  s_op_index s + Z.of_N n < two64z -> s_address (s_advance h (Z.of_N n) s) <= addr_mask h ->
  step_wf h s (IAdvancePc n) = true.
Proof.
  intros Hn [Ha Hl] Ho Hw Hm. rewrite step_wf_eq. cbn [insn_wf exec_spec fst extra_ok].
  rewrite std_known_ok by lia.
  destruct (s_advance_mono h s (Z.of_N n) P ltac:(lia) Ho) as (Hmono & _ & Hline).
  unfold bounds_b, u64b. rewrite Hline.
  repeat (apply andb_true_intro; split); lia.
Qed.

Lemma constadd_step s :
  bounds h s -> 0 <= s_op_index s -> s_address (s_advance h (sp_op_adv h 255) s) <= addr_mask h ->
  step_wf h s IConstAddPc = true.
Proof.
  intros [Ha Hl] Ho Hm. rewrite step_wf_eq. cbn [insn_wf exec_spec fst extra_ok].
  rewrite std_known_ok by lia.
  assert (Hk : 0 <= sp_op_adv h 255) by (apply sp_op_adv_nonneg; [exact P|rewrite ob13; lia]).
  destruct (s_advance_mono h s _ P Hk Ho) as (Hmono & _ & Hline).
  unfold bounds_b. rewrite Hline. repeat (apply andb_true_intro; split); lia.
Qed.

Lemma special_step s v :
  (13 <= v < 256)%N -> bounds h s -> 0 <= s_op_index s ->
  bounds h (s_advance h (sp_op_adv h (Z.of_N v)) (s_add_line (sp_line_inc h (Z.of_N v)) s)) ->
  step_wf h s (ISpecial v) = true.
Proof.
  intros Hv [Ha Hl] Ho Hb. rewrite step_wf_eq. cbn [insn_wf exec_spec fst extra_ok]. rewrite ob13.
  rewrite bounds_b_after_row, (bounds_b_true _ _ Hb).
  destruct Hb as [_ Hl']. unfold s_advance, s_add_line in Hl'. cbn in Hl'.
  repeat (apply andb_true_intro; split); lia.
Qed.

Lemma copy_step s : bounds h s -> step_wf h s ICopy = true.
Proof.
  intros Hb. rewrite step_wf_eq. cbn [insn_wf exec_spec fst extra_ok]. rewrite std_known_ok by lia.
  unfold s_after_row, bounds_b. cbn. destruct Hb as [Ha Hl]. repeat (apply andb_true_intro; split); lia.
Qed.

Lemma endseq_step s : step_wf h s IEndSequence = true.
Proof.
  rewrite step_wf_eq. cbn [insn_wf exec_spec fst extra_ok]. unfold bounds_b, s_init. cbn.
  pose proof P as [_ _ _ _ Hs _ _]. unfold addr_mask.
  assert (0 <= 2 ^ (8 * Z.of_N (h_addr_size h)) - 1) by (pose proof (Z.pow_pos_nonneg 2 (8 * Z.of_N (h_addr_size h))); lia).
  repeat (apply andb_true_intro; split); try lia; reflexivity.
Qed.

Lemma setaddr_step s a :
  bounds h s -> s_address s <= Z.of_N a < addr_mask h - 1 ->
  step_wf h s (ISetAddress a) = true.
Proof.
  intros [Ha Hl] Hr. rewrite step_wf_eq. cbn [insn_wf exec_spec fst extra_ok].
  pose proof HP as (Hsz & _). pose proof HM as (_ & Hasz & _).
  assert (E : ((h_addr_size h =? 1) || (h_addr_size h =? 2) || (h_addr_size h =? 4) || (h_addr_size h =? 8))%N = true)
    by (rewrite Hasz; destruct Hsz as [-> | [-> | [-> | ->]]]; reflexivity).
  rewrite E. unfold bounds_b. cbn. repeat (apply andb_true_intro; split); lia.
Qed.

End WithHeader.

(* ------------------------------------------------------------------ shapes of what the writer emits *)

Lemma advance_shape dbg l ladv oadv insns : W.advance_insns dbg l ladv oadv = Ok insns ->
  exists pre mid fin, insns = pre ++ mid ++ fin /\
    (pre = [] \/ pre = [W.IAdvanceLine ladv]) /\
    (mid = [] \/ mid = [W.IConstAddPc] \/ mid = [W.IAdvancePc oadv]) /\
    (fin = [W.ICopy] \/ exists v, fin = [W.ISpecial v]).
Proof.
  unfold W.advance_insns. intros H.
  apply bind_ok in H as (u & _ & H).
  apply bind_ok in H as ([[sp us] pre] & H1 & H).
  apply bind_ok in H as ([[sp2 us2] mid] & H2 & H).
  apply bind_ok in H as (fin & H3 & H). inversion H; subst insns. clear H.
  exists pre, mid, fin. split; [reflexivity|]. split; [|split].
  - unfold W.adv_line_stage in H1.
    destruct (negb (ladv =? 0)%Z).
    + destruct (_ <? W.le_line_range l)%N.
      * apply bind_ok in H1 as (s & _ & H1). destruct (s <=? 255)%N; inversion H1; auto.
      * inversion H1; auto.
    + inversion H1; auto.
  - unfold W.adv_op_stage in H2.
    destruct (negb (oadv =? 0)%N); [|inversion H2; auto].
    apply bind_ok in H2 as ([soa cap] & Hc & H2).
    destruct (W.sat_add64 sp (W.sat_mul64 soa (W.le_line_range l)) <=? 255)%N.
    + apply bind_ok in H2 as (t2 & _ & H2). inversion H2; subst.
      destruct (W.sat_add64 sp (W.sat_mul64 oadv (W.le_line_range l)) <=? 255)%N.
      * inversion Hc; subst. auto.
      * destruct (W.le_line_range l =? 0)%N; [discriminate|].
        apply bind_ok in Hc as (d & _ & Hc). inversion Hc; subst. auto.
    + inversion H2; auto.
  - unfold W.adv_final in H3.
    destruct (us2 && negb (sp2 =? W.special_default l)%N).
    + destruct (dbg && ((sp2 <? W.OPCODE_BASE)%N || (255 <? sp2)%N)); [discriminate|].
      inversion H3. right. eexists; reflexivity.
    + inversion H3. auto.
Qed.

Lemma s_add_line_add a b s : s_add_line a (s_add_line b s) = s_add_line (b + a) s.
Proof. unfold s_add_line. cbn. f_equal. lia. Qed.

Lemma s_add_line_0 s : s_add_line 0 s = s.
Proof. destruct s. unfold s_add_line. cbn. f_equal. lia. Qed.

Section WithHeader2.
Variables (e : W.enc) (l : W.lenc) (h : header).
Hypothesis HM : hdr_matches e l h.
Hypothesis HP : enc_params_ok e l.
Let ver := W.e_version e.

(* the DW_LNS_advance_line chunks of a line delta beyond i64 *)
Lemma chunks_wf : forall f delta s chunks d,
  W.line_chunks f delta = Ok (chunks, d) -> bounds h s -> 0 <= s_line s + delta < two64z ->
  prog_wf_from h s (map (tr ver) chunks) = true /\
  srun h s (map (tr ver) chunks) = ([], s_add_line (delta - d) s) /\
  Forall (insn_enc_ok e) chunks /\ Forall nosym chunks /\
  bounds h (s_add_line (delta - d) s) /\ (-9223372036854775808 <= d < 9223372036854775808).
Proof.
  induction f as [|f IH]; intros delta s chunks d Hc Hb Hl; [discriminate|].
  rewrite P2.line_chunks_S in Hc.
  destruct (Z.ltb_spec 9223372036854775807 delta) as [Hgt|Hle].
  - apply bind_ok in Hc as ([c1 d1] & Hc1 & Hc). inversion Hc; subst chunks d. clear Hc.
    assert (Hb1 : bounds h (s_add_line 9223372036854775807 s)).
    { destruct Hb as [Ha Hl0]. unfold bounds, s_add_line, two64z in *. cbn. lia. }
    destruct (IH _ (s_add_line 9223372036854775807 s) _ _ Hc1 Hb1) as (W1 & R1 & E1 & N1 & B1 & D1).
    { unfold s_add_line; cbn. lia. }
    cbn [map tr prog_wf_from srun exec_spec fst].
    rewrite (advline_step e l h HM s 9223372036854775807) by
      (try lia; try exact Hb; destruct Hb as [_ Hl0]; unfold two64z in *; lia).
    rewrite W1, R1.
    assert (Es : s_add_line (delta - 9223372036854775807 - d1) (s_add_line 9223372036854775807 s)
                 = s_add_line (delta - d1) s) by (rewrite s_add_line_add; f_equal; lia).
    rewrite Es in *. split; [reflexivity|]. split; [reflexivity|].
    split; [constructor; [cbn; lia|assumption]|]. split; [constructor; [exact I|assumption]|].
    split; assumption.
  - destruct (Z.ltb_spec delta (-9223372036854775808)) as [Hlt|Hge].
    + apply bind_ok in Hc as ([c1 d1] & Hc1 & Hc). inversion Hc; subst chunks d. clear Hc.
      assert (Hb1 : bounds h (s_add_line (-9223372036854775808) s)).
      { destruct Hb as [Ha Hl0]. unfold bounds, s_add_line, two64z in *. cbn. lia. }
      destruct (IH _ (s_add_line (-9223372036854775808) s) _ _ Hc1 Hb1) as (W1 & R1 & E1 & N1 & B1 & D1).
      { unfold s_add_line; cbn. lia. }
      cbn [map tr prog_wf_from srun exec_spec fst].
      rewrite (advline_step e l h HM s (-9223372036854775808)) by
        (try lia; try exact Hb; destruct Hb as [_ Hl0]; unfold two64z in *; lia).
      rewrite W1, R1.
      assert (Es : s_add_line (delta - -9223372036854775808 - d1) (s_add_line (-9223372036854775808) s)
                   = s_add_line (delta - d1) s) by (rewrite s_add_line_add; f_equal; lia).
      rewrite Es in *. split; [reflexivity|]. split; [reflexivity|].
      split; [constructor; [cbn; lia|assumption]|]. split; [constructor; [exact I|assumption]|].
      split; assumption.
    + inversion Hc; subst chunks d. cbn [map prog_wf_from srun]. rewrite Z.sub_diag, s_add_line_0.
      split; [reflexivity|]. split; [reflexivity|]. split; [constructor|]. split; [constructor|].
      split; [exact Hb|lia].
Qed.

End WithHeader2.

Section WithHeader3.
Variables (e : W.enc) (l : W.lenc) (h : header).
Hypothesis HM : hdr_matches e l h.
Hypothesis HP : enc_params_ok e l.
Let ver := W.e_version e.
Let P : pwf h := hdr_matches_pwf e l h HM HP.

(* the row-emitting instruction at the end *)
Lemma fin_wf S2 fin Frow sf :
  (fin = [W.ICopy] \/ exists v, (13 <= v <= 255)%N /\ fin = [W.ISpecial v]) ->
  0 <= s_address S2 -> 0 <= s_line S2 < two64z -> 0 <= s_op_index S2 ->
  srun h S2 (map (tr ver) fin) = ([Frow], sf) -> bounds h Frow ->
  prog_wf_from h S2 (map (tr ver) fin) = true /\ s_address S2 <= s_address Frow.
Proof.
  intros Hfin Ha Hl Ho Hrun HbF. destruct Hfin as [-> | (v & Hv & ->)]; cbn [map tr srun exec_spec] in Hrun;
    inversion Hrun; subst Frow; cbn [map tr prog_wf_from].
  - rewrite (copy_step e l h HM S2 HbF). split; [reflexivity|lia].
  - assert (Hk : 0 <= sp_op_adv h (Z.of_N v))
      by (apply sp_op_adv_nonneg; [exact P | rewrite (ob13 e l h HM); lia]).
    destruct (s_advance_mono h (s_add_line (sp_line_inc h (Z.of_N v)) S2) _ P Hk Ho) as (Hmono & _).
    cbn [s_add_line s_address] in Hmono.
    assert (Hb2 : bounds h S2) by (split; [destruct HbF as [[_ Hm] _]; lia | exact Hl]).
    rewrite (special_step e l h HM S2 v ltac:(lia) Hb2 Ho HbF).
    split; [reflexivity|exact Hmono].
Qed.

(* the operation-advance instruction (if any) followed by the row-emitting one *)
Lemma tail_wf S1 mid fin oadv Frow sf :
  (mid = [] \/ mid = [W.IConstAddPc] \/ mid = [W.IAdvancePc oadv]) ->
  (fin = [W.ICopy] \/ exists v, (13 <= v <= 255)%N /\ fin = [W.ISpecial v]) ->
  (oadv < 18446744073709551616)%N ->
  0 <= s_address S1 -> 0 <= s_line S1 < two64z -> 0 <= s_op_index S1 ->
  s_op_index S1 + Z.of_N oadv < two64z ->
  srun h S1 (map (tr ver) (mid ++ fin)) = ([Frow], sf) -> bounds h Frow ->
  prog_wf_from h S1 (map (tr ver) (mid ++ fin)) = true.
Proof.
  intros Hmid Hfin Hoadv Ha Hl Ho Hw Hrun HbF.
  pose proof HbF as [[_ HmF] _].
  destruct Hmid as [-> | [-> | ->]]; cbn [app map tr] in *.
  - destruct (fin_wf S1 fin Frow sf Hfin Ha Hl Ho Hrun HbF) as [W1 _]. exact W1.
  - cbn [srun exec_spec] in Hrun.
    set (S2 := s_advance h (sp_op_adv h 255) S1) in *.
    assert (Hk : 0 <= sp_op_adv h 255)
      by (apply sp_op_adv_nonneg; [exact P | rewrite (ob13 e l h HM); lia]).
    destruct (s_advance_mono h S1 _ P Hk Ho) as (Hmono & Ho2 & Hl2). fold S2 in Hmono, Ho2, Hl2.
    destruct (srun h S2 (map (tr ver) fin)) as [rows2 sf2] eqn:E2. inversion Hrun; subst rows2 sf2.
    destruct (fin_wf S2 fin Frow sf Hfin ltac:(lia) ltac:(rewrite Hl2; exact Hl) ltac:(lia) E2 HbF) as [W2 Hle].
    cbn [prog_wf_from exec_spec fst]. fold S2. rewrite W2.
    assert (Hb1 : bounds h S1) by (split; [split; lia | exact Hl]).
    assert (Hm2 : s_address (s_advance h (sp_op_adv h 255) S1) <= addr_mask h)
      by (change (s_address S2 <= addr_mask h); lia).
    rewrite (constadd_step e l h HM HP S1 Hb1 Ho Hm2). reflexivity.
  - cbn [srun exec_spec] in Hrun.
    set (S2 := s_advance h (Z.of_N oadv) S1) in *.
    destruct (s_advance_mono h S1 (Z.of_N oadv) P ltac:(lia) Ho) as (Hmono & Ho2 & Hl2). fold S2 in Hmono, Ho2, Hl2.
    destruct (srun h S2 (map (tr ver) fin)) as [rows2 sf2] eqn:E2. inversion Hrun; subst rows2 sf2.
    destruct (fin_wf S2 fin Frow sf Hfin ltac:(lia) ltac:(rewrite Hl2; exact Hl) ltac:(lia) E2 HbF) as [W2 Hle].
    cbn [prog_wf_from exec_spec fst]. fold S2. rewrite W2.
    assert (Hb1 : bounds h S1) by (split; [split; lia | exact Hl]).
    assert (Hm2 : s_address (s_advance h (Z.of_N oadv) S1) <= addr_mask h)
      by (change (s_address S2 <= addr_mask h); lia).
    rewrite (advpc_step e l h HM HP S1 oadv Hoadv Hb1 Ho Hw Hm2). reflexivity.
Qed.

Lemma advance_wf dbg ladv oadv insns r :
  P1.enc_ok l -> P1.i64 ladv -> (oadv < 18446744073709551616)%N ->
  W.advance_insns dbg l ladv oadv = Ok insns ->
  P1.regs_ok (W.params_of l) r -> A.r_end_sequence r = false ->
  bounds h (r2s r) ->
  bounds h (r2s (A.op_adv (W.params_of l) (Z.of_N oadv) (A.line_adv ladv r))) ->
  A.r_op_index r + Z.of_N oadv < two64z ->
  prog_wf_from h (r2s r) (map (tr ver) insns) = true /\ Forall (insn_enc_ok e) insns /\ Forall nosym insns.
Proof.
  intros Hok Hl Hoadv Hadv Hreg Hend Hb HbF Hw.
  destruct (P1.advance_correct dbg l ladv oadv Hok Hl) as (insns' & E & Fsp & Run).
  rewrite Hadv in E. inversion E; subst insns'. clear E.
  specialize (Run ver r Hreg).
  destruct (advance_shape dbg l ladv oadv insns Hadv) as (pre & mid & fin & -> & Hpre & Hmid & Hfin).
  set (F := A.op_adv (W.params_of l) (Z.of_N oadv) (A.line_adv ladv r)) in *.
  (* operands *)
  assert (Hfin' : fin = [W.ICopy] \/ exists v, (13 <= v <= 255)%N /\ fin = [W.ISpecial v]).
  { destruct Hfin as [-> | (v & ->)]; [left; reflexivity|right]. exists v. split; [|reflexivity].
    rewrite Forall_forall in Fsp. apply (Fsp (W.ISpecial v)). apply in_or_app; right. apply in_or_app; right.
    left; reflexivity. }
  assert (Hns : Forall nosym (pre ++ mid ++ fin)).
  { apply Forall_app; split; [|apply Forall_app; split].
    - destruct Hpre as [-> | ->]; repeat constructor.
    - destruct Hmid as [-> | [-> | ->]]; repeat constructor.
    - destruct Hfin as [-> | (v & ->)]; repeat constructor. }
  assert (Hen : Forall (insn_enc_ok e) (pre ++ mid ++ fin)).
  { apply Forall_app; split; [|apply Forall_app; split].
    - destruct Hpre as [-> | ->]; [constructor | constructor; [exact Hl|constructor]].
    - destruct Hmid as [-> | [-> | ->]];
        [constructor | constructor; [exact I|constructor] | constructor; [exact Hoadv|constructor]].
    - destruct Hfin' as [-> | (v & Hv & ->)]; (constructor; [cbn; try exact I; lia | constructor]). }
  split; [|split; assumption].
  destruct (srun_iso e l h _ r _ _ HM Hns Hend Run) as [Iso _]. fold ver in Iso. cbn [map] in Iso.
  pose proof Hb as [[Ha0 _] Hl0].
  assert (HlF : s_line (r2s F) = s_line (r2s r) + ladv) by reflexivity.
  pose proof Hreg as [Ho0 _].
  destruct Hpre as [-> | ->]; cbn [app] in *.
  - eapply tail_wf; try eassumption.
  - cbn [map tr srun exec_spec] in Iso. cbn [map tr prog_wf_from exec_spec fst].
    destruct (srun h (s_add_line ladv (r2s r)) (map (tr ver) (mid ++ fin))) as [rows2 sf2] eqn:E2.
    inversion Iso; subst rows2 sf2.
    rewrite (advline_step e l h HM (r2s r) ladv) by
      (try exact Hl; try exact Hb; destruct HbF as [_ HlFb]; rewrite HlF in HlFb; exact HlFb).
    cbn [andb].
    eapply (tail_wf (s_add_line ladv (r2s r))); try eassumption; try exact Ha0; try exact Ho0; try exact Hw.
    destruct HbF as [_ HlFb]. rewrite HlF in HlFb. exact HlFb.
Qed.

End WithHeader3.
