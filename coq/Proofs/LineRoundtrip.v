(* Proofs/LineRoundtrip.v — program_roundtrip: what the line WRITER model writes, the line READER model
   (Model/LineRd.v, property C04) reads back as the meaning of the script. Composition of
   LineRtBytes (bytes = reference encoding), LineRtScript (emitted programs are well-formed and mean the
   script) and C04's rows_refine_spec / header_roundtrip theorems. *)
From Coq Require Import List NArith ZArith Bool Lia ZifyBool ZifyN ZifyNat.
From Coq.Strings Require Import Byte.
Require Import GV.Base.Res GV.Base.Byt GV.Base.Ints GV.Model.Leb GV.Model.Prim.
Require Import GV.Spec.LineSpec GV.Model.LineRd GV.Proofs.LineRdRefine GV.Proofs.LineRdInsn.
Require GV.Spec.LineAdvSpec GV.Model.LineWr GV.Proofs.LineWrProofs GV.Proofs.LineWrSeqProofs.
Require Import GV.Proofs.LineRtBytes GV.Proofs.LineRtRows GV.Proofs.LineRtScript.
Import ListNotations.

Local Ltac Zify.zify_post_hook ::= Z.div_mod_to_equations.
Local Open Scope Z_scope.

(* ------------------------------------------------------------------ rows *)

(* For every header `h` that carries the writer's parameters (whatever its tables) and whose program bytes
   are what LineInstruction::write produced for the script: the reader's rows() runs to the end without
   error and returns exactly the rows the script means. *)
Theorem program_rows_readback dbg be e l h wd sd sf info p ops :
  hdr_matches e l h -> enc_params_ok e l -> P1.enc_ok l -> (W.e_version e <= 5)%N ->
  W.lp_new dbg e l wd sd sf info = Ok p ->
  P2.script_ok e l (W.wrow_initial e l) false ops ->
  script_enc_ok h (W.e_version e) (W.params_of l) (A.init_regs (W.params_of l), 0%N) ops ->
  exists p' bytes,
    P2.apply_rops dbg p ops = Ok p' /\
    W.insns_write dbg be e (W.p_insns p') = Ok bytes /\
    (h_program h = bytes ->
     exists rs, rows_model dbg be h = (rs, SEnd) /\
       map rep rs = map r2s (fst (P2.meaning (W.e_version e) (W.params_of l) (A.init_regs (W.params_of l), 0%N) ops)) /\
       Forall (fun r => r_tomb r = false) rs).
Proof.
  intros HM HP Hok Hver Hnew Hscript Henc.
  destruct (P2.lp_new_fresh _ _ _ _ _ _ _ _ Hnew) as (Ins & Prev & Seq & Enc & Lenc).
  pose proof (hdr_matches_pwf e l h HM HP) as Pw.
  assert (Hb0 : bounds h (r2s (A.init_regs (W.params_of l)))).
  { split; [|cbn; unfold two64z; lia].
    change (s_address (r2s (A.init_regs (W.params_of l)))) with 0. unfold addr_mask.
    pose proof Pw as [_ _ _ _ Hs _ _].
    assert (0 < 2 ^ (8 * Z.of_N (h_addr_size h))) by (apply Z.pow_pos_nonneg; lia). lia. }
  destruct (script_wf e l h HM HP dbg ops p (A.init_regs (W.params_of l)) Lenc Enc Hok Hver)
    as (p' & new & Eap & Eins & Wf & Een & Nos & Sp & Run).
  - rewrite Prev. apply P2.seq_reset. exact Hver.
  - exact Hb0.
  - rewrite Prev, Seq. exact Hscript.
  - rewrite Prev. exact Henc.
  - rewrite Ins in Eins. cbn [app] in Eins. rewrite Prev in Run. cbn [W.wrow_initial W.w_address_offset] in Run.
    pose proof HM as (_ & Hasz & _).
    exists p', (enc_prog be h (map (tr (W.e_version e)) new)). split; [exact Eap|].
    split; [rewrite Eins; apply insns_write_enc; assumption|].
    intros Hprog.
    assert (Hs0 : s_init h = r2s (A.init_regs (W.params_of l))).
    { pose proof HM as (_ & _ & _ & _ & Hd & _). unfold s_init, r2s, A.init_regs. cbn. now rewrite Hd. }
    destruct (rows_refine_spec_lemma dbg be h (map (tr (W.e_version e)) new)) as (rs & R1 & R2 & R3).
    + unfold prog_wf. rewrite (pwf_params_wf h Pw), Hs0, Wf. reflexivity.
    + exact Hprog.
    + exists rs. split; [exact R1|]. split; [|exact R3].
      rewrite R2. unfold rows_spec. rewrite srun_rows, Hs0.
      assert (He0 : A.r_end_sequence (A.init_regs (W.params_of l)) = false) by reflexivity.
      destruct (srun_iso e l h new _ _ _ HM Nos He0 Run) as [Iso _]. rewrite Iso. reflexivity.
Qed.

(* ------------------------------------------------------------------ the header, versions 2-4 *)
Local Open Scope N_scope.

Definition dir4_ok (d : W.lstr) : Prop := exists s, d = W.LStr s /\ s <> [] /\ no_nul s = true.
Definition file4_ok (f : (W.lstr * N) * W.finfo) : Prop :=
  exists s, fst (fst f) = W.LStr s /\ s <> [] /\ no_nul s = true /\ snd (fst f) < two64 /\
            W.fi_timestamp (snd f) < two64 /\ W.fi_size (snd f) < two64.

Definition lstr_val (d : W.lstr) : form_val := match d with W.LStr s => VString s | _ => VString [] end.
Definition raw_dir4 (d : W.lstr) : list form_val := [lstr_val d].
Definition raw_file4 (f : (W.lstr * N) * W.finfo) : list form_val :=
  [lstr_val (fst (fst f)); VUdata (snd (fst f)); VUdata (W.fi_timestamp (snd f)); VUdata (W.fi_size (snd f))].

(* the raw header (LineSpec vocabulary) that LineProgram::write emits for versions 2-4 *)
Definition raw4 (p : W.prog) : raw_header :=
  let e := W.p_enc p in let l := W.p_lenc p in
  mk_raw (W.e_fmt64 e) (W.e_version e) (W.e_addr_size e) (W.le_min_len l) (W.le_max_ops l)
         (W.le_default_is_stmt l) (W.le_line_base l) (W.le_line_range l) 13 W.std_opcode_lengths
         [] (map raw_dir4 (tl (W.p_dirs p))) [] (map raw_file4 (W.p_files p)).

Lemma dirs_write4 dbg be e ls ss : forall ds, W.e_version e <= 4 -> Forall dir4_ok ds ->
  W.dirs_write dbg be W.DW_FORM_string e ls ss ds =
  Ok (concat (map (enc_entry be (W.e_fmt64 e) dir_fmt_v4) (map raw_dir4 ds))).
Proof.
  induction ds as [|d ds IH]; intros Hv F; [reflexivity|].
  inversion F as [|x xs (s & -> & Hs & Hn) F']; subst. cbn [W.dirs_write map concat].
  unfold W.lstr_write. cbn [W.lstr_form]. change (W.DW_FORM_string =? W.DW_FORM_string) with true. cbn [negb].
  destruct s as [|b s]; [contradiction|]. rewrite andb_false_r. cbn [bind]. rewrite (IH Hv F'). cbn [bind].
  cbn [raw_dir4 lstr_val enc_entry dir_fmt_v4 enc_val ef_form]. change (FORM_string =? FORM_string) with true.
  cbv iota. now rewrite app_nil_r.
Qed.

Lemma files_write4 dbg be e ls ss : forall fs, W.e_version e <= 4 -> Forall file4_ok fs ->
  W.files_write_v4 dbg be e ls ss fs =
  Ok (concat (map (enc_entry be (W.e_fmt64 e) file_fmt_v4) (map raw_file4 fs))).
Proof.
  induction fs as [|[[fl dir] info] fs IH]; intros Hv F; [reflexivity|].
  inversion F as [|x xs (s & Hf & Hs & Hn & Hd & Ht & Hz) F']; subst x xs.
  cbn [fst snd] in *. subst fl. cbn [W.files_write_v4 map concat].
  unfold W.lstr_write. cbn [W.lstr_form]. change (W.DW_FORM_string =? W.DW_FORM_string) with true. cbn [negb].
  destruct s as [|b s]; [contradiction|]. rewrite andb_false_r. cbn [bind].
  rewrite !write_uleb128_enc by assumption. cbn [bind]. rewrite (IH Hv F'). cbn [bind].
  cbn [raw_file4 lstr_val fst snd enc_entry file_fmt_v4 enc_val ef_form].
  change (FORM_string =? FORM_string) with true. change (FORM_udata =? FORM_udata) with true. cbv iota.
  rewrite app_nil_r, <- !app_assoc. reflexivity.
Qed.

Lemma enc_word_udata be (fmt64 : bool) v : v < (if fmt64 then two64 else 4294967296) ->
  write_udata be v (word_size fmt64) = Ok (enc_word be fmt64 v).
Proof.
  intros H. unfold enc_word, word_size. destruct fmt64.
  - apply (write_udata_enc be v 8); [right; right; right; reflexivity|exact H].
  - apply (write_udata_enc be v 4); [right; right; left; reflexivity|exact H].
Qed.

Lemma write_initial_length_enc be (fmt64 : bool) v : v < (if fmt64 then two64 else 4294967280) ->
  write_initial_length fmt64 be v =
  Ok ((if fmt64 then enc_fixed 4 be 4294967295 else []) ++ enc_word be fmt64 v).
Proof.
  intros H. unfold write_initial_length.
  destruct fmt64; cbn [negb andb].
  - rewrite enc_word_udata by exact H. cbn [bind]. now rewrite enc_un_fixed.
  - destruct (N.leb_spec 4294967280 v); [lia|]. cbn [andb].
    rewrite enc_word_udata by lia. reflexivity.
Qed.

Lemma header_body4 be p : W.e_version (W.p_enc p) <= 4 ->
  (W.e_version (W.p_enc p) < 4 -> W.le_max_ops (W.p_lenc p) = 1) ->
  forall mo, mo = (if 4 <=? W.e_version (W.p_enc p) then [n2b (W.le_max_ops (W.p_lenc p))] else []) ->
  ([n2b (W.le_min_len (W.p_lenc p))] ++ mo ++ [n2b (W.b2N (W.le_default_is_stmt (W.p_lenc p)))]
     ++ [n2b (of_signed 8 (W.le_line_base (W.p_lenc p))); n2b (W.le_line_range (W.p_lenc p)); n2b W.OPCODE_BASE]
     ++ W.std_opcode_lengths)
  ++ (concat (map (enc_entry be (W.e_fmt64 (W.p_enc p)) dir_fmt_v4) (map raw_dir4 (tl (W.p_dirs p)))) ++ [x00]
      ++ concat (map (enc_entry be (W.e_fmt64 (W.p_enc p)) file_fmt_v4) (map raw_file4 (W.p_files p))) ++ [x00])
  = enc_header_body be (raw4 p).
Proof.
  intros Hv Hm mo ->. unfold enc_header_body, raw4.
  cbn [rh_version rh_min_inst_len rh_max_ops rh_default_is_stmt rh_line_base rh_line_range rh_opcode_base
       rh_std_lengths rh_dirs rh_files rh_fmt64].
  destruct (N.leb_spec (W.e_version (W.p_enc p)) 4) as [_|Hc]; [|lia].
  replace (n2b (W.b2N (W.le_default_is_stmt (W.p_lenc p)))) with (if W.le_default_is_stmt (W.p_lenc p) then x01 else x00)
    by (destruct (W.le_default_is_stmt (W.p_lenc p)); reflexivity).
  change (of_signed 8 (W.le_line_base (W.p_lenc p))) with (Z.to_N (W.le_line_base (W.p_lenc p) mod 256)%Z).
  unfold W.OPCODE_BASE. rewrite <- !app_assoc. reflexivity.
Qed.

(* LineProgram::write for versions 2-4 produces exactly the reference encoding of raw4 *)
Lemma write_v4 dbg be p unit_enc ls ss prog :
  2 <= W.e_version (W.p_enc p) <= 4 ->
  W.e_addr_size unit_enc = W.e_addr_size (W.p_enc p) ->
  (W.e_version (W.p_enc p) < 4 -> W.le_max_ops (W.p_lenc p) = 1) ->
  Forall dir4_ok (tl (W.p_dirs p)) -> Forall file4_ok (W.p_files p) ->
  W.insns_write dbg be (W.p_enc p) (W.p_insns p) = Ok prog ->
  len_n (enc_after_len be (raw4 p) prog) < (if W.e_fmt64 (W.p_enc p) then two64 else 4294967280) ->
  W.write dbg be p unit_enc ls ss = Ok (enc_unit be (raw4 p) prog, ls, ss).
Proof.
  intros Hv Hasz Hm Fd Ff Hins Hlen.
  set (e := W.p_enc p) in *. set (l := W.p_lenc p) in *.
  unfold W.write. fold e l.
  destruct (N.leb_spec 5 (W.e_version e)) as [Hc|_]; [lia|]. rewrite andb_false_r.
  rewrite Hasz, N.eqb_refl. cbn [negb orb].
  destruct (N.ltb_spec (W.e_version e) 2) as [Hc|_]; [lia|].
  destruct (N.ltb_spec 5 (W.e_version e)) as [Hc|_]; [lia|]. cbn [orb].
  assert (Emo : (if 4 <=? W.e_version e then Ok [n2b (W.le_max_ops l)]
                 else if negb (W.le_max_ops l =? 1) then Err WNeedVersion else Ok [])
                = Ok (if 4 <=? W.e_version e then [n2b (W.le_max_ops l)] else [])).
  { destruct (N.leb_spec 4 (W.e_version e)); [reflexivity|]. rewrite Hm by lia. reflexivity. }
  rewrite Emo. cbn [bind].
  destruct (N.leb_spec (W.e_version e) 4) as [_|Hc]; [|lia].
  rewrite (dirs_write4 dbg be e ls ss _ ltac:(lia) Fd). cbn [bind].
  rewrite (files_write4 dbg be e ls ss _ ltac:(lia) Ff). cbn [bind].
  pose proof (header_body4 be p ltac:(fold e; lia) Hm _ eq_refl) as Ehdr. fold e l in Ehdr.
  rewrite Ehdr.
  (* lengths *)
  unfold enc_after_len in Hlen. cbn [raw4 rh_version rh_fmt64 rh_addr_size] in Hlen. fold e l in Hlen.
  destruct (N.leb_spec 5 (W.e_version e)) as [Hc|_]; [lia|].
  unfold len_n in Hlen. rewrite !app_length, enc_fixed_length in Hlen.
  set (body := enc_header_body be (raw4 p)) in *.
  assert (Hbl : N.of_nat (length body) < (if W.e_fmt64 e then two64 else 4294967296))
    by (destruct (W.e_fmt64 e); unfold two64 in *; lia).
  rewrite enc_word_udata by exact Hbl. cbn [bind]. rewrite Hins. cbn [bind].
  rewrite !enc_un_fixed.
  match goal with |- context [write_initial_length _ _ (N.of_nat (length ?b))] => set (after := b) end.
  assert (Eafter : after = enc_after_len be (raw4 p) prog).
  { unfold after, enc_after_len. cbn [raw4 rh_version rh_fmt64 rh_addr_size]. fold e l.
    destruct (N.leb_spec 5 (W.e_version e)) as [Hc|_]; [lia|]. cbn [app]. fold body. unfold len_n.
    rewrite <- !app_assoc. reflexivity. }
  rewrite write_initial_length_enc.
  - cbn [bind]. unfold enc_unit. cbn [raw4 rh_fmt64]. fold e. rewrite Eafter. unfold len_n.
    rewrite <- !app_assoc. reflexivity.
  - rewrite Eafter. unfold enc_after_len. cbn [raw4 rh_version rh_fmt64 rh_addr_size]. fold e l.
    destruct (N.leb_spec 5 (W.e_version e)) as [Hc|_]; [lia|]. fold body.
    unfold len_n. rewrite !app_length, enc_fixed_length. exact Hlen.
Qed.
