(* Proofs/LineRoundtrip.v — program_roundtrip: what the line WRITER model writes, the line READER model
   (Model/LineRd.v, property C04) reads back as the meaning of the script. Composition of
   LineRtBytes (bytes = reference encoding), LineRtScript (emitted programs are well-formed and mean the
   script) and C04's rows_refine_spec / header_roundtrip theorems. *)
From Coq Require Import List NArith ZArith Bool Lia ZifyBool ZifyN ZifyNat.
From Coq.Strings Require Import Byte.
Require Import GV.Base.Res GV.Base.Byt GV.Base.Ints GV.Model.Leb GV.Model.Prim.
Require Import GV.Spec.LineSpec GV.Model.LineRd GV.Proofs.LineRdRefine GV.Proofs.LineRdInsn.
Require GV.Spec.LineAdvSpec GV.Model.LineWr GV.Proofs.LineWrProofs GV.Proofs.LineWrSeqProofs.
Require Import GV.Proofs.LineRdHdr GV.Proofs.LineRdHdr5.
Require Import GV.Proofs.LineRtBytes GV.Proofs.LineRtRows GV.Proofs.LineRtScript.
Import ListNotations.

Local Ltac Zify.zify_post_hook ::= Z.div_mod_to_equations.
Local Open Scope Z_scope.

(* ------------------------------------------------------------------ rows *)

(* For every header `h` that carries the writer's parameters (whatever its tables) and whose program bytes
   are what LineInstruction::write produced for the script: the reader's rows() runs to the end without
   error and returns exactly the rows the script means. *)
Theorem program_rows_readback dbg be e l h wd sd sf info p ops :
  hdr_matches e l h -> enc_params_ok e l -> P1.enc_ok l -> (W.e_version e <= 5)%N ->
  W.lp_new dbg e l wd sd sf info = Ok p ->
  P2.script_ok e l (W.wrow_initial e l) false ops ->
  script_enc_ok h (W.e_version e) (W.params_of l) (A.init_regs (W.params_of l), 0%N) ops ->
  exists p' bytes,
    P2.apply_rops dbg p ops = Ok p' /\
    W.insns_write dbg be e (W.p_insns p') = Ok bytes /\
    (h_program h = bytes ->
     exists rs, rows_model dbg be h = (rs, SEnd) /\
       map rep rs = map r2s (fst (P2.meaning (W.e_version e) (W.params_of l) (A.init_regs (W.params_of l), 0%N) ops)) /\
       Forall (fun r => r_tomb r = false) rs).
Proof.
  intros HM HP Hok Hver Hnew Hscript Henc.
  destruct (P2.lp_new_fresh _ _ _ _ _ _ _ _ Hnew) as (Ins & Prev & Seq & Enc & Lenc).
  pose proof (hdr_matches_pwf e l h HM HP) as Pw.
  assert (Hb0 : bounds h (r2s (A.init_regs (W.params_of l)))).
  { split; [|cbn; unfold two64z; lia].
    change (s_address (r2s (A.init_regs (W.params_of l)))) with 0. unfold addr_mask.
    pose proof Pw as [_ _ _ _ Hs _ _].
    assert (0 < 2 ^ (8 * Z.of_N (h_addr_size h))) by (apply Z.pow_pos_nonneg; lia). lia. }
  destruct (script_wf e l h HM HP dbg ops p (A.init_regs (W.params_of l)) Lenc Enc Hok Hver)
    as (p' & new & Eap & Eins & Wf & Een & Nos & Sp & Run).
  - rewrite Prev. apply P2.seq_reset. exact Hver.
  - exact Hb0.
  - rewrite Prev, Seq. exact Hscript.
  - rewrite Prev. exact Henc.
  - rewrite Ins in Eins. cbn [app] in Eins. rewrite Prev in Run. cbn [W.wrow_initial W.w_address_offset] in Run.
    pose proof HM as (_ & Hasz & _).
    exists p', (enc_prog be h (map (tr (W.e_version e)) new)). split; [exact Eap|].
    split; [rewrite Eins; apply insns_write_enc; assumption|].
    intros Hprog.
    assert (Hs0 : s_init h = r2s (A.init_regs (W.params_of l))).
    { pose proof HM as (_ & _ & _ & _ & Hd & _). unfold s_init, r2s, A.init_regs. cbn. now rewrite Hd. }
    destruct (rows_refine_spec_lemma dbg be h (map (tr (W.e_version e)) new)) as (rs & R1 & R2 & R3).
    + unfold prog_wf. rewrite (pwf_params_wf h Pw), Hs0, Wf. reflexivity.
    + exact Hprog.
    + exists rs. split; [exact R1|]. split; [|exact R3].
      rewrite R2. unfold rows_spec. rewrite srun_rows, Hs0.
      assert (He0 : A.r_end_sequence (A.init_regs (W.params_of l)) = false) by reflexivity.
      destruct (srun_iso e l h new _ _ _ HM Nos He0 Run) as [Iso _]. rewrite Iso. reflexivity.
Qed.

(* ------------------------------------------------------------------ the header, versions 2-4 *)
Local Open Scope N_scope.

Definition dir4_ok (d : W.lstr) : Prop := exists s, d = W.LStr s /\ s <> [] /\ no_nul s = true.
Definition file4_ok (f : (W.lstr * N) * W.finfo) : Prop :=
  exists s, fst (fst f) = W.LStr s /\ s <> [] /\ no_nul s = true /\ snd (fst f) < two64 /\
            W.fi_timestamp (snd f) < two64 /\ W.fi_size (snd f) < two64.

Definition lstr_val (d : W.lstr) : form_val := match d with W.LStr s => VString s | _ => VString [] end.
Definition raw_dir4 (d : W.lstr) : list form_val := [lstr_val d].
Definition raw_file4 (f : (W.lstr * N) * W.finfo) : list form_val :=
  [lstr_val (fst (fst f)); VUdata (snd (fst f)); VUdata (W.fi_timestamp (snd f)); VUdata (W.fi_size (snd f))].

(* the raw header (LineSpec vocabulary) that LineProgram::write emits for versions 2-4 *)
Definition raw4 (p : W.prog) : raw_header :=
  let e := W.p_enc p in let l := W.p_lenc p in
  mk_raw (W.e_fmt64 e) (W.e_version e) (W.e_addr_size e) (W.le_min_len l) (W.le_max_ops l)
         (W.le_default_is_stmt l) (W.le_line_base l) (W.le_line_range l) 13 W.std_opcode_lengths
         [] (map raw_dir4 (tl (W.p_dirs p))) [] (map raw_file4 (W.p_files p)).

Lemma dirs_write4 dbg be e ls ss : forall ds, W.e_version e <= 4 -> Forall dir4_ok ds ->
  W.dirs_write dbg be W.DW_FORM_string e ls ss ds =
  Ok (concat (map (enc_entry be (W.e_fmt64 e) dir_fmt_v4) (map raw_dir4 ds))).
Proof.
  induction ds as [|d ds IH]; intros Hv F; [reflexivity|].
  inversion F as [|x xs (s & -> & Hs & Hn) F']; subst. cbn [W.dirs_write map concat].
  unfold W.lstr_write. cbn [W.lstr_form]. change (W.DW_FORM_string =? W.DW_FORM_string) with true. cbn [negb].
  destruct s as [|b s]; [contradiction|]. rewrite andb_false_r. cbn [bind]. rewrite (IH Hv F'). cbn [bind].
  cbn [raw_dir4 lstr_val enc_entry dir_fmt_v4 enc_val ef_form]. change (FORM_string =? FORM_string) with true.
  cbv iota. now rewrite app_nil_r.
Qed.

Lemma files_write4 dbg be e ls ss : forall fs, W.e_version e <= 4 -> Forall file4_ok fs ->
  W.files_write_v4 dbg be e ls ss fs =
  Ok (concat (map (enc_entry be (W.e_fmt64 e) file_fmt_v4) (map raw_file4 fs))).
Proof.
  induction fs as [|[[fl dir] info] fs IH]; intros Hv F; [reflexivity|].
  inversion F as [|x xs (s & Hf & Hs & Hn & Hd & Ht & Hz) F']; subst x xs.
  cbn [fst snd] in *. subst fl. cbn [W.files_write_v4 map concat].
  unfold W.lstr_write. cbn [W.lstr_form]. change (W.DW_FORM_string =? W.DW_FORM_string) with true. cbn [negb].
  destruct s as [|b s]; [contradiction|]. rewrite andb_false_r. cbn [bind].
  rewrite !write_uleb128_enc by assumption. cbn [bind]. rewrite (IH Hv F'). cbn [bind].
  cbn [raw_file4 lstr_val fst snd enc_entry file_fmt_v4 enc_val ef_form].
  change (FORM_string =? FORM_string) with true. change (FORM_udata =? FORM_udata) with true. cbv iota.
  rewrite app_nil_r, <- !app_assoc. reflexivity.
Qed.

Lemma enc_word_udata be (fmt64 : bool) v : v < (if fmt64 then two64 else 4294967296) ->
  write_udata be v (word_size fmt64) = Ok (enc_word be fmt64 v).
Proof.
  intros H. unfold enc_word, word_size. destruct fmt64.
  - apply (write_udata_enc be v 8); [right; right; right; reflexivity|exact H].
  - apply (write_udata_enc be v 4); [right; right; left; reflexivity|exact H].
Qed.

Lemma write_initial_length_enc be (fmt64 : bool) v : v < (if fmt64 then two64 else 4294967280) ->
  write_initial_length fmt64 be v =
  Ok ((if fmt64 then enc_fixed 4 be 4294967295 else []) ++ enc_word be fmt64 v).
Proof.
  intros H. unfold write_initial_length.
  destruct fmt64; cbn [negb andb].
  - rewrite enc_word_udata by exact H. cbn [bind]. now rewrite enc_un_fixed.
  - destruct (N.leb_spec 4294967280 v); [lia|]. cbn [andb].
    rewrite enc_word_udata by lia. reflexivity.
Qed.

Lemma header_body4 be p : W.e_version (W.p_enc p) <= 4 ->
  (W.e_version (W.p_enc p) < 4 -> W.le_max_ops (W.p_lenc p) = 1) ->
  forall mo, mo = (if 4 <=? W.e_version (W.p_enc p) then [n2b (W.le_max_ops (W.p_lenc p))] else []) ->
  ([n2b (W.le_min_len (W.p_lenc p))] ++ mo ++ [n2b (W.b2N (W.le_default_is_stmt (W.p_lenc p)))]
     ++ [n2b (of_signed 8 (W.le_line_base (W.p_lenc p))); n2b (W.le_line_range (W.p_lenc p)); n2b W.OPCODE_BASE]
     ++ W.std_opcode_lengths)
  ++ (concat (map (enc_entry be (W.e_fmt64 (W.p_enc p)) dir_fmt_v4) (map raw_dir4 (tl (W.p_dirs p)))) ++ [x00]
      ++ concat (map (enc_entry be (W.e_fmt64 (W.p_enc p)) file_fmt_v4) (map raw_file4 (W.p_files p))) ++ [x00])
  = enc_header_body be (raw4 p).
Proof.
  intros Hv Hm mo ->. unfold enc_header_body, raw4.
  cbn [rh_version rh_min_inst_len rh_max_ops rh_default_is_stmt rh_line_base rh_line_range rh_opcode_base
       rh_std_lengths rh_dirs rh_files rh_fmt64].
  destruct (N.leb_spec (W.e_version (W.p_enc p)) 4) as [_|Hc]; [|lia].
  replace (n2b (W.b2N (W.le_default_is_stmt (W.p_lenc p)))) with (if W.le_default_is_stmt (W.p_lenc p) then x01 else x00)
    by (destruct (W.le_default_is_stmt (W.p_lenc p)); reflexivity).
  change (of_signed 8 (W.le_line_base (W.p_lenc p))) with (Z.to_N (W.le_line_base (W.p_lenc p) mod 256)%Z).
  unfold W.OPCODE_BASE. rewrite <- !app_assoc. reflexivity.
Qed.

(* LineProgram::write for versions 2-4 produces exactly the reference encoding of raw4 *)
Lemma write_v4 dbg be p unit_enc ls ss prog :
  2 <= W.e_version (W.p_enc p) <= 4 ->
  W.e_addr_size unit_enc = W.e_addr_size (W.p_enc p) ->
  (W.e_version (W.p_enc p) < 4 -> W.le_max_ops (W.p_lenc p) = 1) ->
  Forall dir4_ok (tl (W.p_dirs p)) -> Forall file4_ok (W.p_files p) ->
  W.insns_write dbg be (W.p_enc p) (W.p_insns p) = Ok prog ->
  len_n (enc_after_len be (raw4 p) prog) < (if W.e_fmt64 (W.p_enc p) then two64 else 4294967280) ->
  W.write dbg be p unit_enc ls ss = Ok (enc_unit be (raw4 p) prog, ls, ss).
Proof.
  intros Hv Hasz Hm Fd Ff Hins Hlen.
  set (e := W.p_enc p) in *. set (l := W.p_lenc p) in *.
  unfold W.write. fold e l.
  destruct (N.leb_spec 5 (W.e_version e)) as [Hc|_]; [lia|]. rewrite andb_false_r.
  rewrite Hasz, N.eqb_refl. cbn [negb orb].
  destruct (N.ltb_spec (W.e_version e) 2) as [Hc|_]; [lia|].
  destruct (N.ltb_spec 5 (W.e_version e)) as [Hc|_]; [lia|]. cbn [orb].
  assert (Emo : (if 4 <=? W.e_version e then Ok [n2b (W.le_max_ops l)]
                 else if negb (W.le_max_ops l =? 1) then Err WNeedVersion else Ok [])
                = Ok (if 4 <=? W.e_version e then [n2b (W.le_max_ops l)] else [])).
  { destruct (N.leb_spec 4 (W.e_version e)); [reflexivity|]. rewrite Hm by lia. reflexivity. }
  rewrite Emo. cbn [bind].
  destruct (N.leb_spec (W.e_version e) 4) as [_|Hc]; [|lia].
  rewrite (dirs_write4 dbg be e ls ss _ ltac:(lia) Fd). cbn [bind].
  rewrite (files_write4 dbg be e ls ss _ ltac:(lia) Ff). cbn [bind].
  pose proof (header_body4 be p ltac:(fold e; lia) Hm _ eq_refl) as Ehdr. fold e l in Ehdr.
  rewrite Ehdr.
  (* lengths *)
  unfold enc_after_len in Hlen. cbn [raw4 rh_version rh_fmt64 rh_addr_size] in Hlen. fold e l in Hlen.
  destruct (N.leb_spec 5 (W.e_version e)) as [Hc|_]; [lia|].
  unfold len_n in Hlen. rewrite !app_length, enc_fixed_length in Hlen.
  set (body := enc_header_body be (raw4 p)) in *.
  assert (Hbl : N.of_nat (length body) < (if W.e_fmt64 e then two64 else 4294967296))
    by (destruct (W.e_fmt64 e); unfold two64 in *; lia).
  rewrite enc_word_udata by exact Hbl. cbn [bind]. rewrite Hins. cbn [bind].
  rewrite !enc_un_fixed.
  match goal with |- context [write_initial_length _ _ (N.of_nat (length ?b))] => set (after := b) end.
  assert (Eafter : after = enc_after_len be (raw4 p) prog).
  { unfold after, enc_after_len. cbn [raw4 rh_version rh_fmt64 rh_addr_size]. fold e l.
    destruct (N.leb_spec 5 (W.e_version e)) as [Hc|_]; [lia|]. cbn [app]. fold body. unfold len_n.
    rewrite <- !app_assoc. reflexivity. }
  rewrite write_initial_length_enc.
  - cbn [bind]. unfold enc_unit. cbn [raw4 rh_fmt64]. fold e. rewrite Eafter. unfold len_n.
    rewrite <- !app_assoc. reflexivity.
  - rewrite Eafter. unfold enc_after_len. cbn [raw4 rh_version rh_fmt64 rh_addr_size]. fold e l.
    destruct (N.leb_spec 5 (W.e_version e)) as [Hc|_]; [lia|]. fold body.
    unfold len_n. rewrite !app_length, enc_fixed_length. exact Hlen.
Qed.

(* ------------------------------------------------------------------ composition, versions 2-4 *)

(* the row calls do not touch the tables *)
Lemma apply_rop_tables dbg p o p' : P2.apply_rop dbg p o = Ok p' ->
  W.p_dirs p' = W.p_dirs p /\ W.p_files p' = W.p_files p /\ W.p_enc p' = W.p_enc p /\ W.p_lenc p' = W.p_lenc p.
Proof.
  destruct o as [a|a|row|off opi]; cbn [P2.apply_rop]; intros H.
  - unfold W.begin_sequence in H. destruct (W.p_in_seq p); [discriminate|].
    destruct a; inversion H; subst; repeat split.
  - inversion H; subst; repeat split.
  - unfold W.generate_row in H. apply bind_ok in H as (x & _ & H). destruct x as [c d].
    apply bind_ok in H as (opa & _ & H). apply bind_ok in H as (adv & _ & H). inversion H; subst; repeat split.
  - unfold W.end_sequence in H. apply bind_ok in H as (opa & _ & H). inversion H; subst; repeat split.
Qed.

Lemma apply_rops_tables dbg : forall ops p p', P2.apply_rops dbg p ops = Ok p' ->
  W.p_dirs p' = W.p_dirs p /\ W.p_files p' = W.p_files p /\ W.p_enc p' = W.p_enc p /\ W.p_lenc p' = W.p_lenc p.
Proof.
  induction ops as [|o ops IH]; intros p p' H; cbn [P2.apply_rops] in H.
  - inversion H; subst; repeat split.
  - apply bind_ok in H as (p1 & H1 & H). destruct (apply_rop_tables dbg p o p1 H1) as (A1 & A2 & A3 & A4).
    destruct (IH p1 p' H) as (B1 & B2 & B3 & B4). repeat split; congruence.
Qed.

(* script_enc_ok only looks at the address size of the header *)
Lemma bounds_ext h1 h2 s : h_addr_size h1 = h_addr_size h2 -> bounds h1 s -> bounds h2 s.
Proof. intros E. unfold bounds, addr_mask. now rewrite E. Qed.

Lemma script_enc_ok_ext h1 h2 ver lp : h_addr_size h1 = h_addr_size h2 ->
  forall ops st, script_enc_ok h1 ver lp st ops -> script_enc_ok h2 ver lp st ops.
Proof.
  intros E. induction ops as [|o ops IH]; intros st H; [exact I|].
  cbn [script_enc_ok] in *. destruct H as [Ho Hr]. split; [|apply IH; exact Hr].
  destruct o as [[a|]|a|row|off opi]; try exact I; unfold addr_mask in *; try (rewrite <- E; exact Ho).
  - destruct Ho as [Hu Hb]. split; [exact Hu|]. eapply bounds_ext; eassumption.
  - eapply bounds_ext; eassumption.
Qed.

Lemma enc_prog_ext be h1 h2 is : h_addr_size h1 = h_addr_size h2 -> enc_prog be h1 is = enc_prog be h2 is.
Proof.
  intros E. unfold enc_prog. f_equal. apply map_ext. intros i. destruct i; cbn [enc_insn]; try reflexivity.
  now rewrite E.
Qed.

(* a header record that only carries an address size: what script_enc_ok needs to be stated *)
Definition hdr_of_asz (asz : N) : header :=
  mk_header false 0 asz 0 0 0 0 false 0%Z 0 0 [] [] [] [] [] [].

(* the tables a reader must see for versions 2-4 *)
Definition file4_entry (f : (W.lstr * N) * W.finfo) : file_entry :=
  mk_file (lstr_val (fst (fst f))) (snd (fst f)) (W.fi_timestamp (snd f)) (W.fi_size (snd f)) (repeat x00 16) None.

Lemma dirs_of_raw4 : forall ds,
  flat_map (fun o : option form_val => match o with Some v => [v] | None => [] end)
           (map (fun vals => dir_of_entry dir_fmt_v4 vals None) (map raw_dir4 ds)) = map lstr_val ds.
Proof. induction ds as [|d ds IH]; [reflexivity|]. cbn [map flat_map]. rewrite IH. reflexivity. Qed.

Lemma files_of_raw4 : forall fs,
  map (fun fp : file_entry * option form_val =>
         let f := fst fp in
         mk_file (match snd fp with Some v => v | None => VString [] end)
                 (fe_dir f) (fe_time f) (fe_size f) (fe_md5 f) (fe_source f))
      (map (fun vals => file_of_entry file_fmt_v4 vals file0 None) (map raw_file4 fs)) = map file4_entry fs.
Proof. induction fs as [|f fs IH]; [reflexivity|]. cbn [map]. f_equal. exact IH. Qed.

(* program_roundtrip, versions 2-4, both formats, both byte orders, all address sizes: a program with any
   (inline, non-empty, NUL-free) directory and file tables, then any script of row calls that respects
   script_ok and script_enc_ok; LineProgram::write succeeds, LineProgramHeader::parse decodes the unit,
   rows() returns exactly the rows the script means, and the tables read back. *)
Theorem program_roundtrip_v2_v4 dbg be e l p0 ops unit_enc ls ss :
  W.p_insns p0 = [] -> W.p_prev p0 = W.wrow_initial e l -> W.p_in_seq p0 = false ->
  W.p_enc p0 = e -> W.p_lenc p0 = l ->
  2 <= W.e_version e <= 4 -> (W.e_version e < 4 -> W.le_max_ops l = 1) ->
  enc_params_ok e l -> P1.enc_ok l -> W.e_addr_size unit_enc = W.e_addr_size e ->
  Forall dir4_ok (tl (W.p_dirs p0)) -> Forall file4_ok (W.p_files p0) ->
  P2.script_ok e l (W.wrow_initial e l) false ops ->
  script_enc_ok (hdr_of_asz (W.e_addr_size e)) (W.e_version e) (W.params_of l)
                (A.init_regs (W.params_of l), 0) ops ->
  (forall p' prog, P2.apply_rops dbg p0 ops = Ok p' -> W.insns_write dbg be e (W.p_insns p') = Ok prog ->
     len_n (enc_after_len be (raw4 p') prog) < (if W.e_fmt64 e then two64 else 4294967280)) ->
  exists p' bytes h rs,
    P2.apply_rops dbg p0 ops = Ok p' /\
    W.write dbg be p' unit_enc ls ss = Ok (bytes, ls, ss) /\
    parse_header dbg be (W.e_addr_size e) bytes = Ok h /\
    rows_model dbg be h = (rs, SEnd) /\
    map rep rs = map r2s (fst (P2.meaning (W.e_version e) (W.params_of l) (A.init_regs (W.params_of l), 0) ops)) /\
    Forall (fun r => r_tomb r = false) rs /\
    h_dirs h = map lstr_val (tl (W.p_dirs p0)) /\ h_files h = map file4_entry (W.p_files p0) /\
    hdr_matches e l h.
Proof.
  intros Ins Prev Seq Enc Lenc Hv Hm HP Hok Hasz Fd Ff Hscript Henc Hfits.
  (* run the script *)
  set (h0 := hdr_of_asz (W.e_addr_size e)).
  assert (HM0 : True) by exact I.
  (* script_wf needs a matching header only for its parameters: use the final header, obtained below; first
     get p' from the instruction-level theorem with a canonical matching header *)
  set (hc := mk_header (W.e_fmt64 e) (W.e_version e) (W.e_addr_size e) 0 0 (W.le_min_len l) (W.le_max_ops l)
               (W.le_default_is_stmt l) (W.le_line_base l) (W.le_line_range l) 13 W.std_opcode_lengths
               [] [] [] [] []).
  assert (HMc : hdr_matches e l hc) by (unfold hdr_matches, hc; cbn; repeat split).
  assert (Hb0 : bounds hc (r2s (A.init_regs (W.params_of l)))).
  { pose proof (hdr_matches_pwf e l hc HMc HP) as [_ _ _ _ Hs _ _].
    split; [|cbn; unfold two64z; lia].
    change (s_address (r2s (A.init_regs (W.params_of l)))) with 0%Z. unfold addr_mask.
    assert (0 < 2 ^ (8 * Z.of_N (h_addr_size hc)))%Z by (apply Z.pow_pos_nonneg; lia). lia. }
  destruct (script_wf e l hc HMc HP dbg ops p0 (A.init_regs (W.params_of l)) Lenc Enc Hok ltac:(lia))
    as (p' & new & Eap & Eins & Wf & Een & Nos & Sp & Run).
  { rewrite Prev. apply P2.seq_reset. lia. }
  { exact Hb0. }
  { rewrite Prev, Seq. exact Hscript. }
  { rewrite Prev. cbn [W.wrow_initial W.w_address_offset].
    eapply script_enc_ok_ext; [|exact Henc]. reflexivity. }
  rewrite Ins in Eins. cbn [app] in Eins. rewrite Prev in Run. cbn [W.wrow_initial W.w_address_offset] in Run.
  destruct (apply_rops_tables dbg ops p0 p' Eap) as (Td & Tf & Te & Tl).
  rewrite Enc in Te. rewrite Lenc in Tl.
  (* the bytes *)
  set (prog := enc_prog be hc (map (tr (W.e_version e)) new)).
  assert (Hprog : W.insns_write dbg be e (W.p_insns p') = Ok prog)
    by (rewrite Eins; apply insns_write_enc; [reflexivity|exact Een]).
  pose proof (Hfits p' prog Eap Hprog) as Hlen.
  assert (Hw : W.write dbg be p' unit_enc ls ss = Ok (enc_unit be (raw4 p') prog, ls, ss)).
  { apply write_v4; rewrite ?Te, ?Tl, ?Td, ?Tf; try assumption. }
  (* the header *)
  assert (Hraw : raw_wf4 be (raw4 p') prog).
  { pose proof HP as (Hsz & Hmil & Hmops & Hlr & Hlb).
    constructor; cbn [raw4 rh_version rh_min_inst_len rh_max_ops rh_line_range rh_opcode_base rh_line_base
                      rh_std_lengths rh_dirs rh_files rh_fmt64]; rewrite ?Te, ?Tl; try lia; try reflexivity.
    - rewrite Td. clear -Fd. induction Fd as [|d ds (s & -> & Hs & Hn) F IH]; cbn [map]; constructor; [|exact IH].
      exists s. repeat split; assumption.
    - rewrite Tf. clear -Ff. induction Ff as [|f fs (s & Hf & Hs & Hn & Hd & Ht & Hz) F IH]; cbn [map];
        constructor; [|exact IH].
      exists s, (snd (fst f)), (W.fi_timestamp (snd f)), (W.fi_size (snd f)).
      unfold raw_file4. rewrite Hf. repeat split; assumption. }
  pose proof (header_roundtrip_v4_lemma dbg be (W.e_addr_size e) (raw4 p') prog [] Hraw) as Hparse.
  rewrite app_nil_r in Hparse.
  set (h := header_of_raw be (W.e_addr_size e) (raw4 p') prog) in *.
  assert (HM : hdr_matches e l h).
  { unfold hdr_matches, h, header_of_raw. cbn. rewrite ?Te, ?Tl.
    destruct (N.leb_spec 5 (W.e_version e)) as [Hc|_]; [lia|].
    repeat split. destruct (N.leb_spec 4 (W.e_version e)); [reflexivity|]. symmetry. apply Hm. lia. }
  assert (Hph : h_program h = prog) by reflexivity.
  (* the rows *)
  assert (Eprog : prog = enc_prog be h (map (tr (W.e_version e)) new)).
  { unfold prog. apply enc_prog_ext. pose proof HM as (_ & Ha & _). rewrite Ha. reflexivity. }
  assert (Wf' : prog_wf_from h (r2s (A.init_regs (W.params_of l))) (map (tr (W.e_version e)) new) = true).
  { destruct (script_wf e l h HM HP dbg ops p0 (A.init_regs (W.params_of l)) Lenc Enc Hok ltac:(lia))
      as (p2 & new2 & Eap2 & Eins2 & Wf2 & _).
    - rewrite Prev. apply P2.seq_reset. lia.
    - eapply bounds_ext; [|exact Hb0]. unfold h, header_of_raw. cbn. rewrite ?Te.
      destruct (N.leb_spec 5 (W.e_version e)); [lia|reflexivity].
    - rewrite Prev, Seq. exact Hscript.
    - rewrite Prev. cbn [W.wrow_initial W.w_address_offset].
      eapply script_enc_ok_ext; [|exact Henc]. unfold h, header_of_raw. cbn. rewrite ?Te.
      destruct (N.leb_spec 5 (W.e_version e)); [lia|reflexivity].
    - rewrite Eap in Eap2. inversion Eap2; subst p2. rewrite Ins in Eins2. cbn [app] in Eins2.
      rewrite Eins in Eins2. subst new2. exact Wf2. }
  pose proof (hdr_matches_pwf e l h HM HP) as Pw.
  assert (Hs0 : s_init h = r2s (A.init_regs (W.params_of l))).
  { pose proof HM as (_ & _ & _ & _ & Hd & _). unfold s_init, r2s, A.init_regs. cbn. rewrite ?Te, ?Tl. reflexivity. }
  destruct (rows_refine_spec_lemma dbg be h (map (tr (W.e_version e)) new)) as (rs & R1 & R2 & R3).
  { unfold prog_wf. rewrite (pwf_params_wf h Pw), Hs0, Wf'. reflexivity. }
  { rewrite Hph. exact Eprog. }
  exists p', (enc_unit be (raw4 p') prog), h, rs.
  split; [exact Eap|]. split; [exact Hw|]. split; [exact Hparse|]. split; [exact R1|].
  split.
  { rewrite R2. unfold rows_spec. rewrite srun_rows, Hs0.
    assert (He0 : A.r_end_sequence (A.init_regs (W.params_of l)) = false) by reflexivity.
    destruct (srun_iso e l h new _ _ _ HM Nos He0 Run) as [Iso _]. rewrite Iso. reflexivity. }
  split; [exact R3|].
  split; [|split; [|exact HM]].
  - unfold h, header_of_raw. cbn [h_dirs]. unfold dirs_of_raw. cbn [raw4 rh_version rh_dirs]. rewrite Te.
    destruct (N.leb_spec (W.e_version e) 4) as [_|Hc]; [|lia]. rewrite Td. apply dirs_of_raw4.
  - unfold h, header_of_raw. cbn [h_files]. unfold files_of_raw. cbn [raw4 rh_version rh_files]. rewrite Te.
    destruct (N.leb_spec (W.e_version e) 4) as [_|Hc]; [|lia]. rewrite Tf. apply files_of_raw4.
Qed.

(* ------------------------------------------------------------------ non-vacuity: a concrete program *)
Definition ex_enc : W.enc := W.mkEnc false 4 8.
Definition ex_lenc : W.lenc := W.mkLenc 1 2 true (-5) 14.
Definition ex_info : W.finfo := W.mkFinfo 1234 5678 (repeat x00 16) None.

(* new(..); add_directory("inc"); add_file("a.c", dir 1, info); add_file("b.h", dir 0, None) *)
Definition ex_prog : res W.prog :=
  let* p := W.lp_new false ex_enc ex_lenc (W.LStr [x64]) None (W.LStr [x66]) None in
  let* (p, d) := W.add_directory p (W.LStr [x69; x6e; x63]) in
  let* (p, _) := W.add_file p (W.LStr [x61; x2e; x63]) d (Some ex_info) in
  let* (p, _) := W.add_file p (W.LStr [x62; x2e; x68]) 0 None in
  Ok p.

Definition ex_ops : list P2.rop :=
  [P2.RBegin (Some 4096%N); P2.RRow (P2.prow 0 0 7); P2.RRow (P2.prow 3 1 18446744073709551615);
   P2.RSetAddr 8192; P2.RRow (P2.prow 4 0 2); P2.RRow (P2.prow 10 1 2); P2.REnd 12 0;
   P2.RSetAddr 100; P2.RRow (P2.prow 0 0 1); P2.REnd 1 1].

Lemma ex_prog_ok : exists p0, ex_prog = Ok p0 /\
  W.p_insns p0 = [] /\ W.p_prev p0 = W.wrow_initial ex_enc ex_lenc /\ W.p_in_seq p0 = false /\
  W.p_enc p0 = ex_enc /\ W.p_lenc p0 = ex_lenc /\
  Forall dir4_ok (tl (W.p_dirs p0)) /\ Forall file4_ok (W.p_files p0) /\
  length (W.p_files p0) = 2%nat.
Proof.
  eexists. split; [vm_compute; reflexivity|]. cbn.
  repeat split.
  - constructor; [|constructor]. eexists. split; [reflexivity|]. split; [discriminate|reflexivity].
  - constructor; [|constructor; [|constructor]]; eexists; cbn;
      (split; [reflexivity|]; split; [discriminate|]; split; [reflexivity|]; unfold two64; lia).
Qed.

Lemma ex_script_enc_ok :
  script_enc_ok (hdr_of_asz 8) 4 (W.params_of ex_lenc) (A.init_regs (W.params_of ex_lenc), 0) ex_ops.
Proof.
  unfold ex_ops. cbn [script_enc_ok P2.m_step fst snd].
  unfold wrow_u64, bounds, addr_mask, two64z. cbn. repeat split; lia.
Qed.
