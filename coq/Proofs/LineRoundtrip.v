(* Proofs/LineRoundtrip.v — program_roundtrip: what the line WRITER model writes, the line READER model
   (Model/LineRd.v, property C04) reads back as the meaning of the script. Composition of
   LineRtBytes (bytes = reference encoding), LineRtScript (emitted programs are well-formed and mean the
   script) and C04's rows_refine_spec / header_roundtrip theorems. *)
From Coq Require Import List NArith ZArith Bool Lia ZifyBool ZifyN ZifyNat.
From Coq.Strings Require Import Byte.
Require Import GV.Base.Res GV.Base.Byt GV.Base.Ints GV.Model.Leb GV.Model.Prim.
Require Import GV.Spec.LineSpec GV.Model.LineRd GV.Proofs.LineRdRefine GV.Proofs.LineRdInsn.
Require GV.Spec.LineAdvSpec GV.Model.LineWr GV.Proofs.LineWrProofs GV.Proofs.LineWrSeqProofs.
Require Import GV.Proofs.LineRtBytes GV.Proofs.LineRtRows GV.Proofs.LineRtScript.
Import ListNotations.

Local Ltac Zify.zify_post_hook ::= Z.div_mod_to_equations.
Local Open Scope Z_scope.

(* ------------------------------------------------------------------ rows *)

(* For every header `h` that carries the writer's parameters (whatever its tables) and whose program bytes
   are what LineInstruction::write produced for the script: the reader's rows() runs to the end without
   error and returns exactly the rows the script means. *)
Theorem program_rows_readback dbg be e l h wd sd sf info p ops :
  hdr_matches e l h -> enc_params_ok e l -> P1.enc_ok l -> (W.e_version e <= 5)%N ->
  W.lp_new dbg e l wd sd sf info = Ok p ->
  P2.script_ok e l (W.wrow_initial e l) false ops ->
  script_enc_ok h (W.e_version e) (W.params_of l) (A.init_regs (W.params_of l), 0%N) ops ->
  exists p' bytes,
    P2.apply_rops dbg p ops = Ok p' /\
    W.insns_write dbg be e (W.p_insns p') = Ok bytes /\
    (h_program h = bytes ->
     exists rs, rows_model dbg be h = (rs, SEnd) /\
       map rep rs = map r2s (fst (P2.meaning (W.e_version e) (W.params_of l) (A.init_regs (W.params_of l), 0%N) ops)) /\
       Forall (fun r => r_tomb r = false) rs).
Proof.
  intros HM HP Hok Hver Hnew Hscript Henc.
  destruct (P2.lp_new_fresh _ _ _ _ _ _ _ _ Hnew) as (Ins & Prev & Seq & Enc & Lenc).
  pose proof (hdr_matches_pwf e l h HM HP) as Pw.
  assert (Hb0 : bounds h (r2s (A.init_regs (W.params_of l)))).
  { split; [|cbn; unfold two64z; lia].
    change (s_address (r2s (A.init_regs (W.params_of l)))) with 0. unfold addr_mask.
    pose proof Pw as [_ _ _ _ Hs _ _].
    assert (0 < 2 ^ (8 * Z.of_N (h_addr_size h))) by (apply Z.pow_pos_nonneg; lia). lia. }
  destruct (script_wf e l h HM HP dbg ops p (A.init_regs (W.params_of l)) Lenc Enc Hok Hver)
    as (p' & new & Eap & Eins & Wf & Een & Nos & Sp & Run).
  - rewrite Prev. apply P2.seq_reset. exact Hver.
  - exact Hb0.
  - rewrite Prev, Seq. exact Hscript.
  - rewrite Prev. exact Henc.
  - rewrite Ins in Eins. cbn [app] in Eins. rewrite Prev in Run. cbn [W.wrow_initial W.w_address_offset] in Run.
    pose proof HM as (_ & Hasz & _).
    exists p', (enc_prog be h (map (tr (W.e_version e)) new)). split; [exact Eap|].
    split; [rewrite Eins; apply insns_write_enc; assumption|].
    intros Hprog.
    assert (Hs0 : s_init h = r2s (A.init_regs (W.params_of l))).
    { pose proof HM as (_ & _ & _ & _ & Hd & _). unfold s_init, r2s, A.init_regs. cbn. now rewrite Hd. }
    destruct (rows_refine_spec_lemma dbg be h (map (tr (W.e_version e)) new)) as (rs & R1 & R2 & R3).
    + unfold prog_wf. rewrite (pwf_params_wf h Pw), Hs0, Wf. reflexivity.
    + exact Hprog.
    + exists rs. split; [exact R1|]. split; [|exact R3].
      rewrite R2. unfold rows_spec. rewrite srun_rows, Hs0.
      assert (He0 : A.r_end_sequence (A.init_regs (W.params_of l)) = false) by reflexivity.
      destruct (srun_iso e l h new _ _ _ HM Nos He0 Run) as [Iso _]. rewrite Iso. reflexivity.
Qed.
