(* Proofs/LineRdHdr5.v — version 5 header tables: entry formats (content types x forms), directory
   and file entries, MD5, LLVM source. LineProgramHeader::parse inverts the reference unit encoder. *)
From Coq Require Import List NArith ZArith Bool Lia ZifyBool ZifyN ZifyNat.
From Coq.Strings Require Import Byte.
Require Import GV.Base.Res GV.Base.Byt GV.Base.Ints GV.Model.Leb GV.Model.Prim GV.Spec.LebSpec GV.Spec.LineSpec
               GV.Model.LineRd GV.Proofs.LineRdBase GV.Proofs.LineRdMono GV.Proofs.LineRdCodec GV.Proofs.LineRdRefine
               GV.Proofs.LineRdInsn GV.Proofs.LineRdHdr GV.Proofs.LineRdHdrSafe GV.Proofs.LineRdU16.
Import ListNotations.
Local Open Scope N_scope.
Local Arguments N.add : simpl never.
Local Arguments N.sub : simpl never.
Local Arguments N.mul : simpl never.
Local Arguments N.pow : simpl never.
Local Arguments N.modulo : simpl never.
Local Arguments N.div : simpl never.
Local Arguments N.shiftl : simpl never.
Local Arguments N.land : simpl never.
Local Arguments N.lor : simpl never.

(* ---------------------------------------------------------------- one component under a form *)
Definition word_lim (fmt64 : bool) : N := if fmt64 then two64 else 4294967296.

Definition val_ok (fmt64 : bool) (form : N) (v : form_val) : Prop :=
  match v with
  | VBlock bs =>
      (form = FORM_block1 /\ len_n bs < 256) \/ (form = FORM_block2 /\ len_n bs < 65536) \/
      (form = FORM_block4 /\ len_n bs < 4294967296) \/ (form = FORM_block /\ len_n bs < two64) \/
      (form = FORM_data16 /\ len_n bs = 16)
  | VData1 n => form = FORM_data1 /\ n < 256
  | VData2 n => form = FORM_data2 /\ n < 65536
  | VData4 n => form = FORM_data4 /\ n < 4294967296
  | VData8 n => form = FORM_data8 /\ n < two64
  | VUdata n => form = FORM_udata /\ n < two64
  | VSdata z => form = FORM_sdata /\ (-9223372036854775808 <= z < 9223372036854775808)%Z
  | VFlag _ => form = FORM_flag
  | VSecOffset n => form = FORM_sec_offset /\ n < word_lim fmt64
  | VString s => form = FORM_string /\ no_nul s = true
  | VStrRef n => form = FORM_strp /\ n < word_lim fmt64
  | VStrRefSup n => (form = FORM_strp_sup \/ form = FORM_GNU_strp_alt) /\ n < word_lim fmt64
  | VLineStrRef n => form = FORM_line_strp /\ n < word_lim fmt64
  | VStrOffsetsIndex n =>
      ((form = FORM_strx \/ form = FORM_GNU_str_index) /\ n < two64) \/ (form = FORM_strx1 /\ n < 256) \/
      (form = FORM_strx2 /\ n < 65536) \/ (form = FORM_strx3 /\ n < 16777216) \/
      (form = FORM_strx4 /\ n < 4294967296)
  end.

Lemma split_n_len a tail n : n = len_n a -> split_n n (a ++ tail) = Ok (a, tail).
Proof.
  intros ->. unfold split_n, len_n. rewrite app_length.
  destruct (N.of_nat (length a + length tail) <? N.of_nat (length a)) eqn:E; [lia|].
  rewrite Nat2N.id. rewrite firstn_app, Nat.sub_diag, firstn_all. cbn [firstn]. rewrite app_nil_r.
  rewrite skipn_app, Nat.sub_diag, skipn_all. reflexivity.
Qed.

Ltac forms := unfold FORM_block2, FORM_block4, FORM_data2, FORM_data4, FORM_data8, FORM_string, FORM_block,
  FORM_block1, FORM_data1, FORM_flag, FORM_sdata, FORM_strp, FORM_udata, FORM_sec_offset, FORM_strx,
  FORM_strp_sup, FORM_data16, FORM_line_strp, FORM_strx1, FORM_strx2, FORM_strx3, FORM_strx4,
  FORM_GNU_str_index, FORM_GNU_strp_alt in *.

Lemma parse_attribute_enc dbg be fmt64 form v tail :
  val_ok fmt64 form v ->
  parse_attribute dbg be fmt64 form (enc_val be fmt64 form v ++ tail) = Ok (v, tail).
Proof.
  intros H. unfold parse_attribute, enc_val, word_lim in *.
  destruct v; cbn [val_ok] in H.
  - (* VBlock *)
    destruct H as [[-> H]|[[-> H]|[[-> H]|[[-> H]|[-> H]]]]]; forms; cbn [N.eqb Pos.eqb orb].
    + cbn [app]. rewrite read_u8_cons by exact H. cbn [bind]. rewrite split_n_len by reflexivity. reflexivity.
    + rewrite <- app_assoc. unfold read_u16. rewrite read_un_enc by (change (256 ^ N.of_nat 2) with 65536; exact H).
      cbn [bind]. rewrite split_n_len by reflexivity. reflexivity.
    + rewrite <- app_assoc. unfold read_u32. rewrite read_un_enc by (change (256 ^ N.of_nat 4) with 4294967296; exact H).
      cbn [bind]. rewrite split_n_len by reflexivity. reflexivity.
    + rewrite <- app_assoc. rewrite read_uleb128_enc by exact H.
      cbn [bind]. rewrite split_n_len by reflexivity. reflexivity.
    + rewrite split_n_len by (symmetry; exact H). reflexivity.
  - destruct H as [-> H]; forms; cbn [N.eqb Pos.eqb orb app]. rewrite read_u8_cons by exact H. reflexivity.
  - destruct H as [-> H]; forms; cbn [N.eqb Pos.eqb orb]. unfold read_u16.
    rewrite read_un_enc by (change (256 ^ N.of_nat 2) with 65536; exact H). reflexivity.
  - destruct H as [-> H]; forms; cbn [N.eqb Pos.eqb orb]. unfold read_u32.
    rewrite read_un_enc by (change (256 ^ N.of_nat 4) with 4294967296; exact H). reflexivity.
  - destruct H as [-> H]; forms; cbn [N.eqb Pos.eqb orb]. unfold read_u64.
    rewrite read_un_enc by (change (256 ^ N.of_nat 8) with two64; exact H). reflexivity.
  - destruct H as [-> H]; forms; cbn [N.eqb Pos.eqb orb]. rewrite read_uleb128_enc by exact H. reflexivity.
  - destruct H as [-> H]; forms; cbn [N.eqb Pos.eqb orb]. rewrite read_sleb128_enc by exact H. reflexivity.
  - subst form; forms; cbn [N.eqb Pos.eqb orb app]. destruct b; reflexivity.
  - destruct H as [-> H]; forms; cbn [N.eqb Pos.eqb orb]. rewrite read_word_enc by exact H. reflexivity.
  - destruct H as [-> H]; forms; cbn [N.eqb Pos.eqb orb]. rewrite <- app_assoc. cbn [app].
    rewrite read_cstr_app by exact H. reflexivity.
  - destruct H as [-> H]; forms; cbn [N.eqb Pos.eqb orb]. rewrite read_word_enc by exact H. reflexivity.
  - destruct H as [[-> | ->] H]; forms; cbn [N.eqb Pos.eqb orb]; rewrite read_word_enc by exact H; reflexivity.
  - destruct H as [-> H]; forms; cbn [N.eqb Pos.eqb orb]. rewrite read_word_enc by exact H. reflexivity.
  - destruct H as [[[-> | ->] H]|[[-> H]|[[-> H]|[[-> H]|[-> H]]]]]; forms; cbn [N.eqb Pos.eqb orb].
    + rewrite read_uleb128_enc by exact H. reflexivity.
    + rewrite read_uleb128_enc by exact H. reflexivity.
    + cbn [app]. rewrite read_u8_cons by exact H. reflexivity.
    + unfold read_u16. rewrite read_un_enc by (change (256 ^ N.of_nat 2) with 65536; exact H). reflexivity.
    + unfold read_uint. change (Nat.ltb 8 3) with false. cbv iota.
      rewrite read_un_enc by (change (256 ^ N.of_nat 3) with 16777216; exact H). reflexivity.
    + unfold read_u32. rewrite read_un_enc by (change (256 ^ N.of_nat 4) with 4294967296; exact H). reflexivity.
Qed.

(* ---------------------------------------------------------------- entries *)
Inductive entry_ok (fmt64 : bool) : list entry_format -> list form_val -> Prop :=
| entry_ok_nil : entry_ok fmt64 [] []
| entry_ok_cons f ft v vt : val_ok fmt64 (ef_form f) v -> entry_ok fmt64 ft vt -> entry_ok fmt64 (f :: ft) (v :: vt).

Lemma parse_directory_loop_enc dbg be fmt64 : forall fmts vals path tail,
  entry_ok fmt64 fmts vals ->
  parse_directory_loop dbg be fmt64 fmts path (enc_entry be fmt64 fmts vals ++ tail) =
  Ok (dir_of_entry fmts vals path, tail).
Proof.
  intros fmts vals path tail H. revert path. induction H as [|f ft v vt Hv H IH]; intros path.
  - reflexivity.
  - cbn [enc_entry parse_directory_loop dir_of_entry]. rewrite <- app_assoc.
    rewrite parse_attribute_enc by exact Hv. cbn [bind]. apply IH.
Qed.

Lemma file_field_upd ct v f p : file_field ct v f p = upd_file ct v f p.
Proof. reflexivity. Qed.

Lemma parse_file_loop_enc dbg be fmt64 : forall fmts vals f path tail,
  entry_ok fmt64 fmts vals ->
  parse_file_loop dbg be fmt64 fmts f path (enc_entry be fmt64 fmts vals ++ tail) =
  Ok (file_of_entry fmts vals f path, tail).
Proof.
  intros fmts vals f path tail H. revert f path. induction H as [|fm ft v vt Hv H IH]; intros f path.
  - reflexivity.
  - cbn [enc_entry parse_file_loop file_of_entry]. rewrite <- app_assoc.
    rewrite parse_attribute_enc by exact Hv. cbn [bind]. rewrite file_field_upd.
    destruct (upd_file (ef_ct fm) v f path) as [f' p']. apply IH.
Qed.

(* `for _ in 0..count` *)
Lemma count_loop_enc {A} (one : list byte -> res (A * list byte)) (enc : list form_val -> list byte)
  (dec : list form_val -> A) :
  forall entries fuel tail,
  (forall e t, In e entries -> one (enc e ++ t) = Ok (dec e, t)) ->
  (length entries < fuel)%nat ->
  count_loop fuel (len_n entries) one (concat (map enc entries) ++ tail) = Ok (map dec entries, tail).
Proof.
  induction entries as [|e es IH]; intros fuel tail H Hf; destruct fuel as [|f]; try (simpl in Hf; lia).
  - reflexivity.
  - cbn [count_loop]. unfold len_n. cbn [length].
    destruct (N.of_nat (S (length es)) =? 0) eqn:E; [lia|].
    cbn [map concat]. rewrite <- app_assoc. rewrite H by (left; reflexivity). cbn [bind].
    replace (N.of_nat (S (length es)) - 1) with (len_n es) by (unfold len_n; lia).
    rewrite IH; [reflexivity| |simpl in Hf; lia]. intros e' t Hin. apply H. right. exact Hin.
Qed.

(* ---------------------------------------------------------------- FileEntryFormat::parse *)
Definition fmt_ok (f : entry_format) : Prop := ef_ct f < 65536 /\ ef_form f < 16384.

Lemma parse_formats_loop_enc dbg : forall fmts pc tail,
  Forall fmt_ok fmts ->
  parse_formats_loop dbg (length fmts) pc
    (concat (map (fun f => enc_uleb (ef_ct f) ++ enc_uleb (ef_form f)) fmts) ++ tail) =
  Ok (fmts, pc + count_path fmts, tail).
Proof.
  induction fmts as [|f ft IH]; intros pc tail F.
  - cbn. rewrite N.add_0_r. reflexivity.
  - inversion F as [|? ? [Hc Hf] F']; subst. cbn [length parse_formats_loop map concat].
    rewrite <- !app_assoc. rewrite read_uleb128_enc by (unfold two64; lia). cbn [bind].
    destruct (65535 <? ef_ct f) eqn:E; [lia|].
    rewrite read_uleb128_u16_enc by exact Hf. cbn [bind].
    rewrite IH by exact F'. cbn [bind count_path]. destruct f as [ct fm]; cbn [ef_ct ef_form] in *.
    f_equal. f_equal. f_equal. destruct (ct =? LNCT_path); lia.
Qed.

Lemma parse_formats_enc dbg fmts tail :
  Forall fmt_ok fmts -> len_n fmts < 256 -> count_path fmts = 1 ->
  parse_formats dbg (enc_fmts fmts ++ tail) = Ok (fmts, tail).
Proof.
  intros F L C. unfold parse_formats, enc_fmts. cbn [app]. rewrite read_u8_cons by exact L. cbn [bind].
  unfold len_n. rewrite Nat2N.id. rewrite parse_formats_loop_enc by exact F. cbn [bind].
  rewrite C. reflexivity.
Qed.

(* from the safety file: count_path > 0 gives a path component, so unwrap succeeds *)
Lemma dir_of_entry_some : forall fmts vals path,
  length fmts = length vals -> (path <> None \/ 0 < count_path fmts) -> dir_of_entry fmts vals path <> None.
Proof.
  induction fmts as [|f ft IH]; intros vals path L H; destruct vals as [|v vt]; try discriminate.
  - cbn. destruct H as [H|H]; [exact H|cbn in H; lia].
  - cbn [dir_of_entry]. apply IH; [simpl in L; lia|].
    cbn [count_path] in H. destruct (ef_ct f =? LNCT_path); [left; discriminate|].
    destruct H as [H|H]; [left; exact H|right; lia].
Qed.

Lemma entry_ok_len fmt64 fmts vals : entry_ok fmt64 fmts vals -> length fmts = length vals.
Proof. induction 1; simpl; congruence. Qed.

Lemma upd_file_path ct v f p : snd (upd_file ct v f p) = if ct =? LNCT_path then Some v else p.
Proof.
  unfold upd_file. destruct (ct =? LNCT_path); [reflexivity|].
  repeat match goal with |- context[if ?c then _ else _] => destruct c end; reflexivity.
Qed.

Lemma file_of_entry_some : forall fmts vals f path,
  length fmts = length vals -> (path <> None \/ 0 < count_path fmts) -> snd (file_of_entry fmts vals f path) <> None.
Proof.
  induction fmts as [|fm ft IH]; intros vals f path L H; destruct vals as [|v vt]; try discriminate.
  - cbn. destruct H as [H|H]; [exact H|cbn in H; lia].
  - cbn [file_of_entry]. pose proof (upd_file_path (ef_ct fm) v f path) as U.
    destruct (upd_file (ef_ct fm) v f path) as [f' p']. cbn [snd] in U. subst p'.
    apply IH; [simpl in L; lia|].
    cbn [count_path] in H. destruct (ef_ct fm =? LNCT_path); [left; discriminate|].
    destruct H as [H|H]; [left; exact H|right; lia].
Qed.

(* ---------------------------------------------------------------- the version 5 header *)
Record raw_wf5 (be : bool) (r : raw_header) (prog : list byte) : Prop := mk_raw_wf5 {
  r5_ver : rh_version r = 5;
  r5_asz : rh_addr_size r = 1 \/ rh_addr_size r = 2 \/ rh_addr_size r = 4 \/ rh_addr_size r = 8;
  r5_mil : 1 <= rh_min_inst_len r < 256; r5_mops : 1 <= rh_max_ops r < 256;
  r5_lr : 1 <= rh_line_range r < 256; r5_ob : 1 <= rh_opcode_base r < 256;
  r5_lb : (-128 <= rh_line_base r < 128)%Z;
  r5_std : N.of_nat (length (rh_std_lengths r)) = rh_opcode_base r - 1;
  r5_dfmt : Forall fmt_ok (rh_dir_fmt r) /\ len_n (rh_dir_fmt r) < 256 /\ count_path (rh_dir_fmt r) = 1;
  r5_ffmt : Forall fmt_ok (rh_file_fmt r) /\ len_n (rh_file_fmt r) < 256 /\ count_path (rh_file_fmt r) = 1;
  r5_dirs : Forall (entry_ok (rh_fmt64 r) (rh_dir_fmt r)) (rh_dirs r) /\ len_n (rh_dirs r) < two64;
  r5_files : Forall (entry_ok (rh_fmt64 r) (rh_file_fmt r)) (rh_files r) /\ len_n (rh_files r) < two64;
  r5_len : len_n (enc_after_len be r prog) < (if rh_fmt64 r then two64 else 4294967280) }.

Lemma entries_len {A} (enc : A -> list byte) : forall es, (forall e, In e es -> (1 <= length (enc e))%nat) ->
  (length es <= length (concat (map enc es)))%nat.
Proof.
  induction es as [|e es IH]; intros H; [simpl; lia|]. cbn [map concat length]. rewrite app_length.
  pose proof (H e (or_introl eq_refl)). specialize (IH (fun x Hx => H x (or_intror Hx))). lia.
Qed.

Lemma enc_entry_nonempty be fmt64 fmts vals : entry_ok fmt64 fmts vals -> 0 < count_path fmts ->
  (1 <= length (enc_entry be fmt64 fmts vals))%nat.
Proof.
  intros H C. destruct H as [|f ft v vt Hv H]; [cbn in C; lia|].
  cbn [enc_entry]. rewrite app_length.
  pose proof (parse_attribute_enc false be fmt64 (ef_form f) v [] Hv) as E. rewrite app_nil_r in E.
  pose proof (parse_attribute_good false be fmt64 (ef_form f) (enc_val be fmt64 (ef_form f) v)) as G.
  rewrite E in G. destruct G as [_ G]. cbn [snd length] in G. lia.
Qed.

Lemma header_roundtrip_v5_lemma dbg be asz0 r prog tail :
  raw_wf5 be r prog ->
  parse_header dbg be asz0 (enc_unit be r prog ++ tail) = Ok (header_of_raw be asz0 r prog).
Proof.
  intros [Hv Hasz Hmil Hmops Hlr Hob Hlb Hstd (Fd & Ld & Cd) (Ff & Lf & Cf) (Ed & Nd) (Ef & Nf) Hlen].
  unfold parse_header, enc_unit. rewrite <- ?app_assoc.
  rewrite read_initial_length_enc by exact Hlen. cbn [bind].
  unfold len_n at 1. rewrite split_n_app by (unfold len_n in Hlen; destruct (rh_fmt64 r); unfold two64 in *; lia).
  cbn [bind].
  unfold header_of_raw, dirs_of_raw, files_of_raw. rewrite Hv.
  change (5 <=? 5) with true. change (5 <=? 4) with false. change (4 <=? 5) with true. cbv iota.
  unfold enc_after_len at 1. rewrite Hv. change (5 <=? 5) with true. cbv iota.
  rewrite <- ?app_assoc.
  unfold read_u16. rewrite read_un_enc by (change (256 ^ N.of_nat 2) with 65536; lia). cbn [bind].
  change ((5 <? 2) || (5 <? 5)) with false. change (5 <=? 5) with true. cbv iota.
  cbn [app]. unfold read_address_size. rewrite read_u8_cons by (destruct Hasz as [->|[->|[->| ->]]]; lia).
  cbn [bind].
  assert (Az : ((rh_addr_size r =? 1) || (rh_addr_size r =? 2) || (rh_addr_size r =? 4) || (rh_addr_size r =? 8)) = true).
  { destruct Hasz as [->|[->|[->| ->]]]; reflexivity. }
  rewrite Az. cbn [bind read_u8]. change (negb (b2n x00 =? 0)) with false. cbv iota. cbn [bind].
  assert (Hbl : len_n (enc_header_body be r) < (if rh_fmt64 r then two64 else 4294967296)).
  { unfold len_n in *. unfold enc_after_len in Hlen. rewrite Hv in Hlen. change (5 <=? 5) with true in Hlen.
    cbv iota in Hlen. rewrite !app_length in Hlen. destruct (rh_fmt64 r); unfold two64 in *; lia. }
  rewrite read_word_enc by exact Hbl. cbn [bind].
  unfold len_n at 1 2. rewrite skip_n_app, truncate_n_app. cbn [bind].
  unfold enc_header_body. rewrite Hv. change (4 <=? 5) with true. change (5 <=? 4) with false. cbv iota.
  cbn [app]. rewrite read_u8_cons by lia. cbn [bind].
  destruct (rh_min_inst_len r =? 0) eqn:E1; [lia|].
  rewrite read_u8_cons by lia. cbn [bind].
  destruct (rh_max_ops r =? 0) eqn:E2; [lia|].
  rewrite read_u8_bool. cbn [bind]. rewrite read_i8_enc by exact Hlb. cbn [bind].
  rewrite read_u8_cons by lia. cbn [bind]. destruct (rh_line_range r =? 0) eqn:E3; [lia|].
  rewrite read_u8_cons by lia. cbn [bind]. destruct (rh_opcode_base r =? 0) eqn:E4; [lia|].
  rewrite <- Hstd. rewrite split_n_app by (unfold two64; lia). cbn [bind].
  (* directories *)
  rewrite <- ?app_assoc. rewrite parse_formats_enc by assumption. cbn [bind].
  rewrite read_uleb128_enc by exact Nd. cbn [bind].
  set (ddec := fun e : list form_val =>
                 match dir_of_entry (rh_dir_fmt r) e None with Some v => v | None => VString [] end).
  assert (Dsome : forall e, In e (rh_dirs r) -> dir_of_entry (rh_dir_fmt r) e None <> None).
  { intros e He. rewrite Forall_forall in Ed. apply dir_of_entry_some; [apply (entry_ok_len _ _ _ (Ed e He))|right; lia]. }
  rewrite (count_loop_enc (parse_directory_v5 dbg be (rh_fmt64 r) (rh_dir_fmt r))
             (enc_entry be (rh_fmt64 r) (rh_dir_fmt r)) ddec).
  2:{ intros e t He. unfold parse_directory_v5. rewrite Forall_forall in Ed.
      rewrite parse_directory_loop_enc by (apply Ed; exact He). cbn [bind]. subst ddec. cbn beta.
      specialize (Dsome e He). destruct (dir_of_entry (rh_dir_fmt r) e None); [reflexivity|contradiction]. }
  2:{ rewrite !app_length.
      pose proof (entries_len (enc_entry be (rh_fmt64 r) (rh_dir_fmt r)) (rh_dirs r)) as EL.
      rewrite Forall_forall in Ed.
      specialize (EL (fun e He => enc_entry_nonempty be _ _ _ (Ed e He) ltac:(lia))). lia. }
  cbn [bind].
  (* files *)
  rewrite parse_formats_enc by assumption. cbn [bind].
  rewrite read_uleb128_enc by exact Nf. cbn [bind].
  set (fdec := fun e : list form_val =>
                 let fp := file_of_entry (rh_file_fmt r) e file0 None in
                 mk_file (match snd fp with Some v => v | None => VString [] end)
                         (fe_dir (fst fp)) (fe_time (fst fp)) (fe_size (fst fp)) (fe_md5 (fst fp)) (fe_source (fst fp))).
  assert (Fsome : forall e, In e (rh_files r) -> snd (file_of_entry (rh_file_fmt r) e file0 None) <> None).
  { intros e He. rewrite Forall_forall in Ef. apply file_of_entry_some; [apply (entry_ok_len _ _ _ (Ef e He))|right; lia]. }
  rewrite <- (app_nil_r (concat (map (enc_entry be (rh_fmt64 r) (rh_file_fmt r)) (rh_files r)))).
  rewrite (count_loop_enc (parse_file_v5 dbg be (rh_fmt64 r) (rh_file_fmt r))
             (enc_entry be (rh_fmt64 r) (rh_file_fmt r)) fdec).
  2:{ intros e t He. unfold parse_file_v5. rewrite Forall_forall in Ef.
      rewrite parse_file_loop_enc by (apply Ef; exact He).
      specialize (Fsome e He). subst fdec. cbn beta zeta.
      destruct (file_of_entry (rh_file_fmt r) e file0 None) as [f p]. cbn [bind fst snd] in *.
      destruct p; [reflexivity|contradiction]. }
  2:{ rewrite !app_length.
      pose proof (entries_len (enc_entry be (rh_fmt64 r) (rh_file_fmt r)) (rh_files r)) as EL.
      rewrite Forall_forall in Ef.
      specialize (EL (fun e He => enc_entry_nonempty be _ _ _ (Ef e He) ltac:(lia))). lia. }
  cbn [bind].
  f_equal. f_equal.
  - destruct (rh_default_is_stmt r); reflexivity.
  - (* the directory table *)
    clear - Dsome. subst ddec. induction (rh_dirs r) as [|e es IH]; [reflexivity|].
    cbn [map flat_map]. pose proof (Dsome e (or_introl eq_refl)) as S.
    destruct (dir_of_entry (rh_dir_fmt r) e None); [|contradiction]. cbn [app]. f_equal.
    apply IH. intros x Hx. apply Dsome. right. exact Hx.
  - rewrite map_map. reflexivity.
Qed.

(* a non-trivial version 5 instance: big-endian or little-endian, 32-bit format, address size 8;
   directory format (path: line_strp); file format (path: string, directory_index: udata,
   MD5: data16, size: data2, LLVM_source: string, an unknown content type 0x2000: block1) *)
Definition sample_raw5 : raw_header :=
  mk_raw false 5 8 1 4 true (-5)%Z 14 13 [x00; x01; x01; x01; x01; x00; x00; x00; x01; x00; x00; x01]
    [mk_ef LNCT_path FORM_line_strp] [[VLineStrRef 0]; [VLineStrRef 4294967295]]
    [mk_ef LNCT_path FORM_string; mk_ef LNCT_directory_index FORM_udata; mk_ef LNCT_MD5 FORM_data16;
     mk_ef LNCT_size FORM_data2; mk_ef LNCT_LLVM_source FORM_string; mk_ef 8192 FORM_block1]
    [[VString [x61; x2e; x63]; VUdata 1;
      VBlock [x00; x01; x02; x03; x04; x05; x06; x07; x08; x09; x0a; x0b; x0c; x0d; x0e; x0f];
      VData2 65535; VString [x69; x6e; x74]; VBlock [xff]]].

Lemma sample_raw5_wf be : raw_wf5 be sample_raw5 [x01].
Proof.
  constructor; cbn [sample_raw5 rh_version rh_addr_size rh_min_inst_len rh_max_ops rh_line_range rh_opcode_base
    rh_line_base rh_std_lengths rh_dir_fmt rh_file_fmt rh_dirs rh_files rh_fmt64]; try lia.
  - reflexivity.
  - split; [repeat constructor; cbn; lia|split; [cbn; lia|reflexivity]].
  - split; [repeat constructor; cbn; lia|split; [cbn; lia|reflexivity]].
  - split; [|unfold two64; cbn; lia]. repeat constructor; cbn; unfold word_lim; lia.
  - split; [|unfold two64; cbn; lia].
    constructor; [|constructor].
    constructor; [cbn; split; reflexivity|].
    constructor; [cbn; split; [reflexivity|unfold two64; lia]|].
    constructor; [cbn; do 4 right; split; reflexivity|].
    constructor; [cbn; split; [reflexivity|lia]|].
    constructor; [cbn; split; reflexivity|].
    constructor; [cbn; left; split; [reflexivity|cbn; lia]|constructor].
  - destruct be; vm_compute; reflexivity.
Qed.

Lemma sample_raw5_files be :
  h_files (header_of_raw be 4 sample_raw5 [x01]) =
  [mk_file (VString [x61; x2e; x63]) 1 0 65535
           [x00; x01; x02; x03; x04; x05; x06; x07; x08; x09; x0a; x0b; x0c; x0d; x0e; x0f]
           (Some (VString [x69; x6e; x74]))] /\
  h_dirs (header_of_raw be 4 sample_raw5 [x01]) = [VLineStrRef 0; VLineStrRef 4294967295] /\
  h_addr_size (header_of_raw be 4 sample_raw5 [x01]) = 8.
Proof. destruct be; vm_compute; repeat split. Qed.
