(* Proofs/GenAgreeLoader.v — translator tie for the loader wiring of src/read/dwarf.rs (C17's "loader wiring"
   clause).  coq/Gen/Loader.v holds, regenerated from the source text on every run: the fields of DwarfSections /
   Dwarf / DwarfPackageSections / DwarfPackage with the head of their types, every `impl Section for X { id() }`,
   and the struct literals of DwarfSections::{load,borrow}, Dwarf::{from_sections,borrow},
   DwarfPackageSections::{load,borrow}, DwarfPackage::{from_sections,sections}.  (Dwarf::load, DwarfPackage::load,
   DwarfSections::borrow_with_sup are compositions; the translator checks their bodies textually.)
   The wiring theorems are decidable statements about those lists, checked by vm_compute. *)
From Coq Require Import List NArith Bool String Lia.
Require Import GV.Proofs.GenSweep GV.Proofs.GenAgreeSections.
Require GV.Gen.Loader GV.Gen.SectionNames GV.Model.IndexRd.
Import ListNotations.
Local Open Scope string_scope.

Definition lit := list (string * (string * list string)).
Definition lit_expr (e : string * (string * list string)) : string := fst (snd e).
Definition lit_refs (e : string * (string * list string)) : list string := snd (snd e).
Fixpoint slist_eqb (a b : list string) : bool :=
  match a, b with
  | [], [] => true
  | x :: a', y :: b' => String.eqb x y && slist_eqb a' b'
  | _, _ => false
  end.
Lemma slist_eqb_eq : forall a b, slist_eqb a b = true -> a = b.
Proof.
  induction a as [|x a IH]; destruct b as [|y b]; cbn; intros H; try reflexivity; try discriminate.
  apply andb_prop in H. destruct H as [H1 H2]. apply String.eqb_eq in H1. subst. f_equal. apply IH. exact H2.
Qed.
Definition sopt_eqb (a b : option string) : bool :=
  match a, b with Some x, Some y => String.eqb x y | _, _ => false end.   (* both present and equal *)

(* the SectionId a field of a struct is loaded from: `impl Section` of the head of its type *)
Definition field_id (fields : list (string * string)) (f : string) : option string :=
  match sassoc f fields with Some t => sassoc t Loader.section_impls | None => None end.
(* ... and the ELF name of that id (SectionId::name) *)
Definition field_section_name (fields : list (string * string)) (f : string) : option string :=
  match field_id fields f with Some id => sassoc id SectionNames.name_table | None => None end.

(* ---- X::load: every field of the struct, in declaration order, is `Section::load(&mut section)?`; the id
   requested for a field is the one whose ELF name is "." ++ field (".debug_" ++ field for cu_index/tu_index);
   no two fields request the same id *)
Definition load_entry_ok (fields : list (string * string)) (e : string * (string * list string)) : bool :=
  String.eqb (lit_expr e) "Section::load(&mutsection)?" &&
  match field_section_name fields (fst e) with
  | Some n => String.eqb n ("." ++ fst e) || String.eqb n (".debug_" ++ fst e)
  | None => false
  end.
Definition load_ok (fields : list (string * string)) (l : lit) : bool :=
  slist_eqb (map fst l) (map fst fields)
  && forallb (load_entry_ok fields) l
  && snodup (map (fun e => match field_id fields (fst e) with Some id => id | None => "" end) l).

Lemma gen_dwarf_sections_load : load_ok Loader.dwarf_sections_fields Loader.dwarf_sections_load = true.
Proof. vm_compute. reflexivity. Qed.
Lemma gen_package_sections_load : load_ok Loader.package_sections_fields Loader.package_sections_load = true.
Proof. vm_compute. reflexivity. Qed.

(* ---- X::borrow: every field, in order, is `self.<the same field>.borrow(&mut borrow)` *)
Definition borrow_entry_ok (e : string * (string * list string)) : bool :=
  String.eqb (lit_expr e) ("self." ++ fst e ++ ".borrow(&mutborrow)") && slist_eqb (lit_refs e) [fst e].
Definition borrow_ok (fields : list (string * string)) (l : lit) : bool :=
  slist_eqb (map fst l) (map fst fields) && forallb borrow_entry_ok l.
Lemma gen_dwarf_sections_borrow : borrow_ok Loader.dwarf_sections_fields Loader.dwarf_sections_borrow = true.
Proof. vm_compute. reflexivity. Qed.
Lemma gen_package_sections_borrow : borrow_ok Loader.package_sections_fields Loader.package_sections_borrow = true.
Proof. vm_compute. reflexivity. Qed.

(* ---- from_sections: every field of the target struct is assigned, in order; a field whose type is a section
   type is moved from the field of the same name AND the same type of the sections struct; every field of the
   sections struct is consumed exactly once (none dropped, none used twice) *)
Definition is_section_type (t : string) : bool := match sassoc t Loader.section_impls with Some _ => true | None => false end.
Definition moved_entry_ok (src dst : list (string * string)) (suffix : string) (e : string * (string * list string)) : bool :=
  match sassoc (fst e) dst with
  | Some t => if is_section_type t
              then String.eqb (lit_expr e) ("sections." ++ fst e) && sopt_eqb (sassoc (fst e) src) (Some t)
              else true
  | None => false
  end.
Definition from_sections_ok (src dst : list (string * string)) (l : lit) : bool :=
  slist_eqb (map fst l) (map fst dst)
  && forallb (moved_entry_ok src dst "") l
  && sperm (List.concat (map lit_refs l)) (map fst src).

Lemma gen_dwarf_from_sections :
  from_sections_ok Loader.dwarf_sections_fields Loader.dwarf_fields Loader.dwarf_from_sections = true /\
  sassoc "locations" Loader.dwarf_from_sections
    = Some ("LocationLists::new(sections.debug_loc,sections.debug_loclists)", ["debug_loc"; "debug_loclists"]) /\
  sassoc "ranges" Loader.dwarf_from_sections
    = Some ("RangeLists::new(sections.debug_ranges,sections.debug_rnglists)", ["debug_ranges"; "debug_rnglists"]).
Proof. repeat split; vm_compute; reflexivity. Qed.
Lemma gen_package_from_sections :
  from_sections_ok Loader.package_sections_fields Loader.package_fields Loader.package_from_sections = true /\
  sassoc "cu_index" Loader.package_from_sections = Some ("sections.cu_index.index()?", ["cu_index"]) /\
  sassoc "tu_index" Loader.package_from_sections = Some ("sections.tu_index.index()?", ["tu_index"]).
Proof. repeat split; vm_compute; reflexivity. Qed.

(* ---- Dwarf::borrow (deprecated API): section fields, locations and ranges borrow their own field *)
Definition dwarf_borrow_entry_ok (e : string * (string * list string)) : bool :=
  match sassoc (fst e) Loader.dwarf_fields with
  | Some t => if is_section_type t || String.eqb t "LocationLists" || String.eqb t "RangeLists"
              then borrow_entry_ok e else slist_eqb (lit_refs e) [fst e] || slist_eqb (lit_refs e) []
  | None => false
  end.
Lemma gen_dwarf_borrow :
  slist_eqb (map fst Loader.dwarf_borrow) (map fst Loader.dwarf_fields) = true /\
  forallb dwarf_borrow_entry_ok Loader.dwarf_borrow = true.
Proof. split; vm_compute; reflexivity. Qed.

(* ---- DwarfPackage::sections (cu_sections / tu_sections): the contribution of column kind K is cut, with
   dwp_range, out of the package field whose section type has the id IndexSectionId::section_id(K); every kind
   has an arm and its own pair of variables; no other dwp_range call; the calls are made in the order of the
   model's pkg_order (that order decides which error is reported) *)
Definition kind_ok (kv : string * string) : bool :=
  match filter (fun r => String.eqb (fst (snd (snd r))) (snd kv)) Loader.package_ranges with
  | [(x, (f, (_, w)))] =>
      String.eqb w (snd kv) && String.eqb x f
      && sopt_eqb (field_id Loader.package_fields f) (sassoc (fst kv) SectionNames.section_id_table)
  | _ => false
  end.
Definition range_kind (r : string * (string * (string * string))) : string :=
  match find (fun kv => String.eqb (snd kv) (fst (snd (snd r)))) Loader.package_kind_vars with
  | Some kv => fst kv | None => "" end.
Lemma gen_package_unit_kinds :
  forallb kind_ok Loader.package_kind_vars = true /\
  sperm (map fst Loader.package_kind_vars) SectionNames.index_section_ids = true /\
  snodup (map snd Loader.package_kind_vars) = true /\
  List.length Loader.package_ranges = List.length Loader.package_kind_vars /\
  map range_kind Loader.package_ranges = map isect_name IndexRd.pkg_order.
Proof. repeat split; vm_compute; reflexivity. Qed.

(* the rest of the unit: .debug_str shared, .debug_addr / .debug_ranges / sup from the parent, the three sections
   a package never holds are empty, file type Dwo; every field of Dwarf is assigned (as-built wiring, pinned) *)
Lemma gen_package_unit_rest :
  Loader.package_lets =
    [ ("debug_str", "self.debug_str.clone()"); ("debug_addr", "parent.debug_addr.clone()");
      ("debug_ranges", "parent.ranges.debug_ranges().clone()"); ("debug_aranges", "self.empty.clone().into()");
      ("debug_line_str", "self.empty.clone().into()"); ("debug_names", "self.empty.clone().into()") ] /\
  map fst Loader.package_unit_literal = map fst Loader.dwarf_fields /\
  forallb (fun e => match sassoc (fst e) Loader.dwarf_fields with
                    | Some t => if is_section_type t then String.eqb (snd e) (fst e) else true
                    | None => false end) Loader.package_unit_literal = true /\
  sassoc "locations" Loader.package_unit_literal = Some "LocationLists::new(debug_loc,debug_loclists)" /\
  sassoc "ranges" Loader.package_unit_literal = Some "RangeLists::new(debug_ranges,debug_rnglists)" /\
  sassoc "file_type" Loader.package_unit_literal = Some "DwarfFileType::Dwo" /\
  sassoc "sup" Loader.package_unit_literal = Some "parent.sup.clone()".
Proof. repeat split; vm_compute; reflexivity. Qed.

(* readable corollary of load_ok, for every field of the two sections structs *)
Lemma load_ok_field : forall fields l, load_ok fields l = true ->
  map fst l = map fst fields /\
  forall f, In f (map fst l) ->
    exists n, field_section_name fields f = Some n /\ (n = "." ++ f \/ n = ".debug_" ++ f).
Proof.
  intros fields l H. unfold load_ok in H.
  apply andb_prop in H. destruct H as [H _]. apply andb_prop in H. destruct H as [H1 H2].
  split; [apply slist_eqb_eq; exact H1|].
  intros f I. apply in_map_iff in I. destruct I as [e [<- I]].
  pose proof (forallb_In _ _ _ H2 e I) as S. unfold load_entry_ok in S.
  apply andb_prop in S. destruct S as [_ S].
  destruct (field_section_name fields (fst e)) as [n|]; [|discriminate]. exists n. split; [reflexivity|].
  apply orb_prop in S. destruct S as [S|S]; apply String.eqb_eq in S; [left|right]; exact S.
Qed.
