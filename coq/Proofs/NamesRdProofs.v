(* Proofs/NamesRdProofs.v — C17: .debug_names bucket / hash iteration = exhaustive scan, DJB hash,
   layout and panic freedom of the name index readers. *)
From Coq Require Import List NArith ZArith Bool Lia ZifyBool ZifyN ZifyNat Sorted.
From Coq.Strings Require Import Byte.
Require Import GV.Base.Res GV.Base.Byt GV.Base.Ints GV.Model.Leb GV.Model.Prim.
Require Import GV.Spec.LebSpec GV.Spec.LookupSpec GV.Model.IndexRd GV.Model.NamesRd.
Require Import GV.Proofs.LebProofs GV.Proofs.IndexRdProofs.
Import ListNotations.
Local Open Scope N_scope.
Local Arguments N.add : simpl never.
Local Arguments N.sub : simpl never.
Local Arguments N.mul : simpl never.
Local Arguments N.shiftl : simpl never.
Local Arguments N.shiftr : simpl never.
Local Arguments N.land : simpl never.
Local Arguments N.lor : simpl never.
Local Arguments N.pow : simpl never.
Local Arguments N.modulo : simpl never.
Local Arguments N.div : simpl never.
Local Arguments N.of_nat : simpl never.
Local Arguments N.to_nat : simpl never.
Ltac Zify.zify_post_hook ::= Z.div_mod_to_equations.

(* ------------------------------------------------------------------ DJB hash *)

Lemma lowercase_byte (b : byte) : to_ascii_lowercase (b2n b) = ascii_lower (b2n b).
Proof. destruct b; vm_compute; reflexivity. Qed.

Lemma djb_hash_byte_mod h1 h2 c :
  h1 mod 2 ^ 32 = h2 mod 2 ^ 32 -> djb_hash_byte h1 c = (h2 * 33 + c) mod 2 ^ 32.
Proof.
  intros H. unfold djb_hash_byte, wrap32. change two32 with (2 ^ 32).
  rewrite N.add_mod_idemp_l by (apply N.pow_nonzero; discriminate).
  rewrite <- (N.add_mod_idemp_l (h1 * 33)), <- (N.add_mod_idemp_l (h2 * 33)) by (apply N.pow_nonzero; discriminate).
  rewrite <- (N.mul_mod_idemp_l h1), <- (N.mul_mod_idemp_l h2) by (apply N.pow_nonzero; discriminate).
  rewrite H. reflexivity.
Qed.

Lemma djb_fold s : forall h1 h2,
  h1 mod 2 ^ 32 = h2 mod 2 ^ 32 -> h1 < 2 ^ 32 ->
  fold_left (fun h b => djb_hash_byte h (to_ascii_lowercase (b2n b))) s h1
  = (fold_left (fun h b => h * 33 + ascii_lower (b2n b)) s h2) mod 2 ^ 32.
Proof.
  induction s as [|b s IH]; intros h1 h2 H Hlt.
  - cbn [fold_left]. rewrite <- H. symmetry. apply N.mod_small. exact Hlt.
  - cbn [fold_left]. apply IH.
    + rewrite (djb_hash_byte_mod h1 h2 _ H), lowercase_byte.
      apply N.mod_mod. apply N.pow_nonzero. discriminate.
    + unfold djb_hash_byte, wrap32. apply N.mod_lt. discriminate.
Qed.

Theorem djb_hash_ascii_spec s : djb_hash_ascii s = djb_spec s.
Proof. unfold djb_hash_ascii, djb_spec. apply djb_fold; [reflexivity|reflexivity]. Qed.

(* the hash does not distinguish the case of ASCII letters *)
Lemma ascii_lower_idem b : ascii_lower (ascii_lower b) = ascii_lower b.
Proof. unfold ascii_lower. destruct ((65 <=? b) && (b <=? 90)) eqn:E; [|rewrite E; reflexivity].
  destruct ((65 <=? b + 32) && (b + 32 <=? 90)) eqn:E2; [lia|reflexivity]. Qed.

(* ------------------------------------------------------------------ hash table over lists *)

(* the run of names of bucket b starting at position i *)
Fixpoint run_members (bc b : N) (i : N) (hs : list N) : list (N * N) :=
  match hs with
  | [] => []
  | h :: r => if h mod bc =? b then (i, h) :: run_members bc b (i + 1) r else []
  end.

Lemma bucket_members_none bc b : forall hs i,
  (forall x, In x hs -> x mod bc <> b) -> bucket_members bc b i hs = [].
Proof.
  induction hs as [|h r IH]; intros i H; [reflexivity|]. cbn [bucket_members].
  destruct (h mod bc =? b) eqn:E; [exfalso; apply (H h); [left; reflexivity|lia]|].
  apply IH. intros x Hx. apply H. right. exact Hx.
Qed.

Lemma members_run bc b : forall r j,
  (forall x, In x (drop_run bc b r) -> x mod bc <> b) ->
  bucket_members bc b j r = run_members bc b j r.
Proof.
  induction r as [|x r IH]; intros j H; [reflexivity|].
  cbn [bucket_members run_members drop_run] in *.
  destruct (x mod bc =? b) eqn:E.
  - f_equal. apply IH. exact H.
  - apply (bucket_members_none bc b (x :: r) j) in H. cbn [bucket_members] in H. rewrite E in H. exact H.
Qed.

Lemma first_in_bucket_pos bc b : forall hs i, first_in_bucket bc b i hs = 0 \/ i < first_in_bucket bc b i hs.
Proof.
  induction hs as [|h r IH]; intros i; [left; reflexivity|]. cbn [first_in_bucket].
  destruct (h mod bc =? b); [right; lia|]. destruct (IH (i + 1)); [left; assumption|right; lia].
Qed.

Lemma first_in_bucket_zero bc b : forall hs i,
  first_in_bucket bc b i hs = 0 -> bucket_members bc b i hs = [].
Proof.
  induction hs as [|h r IH]; intros i H; [reflexivity|]. cbn [first_in_bucket bucket_members] in *.
  destruct (h mod bc =? b); [lia|]. apply IH. exact H.
Qed.

(* with grouped hashes the members of a bucket are the run that starts at the bucket's first name *)
Lemma first_in_bucket_run bc b : forall hs i s,
  grouped bc hs -> first_in_bucket bc b i hs = s + 1 ->
  i <= s /\ (N.to_nat (s - i) < length hs)%nat /\
  bucket_members bc b i hs = run_members bc b s (skipn (N.to_nat (s - i)) hs).
Proof.
  induction hs as [|h r IH]; intros i s G F; [cbn in F; lia|].
  cbn [first_in_bucket] in F. cbn [grouped] in G. destruct G as [G1 G2].
  destruct (h mod bc =? b) eqn:E.
  - assert (s = i) by lia. subst s. split; [lia|]. rewrite N.sub_diag. change (N.to_nat 0) with O.
    split; [cbn; lia|]. cbn [skipn bucket_members run_members]. rewrite E. f_equal.
    apply members_run. intros x Hx. assert (Hb : h mod bc = b) by lia. rewrite <- Hb. apply G1.
    rewrite Hb. exact Hx.
  - destruct (IH (i + 1) s G2 F) as (Hle & Hlen & Hm).
    split; [lia|]. replace (N.to_nat (s - i)) with (S (N.to_nat (s - (i + 1)))) by lia.
    split; [cbn [length]; lia|]. cbn [skipn bucket_members]. rewrite E. exact Hm.
Qed.

Lemma filter_members_positions bc h : forall hs i,
  bc <> 0 ->
  map fst (filter (fun p => snd p =? h) (bucket_members bc (h mod bc) i hs)) = positions h i hs.
Proof.
  induction hs as [|x r IH]; intros i Hbc; [reflexivity|]. cbn [bucket_members positions].
  destruct (x mod bc =? h mod bc) eqn:E.
  - cbn [filter snd]. destruct (x =? h) eqn:Ex; cbn [map fst]; rewrite IH by exact Hbc; reflexivity.
  - destruct (x =? h) eqn:Ex; [assert (x = h) by lia; subst; lia|]. apply IH. exact Hbc.
Qed.

Lemma nseq_nth : forall len start k, (k < len)%nat -> nth_error (nseq start len) k = Some (start + N.of_nat k).
Proof.
  induction len as [|len IH]; intros start k H; [lia|]. destruct k as [|k]; cbn [nseq nth_error].
  - f_equal. lia.
  - rewrite IH by lia. f_equal. lia.
Qed.

Lemma build_buckets_nth bc hs b :
  b < bc -> nth_error (build_buckets bc hs) (N.to_nat b) = Some (first_in_bucket bc b 0 hs).
Proof.
  intros H. unfold build_buckets. rewrite nth_error_map, nseq_nth by lia. cbn. f_equal. f_equal. lia.
Qed.

Lemma build_buckets_length bc hs : length (build_buckets bc hs) = N.to_nat bc.
Proof.
  unfold build_buckets. rewrite map_length.
  assert (H : forall len start, length (nseq start len) = len) by (induction len; intros; cbn; auto).
  apply H.
Qed.

Lemma first_in_bucket_le bc b : forall hs i, first_in_bucket bc b i hs <= i + N.of_nat (length hs).
Proof.
  induction hs as [|h r IH]; intros i; cbn [first_in_bucket length]; [lia|].
  destruct (h mod bc =? b); [lia|]. specialize (IH (i + 1)). lia.
Qed.

(* ------------------------------------------------------------------ the bucket loop on an encoded hash array *)

Lemma bucket_loop_words dbg be bc b nc : forall hs fuel idx,
  bc <> 0 -> nc < 2 ^ 32 -> idx + N.of_nat (length hs) = nc ->
  Forall (fun v => v < 2 ^ 32) hs -> (length hs < fuel)%nat ->
  bucket_loop dbg be fuel (enc_words 4 be hs) idx nc b bc = (run_members bc b idx hs, SDone).
Proof.
  induction hs as [|h r IH]; intros fuel idx Hbc Hnc Hidx F Hf.
  - destruct fuel as [|fuel]; [cbn in Hf; lia|]. cbn [bucket_loop length] in *.
    destruct (nc <=? idx) eqn:E; [reflexivity|lia].
  - destruct fuel as [|fuel]; [cbn in Hf; lia|]. cbn [bucket_loop length] in *.
    destruct (nc <=? idx) eqn:E; [lia|].
    inversion F as [|? ? Hh F']; subst.
    rewrite enc_words_cons, read_un_enc_small by (change (8 * N.of_nat 4) with 32; exact Hh).
    rewrite chk_add_ok by lia.
    destruct (bc =? 0) eqn:E0; [lia|].
    cbn [run_members]. destruct (h mod bc =? b) eqn:Eb; cbn [negb]; [|reflexivity].
    rewrite (IH fuel (idx + 1)) by (try assumption; lia). reflexivity.
Qed.

(* for ANY bytes: the loop ends, yields at most the remaining names, and does not panic *)
Lemma bucket_loop_total dbg be bc b nc : forall fuel reader idx,
  bc <> 0 -> nc < 2 ^ 32 -> (length reader < fuel)%nat ->
  let '(items, st) := bucket_loop dbg be fuel reader idx nc b bc in
  st <> SFuel /\ st <> SPanic /\ N.of_nat (length items) <= nc - idx /\
  (st = SDone \/ st = SErr EUnexpectedEof).
Proof.
  induction fuel as [|fuel IH]; intros reader idx Hbc Hnc Hf; [lia|].
  cbn [bucket_loop]. destruct (nc <=? idx) eqn:E.
  { cbn. repeat split; try discriminate; try lia. left; reflexivity. }
  destruct (read_un_cases 4 be reader) as [(v & Hr & Hl & Hv)|(Hr & _)]; rewrite Hr.
  - rewrite chk_add_ok by lia. destruct (bc =? 0) eqn:E0; [lia|].
    destruct (negb (v mod bc =? b)).
    + cbn. repeat split; try discriminate; try lia. left; reflexivity.
    + specialize (IH (skipn 4 reader) (idx + 1) Hbc Hnc).
      destruct (bucket_loop dbg be fuel (skipn 4 reader) (idx + 1) nc b bc) as [items st].
      unfold run_cons. cbn [fst snd length].
      destruct IH as (H1 & H2 & H3 & H4); [rewrite skipn_length; lia|].
      repeat split; try assumption. lia.
  - cbn. repeat split; try discriminate; try lia. right; reflexivity.
Qed.

(* ------------------------------------------------------------------ find_by_bucket / find_by_hash *)

(* a name index whose bucket and hash arrays follow DWARF 5 §6.1.1.4.5 *)
Definition names_wf (be : bool) (ix : name_index) (hs : list N) : Prop :=
  let bc := ni_bucket_count ix in
  0 < bc /\ bc < 2 ^ 32 /\
  ni_buckets ix = enc_words 4 be (build_buckets bc hs) /\
  ni_hashes ix = enc_words 4 be hs /\
  ni_name_count ix = N.of_nat (length hs) /\ N.of_nat (length hs) < 2 ^ 32 /\
  Forall (fun v => v < 2 ^ 32) hs /\ grouped bc hs.

Lemma bucket_iter_new_wf dbg be ix hs b :
  names_wf be ix hs -> b < ni_bucket_count ix ->
  bucket_iter_new dbg be ix b =
    Ok (match first_in_bucket (ni_bucket_count ix) b 0 hs with
        | 0 => None
        | s1 => Some (enc_words 4 be (skipn (N.to_nat (s1 - 1)) hs), s1 - 1)
        end).
Proof.
  intros (Hbc0 & Hbc & Hb & Hh & Hnc & Hlen & F & G) Hlt. unfold bucket_iter_new.
  change (2 ^ 32) with 4294967296 in *.
  rewrite chk_mul_ok by (change (2 ^ 64) with 18446744073709551616; lia). cbn [bind].
  pose proof (build_buckets_nth (ni_bucket_count ix) hs b Hlt) as Hn.
  pose proof (first_in_bucket_le (ni_bucket_count ix) b hs 0) as Hle.
  destruct (word_at_words 4 be _ [] _ _ Hn) as (r & Hr & r' & Hr').
  { change (8 * N.of_nat 4) with 32. change (2 ^ 32) with 4294967296. lia. }
  rewrite app_nil_r, N2Nat.id in Hr. change (N.of_nat 4) with 4 in Hr.
  rewrite Hb, Hr. cbn [bind]. rewrite Hr'. cbn [bind].
  destruct (first_in_bucket (ni_bucket_count ix) b 0 hs =? 0) eqn:E0.
  { assert (E : first_in_bucket (ni_bucket_count ix) b 0 hs = 0) by lia. rewrite E. reflexivity. }
  set (s1 := first_in_bucket (ni_bucket_count ix) b 0 hs) in *.
  rewrite chk_sub_ok by lia. cbn [bind].
  rewrite chk_mul_ok by (change (2 ^ 64) with 18446744073709551616; lia). cbn [bind].
  rewrite Hh. rewrite <- (app_nil_r (enc_words 4 be hs)).
  replace ((s1 - 1) * 4) with (N.of_nat (N.to_nat (s1 - 1)) * N.of_nat 4) by (change (N.of_nat 4) with 4; lia).
  rewrite rd_skip_words by lia. cbn [bind]. rewrite app_nil_r.
  destruct s1; [lia|reflexivity].
Qed.

Lemma first_in_bucket_head bc b : forall hs i s,
  first_in_bucket bc b i hs = s + 1 ->
  exists h r, skipn (N.to_nat (s - i)) hs = h :: r /\ h mod bc = b.
Proof.
  induction hs as [|h r IH]; intros i s F; [cbn in F; lia|].
  cbn [first_in_bucket] in F. destruct (h mod bc =? b) eqn:E.
  - assert (s = i) by lia. subst s. rewrite N.sub_diag. exists h, r. split; [reflexivity|lia].
  - pose proof (first_in_bucket_pos bc b r (i + 1)) as Hp.
    destruct (IH (i + 1) s F) as (h' & r' & Hs & Hb).
    exists h', r'. split; [|exact Hb].
    replace (N.to_nat (s - i)) with (S (N.to_nat (s - (i + 1)))) by lia. exact Hs.
Qed.

Theorem find_by_bucket_wf dbg be ix hs b :
  names_wf be ix hs -> b < ni_bucket_count ix ->
  ni_find_by_bucket dbg be ix b =
    Ok (match bucket_members (ni_bucket_count ix) b 0 hs with
        | [] => None
        | l => Some (l, SDone)
        end).
Proof.
  intros Hwf Hlt. unfold ni_find_by_bucket. rewrite (bucket_iter_new_wf dbg be ix hs b Hwf Hlt). cbn [bind].
  destruct Hwf as (Hbc0 & Hbc & Hb & Hh & Hnc & Hlen & F & G).
  destruct (first_in_bucket (ni_bucket_count ix) b 0 hs) as [|p] eqn:E1.
  - rewrite (first_in_bucket_zero _ _ _ _ E1). reflexivity.
  - set (s := N.pos p - 1).
    assert (E1' : first_in_bucket (ni_bucket_count ix) b 0 hs = s + 1) by (unfold s; lia).
    destruct (first_in_bucket_run (ni_bucket_count ix) b hs 0 s G E1') as (_ & Hl & Hm).
    destruct (first_in_bucket_head (ni_bucket_count ix) b hs 0 s E1') as (h & r & Hsk & Hhb).
    rewrite N.sub_0_r in Hl, Hm, Hsk.
    rewrite (bucket_loop_words dbg be (ni_bucket_count ix) b (ni_name_count ix) (skipn (N.to_nat s) hs)).
    + rewrite Hm, Hsk. cbn [run_members]. destruct (h mod ni_bucket_count ix =? b) eqn:E; [reflexivity|lia].
    + lia.
    + rewrite Hnc. exact Hlen.
    + rewrite skipn_length, Hnc. lia.
    + apply Forall_skipn. exact F.
    + rewrite enc_words_length, skipn_length. lia.
Qed.

Theorem find_by_hash_wf dbg be ix hs h :
  names_wf be ix hs ->
  ni_find_by_hash dbg be ix h = Ok (positions h 0 hs, SDone).
Proof.
  intros Hwf. unfold ni_find_by_hash.
  pose proof Hwf as (Hbc0 & _).
  destruct (ni_bucket_count ix =? 0) eqn:E0; [lia|].
  rewrite (find_by_bucket_wf dbg be ix hs (h mod ni_bucket_count ix) Hwf)
    by (apply N.mod_lt; lia).
  cbn [bind].
  rewrite <- (filter_members_positions (ni_bucket_count ix) h hs 0) by lia.
  destruct (bucket_members (ni_bucket_count ix) (h mod ni_bucket_count ix) 0 hs); reflexivity.
Qed.

(* positions really are the exhaustive scan: i is listed iff the i-th hash is h, in increasing order *)
Lemma positions_spec h : forall hs i k,
  In k (positions h i hs) <-> (i <= k /\ nth_error hs (N.to_nat (k - i)) = Some h).
Proof.
  induction hs as [|x r IH]; intros i k; cbn [positions].
  - split; [intros []|]. intros [_ H]. destruct (N.to_nat (k - i)); discriminate.
  - destruct (x =? h) eqn:E; cbn [In]; rewrite IH; split.
    + intros [<-|[Hle Hn]].
      * split; [lia|]. rewrite N.sub_diag. cbn [N.to_nat]. change (N.to_nat 0) with O. cbn. apply N.eqb_eq in E. congruence.
      * split; [lia|]. replace (N.to_nat (k - i)) with (S (N.to_nat (k - (i + 1)))) by lia. exact Hn.
    + intros [Hle Hn]. destruct (N.eq_dec i k) as [->|Hne]; [left; reflexivity|right].
      split; [lia|]. replace (N.to_nat (k - i)) with (S (N.to_nat (k - (i + 1)))) in Hn by lia. exact Hn.
    + intros [Hle Hn]. split; [lia|].
      replace (N.to_nat (k - i)) with (S (N.to_nat (k - (i + 1)))) by lia. exact Hn.
    + intros [Hle Hn]. destruct (N.eq_dec i k) as [->|Hne].
      * rewrite N.sub_diag in Hn. cbn in Hn. inversion Hn. lia.
      * split; [lia|]. replace (N.to_nat (k - i)) with (S (N.to_nat (k - (i + 1)))) in Hn by lia. exact Hn.
Qed.

Lemma positions_sorted h : forall hs i, StronglySorted N.lt (positions h i hs) /\ Forall (fun k => i <= k) (positions h i hs).
Proof.
  induction hs as [|x r IH]; intros i; cbn [positions]; [split; constructor|].
  destruct (IH (i + 1)) as [S1 F1].
  assert (F2 : Forall (fun k => i <= k) (positions h (i + 1) r)).
  { eapply Forall_impl; [|exact F1]. cbn. intros; lia. }
  destruct (x =? h).
  - split.
    + constructor; [exact S1|]. eapply Forall_impl; [|exact F1]. cbn. intros; lia.
    + constructor; [lia|exact F2].
  - split; assumption.
Qed.

(* bucket_count = 0: there is no hash table and every lookup fails as coded *)
Theorem find_by_hash_no_table dbg be ix h :
  ni_bucket_count ix = 0 -> ni_buckets ix = [] ->
  ni_find_by_hash dbg be ix h = Err EUnexpectedEof /\ ni_find_by_bucket dbg be ix 0 = Err EUnexpectedEof.
Proof.
  intros H0 Hb. unfold ni_find_by_hash. rewrite H0. change (0 =? 0) with true. cbv iota.
  assert (E : ni_find_by_bucket dbg be ix 0 = Err EUnexpectedEof).
  { unfold ni_find_by_bucket, bucket_iter_new. rewrite Hb. reflexivity. }
  rewrite E. split; reflexivity.
Qed.

(* ------------------------------------------------------------------ postconditions of the primitive readers *)

Lemma post_read_u8 bs :
  post (fun p => fst p < 256 /\ (length bs = S (length (snd p)))%nat) (read_u8 bs).
Proof. destruct bs as [|b r]; cbn; [exact I|]. split; [apply b2n_lt|reflexivity]. Qed.

Lemma post_read_uleb128 dbg bs :
  post (fun p => fst p < 2 ^ 64 /\ (length (snd p) < length bs)%nat) (read_uleb128 dbg bs).
Proof.
  rewrite read_uleb128_exact. unfold uleb_spec.
  destruct (split_leb bs) as [[enc rest]|] eqn:E.
  - destruct ((length enc <=? 10)%nat && (uval enc <? 2 ^ 64)) eqn:C; [|exact I].
    cbn. split; [lia|].
    pose proof (split_leb_app bs enc rest E) as Happ. pose proof (split_leb_nonempty bs enc rest E) as Hne.
    subst bs. rewrite app_length. lia.
  - destruct (10 <=? length bs)%nat; exact I.
Qed.

Lemma low7_b2n_lt x : x < 256 -> low7 x < 128.
Proof.
  intros H. unfold low7. change 127 with (N.ones 7). rewrite N.land_ones.
  apply N.mod_lt. discriminate.
Qed.

Lemma post_read_uleb128_u16 bs :
  post (fun p => fst p < 2 ^ 16 /\ (length (snd p) < length bs)%nat) (read_uleb128_u16 bs).
Proof.
  unfold read_uleb128_u16.
  eapply post_bind; [apply post_read_u8|]. intros [b0 r0] _ (Hb0 & Hl0). cbn [fst snd] in *.
  destruct (negb (has_cont b0)); [cbn; split; [change (2 ^ 16) with 65536; lia|lia]|].
  eapply post_bind; [apply post_read_u8|]. intros [b1 r1] _ (Hb1 & Hl1). cbn [fst snd] in *.
  pose proof (low7_b2n_lt b0 Hb0) as L0. pose proof (low7_b2n_lt b1 Hb1) as L1.
  assert (Hsh : N.shiftl (low7 b1) 7 = low7 b1 * 128) by (rewrite N.shiftl_mul_pow2; reflexivity).
  assert (Hw : wrap16 (N.shiftl (low7 b1) 7) = N.shiftl (low7 b1) 7).
  { unfold wrap16. apply N.mod_small. rewrite Hsh. change two16 with 65536. lia. }
  rewrite Hw. rewrite lor_shiftl_add by (change (2 ^ 7) with 128; exact L0). rewrite Hsh.
  destruct (negb (has_cont b1)); [cbn; split; [change (2 ^ 16) with 65536; lia|lia]|].
  eapply post_bind; [apply post_read_u8|]. intros [b2 r2] _ (Hb2 & Hl2). cbn [fst snd] in *.
  destruct (3 <? b2) eqn:E3; [exact I|].
  assert (Hs2 : N.shiftl b2 14 = b2 * 16384) by (rewrite N.shiftl_mul_pow2; reflexivity).
  assert (Hw2 : wrap16 (N.shiftl b2 14) = b2 * 16384).
  { unfold wrap16. rewrite Hs2. apply N.mod_small. change two16 with 65536. lia. }
  rewrite Hw2. change two16 with 65536.
  destruct (low7 b0 + low7 b1 * 128 + b2 * 16384 <? 65536) eqn:E; [|lia].
  cbn. split; [change (2 ^ 16) with 65536; lia|lia].
Qed.

(* ------------------------------------------------------------------ abbreviation table: any bytes *)

Lemma post_nattrs_parse : forall fuel bs, (length bs < fuel)%nat ->
  post (fun p => (length (snd p) <= length bs)%nat) (nattrs_parse fuel bs).
Proof.
  induction fuel as [|fuel IH]; intros bs Hf; [lia|]. cbn [nattrs_parse].
  eapply post_bind; [apply post_read_uleb128_u16|]. intros [name r] _ (_ & Hl1). cbn [fst snd] in *.
  eapply post_bind; [apply post_read_uleb128_u16|]. intros [form r'] _ (_ & Hl2). cbn [fst snd] in *.
  destruct ((name =? 0) && (form =? 0)); [cbn; lia|].
  destruct (name =? 0); [exact I|]. destruct (form =? 0); [exact I|].
  eapply post_bind; [apply IH; lia|]. intros [l r''] _ Hl3. cbn in *. lia.
Qed.

Lemma post_nabbrevs_parse dbg : forall fuel bs, (length bs < fuel)%nat ->
  post (fun _ => True) (nabbrevs_parse dbg fuel bs).
Proof.
  induction fuel as [|fuel IH]; intros bs Hf; [lia|]. cbn [nabbrevs_parse].
  destruct bs as [|b0 bs0]; [exact I|]. set (bs := b0 :: bs0) in *.
  eapply post_bind; [apply post_read_uleb128|]. intros [code r] _ (_ & Hl1). cbn [fst snd] in *.
  destruct (code =? 0); [exact I|].
  eapply post_bind; [apply post_read_uleb128_u16|]. intros [tag r1] _ (_ & Hl2). cbn [fst snd] in *.
  destruct (tag =? 0); [exact I|].
  eapply post_bind; [apply post_nattrs_parse; lia|]. intros [attrs r2] _ Hl3. cbn [fst snd] in *.
  eapply post_bind; [apply IH; lia|]. intros; exact I.
Qed.

Lemma post_name_abbrevs dbg bs : post (fun _ => True) (name_abbrevs dbg bs).
Proof. unfold name_abbrevs. apply post_nabbrevs_parse. lia. Qed.

(* ------------------------------------------------------------------ header and index: any bytes *)

Lemma post_read_initial_length be bs :
  post (fun p => fst (fst p) < 2 ^ 64 /\ (length (snd p) < length bs)%nat) (read_initial_length be bs).
Proof.
  unfold read_initial_length.
  eapply post_bind; [apply post_read_un|]. intros [v r] _ (Hv & Hr & Hl). cbn [fst snd] in *.
  assert (Hlr : (length r < length bs)%nat) by (subst r; rewrite skipn_length; lia).
  destruct (v <? 4294967280) eqn:E; [cbn; split; [change (2 ^ 64) with 18446744073709551616; lia|exact Hlr]|].
  destruct (v =? 4294967295); [|exact I].
  eapply post_bind; [apply post_read_un|]. intros [v8 r8] _ (Hv8 & Hr8 & Hl8). cbn [fst snd] in *.
  cbn. split; [exact Hv8|]. subst r8. rewrite skipn_length. lia.
Qed.

Definition nh_wf (h : name_header) : Prop :=
  nh_cu_count h < 2 ^ 32 /\ nh_ltu_count h < 2 ^ 32 /\ nh_ftu_count h < 2 ^ 32 /\
  nh_bucket_count h < 2 ^ 32 /\ nh_name_count h < 2 ^ 32 /\ nh_abbrev_size h < 2 ^ 32.

Lemma post_name_header_parse dbg be off bs :
  post (fun p => nh_wf (fst p) /\ (length (snd p) < length bs)%nat) (name_header_parse dbg be off bs).
Proof.
  unfold name_header_parse.
  eapply post_bind; [apply post_read_initial_length|]. intros [[len f64] r] _ (_ & Hl0). cbn [fst snd] in *.
  eapply post_bind; [apply post_rd_split|]. intros [inp rest] _ (_ & Hrest & _). cbn [fst snd] in *.
  assert (Hlr : (length rest < length bs)%nat) by (subst rest; rewrite skipn_length; lia).
  eapply post_bind; [apply post_read_un|]. intros [version i0] _ _.
  destruct (negb (version =? 5)); [exact I|].
  eapply post_bind; [apply post_rd_skip|]. intros i1 _ _.
  eapply post_bind; [apply post_read_un|]. intros [cu i2] _ (Hcu & _). 
  eapply post_bind; [apply post_read_un|]. intros [ltu i3] _ (Hltu & _).
  eapply post_bind; [apply post_read_un|]. intros [ftu i4] _ (Hftu & _).
  eapply post_bind; [apply post_read_un|]. intros [bc i5] _ (Hbc & _).
  eapply post_bind; [apply post_read_un|]. intros [nc i6] _ (Hnc & _).
  eapply post_bind; [apply post_read_un|]. intros [asz i7] _ (Hasz & _).
  eapply post_bind; [apply post_read_un|]. intros [aug i8] _ (Haug & _).
  cbn [fst snd] in *. change (8 * N.of_nat 4) with 32 in *.
  eapply post_bind with (P := fun _ => True).
  { destruct (0 <? aug); [|exact I].
    eapply post_bind; [apply post_rd_split|]. intros [v i9] _ _.
    assert (H3 : N.land aug 3 <= 4) by (eapply N.le_trans; [apply land_le_r|discriminate]).
    rewrite chk_sub_ok by exact H3. cbn [bind].
    eapply post_bind; [apply post_rd_skip|]. intros; exact I. }
  intros [a i10] _ _. cbn. split; [|exact Hlr]. unfold nh_wf. cbn. tauto.
Qed.

Lemma name_headers_loop_total dbg be total : forall fuel bs,
  (length bs < fuel)%nat -> blen bs <= total ->
  let '(hs, st) := name_headers_loop dbg be fuel total bs in
  st <> SPanic /\ st <> SFuel /\ Forall nh_wf hs.
Proof.
  induction fuel as [|fuel IH]; intros bs Hf Ht; [lia|]. cbn [name_headers_loop].
  destruct bs as [|b0 bs0]; [cbn; repeat split; try discriminate; constructor|].
  set (bs := b0 :: bs0) in *.
  rewrite chk_sub_ok by exact Ht.
  pose proof (post_name_header_parse dbg be (total - blen bs) bs) as P.
  destruct (name_header_parse dbg be (total - blen bs) bs) as [[h rest]| e | |]; cbn in P; try contradiction.
  - cbn [fst snd] in P. destruct P as (Hwf & Hl).
    specialize (IH rest). destruct (name_headers_loop dbg be fuel total rest) as [hs st].
    unfold run_cons. cbn [fst snd].
    unfold bs, blen in *. cbn [length] in *. destruct IH as (H1 & H2 & H3); [lia|lia|].
    repeat split; try assumption. constructor; assumption.
  - cbn. repeat split; try discriminate. constructor.
Qed.

Theorem name_headers_total dbg be bs :
  let '(hs, st) := name_headers dbg be bs in st <> SPanic /\ st <> SFuel /\ Forall nh_wf hs.
Proof. unfold name_headers. apply name_headers_loop_total; [lia|lia]. Qed.

(* NameIndex::new: the slices have the §6.1.1.2 sizes, for any header content *)
Definition ni_wf (ix : name_index) : Prop :=
  let ws := word_size (ni_fmt64 ix) in
  ni_cu_count ix < 2 ^ 32 /\ ni_ltu_count ix < 2 ^ 32 /\ ni_ftu_count ix < 2 ^ 32 /\
  ni_bucket_count ix < 2 ^ 32 /\ ni_name_count ix < 2 ^ 32 /\
  blen (ni_cu_list ix) = ni_cu_count ix * ws /\
  blen (ni_ltu_list ix) = ni_ltu_count ix * ws /\
  blen (ni_ftu_list ix) = ni_ftu_count ix * 8 /\
  blen (ni_buckets ix) = ni_bucket_count ix * 4 /\
  blen (ni_hashes ix) = (if ni_bucket_count ix =? 0 then 0 else ni_name_count ix * 4) /\
  blen (ni_names ix) = ni_name_count ix * ws /\
  blen (ni_entry_offsets ix) = ni_name_count ix * ws.

Theorem post_name_index_new dbg h : nh_wf h -> post ni_wf (name_index_new dbg h).
Proof.
  intros (Hcu & Hltu & Hftu & Hbc & Hnc & Hasz). unfold name_index_new.
  change (2 ^ 32) with 4294967296 in *.
  assert (Hws : word_size (nh_fmt64 h) = 4 \/ word_size (nh_fmt64 h) = 8) by (destruct (nh_fmt64 h); cbn; auto).
  set (ws := word_size (nh_fmt64 h)) in *.
  rewrite !chk_mul_ok by (change (2 ^ 64) with 18446744073709551616; lia). cbn [bind].
  eapply post_bind with (P := fun v => v = (if nh_bucket_count h =? 0 then 0 else nh_name_count h * 4)).
  { destruct (nh_bucket_count h =? 0); [reflexivity|].
    rewrite ?chk_mul_ok by (change (2 ^ 64) with 18446744073709551616; lia). reflexivity. }
  intros hsz _ ->.
  rewrite ?chk_mul_ok by (change (2 ^ 64) with 18446744073709551616; lia). cbn [bind].
  eapply post_bind; [apply post_rd_split|]. intros [cu r1] _ (E1 & _ & L1).
  eapply post_bind; [apply post_rd_split|]. intros [ltu r2] _ (E2 & _ & L2).
  eapply post_bind; [apply post_rd_split|]. intros [ftu r3] _ (E3 & _ & L3).
  eapply post_bind; [apply post_rd_split|]. intros [bk r4] _ (E4 & _ & L4).
  eapply post_bind; [apply post_rd_split|]. intros [hsh r5] _ (E5 & _ & L5).
  eapply post_bind; [apply post_rd_split|]. intros [nm r6] _ (E6 & _ & L6).
  eapply post_bind; [apply post_rd_split|]. intros [eo r7] _ (E7 & _ & L7).
  eapply post_bind; [apply post_rd_split|]. intros [ab r8] _ (E8 & _ & L8).
  cbn [fst snd] in *.
  eapply post_bind; [apply post_name_abbrevs|]. intros abbrevs _ _.
  cbn [post]. unfold ni_wf. cbn. fold ws. change (2 ^ 32) with 4294967296.
  subst cu ltu ftu bk hsh nm eo.
  rewrite !blen_firstn by assumption. repeat split; try assumption; reflexivity.
Qed.

(* ------------------------------------------------------------------ accessors of a parsed index: any bytes *)

Lemma post_read_word f64 be bs :
  post (fun p => fst p < 2 ^ 64 /\ (length (snd p) < length bs)%nat) (read_word f64 be bs).
Proof.
  unfold read_word. destruct f64.
  - eapply post_weaken; [apply post_read_un|]. intros [v r] (Hv & Hr & Hl). cbn [fst snd] in *.
    split; [exact Hv|]. subst r. rewrite skipn_length. lia.
  - eapply post_weaken; [apply post_read_un|]. intros [v r] (Hv & Hr & Hl). cbn [fst snd] in *.
    change (8 * N.of_nat 4) with 32 in Hv.
    split; [change (2 ^ 32) with 4294967296 in Hv; change (2 ^ 64) with 18446744073709551616; lia|].
    subst r. rewrite skipn_length. lia.
Qed.

Lemma post_word_at dbg be f64 tbl i : i < 2 ^ 32 -> post (fun v => v < 2 ^ 64) (word_at dbg be f64 tbl i).
Proof.
  intros Hi. unfold word_at. change (2 ^ 32) with 4294967296 in Hi.
  rewrite chk_mul_ok by (destruct f64; cbn [word_size]; change (2 ^ 64) with 18446744073709551616; lia).
  cbn [bind]. eapply post_bind; [apply post_rd_skip|]. intros r _ _.
  unfold rd_word. eapply post_bind; [apply post_read_word|]. intros [v r'] _ (Hv & _). exact Hv.
Qed.

Lemma post_foreign_type_unit dbg be ix i : i < 2 ^ 32 -> post (fun _ => True) (ni_foreign_type_unit dbg be ix i).
Proof.
  intros Hi. unfold ni_foreign_type_unit. change (2 ^ 32) with 4294967296 in Hi.
  rewrite chk_mul_ok by (change (2 ^ 64) with 18446744073709551616; lia). cbn [bind].
  eapply post_bind; [apply post_rd_skip|]. intros r _ _.
  eapply post_bind; [apply post_read_un|]. intros [v r'] _ _; exact I.
Qed.

Lemma post_type_unit dbg be ix i : i < 2 ^ 32 -> post (fun _ => True) (ni_type_unit dbg be ix i).
Proof.
  intros Hi. unfold ni_type_unit. destruct (ni_ltu_count ix <=? i).
  - eapply post_bind; [apply post_foreign_type_unit; lia|]. intros; exact I.
  - eapply post_bind; [apply post_word_at; exact Hi|]. intros; exact I.
Qed.

(* S3 of DESIGN §8: local + foreign overflows u32 only if the two lists together exceed 16 GiB *)
Theorem type_unit_count_no_panic dbg ix :
  ni_wf ix -> blen (ni_ltu_list ix) + blen (ni_ftu_list ix) < 2 ^ 34 ->
  ni_type_unit_count dbg ix = Ok (ni_ltu_count ix + ni_ftu_count ix).
Proof.
  intros (_ & _ & _ & _ & _ & _ & Hl & Hf & _) Hsz. unfold ni_type_unit_count.
  apply chk_add_ok. rewrite Hl, Hf in Hsz.
  change (2 ^ 34) with 17179869184 in Hsz. change (2 ^ 32) with 4294967296.
  destruct (ni_fmt64 ix); cbn [word_size] in Hsz; lia.
Qed.

Theorem type_unit_count_refuted :
  exists ix, ni_type_unit_count true ix = Panic /\ ni_type_unit_count false ix = Ok 0.
Proof.
  exists {| ni_fmt64 := false; ni_cu_count := 0; ni_ltu_count := 4294967295; ni_ftu_count := 1;
            ni_bucket_count := 0; ni_name_count := 0; ni_cu_list := []; ni_ltu_list := [];
            ni_ftu_list := []; ni_buckets := []; ni_hashes := []; ni_names := [];
            ni_entry_offsets := []; ni_pool := []; ni_abbrevs := [] |}.
  split; reflexivity.
Qed.

(* bucket and hash iteration of any parsed index: no panic (in particular no division by zero),
   termination, and never more items than there are names *)
Lemma post_bucket_iter_new dbg be ix b :
  ni_wf ix -> b < 2 ^ 32 -> post (fun _ => ni_bucket_count ix <> 0) (bucket_iter_new dbg be ix b).
Proof.
  intros (_ & _ & _ & Hbc & Hnc & _ & _ & _ & Hbl & _) Hb. unfold bucket_iter_new.
  change (2 ^ 32) with 4294967296 in *.
  rewrite chk_mul_ok by (change (2 ^ 64) with 18446744073709551616; lia). cbn [bind].
  destruct (N.eq_dec (ni_bucket_count ix) 0) as [E0|E0].
  { (* no hash table: the bucket array is empty and the read fails *)
    assert (Hnil : ni_buckets ix = []).
    { rewrite E0 in Hbl. unfold blen in Hbl. destruct (ni_buckets ix); [reflexivity|cbn in Hbl; lia]. }
    rewrite Hnil. destruct (rd_skip_cases (b * 4) []) as [(H & _)|(H & _)]; rewrite H; cbn [bind]; [|exact I].
    rewrite skipn_nil. exact I. }
  eapply post_bind; [apply post_rd_skip|]. intros r _ _.
  eapply post_bind; [apply post_read_un|]. intros [start r'] _ (Hst & _). cbn [fst] in Hst.
  change (8 * N.of_nat 4) with 32 in Hst. change (2 ^ 32) with 4294967296 in Hst.
  destruct (start =? 0) eqn:Es; [exact E0|].
  rewrite chk_sub_ok by lia. cbn [bind].
  rewrite chk_mul_ok by (change (2 ^ 64) with 18446744073709551616; lia). cbn [bind].
  eapply post_bind; [apply post_rd_skip|]. intros reader _ _. exact E0.
Qed.

Theorem find_by_bucket_total dbg be ix b :
  ni_wf ix -> b < 2 ^ 32 ->
  post (fun o => match o with
                 | None => True
                 | Some (items, st) => st <> SPanic /\ st <> SFuel /\
                                       N.of_nat (length items) <= ni_name_count ix
                 end) (ni_find_by_bucket dbg be ix b).
Proof.
  intros Hwf Hb. unfold ni_find_by_bucket.
  eapply post_bind; [apply (post_bucket_iter_new dbg be ix b Hwf Hb)|].
  intros [[reader idx]|] _ E0; [|exact I]. cbn [post].
  destruct Hwf as (_ & _ & _ & Hbc & Hnc & _).
  pose proof (bucket_loop_total dbg be (ni_bucket_count ix) b (ni_name_count ix) (S (length reader)) reader
                idx E0 Hnc ltac:(lia)) as T.
  destruct (bucket_loop dbg be (S (length reader)) reader idx (ni_name_count ix) b (ni_bucket_count ix))
    as [items st].
  destruct T as (T1 & T2 & T3 & _). repeat split; try assumption. lia.
Qed.

Lemma filter_len_le {A} (f : A -> bool) l : (length (filter f l) <= length l)%nat.
Proof. induction l as [|a l IH]; cbn; [lia|]. destruct (f a); cbn; lia. Qed.

Theorem find_by_hash_total dbg be ix h :
  ni_wf ix -> h < 2 ^ 32 ->
  post (fun p => snd p <> SPanic /\ snd p <> SFuel /\ N.of_nat (length (fst p)) <= ni_name_count ix)
       (ni_find_by_hash dbg be ix h).
Proof.
  intros Hwf Hh. unfold ni_find_by_hash.
  set (b := if ni_bucket_count ix =? 0 then 0 else h mod ni_bucket_count ix).
  assert (Hb : b < 2 ^ 32).
  { unfold b. destruct (ni_bucket_count ix =? 0) eqn:E; [reflexivity|].
    destruct Hwf as (_ & _ & _ & Hbc & _).
    pose proof (N.mod_lt h (ni_bucket_count ix) ltac:(lia)). lia. }
  eapply post_bind; [apply (find_by_bucket_total dbg be ix b Hwf Hb)|].
  intros [[items st]|] _ P; cbn [post fst snd].
  - destruct P as (P1 & P2 & P3). repeat split; try assumption.
    rewrite map_length. pose proof (filter_len_le (fun p : N * N => snd p =? h) items). lia.
  - repeat split; try discriminate. cbn. lia.
Qed.

(* ------------------------------------------------------------------ entry pool: any bytes *)

Lemma post_read_nform dbg be form bs :
  post (fun p => (length (snd p) <= length bs)%nat) (read_nform dbg be form bs).
Proof.
  unfold read_nform.
  assert (U8 : forall (f : N -> nval), post (fun p : nval * list byte => (length (snd p) <= length bs)%nat)
                 (let* (v, r) := read_u8 bs in Ok (f v, r))).
  { intros f. eapply post_bind; [apply post_read_u8|]. intros [v r] _ (_ & Hl). cbn in *. lia. }
  assert (UN : forall n (f : N -> nval), post (fun p : nval * list byte => (length (snd p) <= length bs)%nat)
                 (let* (v, r) := read_un n be bs in Ok (f v, r))).
  { intros n f. eapply post_bind; [apply post_read_un|]. intros [v r] _ (_ & Hr & Hl). cbn in *.
    subst r. rewrite skipn_length. lia. }
  assert (UL : forall (f : N -> nval), post (fun p : nval * list byte => (length (snd p) <= length bs)%nat)
                 (let* (v, r) := read_uleb128 dbg bs in Ok (f v, r))).
  { intros f. eapply post_bind; [apply post_read_uleb128|]. intros [v r] _ (_ & Hl). cbn in *. lia. }
  repeat match goal with
         | |- post _ (if ?c then _ else _) => destruct c
         end;
  try apply U8; try apply UN; try apply UL; try exact I.
  cbn. lia.
Qed.

Lemma post_read_nattrs dbg be : forall specs bs,
  post (fun p => (length (snd p) <= length bs)%nat) (read_nattrs dbg be specs bs).
Proof.
  induction specs as [|[name form] specs IH]; intros bs; [cbn; lia|]. cbn [read_nattrs].
  eapply post_bind; [apply post_read_nform|]. intros [v bs'] _ Hl. cbn [snd] in Hl.
  eapply post_bind; [apply IH|]. intros [l bs''] _ Hl2. cbn in *. lia.
Qed.

Lemma post_nentry_parse dbg be abbrevs off bs :
  post (fun p => (length (snd p) < length bs)%nat) (nentry_parse dbg be abbrevs off bs).
Proof.
  unfold nentry_parse.
  eapply post_bind; [apply post_read_uleb128|]. intros [code r] _ (_ & Hl). cbn [snd] in Hl.
  destruct (code =? 0); [cbn; lia|].
  destruct (nabbrev_get code abbrevs) as [a|]; [|exact I].
  eapply post_bind; [apply post_read_nattrs|]. intros [attrs r'] _ Hl2. cbn in *. lia.
Qed.

Lemma nentries_loop_total dbg be abbrevs end_offset : forall fuel bs,
  (length bs < fuel)%nat -> blen bs <= end_offset ->
  let '(es, st) := nentries_loop dbg be fuel abbrevs end_offset bs in st <> SPanic /\ st <> SFuel.
Proof.
  induction fuel as [|fuel IH]; intros bs Hf Hle; [lia|]. cbn [nentries_loop].
  destruct bs as [|b0 bs0]; [split; discriminate|]. set (bs := b0 :: bs0) in *.
  rewrite chk_sub_ok by exact Hle.
  pose proof (post_nentry_parse dbg be abbrevs (end_offset - blen bs) bs) as P.
  destruct (nentry_parse dbg be abbrevs (end_offset - blen bs) bs) as [[[e|] r]| err | |];
    cbn in P; try contradiction; try (split; discriminate).
  specialize (IH r). destruct (nentries_loop dbg be fuel abbrevs end_offset r) as [es st].
  unfold run_cons. cbn [snd]. unfold bs, blen in *. cbn [length] in *. apply IH; lia.
Qed.

Theorem name_entries_total dbg be ix i :
  i < 2 ^ 32 -> post (fun p => snd p <> SPanic /\ snd p <> SFuel) (ni_name_entries dbg be ix i).
Proof.
  intros Hi. unfold ni_name_entries.
  eapply post_bind; [apply post_word_at; exact Hi|]. intros off _ _.
  eapply post_bind; [apply post_rd_skip|]. intros entries _ (He & _). cbn [post].
  pose proof (nentries_loop_total dbg be (ni_abbrevs ix) (blen (ni_pool ix)) (S (length entries)) entries) as T.
  destruct (nentries_loop dbg be (S (length entries)) (ni_abbrevs ix) (blen (ni_pool ix)) entries) as [es st].
  cbn [snd]. apply T; [lia|]. subst entries. unfold blen. rewrite skipn_length. lia.
Qed.

Theorem name_entry_total dbg be ix off : post (fun _ => True) (ni_name_entry dbg be ix off).
Proof.
  unfold ni_name_entry. eapply post_bind; [apply post_rd_skip|]. intros entries _ _.
  eapply post_bind; [apply post_nentry_parse|]. intros [[e|] r] _ _; exact I.
Qed.

Lemma post_attr_index a : post (fun v => v < 2 ^ 32) (attr_index a).
Proof.
  unfold attr_index. destruct (at_value a); try exact I.
  destruct (v <? two32) eqn:E; [|exact I]. cbn. change two32 with (2 ^ 32) in E. lia.
Qed.

Theorem entry_accessors_total dbg be ix e :
  post (fun _ => True) (ne_compile_unit dbg be ix e) /\
  post (fun _ => True) (ne_type_unit dbg be ix e) /\
  post (fun _ => True) (ne_die_offset e) /\ post (fun _ => True) (ne_parent e) /\
  post (fun _ => True) (ne_type_hash e).
Proof.
  repeat split.
  - unfold ne_compile_unit. destruct (find_attr 1 (ne_attrs e)); [|exact I].
    eapply post_bind; [apply post_attr_index|]. intros i _ Hi.
    eapply post_bind; [apply post_word_at; exact Hi|]. intros; exact I.
  - unfold ne_type_unit. destruct (find_attr 2 (ne_attrs e)); [|exact I].
    eapply post_bind; [apply post_attr_index|]. intros i _ Hi.
    eapply post_bind; [apply post_type_unit; exact Hi|]. intros; exact I.
  - unfold ne_die_offset. destruct (find_attr 3 (ne_attrs e)); [|exact I]. destruct (at_value n); exact I.
  - unfold ne_parent. destruct (find_attr 4 (ne_attrs e)); [|exact I].
    destruct (at_value n) as [| |[|]]; exact I.
  - unfold ne_type_hash. destruct (find_attr 5 (ne_attrs e)); [|exact I]. destruct (at_value n); exact I.
Qed.

(* ------------------------------------------------------------------ layout (DWARF 5 §6.1.1.2) *)

Theorem names_layout dbg h cu ltu ftu bk hsh nm eo ab pool abbrevs :
  nh_wf h ->
  nh_content h = cu ++ ltu ++ ftu ++ bk ++ hsh ++ nm ++ eo ++ ab ++ pool ->
  blen cu = nh_cu_count h * word_size (nh_fmt64 h) ->
  blen ltu = nh_ltu_count h * word_size (nh_fmt64 h) ->
  blen ftu = nh_ftu_count h * 8 ->
  blen bk = nh_bucket_count h * 4 ->
  blen hsh = (if nh_bucket_count h =? 0 then 0 else nh_name_count h * 4) ->
  blen nm = nh_name_count h * word_size (nh_fmt64 h) ->
  blen eo = nh_name_count h * word_size (nh_fmt64 h) ->
  blen ab = nh_abbrev_size h ->
  name_abbrevs dbg ab = Ok abbrevs ->
  name_index_new dbg h =
    Ok {| ni_fmt64 := nh_fmt64 h; ni_cu_count := nh_cu_count h; ni_ltu_count := nh_ltu_count h;
          ni_ftu_count := nh_ftu_count h; ni_bucket_count := nh_bucket_count h;
          ni_name_count := nh_name_count h;
          ni_cu_list := cu; ni_ltu_list := ltu; ni_ftu_list := ftu; ni_buckets := bk; ni_hashes := hsh;
          ni_names := nm; ni_entry_offsets := eo; ni_pool := pool; ni_abbrevs := abbrevs |}.
Proof.
  intros (Hcu & Hltu & Hftu & Hbc & Hnc & Hasz) Hc L1 L2 L3 L4 L5 L6 L7 L8 Hab. unfold name_index_new.
  change (2 ^ 32) with 4294967296 in *.
  assert (Hws : word_size (nh_fmt64 h) = 4 \/ word_size (nh_fmt64 h) = 8) by (destruct (nh_fmt64 h); cbn; auto).
  set (ws := word_size (nh_fmt64 h)) in *.
  rewrite ?chk_mul_ok by (change (2 ^ 64) with 18446744073709551616; lia). cbn [bind].
  assert (Hh : (if nh_bucket_count h =? 0 then Ok 0 else Ok (nh_name_count h * 4))
               = Ok (if nh_bucket_count h =? 0 then 0 else nh_name_count h * 4))
    by (destruct (nh_bucket_count h =? 0); reflexivity).
  rewrite Hh. cbn [bind]. rewrite Hc.
  rewrite (rd_split_app_n _ cu) by (symmetry; exact L1). cbn [bind].
  rewrite (rd_split_app_n _ ltu) by (symmetry; exact L2). cbn [bind].
  rewrite (rd_split_app_n _ ftu) by (symmetry; exact L3). cbn [bind].
  rewrite (rd_split_app_n _ bk) by (symmetry; exact L4). cbn [bind].
  rewrite (rd_split_app_n _ hsh) by (symmetry; exact L5). cbn [bind].
  rewrite (rd_split_app_n _ nm) by (symmetry; exact L6). cbn [bind].
  rewrite (rd_split_app_n _ eo) by (symmetry; exact L7). cbn [bind].
  rewrite (rd_split_app_n _ ab) by (symmetry; exact L8). cbn [bind].
  rewrite Hab. reflexivity.
Qed.

(* ------------------------------------------------------------------ header and index of an encoded name index *)

Lemma blen_enc_words_fmt (fmt64 be : bool) l :
  blen (concat (map (enc_word fmt64 be) l)) = N.of_nat (length l) * word_size fmt64.
Proof.
  unfold blen. induction l as [|a l IH]; [reflexivity|]. cbn [map concat length].
  rewrite app_length. unfold enc_word at 1. destruct fmt64; rewrite enc_un_length; cbn [word_size] in *; lia.
Qed.

Lemma land3 n : N.land n 3 = n mod 4.
Proof. change 3 with (N.ones 2). rewrite N.land_ones. reflexivity. Qed.

Definition names_desc_wf (d : names_desc) : Prop :=
  N.of_nat (length (n_cus d)) < 2 ^ 32 /\ N.of_nat (length (n_ltus d)) < 2 ^ 32 /\
  N.of_nat (length (n_ftus d)) < 2 ^ 32 /\ N.of_nat (length (n_buckets d)) < 2 ^ 32 /\
  n_name_count d < 2 ^ 32 /\ N.of_nat (length (n_abbrev d)) < 2 ^ 32 /\ N.of_nat (length (n_aug d)) < 2 ^ 32.

Definition names_content (be : bool) (d : names_desc) : list byte :=
  concat (map (enc_word (n_fmt64 d) be) (n_cus d))
  ++ concat (map (enc_word (n_fmt64 d) be) (n_ltus d))
  ++ enc_words 8 be (n_ftus d)
  ++ enc_words 4 be (n_buckets d)
  ++ enc_words 4 be (n_hashes d)
  ++ concat (map (enc_word (n_fmt64 d) be) (n_stroffs d))
  ++ concat (map (enc_word (n_fmt64 d) be) (n_entryoffs d))
  ++ n_abbrev d ++ n_pool d.

Theorem names_header_encoded dbg be off d rest :
  names_desc_wf d ->
  blen (enc_names_body be d) < (if n_fmt64 d then 2 ^ 64 else 4294967280) ->
  name_header_parse dbg be off (enc_names be d ++ rest) =
    Ok ({| nh_offset := off; nh_length := blen (enc_names_body be d); nh_fmt64 := n_fmt64 d; nh_version := 5;
           nh_cu_count := N.of_nat (length (n_cus d)); nh_ltu_count := N.of_nat (length (n_ltus d));
           nh_ftu_count := N.of_nat (length (n_ftus d)); nh_bucket_count := N.of_nat (length (n_buckets d));
           nh_name_count := n_name_count d; nh_abbrev_size := N.of_nat (length (n_abbrev d));
           nh_aug := (match n_aug d with [] => None | _ => Some (n_aug d) end);
           nh_content := names_content be d |}, rest).
Proof.
  intros (H1 & H2 & H3 & H4 & H5 & H6 & H7) Hlen. unfold name_header_parse, enc_names. cbv zeta.
  change (N.of_nat (length (enc_names_body be d))) with (blen (enc_names_body be d)).
  set (L := blen (enc_names_body be d)) in *.
  rewrite <- app_assoc. rewrite read_initial_length_enc by exact Hlen. cbn [bind].
  rewrite rd_split_app_n by reflexivity. cbn [bind].
  unfold enc_names_body. rewrite <- ?app_assoc.
  rewrite read_un_enc_small by (change (8 * N.of_nat 2) with 16; reflexivity). cbn [bind].
  change (negb (5 =? 5)) with false. cbv iota.
  rewrite (rd_skip_app_n 2 (enc_un 2 be 0)) by (unfold blen; rewrite enc_un_length; reflexivity). cbn [bind].
  change (8 * N.of_nat 4) with 32.
  do 7 (rewrite read_un_enc_small by (change (8 * N.of_nat 4) with 32; assumption); cbn [bind]).
  fold (names_content be d).
  destruct (n_aug d) as [|a0 aug0] eqn:Eaug.
  - cbn [length]. change (0 <? N.of_nat 0) with false. cbv iota. cbn [bind app repeat].
    change (N.to_nat (aug_padding (N.of_nat 0))) with O. cbn [repeat app]. reflexivity.
  - rewrite <- Eaug in *. set (al := N.of_nat (length (n_aug d))) in *.
    assert (Hpos : 0 <? al = true) by (unfold al; rewrite Eaug; cbn [length]; lia).
    rewrite Hpos.
    rewrite (rd_split_app_n al (n_aug d)) by reflexivity. cbn [bind].
    assert (H3' : N.land al 3 <= 4) by (eapply N.le_trans; [apply land_le_r|discriminate]).
    rewrite chk_sub_ok by exact H3'. cbn [bind].
    assert (Hp : N.land (4 - N.land al 3) 3 = aug_padding al).
    { rewrite !land3. unfold aug_padding. reflexivity. }
    rewrite Hp. rewrite rd_skip_app_n by (rewrite blen_repeat, N2Nat.id; reflexivity). cbn [bind].
    rewrite Eaug. reflexivity.
Qed.

(* end to end: bytes of an encoded name index whose buckets are built from its (grouped) hashes:
   header, NameIndex::new, then find_by_hash = exhaustive scan of the hash array *)
Theorem names_lookup_encoded dbg be off d rest abbrevs :
  names_desc_wf d ->
  blen (enc_names_body be d) < (if n_fmt64 d then 2 ^ 64 else 4294967280) ->
  let bc := N.of_nat (length (n_buckets d)) in
  0 < bc -> n_buckets d = build_buckets bc (n_hashes d) -> grouped bc (n_hashes d) ->
  n_name_count d = N.of_nat (length (n_hashes d)) ->
  length (n_stroffs d) = length (n_hashes d) -> length (n_entryoffs d) = length (n_hashes d) ->
  Forall (fun v => v < 2 ^ 32) (n_hashes d) ->
  name_abbrevs dbg (n_abbrev d) = Ok abbrevs ->
  exists h ix,
    name_header_parse dbg be off (enc_names be d ++ rest) = Ok (h, rest) /\
    name_index_new dbg h = Ok ix /\
    (forall hash, ni_find_by_hash dbg be ix hash = Ok (positions hash 0 (n_hashes d), SDone)) /\
    (forall b, b < bc ->
       ni_find_by_bucket dbg be ix b =
         Ok (match bucket_members bc b 0 (n_hashes d) with [] => None | l => Some (l, SDone) end)).
Proof.
  intros Hwf Hlen bc Hbc Hb Hg Hnc Ls Le Fh Hab.
  pose proof Hwf as (H1 & H2 & H3 & H4 & H5 & H6 & H7).
  eexists. eexists. split; [apply names_header_encoded; assumption|].
  assert (Hbc0 : (bc =? 0) = false) by lia.
  split.
  - apply names_layout with (ab := n_abbrev d) (pool := n_pool d)
      (cu := concat (map (enc_word (n_fmt64 d) be) (n_cus d)))
      (ltu := concat (map (enc_word (n_fmt64 d) be) (n_ltus d)))
      (ftu := enc_words 8 be (n_ftus d)) (bk := enc_words 4 be (n_buckets d))
      (hsh := enc_words 4 be (n_hashes d))
      (nm := concat (map (enc_word (n_fmt64 d) be) (n_stroffs d)))
      (eo := concat (map (enc_word (n_fmt64 d) be) (n_entryoffs d))); cbn [nh_cu_count nh_ltu_count
        nh_ftu_count nh_bucket_count nh_name_count nh_abbrev_size nh_fmt64 nh_content].
    + unfold nh_wf. cbn. tauto.
    + reflexivity.
    + apply blen_enc_words_fmt.
    + apply blen_enc_words_fmt.
    + rewrite blen_enc_words. change (N.of_nat 8) with 8. lia.
    + rewrite blen_enc_words. change (N.of_nat 4) with 4. lia.
    + fold bc. rewrite Hbc0, blen_enc_words, Hnc. change (N.of_nat 4) with 4. lia.
    + rewrite blen_enc_words_fmt, Ls, Hnc. reflexivity.
    + rewrite blen_enc_words_fmt, Le, Hnc. reflexivity.
    + reflexivity.
    + exact Hab.
  - assert (W : names_wf be
        {| ni_fmt64 := n_fmt64 d; ni_cu_count := N.of_nat (length (n_cus d));
           ni_ltu_count := N.of_nat (length (n_ltus d)); ni_ftu_count := N.of_nat (length (n_ftus d));
           ni_bucket_count := N.of_nat (length (n_buckets d)); ni_name_count := n_name_count d;
           ni_cu_list := concat (map (enc_word (n_fmt64 d) be) (n_cus d));
           ni_ltu_list := concat (map (enc_word (n_fmt64 d) be) (n_ltus d));
           ni_ftu_list := enc_words 8 be (n_ftus d); ni_buckets := enc_words 4 be (n_buckets d);
           ni_hashes := enc_words 4 be (n_hashes d);
           ni_names := concat (map (enc_word (n_fmt64 d) be) (n_stroffs d));
           ni_entry_offsets := concat (map (enc_word (n_fmt64 d) be) (n_entryoffs d));
           ni_pool := n_pool d; ni_abbrevs := abbrevs |} (n_hashes d)).
    { unfold names_wf. cbn [ni_bucket_count ni_buckets ni_hashes ni_name_count]. fold bc.
      repeat split; try assumption; try (rewrite Hb at 1; reflexivity); try reflexivity.
      rewrite <- Hnc. exact H5. }
    split.
    + intros hash. apply find_by_hash_wf. exact W.
    + intros b Hlt. apply (find_by_bucket_wf dbg be _ (n_hashes d) b W). exact Hlt.
Qed.

(* ------------------------------------------------------------------ ULEB128 of the minimal encoding *)

Lemma cont_bit_high (b : byte) : 128 <= b2n b -> cont_bit b = true.
Proof. destruct b; vm_compute; intros H; try reflexivity; exfalso; apply H; reflexivity. Qed.
Lemma cont_bit_low (b : byte) : b2n b < 128 -> cont_bit b = false.
Proof. destruct b; vm_compute; intros H; try reflexivity; discriminate. Qed.
Lemma land127_mod (b : byte) : N.land (b2n b) 127 = b2n b mod 128.
Proof. change 127 with (N.ones 7). apply N.land_ones. Qed.

Lemma pow128_succ k : 128 ^ N.succ k = 128 * 128 ^ k.
Proof. apply N.pow_succ_r'. Qed.

Lemma enc_uleb_fuel_spec rest : forall fuel v,
  (0 < fuel)%nat -> v < 128 ^ N.of_nat fuel ->
  split_leb (enc_uleb_fuel fuel v ++ rest) = Some (enc_uleb_fuel fuel v, rest) /\
  uval (enc_uleb_fuel fuel v) = v /\
  (forall k, 1 <= k -> v < 128 ^ k -> N.of_nat (length (enc_uleb_fuel fuel v)) <= k).
Proof.
  induction fuel as [|fuel IH]; intros v Hpos Hv; [lia|].
  - cbn [enc_uleb_fuel]. destruct (v <? 128) eqn:E.
    + cbn [app split_leb uval length].
      rewrite cont_bit_low by (rewrite b2n_n2b_small; lia).
      rewrite land127_mod, b2n_n2b_small by lia. rewrite N.mod_small by lia.
      repeat split; try lia. 
    + assert (Hv' : v / 128 < 128 ^ N.of_nat fuel).
      { rewrite Nat2N.inj_succ, pow128_succ in Hv. apply N.div_lt_upper_bound; lia. }
      assert (Hf : (0 < fuel)%nat).
      { destruct fuel; [|lia]. change (128 ^ N.of_nat 1) with 128 in Hv. lia. }
      destruct (IH (v / 128) Hf Hv') as (Hs & Hu & Hl).
      assert (Hb : b2n (n2b (128 + v mod 128)) = 128 + v mod 128).
      { apply b2n_n2b_small. pose proof (N.mod_lt v 128). lia. }
      cbn [app split_leb uval length]. rewrite cont_bit_high by (rewrite Hb; lia). rewrite Hs.
      split; [reflexivity|]. split.
      * rewrite Hu, land127_mod, Hb.
        replace ((128 + v mod 128) mod 128) with (v mod 128).
        2:{ rewrite <- N.add_mod_idemp_l by lia. change (128 mod 128) with 0. rewrite N.add_0_l.
            rewrite N.mod_mod by lia. reflexivity. }
        pose proof (N.div_mod v 128 ltac:(lia)). lia.
      * intros k Hk Hvk. destruct (N.eq_dec k 1) as [->|Hne]; [change (128 ^ 1) with 128 in Hvk; lia|].
        assert (Hk' : 1 <= k - 1) by lia.
        assert (Hvk' : v / 128 < 128 ^ (k - 1)).
        { replace k with (N.succ (k - 1)) in Hvk by lia. rewrite pow128_succ in Hvk.
          apply N.div_lt_upper_bound; lia. }
        specialize (Hl (k - 1) Hk' Hvk'). lia.
Qed.

Lemma read_uleb128_enc dbg v rest : v < 2 ^ 64 -> read_uleb128 dbg (enc_uleb v ++ rest) = Ok (v, rest).
Proof.
  intros Hv. rewrite read_uleb128_exact. unfold uleb_spec, enc_uleb.
  assert (H19 : v < 128 ^ N.of_nat 19).
  { change (128 ^ N.of_nat 19) with 10889035741470030830827987437816582766592.
    change (2 ^ 64) with 18446744073709551616 in Hv. lia. }
  destruct (enc_uleb_fuel_spec rest 19 v ltac:(lia) H19) as (Hs & Hu & Hl).
  rewrite Hs, Hu.
  assert (Hl10 : N.of_nat (length (enc_uleb_fuel 19 v)) <= 10).
  { apply Hl; [lia|]. change (128 ^ 10) with 1180591620717411303424.
    change (2 ^ 64) with 18446744073709551616 in Hv. lia. }
  destruct ((length (enc_uleb_fuel 19 v) <=? 10)%nat && (v <? 2 ^ 64)) eqn:E; [reflexivity|lia].
Qed.

(* a 16-bit value read back by the u16 reader *)
Lemma read_uleb128_u16_enc v rest : v < 2 ^ 16 -> read_uleb128_u16 (enc_uleb v ++ rest) = Ok (v, rest).
Proof.
  intros Hv. change (2 ^ 16) with 65536 in Hv. unfold enc_uleb, read_uleb128_u16.
  assert (Hc : forall x, x < 256 -> has_cont x = negb (x <? 128)).
  { intros x Hx. rewrite <- (b2n_n2b_small x Hx), <- cont_bit_has_cont.
    destruct (b2n (n2b x) <? 128) eqn:E; [apply cont_bit_low|apply cont_bit_high]; lia. }
  assert (Hl : forall x, x < 256 -> low7 x = x mod 128).
  { intros x Hx. unfold low7. change 127 with (N.ones 7). apply N.land_ones. }
  cbn [enc_uleb_fuel]. destruct (v <? 128) eqn:E1.
  - cbn [app read_u8 bind]. rewrite b2n_n2b_small by lia. rewrite Hc by lia. rewrite E1. reflexivity.
  - pose proof (N.mod_lt v 128 ltac:(lia)) as M1.
    assert (B0 : b2n (n2b (128 + v mod 128)) = 128 + v mod 128) by (apply b2n_n2b_small; lia).
    cbn [app read_u8 bind]. rewrite B0. rewrite Hc by lia.
    destruct (128 + v mod 128 <? 128) eqn:E0; [lia|]. cbn [negb]. cbv iota.
    rewrite Hl by lia.
    replace ((128 + v mod 128) mod 128) with (v mod 128)
      by (rewrite <- N.add_mod_idemp_l by lia; change (128 mod 128) with 0; rewrite N.add_0_l, N.mod_mod; lia).
    destruct (v / 128 <? 128) eqn:E2.
    + cbn [app read_u8 bind]. rewrite b2n_n2b_small by lia. rewrite Hc by lia. rewrite E2. cbn [negb]. cbv iota.
      rewrite Hl by lia. rewrite (N.mod_small (v / 128) 128) by lia.
      assert (Hsh : N.shiftl (v / 128) 7 = v / 128 * 128) by (rewrite N.shiftl_mul_pow2; reflexivity).
      assert (Hw : wrap16 (N.shiftl (v / 128) 7) = v / 128 * 128).
      { unfold wrap16. rewrite Hsh. apply N.mod_small. change two16 with 65536. lia. }
      rewrite Hw. rewrite <- Hsh. rewrite lor_shiftl_add by (change (2 ^ 7) with 128; lia). rewrite Hsh.
      f_equal. f_equal. pose proof (N.div_mod v 128 ltac:(lia)). lia.
    + pose proof (N.mod_lt (v / 128) 128 ltac:(lia)) as M2.
      assert (B1 : b2n (n2b (128 + v / 128 mod 128)) = 128 + v / 128 mod 128) by (apply b2n_n2b_small; lia).
      cbn [app read_u8 bind]. rewrite B1. rewrite Hc by lia.
      destruct (128 + v / 128 mod 128 <? 128) eqn:E3; [lia|]. cbn [negb]. cbv iota.
      rewrite Hl by lia.
      replace ((128 + v / 128 mod 128) mod 128) with (v / 128 mod 128)
        by (rewrite <- N.add_mod_idemp_l by lia; change (128 mod 128) with 0; rewrite N.add_0_l, N.mod_mod; lia).
      assert (H3 : v / 128 / 128 < 4) by (apply N.div_lt_upper_bound; [lia|]; apply N.div_lt_upper_bound; lia).
      destruct (v / 128 / 128 <? 128) eqn:E4; [|lia].
      cbn [app read_u8 bind]. rewrite b2n_n2b_small by lia.
      destruct (3 <? v / 128 / 128) eqn:E5; [lia|].
      assert (Hsh : N.shiftl (v / 128 mod 128) 7 = v / 128 mod 128 * 128) by (rewrite N.shiftl_mul_pow2; reflexivity).
      assert (Hw : wrap16 (N.shiftl (v / 128 mod 128) 7) = v / 128 mod 128 * 128).
      { unfold wrap16. rewrite Hsh. apply N.mod_small. change two16 with 65536. lia. }
      rewrite Hw. rewrite <- Hsh. rewrite lor_shiftl_add by (change (2 ^ 7) with 128; lia). rewrite Hsh.
      assert (Hs2 : N.shiftl (v / 128 / 128) 14 = v / 128 / 128 * 16384) by (rewrite N.shiftl_mul_pow2; reflexivity).
      assert (Hw2 : wrap16 (N.shiftl (v / 128 / 128) 14) = v / 128 / 128 * 16384).
      { unfold wrap16. rewrite Hs2. apply N.mod_small. change two16 with 65536. lia. }
      rewrite Hw2. change two16 with 65536.
      pose proof (N.div_mod v 128 ltac:(lia)). pose proof (N.div_mod (v / 128) 128 ltac:(lia)).
      destruct (v mod 128 + v / 128 mod 128 * 128 + v / 128 / 128 * 16384 <? 65536) eqn:E6; [|lia].
      f_equal. f_equal. lia.
Qed.

(* ------------------------------------------------------------------ abbreviation table of an encoding *)

Definition attr_spec_ok (a : N * N) : Prop := fst a <> 0 /\ snd a <> 0 /\ fst a < 2 ^ 16 /\ snd a < 2 ^ 16.
Definition enc_attr_specs (attrs : list (N * N)) : list byte :=
  concat (map (fun a => enc_uleb (fst a) ++ enc_uleb (snd a)) attrs).

Lemma enc_uleb_nonempty v : (1 <= length (enc_uleb v))%nat.
Proof. unfold enc_uleb. cbn [enc_uleb_fuel]. destruct (v <? 128); cbn [length]; lia. Qed.

Lemma enc_attr_specs_length attrs : (length attrs <= length (enc_attr_specs attrs))%nat.
Proof.
  unfold enc_attr_specs. induction attrs as [|a l IH]; [cbn; lia|]. cbn [map concat length].
  rewrite !app_length. pose proof (enc_uleb_nonempty (fst a)). lia.
Qed.

Lemma nattrs_parse_enc rest : forall attrs fuel,
  Forall attr_spec_ok attrs -> (length attrs < fuel)%nat ->
  nattrs_parse fuel (enc_attr_specs attrs ++ x00 :: x00 :: rest) = Ok (attrs, rest).
Proof.
  induction attrs as [|[n f] attrs IH]; intros fuel F Hf.
  - destruct fuel as [|fuel]; [lia|]. reflexivity.
  - destruct fuel as [|fuel]; [cbn in Hf; lia|]. cbn [nattrs_parse].
    inversion F as [|? ? (Hn & Hfm & Hn16 & Hf16) F']; subst. cbn [fst snd] in *.
    unfold enc_attr_specs. cbn [map concat fst snd]. rewrite <- !app_assoc.
    rewrite read_uleb128_u16_enc by exact Hn16. cbn [bind].
    rewrite read_uleb128_u16_enc by exact Hf16. cbn [bind].
    destruct (n =? 0) eqn:E1; [lia|]. destruct (f =? 0) eqn:E2; [lia|]. cbn [andb].
    fold (enc_attr_specs attrs). rewrite (IH fuel F') by (cbn in Hf; lia). reflexivity.
Qed.

Definition abbrev_ok (a : nabbrev) : Prop :=
  na_code a <> 0 /\ na_code a < 2 ^ 64 /\ na_tag a <> 0 /\ na_tag a < 2 ^ 16 /\ Forall attr_spec_ok (na_attrs a).
Definition enc_abbrevs (l : list nabbrev) : list byte :=
  concat (map (fun a => enc_nabbrev (na_code a) (na_tag a) (na_attrs a)) l).

Lemma enc_abbrevs_length l : (length l <= length (enc_abbrevs l))%nat.
Proof.
  unfold enc_abbrevs. induction l as [|a l IH]; [cbn; lia|]. cbn [map concat length].
  rewrite app_length.
  assert (H : (1 <= length (enc_nabbrev (na_code a) (na_tag a) (na_attrs a)))%nat).
  { unfold enc_nabbrev. rewrite !app_length. pose proof (enc_uleb_nonempty (na_code a)). lia. }
  lia.
Qed.

(* the table ends at its end or at a zero code; whatever follows the zero is ignored *)
Lemma nabbrevs_parse_enc dbg tail : (tail = [] \/ exists junk, tail = x00 :: junk) ->
  forall l fuel, Forall abbrev_ok l -> (length l < fuel)%nat ->
  nabbrevs_parse dbg fuel (enc_abbrevs l ++ tail) = Ok l.
Proof.
  intros Htail. induction l as [|a l IH]; intros fuel F Hf.
  - destruct fuel as [|fuel]; [lia|]. cbn [enc_abbrevs map concat app nabbrevs_parse].
    destruct Htail as [->|(junk & ->)]; reflexivity.
  - destruct fuel as [|fuel]; [cbn in Hf; lia|].
    inversion F as [|? ? (Hc & Hc64 & Ht & Ht16 & Fa) F']; subst.
    unfold enc_abbrevs. cbn [map concat]. fold (enc_abbrevs l). unfold enc_nabbrev. rewrite <- !app_assoc.
    cbn [nabbrevs_parse].
    destruct (enc_uleb (na_code a) ++ enc_uleb (na_tag a) ++
              concat (map (fun a0 : N * N => enc_uleb (fst a0) ++ enc_uleb (snd a0)) (na_attrs a)) ++
              [x00; x00] ++ enc_abbrevs l ++ tail) as [|b0 l0] eqn:El.
    { exfalso. apply (f_equal (@length byte)) in El. rewrite app_length in El.
      pose proof (enc_uleb_nonempty (na_code a)). cbn [length] in El. lia. }
    rewrite <- El. clear El b0 l0.
    rewrite read_uleb128_enc by exact Hc64. cbn [bind].
    destruct (na_code a =? 0) eqn:E0; [lia|].
    rewrite read_uleb128_u16_enc by exact Ht16. cbn [bind].
    destruct (na_tag a =? 0) eqn:E1; [lia|].
    fold (enc_attr_specs (na_attrs a)). cbn [app].
    rewrite nattrs_parse_enc; [|exact Fa|].
    2:{ rewrite app_length. pose proof (enc_attr_specs_length (na_attrs a)). lia. }
    cbn [bind]. rewrite (IH fuel F') by (cbn in Hf; lia). cbn [bind].
    destruct a; reflexivity.
Qed.

Theorem name_abbrevs_encoded dbg l tail :
  (tail = [] \/ exists junk, tail = x00 :: junk) -> Forall abbrev_ok l ->
  name_abbrevs dbg (enc_abbrevs l ++ tail) = Ok l.
Proof.
  intros Ht F. unfold name_abbrevs. apply nabbrevs_parse_enc; [exact Ht|exact F|].
  rewrite app_length. pose proof (enc_abbrevs_length l). lia.
Qed.

(* ------------------------------------------------------------------ entries of an encoding *)

Definition enc_nval (be : bool) (form : N) (v : nval) : list byte :=
  match v with
  | NVFlag b => if form =? 25 then [] else [n2b (if b then 1 else 0)]
  | NVUnsigned x =>
      if form =? 11 then [n2b x] else if form =? 5 then enc_un 2 be x else if form =? 6 then enc_un 4 be x
      else if form =? 7 then enc_un 8 be x else enc_uleb x
  | NVOffset x =>
      if form =? 17 then [n2b x] else if form =? 18 then enc_un 2 be x else if form =? 19 then enc_un 4 be x
      else if form =? 20 then enc_un 8 be x else enc_uleb x
  end.
(* which values a form can carry *)
Definition nval_ok (form : N) (v : nval) : Prop :=
  match v with
  | NVFlag b => form = 12 \/ (form = 25 /\ b = true)
  | NVUnsigned x => (form = 11 /\ x < 2 ^ 8) \/ (form = 5 /\ x < 2 ^ 16) \/ (form = 6 /\ x < 2 ^ 32) \/
                    (form = 7 /\ x < 2 ^ 64) \/ (form = 15 /\ x < 2 ^ 64)
  | NVOffset x => (form = 17 /\ x < 2 ^ 8) \/ (form = 18 /\ x < 2 ^ 16) \/ (form = 19 /\ x < 2 ^ 32) \/
                  (form = 20 /\ x < 2 ^ 64) \/ (form = 21 /\ x < 2 ^ 64)
  end.

Lemma read_nform_enc dbg be form v rest :
  nval_ok form v -> read_nform dbg be form (enc_nval be form v ++ rest) = Ok (v, rest).
Proof.
  destruct v as [x|x|b]; cbn [nval_ok enc_nval]; intros H.
  - destruct H as [(-> & Hx)|[(-> & Hx)|[(-> & Hx)|[(-> & Hx)|(-> & Hx)]]]]; unfold read_nform;
      cbn [N.eqb Pos.eqb app].
    + cbn [read_u8 bind]. rewrite b2n_n2b_small by exact Hx. reflexivity.
    + rewrite read_un_enc_small by exact Hx. reflexivity.
    + rewrite read_un_enc_small by exact Hx. reflexivity.
    + rewrite read_un_enc_small by exact Hx. reflexivity.
    + rewrite read_uleb128_enc by exact Hx. reflexivity.
  - destruct H as [(-> & Hx)|[(-> & Hx)|[(-> & Hx)|[(-> & Hx)|(-> & Hx)]]]]; unfold read_nform;
      cbn [N.eqb Pos.eqb app].
    + cbn [read_u8 bind]. rewrite b2n_n2b_small by exact Hx. reflexivity.
    + rewrite read_un_enc_small by exact Hx. reflexivity.
    + rewrite read_un_enc_small by exact Hx. reflexivity.
    + rewrite read_un_enc_small by exact Hx. reflexivity.
    + rewrite read_uleb128_enc by exact Hx. reflexivity.
  - destruct H as [->|(-> & ->)]; unfold read_nform; cbn [N.eqb Pos.eqb app].
    + cbn [read_u8 bind]. destruct b; reflexivity.
    + reflexivity.
Qed.

Definition enc_nattrs (be : bool) (attrs : list nattr) : list byte :=
  concat (map (fun a => enc_nval be (at_form a) (at_value a)) attrs).
Definition spec_of (a : nattr) : N * N := (at_name a, at_form a).

Lemma read_nattrs_enc dbg be rest : forall attrs,
  Forall (fun a => nval_ok (at_form a) (at_value a)) attrs ->
  read_nattrs dbg be (map spec_of attrs) (enc_nattrs be attrs ++ rest) = Ok (attrs, rest).
Proof.
  induction attrs as [|a attrs IH]; intros F; [reflexivity|].
  inversion F as [|? ? Ha F']; subst. cbn [map read_nattrs spec_of].
  unfold enc_nattrs. cbn [map concat]. rewrite <- app_assoc.
  rewrite read_nform_enc by exact Ha. cbn [bind]. fold (enc_nattrs be attrs). rewrite (IH F'). cbn [bind].
  destruct a; reflexivity.
Qed.

(* one entry: abbreviation code then the attribute values in the abbreviation's order *)
Definition enc_nentry (be : bool) (code : N) (attrs : list nattr) : list byte :=
  enc_uleb code ++ enc_nattrs be attrs.

Theorem nentry_parse_encoded dbg be abbrevs a off code attrs rest :
  code <> 0 -> code < 2 ^ 64 -> nabbrev_get code abbrevs = Some a ->
  na_attrs a = map spec_of attrs -> Forall (fun x => nval_ok (at_form x) (at_value x)) attrs ->
  nentry_parse dbg be abbrevs off (enc_nentry be code attrs ++ rest) =
    Ok (Some {| ne_offset := off; ne_code := code; ne_tag := na_tag a; ne_attrs := attrs |}, rest).
Proof.
  intros Hc Hc64 Hget Hsp F. unfold nentry_parse, enc_nentry. rewrite <- app_assoc.
  rewrite read_uleb128_enc by exact Hc64. cbn [bind].
  destruct (code =? 0) eqn:E; [lia|]. rewrite Hget, Hsp.
  rewrite read_nattrs_enc by exact F. reflexivity.
Qed.

(* a series of entries ends at a zero code; each entry carries its offset in the pool *)
Definition entry_ok (abbrevs : list nabbrev) (e : N * list nattr) : Prop :=
  fst e <> 0 /\ fst e < 2 ^ 64 /\
  (exists a, nabbrev_get (fst e) abbrevs = Some a /\ na_attrs a = map spec_of (snd e)) /\
  Forall (fun x => nval_ok (at_form x) (at_value x)) (snd e).
Definition tag_of (abbrevs : list nabbrev) (code : N) : N :=
  match nabbrev_get code abbrevs with Some a => na_tag a | None => 0 end.
Fixpoint series_bytes (be : bool) (es : list (N * list nattr)) : list byte :=
  match es with [] => [] | e :: r => enc_nentry be (fst e) (snd e) ++ series_bytes be r end.
Fixpoint series_entries (be : bool) (abbrevs : list nabbrev) (end_offset : N) (es : list (N * list nattr))
         (tail : list byte) : list nentry :=
  match es with
  | [] => []
  | e :: r =>
      {| ne_offset := end_offset - blen (series_bytes be (e :: r) ++ tail); ne_code := fst e;
         ne_tag := tag_of abbrevs (fst e); ne_attrs := snd e |} :: series_entries be abbrevs end_offset r tail
  end.

Theorem nentries_encoded dbg be abbrevs end_offset junk : forall es fuel,
  Forall (entry_ok abbrevs) es -> (length es < fuel)%nat ->
  blen (series_bytes be es ++ x00 :: junk) <= end_offset ->
  nentries_loop dbg be fuel abbrevs end_offset (series_bytes be es ++ x00 :: junk)
  = (series_entries be abbrevs end_offset es (x00 :: junk), SDone).
Proof.
  induction es as [|[code attrs] es IH]; intros fuel F Hf Hle.
  - destruct fuel as [|fuel]; [lia|]. cbn [series_bytes app nentries_loop].
    rewrite chk_sub_ok by exact Hle. unfold nentry_parse.
    change (x00 :: junk) with (enc_uleb 0 ++ junk). rewrite read_uleb128_enc by reflexivity. reflexivity.
  - destruct fuel as [|fuel]; [cbn in Hf; lia|].
    inversion F as [|? ? (Hc & Hc64 & (a & Hget & Hsp) & Fa) F']; subst. cbn [fst snd] in *.
    cbn [nentries_loop].
    destruct (series_bytes be ((code, attrs) :: es) ++ x00 :: junk) as [|b0 l0] eqn:El.
    { exfalso. apply (f_equal (@length byte)) in El. cbn [series_bytes fst snd] in El.
      unfold enc_nentry in El. rewrite !app_length in El. cbn [length] in El. pose proof (enc_uleb_nonempty code). lia. }
    rewrite <- El in *. clear El b0 l0. rewrite chk_sub_ok by exact Hle.
    cbn [series_bytes fst snd] in *. rewrite <- app_assoc in *.
    rewrite (nentry_parse_encoded dbg be abbrevs a _ code attrs _ Hc Hc64 Hget Hsp Fa).
    rewrite (IH fuel F') by (try (cbn in Hf; lia); rewrite blen_app in Hle; lia).
    unfold run_cons. cbn [fst snd series_entries series_bytes]. unfold tag_of. rewrite Hget.
    rewrite <- app_assoc. reflexivity.
Qed.

(* ------------------------------------------------------------------ CU / TU lists: local then foreign *)

Lemma enc_word_words (f64 be : bool) l :
  concat (map (enc_word f64 be) l) = enc_words (if f64 then 8 else 4) be l.
Proof. unfold enc_words, enc_word. destruct f64; reflexivity. Qed.

Lemma word_at_enc dbg be (f64 : bool) l (i : nat) v :
  nth_error l i = Some v -> v < (if f64 then 2 ^ 64 else 2 ^ 32) -> N.of_nat i < 2 ^ 32 ->
  word_at dbg be f64 (concat (map (enc_word f64 be) l)) (N.of_nat i) = Ok v.
Proof.
  intros Hn Hv Hi. unfold word_at. change (2 ^ 32) with 4294967296 in Hi.
  rewrite chk_mul_ok by (destruct f64; cbn [word_size]; change (2 ^ 64) with 18446744073709551616; lia).
  cbn [bind]. rewrite enc_word_words.
  destruct (word_at_words (if f64 then 8 else 4)%nat be l [] i v Hn) as (r & Hr & r' & Hr').
  { destruct f64; [change (8 * N.of_nat 8) with 64|change (8 * N.of_nat 4) with 32]; exact Hv. }
  rewrite app_nil_r in Hr.
  replace (N.of_nat i * word_size f64) with (N.of_nat i * N.of_nat (if f64 then 8 else 4)%nat)
    by (destruct f64; reflexivity).
  rewrite Hr. cbn [bind]. unfold rd_word, read_word. destruct f64; rewrite Hr'; reflexivity.
Qed.

Theorem type_unit_split dbg be ix (ltus ftus : list N) :
  ni_ltu_list ix = concat (map (enc_word (ni_fmt64 ix) be) ltus) ->
  ni_ftu_list ix = enc_words 8 be ftus ->
  ni_ltu_count ix = N.of_nat (length ltus) -> ni_ftu_count ix = N.of_nat (length ftus) ->
  N.of_nat (length ltus) + N.of_nat (length ftus) < 2 ^ 32 ->
  Forall (fun v => v < (if ni_fmt64 ix then 2 ^ 64 else 2 ^ 32)) ltus -> Forall (fun v => v < 2 ^ 64) ftus ->
  forall i : nat, N.of_nat i < 2 ^ 32 ->
    ni_type_unit dbg be ix (N.of_nat i) =
      match nth_error ltus i with
      | Some off => Ok (inl off)
      | None => match nth_error ftus (i - length ltus) with
                | Some sig => Ok (inr sig)
                | None => Err EUnexpectedEof
                end
      end.
Proof.
  intros El Ef Cl Cf Hsum Fl Ff i Hi32. unfold ni_type_unit at 1. rewrite Cl.
  destruct (nth_error ltus i) as [off|] eqn:En.
  - assert (Hi : (i < length ltus)%nat) by (apply nth_error_Some; congruence).
    destruct (N.of_nat (length ltus) <=? N.of_nat i) eqn:E; [lia|].
    unfold ni_local_type_unit. rewrite El.
    rewrite (word_at_enc dbg be (ni_fmt64 ix) ltus i off En); [reflexivity| |lia].
    rewrite Forall_forall in Fl. apply Fl. eapply nth_error_In; exact En.
  - apply nth_error_None in En.
    destruct (N.of_nat (length ltus) <=? N.of_nat i) eqn:E; [|lia].
    destruct (nth_error ftus (i - length ltus)) as [sig|] eqn:Ef'.
    + assert (Hi : (i - length ltus < length ftus)%nat) by (apply nth_error_Some; congruence).
      unfold ni_foreign_type_unit. change (2 ^ 32) with 4294967296 in Hsum.
      rewrite chk_mul_ok by (change (2 ^ 64) with 18446744073709551616; lia). cbn [bind].
      destruct (word_at_words 8 be ftus [] (i - length ltus) sig Ef') as (r & Hr & r' & Hr').
      { change (8 * N.of_nat 8) with 64. rewrite Forall_forall in Ff. apply Ff. eapply nth_error_In; exact Ef'. }
      rewrite app_nil_r in Hr. rewrite Ef.
      replace ((N.of_nat i - N.of_nat (length ltus)) * 8) with (N.of_nat (i - length ltus) * N.of_nat 8)
        by (change (N.of_nat 8) with 8; lia).
      rewrite Hr. cbn [bind]. rewrite Hr'. reflexivity.
    + apply nth_error_None in Ef'.
      unfold ni_foreign_type_unit. change (2 ^ 32) with 4294967296 in *.
      rewrite chk_mul_ok by (change (2 ^ 64) with 18446744073709551616; lia). cbn [bind].
      rewrite Ef.
      destruct (rd_skip_cases ((N.of_nat i - N.of_nat (length ltus)) * 8) (enc_words 8 be ftus))
        as [(Hs & Hle)|(Hs & _)]; rewrite Hs; cbn [bind]; [|reflexivity].
      rewrite blen_enc_words in Hle. change (N.of_nat 8) with 8 in Hle.
      rewrite read_un_eof; [reflexivity|].
      rewrite skipn_length, enc_words_length. lia.
Qed.
