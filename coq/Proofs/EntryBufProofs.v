(* Proofs/EntryBufProofs.v — lemmas about Model/EntryBuf.v (reused entry buffers, cursor cache,
   EntriesTree re-rooting, clones). *)
From Coq Require Import List NArith ZArith Bool Lia.
From Coq.Strings Require Import Byte.
Require Import GV.Base.Res GV.Base.Byt GV.Base.Ints GV.Model.Leb GV.Model.Prim GV.Spec.FormSpec
               GV.Model.Attr GV.Spec.Forest GV.Model.AbbrevRd GV.Model.DieRd GV.Model.EntryBuf.
Import ListNotations.
Local Open Scope N_scope.

(* ---------- A: the buffer version of read_entry agrees with the pure one of DieRd ---------- *)

Lemma combine_snoc {A B} (l1 : list A) (l2 : list B) a b :
  length l1 = length l2 -> combine (l1 ++ [a]) (l2 ++ [b]) = combine l1 l2 ++ [(a, b)].
Proof.
  revert l2. induction l1 as [|x l1 IH]; intros [|y l2] H; cbn in *; try discriminate; auto.
  f_equal. apply IH. lia.
Qed.

Lemma read_attrs_into_spec dbg e : forall specs bs acc,
  match read_attrs_into dbg e specs bs acc, read_attributes dbg e specs bs with
  | (l, Ok rest), Ok (vs, rest') => rest = rest' /\ l = acc ++ combine specs vs /\ length vs = length specs
  | (l, Err x), Err y => x = y /\ exists k vs, l = acc ++ combine (firstn k specs) vs
  | (_, Panic), Panic => True
  | (_, OutOfFuel), OutOfFuel => True
  | _, _ => False
  end.
Proof.
  induction specs as [|s t IH]; intros bs acc; cbn [read_attrs_into read_attributes].
  - repeat split; auto. rewrite app_nil_r. reflexivity.
  - destruct (parse_attribute dbg e s bs) as [[v r]|x| |]; cbn [bind]; auto.
    + specialize (IH r (acc ++ [(s, v)])).
      destruct (read_attrs_into dbg e t r (acc ++ [(s, v)])) as [l [rest|x| |]];
        destruct (read_attributes dbg e t r) as [[vs rest']|y| |]; cbn [bind]; try contradiction; auto.
      * destruct IH as (-> & -> & Hl). repeat split; auto.
        -- rewrite <- app_assoc. reflexivity.
        -- cbn. lia.
      * destruct IH as (-> & k & vs & ->). split; auto.
        exists (S k), (v :: vs). rewrite <- app_assoc. reflexivity.
    + split; auto. exists O, []. cbn. rewrite app_nil_r. reflexivity.
Qed.

Theorem read_entry_buf_agrees dbg e tbl r b :
  match read_entry_buf dbg e tbl r b with
  | RdOk k b' r' => read_entry dbg e tbl r = Ok (k, b', r')
  | RdErr x _ _ _ => read_entry dbg e tbl r = Err x
  | RdPanic => read_entry dbg e tbl r = Panic
  | RdFuel => read_entry dbg e tbl r = OutOfFuel
  end.
Proof.
  unfold read_entry_buf, read_entry, read_abbreviation, read_attrs.
  destruct (next_offset dbg r) as [off|x| |]; cbn [bind]; auto.
  destruct (read_uleb128 dbg (r_in r)) as [[code rest]|x| |]; cbn [bind]; auto.
  destruct (code =? 0).
  - destruct (chk_s 64 dbg (r_depth r - 1)) as [d|x| |]; cbn [bind]; auto.
  - destruct (tbl_get tbl code) as [a|]; cbn [bind]; auto.
    destruct (if ab_children a then chk_s 64 dbg (r_depth r + 1) else Ok (r_depth r)) as [d|x| |];
      cbn [bind r_in r_end r_depth]; auto.
    pose proof (read_attrs_into_spec dbg e (ab_specs a) rest []) as H.
    destruct (read_attrs_into dbg e (ab_specs a) rest []) as [l [rest'|x| |]];
      destruct (read_attributes dbg e (ab_specs a) rest) as [[vs rest2]|y| |]; cbn [bind]; try contradiction; auto.
    + destruct H as (-> & -> & _). reflexivity.
    + destruct H as (-> & _). reflexivity.
Qed.

(* ---------- B: what a read returns does not depend on what the buffer held ---------- *)

Lemma read_entry_buf_indep dbg e tbl r b1 b2 :
  match read_entry_buf dbg e tbl r b1, read_entry_buf dbg e tbl r b2 with
  | RdOk k1 c1 r1, RdOk k2 c2 r2 => k1 = k2 /\ c1 = c2 /\ r1 = r2
  | RdErr x1 _ e1 d1, RdErr x2 _ e2 d2 => x1 = x2 /\ e1 = e2 /\ d1 = d2
  | RdPanic, RdPanic => True
  | RdFuel, RdFuel => True
  | _, _ => False
  end.
Proof.
  unfold read_entry_buf.
  destruct (next_offset dbg r) as [off|x| |]; auto.
  destruct (read_uleb128 dbg (r_in r)) as [[code rest]|x| |]; auto.
  destruct (code =? 0).
  - destruct (chk_s 64 dbg (r_depth r - 1)) as [d|x| |]; auto.
  - destruct (tbl_get tbl code) as [a|]; auto.
    destruct (if ab_children a then chk_s 64 dbg (r_depth r + 1) else Ok (r_depth r)) as [d|x| |]; auto.
    destruct (read_attrs_into dbg e (ab_specs a) rest []) as [l [rest'|x| |]]; auto.
Qed.

(* a read never changes the end offset of the reader *)
Lemma read_entry_buf_end dbg e tbl r b :
  match read_entry_buf dbg e tbl r b with
  | RdOk _ _ r' => r_end r' = r_end r
  | RdErr _ _ en _ => en = r_end r
  | _ => True
  end.
Proof.
  unfold read_entry_buf.
  destruct (next_offset dbg r) as [off|x| |]; auto.
  destruct (read_uleb128 dbg (r_in r)) as [[code rest]|x| |]; auto.
  destruct (code =? 0).
  - destruct (chk_s 64 dbg (r_depth r - 1)) as [d|x| |]; auto.
  - destruct (tbl_get tbl code) as [a|]; auto.
    destruct (if ab_children a then chk_s 64 dbg (r_depth r + 1) else Ok (r_depth r)) as [d|x| |]; auto.
    destruct (read_attrs_into dbg e (ab_specs a) rest []) as [l [rest'|x| |]]; auto.
Qed.

(* ---------- C: a raw reader with one reused buffer ---------- *)

Lemma rstep_indep dbg h tbl o s1 s2 :
  rs_rd s1 = rs_rd s2 ->
  rs_rd (fst (rstep dbg h tbl s1 o)) = rs_rd (fst (rstep dbg h tbl s2 o)) /\
  clean (snd (rstep dbg h tbl s1 o)) = clean (snd (rstep dbg h tbl s2 o)).
Proof.
  intros Hr. destruct s1 as [rd1 b1], s2 as [rd2 b2]. cbn [rs_rd] in Hr. subst rd2.
  destruct o; cbn [rstep rs_rd rs_buf].
  - (* read *)
    destruct rd1 as [r|en d]; [|split; reflexivity].
    pose proof (read_entry_buf_indep dbg (u_enc h) tbl r b1 b2) as H.
    destruct (read_entry_buf dbg (u_enc h) tbl r b1) as [k1 c1 r1|x1 c1 e1 d1| |];
      destruct (read_entry_buf dbg (u_enc h) tbl r b2) as [k2 c2 r2|x2 c2 e2 d2| |]; try contradiction;
      cbn [fst snd rs_rd clean].
    + destruct H as (-> & -> & ->). split; reflexivity.
    + destruct H as (-> & -> & ->). split; reflexivity.
    + split; reflexivity.
    + split; reflexivity.
  - (* skip *)
    destruct rd1 as [r|en d]; [|split; reflexivity].
    destruct (read_abbreviation dbg tbl r) as [[[a|] r1]|x| |]; cbn [fst snd rs_rd]; try (split; reflexivity).
    destruct (skip_attributes dbg (u_enc h) (ab_specs a) (r_in r1)) as [rest|x| |]; cbn [fst snd rs_rd];
      split; reflexivity.
  - (* reopen *)
    destruct (entries_raw dbg h (Some off)) as [r|x| |]; cbn [fst snd rs_rd]; split; reflexivity.
Qed.

Theorem buf_history_independent_thm dbg h tbl : forall ops s1 s2,
  rs_rd s1 = rs_rd s2 ->
  map clean (rrun dbg h tbl ops s1) = map clean (rrun dbg h tbl ops s2).
Proof.
  induction ops as [|o ops IH]; intros s1 s2 Hr; [reflexivity|].
  cbn [rrun]. pose proof (rstep_indep dbg h tbl o s1 s2 Hr) as (H1 & H2).
  destruct (rstep dbg h tbl s1 o) as [s1' o1]. destruct (rstep dbg h tbl s2 o) as [s2' o2].
  cbn [fst snd map] in *. rewrite H2. f_equal. apply IH. exact H1.
Qed.

Theorem buf_equals_fresh_thm dbg h tbl : forall ops s1 s2,
  rs_rd s1 = rs_rd s2 ->
  map clean (rrun dbg h tbl ops s1) = map clean (rrun_fresh dbg h tbl ops s2).
Proof.
  induction ops as [|o ops IH]; intros s1 s2 Hr; [reflexivity|].
  cbn [rrun rrun_fresh].
  pose proof (rstep_indep dbg h tbl o s1 (fresh_buf s2) Hr) as (H1 & H2).
  destruct (rstep dbg h tbl s1 o) as [s1' o1]. destruct (rstep dbg h tbl (fresh_buf s2) o) as [s2' o2].
  cbn [fst snd map] in *. rewrite H2. f_equal. apply IH. exact H1.
Qed.

(* a successful read leaves exactly the same buffer whatever it held before *)
Theorem read_ok_overwrites dbg e tbl r b1 b2 k c r' :
  read_entry_buf dbg e tbl r b1 = RdOk k c r' -> read_entry_buf dbg e tbl r b2 = RdOk k c r'.
Proof.
  intros H. pose proof (read_entry_buf_indep dbg e tbl r b1 b2) as Hi. rewrite H in Hi.
  destruct (read_entry_buf dbg e tbl r b2); try contradiction. destruct Hi as (-> & -> & ->). reflexivity.
Qed.

(* ---------- D: the cursor's cached entry does not influence next_entry / next_dfs ---------- *)

Definition is_crash {A} (r : res A) : bool := match r with Panic | OutOfFuel => true | _ => false end.

Lemma next_entry_buf_indep dbg e tbl c1 c2 :
  c_raw c1 = c_raw c2 ->
  fst (next_entry_buf dbg e tbl c1) = fst (next_entry_buf dbg e tbl c2) /\
  c_raw (snd (next_entry_buf dbg e tbl c1)) = c_raw (snd (next_entry_buf dbg e tbl c2)) /\
  (is_crash (fst (next_entry_buf dbg e tbl c1)) = false ->
   current (snd (next_entry_buf dbg e tbl c1)) = current (snd (next_entry_buf dbg e tbl c2))) /\
  (fst (next_entry_buf dbg e tbl c1) = Ok true ->
   snd (next_entry_buf dbg e tbl c1) = snd (next_entry_buf dbg e tbl c2)).
Proof.
  intros Hr. destruct c1 as [r b1], c2 as [r2 b2]. cbn [c_raw] in Hr. subst r2.
  unfold next_entry_buf. cbn [c_raw c_cur].
  destruct (raw_is_empty r).
  - cbn [fst snd c_raw]. split; [reflexivity|]. split; [reflexivity|]. split; [reflexivity|].
    intros X; discriminate X.
  - pose proof (read_entry_buf_indep dbg e tbl r b1 b2) as H.
    destruct (read_entry_buf dbg e tbl r b1) as [k1 d1 r1|x1 d1 e1 z1| |];
      destruct (read_entry_buf dbg e tbl r b2) as [k2 d2 r2|x2 d2 e2 z2| |]; try contradiction;
      cbn [fst snd c_raw].
    + destruct H as (-> & -> & ->). repeat split; auto.
    + destruct H as (-> & -> & ->). split; [reflexivity|]. split; [reflexivity|]. split; [reflexivity|].
      intros X; discriminate X.
    + split; [reflexivity|]. split; [reflexivity|]. split; [intros X; discriminate X|]. intros X; discriminate X.
    + split; [reflexivity|]. split; [reflexivity|]. split; [intros X; discriminate X|]. intros X; discriminate X.
Qed.

Lemma next_dfs_buf_indep dbg e tbl : forall fuel c1 c2,
  c_raw c1 = c_raw c2 ->
  fst (next_dfs_buf fuel dbg e tbl c1) = fst (next_dfs_buf fuel dbg e tbl c2) /\
  c_raw (snd (next_dfs_buf fuel dbg e tbl c1)) = c_raw (snd (next_dfs_buf fuel dbg e tbl c2)) /\
  (is_crash (fst (next_dfs_buf fuel dbg e tbl c1)) = false ->
   current (snd (next_dfs_buf fuel dbg e tbl c1)) = current (snd (next_dfs_buf fuel dbg e tbl c2))).
Proof.
  induction fuel as [|k IH]; intros c1 c2 Hr.
  - cbn. split; [reflexivity|]. split; [exact Hr|]. intros X; discriminate X.
  - cbn [next_dfs_buf].
    destruct (next_entry_buf_indep dbg e tbl c1 c2 Hr) as (H1 & H2 & H3 & H4).
    destruct (next_entry_buf dbg e tbl c1) as [[[|]|x| |] c1'];
      destruct (next_entry_buf dbg e tbl c2) as [[[|]|y| |] c2']; cbn [fst snd is_crash] in *; try discriminate;
      try (inversion H1; subst); try (split; [reflexivity|split; [assumption|assumption]]).
    specialize (H4 eq_refl). subst c2'.
    destruct (negb (is_null (c_cur c1'))); [split; [reflexivity|split; [reflexivity|reflexivity]]|].
    apply IH. reflexivity.
Qed.

(* what an observer of next_entry / next_dfs sees, apart from offset()/depth() of the cached entry, which
   at the end of the input are by design those of the entry the cursor was left on *)
Definition cview (o : cout) : res bool * option die * res N * Z :=
  (co_res o, if is_crash (co_res o) then None else co_cur o, co_noff o, co_ndepth o).
Definition no_sibling (o : cop) : bool := match o with CSibling => false | _ => true end.

Theorem cursor_cache_irrelevant_thm dbg e tbl : forall ops c1 c2,
  c_raw c1 = c_raw c2 -> forallb no_sibling ops = true ->
  map cview (crun dbg e tbl ops c1) = map cview (crun dbg e tbl ops c2).
Proof.
  induction ops as [|o ops IH]; intros c1 c2 Hr Hs; [reflexivity|].
  cbn [forallb] in Hs. apply andb_prop in Hs. destruct Hs as (Ho & Hs).
  cbn [crun]. unfold cstep.
  destruct o; [| |discriminate].
  - destruct (next_entry_buf_indep dbg e tbl c1 c2 Hr) as (H1 & H2 & H3 & _).
    destruct (next_entry_buf dbg e tbl c1) as [r1 c1']. destruct (next_entry_buf dbg e tbl c2) as [r2 c2'].
    cbn [fst snd map cview co_res co_cur co_noff co_ndepth] in *. subst r2.
    rewrite H2. f_equal; [|apply IH; auto].
    unfold cview; cbn [co_res co_cur co_noff co_ndepth].
    destruct (is_crash r1); [reflexivity|]. rewrite H3; reflexivity.
  - assert (Hf : cursor_fuel c1 = cursor_fuel c2) by (unfold cursor_fuel; rewrite Hr; reflexivity).
    rewrite <- Hf.
    destruct (next_dfs_buf_indep dbg e tbl (cursor_fuel c1) c1 c2 Hr) as (H1 & H2 & H3).
    destruct (next_dfs_buf (cursor_fuel c1) dbg e tbl c1) as [r1 c1'].
    destruct (next_dfs_buf (cursor_fuel c1) dbg e tbl c2) as [r2 c2'].
    cbn [fst snd map cview co_res co_cur co_noff co_ndepth] in *. subst r2.
    rewrite H2. f_equal; [|apply IH; auto].
    unfold cview; cbn [co_res co_cur co_noff co_ndepth].
    destruct (is_crash r1); [reflexivity|]. rewrite H3; reflexivity.
Qed.

(* ---------- E: EntriesTree::root() after anything gives the traversal of a fresh tree ---------- *)

Definition bt_key (t : btree) : list byte * N := (bt_root t, reader_end (bt_rd t)).

Lemma seek_forward_end dbg r o d b r' : seek_forward dbg r o d = Ok (b, r') -> r_end r' = r_end r.
Proof.
  unfold seek_forward. destruct (next_offset dbg r) as [no|x| |]; cbn [bind]; try discriminate.
  destruct (o <? no); [intros H; inversion H; reflexivity|].
  destruct (skip_n (o - no) (r_in r)); intros H; inversion H; reflexivity.
Qed.

Lemma sibling_jump_end dbg r cur r' : sibling_jump dbg r cur = Ok r' -> r_end r' = r_end r.
Proof.
  unfold sibling_jump. destruct (d_children cur); [|intros H; inversion H; reflexivity].
  destruct (die_sibling cur) as [o|]; [|intros H; inversion H; reflexivity].
  destruct (seek_forward dbg r o (d_depth cur)) as [[b r1]|x| |] eqn:E; cbn [bind]; try discriminate.
  intros H; inversion H; subst. eapply seek_forward_end; eauto.
Qed.

Lemma bt_next_loop_key dbg e tbl depth : forall fuel t r,
  r_end r = reader_end (bt_rd t) ->
  bt_key (snd (bt_next_loop fuel dbg e tbl depth t r)) = bt_key t.
Proof.
  induction fuel as [|k IH]; intros t r Hr; [reflexivity|].
  cbn [bt_next_loop].
  destruct (sibling_jump dbg r (bt_entry t)) as [r1|x| |] eqn:Ej; try reflexivity.
  apply sibling_jump_end in Ej.
  destruct (raw_is_empty r1).
  - cbn [snd]. unfold bt_key. cbn [bt_root bt_rd reader_end]. congruence.
  - pose proof (read_entry_buf_end dbg e tbl r1 (bt_entry t)) as He.
    destruct (read_entry_buf dbg e tbl r1 (bt_entry t)) as [ok b r2|x b en d| |]; try reflexivity.
    + destruct (d_depth b =? depth)%Z.
      * cbn [snd]. unfold bt_key. cbn [bt_root bt_rd reader_end]. congruence.
      * rewrite IH; [|cbn [bt_rd reader_end]; reflexivity].
        unfold bt_key. cbn [bt_root bt_rd reader_end]. congruence.
    + cbn [snd]. unfold bt_key, bt_fail. cbn [bt_root bt_rd reader_end r_end]. congruence.
Qed.

Lemma bt_next_key fuel dbg e tbl depth t :
  bt_key (snd (bt_next fuel dbg e tbl depth t)) = bt_key t.
Proof.
  unfold bt_next. destruct (bt_rd t) as [r|en d] eqn:Er; [|reflexivity].
  destruct (d_depth (bt_entry t) <? depth)%Z.
  - destruct (dbg && negb (d_depth (bt_entry t) + 1 =? depth)%Z); [reflexivity|].
    destruct (negb (d_children (bt_entry t))); [reflexivity|].
    destruct (raw_is_empty r).
    + cbn [snd]. unfold bt_key. cbn [bt_root bt_rd reader_end]. rewrite Er. reflexivity.
    + pose proof (read_entry_buf_end dbg e tbl r (bt_entry t)) as He.
      destruct (read_entry_buf dbg e tbl r (bt_entry t)) as [ok b r2|x b en d| |]; try reflexivity;
        cbn [snd]; unfold bt_key, bt_fail; cbn [bt_root bt_rd reader_end r_end]; rewrite Er; cbn [reader_end]; congruence.
  - apply bt_next_loop_key. rewrite Er. reflexivity.
Qed.

Lemma walk_kids_key dbg e tbl k : forall fuel budget depth t,
  bt_key (snd (walk_kids fuel dbg e tbl k budget depth t)) = bt_key t.
Proof.
  induction fuel as [|f IH]; intros budget depth t; [reflexivity|].
  cbn [walk_kids].
  pose proof (bt_next_key (bt_fuel t) dbg e tbl depth t) as Hk.
  destruct (bt_next (bt_fuel t) dbg e tbl depth t) as [[[|]|x| |] t1]; cbn [snd] in *; try exact Hk.
  destruct budget as [|[|b]]; try exact Hk.
  destruct (descend k (bt_entry t1)).
  - pose proof (IH (S b) (depth + 1)%Z t1) as H1.
    destruct (walk_kids f dbg e tbl k (S b) (depth + 1) t1) as [[[sub b1] go] t2]. cbn [snd] in H1.
    destruct go.
    + pose proof (IH b1 depth t2) as H2.
      destruct (walk_kids f dbg e tbl k b1 depth t2) as [[[rest b2] go2] t3]. cbn [snd] in *. congruence.
    + cbn [snd]. congruence.
  - pose proof (IH (S b) depth t1) as H2.
    destruct (walk_kids f dbg e tbl k (S b) depth t1) as [[[rest b2] go2] t3]. cbn [snd] in *. congruence.
Qed.

Lemma root_buf_indep dbg e tbl t1 t2 :
  bt_key t1 = bt_key t2 ->
  fst (root_buf dbg e tbl t1) = fst (root_buf dbg e tbl t2) /\
  bt_key (snd (root_buf dbg e tbl t1)) = bt_key t1 /\
  (fst (root_buf dbg e tbl t1) = Ok tt -> snd (root_buf dbg e tbl t1) = snd (root_buf dbg e tbl t2)).
Proof.
  unfold bt_key. intros Hk. inversion Hk as [[H1 H2]]. unfold root_buf. rewrite <- H1, <- H2.
  set (r0 := mkRaw (bt_root t1) (reader_end (bt_rd t1)) 0).
  pose proof (read_entry_buf_indep dbg e tbl r0 (bt_entry t1) (bt_entry t2)) as Hi.
  pose proof (read_entry_buf_end dbg e tbl r0 (bt_entry t1)) as He.
  destruct (read_entry_buf dbg e tbl r0 (bt_entry t1)) as [k1 c1 r1|x1 c1 e1 d1| |];
    destruct (read_entry_buf dbg e tbl r0 (bt_entry t2)) as [k2 c2 r2|x2 c2 e2 d2| |]; try contradiction.
  - destruct Hi as (-> & -> & ->). destruct k2; cbn [fst snd bt_root bt_rd reader_end];
      (split; [reflexivity|]); (split; [subst r0; cbn [r_end] in He; congruence|]);
      [intros _; reflexivity|intros X; discriminate X].
  - destruct Hi as (-> & -> & ->). cbn [fst snd bt_root bt_rd reader_end].
    split; [reflexivity|]. split; [subst r0; cbn [r_end] in He; congruence|]. intros X; discriminate X.
  - cbn [fst snd]. split; [reflexivity|]. split; [reflexivity|]. intros X; discriminate X.
  - cbn [fst snd]. split; [reflexivity|]. split; [reflexivity|]. intros X; discriminate X.
Qed.

Lemma walk_from_root_indep dbg e tbl k budget t1 t2 :
  bt_key t1 = bt_key t2 ->
  fst (walk_from_root dbg e tbl k budget t1) = fst (walk_from_root dbg e tbl k budget t2) /\
  bt_key (snd (walk_from_root dbg e tbl k budget t1)) = bt_key t1.
Proof.
  intros Hk. unfold walk_from_root.
  destruct (root_buf_indep dbg e tbl t1 t2 Hk) as (H1 & H2 & H3).
  assert (Hroot : bt_root t1 = bt_root t2) by (unfold bt_key in Hk; congruence).
  destruct (root_buf dbg e tbl t1) as [[[]|x| |] u1]; destruct (root_buf dbg e tbl t2) as [[[]|y| |] u2];
    cbn [fst snd] in *; try discriminate; try (inversion H1; subst); try (split; [reflexivity|exact H2]).
  specialize (H3 eq_refl). subst u2. rewrite <- Hroot.
  destruct budget as [|[|b]]; try (split; [reflexivity|exact H2]).
  destruct (descend k (bt_entry u1)); [|split; [reflexivity|exact H2]].
  pose proof (walk_kids_key dbg e tbl k (S (S (length (bt_root t1)))) (S b) 1%Z u1) as Hw.
  destruct (walk_kids (S (S (length (bt_root t1)))) dbg e tbl k (S b) 1 u1) as [[[evs b1] go] u3].
  cbn [fst snd] in *. split; [reflexivity|congruence].
Qed.

(* the reused tree, in ANY state with the same root bytes and end offset (in particular after any
   number of complete, abandoned or failed traversals), walks like the fresh one *)
Theorem reroot_is_fresh_thm dbg e tbl : forall (h : list (nat * N)) (t t0 : btree),
  bt_key t = bt_key t0 ->
  walks dbg e tbl h t = walks_fresh dbg e tbl h t0.
Proof.
  induction h as [|[b k] h IH]; intros t t0 Hk; [reflexivity|].
  cbn [walks walks_fresh map fst snd].
  destruct (walk_from_root_indep dbg e tbl k b t t0 Hk) as (H1 & H2).
  destruct (walk_from_root dbg e tbl k b t) as [evs t']. cbn [fst snd] in *.
  rewrite H1. f_equal. apply IH. congruence.
Qed.

(* ---------- F: clones ---------- *)

Section TwoCopies.
Variables (S Op Out : Type) (step : S -> Op -> S * Out).

Fixpoint run1 (ops : list Op) (s : S) : list Out :=
  match ops with
  | [] => []
  | o :: t => let '(s', out) := step s o in out :: run1 t s'
  end.

(* two copies of a state; each operation names the copy it is applied to *)
Fixpoint run2 (ops : list (bool * Op)) (a b : S) : list (bool * Out) :=
  match ops with
  | [] => []
  | (false, o) :: t => let '(a', out) := step a o in (false, out) :: run2 t a' b
  | (true, o) :: t => let '(b', out) := step b o in (true, out) :: run2 t a b'
  end.

Definition side {A} (w : bool) (l : list (bool * A)) : list A :=
  map snd (filter (fun p => Bool.eqb (fst p) w) l).

Theorem two_copies_independent : forall ops a b,
  side false (run2 ops a b) = run1 (side false ops) a /\
  side true (run2 ops a b) = run1 (side true ops) b.
Proof.
  induction ops as [|[[|] o] ops IH]; intros a b; [split; reflexivity| |].
  - cbn [run2]. destruct (step b o) as [b' out] eqn:E. destruct (IH a b') as (I1 & I2).
    unfold side in *. cbn [filter fst Bool.eqb map snd run1]. rewrite E. split; [exact I1|f_equal; exact I2].
  - cbn [run2]. destruct (step a o) as [a' out] eqn:E. destruct (IH a' b) as (I1 & I2).
    unfold side in *. cbn [filter fst Bool.eqb map snd run1]. rewrite E. split; [f_equal; exact I1|exact I2].
Qed.
End TwoCopies.
Arguments run1 {S Op Out} step ops s.
Arguments run2 {S Op Out} step ops a b.

(* instance: an EntriesCursor and its clone, stepped in any interleaving *)
Theorem cursor_clone_independent_thm dbg e tbl (c : cursor) (ops : list (bool * cop)) :
  side false (run2 (cstep dbg e tbl) ops c c) = crun dbg e tbl (side false ops) c /\
  side true (run2 (cstep dbg e tbl) ops c c) = crun dbg e tbl (side true ops) c.
Proof.
  assert (H : forall l s, run1 (cstep dbg e tbl) l s = crun dbg e tbl l s).
  { induction l as [|o l IH]; intros s; [reflexivity|]. cbn [run1 crun].
    destruct (cstep dbg e tbl s o) as [s' out]. rewrite IH. reflexivity. }
  rewrite <- !H. apply two_copies_independent.
Qed.

(* instance: a raw reader + buffer and its clone *)
Theorem raw_clone_independent_thm dbg h tbl (s : rstate) (ops : list (bool * rop)) :
  side false (run2 (rstep dbg h tbl) ops s s) = rrun dbg h tbl (side false ops) s /\
  side true (run2 (rstep dbg h tbl) ops s s) = rrun dbg h tbl (side true ops) s.
Proof.
  assert (H : forall l s, run1 (rstep dbg h tbl) l s = rrun dbg h tbl l s).
  { induction l as [|o l IH]; intros s0; [reflexivity|]. cbn [run1 rrun].
    destruct (rstep dbg h tbl s0 o) as [s' out]. rewrite IH. reflexivity. }
  rewrite <- !H. apply two_copies_independent.
Qed.

(* instance: LineRows (Model/LineRd.v) and its clone, next_row called on either in any order *)
Require Import GV.Spec.LineSpec GV.Model.LineRd GV.Model.LineClone.
Theorem line_rows_clone_independent_thm dbg be resumed h (st : lr_state) (ops : list (bool * unit)) :
  side false (run2 (line_step dbg be resumed h) ops st st) = run1 (line_step dbg be resumed h) (side false ops) st /\
  side true (run2 (line_step dbg be resumed h) ops st st) = run1 (line_step dbg be resumed h) (side true ops) st.
Proof. apply two_copies_independent. Qed.

(* the driver of c20.linem: the clone taken after k calls and the original yield the same remaining rows *)
Theorem line_clone_same_tail_thm dbg be h k :
  let '(_, _, tail_clone, tail_orig) := line_clone dbg be h k in tail_clone = tail_orig.
Proof.
  unfold line_clone. destruct (line_head k dbg be h (st_init h (h_program h))) as [[es early] st]. reflexivity.
Qed.
