(* Proofs/ListsRdProofs.v — lemmas about Model/ListsRd.v against Spec/ListSpec.v (property C08). *)
From Coq Require Import List NArith ZArith Bool Lia ZifyBool ZifyN ZifyNat.
From Coq.Strings Require Import Byte.
Require Import GV.Base.Res GV.Base.Byt GV.Base.Ints GV.Model.Leb GV.Model.Prim
               GV.Spec.LebSpec GV.Spec.ListSpec GV.Model.ListsRd.
Import ListNotations.
Local Open Scope N_scope.

Local Ltac Zify.zify_post_hook ::= Z.div_mod_to_equations.
Local Arguments N.add : simpl never.
Local Arguments N.sub : simpl never.
Local Arguments N.mul : simpl never.
Local Arguments N.shiftl : simpl never.
Local Arguments N.shiftr : simpl never.
Local Arguments N.land : simpl never.
Local Arguments N.lor : simpl never.
Local Arguments N.pow : simpl never.
Local Arguments N.div : simpl never.
Local Arguments N.modulo : simpl never.
Local Arguments N.of_nat : simpl never.
Local Arguments N.to_nat : simpl never.

(* ------------------------------------------------------------------ res helpers *)

Lemma bind_Ok {A B} (r : res A) (f : A -> res B) b :
  bind r f = Ok b -> exists a, r = Ok a /\ f a = Ok b.
Proof. destruct r; simpl; intros H; try discriminate; eauto. Qed.

Lemma bind_np {A B} (r : res A) (f : A -> res B) :
  r <> Panic -> (forall a, r = Ok a -> f a <> Panic) -> bind r f <> Panic.
Proof. destruct r; simpl; intros H1 H2; auto; try discriminate. Qed.

Lemma bind_nf {A B} (r : res A) (f : A -> res B) :
  r <> OutOfFuel -> (forall a, r = Ok a -> f a <> OutOfFuel) -> bind r f <> OutOfFuel.
Proof. destruct r; simpl; intros H1 H2; auto; try discriminate. Qed.

(* "good" = neither Panic nor OutOfFuel *)
Definition good {A} (r : res A) : Prop := r <> Panic /\ r <> OutOfFuel.

Lemma good_Ok {A} (a : A) : good (Ok a).
Proof. split; discriminate. Qed.
Lemma good_Err {A} e : good (@Err A e).
Proof. split; discriminate. Qed.
Lemma good_bind {A B} (r : res A) (f : A -> res B) :
  good r -> (forall a, r = Ok a -> good (f a)) -> good (bind r f).
Proof.
  intros [H1 H2] H. split.
  - apply bind_np; auto. intros a Ha. apply (H a Ha).
  - apply bind_nf; auto. intros a Ha. apply (H a Ha).
Qed.

(* ------------------------------------------------------------------ primitive readers: lengths *)

Lemma take_spec n : forall bs h t,
  take n bs = Some (h, t) -> bs = h ++ t /\ length h = n.
Proof.
  induction n as [|n IH]; intros bs h t H; simpl in H.
  - inversion H; subst. split; reflexivity.
  - destruct bs as [|b r]; try discriminate.
    destruct (take n r) as [[h' t']|] eqn:E; try discriminate.
    inversion H; subst. destruct (IH _ _ _ E) as [-> Hl]. split; simpl; congruence.
Qed.

Lemma take_app n : forall h t, length h = n -> take n (h ++ t) = Some (h, t).
Proof.
  induction n as [|n IH]; intros h t Hl.
  - destruct h; try discriminate. reflexivity.
  - destruct h as [|b h]; try discriminate. simpl. rewrite IH by (simpl in Hl; lia). reflexivity.
Qed.

Lemma take_none n : forall bs, take n bs = None -> (length bs < n)%nat.
Proof.
  induction n as [|n IH]; intros bs H; simpl in H; try discriminate.
  destruct bs as [|b r]; simpl; try lia.
  destruct (take n r) as [[h t]|] eqn:E; try discriminate. apply IH in E. lia.
Qed.

Lemma take_firstn n : forall bs, (n <= length bs)%nat -> take n bs = Some (firstn n bs, skipn n bs).
Proof.
  intros bs H. rewrite <- (firstn_skipn n bs) at 1. apply take_app.
  rewrite firstn_length. lia.
Qed.

Lemma read_un_len n be bs v r :
  read_un n be bs = Ok (v, r) -> length bs = (n + length r)%nat.
Proof.
  unfold read_un, read_bytes. destruct (take n bs) as [[h t]|] eqn:E; simpl; try discriminate.
  intros H; inversion H; subst. apply take_spec in E as [-> Hl]. rewrite app_length. lia.
Qed.

Lemma read_un_good n be bs : good (read_un n be bs).
Proof.
  unfold read_un, read_bytes. destruct (take n bs) as [[h t]|]; simpl; [apply good_Ok|apply good_Err].
Qed.

Lemma read_u8_len bs v r : read_u8 bs = Ok (v, r) -> length bs = S (length r).
Proof. destruct bs; simpl; intros H; inversion H; subst; reflexivity. Qed.

Lemma read_u8_good bs : good (read_u8 bs).
Proof. destruct bs; simpl; [apply good_Err|apply good_Ok]. Qed.

Lemma valid_asize_cases sz : valid_asize sz = true -> sz = 1 \/ sz = 2 \/ sz = 4 \/ sz = 8.
Proof. unfold valid_asize. lia. Qed.

Lemma read_address_ok sz be bs v r :
  read_address sz be bs = Ok (v, r) ->
  valid_asize sz = true /\ length bs = (N.to_nat sz + length r)%nat.
Proof.
  unfold read_address, valid_asize.
  destruct (sz =? 1) eqn:E1; [intros H; apply read_un_len in H; split; [reflexivity|]; assert (sz = 1) by lia; subst; exact H|].
  destruct (sz =? 2) eqn:E2; [intros H; apply read_un_len in H; split; [reflexivity|]; assert (sz = 2) by lia; subst; exact H|].
  destruct (sz =? 4) eqn:E4; [intros H; apply read_un_len in H; split; [reflexivity|]; assert (sz = 4) by lia; subst; exact H|].
  destruct (sz =? 8) eqn:E8; [intros H; apply read_un_len in H; split; [reflexivity|]; assert (sz = 8) by lia; subst; exact H|].
  discriminate.
Qed.

Lemma read_address_good sz be bs : good (read_address sz be bs).
Proof.
  unfold read_address.
  repeat match goal with |- good (if ?c then _ else _) => destruct c end;
    try apply read_un_good. apply good_Err.
Qed.

Lemma read_address_eq sz be bs :
  valid_asize sz = true -> read_address sz be bs = read_un (N.to_nat sz) be bs.
Proof.
  intros H. apply valid_asize_cases in H. destruct H as [-> | [-> | [-> | ->]]]; reflexivity.
Qed.

(* ---- ULEB128: never panics, consumes at least one byte *)

Lemma shl64_good dbg x s : s < 64 -> exists v, shl64 dbg x s = Ok v.
Proof. intros H. unfold shl64. replace (64 <=? s) with false by lia. eauto. Qed.

Lemma uleb_loop_good dbg : forall bs k res0,
  (k <= 9)%nat -> good (uleb_loop dbg res0 (7 * N.of_nat k) bs).
Proof.
  induction bs as [|b r IH]; intros k res0 Hk; simpl.
  - apply good_Err.
  - destruct ((7 * N.of_nat k =? 63) && negb (b2n b =? 0) && negb (b2n b =? 1)) eqn:E.
    + apply good_Err.
    + destruct (shl64_good dbg (low7 (b2n b)) (7 * N.of_nat k)) as [v Hv]; [lia|].
      rewrite Hv. simpl.
      destruct (has_cont (b2n b)) eqn:Hc; [|apply good_Ok].
      (* a continuation byte at shift 63 is impossible: bytes 0 and 1 have no continuation bit *)
      assert (Hk' : (k <= 8)%nat).
      { destruct (Nat.eq_dec k 9) as [->|]; [|lia]. exfalso.
        change (7 * N.of_nat 9) with 63 in E. rewrite N.eqb_refl in E. simpl in E.
        unfold has_cont, CONT in Hc.
        destruct (b2n b =? 0) eqn:E0; [assert (b2n b = 0) by lia; rewrite H in Hc; discriminate|].
        destruct (b2n b =? 1) eqn:E1; [assert (b2n b = 1) by lia; rewrite H in Hc; discriminate|].
        discriminate. }
      replace (7 * N.of_nat k + 7) with (7 * N.of_nat (S k)) by lia.
      apply IH. lia.
Qed.

Lemma read_uleb128_good dbg bs : good (read_uleb128 dbg bs).
Proof.
  destruct bs as [|b r]; simpl; [apply good_Err|].
  destruct (has_cont (b2n b)); [|apply good_Ok].
  change 7 with (7 * N.of_nat 1). apply uleb_loop_good. lia.
Qed.

Lemma uleb_loop_len dbg : forall bs res0 sh v r,
  uleb_loop dbg res0 sh bs = Ok (v, r) -> (length r < length bs)%nat.
Proof.
  induction bs as [|b r0 IH]; intros res0 sh v r H; simpl in H; try discriminate.
  destruct ((sh =? 63) && negb (b2n b =? 0) && negb (b2n b =? 1)); try discriminate.
  apply bind_Ok in H as [s [_ H]].
  destruct (has_cont (b2n b)).
  - apply IH in H. simpl. lia.
  - inversion H; subst. simpl. lia.
Qed.

Lemma read_uleb128_len dbg bs v r :
  read_uleb128 dbg bs = Ok (v, r) -> (length r < length bs)%nat.
Proof.
  destruct bs as [|b r0]; simpl; try discriminate.
  destruct (has_cont (b2n b)).
  - intros H. apply uleb_loop_len in H. lia.
  - intros H; inversion H; subst. lia.
Qed.

(* ---- skip / split *)

Lemma skip_good n bs : good (skip n bs).
Proof. unfold skip. destruct (_ <? _); [apply good_Err|apply good_Ok]. Qed.

Lemma split_good n bs : good (split n bs).
Proof. unfold split. destruct (_ <? _); [apply good_Err|apply good_Ok]. Qed.

Lemma split_len n bs d r : split n bs = Ok (d, r) -> (length r <= length bs)%nat.
Proof.
  unfold split. destruct (_ <? _); try discriminate. intros H; inversion H; subst.
  rewrite skipn_length. lia.
Qed.

Lemma split_app (d r : list byte) : split (N.of_nat (length d)) (d ++ r) = Ok (d, r).
Proof.
  unfold split. rewrite app_length.
  replace (N.of_nat (length d + length r) <? N.of_nat (length d)) with false by lia.
  rewrite Nat2N.id. rewrite firstn_app, skipn_app, Nat.sub_diag, firstn_all, skipn_all. simpl.
  now rewrite app_nil_r.
Qed.

(* ------------------------------------------------------------------ address-size arithmetic *)

Lemma ones_sized_valid dbg sz : valid_asize sz = true -> ones_sized dbg sz = Ok (aones sz).
Proof.
  intros H. apply valid_asize_cases in H. destruct H as [-> | [-> | [-> | ->]]]; destruct dbg; reflexivity.
Qed.

Lemma amod_valid sz : valid_asize sz = true -> amod sz <= two64 /\ 256 <= amod sz.
Proof.
  intros H. apply valid_asize_cases in H. unfold amod, two64.
  destruct H as [-> | [-> | [-> | ->]]]; cbn; lia.
Qed.

Lemma aones_ones sz : aones sz = N.ones (8 * sz).
Proof. unfold aones, amod. rewrite N.ones_equiv. lia. Qed.

(* wrapping_add_sized at a validated size is addition modulo 2^(8*size) *)
Lemma wrapping_add_sized_raw_valid dbg a l sz :
  valid_asize sz = true ->
  wrapping_add_sized_raw dbg a l sz = Ok (wadd sz a l).
Proof.
  intros H. unfold wrapping_add_sized_raw. rewrite ones_sized_valid by exact H. simpl.
  f_equal. rewrite aones_ones, N.land_ones. unfold wadd, wrap64, amod.
  apply valid_asize_cases in H.
  assert (E : exists k, two64 = 2 ^ (8 * sz) * k /\ k <> 0).
  { destruct H as [-> | [-> | [-> | ->]]]; [exists (2^56)|exists (2^48)|exists (2^32)|exists 1]; split; try reflexivity; discriminate. }
  destruct E as [k [E Hk]]. rewrite E.
  assert (Hm : 2 ^ (8 * sz) <> 0) by (apply N.pow_nonzero; discriminate).
  set (m := 2 ^ (8 * sz)) in *. set (x := a + l).
  rewrite N.mod_mul_r by assumption.
  rewrite (N.mul_comm m ((x / m) mod k)), N.mod_add by assumption.
  apply N.mod_mod. assumption.
Qed.

Lemma min_tombstone_raw_valid dbg sz :
  valid_asize sz = true -> min_tombstone_raw dbg sz = Ok (atomb sz).
Proof.
  intros H. unfold min_tombstone_raw. rewrite wrapping_add_sized_raw_valid by exact H.
  f_equal. apply valid_asize_cases in H. destruct H as [-> | [-> | [-> | ->]]]; reflexivity.
Qed.

(* the validated-size functions of Model/Prim.v agree *)
Lemma min_tombstone_valid sz : valid_asize sz = true -> min_tombstone sz = atomb sz.
Proof.
  intros H. apply valid_asize_cases in H. destruct H as [-> | [-> | [-> | ->]]]; reflexivity.
Qed.

(* whenever the unvalidated tombstone computation succeeds at all, its value is positive ... *)
Lemma wadd_lt sz a l : wadd sz a l < amod sz.
Proof. unfold wadd, amod. apply N.mod_lt. apply N.pow_nonzero. discriminate. Qed.

(* ------------------------------------------------------------------ raw parsers: no panic, progress *)

Lemma parse_raw_range_good dbg c inp : good (parse_raw_range dbg c inp).
Proof.
  unfold parse_raw_range.
  apply good_bind; [apply read_address_good|]. intros [b r1] H1.
  apply good_bind; [apply read_address_good|]. intros [e r2] H2.
  destruct ((b =? 0) && (e =? 0)); [apply good_Ok|].
  apply read_address_ok in H1 as [Hv _]. rewrite ones_sized_valid by exact Hv. simpl.
  destruct (b =? aones (c_asize c)); apply good_Ok.
Qed.

Lemma parse_raw_range_len dbg c inp o r :
  parse_raw_range dbg c inp = Ok (o, r) ->
  valid_asize (c_asize c) = true /\ (length r < length inp)%nat.
Proof.
  unfold parse_raw_range. intros H.
  apply bind_Ok in H as [[b r1] [H1 H]]. apply bind_Ok in H as [[e r2] [H2 H]].
  apply read_address_ok in H1 as [Hv L1]. apply read_address_ok in H2 as [_ L2].
  assert (Hsz : (0 < N.to_nat (c_asize c))%nat).
  { apply valid_asize_cases in Hv. lia. }
  split; [exact Hv|].
  destruct ((b =? 0) && (e =? 0)).
  - inversion H; subst. lia.
  - rewrite ones_sized_valid in H by exact Hv. simpl in H.
    destruct (b =? aones (c_asize c)); inversion H; subst; lia.
Qed.

Ltac good_step :=
  match goal with
  | |- good (Ok _) => apply good_Ok
  | |- good (Err _) => apply good_Err
  | |- good (split _ _) => apply split_good
  | |- good (bind (read_uleb128 _ _) _) => apply good_bind; [apply read_uleb128_good|intros [? ?] ?]
  | |- good (bind (read_address _ _ _) _) => apply good_bind; [apply read_address_good|intros [? ?] ?]
  | |- good (bind (read_u8 _) _) => apply good_bind; [apply read_u8_good|intros [? ?] ?]
  | |- good (bind (read_u16 _ _) _) => apply good_bind; [apply read_un_good|intros [? ?] ?]
  | |- good (bind (read_u32 _ _) _) => apply good_bind; [apply read_un_good|intros [? ?] ?]
  | |- good (bind (split _ _) _) => apply good_bind; [apply split_good|intros [? ?] ?]
  | |- good (bind (parse_raw_range _ _ _) _) => apply good_bind; [apply parse_raw_range_good|intros [? ?] ?]
  | |- good (if ?c then _ else _) => destruct c
  | |- good (match ?o with Some _ => _ | None => _ end) => destruct o
  | |- good (match ?o with inl _ => _ | inr _ => _ end) => destruct o
  | |- good (let (_, _) := ?p in _) => destruct p
  end.

Lemma rng_parse_good dbg c bare inp : good (rng_parse dbg c bare inp).
Proof. unfold rng_parse. repeat good_step. Qed.

Lemma parse_data_good dbg c inp : good (parse_data dbg c inp).
Proof. unfold parse_data. repeat good_step. Qed.

Lemma parse_data_len dbg c inp d r :
  parse_data dbg c inp = Ok (d, r) -> (length r < length inp)%nat.
Proof.
  unfold parse_data. destruct (5 <=? c_version c); intros H;
    apply bind_Ok in H as [[len r0] [H0 H]]; apply split_len in H.
  - apply read_uleb128_len in H0. lia.
  - apply read_un_len in H0. lia.
Qed.

Lemma loc_parse_good dbg c bare inp : good (loc_parse dbg c bare inp).
Proof.
  unfold loc_parse.
  repeat first [ good_step
               | apply good_bind; [apply parse_data_good|intros [? ?] ?]
               | apply good_bind; [destruct (5 <=? c_version c); [apply read_uleb128_good|apply read_un_good]|intros [? ?] ?] ].
Qed.

(* every successful parse consumes at least one byte *)
Ltac len_step :=
  match goal with
  | H : bind _ _ = Ok _ |- _ => apply bind_Ok in H; destruct H as [[? ?] [? H]]
  | H : (if ?c then _ else _) = Ok _ |- _ => destruct c
  | H : Ok _ = Ok _ |- _ => inversion H; subst; clear H
  | H : Err _ = Ok _ |- _ => discriminate H
  | H : read_uleb128 _ _ = Ok _ |- _ => apply read_uleb128_len in H
  | H : read_address _ _ _ = Ok _ |- _ => apply read_address_ok in H; destruct H as [_ H]
  | H : read_u8 _ = Ok _ |- _ => apply read_u8_len in H
  | H : read_u16 _ _ = Ok _ |- _ => apply read_un_len in H
  | H : read_u32 _ _ = Ok _ |- _ => apply read_un_len in H
  | H : split _ _ = Ok _ |- _ => apply split_len in H
  | H : parse_data _ _ _ = Ok _ |- _ => apply parse_data_len in H
  | H : parse_raw_range _ _ _ = Ok _ |- _ => apply parse_raw_range_len in H; destruct H as [_ H]
  end.

Lemma rng_parse_len dbg c bare inp o r :
  rng_parse dbg c bare inp = Ok (o, r) -> (length r < length inp)%nat.
Proof.
  unfold rng_parse. intros H. destruct bare.
  - apply bind_Ok in H as [[o' r'] [H0 H]]. apply parse_raw_range_len in H0 as [_ H0].
    destruct o' as [[a|[b e]]|]; inversion H; subst; lia.
  - repeat len_step; lia.
Qed.

Lemma loc_parse_len dbg c bare inp o r :
  loc_parse dbg c bare inp = Ok (o, r) -> (length r < length inp)%nat.
Proof.
  unfold loc_parse. intros H. destruct bare.
  - apply bind_Ok in H as [[o' r'] [H0 H]]. apply parse_raw_range_len in H0 as [_ H0].
    destruct o' as [[a|[b e]]|]; [inversion H; subst; lia| |inversion H; subst; lia].
    repeat len_step; lia.
  - apply bind_Ok in H as [[op r0] [H0 H]]. apply read_u8_len in H0.
    repeat match goal with
    | H : (if ?c then _ else _) = Ok _ |- _ => destruct c
    end;
    repeat first [ len_step
      | match goal with
        | H : (if 5 <=? c_version c then read_uleb128 _ _ else read_u32 _ _) = Ok _ |- _ =>
            destruct (5 <=? c_version c); [apply read_uleb128_len in H|apply read_un_len in H]
        end ]; lia.
Qed.

(* ------------------------------------------------------------------ raw iterators *)

Section RawNext.
  Context {A : Type} (parse : list byte -> res (option A * list byte)).
  Hypothesis Hgood : forall inp, good (parse inp).
  Hypothesis Hlen : forall inp o r, parse inp = Ok (o, r) -> (length r < length inp)%nat.

  Lemma raw_next_good inp : good (fst (raw_next parse inp)).
  Proof.
    unfold raw_next. destruct inp as [|b t]; [apply good_Ok|].
    destruct (Hgood (b :: t)) as [Hp Hf].
    destruct (parse (b :: t)) as [[[a|] rest]|e| |]; simpl; try apply good_Ok; try apply good_Err; contradiction.
  Qed.

  Lemma raw_next_some inp a inp' :
    raw_next parse inp = (Ok (Some a), inp') ->
    parse inp = Ok (Some a, inp') /\ (length inp' < length inp)%nat.
  Proof.
    unfold raw_next. destruct inp as [|b t]; [discriminate|].
    destruct (parse (b :: t)) as [[[a'|] rest]|e| |] eqn:E; intros H; inversion H; subst.
    split; [reflexivity|]. eapply Hlen; exact E.
  Qed.

  (* input.empty() at the end-of-list entry and on every error: the iterator is finished *)
  Lemma raw_next_stop inp r inp' :
    raw_next parse inp = (r, inp') -> (forall a, r <> Ok (Some a)) -> inp' = [].
  Proof.
    unfold raw_next. destruct inp as [|b t]; [intros H; inversion H; reflexivity|].
    destruct (parse (b :: t)) as [[[a'|] rest]|e| |]; intros H Hn; inversion H; subst; try reflexivity.
    exfalso. eapply Hn; reflexivity.
  Qed.

  Lemma raw_next_nil : raw_next parse [] = (Ok None, []).
  Proof. reflexivity. Qed.

  Lemma raw_next_err_nonempty inp e inp' : raw_next parse inp = (Err e, inp') -> inp <> [].
  Proof. destruct inp; [discriminate|discriminate]. Qed.

  Lemma raw_next_le inp r inp' : raw_next parse inp = (r, inp') -> (length inp' <= length inp)%nat.
  Proof.
    intros H. destruct r as [[a|]|e| |].
    - apply raw_next_some in H. lia.
    - apply raw_next_stop in H; [subst; simpl; lia|discriminate].
    - apply raw_next_stop in H; [subst; simpl; lia|discriminate].
    - apply raw_next_stop in H; [subst; simpl; lia|discriminate].
    - apply raw_next_stop in H; [subst; simpl; lia|discriminate].
  Qed.
End RawNext.

(* ------------------------------------------------------------------ indexed tables: no panic *)

Lemma get_address_good be sect asize base index : good (get_address be sect asize base index).
Proof.
  unfold get_address. apply good_bind; [apply skip_good|]. intros r1 _.
  destruct (checked_mul64 index asize); [|apply good_Err].
  apply good_bind; [apply skip_good|]. intros r2 _.
  apply good_bind; [apply read_address_good|]. intros [a r] _. apply good_Ok.
Qed.

Lemma read_word_good f be bs : good (read_word f be bs).
Proof. unfold read_word. destruct f; apply read_un_good. Qed.

Lemma get_offset_good be f sect base index : good (get_offset be f sect base index).
Proof.
  unfold get_offset. apply good_bind; [apply skip_good|]. intros r1 _.
  destruct (checked_mul64 _ _); [|apply good_Err].
  apply good_bind; [apply skip_good|]. intros r2 _.
  apply good_bind; [apply read_word_good|]. intros [a r] _.
  destruct (_ <? _); [apply good_Ok|apply good_Err].
Qed.

Lemma get_str_offset_good be f sect base index : good (get_str_offset be f sect base index).
Proof.
  unfold get_str_offset. apply good_bind; [apply skip_good|]. intros r1 _.
  destruct (checked_mul64 _ _); [|apply good_Err].
  apply good_bind; [apply skip_good|]. intros r2 _.
  apply good_bind; [apply read_word_good|]. intros [a r] _. apply good_Ok.
Qed.

(* a successful address lookup proves the address size valid *)
Lemma get_address_ok_valid be sect asize base index a :
  get_address be sect asize base index = Ok a -> valid_asize asize = true.
Proof.
  unfold get_address. intros H. apply bind_Ok in H as [r1 [_ H]].
  destruct (checked_mul64 index asize); [|discriminate].
  apply bind_Ok in H as [r2 [_ H]]. apply bind_Ok in H as [[v r] [H _]].
  now apply read_address_ok in H.
Qed.

(* ------------------------------------------------------------------ convert_raw *)

(* the filter at the end of convert_raw, for ANY configuration: whatever is yielded is non-empty and
   begins below the tombstone value computed for the configured address size *)
Lemma convert_raw_yield dbg c x base e rg base' :
  convert_raw dbg c x base e = Ok (Some rg, base') ->
  fst rg < snd rg /\ exists t, min_tombstone_raw dbg (c_asize c) = Ok t /\ fst rg < t.
Proof.
  unfold convert_raw.
  assert (F : forall r, (let* tomb := min_tombstone_raw dbg (c_asize c) in
                         if (tomb <=? fst r) || (snd r <=? fst r) then Ok (None, base) else Ok (Some r, base))
                        = Ok (Some rg, base') ->
              fst rg < snd rg /\ exists t, min_tombstone_raw dbg (c_asize c) = Ok t /\ fst rg < t).
  { intros r H. apply bind_Ok in H as [t [Ht H]].
    destruct ((t <=? fst r) || (snd r <=? fst r)) eqn:E; inversion H; subst.
    split; [lia|]. exists t. split; [exact Ht|lia]. }
  destruct e; intros H;
    repeat match goal with
    | H : bind _ _ = Ok (Some _, _) |- _ =>
        first [ apply F in H; exact H
              | apply bind_Ok in H; destruct H as [? [? H]] ]
    | H : (if ?c then _ else _) = Ok _ |- _ => destruct c
    | H : Ok (None, _) = Ok (Some _, _) |- _ => discriminate H
    end.
Qed.

Lemma convert_raw_good dbg c x base e :
  valid_asize (c_asize c) = true -> good (convert_raw dbg c x base e).
Proof.
  intros Hv. unfold convert_raw, ctx_address.
  rewrite !min_tombstone_raw_valid by exact Hv.
  destruct e; simpl;
    repeat first
      [ rewrite wrapping_add_sized_raw_valid by exact Hv; simpl
      | apply good_Ok
      | apply good_bind; [apply get_address_good|intros ? ?]
      | match goal with |- good (if ?c then _ else _) => destruct c end ].
Qed.

Lemma ones_sized_nf dbg sz : ones_sized dbg sz <> OutOfFuel.
Proof.
  unfold ones_sized, chk_mul, chk_sub.
  repeat first [ apply bind_nf; [|intros ? ?]
               | match goal with |- (if ?c then _ else _) <> OutOfFuel => destruct c end
               | discriminate ].
Qed.

Lemma wrapping_add_sized_raw_nf dbg a l sz : wrapping_add_sized_raw dbg a l sz <> OutOfFuel.
Proof. unfold wrapping_add_sized_raw. apply bind_nf; [apply ones_sized_nf|discriminate]. Qed.

Lemma convert_raw_nf dbg c x base e : convert_raw dbg c x base e <> OutOfFuel.
Proof.
  unfold convert_raw, ctx_address, min_tombstone_raw.
  destruct e;
    repeat first
      [ discriminate
      | apply bind_nf; [first [apply wrapping_add_sized_raw_nf | apply get_address_good]|intros ? ?]
      | match goal with |- (if ?c then _ else _) <> OutOfFuel => destruct c end ].
Qed.

(* ------------------------------------------------------------------ RngListIter / LocListIter *)

Section ListNext.
  Context {A B : Type} (parse : list byte -> res (option A * list byte))
          (ent : A -> lent) (mk : N * N -> A -> B).
  Hypothesis Hgood : forall inp, good (parse inp).
  Hypothesis Hlen : forall inp o r, parse inp = Ok (o, r) -> (length r < length inp)%nat.

  Notation lnext := (list_next parse ent mk).

  (* fuel |input| + 1 always suffices *)
  Lemma list_next_fuel dbg c x : forall fuel s,
    (length (s_inp s) < fuel)%nat -> fst (lnext fuel dbg c x s) <> OutOfFuel.
  Proof.
    induction fuel as [|f IH]; intros s Hf; [lia|]. simpl.
    destruct (raw_next parse (s_inp s)) as [r inp'] eqn:E.
    pose proof (raw_next_good parse Hgood (s_inp s)) as [_ Hnf]. rewrite E in Hnf. simpl in Hnf.
    destruct r as [[a|]|e| |]; simpl; try discriminate; try contradiction.
    apply (raw_next_some parse Hlen) in E as [_ L].
    destruct (convert_raw dbg c x (s_base s) (ent a)) as [[[rg|] b']|e| |] eqn:Ec; simpl; try discriminate.
    - apply IH. simpl. lia.
    - exfalso. exact (convert_raw_nf dbg c x (s_base s) (ent a) Ec).
  Qed.

  Lemma list_next_np dbg c x : valid_asize (c_asize c) = true -> forall fuel s,
    fst (lnext fuel dbg c x s) <> Panic.
  Proof.
    intros Hv. induction fuel as [|f IH]; intros s; simpl; [discriminate|].
    destruct (raw_next parse (s_inp s)) as [r inp'] eqn:E.
    pose proof (raw_next_good parse Hgood (s_inp s)) as [Hnp _]. rewrite E in Hnp. simpl in Hnp.
    destruct r as [[a|]|e| |]; simpl; try discriminate; try contradiction.
    pose proof (convert_raw_good dbg c x (s_base s) (ent a) Hv) as [Hc _].
    destruct (convert_raw dbg c x (s_base s) (ent a)) as [[[rg|] b']|e| |]; simpl; try discriminate; try contradiction.
    apply IH.
  Qed.

  (* every call either reports the end (and leaves nothing to read) or strictly shrinks the input *)
  Lemma list_next_progress dbg c x : forall fuel s r s',
    lnext fuel dbg c x s = (r, s') ->
    (length (s_inp s') <= length (s_inp s))%nat /\
    (r = Ok None -> s_inp s' = []) /\
    ((exists b, r = Ok (Some b)) \/ (exists e, r = Err e) -> (length (s_inp s') < length (s_inp s))%nat).
  Proof.
    induction fuel as [|f IH]; intros s r s' H; simpl in H.
    - inversion H; subst. repeat split; try lia; try discriminate; try (intros [[? ?]|[? ?]]; discriminate).
    - destruct (raw_next parse (s_inp s)) as [r0 inp'] eqn:E.
      destruct r0 as [[a|]|e| |].
      + apply (raw_next_some parse Hlen) in E as [_ L].
        destruct (convert_raw dbg c x (s_base s) (ent a)) as [[[rg|] b']|e| |] eqn:Ec.
        * inversion H; subst; simpl. repeat split; try lia; try discriminate.
        * apply IH in H. simpl in H. destruct H as [H1 [H2 H3]].
          split; [lia|split; [exact H2|intros Hx; specialize (H3 Hx); lia]].
        * inversion H; subst; simpl. repeat split; try lia; try discriminate.
        * inversion H; subst; simpl. repeat split; try lia; try discriminate; try (intros [[? ?]|[? ?]]; discriminate).
        * inversion H; subst; simpl. repeat split; try lia; try discriminate; try (intros [[? ?]|[? ?]]; discriminate).
      + apply raw_next_stop in E; [|discriminate]. inversion H; subst; simpl.
        repeat split; try lia; auto; try (intros [[? ?]|[? ?]]; discriminate).
      + pose proof (raw_next_err_nonempty parse _ _ _ E) as Hne.
        apply raw_next_stop in E; [|discriminate]. inversion H; subst; simpl.
        repeat split; try lia; try discriminate. intros _. destruct (s_inp s); [contradiction|simpl; lia].
      + inversion H; subst; simpl. eapply raw_next_le in E; [|exact Hgood|exact Hlen].
        repeat split; try lia; try discriminate; try (intros [[? ?]|[? ?]]; discriminate).
      + inversion H; subst; simpl. repeat split; try lia; try discriminate; try (intros [[? ?]|[? ?]]; discriminate).
  Qed.

  (* once the end was reported the iterator keeps reporting it *)
  Lemma list_next_nil dbg c x fuel base :
    lnext (S fuel) dbg c x {| s_inp := []; s_base := base |} = (Ok None, {| s_inp := []; s_base := base |}).
  Proof. reflexivity. Qed.

  (* the property's universal clause, for ANY input and configuration *)
  Lemma list_next_yield dbg c x : forall fuel s b s',
    lnext fuel dbg c x s = (Ok (Some b), s') ->
    exists rg a, b = mk rg a /\ fst rg < snd rg /\
                 exists t, min_tombstone_raw dbg (c_asize c) = Ok t /\ fst rg < t.
  Proof.
    induction fuel as [|f IH]; intros s b s' H; simpl in H; [discriminate|].
    destruct (raw_next parse (s_inp s)) as [r0 inp'] eqn:E.
    destruct r0 as [[a|]|e| |]; try discriminate.
    destruct (convert_raw dbg c x (s_base s) (ent a)) as [[[rg|] b']|e| |] eqn:Ec; try discriminate.
    - inversion H; subst. exists rg, a. split; [reflexivity|]. eapply convert_raw_yield; exact Ec.
    - eapply IH; exact H.
  Qed.
End ListNext.

(* ------------------------------------------------------------------ draining *)

Section Drain.
  Context {A St : Type} (next : St -> res (option A) * St) (mu : St -> nat).
  Hypothesis Hdec : forall s r s', next s = (r, s') ->
    (exists a, r = Ok (Some a)) \/ (exists e, r = Err e) -> (mu s' < mu s)%nat.
  Hypothesis Hnf : forall s, fst (next s) <> OutOfFuel.

  Lemma drain_fuel : forall calls s, (mu s < calls)%nat -> drain next calls s <> OutOfFuel.
  Proof.
    induction calls as [|k IH]; intros s Hm; [lia|]. simpl.
    destruct (next s) as [r s'] eqn:E. specialize (Hnf s). rewrite E in Hnf. simpl in Hnf.
    destruct r as [[a|]|e| |]; try discriminate; try contradiction.
    - apply bind_nf; [|discriminate]. apply IH.
      assert (mu s' < mu s)%nat by (eapply Hdec; [exact E|left; eauto]). lia.
    - apply bind_nf; [|discriminate]. apply IH.
      assert (mu s' < mu s)%nat by (eapply Hdec; [exact E|right; eauto]). lia.
  Qed.

  (* at most mu(s) items and errors before the final Ok(None) *)
  Lemma drain_length : forall calls s l, drain next calls s = Ok l -> (length l <= mu s)%nat.
  Proof.
    induction calls as [|k IH]; intros s l H; simpl in H; [discriminate|].
    destruct (next s) as [r s'] eqn:E.
    destruct r as [[a|]|e| |]; try discriminate.
    - apply bind_Ok in H as [l' [H1 H]]. inversion H; subst. apply IH in H1. simpl.
      assert (mu s' < mu s)%nat by (eapply Hdec; [exact E|left; eauto]). lia.
    - inversion H; subst. simpl. lia.
    - apply bind_Ok in H as [l' [H1 H]]. inversion H; subst. apply IH in H1. simpl.
      assert (mu s' < mu s)%nat by (eapply Hdec; [exact E|right; eauto]). lia.
  Qed.

  Lemma drain_np : (forall s, fst (next s) <> Panic) -> forall calls s, drain next calls s <> Panic.
  Proof.
    intros Hnp. induction calls as [|k IH]; intros s; simpl; [discriminate|].
    destruct (next s) as [r s'] eqn:E. specialize (Hnp s). rewrite E in Hnp. simpl in Hnp.
    destruct r as [[a|]|e| |]; try discriminate; try contradiction;
      (apply bind_np; [apply IH|discriminate]).
  Qed.

  Lemma drain_items (P : A -> Prop) :
    (forall s a s', next s = (Ok (Some a), s') -> P a) ->
    forall calls s l, drain next calls s = Ok l -> forall a, In (EvItem a) l -> P a.
  Proof.
    intros HP. induction calls as [|k IH]; intros s l H a Hin; simpl in H; [discriminate|].
    destruct (next s) as [r s'] eqn:E.
    destruct r as [[a'|]|e| |]; try discriminate.
    - apply bind_Ok in H as [l' [H1 H]]. inversion H; subst. destruct Hin as [Hin|Hin].
      + inversion Hin; subst. eapply HP; exact E.
      + eapply IH; eassumption.
    - inversion H; subst. contradiction.
    - apply bind_Ok in H as [l' [H1 H]]. inversion H; subst. destruct Hin as [Hin|Hin]; [discriminate|].
      eapply IH; eassumption.
  Qed.
End Drain.

(* ------------------------------------------------------------------ codecs: write then read *)

Lemma land_low_high a b k : a < 2 ^ k -> N.land a (b * 2 ^ k) = 0.
Proof.
  intros H. apply N.bits_inj_0. intros n. rewrite N.land_spec.
  destruct (N.lt_ge_cases n k) as [L|L].
  - rewrite N.mul_pow2_bits_low by assumption. apply andb_false_r.
  - replace a with (a mod 2 ^ k) by (apply N.mod_small; assumption).
    rewrite N.mod_pow2_bits_high by assumption. reflexivity.
Qed.

Lemma lor_add a b k : a < 2 ^ k -> N.lor a (b * 2 ^ k) = a + b * 2 ^ k.
Proof.
  intros H. pose proof (land_low_high a b k H) as L.
  rewrite <- N.lxor_lor by exact L. symmetry. apply N.add_nocarry_lxor. exact L.
Qed.

Lemma N_forall_lt (n : nat) (P : N -> bool) :
  forallb P (map N.of_nat (seq 0 n)) = true -> forall x, x < N.of_nat n -> P x = true.
Proof.
  intros H x Hx. rewrite forallb_forall in H. apply H.
  rewrite <- (N2Nat.id x). apply in_map. apply in_seq. lia.
Qed.

Lemma leb_byte_facts m : m < 128 ->
  has_cont m = false /\ low7 m = m /\ has_cont (128 + m) = true /\ low7 (128 + m) = m.
Proof.
  intros H.
  pose proof (N_forall_lt 128 (fun m => negb (has_cont m) && (low7 m =? m) && has_cont (128 + m) && (low7 (128 + m) =? m))) as F.
  specialize (F eq_refl m H). simpl in F.
  repeat rewrite andb_true_iff in F. destruct F as [[[F1 F2] F3] F4].
  rewrite negb_true_iff in F1. repeat split; auto; lia.
Qed.

Lemma shl64_small dbg x s : s < 64 -> x * 2 ^ s < two64 -> shl64 dbg x s = Ok (x * 2 ^ s).
Proof.
  intros Hs Hx. unfold shl64. replace (64 <=? s) with false by lia.
  rewrite N.shiftl_mul_pow2. now rewrite wrap64_small.
Qed.

Lemma pow2_lt_64 k : 2 ^ k < two64 -> k < 64.
Proof. unfold two64. change 18446744073709551616 with (2 ^ 64). intros H. apply N.pow_lt_mono_r_iff in H; lia. Qed.

Lemma uleb_loop_enc dbg : forall f v res0 k rest,
  v < 128 ^ N.of_nat (S f) -> res0 < 2 ^ (7 * k) -> 1 <= k -> k <= 9 ->
  res0 + v * 2 ^ (7 * k) < two64 ->
  uleb_loop dbg res0 (7 * k) (enc_uleb_fuel (S f) v ++ rest) = Ok (res0 + v * 2 ^ (7 * k), rest).
Proof.
  induction f as [|f IH]; intros v res0 k rest Hv Hr Hk1 Hk9 Hs.
  - (* one byte left *)
    change (128 ^ N.of_nat 1) with 128 in Hv. simpl enc_uleb_fuel.
    replace (v <? 128) with true by lia. simpl app.
    destruct (leb_byte_facts v Hv) as [Hc [Hl _]].
    cbn [uleb_loop]. rewrite b2n_n2b_small by lia.
    assert (Hp : 0 < 2 ^ (7 * k)) by (apply N.neq_0_lt_0, N.pow_nonzero; discriminate).
    assert (E63 : (7 * k =? 63) && negb (v =? 0) && negb (v =? 1) = false).
    { destruct (7 * k =? 63) eqn:E; [|reflexivity]. simpl.
      assert (7 * k = 63) by lia. rewrite H in Hs. change (2 ^ 63) with 9223372036854775808 in Hs.
      unfold two64 in Hs. destruct (v =? 0) eqn:E0; [reflexivity|]. destruct (v =? 1) eqn:E1; [reflexivity|]. lia. }
    rewrite E63, Hl, Hc.
    rewrite shl64_small by (try lia). simpl. now rewrite lor_add by exact Hr.
  - (* S f *)
    assert (Hp : 0 < 2 ^ (7 * k)) by (apply N.neq_0_lt_0, N.pow_nonzero; discriminate).
    change (enc_uleb_fuel (S (S f)) v)
      with (if v <? 128 then [n2b v] else n2b (128 + v mod 128) :: enc_uleb_fuel (S f) (v / 128)).
    destruct (v <? 128) eqn:E.
    + (* short value: same as the base case *)
      assert (Hv' : v < 128) by lia. simpl app.
      destruct (leb_byte_facts v Hv') as [Hc [Hl _]].
      cbn [uleb_loop]. rewrite b2n_n2b_small by lia.
      assert (E63 : (7 * k =? 63) && negb (v =? 0) && negb (v =? 1) = false).
      { destruct (7 * k =? 63) eqn:E'; [|reflexivity]. simpl.
        assert (7 * k = 63) by lia. rewrite H in Hs. change (2 ^ 63) with 9223372036854775808 in Hs.
        unfold two64 in Hs. destruct (v =? 0) eqn:E0; [reflexivity|]. destruct (v =? 1) eqn:E1; [reflexivity|]. lia. }
      rewrite E63, Hl, Hc.
      rewrite shl64_small by (try lia). simpl. now rewrite lor_add by exact Hr.
    + assert (Hge : 128 <= v) by lia.
      set (m := v mod 128). set (q := v / 128).
      assert (Hm : m < 128) by (apply N.mod_lt; discriminate).
      assert (Hvq : v = 128 * q + m) by (apply N.div_mod; discriminate).
      destruct (leb_byte_facts m Hm) as [_ [_ [Hc Hl]]].
      (* the shift stays below 63 *)
      assert (Hk8 : k <= 8).
      { assert (2 ^ (7 * k + 7) < two64).
        { rewrite N.pow_add_r. change (2 ^ 7) with 128.
          eapply N.le_lt_trans; [|exact Hs]. nia. }
        apply pow2_lt_64 in H. lia. }
      rewrite <- app_comm_cons. cbn [uleb_loop]. rewrite b2n_n2b_small by lia.
      replace (7 * k =? 63) with false by lia. cbn [andb]. rewrite Hl, Hc.
      assert (Hmk : m * 2 ^ (7 * k) < two64) by nia.
      rewrite shl64_small by (try lia; exact Hmk). cbn [bind]. rewrite lor_add by exact Hr.
      replace (7 * k + 7) with (7 * (k + 1)) by lia.
      assert (P : 2 ^ (7 * (k + 1)) = 128 * 2 ^ (7 * k)).
      { replace (7 * (k + 1)) with (7 + 7 * k) by lia. rewrite N.pow_add_r. reflexivity. }
      rewrite IH.
      * f_equal. f_equal. rewrite P, Hvq. ring.
      * (* q < 128^(S f) *)
        fold q. replace (N.of_nat (S (S f))) with (1 + N.of_nat (S f)) in Hv by lia.
        rewrite N.pow_add_r in Hv. change (128 ^ 1) with 128 in Hv.
        apply N.div_lt_upper_bound; [discriminate|exact Hv].
      * rewrite P. nia.
      * lia.
      * lia.
      * rewrite P. rewrite Hvq in Hs. nia.
Qed.

Lemma read_uleb128_enc dbg v rest :
  v < two64 -> read_uleb128 dbg (enc_uleb v ++ rest) = Ok (v, rest).
Proof.
  intros Hv. unfold enc_uleb.
  change (enc_uleb_fuel 19 v)
    with (if v <? 128 then [n2b v] else n2b (128 + v mod 128) :: enc_uleb_fuel 18 (v / 128)).
  destruct (v <? 128) eqn:E.
  - assert (Hv' : v < 128) by lia. destruct (leb_byte_facts v Hv') as [Hc _].
    simpl app. cbn [read_uleb128]. rewrite b2n_n2b_small by lia. now rewrite Hc.
  - set (m := v mod 128). set (q := v / 128).
    assert (Hm : m < 128) by (apply N.mod_lt; discriminate).
    assert (Hvq : v = 128 * q + m) by (apply N.div_mod; discriminate).
    destruct (leb_byte_facts m Hm) as [_ [_ [Hc Hl]]].
    rewrite <- app_comm_cons. cbn [read_uleb128]. rewrite b2n_n2b_small by lia. rewrite Hc, Hl.
    change 7 with (7 * 1). change 18%nat with (S 17).
    rewrite uleb_loop_enc.
    + f_equal. f_equal. change (2 ^ (7 * 1)) with 128. lia.
    + fold q. apply N.div_lt_upper_bound; [discriminate|].
      eapply N.lt_le_trans; [exact Hv|]. unfold two64. vm_compute. discriminate.
    + change (2 ^ (7 * 1)) with 128. exact Hm.
    + lia.
    + lia.
    + change (2 ^ (7 * 1)) with 128. lia.
Qed.

(* ---- fixed width *)

Lemma le_bytes_length n : forall v, length (le_bytes n v) = n.
Proof. induction n as [|n IH]; intros v; simpl; [reflexivity|]. now rewrite IH. Qed.

Lemma enc_un_length n be v : length (enc_un n be v) = n.
Proof. unfold enc_un, be_bytes. destruct be; [rewrite rev_length|]; apply le_bytes_length. Qed.

Lemma le_val_le_bytes n : forall v, le_val (le_bytes n v) = v mod 256 ^ N.of_nat n.
Proof.
  induction n as [|n IH]; intros v.
  - simpl. now rewrite N.mod_1_r.
  - cbn [le_bytes le_val]. rewrite IH, b2n_n2b.
    replace (N.of_nat (S n)) with (1 + N.of_nat n) by lia. rewrite N.pow_add_r. change (256 ^ 1) with 256.
    rewrite N.mod_mul_r by (try discriminate; apply N.pow_nonzero; discriminate). reflexivity.
Qed.

Lemma read_un_enc n be v rest :
  read_un n be (enc_un n be v ++ rest) = Ok (v mod 256 ^ N.of_nat n, rest).
Proof.
  unfold read_un, read_bytes. rewrite take_app by apply enc_un_length. simpl.
  f_equal. f_equal. unfold enc_un, be_bytes, be_val. destruct be.
  - rewrite rev_involutive. apply le_val_le_bytes.
  - apply le_val_le_bytes.
Qed.

Lemma read_address_enc c a rest :
  valid_asize (c_asize c) = true -> a < amod (c_asize c) ->
  read_address (c_asize c) (c_be c) (enc_addr c a ++ rest) = Ok (a, rest).
Proof.
  intros Hv Ha. rewrite read_address_eq by exact Hv. unfold enc_addr. rewrite read_un_enc.
  f_equal. f_equal. apply N.mod_small.
  replace (256 ^ N.of_nat (N.to_nat (c_asize c))) with (amod (c_asize c)); [exact Ha|].
  apply valid_asize_cases in Hv. destruct Hv as [-> | [-> | [-> | ->]]]; reflexivity.
Qed.

(* ------------------------------------------------------------------ raw entries: encode then parse *)

Ltac wf_bounds H :=
  unfold wf_rle, wf_pair, wf_lle, wf_locpair, wf_data, fits_u64, fits_addr, u64_max in H.

Ltac rt_step :=
  first [ rewrite <- app_assoc
        | rewrite <- app_comm_cons
        | rewrite read_uleb128_enc by (try assumption; unfold two64 in *; lia)
        | rewrite read_address_enc by (try assumption; lia)
        | progress cbn [bind] ].

Lemma read_u8_cons b r : read_u8 (b :: r) = Ok (b2n b, r).
Proof. reflexivity. Qed.

Lemma rng_parse_rle_end dbg c rest : rng_parse dbg c false (n2b 0 :: rest) = Ok (None, rest).
Proof. reflexivity. Qed.

(* one lemma per opcode keeps the kernel's re-check of the reduced if-chain small *)
Ltac opcode_start :=
  rewrite <- app_comm_cons, read_u8_cons; cbn [bind];
  rewrite b2n_n2b_small by lia; cbn [N.eqb Pos.eqb].

Section RleEntries.
  Variables (dbg : bool) (c : lcfg) (rest : list byte).
  Hypothesis Hv : valid_asize (c_asize c) = true.

  Lemma rle_basex i : i < two64 ->
    rng_parse dbg c false (enc_rle c (LBasex i) ++ rest) = Ok (Some (LBasex i), rest).
  Proof. intros. unfold rng_parse. cbn [enc_rle]. opcode_start. repeat rt_step. reflexivity. Qed.
  Lemma rle_sxex i j : i < two64 -> j < two64 ->
    rng_parse dbg c false (enc_rle c (LStartxEndx i j) ++ rest) = Ok (Some (LStartxEndx i j), rest).
  Proof. intros. unfold rng_parse. cbn [enc_rle]. opcode_start. repeat rt_step. reflexivity. Qed.
  Lemma rle_sxlen i l : i < two64 -> l < two64 ->
    rng_parse dbg c false (enc_rle c (LStartxLength i l) ++ rest) = Ok (Some (LStartxLength i l), rest).
  Proof. intros. unfold rng_parse. cbn [enc_rle]. opcode_start. repeat rt_step. reflexivity. Qed.
  Lemma rle_offp b e : b < two64 -> e < two64 ->
    rng_parse dbg c false (enc_rle c (LOffsetPair b e) ++ rest) = Ok (Some (LOffsetPair b e), rest).
  Proof. intros. unfold rng_parse. cbn [enc_rle]. opcode_start. repeat rt_step. reflexivity. Qed.
  Lemma rle_base a : a < amod (c_asize c) ->
    rng_parse dbg c false (enc_rle c (LBase a) ++ rest) = Ok (Some (LBase a), rest).
  Proof. intros. unfold rng_parse. cbn [enc_rle]. opcode_start. repeat rt_step. reflexivity. Qed.
  Lemma rle_se b e : b < amod (c_asize c) -> e < amod (c_asize c) ->
    rng_parse dbg c false (enc_rle c (LStartEnd b e) ++ rest) = Ok (Some (LStartEnd b e), rest).
  Proof. intros. unfold rng_parse. cbn [enc_rle]. opcode_start. repeat rt_step. reflexivity. Qed.
  Lemma rle_sl b l : b < amod (c_asize c) -> l < two64 ->
    rng_parse dbg c false (enc_rle c (LStartLength b l) ++ rest) = Ok (Some (LStartLength b l), rest).
  Proof. intros. unfold rng_parse. cbn [enc_rle]. opcode_start. repeat rt_step. reflexivity. Qed.
End RleEntries.

(* NB: never unfold u64_max / two64 inside hypotheses that a `destruct` generalises: the kernel's
   re-check of such conversions on 64-bit literals is pathologically slow. Go through these lemmas. *)
Lemma fits_u64_lt i : fits_u64 i = true -> i < two64.
Proof. unfold fits_u64, u64_max, two64. lia. Qed.
Lemma fits_addr_lt c a : fits_addr c a = true -> a < amod (c_asize c).
Proof. unfold fits_addr. lia. Qed.

Ltac wf_split :=
  repeat match goal with
  | H : _ && _ = true |- _ => apply andb_true_iff in H; destruct H
  | H : fits_u64 _ = true |- _ => apply fits_u64_lt in H
  | H : fits_addr _ _ = true |- _ => apply fits_addr_lt in H
  | H : negb _ = true |- _ => apply negb_true_iff in H
  end.

Lemma rng_parse_rle_enc dbg c e rest :
  valid_asize (c_asize c) = true -> wf_rle c e = true ->
  rng_parse dbg c false (enc_rle c e ++ rest) = Ok (Some e, rest).
Proof.
  intros Hv Hw.
  destruct e; try discriminate Hw; cbn [wf_rle] in Hw; wf_split.
  - apply rle_base; assumption.
  - apply rle_basex; assumption.
  - apply rle_sxex; assumption.
  - apply rle_sxlen; assumption.
  - apply rle_offp; assumption.
  - apply rle_se; assumption.
  - apply rle_sl; assumption.
Qed.

Lemma aones_lt sz : valid_asize sz = true -> aones sz < amod sz /\ aones sz <> 0.
Proof. intros H. pose proof (amod_valid sz H). unfold aones. lia. Qed.

Lemma parse_raw_range_pair dbg c b e rest :
  valid_asize (c_asize c) = true -> b < amod (c_asize c) -> e < amod (c_asize c) ->
  parse_raw_range dbg c (enc_addr c b ++ enc_addr c e ++ rest) =
  Ok ((if (b =? 0) && (e =? 0) then None
       else if b =? aones (c_asize c) then Some (inl e) else Some (inr (b, e))), rest).
Proof.
  intros Hv Hb He. unfold parse_raw_range. repeat rt_step.
  destruct ((b =? 0) && (e =? 0)); [reflexivity|].
  rewrite ones_sized_valid by exact Hv. cbn [bind].
  destruct (b =? aones (c_asize c)); reflexivity.
Qed.

Lemma rng_parse_pair_enc dbg c e rest :
  valid_asize (c_asize c) = true -> wf_pair c e = true ->
  rng_parse dbg c true (enc_pair c e ++ rest) = Ok (Some e, rest).
Proof.
  intros Hv Hw. pose proof (aones_lt _ Hv) as [Ho Ho0]. unfold rng_parse.
  destruct e; try discriminate Hw; cbn [wf_pair] in Hw; wf_split; cbn [enc_pair]; rewrite <- app_assoc;
    rewrite parse_raw_range_pair by assumption; cbn [bind].
  - repeat match goal with H : ?x = false |- context [?x] => rewrite H end. reflexivity.
  - replace ((aones (c_asize c) =? 0) && (a =? 0)) with false by lia.
    rewrite N.eqb_refl. reflexivity.
Qed.

Lemma rng_parse_pair_end dbg c rest :
  valid_asize (c_asize c) = true ->
  rng_parse dbg c true (enc_addr c 0 ++ enc_addr c 0 ++ rest) = Ok (None, rest).
Proof.
  intros Hv. pose proof (amod_valid _ Hv). unfold rng_parse.
  rewrite parse_raw_range_pair by (try assumption; lia). reflexivity.
Qed.

Lemma parse_data_enc dbg c d rest :
  wf_data c d = true -> parse_data dbg c (enc_data c d ++ rest) = Ok (d, rest).
Proof.
  intros Hw. unfold wf_data in Hw. unfold parse_data, enc_data. destruct (5 <=? c_version c).
  - wf_split. repeat rt_step. apply split_app.
  - rewrite <- app_assoc. unfold read_u16. rewrite read_un_enc. cbn [bind].
    rewrite N.mod_small by (change (256 ^ N.of_nat 2) with 65536; lia). apply split_app.
Qed.

Lemma loc_parse_lle_end dbg c rest : loc_parse dbg c false (n2b 0 :: rest) = Ok (None, rest).
Proof. reflexivity. Qed.

Section LleEntries.
  Variables (dbg : bool) (c : lcfg) (rest : list byte).
  Hypothesis Hv : valid_asize (c_asize c) = true.

  Ltac lle_go := intros; unfold loc_parse; cbn [enc_lle]; opcode_start; repeat rt_step;
    try (rewrite parse_data_enc by assumption); reflexivity.

  Lemma lle_basex i : i < two64 ->
    loc_parse dbg c false (enc_lle c (LBasex i, []) ++ rest) = Ok (Some (LBasex i, []), rest).
  Proof. lle_go. Qed.
  Lemma lle_base a : a < amod (c_asize c) ->
    loc_parse dbg c false (enc_lle c (LBase a, []) ++ rest) = Ok (Some (LBase a, []), rest).
  Proof. lle_go. Qed.
  Lemma lle_sxex i j d : i < two64 -> j < two64 -> wf_data c d = true ->
    loc_parse dbg c false (enc_lle c (LStartxEndx i j, d) ++ rest) = Ok (Some (LStartxEndx i j, d), rest).
  Proof. lle_go. Qed.
  Lemma lle_sxlen i l d : i < two64 ->
    (if 5 <=? c_version c then fits_u64 l else l <? 4294967296) = true -> wf_data c d = true ->
    loc_parse dbg c false (enc_lle c (LStartxLength i l, d) ++ rest) = Ok (Some (LStartxLength i l, d), rest).
  Proof.
    intros Hi Hl Hd. unfold loc_parse. cbn [enc_lle]. opcode_start. repeat rt_step.
    destruct (5 <=? c_version c).
    - wf_split. repeat rt_step. rewrite parse_data_enc by assumption. reflexivity.
    - repeat rewrite <- app_assoc. unfold read_u32. rewrite read_un_enc. cbn [bind].
      rewrite N.mod_small by (change (256 ^ N.of_nat 4) with 4294967296; lia).
      rewrite parse_data_enc by assumption. reflexivity.
  Qed.
  Lemma lle_offp b e d : b < two64 -> e < two64 -> wf_data c d = true ->
    loc_parse dbg c false (enc_lle c (LOffsetPair b e, d) ++ rest) = Ok (Some (LOffsetPair b e, d), rest).
  Proof. lle_go. Qed.
  Lemma lle_dflt d : wf_data c d = true ->
    loc_parse dbg c false (enc_lle c (LDefault, d) ++ rest) = Ok (Some (LDefault, d), rest).
  Proof. lle_go. Qed.
  Lemma lle_se b e d : b < amod (c_asize c) -> e < amod (c_asize c) -> wf_data c d = true ->
    loc_parse dbg c false (enc_lle c (LStartEnd b e, d) ++ rest) = Ok (Some (LStartEnd b e, d), rest).
  Proof. lle_go. Qed.
  Lemma lle_sl b l d : b < amod (c_asize c) -> l < two64 -> wf_data c d = true ->
    loc_parse dbg c false (enc_lle c (LStartLength b l, d) ++ rest) = Ok (Some (LStartLength b l, d), rest).
  Proof. lle_go. Qed.
End LleEntries.

Lemma loc_parse_lle_enc dbg c x rest :
  valid_asize (c_asize c) = true -> wf_lle c x = true ->
  loc_parse dbg c false (enc_lle c x ++ rest) = Ok (Some x, rest).
Proof.
  intros Hv Hw. destruct x as [e d]. unfold wf_lle in Hw. apply andb_true_iff in Hw as [Hd Hw].
  destruct e; try discriminate Hw; cbn [has_data] in Hd;
    try (destruct d; [|discriminate Hd]).
  - wf_split. apply lle_base; assumption.
  - wf_split. apply lle_basex; assumption.
  - wf_split. apply lle_sxex; assumption.
  - apply andb_true_iff in Hw as [Hi Hl]. apply fits_u64_lt in Hi. apply lle_sxlen; assumption.
  - wf_split. apply lle_offp; assumption.
  - apply lle_dflt; assumption.
  - wf_split. apply lle_se; assumption.
  - wf_split. apply lle_sl; assumption.
Qed.

Lemma loc_parse_pair_enc dbg c x rest :
  valid_asize (c_asize c) = true -> wf_locpair c x = true ->
  loc_parse dbg c true (enc_locpair c x ++ rest) = Ok (Some x, rest).
Proof.
  intros Hv Hw. destruct x as [e d]. pose proof (aones_lt _ Hv) as [Ho Ho0]. unfold loc_parse.
  destruct e; try discriminate Hw; cbn [enc_locpair wf_locpair wf_pair] in *; wf_split.
  - repeat rewrite <- app_assoc. rewrite parse_raw_range_pair by assumption. cbn [bind].
    repeat match goal with H : ?x = false |- context [?x] => rewrite H end.
    unfold read_u16. rewrite read_un_enc. cbn [bind].
    rewrite N.mod_small by (change (256 ^ N.of_nat 2) with 65536; lia).
    rewrite split_app. reflexivity.
  - destruct d; [|discriminate]. rewrite <- app_assoc.
    rewrite parse_raw_range_pair by assumption. cbn [bind].
    replace ((aones (c_asize c) =? 0) && (a =? 0)) with false by lia.
    rewrite N.eqb_refl. reflexivity.
Qed.

Lemma loc_parse_pair_end dbg c rest :
  valid_asize (c_asize c) = true ->
  loc_parse dbg c true (enc_addr c 0 ++ enc_addr c 0 ++ rest) = Ok (None, rest).
Proof.
  intros Hv. pose proof (amod_valid _ Hv). unfold loc_parse.
  rewrite parse_raw_range_pair by (try assumption; lia). reflexivity.
Qed.

(* ------------------------------------------------------------------ indexed tables = mathematical lookup *)

Lemma skipn_skipn' {T} (a b : nat) (l : list T) : skipn a (skipn b l) = skipn (b + a) l.
Proof.
  revert l. induction b as [|b IH]; intros l; simpl; [reflexivity|].
  destruct l as [|x l]; [now rewrite skipn_nil|]. apply IH.
Qed.

Lemma read_un_at n be bs :
  read_un n be bs =
  if (n <=? length bs)%nat then Ok ((if be then be_val (firstn n bs) else le_val (firstn n bs)), skipn n bs)
  else Err EUnexpectedEof.
Proof.
  unfold read_un, read_bytes. destruct (n <=? length bs)%nat eqn:E.
  - rewrite take_firstn by lia. reflexivity.
  - destruct (take n bs) as [[h t]|] eqn:T; [|reflexivity].
    apply take_spec in T as [-> L]. rewrite app_length in E. lia.
Qed.

(* the common shape of get_address / get_offset / get_str_offset *)
Lemma table_lookup be (n : nat) (w : N) sect base index :
  w = N.of_nat n -> (0 < n)%nat -> N.of_nat (length sect) < two64 ->
  (let* r1 := skip base sect in
   match checked_mul64 index w with
   | None => Err EUnexpectedEof
   | Some io => let* r2 := skip io r1 in read_un n be r2
   end) =
  match word_at be n sect (base + index * w) with
  | Some v => Ok (v, skipn (N.to_nat (base + index * w) + n) sect)
  | None => Err EUnexpectedEof
  end.
Proof.
  intros Hw Hn Hlen. unfold word_at, skip, checked_mul64.
  destruct (N.of_nat (length sect) <? base) eqn:E1; cbn [bind].
  - replace (base + index * w + N.of_nat n <=? N.of_nat (length sect)) with false by lia. reflexivity.
  - destruct (index * w <? two64) eqn:E2.
    + rewrite skipn_length.
      destruct (N.of_nat (length sect - N.to_nat base) <? index * w) eqn:E3; cbn [bind].
      * replace (base + index * w + N.of_nat n <=? N.of_nat (length sect)) with false by lia. reflexivity.
      * rewrite read_un_at. rewrite !skipn_length.
        destruct (n <=? length sect - N.to_nat base - N.to_nat (index * w))%nat eqn:E4.
        -- replace (base + index * w + N.of_nat n <=? N.of_nat (length sect)) with true by lia.
           rewrite !skipn_skipn'. replace (N.to_nat base + N.to_nat (index * w))%nat with (N.to_nat (base + index * w)) by lia.
           reflexivity.
        -- replace (base + index * w + N.of_nat n <=? N.of_nat (length sect)) with false by lia. reflexivity.
    + replace (base + index * w + N.of_nat n <=? N.of_nat (length sect)) with false by lia. reflexivity.
Qed.

Lemma get_address_spec be sect asize base index :
  valid_asize asize = true -> N.of_nat (length sect) < two64 ->
  get_address be sect asize base index =
  match addr_table be asize sect base index with Some v => Ok v | None => Err EUnexpectedEof end.
Proof.
  intros Hv Hlen. unfold get_address, addr_table.
  assert (Hn : (0 < N.to_nat asize)%nat) by (apply valid_asize_cases in Hv; lia).
  pose proof (table_lookup be (N.to_nat asize) asize sect base index (eq_sym (N2Nat.id asize)) Hn Hlen) as T.
  cbn zeta in T.
  transitivity (let* (a, _) := (let* r1 := skip base sect in
                  match checked_mul64 index asize with
                  | Some io => let* r2 := skip io r1 in read_un (N.to_nat asize) be r2
                  | None => Err EUnexpectedEof end) in Ok a).
  - destruct (skip base sect) as [r1| | |]; cbn [bind]; try reflexivity.
    destruct (checked_mul64 index asize) as [io|]; cbn [bind]; [|reflexivity].
    destruct (skip io r1) as [r2| | |]; cbn [bind]; try reflexivity.
    rewrite read_address_eq by exact Hv. reflexivity.
  - rewrite T. destruct (word_at be (N.to_nat asize) sect (base + index * asize)); reflexivity.
Qed.

Definition wbytes (fmt64 : bool) : nat := if fmt64 then 8%nat else 4%nat.

Lemma read_word_eq f be bs : read_word f be bs = read_un (wbytes f) be bs.
Proof. destruct f; reflexivity. Qed.

Lemma get_offset_spec be fmt64 sect base index :
  N.of_nat (length sect) < two64 ->
  get_offset be fmt64 sect base index =
  match offset_table be fmt64 sect base index with
  | Some o => if o <? two64 then Ok o else Err EUnsupportedOffset
  | None => Err EUnexpectedEof
  end.
Proof.
  intros Hlen. unfold get_offset, offset_table.
  assert (Hw : word_size fmt64 = N.of_nat (wbytes fmt64)) by (destruct fmt64; reflexivity).
  assert (Hn : (0 < wbytes fmt64)%nat) by (destruct fmt64; simpl; lia).
  pose proof (table_lookup be (wbytes fmt64) (word_size fmt64) sect base index Hw Hn Hlen) as T.
  cbn zeta in T.
  transitivity (let* (off, _) := (let* r1 := skip base sect in
                  match checked_mul64 index (word_size fmt64) with
                  | Some io => let* r2 := skip io r1 in read_un (wbytes fmt64) be r2
                  | None => Err EUnexpectedEof end) in
                if base + off <? two64 then Ok (base + off) else Err EUnsupportedOffset).
  - destruct (skip base sect) as [r1| | |]; cbn [bind]; try reflexivity.
    destruct (checked_mul64 index (word_size fmt64)) as [io|]; cbn [bind]; [|reflexivity].
    destruct (skip io r1) as [r2| | |]; cbn [bind]; try reflexivity.
    rewrite read_word_eq. reflexivity.
  - rewrite T. change (if fmt64 then 8%nat else 4%nat) with (wbytes fmt64).
    destruct (word_at be (wbytes fmt64) sect (base + index * word_size fmt64)); reflexivity.
Qed.

Lemma get_str_offset_spec be fmt64 sect base index :
  N.of_nat (length sect) < two64 ->
  get_str_offset be fmt64 sect base index =
  match str_offset_table be fmt64 sect base index with Some o => Ok o | None => Err EUnexpectedEof end.
Proof.
  intros Hlen. unfold get_str_offset, str_offset_table.
  assert (Hw : word_size fmt64 = N.of_nat (wbytes fmt64)) by (destruct fmt64; reflexivity).
  assert (Hn : (0 < wbytes fmt64)%nat) by (destruct fmt64; simpl; lia).
  pose proof (table_lookup be (wbytes fmt64) (word_size fmt64) sect base index Hw Hn Hlen) as T.
  cbn zeta in T.
  transitivity (let* (off, _) := (let* r1 := skip base sect in
                  match checked_mul64 index (word_size fmt64) with
                  | Some io => let* r2 := skip io r1 in read_un (wbytes fmt64) be r2
                  | None => Err EUnexpectedEof end) in Ok off).
  - destruct (skip base sect) as [r1| | |]; cbn [bind]; try reflexivity.
    destruct (checked_mul64 index (word_size fmt64)) as [io|]; cbn [bind]; [|reflexivity].
    destruct (skip io r1) as [r2| | |]; cbn [bind]; try reflexivity.
    rewrite read_word_eq. reflexivity.
  - rewrite T. change (if fmt64 then 8%nat else 4%nat) with (wbytes fmt64).
    destruct (word_at be (wbytes fmt64) sect (base + index * word_size fmt64)); reflexivity.
Qed.

(* invalid address sizes are rejected, never read with a wrong width *)
Lemma get_address_invalid be sect asize base index a :
  valid_asize asize = false -> get_address be sect asize base index <> Ok a.
Proof.
  intros Hv H. apply get_address_ok_valid in H. congruence.
Qed.

(* ------------------------------------------------------------------ resolution refines the spec *)

Definition idx_ok (e : lent) : Prop :=
  match e with
  | LBasex i => i < two64
  | LStartxEndx i j => i < two64 /\ j < two64
  | LStartxLength i _ => i < two64
  | _ => True
  end.

Lemma convert_raw_resolve1 dbg c x tbl base e base' o :
  valid_asize (c_asize c) = true ->
  (forall i, i < two64 ->
     ctx_address c x i = match tbl i with Some a => Ok a | None => Err EUnexpectedEof end) ->
  idx_ok e ->
  resolve1 (c_asize c) tbl base e = Some (base', o) ->
  convert_raw dbg c x base e =
  Ok (match o with Some r => if live (c_asize c) r then Some r else None | None => None end, base').
Proof.
  intros Hv Htbl Hidx Hr.
  assert (F : forall r : N * N,
    (let* tomb := Ok (atomb (c_asize c)) in
     if (tomb <=? fst r) || (snd r <=? fst r) then Ok (None, base) else Ok (Some r, base)) =
    Ok ((if live (c_asize c) r then Some r else None), base)).
  { intros r. cbn [bind]. unfold live.
    destruct ((atomb (c_asize c) <=? fst r) || (snd r <=? fst r)) eqn:E1;
      destruct ((fst r <? atomb (c_asize c)) && (fst r <? snd r)) eqn:E2; try reflexivity; lia. }
  unfold convert_raw. rewrite !min_tombstone_raw_valid by exact Hv.
  destruct e; cbn [resolve1 idx_ok] in *.
  - (* LPair *)
    destruct (atomb (c_asize c) <=? base) eqn:E; inversion Hr; subst; cbn [bind]; rewrite E; [reflexivity|].
    rewrite !wrapping_add_sized_raw_valid by exact Hv. cbn [bind]. apply F.
  - inversion Hr; subst. reflexivity.
  - rewrite Htbl by exact Hidx. destruct (tbl i); inversion Hr; subst. reflexivity.
  - destruct Hidx as [Hi Hj]. rewrite (Htbl i Hi), (Htbl j Hj).
    destruct (tbl i) as [b|]; [|discriminate]. destruct (tbl j) as [e|]; [|discriminate].
    inversion Hr; subst. cbn [bind]. apply F.
  - rewrite Htbl by exact Hidx. destruct (tbl i) as [b|]; [|discriminate]. inversion Hr; subst. cbn [bind].
    rewrite wrapping_add_sized_raw_valid by exact Hv. cbn [bind]. apply F.
  - destruct (atomb (c_asize c) <=? base) eqn:E; inversion Hr; subst; cbn [bind]; rewrite E; [reflexivity|].
    rewrite !wrapping_add_sized_raw_valid by exact Hv. cbn [bind]. apply F.
  - inversion Hr; subst. apply F.
  - inversion Hr; subst. apply F.
  - inversion Hr; subst. rewrite wrapping_add_sized_raw_valid by exact Hv. cbn [bind]. apply F.
Qed.

(* resolve_rng / resolve_loc as one function of the entry projection and the item constructor *)
Fixpoint resolve_gen {A B : Type} (ent : A -> lent) (mk : N * N -> A -> B)
         (sz : N) (tbl : N -> option N) (base : N) (es : list A) : option (list B) :=
  match es with
  | [] => Some []
  | a :: es' =>
      match resolve1 sz tbl base (ent a) with
      | None => None
      | Some (base', o) =>
          match resolve_gen ent mk sz tbl base' es' with
          | None => None
          | Some rs => Some (match o with Some r => if live sz r then mk r a :: rs else rs | None => rs end)
          end
      end
  end.

Lemma resolve_rng_gen sz tbl : forall es base,
  resolve_rng sz tbl base es = resolve_gen (fun e => e) (fun r _ => r) sz tbl base es.
Proof.
  induction es as [|e es IH]; intros base; simpl; [reflexivity|].
  destruct (resolve1 sz tbl base e) as [[b' o]|]; [|reflexivity]. now rewrite IH.
Qed.

Lemma resolve_loc_gen sz tbl : forall xs base,
  resolve_loc sz tbl base xs = resolve_gen fst (fun r (a : lloc) => (r, snd a)) sz tbl base xs.
Proof.
  induction xs as [|[e d] xs IH]; intros base; simpl; [reflexivity|].
  destruct (resolve1 sz tbl base e) as [[b' o]|]; [|reflexivity]. now rewrite IH.
Qed.

Lemma raw_next_nonempty {A} (parse : list byte -> res (option A * list byte)) inp :
  inp <> [] ->
  raw_next parse inp =
  match parse inp with
  | Ok (Some e, rest) => (Ok (Some e), rest)
  | Ok (None, _) => (Ok None, [])
  | Err e => (Err e, [])
  | Panic => (Panic, [])
  | OutOfFuel => (OutOfFuel, [])
  end.
Proof. destruct inp; [contradiction|reflexivity]. Qed.

Section EncList.
  Context {A : Type} (parse : list byte -> res (option A * list byte))
          (enc : A -> list byte) (wfA : A -> bool) (term : list byte).
  Hypothesis Hent : forall a rest, wfA a = true -> parse (enc a ++ rest) = Ok (Some a, rest).
  Hypothesis Hne : forall a, wfA a = true -> enc a <> [].
  Hypothesis Hterm : forall rest, parse (term ++ rest) = Ok (None, rest).
  Hypothesis Hterm_ne : term <> [].

  Definition enc_all (es : list A) : list byte := concat (map enc es) ++ term.

  Lemma enc_all_cons a es rest : (enc_all (a :: es)) ++ rest = enc a ++ (enc_all es ++ rest).
  Proof. unfold enc_all. simpl. now rewrite <- !app_assoc. Qed.

  Lemma raw_next_entry a more : wfA a = true -> raw_next parse (enc a ++ more) = (Ok (Some a), more).
  Proof.
    intros Hw. rewrite raw_next_nonempty.
    - now rewrite Hent.
    - intros E. apply app_eq_nil in E as [E _]. exact (Hne a Hw E).
  Qed.

  Lemma raw_next_term rest : raw_next parse (enc_all [] ++ rest) = (Ok None, []).
  Proof.
    unfold enc_all. simpl. rewrite raw_next_nonempty.
    - now rewrite Hterm.
    - intros E. apply app_eq_nil in E as [E _]. exact (Hterm_ne E).
  Qed.

  Lemma enc_all_length es : forallb wfA es = true -> (length es < length (enc_all es))%nat.
  Proof.
    unfold enc_all. induction es as [|a es IH]; intros Hw; simpl.
    - destruct term; [contradiction|simpl; lia].
    - apply andb_true_iff in Hw as [Ha Hw]. specialize (IH Hw).
      rewrite <- app_assoc, app_length. pose proof (Hne a Ha). destruct (enc a); [contradiction|simpl in *; lia].
  Qed.

  (* raw iteration returns exactly the encoded entries *)
  Lemma drain_raw_enc : forall es rest calls,
    forallb wfA es = true -> (length es < calls)%nat ->
    drain (raw_next parse) calls (enc_all es ++ rest) = Ok (map EvItem es).
  Proof.
    induction es as [|a es IH]; intros rest calls Hw Hc.
    - destruct calls as [|k]; [lia|]. cbn [drain]. rewrite raw_next_term. reflexivity.
    - destruct calls as [|k]; [simpl in Hc; lia|]. simpl in Hw. apply andb_true_iff in Hw as [Ha Hw].
      cbn [drain]. rewrite enc_all_cons, raw_next_entry by exact Ha.
      rewrite IH by (try assumption; simpl in Hc; lia). reflexivity.
  Qed.

  Lemma drain_raw_enc' es rest :
    forallb wfA es = true ->
    drain (raw_next parse) (length (enc_all es ++ rest) + 2) (enc_all es ++ rest) = Ok (map EvItem es).
  Proof.
    intros Hw. apply drain_raw_enc; [exact Hw|].
    pose proof (enc_all_length es Hw). rewrite app_length. lia.
  Qed.

  (* ---- resolved iteration *)
  Context {B : Type} (ent : A -> lent) (mk : N * N -> A -> B).
  Variables (dbg : bool) (c : lcfg) (x : lctx) (tbl : N -> option N).
  Hypothesis Hv : valid_asize (c_asize c) = true.
  Hypothesis Htbl : forall i, i < two64 ->
     ctx_address c x i = match tbl i with Some a => Ok a | None => Err EUnexpectedEof end.
  Hypothesis Hidx : forall a, wfA a = true -> idx_ok (ent a).

  Notation lnext := (list_next parse ent mk).
  Notation rgen := (resolve_gen ent mk (c_asize c) tbl).

  Lemma list_next_enc : forall es base fuel rs rest,
    forallb wfA es = true -> (length es < fuel)%nat -> rgen base es = Some rs ->
    match rs with
    | [] => exists base', lnext fuel dbg c x {| s_inp := enc_all es ++ rest; s_base := base |}
                          = (Ok None, {| s_inp := []; s_base := base' |})
    | r :: rs' => exists es' base',
         lnext fuel dbg c x {| s_inp := enc_all es ++ rest; s_base := base |}
         = (Ok (Some r), {| s_inp := enc_all es' ++ rest; s_base := base' |}) /\
         rgen base' es' = Some rs' /\ forallb wfA es' = true /\ (length es' < length es)%nat
    end.
  Proof.
    induction es as [|a es IH]; intros base fuel rs rest Hw Hf Hr.
    - simpl in Hr. inversion Hr; subst. destruct fuel as [|f]; [lia|].
      exists base. cbn [list_next s_inp s_base]. rewrite raw_next_term. reflexivity.
    - destruct fuel as [|f]; [simpl in Hf; lia|]. simpl in Hw. apply andb_true_iff in Hw as [Ha Hw].
      cbn [resolve_gen] in Hr.
      destruct (resolve1 (c_asize c) tbl base (ent a)) as [[base1 o]|] eqn:R1; [|discriminate].
      destruct (rgen base1 es) as [rs1|] eqn:R2; [|discriminate].
      pose proof (convert_raw_resolve1 dbg c x tbl base (ent a) base1 o Hv Htbl (Hidx a Ha) R1) as Hc.
      cbn [list_next s_inp s_base]. rewrite enc_all_cons, raw_next_entry by exact Ha. rewrite Hc.
      assert (Hf' : (length es < f)%nat) by (simpl in Hf; lia).
      destruct o as [r|].
      + destruct (live (c_asize c) r).
        * inversion Hr; subst. exists es, base1. repeat split; auto.
        * inversion Hr; subst. specialize (IH base1 f rs rest Hw Hf' R2).
          destruct rs as [|r0 rs']; [exact IH|].
          destruct IH as [es' [b' [E1 [E2 [E3 E4]]]]]. exists es', b'. repeat split; auto. simpl. lia.
      + inversion Hr; subst. specialize (IH base1 f rs rest Hw Hf' R2).
        destruct rs as [|r0 rs']; [exact IH|].
        destruct IH as [es' [b' [E1 [E2 [E3 E4]]]]]. exists es', b'. repeat split; auto. simpl. lia.
  Qed.

  Lemma drain_list_enc : forall n es base rs rest calls,
    (length es < n)%nat -> forallb wfA es = true -> rgen base es = Some rs -> (length es < calls)%nat ->
    drain (fun s => lnext (next_fuel s) dbg c x s) calls {| s_inp := enc_all es ++ rest; s_base := base |}
    = Ok (map EvItem rs).
  Proof.
    induction n as [|n IH]; intros es base rs rest calls Hn Hw Hr Hc; [lia|].
    destruct calls as [|k]; [lia|].
    assert (Hfuel : (length es < next_fuel {| s_inp := enc_all es ++ rest; s_base := base |})%nat).
    { unfold next_fuel. cbn [s_inp]. rewrite app_length. pose proof (enc_all_length es Hw). lia. }
    pose proof (list_next_enc es base _ rs rest Hw Hfuel Hr) as L.
    cbn [drain]. destruct rs as [|r rs'].
    - destruct L as [b' L]. rewrite L. reflexivity.
    - destruct L as [es' [b' [L [R' [W' Len]]]]]. rewrite L.
      rewrite (IH es' b' rs' rest k) by (try assumption; lia). reflexivity.
  Qed.

  Lemma drain_list_enc' es base rs rest :
    forallb wfA es = true -> rgen base es = Some rs ->
    drain (fun s => lnext (next_fuel s) dbg c x s) (length (enc_all es ++ rest) + 2)
          {| s_inp := enc_all es ++ rest; s_base := base |}
    = Ok (map EvItem rs).
  Proof.
    intros Hw Hr. apply (drain_list_enc (S (length es))); try assumption; try lia.
    pose proof (enc_all_length es Hw). rewrite app_length. lia.
  Qed.
End EncList.

(* ------------------------------------------------------------------ the four encodings as instances *)

Lemma enc_addr_ne c a : valid_asize (c_asize c) = true -> enc_addr c a <> [].
Proof.
  intros Hv E. apply (f_equal (@length byte)) in E. unfold enc_addr in E. rewrite enc_un_length in E.
  apply valid_asize_cases in Hv. simpl in E. lia.
Qed.

Lemma enc_rle_ne c e : wf_rle c e = true -> enc_rle c e <> [].
Proof. destruct e; simpl; intros H; try discriminate H; discriminate. Qed.

Lemma enc_pair_ne c e : valid_asize (c_asize c) = true -> wf_pair c e = true -> enc_pair c e <> [].
Proof.
  intros Hv. destruct e; simpl; intros H; try discriminate H; intros E; apply app_eq_nil in E as [E _];
    exact (enc_addr_ne c _ Hv E).
Qed.

Lemma enc_lle_ne c x : wf_lle c x = true -> enc_lle c x <> [].
Proof. destruct x as [e d]. destruct e; simpl; intros H; try discriminate H; try discriminate.
       rewrite andb_false_r in H. discriminate H. Qed.

Lemma enc_locpair_ne c x : valid_asize (c_asize c) = true -> wf_locpair c x = true -> enc_locpair c x <> [].
Proof.
  intros Hv. destruct x as [e d]. destruct e; simpl; intros H; try discriminate H; intros E; apply app_eq_nil in E as [E _];
    exact (enc_addr_ne c _ Hv E).
Qed.

Lemma wf_rle_idx c e : wf_rle c e = true -> idx_ok e.
Proof. destruct e; simpl; intros H; try exact I; wf_split; auto. Qed.

Lemma wf_pair_idx c e : wf_pair c e = true -> idx_ok e.
Proof. destruct e; simpl; intros H; try exact I; discriminate H. Qed.

Lemma wf_lle_idx c x : wf_lle c x = true -> idx_ok (fst x).
Proof.
  destruct x as [e d]. unfold wf_lle. intros H. apply andb_true_iff in H as [_ H].
  destruct e; simpl; try exact I; wf_split; auto.
Qed.

Lemma wf_locpair_idx c x : wf_locpair c x = true -> idx_ok (fst x).
Proof. destruct x as [e d]. destruct e; simpl; intros H; try exact I; discriminate H. Qed.

Lemma skip_pre (pre l : list byte) : skip (N.of_nat (length pre)) (pre ++ l) = Ok l.
Proof.
  unfold skip. rewrite app_length. replace (N.of_nat (length pre + length l) <? N.of_nat (length pre)) with false by lia.
  rewrite Nat2N.id, skipn_app, Nat.sub_diag, skipn_all. reflexivity.
Qed.

Lemma addr_table_ctx c x :
  valid_asize (c_asize c) = true -> N.of_nat (length (x_addr x)) < two64 ->
  forall i, i < two64 ->
  ctx_address c x i =
  match addr_table (c_be c) (c_asize c) (x_addr x) (x_addr_base x) i with
  | Some a => Ok a | None => Err EUnexpectedEof end.
Proof. intros Hv Hl i _. unfold ctx_address. now apply get_address_spec. Qed.

Section Instances.
  Variables (dbg : bool) (c : lcfg).
  Hypothesis Hv : valid_asize (c_asize c) = true.

  Let term_pair := enc_addr c 0 ++ enc_addr c 0.
  Lemma term_pair_ne : term_pair <> [].
  Proof. intros E. apply app_eq_nil in E as [E _]. exact (enc_addr_ne c 0 Hv E). Qed.
  Lemma rng_pair_term rest : rng_parse dbg c true (term_pair ++ rest) = Ok (None, rest).
  Proof. unfold term_pair. rewrite <- app_assoc. now apply rng_parse_pair_end. Qed.
  Lemma loc_pair_term rest : loc_parse dbg c true (term_pair ++ rest) = Ok (None, rest).
  Proof. unfold term_pair. rewrite <- app_assoc. now apply loc_parse_pair_end. Qed.
  Lemma term_op_ne : [n2b 0] <> [].
  Proof. discriminate. Qed.

  (* ---- raw iteration *)
  Lemma rng_raw_drain_enc es rest :
    forallb (wf_rng c) es = true ->
    rng_raw_drain dbg c (rng_bare c) (enc_rng_list c es ++ rest) = Ok (map EvItem es).
  Proof.
    unfold wf_rng, enc_rng_list, rng_raw_drain, rng_raw_next. destruct (rng_bare c); intros Hw.
    - exact (drain_raw_enc' (rng_parse dbg c true) (enc_pair c) (wf_pair c) term_pair
               (fun a r => rng_parse_pair_enc dbg c a r Hv) (fun a => enc_pair_ne c a Hv)
               rng_pair_term term_pair_ne es rest Hw).
    - exact (drain_raw_enc' (rng_parse dbg c false) (enc_rle c) (wf_rle c) [n2b 0]
               (fun a r => rng_parse_rle_enc dbg c a r Hv) (enc_rle_ne c)
               (rng_parse_rle_end dbg c) term_op_ne es rest Hw).
  Qed.

  Lemma loc_raw_drain_enc dwo xs rest :
    forallb (wf_loc c dwo) xs = true ->
    loc_raw_drain dbg c (loc_bare c dwo) (enc_loc_list c dwo xs ++ rest) = Ok (map EvItem xs).
  Proof.
    unfold wf_loc, enc_loc_list, loc_raw_drain, loc_raw_next. destruct (loc_bare c dwo); intros Hw.
    - exact (drain_raw_enc' (loc_parse dbg c true) (enc_locpair c) (wf_locpair c) term_pair
               (fun a r => loc_parse_pair_enc dbg c a r Hv) (fun a => enc_locpair_ne c a Hv)
               loc_pair_term term_pair_ne xs rest Hw).
    - exact (drain_raw_enc' (loc_parse dbg c false) (enc_lle c) (wf_lle c) [n2b 0]
               (fun a r => loc_parse_lle_enc dbg c a r Hv) (enc_lle_ne c)
               (loc_parse_lle_end dbg c) term_op_ne xs rest Hw).
  Qed.

  (* ---- resolved iteration *)
  Variable x : lctx.
  Hypothesis Hlen : N.of_nat (length (x_addr x)) < two64.
  Notation tbl := (addr_table (c_be c) (c_asize c) (x_addr x) (x_addr_base x)).

  Lemma rng_drain_enc es rest base rs :
    forallb (wf_rng c) es = true ->
    resolve_rng (c_asize c) tbl base es = Some rs ->
    rng_drain dbg c (rng_bare c) x {| s_inp := enc_rng_list c es ++ rest; s_base := base |} = Ok (map EvItem rs).
  Proof.
    rewrite resolve_rng_gen.
    unfold wf_rng, enc_rng_list, rng_drain, rng_next. destruct (rng_bare c); intros Hw Hr; cbn [s_inp].
    - exact (drain_list_enc' (rng_parse dbg c true) (enc_pair c) (wf_pair c) term_pair
               (fun a r => rng_parse_pair_enc dbg c a r Hv) (fun a => enc_pair_ne c a Hv)
               rng_pair_term term_pair_ne (fun e : lent => e) (fun rg _ => rg) dbg c x tbl Hv
               (addr_table_ctx c x Hv Hlen) (wf_pair_idx c) es base rs rest Hw Hr).
    - exact (drain_list_enc' (rng_parse dbg c false) (enc_rle c) (wf_rle c) [n2b 0]
               (fun a r => rng_parse_rle_enc dbg c a r Hv) (enc_rle_ne c)
               (rng_parse_rle_end dbg c) term_op_ne (fun e : lent => e) (fun rg _ => rg) dbg c x tbl Hv
               (addr_table_ctx c x Hv Hlen) (wf_rle_idx c) es base rs rest Hw Hr).
  Qed.

  Lemma loc_drain_enc dwo xs rest base rs :
    forallb (wf_loc c dwo) xs = true ->
    resolve_loc (c_asize c) tbl base xs = Some rs ->
    loc_drain dbg c (loc_bare c dwo) x {| s_inp := enc_loc_list c dwo xs ++ rest; s_base := base |} = Ok (map EvItem rs).
  Proof.
    rewrite resolve_loc_gen.
    unfold wf_loc, enc_loc_list, loc_drain, loc_next. destruct (loc_bare c dwo); intros Hw Hr; cbn [s_inp].
    - exact (drain_list_enc' (loc_parse dbg c true) (enc_locpair c) (wf_locpair c) term_pair
               (fun a r => loc_parse_pair_enc dbg c a r Hv) (fun a => enc_locpair_ne c a Hv)
               loc_pair_term term_pair_ne (@fst lent (list byte)) (fun rg (a : lloc) => (rg, snd a)) dbg c x tbl Hv
               (addr_table_ctx c x Hv Hlen) (wf_locpair_idx c) xs base rs rest Hw Hr).
    - exact (drain_list_enc' (loc_parse dbg c false) (enc_lle c) (wf_lle c) [n2b 0]
               (fun a r => loc_parse_lle_enc dbg c a r Hv) (enc_lle_ne c)
               (loc_parse_lle_end dbg c) term_op_ne (@fst lent (list byte)) (fun rg (a : lloc) => (rg, snd a)) dbg c x tbl Hv
               (addr_table_ctx c x Hv Hlen) (wf_lle_idx c) xs base rs rest Hw Hr).
  Qed.
End Instances.

(* ------------------------------------------------------------------ entry points *)

Lemma raw_ranges_sel c pre l other :
  raw_ranges c (if rng_bare c then pre ++ l else other) (if rng_bare c then other else pre ++ l)
             (N.of_nat (length pre)) = Ok (l, rng_bare c).
Proof.
  unfold raw_ranges, rng_bare. destruct (c_version c <=? 4); rewrite skip_pre; reflexivity.
Qed.

Lemma raw_locations_sel c dwo pre l other :
  raw_locations c dwo (if c_version c <=? 4 then pre ++ l else other)
                (if c_version c <=? 4 then other else pre ++ l)
                (N.of_nat (length pre)) = Ok (l, loc_bare c dwo).
Proof.
  unfold raw_locations, loc_bare. destruct (c_version c <=? 4); rewrite skip_pre; reflexivity.
Qed.

Lemma raw_ranges_len c dr drl off inp bare :
  raw_ranges c dr drl off = Ok (inp, bare) -> (length inp <= Nat.max (length dr) (length drl))%nat.
Proof.
  unfold raw_ranges, skip. destruct (c_version c <=? 4);
    destruct (_ <? off); simpl; intros H; inversion H; subst; rewrite skipn_length; lia.
Qed.

Lemma raw_locations_len c dwo dl dll off inp bare :
  raw_locations c dwo dl dll off = Ok (inp, bare) -> (length inp <= Nat.max (length dl) (length dll))%nat.
Proof.
  unfold raw_locations, skip. destruct (c_version c <=? 4);
    destruct (_ <? off); simpl; intros H; inversion H; subst; rewrite skipn_length; lia.
Qed.

(* ---- the drains of the four iterators *)
Section Drains.
  Variables (dbg : bool) (c : lcfg) (bare : bool) (x : lctx).

  Definition inp_len (s : lstate) : nat := length (s_inp s).

  Lemma rng_step_dec s r s' :
    rng_next (next_fuel s) dbg c bare x s = (r, s') ->
    (exists a, r = Ok (Some a)) \/ (exists e, r = Err e) -> (inp_len s' < inp_len s)%nat.
  Proof.
    intros H. eapply list_next_progress in H; [|apply rng_parse_good|apply rng_parse_len].
    unfold inp_len. tauto.
  Qed.
  Lemma loc_step_dec s r s' :
    loc_next (next_fuel s) dbg c bare x s = (r, s') ->
    (exists a, r = Ok (Some a)) \/ (exists e, r = Err e) -> (inp_len s' < inp_len s)%nat.
  Proof.
    intros H. eapply list_next_progress in H; [|apply loc_parse_good|apply loc_parse_len].
    unfold inp_len. tauto.
  Qed.
  Lemma rng_step_nf s : fst (rng_next (next_fuel s) dbg c bare x s) <> OutOfFuel.
  Proof. apply list_next_fuel; [apply rng_parse_good|apply rng_parse_len|unfold next_fuel; lia]. Qed.
  Lemma loc_step_nf s : fst (loc_next (next_fuel s) dbg c bare x s) <> OutOfFuel.
  Proof. apply list_next_fuel; [apply loc_parse_good|apply loc_parse_len|unfold next_fuel; lia]. Qed.

  Lemma rng_drain_good s : valid_asize (c_asize c) = true -> good (rng_drain dbg c bare x s).
  Proof.
    intros Hv. unfold rng_drain. split.
    - apply drain_np. intros s0. apply list_next_np; [apply rng_parse_good|exact Hv].
    - apply (drain_fuel _ inp_len rng_step_dec rng_step_nf). unfold inp_len. lia.
  Qed.
  Lemma loc_drain_good s : valid_asize (c_asize c) = true -> good (loc_drain dbg c bare x s).
  Proof.
    intros Hv. unfold loc_drain. split.
    - apply drain_np. intros s0. apply list_next_np; [apply loc_parse_good|exact Hv].
    - apply (drain_fuel _ inp_len loc_step_dec loc_step_nf). unfold inp_len. lia.
  Qed.

  (* fuel never runs out, for any configuration *)
  Lemma rng_drain_nf s : rng_drain dbg c bare x s <> OutOfFuel.
  Proof. apply (drain_fuel _ inp_len rng_step_dec rng_step_nf). unfold inp_len. lia. Qed.
  Lemma loc_drain_nf s : loc_drain dbg c bare x s <> OutOfFuel.
  Proof. apply (drain_fuel _ inp_len loc_step_dec loc_step_nf). unfold inp_len. lia. Qed.

  Lemma rng_drain_bound s l : rng_drain dbg c bare x s = Ok l -> (length l <= length (s_inp s))%nat.
  Proof. intros H. exact (drain_length _ inp_len rng_step_dec rng_step_nf _ _ _ H). Qed.
  Lemma loc_drain_bound s l : loc_drain dbg c bare x s = Ok l -> (length l <= length (s_inp s))%nat.
  Proof. intros H. exact (drain_length _ inp_len loc_step_dec loc_step_nf _ _ _ H). Qed.

  Lemma rng_drain_yield s l r :
    rng_drain dbg c bare x s = Ok l -> In (EvItem r) l ->
    fst r < snd r /\ exists t, min_tombstone_raw dbg (c_asize c) = Ok t /\ fst r < t.
  Proof.
    unfold rng_drain. intros H Hin.
    eapply (drain_items _ (fun r => fst r < snd r /\ exists t, min_tombstone_raw dbg (c_asize c) = Ok t /\ fst r < t));
      [|exact H|exact Hin].
    intros s0 a s1 Hn. unfold rng_next in Hn. apply list_next_yield in Hn as [rg [a0 [-> Hy]]]. exact Hy.
  Qed.
  Lemma loc_drain_yield s l r d :
    loc_drain dbg c bare x s = Ok l -> In (EvItem (r, d)) l ->
    fst r < snd r /\ exists t, min_tombstone_raw dbg (c_asize c) = Ok t /\ fst r < t.
  Proof.
    unfold loc_drain. intros H Hin.
    eapply (drain_items _ (fun it : (N * N) * list byte =>
              fst (fst it) < snd (fst it) /\ exists t, min_tombstone_raw dbg (c_asize c) = Ok t /\ fst (fst it) < t))
      in H; [|clear H Hin|exact Hin]; [exact H|].
    intros s0 a s1 Hn. unfold loc_next in Hn. apply list_next_yield in Hn as [rg [a0 [-> Hy]]]. exact Hy.
  Qed.

  (* raw iterators: any configuration *)
  Lemma raw_step_dec {A} (parse : list byte -> res (option A * list byte))
        (Hg : forall inp, good (parse inp))
        (Hl : forall inp o r, parse inp = Ok (o, r) -> (length r < length inp)%nat) inp r inp' :
    raw_next parse inp = (r, inp') ->
    (exists a, r = Ok (Some a)) \/ (exists e, r = Err e) -> (length inp' < length inp)%nat.
  Proof.
    intros H [[a ->]|[e ->]].
    - now apply (raw_next_some parse Hl) in H.
    - pose proof (raw_next_err_nonempty parse _ _ _ H). apply raw_next_stop in H; [|discriminate].
      subst. destruct inp; [contradiction|simpl; lia].
  Qed.

  Lemma rng_raw_drain_good inp : good (rng_raw_drain dbg c bare inp).
  Proof.
    unfold rng_raw_drain, rng_raw_next. split.
    - apply drain_np. intros s. apply raw_next_good, rng_parse_good.
    - apply (drain_fuel _ (@length byte)); [| |lia].
      + intros s r s'. apply raw_step_dec; [apply rng_parse_good|apply rng_parse_len].
      + intros s. apply raw_next_good, rng_parse_good.
  Qed.
  Lemma loc_raw_drain_good inp : good (loc_raw_drain dbg c bare inp).
  Proof.
    unfold loc_raw_drain, loc_raw_next. split.
    - apply drain_np. intros s. apply raw_next_good, loc_parse_good.
    - apply (drain_fuel _ (@length byte)); [| |lia].
      + intros s r s'. apply raw_step_dec; [apply loc_parse_good|apply loc_parse_len].
      + intros s. apply raw_next_good, loc_parse_good.
  Qed.
End Drains.

(* ---- through RangeLists::ranges / LocationLists::locations(_dwo) *)

Lemma ranges_all_yield dbg c x dr drl off base l r :
  ranges_all dbg c x dr drl off base = Ok l -> In (EvItem r) l ->
  fst r < snd r /\ exists t, min_tombstone_raw dbg (c_asize c) = Ok t /\ fst r < t.
Proof.
  unfold ranges_all. intros H Hin. apply bind_Ok in H as [[inp bare] [_ H]].
  eapply rng_drain_yield; eassumption.
Qed.

Lemma locations_all_yield dbg c dwo x dl dll off base l r d :
  locations_all dbg c dwo x dl dll off base = Ok l -> In (EvItem (r, d)) l ->
  fst r < snd r /\ exists t, min_tombstone_raw dbg (c_asize c) = Ok t /\ fst r < t.
Proof.
  unfold locations_all. intros H Hin. apply bind_Ok in H as [[inp bare] [_ H]].
  eapply loc_drain_yield; eassumption.
Qed.

Lemma raw_ranges_good c dr drl off : good (raw_ranges c dr drl off).
Proof.
  unfold raw_ranges. destruct (c_version c <=? 4);
    (apply good_bind; [apply skip_good|intros; apply good_Ok]).
Qed.
Lemma raw_locations_good c dwo dl dll off : good (raw_locations c dwo dl dll off).
Proof.
  unfold raw_locations. destruct (c_version c <=? 4);
    (apply good_bind; [apply skip_good|intros; apply good_Ok]).
Qed.

Lemma ranges_all_good dbg c x dr drl off base :
  valid_asize (c_asize c) = true -> good (ranges_all dbg c x dr drl off base).
Proof.
  intros Hv. unfold ranges_all. apply good_bind; [apply raw_ranges_good|]. intros [inp bare] _.
  now apply rng_drain_good.
Qed.
Lemma locations_all_good dbg c dwo x dl dll off base :
  valid_asize (c_asize c) = true -> good (locations_all dbg c dwo x dl dll off base).
Proof.
  intros Hv. unfold locations_all. apply good_bind; [apply raw_locations_good|]. intros [inp bare] _.
  now apply loc_drain_good.
Qed.
Lemma raw_ranges_all_good dbg c dr drl off : good (raw_ranges_all dbg c dr drl off).
Proof.
  unfold raw_ranges_all. apply good_bind; [apply raw_ranges_good|]. intros [inp bare] _.
  apply rng_raw_drain_good.
Qed.
Lemma raw_locations_all_good dbg c dwo dl dll off : good (raw_locations_all dbg c dwo dl dll off).
Proof.
  unfold raw_locations_all. apply good_bind; [apply raw_locations_good|]. intros [inp bare] _.
  apply loc_raw_drain_good.
Qed.

Lemma ranges_all_nf dbg c x dr drl off base : ranges_all dbg c x dr drl off base <> OutOfFuel.
Proof.
  unfold ranges_all. apply bind_nf; [apply raw_ranges_good|]. intros [inp bare] _. apply rng_drain_nf.
Qed.
Lemma locations_all_nf dbg c dwo x dl dll off base : locations_all dbg c dwo x dl dll off base <> OutOfFuel.
Proof.
  unfold locations_all. apply bind_nf; [apply raw_locations_good|]. intros [inp bare] _. apply loc_drain_nf.
Qed.

Lemma ranges_all_bound dbg c x dr drl off base l :
  ranges_all dbg c x dr drl off base = Ok l -> (length l <= Nat.max (length dr) (length drl))%nat.
Proof.
  unfold ranges_all. intros H. apply bind_Ok in H as [[inp bare] [H0 H]].
  apply raw_ranges_len in H0. apply rng_drain_bound in H. simpl in H. lia.
Qed.
Lemma locations_all_bound dbg c dwo x dl dll off base l :
  locations_all dbg c dwo x dl dll off base = Ok l -> (length l <= Nat.max (length dl) (length dll))%nat.
Proof.
  unfold locations_all. intros H. apply bind_Ok in H as [[inp bare] [H0 H]].
  apply raw_locations_len in H0. apply loc_drain_bound in H. simpl in H. lia.
Qed.

(* ---- round trip and refinement through the entry points *)

Lemma raw_ranges_all_enc dbg c es pre rest other :
  valid_asize (c_asize c) = true -> forallb (wf_rng c) es = true ->
  raw_ranges_all dbg c (if rng_bare c then pre ++ enc_rng_list c es ++ rest else other)
                       (if rng_bare c then other else pre ++ enc_rng_list c es ++ rest)
                       (N.of_nat (length pre))
  = Ok (map EvItem es).
Proof.
  intros Hv Hw. unfold raw_ranges_all. rewrite raw_ranges_sel. cbn [bind]. now apply rng_raw_drain_enc.
Qed.

Lemma raw_locations_all_enc dbg c dwo xs pre rest other :
  valid_asize (c_asize c) = true -> forallb (wf_loc c dwo) xs = true ->
  raw_locations_all dbg c dwo (if c_version c <=? 4 then pre ++ enc_loc_list c dwo xs ++ rest else other)
                              (if c_version c <=? 4 then other else pre ++ enc_loc_list c dwo xs ++ rest)
                              (N.of_nat (length pre))
  = Ok (map EvItem xs).
Proof.
  intros Hv Hw. unfold raw_locations_all. rewrite raw_locations_sel. cbn [bind]. now apply loc_raw_drain_enc.
Qed.

Lemma ranges_all_enc dbg c x es pre rest other base rs :
  valid_asize (c_asize c) = true -> N.of_nat (length (x_addr x)) < two64 ->
  forallb (wf_rng c) es = true ->
  resolve_rng (c_asize c) (addr_table (c_be c) (c_asize c) (x_addr x) (x_addr_base x)) base es = Some rs ->
  ranges_all dbg c x (if rng_bare c then pre ++ enc_rng_list c es ++ rest else other)
                     (if rng_bare c then other else pre ++ enc_rng_list c es ++ rest)
                     (N.of_nat (length pre)) base
  = Ok (map EvItem rs).
Proof.
  intros Hv Hl Hw Hr. unfold ranges_all. rewrite raw_ranges_sel. cbn [bind]. now apply rng_drain_enc.
Qed.

Lemma locations_all_enc dbg c dwo x xs pre rest other base rs :
  valid_asize (c_asize c) = true -> N.of_nat (length (x_addr x)) < two64 ->
  forallb (wf_loc c dwo) xs = true ->
  resolve_loc (c_asize c) (addr_table (c_be c) (c_asize c) (x_addr x) (x_addr_base x)) base xs = Some rs ->
  locations_all dbg c dwo x (if c_version c <=? 4 then pre ++ enc_loc_list c dwo xs ++ rest else other)
                            (if c_version c <=? 4 then other else pre ++ enc_loc_list c dwo xs ++ rest)
                            (N.of_nat (length pre)) base
  = Ok (map EvItem rs).
Proof.
  intros Hv Hl Hw Hr. unfold locations_all. rewrite raw_locations_sel. cbn [bind]. now apply loc_drain_enc.
Qed.

(* ------------------------------------------------------------------ Dwarf-level helpers *)

Definition other_attr (p : aname * aval) : bool := match fst p with AtOther => true | _ => false end.

Lemma die_loop_other u : forall pre k low high size,
  forallb other_attr pre = true ->
  die_ranges_loop u (pre ++ k) low high size = die_ranges_loop u k low high size.
Proof.
  induction pre as [|[n v] pre IH]; intros k low high size H; [reflexivity|].
  simpl in H. apply andb_true_iff in H as [Hn H]. destruct n; try discriminate Hn.
  simpl. now apply IH.
Qed.

Lemma attr_address_good u v : good (attr_address u v).
Proof.
  destruct v; simpl; try apply good_Ok.
  apply good_bind; [apply get_address_good|intros; apply good_Ok].
Qed.

Lemma attr_ranges_good u v : good (attr_ranges u v).
Proof.
  unfold attr_ranges, attr_ranges_offset.
  apply good_bind.
  - destruct v; try apply good_Ok. apply good_bind; [apply get_offset_good|intros; apply good_Ok].
  - intros [off|] _; [|apply good_Ok].
    apply good_bind; [apply raw_ranges_good|]. intros [inp bare] _. apply good_Ok.
Qed.

Lemma die_ranges_loop_good u : forall attrs low high size, good (die_ranges_loop u attrs low high size).
Proof.
  induction attrs as [|[n v] attrs IH]; intros low high size.
  - simpl. destruct low as [b|]; [|apply good_Ok].
    destruct size as [m|]; [destruct (b + m <? two64); [apply good_Ok|apply good_Err]|].
    destruct high; apply good_Ok.
  - destruct n.
    + simpl. apply good_bind; [apply attr_address_good|]. intros [a|] _; [apply IH|apply good_Err].
    + assert (G : good (let* o := attr_address u v in
                        match o with Some a => die_ranges_loop u attrs low (Some a) size
                                   | None => Err EUnsupportedAttributeForm end)).
      { apply good_bind; [apply attr_address_good|]. intros [a|] _; [apply IH|apply good_Err]. }
      destruct v; try exact G. simpl. apply IH.
    + simpl. apply good_bind; [apply attr_ranges_good|]. intros [it|] _; [apply good_Ok|apply IH].
    + simpl. apply IH.
Qed.

(* die_ranges never panics, for any attribute list and configuration *)
Lemma die_ranges_good u attrs : good (die_ranges u attrs).
Proof. apply die_ranges_loop_good. Qed.

Lemma die_ranges_all_good dbg u attrs :
  valid_asize (c_asize (u_cfg u)) = true -> good (die_ranges_all dbg u attrs).
Proof.
  intros Hv. unfold die_ranges_all. apply good_bind; [apply die_ranges_good|].
  intros [[r|]|bare s] _; simpl; try apply good_Ok. now apply rng_drain_good.
Qed.

(* DW_AT_low_pc + DW_AT_high_pc of class address: [low, high) *)
Lemma die_lowhigh_addr u pre mid post lo hi :
  forallb other_attr pre = true -> forallb other_attr mid = true -> forallb other_attr post = true ->
  die_ranges u (pre ++ (AtLowPc, AvAddr lo) :: mid ++ (AtHighPc, AvAddr hi) :: post)
  = Ok (RiSingle (Some (lowhigh_addr lo hi))).
Proof.
  intros H1 H2 H3. unfold die_ranges. rewrite die_loop_other by exact H1. simpl.
  rewrite die_loop_other by exact H2. simpl.
  rewrite <- (app_nil_r post), die_loop_other by exact H3. reflexivity.
Qed.

(* DW_AT_high_pc of class constant: [low, low + n), or AddressOverflow when that leaves u64 *)
Lemma die_lowhigh_const u pre mid post lo n :
  forallb other_attr pre = true -> forallb other_attr mid = true -> forallb other_attr post = true ->
  die_ranges u (pre ++ (AtLowPc, AvAddr lo) :: mid ++ (AtHighPc, AvUdata n) :: post)
  = if lo + n <? two64 then Ok (RiSingle (Some (lowhigh_const lo n))) else Err EAddressOverflow.
Proof.
  intros H1 H2 H3. unfold die_ranges. rewrite die_loop_other by exact H1. simpl.
  rewrite die_loop_other by exact H2. simpl.
  rewrite <- (app_nil_r post), die_loop_other by exact H3. reflexivity.
Qed.

(* the same with the attributes in the other order *)
Lemma die_highlow_const u pre mid post lo n :
  forallb other_attr pre = true -> forallb other_attr mid = true -> forallb other_attr post = true ->
  die_ranges u (pre ++ (AtHighPc, AvUdata n) :: mid ++ (AtLowPc, AvAddr lo) :: post)
  = if lo + n <? two64 then Ok (RiSingle (Some (lowhigh_const lo n))) else Err EAddressOverflow.
Proof.
  intros H1 H2 H3. unfold die_ranges. rewrite die_loop_other by exact H1. simpl.
  rewrite die_loop_other by exact H2. simpl.
  rewrite <- (app_nil_r post), die_loop_other by exact H3. reflexivity.
Qed.

(* DW_AT_low_pc of form addrx goes through the unit's address table *)
Lemma die_lowx_high_const u pre mid post i lo n :
  forallb other_attr pre = true -> forallb other_attr mid = true -> forallb other_attr post = true ->
  valid_asize (c_asize (u_cfg u)) = true -> N.of_nat (length (u_debug_addr u)) < two64 ->
  addr_table (c_be (u_cfg u)) (c_asize (u_cfg u)) (u_debug_addr u) (u_addr_base u) i = Some lo ->
  die_ranges u (pre ++ (AtLowPc, AvAddrx i) :: mid ++ (AtHighPc, AvUdata n) :: post)
  = if lo + n <? two64 then Ok (RiSingle (Some (lowhigh_const lo n))) else Err EAddressOverflow.
Proof.
  intros H1 H2 H3 Hv Hl Ht. unfold die_ranges. rewrite die_loop_other by exact H1.
  cbn [die_ranges_loop attr_address]. unfold ctx_address, u_lctx. cbn [x_addr x_addr_base].
  rewrite get_address_spec by assumption. rewrite Ht. cbn [bind].
  rewrite die_loop_other by exact H2. simpl.
  rewrite <- (app_nil_r post), die_loop_other by exact H3. reflexivity.
Qed.

(* DW_AT_ranges: the list at the (possibly rebased) offset, resolved against the unit's low_pc *)
Lemma die_ranges_list dbg u pre post o :
  forallb other_attr pre = true ->
  die_ranges_all dbg u (pre ++ (AtRanges, AvRangesRef o) :: post)
  = ranges_all dbg (u_cfg u) (u_lctx u) (u_debug_ranges u) (u_debug_rnglists u)
               (if u_dwo u && (c_version (u_cfg u) <? 5) then (o + u_rnglists_base u) mod two64 else o)
               (u_low_pc u).
Proof.
  intros H1. unfold die_ranges_all, die_ranges. rewrite die_loop_other by exact H1.
  cbn [die_ranges_loop]. unfold attr_ranges, attr_ranges_offset, ranges_offset_from_raw, ranges_all, wrap64.
  cbn [bind].
  destruct (raw_ranges (u_cfg u) (u_debug_ranges u) (u_debug_rnglists u) _) as [[inp bare]|e| |]; reflexivity.
Qed.

Lemma die_ranges_listx dbg u pre post i off :
  forallb other_attr pre = true -> N.of_nat (length (u_debug_rnglists u)) < two64 ->
  offset_table (c_be (u_cfg u)) (u_fmt64 u) (u_debug_rnglists u) (u_rnglists_base u) i = Some off ->
  off < two64 ->
  die_ranges_all dbg u (pre ++ (AtRanges, AvRnglistx i) :: post)
  = ranges_all dbg (u_cfg u) (u_lctx u) (u_debug_ranges u) (u_debug_rnglists u) off (u_low_pc u).
Proof.
  intros H1 Hl Ht Ho. unfold die_ranges_all, die_ranges. rewrite die_loop_other by exact H1.
  cbn [die_ranges_loop]. unfold attr_ranges, attr_ranges_offset, ranges_all.
  rewrite get_offset_spec by exact Hl. rewrite Ht. replace (off <? two64) with true by lia. cbn [bind].
  destruct (raw_ranges (u_cfg u) (u_debug_ranges u) (u_debug_rnglists u) off) as [[inp bare]|e| |]; reflexivity.
Qed.

Lemma attr_locations_offset_x u i :
  N.of_nat (length (u_debug_loclists u)) < two64 ->
  attr_locations_offset u (AvLoclistx i) =
  match offset_table (c_be (u_cfg u)) (u_fmt64 u) (u_debug_loclists u) (u_loclists_base u) i with
  | Some o => if o <? two64 then Ok (Some o) else Err EUnsupportedOffset
  | None => Err EUnexpectedEof
  end.
Proof.
  intros Hl. unfold attr_locations_offset. rewrite get_offset_spec by exact Hl.
  destruct (offset_table _ _ _ _ _) as [o|]; [|reflexivity]. destruct (o <? two64); reflexivity.
Qed.

(* ------------------------------------------------------------------ unvalidated address sizes *)

(* RangeLists::ranges with a caller-made Encoding { address_size: 0 }: min_tombstone shifts by 64 *)
Definition badsize_cfg : lcfg := {| c_be := false; c_asize := 0; c_version := 5 |}.
Definition badsize_sect : list byte := [n2b 4; n2b 0; n2b 1; n2b 0].
Lemma ranges_all_badsize_panics :
  ranges_all true badsize_cfg {| x_addr := []; x_addr_base := 0 |} [] badsize_sect 0 0 = Panic.
Proof. vm_compute. reflexivity. Qed.
Lemma ranges_all_badsize_release :
  ranges_all false badsize_cfg {| x_addr := []; x_addr_base := 0 |} [] badsize_sect 0 0 = Ok [EvItem (0, 1)].
Proof. vm_compute. reflexivity. Qed.

(* ------------------------------------------------------------------ statements used verbatim by Properties/C08.v *)

Lemma c08_tombstone_threshold :
  forall dbg sz, valid_asize sz = true ->
    min_tombstone_raw dbg sz = Ok (2 ^ (8 * sz) - 2) /\ min_tombstone sz = 2 ^ (8 * sz) - 2.
Proof.
  intros dbg sz H. split; [exact (min_tombstone_raw_valid dbg sz H)|exact (min_tombstone_valid sz H)].
Qed.

Lemma c08_nonempty_below_tombstone_next :
  forall fuel dbg c bare x s r s',
    rng_next fuel dbg c bare x s = (Ok (Some r), s') ->
    fst r < snd r /\ exists t, min_tombstone_raw dbg (c_asize c) = Ok t /\ fst r < t.
Proof.
  intros fuel dbg c bare x s r s' H. unfold rng_next in H.
  apply list_next_yield in H as [rg [a [-> Hy]]]. exact Hy.
Qed.

Lemma c08_no_panic_tables :
  forall be f sect asize base index,
    good (get_address be sect asize base index) /\ good (get_offset be f sect base index) /\
    good (get_str_offset be f sect base index).
Proof.
  intros. split; [apply get_address_good|split; [apply get_offset_good|apply get_str_offset_good]].
Qed.

Lemma c08_no_panic_ranges_unvalidated_size_refuted :
  exists c x sect, ranges_all true c x [] sect 0 0 = Panic /\ valid_asize (c_asize c) = false.
Proof.
  exists badsize_cfg, {| x_addr := []; x_addr_base := 0 |}, badsize_sect.
  split; [exact ranges_all_badsize_panics|reflexivity].
Qed.

Lemma c08_fuel_suffices :
  forall dbg c dwo x s1 s2 offset base,
    ranges_all dbg c x s1 s2 offset base <> OutOfFuel /\
    locations_all dbg c dwo x s1 s2 offset base <> OutOfFuel.
Proof. intros. split; [apply ranges_all_nf|apply locations_all_nf]. Qed.

Lemma c08_iter_terminates :
  forall dbg c dwo x s1 s2 offset base,
    (forall l, ranges_all dbg c x s1 s2 offset base = Ok l -> (length l <= Nat.max (length s1) (length s2))%nat) /\
    (forall l, locations_all dbg c dwo x s1 s2 offset base = Ok l -> (length l <= Nat.max (length s1) (length s2))%nat).
Proof.
  intros. split; intros l H; [eapply ranges_all_bound|eapply locations_all_bound]; exact H.
Qed.

Lemma c08_iter_progress :
  forall fuel dbg c bare x s r s',
    rng_next fuel dbg c bare x s = (r, s') ->
    (length (s_inp s') <= length (s_inp s))%nat /\
    (r = Ok None -> s_inp s' = []) /\
    ((exists b, r = Ok (Some b)) \/ (exists e, r = Err e) -> (length (s_inp s') < length (s_inp s))%nat).
Proof.
  intros fuel dbg c bare x s r s'. unfold rng_next.
  apply list_next_progress; [apply rng_parse_good|apply rng_parse_len].
Qed.

Lemma c08_raw_iter_stops_after_error :
  forall dbg c bare inp e inp',
    (rng_raw_next dbg c bare inp = (Err e, inp') -> inp' = [] /\ rng_raw_next dbg c bare inp' = (Ok None, [])) /\
    (loc_raw_next dbg c bare inp = (Err e, inp') -> inp' = [] /\ loc_raw_next dbg c bare inp' = (Ok None, [])).
Proof.
  intros. split; intros H; apply raw_next_stop in H; try discriminate; subst; split; reflexivity.
Qed.
