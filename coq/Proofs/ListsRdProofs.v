(* Proofs/ListsRdProofs.v — lemmas about Model/ListsRd.v against Spec/ListSpec.v (property C08). *)
From Coq Require Import List NArith ZArith Bool Lia ZifyBool ZifyN ZifyNat.
From Coq.Strings Require Import Byte.
Require Import GV.Base.Res GV.Base.Byt GV.Base.Ints GV.Model.Leb GV.Model.Prim
               GV.Spec.LebSpec GV.Spec.ListSpec GV.Model.ListsRd.
Import ListNotations.
Local Open Scope N_scope.

Local Ltac Zify.zify_post_hook ::= Z.div_mod_to_equations.
Local Arguments N.add : simpl never.
Local Arguments N.sub : simpl never.
Local Arguments N.mul : simpl never.
Local Arguments N.shiftl : simpl never.
Local Arguments N.shiftr : simpl never.
Local Arguments N.land : simpl never.
Local Arguments N.lor : simpl never.
Local Arguments N.pow : simpl never.
Local Arguments N.div : simpl never.
Local Arguments N.modulo : simpl never.
Local Arguments N.of_nat : simpl never.
Local Arguments N.to_nat : simpl never.

(* ------------------------------------------------------------------ res helpers *)

Lemma bind_Ok {A B} (r : res A) (f : A -> res B) b :
  bind r f = Ok b -> exists a, r = Ok a /\ f a = Ok b.
Proof. destruct r; simpl; intros H; try discriminate; eauto. Qed.

Lemma bind_np {A B} (r : res A) (f : A -> res B) :
  r <> Panic -> (forall a, r = Ok a -> f a <> Panic) -> bind r f <> Panic.
Proof. destruct r; simpl; intros H1 H2; auto; try discriminate. Qed.

Lemma bind_nf {A B} (r : res A) (f : A -> res B) :
  r <> OutOfFuel -> (forall a, r = Ok a -> f a <> OutOfFuel) -> bind r f <> OutOfFuel.
Proof. destruct r; simpl; intros H1 H2; auto; try discriminate. Qed.

(* "good" = neither Panic nor OutOfFuel *)
Definition good {A} (r : res A) : Prop := r <> Panic /\ r <> OutOfFuel.

Lemma good_Ok {A} (a : A) : good (Ok a).
Proof. split; discriminate. Qed.
Lemma good_Err {A} e : good (@Err A e).
Proof. split; discriminate. Qed.
Lemma good_bind {A B} (r : res A) (f : A -> res B) :
  good r -> (forall a, r = Ok a -> good (f a)) -> good (bind r f).
Proof.
  intros [H1 H2] H. split.
  - apply bind_np; auto. intros a Ha. apply (H a Ha).
  - apply bind_nf; auto. intros a Ha. apply (H a Ha).
Qed.

(* ------------------------------------------------------------------ primitive readers: lengths *)

Lemma take_spec n : forall bs h t,
  take n bs = Some (h, t) -> bs = h ++ t /\ length h = n.
Proof.
  induction n as [|n IH]; intros bs h t H; simpl in H.
  - inversion H; subst. split; reflexivity.
  - destruct bs as [|b r]; try discriminate.
    destruct (take n r) as [[h' t']|] eqn:E; try discriminate.
    inversion H; subst. destruct (IH _ _ _ E) as [-> Hl]. split; simpl; congruence.
Qed.

Lemma take_app n : forall h t, length h = n -> take n (h ++ t) = Some (h, t).
Proof.
  induction n as [|n IH]; intros h t Hl.
  - destruct h; try discriminate. reflexivity.
  - destruct h as [|b h]; try discriminate. simpl. rewrite IH by (simpl in Hl; lia). reflexivity.
Qed.

Lemma take_none n : forall bs, take n bs = None -> (length bs < n)%nat.
Proof.
  induction n as [|n IH]; intros bs H; simpl in H; try discriminate.
  destruct bs as [|b r]; simpl; try lia.
  destruct (take n r) as [[h t]|] eqn:E; try discriminate. apply IH in E. lia.
Qed.

Lemma take_firstn n : forall bs, (n <= length bs)%nat -> take n bs = Some (firstn n bs, skipn n bs).
Proof.
  intros bs H. rewrite <- (firstn_skipn n bs) at 1. apply take_app.
  rewrite firstn_length. lia.
Qed.

Lemma read_un_len n be bs v r :
  read_un n be bs = Ok (v, r) -> length bs = (n + length r)%nat.
Proof.
  unfold read_un, read_bytes. destruct (take n bs) as [[h t]|] eqn:E; simpl; try discriminate.
  intros H; inversion H; subst. apply take_spec in E as [-> Hl]. rewrite app_length. lia.
Qed.

Lemma read_un_good n be bs : good (read_un n be bs).
Proof.
  unfold read_un, read_bytes. destruct (take n bs) as [[h t]|]; simpl; [apply good_Ok|apply good_Err].
Qed.

Lemma read_u8_len bs v r : read_u8 bs = Ok (v, r) -> length bs = S (length r).
Proof. destruct bs; simpl; intros H; inversion H; subst; reflexivity. Qed.

Lemma read_u8_good bs : good (read_u8 bs).
Proof. destruct bs; simpl; [apply good_Err|apply good_Ok]. Qed.

Lemma valid_asize_cases sz : valid_asize sz = true -> sz = 1 \/ sz = 2 \/ sz = 4 \/ sz = 8.
Proof. unfold valid_asize. lia. Qed.

Lemma read_address_ok sz be bs v r :
  read_address sz be bs = Ok (v, r) ->
  valid_asize sz = true /\ length bs = (N.to_nat sz + length r)%nat.
Proof.
  unfold read_address, valid_asize.
  destruct (sz =? 1) eqn:E1; [intros H; apply read_un_len in H; split; [reflexivity|]; assert (sz = 1) by lia; subst; exact H|].
  destruct (sz =? 2) eqn:E2; [intros H; apply read_un_len in H; split; [reflexivity|]; assert (sz = 2) by lia; subst; exact H|].
  destruct (sz =? 4) eqn:E4; [intros H; apply read_un_len in H; split; [reflexivity|]; assert (sz = 4) by lia; subst; exact H|].
  destruct (sz =? 8) eqn:E8; [intros H; apply read_un_len in H; split; [reflexivity|]; assert (sz = 8) by lia; subst; exact H|].
  discriminate.
Qed.

Lemma read_address_good sz be bs : good (read_address sz be bs).
Proof.
  unfold read_address.
  repeat match goal with |- good (if ?c then _ else _) => destruct c end;
    try apply read_un_good. apply good_Err.
Qed.

Lemma read_address_eq sz be bs :
  valid_asize sz = true -> read_address sz be bs = read_un (N.to_nat sz) be bs.
Proof.
  intros H. apply valid_asize_cases in H. destruct H as [-> | [-> | [-> | ->]]]; reflexivity.
Qed.

(* ---- ULEB128: never panics, consumes at least one byte *)

Lemma shl64_good dbg x s : s < 64 -> exists v, shl64 dbg x s = Ok v.
Proof. intros H. unfold shl64. replace (64 <=? s) with false by lia. eauto. Qed.

Lemma uleb_loop_good dbg : forall bs k res0,
  (k <= 9)%nat -> good (uleb_loop dbg res0 (7 * N.of_nat k) bs).
Proof.
  induction bs as [|b r IH]; intros k res0 Hk; simpl.
  - apply good_Err.
  - destruct ((7 * N.of_nat k =? 63) && negb (b2n b =? 0) && negb (b2n b =? 1)) eqn:E.
    + apply good_Err.
    + destruct (shl64_good dbg (low7 (b2n b)) (7 * N.of_nat k)) as [v Hv]; [lia|].
      rewrite Hv. simpl.
      destruct (has_cont (b2n b)) eqn:Hc; [|apply good_Ok].
      (* a continuation byte at shift 63 is impossible: bytes 0 and 1 have no continuation bit *)
      assert (Hk' : (k <= 8)%nat).
      { destruct (Nat.eq_dec k 9) as [->|]; [|lia]. exfalso.
        change (7 * N.of_nat 9) with 63 in E. rewrite N.eqb_refl in E. simpl in E.
        unfold has_cont, CONT in Hc.
        destruct (b2n b =? 0) eqn:E0; [assert (b2n b = 0) by lia; rewrite H in Hc; discriminate|].
        destruct (b2n b =? 1) eqn:E1; [assert (b2n b = 1) by lia; rewrite H in Hc; discriminate|].
        discriminate. }
      replace (7 * N.of_nat k + 7) with (7 * N.of_nat (S k)) by lia.
      apply IH. lia.
Qed.

Lemma read_uleb128_good dbg bs : good (read_uleb128 dbg bs).
Proof.
  destruct bs as [|b r]; simpl; [apply good_Err|].
  destruct (has_cont (b2n b)); [|apply good_Ok].
  change 7 with (7 * N.of_nat 1). apply uleb_loop_good. lia.
Qed.

Lemma uleb_loop_len dbg : forall bs res0 sh v r,
  uleb_loop dbg res0 sh bs = Ok (v, r) -> (length r < length bs)%nat.
Proof.
  induction bs as [|b r0 IH]; intros res0 sh v r H; simpl in H; try discriminate.
  destruct ((sh =? 63) && negb (b2n b =? 0) && negb (b2n b =? 1)); try discriminate.
  apply bind_Ok in H as [s [_ H]].
  destruct (has_cont (b2n b)).
  - apply IH in H. simpl. lia.
  - inversion H; subst. simpl. lia.
Qed.

Lemma read_uleb128_len dbg bs v r :
  read_uleb128 dbg bs = Ok (v, r) -> (length r < length bs)%nat.
Proof.
  destruct bs as [|b r0]; simpl; try discriminate.
  destruct (has_cont (b2n b)).
  - intros H. apply uleb_loop_len in H. lia.
  - intros H; inversion H; subst. lia.
Qed.

(* ---- skip / split *)

Lemma skip_good n bs : good (skip n bs).
Proof. unfold skip. destruct (_ <? _); [apply good_Err|apply good_Ok]. Qed.

Lemma split_good n bs : good (split n bs).
Proof. unfold split. destruct (_ <? _); [apply good_Err|apply good_Ok]. Qed.

Lemma split_len n bs d r : split n bs = Ok (d, r) -> (length r <= length bs)%nat.
Proof.
  unfold split. destruct (_ <? _); try discriminate. intros H; inversion H; subst.
  rewrite skipn_length. lia.
Qed.

Lemma split_app (d r : list byte) : split (N.of_nat (length d)) (d ++ r) = Ok (d, r).
Proof.
  unfold split. rewrite app_length.
  replace (N.of_nat (length d + length r) <? N.of_nat (length d)) with false by lia.
  rewrite Nat2N.id. rewrite firstn_app, skipn_app, Nat.sub_diag, firstn_all, skipn_all. simpl.
  now rewrite app_nil_r.
Qed.

(* ------------------------------------------------------------------ address-size arithmetic *)

Lemma ones_sized_valid dbg sz : valid_asize sz = true -> ones_sized dbg sz = Ok (aones sz).
Proof.
  intros H. apply valid_asize_cases in H. destruct H as [-> | [-> | [-> | ->]]]; destruct dbg; reflexivity.
Qed.

Lemma amod_valid sz : valid_asize sz = true -> amod sz <= two64 /\ 256 <= amod sz.
Proof.
  intros H. apply valid_asize_cases in H. unfold amod, two64.
  destruct H as [-> | [-> | [-> | ->]]]; cbn; lia.
Qed.

Lemma aones_ones sz : aones sz = N.ones (8 * sz).
Proof. unfold aones, amod. rewrite N.ones_equiv. lia. Qed.

(* wrapping_add_sized at a validated size is addition modulo 2^(8*size) *)
Lemma wrapping_add_sized_raw_valid dbg a l sz :
  valid_asize sz = true ->
  wrapping_add_sized_raw dbg a l sz = Ok (wadd sz a l).
Proof.
  intros H. unfold wrapping_add_sized_raw. rewrite ones_sized_valid by exact H. simpl.
  f_equal. rewrite aones_ones, N.land_ones. unfold wadd, wrap64, amod.
  apply valid_asize_cases in H.
  assert (E : exists k, two64 = 2 ^ (8 * sz) * k /\ k <> 0).
  { destruct H as [-> | [-> | [-> | ->]]]; [exists (2^56)|exists (2^48)|exists (2^32)|exists 1]; split; try reflexivity; discriminate. }
  destruct E as [k [E Hk]]. rewrite E.
  assert (Hm : 2 ^ (8 * sz) <> 0) by (apply N.pow_nonzero; discriminate).
  set (m := 2 ^ (8 * sz)) in *. set (x := a + l).
  rewrite N.mod_mul_r by assumption.
  rewrite (N.mul_comm m ((x / m) mod k)), N.mod_add by assumption.
  apply N.mod_mod. assumption.
Qed.

Lemma min_tombstone_raw_valid dbg sz :
  valid_asize sz = true -> min_tombstone_raw dbg sz = Ok (atomb sz).
Proof.
  intros H. unfold min_tombstone_raw. rewrite wrapping_add_sized_raw_valid by exact H.
  f_equal. apply valid_asize_cases in H. destruct H as [-> | [-> | [-> | ->]]]; reflexivity.
Qed.

(* the validated-size functions of Model/Prim.v agree *)
Lemma min_tombstone_valid sz : valid_asize sz = true -> min_tombstone sz = atomb sz.
Proof.
  intros H. apply valid_asize_cases in H. destruct H as [-> | [-> | [-> | ->]]]; reflexivity.
Qed.

(* whenever the unvalidated tombstone computation succeeds at all, its value is positive ... *)
Lemma wadd_lt sz a l : wadd sz a l < amod sz.
Proof. unfold wadd, amod. apply N.mod_lt. apply N.pow_nonzero. discriminate. Qed.

(* ------------------------------------------------------------------ raw parsers: no panic, progress *)

Lemma parse_raw_range_good dbg c inp : good (parse_raw_range dbg c inp).
Proof.
  unfold parse_raw_range.
  apply good_bind; [apply read_address_good|]. intros [b r1] H1.
  apply good_bind; [apply read_address_good|]. intros [e r2] H2.
  destruct ((b =? 0) && (e =? 0)); [apply good_Ok|].
  apply read_address_ok in H1 as [Hv _]. rewrite ones_sized_valid by exact Hv. simpl.
  destruct (b =? aones (c_asize c)); apply good_Ok.
Qed.

Lemma parse_raw_range_len dbg c inp o r :
  parse_raw_range dbg c inp = Ok (o, r) ->
  valid_asize (c_asize c) = true /\ (length r < length inp)%nat.
Proof.
  unfold parse_raw_range. intros H.
  apply bind_Ok in H as [[b r1] [H1 H]]. apply bind_Ok in H as [[e r2] [H2 H]].
  apply read_address_ok in H1 as [Hv L1]. apply read_address_ok in H2 as [_ L2].
  assert (Hsz : (0 < N.to_nat (c_asize c))%nat).
  { apply valid_asize_cases in Hv. lia. }
  split; [exact Hv|].
  destruct ((b =? 0) && (e =? 0)).
  - inversion H; subst. lia.
  - rewrite ones_sized_valid in H by exact Hv. simpl in H.
    destruct (b =? aones (c_asize c)); inversion H; subst; lia.
Qed.

Ltac good_step :=
  match goal with
  | |- good (Ok _) => apply good_Ok
  | |- good (Err _) => apply good_Err
  | |- good (split _ _) => apply split_good
  | |- good (bind (read_uleb128 _ _) _) => apply good_bind; [apply read_uleb128_good|intros [? ?] ?]
  | |- good (bind (read_address _ _ _) _) => apply good_bind; [apply read_address_good|intros [? ?] ?]
  | |- good (bind (read_u8 _) _) => apply good_bind; [apply read_u8_good|intros [? ?] ?]
  | |- good (bind (read_u16 _ _) _) => apply good_bind; [apply read_un_good|intros [? ?] ?]
  | |- good (bind (read_u32 _ _) _) => apply good_bind; [apply read_un_good|intros [? ?] ?]
  | |- good (bind (split _ _) _) => apply good_bind; [apply split_good|intros [? ?] ?]
  | |- good (bind (parse_raw_range _ _ _) _) => apply good_bind; [apply parse_raw_range_good|intros [? ?] ?]
  | |- good (if ?c then _ else _) => destruct c
  | |- good (match ?o with Some _ => _ | None => _ end) => destruct o
  | |- good (match ?o with inl _ => _ | inr _ => _ end) => destruct o
  | |- good (let (_, _) := ?p in _) => destruct p
  end.

Lemma rng_parse_good dbg c bare inp : good (rng_parse dbg c bare inp).
Proof. unfold rng_parse. repeat good_step. Qed.

Lemma parse_data_good dbg c inp : good (parse_data dbg c inp).
Proof. unfold parse_data. repeat good_step. Qed.

Lemma parse_data_len dbg c inp d r :
  parse_data dbg c inp = Ok (d, r) -> (length r < length inp)%nat.
Proof.
  unfold parse_data. destruct (5 <=? c_version c); intros H;
    apply bind_Ok in H as [[len r0] [H0 H]]; apply split_len in H.
  - apply read_uleb128_len in H0. lia.
  - apply read_un_len in H0. lia.
Qed.

Lemma loc_parse_good dbg c bare inp : good (loc_parse dbg c bare inp).
Proof.
  unfold loc_parse.
  repeat first [ good_step
               | apply good_bind; [apply parse_data_good|intros [? ?] ?]
               | apply good_bind; [destruct (5 <=? c_version c); [apply read_uleb128_good|apply read_un_good]|intros [? ?] ?] ].
Qed.

(* every successful parse consumes at least one byte *)
Ltac len_step :=
  match goal with
  | H : bind _ _ = Ok _ |- _ => apply bind_Ok in H; destruct H as [[? ?] [? H]]
  | H : (if ?c then _ else _) = Ok _ |- _ => destruct c
  | H : Ok _ = Ok _ |- _ => inversion H; subst; clear H
  | H : Err _ = Ok _ |- _ => discriminate H
  | H : read_uleb128 _ _ = Ok _ |- _ => apply read_uleb128_len in H
  | H : read_address _ _ _ = Ok _ |- _ => apply read_address_ok in H; destruct H as [_ H]
  | H : read_u8 _ = Ok _ |- _ => apply read_u8_len in H
  | H : read_u16 _ _ = Ok _ |- _ => apply read_un_len in H
  | H : read_u32 _ _ = Ok _ |- _ => apply read_un_len in H
  | H : split _ _ = Ok _ |- _ => apply split_len in H
  | H : parse_data _ _ _ = Ok _ |- _ => apply parse_data_len in H
  | H : parse_raw_range _ _ _ = Ok _ |- _ => apply parse_raw_range_len in H; destruct H as [_ H]
  end.

Lemma rng_parse_len dbg c bare inp o r :
  rng_parse dbg c bare inp = Ok (o, r) -> (length r < length inp)%nat.
Proof.
  unfold rng_parse. intros H. destruct bare.
  - apply bind_Ok in H as [[o' r'] [H0 H]]. apply parse_raw_range_len in H0 as [_ H0].
    destruct o' as [[a|[b e]]|]; inversion H; subst; lia.
  - repeat len_step; lia.
Qed.

Lemma loc_parse_len dbg c bare inp o r :
  loc_parse dbg c bare inp = Ok (o, r) -> (length r < length inp)%nat.
Proof.
  unfold loc_parse. intros H. destruct bare.
  - apply bind_Ok in H as [[o' r'] [H0 H]]. apply parse_raw_range_len in H0 as [_ H0].
    destruct o' as [[a|[b e]]|]; [inversion H; subst; lia| |inversion H; subst; lia].
    repeat len_step; lia.
  - apply bind_Ok in H as [[op r0] [H0 H]]. apply read_u8_len in H0.
    repeat match goal with
    | H : (if ?c then _ else _) = Ok _ |- _ => destruct c
    end;
    repeat first [ len_step
      | match goal with
        | H : (if 5 <=? c_version c then read_uleb128 _ _ else read_u32 _ _) = Ok _ |- _ =>
            destruct (5 <=? c_version c); [apply read_uleb128_len in H|apply read_un_len in H]
        end ]; lia.
Qed.

(* ------------------------------------------------------------------ raw iterators *)

Section RawNext.
  Context {A : Type} (parse : list byte -> res (option A * list byte)).
  Hypothesis Hgood : forall inp, good (parse inp).
  Hypothesis Hlen : forall inp o r, parse inp = Ok (o, r) -> (length r < length inp)%nat.

  Lemma raw_next_good inp : good (fst (raw_next parse inp)).
  Proof.
    unfold raw_next. destruct inp as [|b t]; [apply good_Ok|].
    destruct (Hgood (b :: t)) as [Hp Hf].
    destruct (parse (b :: t)) as [[[a|] rest]|e| |]; simpl; try apply good_Ok; try apply good_Err; contradiction.
  Qed.

  Lemma raw_next_some inp a inp' :
    raw_next parse inp = (Ok (Some a), inp') ->
    parse inp = Ok (Some a, inp') /\ (length inp' < length inp)%nat.
  Proof.
    unfold raw_next. destruct inp as [|b t]; [discriminate|].
    destruct (parse (b :: t)) as [[[a'|] rest]|e| |] eqn:E; intros H; inversion H; subst.
    split; [reflexivity|]. eapply Hlen; exact E.
  Qed.

  (* input.empty() at the end-of-list entry and on every error: the iterator is finished *)
  Lemma raw_next_stop inp r inp' :
    raw_next parse inp = (r, inp') -> (forall a, r <> Ok (Some a)) -> inp' = [].
  Proof.
    unfold raw_next. destruct inp as [|b t]; [intros H; inversion H; reflexivity|].
    destruct (parse (b :: t)) as [[[a'|] rest]|e| |]; intros H Hn; inversion H; subst; try reflexivity.
    exfalso. eapply Hn; reflexivity.
  Qed.

  Lemma raw_next_nil : raw_next parse [] = (Ok None, []).
  Proof. reflexivity. Qed.

  Lemma raw_next_err_nonempty inp e inp' : raw_next parse inp = (Err e, inp') -> inp <> [].
  Proof. destruct inp; [discriminate|discriminate]. Qed.

  Lemma raw_next_le inp r inp' : raw_next parse inp = (r, inp') -> (length inp' <= length inp)%nat.
  Proof.
    intros H. destruct r as [[a|]|e| |].
    - apply raw_next_some in H. lia.
    - apply raw_next_stop in H; [subst; simpl; lia|discriminate].
    - apply raw_next_stop in H; [subst; simpl; lia|discriminate].
    - apply raw_next_stop in H; [subst; simpl; lia|discriminate].
    - apply raw_next_stop in H; [subst; simpl; lia|discriminate].
  Qed.
End RawNext.

(* ------------------------------------------------------------------ indexed tables: no panic *)

Lemma get_address_good be sect asize base index : good (get_address be sect asize base index).
Proof.
  unfold get_address. apply good_bind; [apply skip_good|]. intros r1 _.
  destruct (checked_mul64 index asize); [|apply good_Err].
  apply good_bind; [apply skip_good|]. intros r2 _.
  apply good_bind; [apply read_address_good|]. intros [a r] _. apply good_Ok.
Qed.

Lemma read_word_good f be bs : good (read_word f be bs).
Proof. unfold read_word. destruct f; apply read_un_good. Qed.

Lemma get_offset_good be f sect base index : good (get_offset be f sect base index).
Proof.
  unfold get_offset. apply good_bind; [apply skip_good|]. intros r1 _.
  destruct (checked_mul64 _ _); [|apply good_Err].
  apply good_bind; [apply skip_good|]. intros r2 _.
  apply good_bind; [apply read_word_good|]. intros [a r] _.
  destruct (_ <? _); [apply good_Ok|apply good_Err].
Qed.

Lemma get_str_offset_good be f sect base index : good (get_str_offset be f sect base index).
Proof.
  unfold get_str_offset. apply good_bind; [apply skip_good|]. intros r1 _.
  destruct (checked_mul64 _ _); [|apply good_Err].
  apply good_bind; [apply skip_good|]. intros r2 _.
  apply good_bind; [apply read_word_good|]. intros [a r] _. apply good_Ok.
Qed.

(* a successful address lookup proves the address size valid *)
Lemma get_address_ok_valid be sect asize base index a :
  get_address be sect asize base index = Ok a -> valid_asize asize = true.
Proof.
  unfold get_address. intros H. apply bind_Ok in H as [r1 [_ H]].
  destruct (checked_mul64 index asize); [|discriminate].
  apply bind_Ok in H as [r2 [_ H]]. apply bind_Ok in H as [[v r] [H _]].
  now apply read_address_ok in H.
Qed.

(* ------------------------------------------------------------------ convert_raw *)

(* the filter at the end of convert_raw, for ANY configuration: whatever is yielded is non-empty and
   begins below the tombstone value computed for the configured address size *)
Lemma convert_raw_yield dbg c x base e rg base' :
  convert_raw dbg c x base e = Ok (Some rg, base') ->
  fst rg < snd rg /\ exists t, min_tombstone_raw dbg (c_asize c) = Ok t /\ fst rg < t.
Proof.
  unfold convert_raw.
  assert (F : forall r, (let* tomb := min_tombstone_raw dbg (c_asize c) in
                         if (tomb <=? fst r) || (snd r <=? fst r) then Ok (None, base) else Ok (Some r, base))
                        = Ok (Some rg, base') ->
              fst rg < snd rg /\ exists t, min_tombstone_raw dbg (c_asize c) = Ok t /\ fst rg < t).
  { intros r H. apply bind_Ok in H as [t [Ht H]].
    destruct ((t <=? fst r) || (snd r <=? fst r)) eqn:E; inversion H; subst.
    split; [lia|]. exists t. split; [exact Ht|lia]. }
  destruct e; intros H;
    repeat match goal with
    | H : bind _ _ = Ok (Some _, _) |- _ =>
        first [ apply F in H; exact H
              | apply bind_Ok in H; destruct H as [? [? H]] ]
    | H : (if ?c then _ else _) = Ok _ |- _ => destruct c
    | H : Ok (None, _) = Ok (Some _, _) |- _ => discriminate H
    end.
Qed.

Lemma convert_raw_good dbg c x base e :
  valid_asize (c_asize c) = true -> good (convert_raw dbg c x base e).
Proof.
  intros Hv. unfold convert_raw, ctx_address.
  rewrite !min_tombstone_raw_valid by exact Hv.
  destruct e; simpl;
    repeat first
      [ rewrite wrapping_add_sized_raw_valid by exact Hv; simpl
      | apply good_Ok
      | apply good_bind; [apply get_address_good|intros ? ?]
      | match goal with |- good (if ?c then _ else _) => destruct c end ].
Qed.

Lemma ones_sized_nf dbg sz : ones_sized dbg sz <> OutOfFuel.
Proof.
  unfold ones_sized, chk_mul, chk_sub.
  repeat first [ apply bind_nf; [|intros ? ?]
               | match goal with |- (if ?c then _ else _) <> OutOfFuel => destruct c end
               | discriminate ].
Qed.

Lemma wrapping_add_sized_raw_nf dbg a l sz : wrapping_add_sized_raw dbg a l sz <> OutOfFuel.
Proof. unfold wrapping_add_sized_raw. apply bind_nf; [apply ones_sized_nf|discriminate]. Qed.

Lemma convert_raw_nf dbg c x base e : convert_raw dbg c x base e <> OutOfFuel.
Proof.
  unfold convert_raw, ctx_address, min_tombstone_raw.
  destruct e;
    repeat first
      [ discriminate
      | apply bind_nf; [first [apply wrapping_add_sized_raw_nf | apply get_address_good]|intros ? ?]
      | match goal with |- (if ?c then _ else _) <> OutOfFuel => destruct c end ].
Qed.

(* ------------------------------------------------------------------ RngListIter / LocListIter *)

Section ListNext.
  Context {A B : Type} (parse : list byte -> res (option A * list byte))
          (ent : A -> lent) (mk : N * N -> A -> B).
  Hypothesis Hgood : forall inp, good (parse inp).
  Hypothesis Hlen : forall inp o r, parse inp = Ok (o, r) -> (length r < length inp)%nat.

  Notation lnext := (list_next parse ent mk).

  (* fuel |input| + 1 always suffices *)
  Lemma list_next_fuel dbg c x : forall fuel s,
    (length (s_inp s) < fuel)%nat -> fst (lnext fuel dbg c x s) <> OutOfFuel.
  Proof.
    induction fuel as [|f IH]; intros s Hf; [lia|]. simpl.
    destruct (raw_next parse (s_inp s)) as [r inp'] eqn:E.
    pose proof (raw_next_good parse Hgood (s_inp s)) as [_ Hnf]. rewrite E in Hnf. simpl in Hnf.
    destruct r as [[a|]|e| |]; simpl; try discriminate; try contradiction.
    apply (raw_next_some parse Hlen) in E as [_ L].
    destruct (convert_raw dbg c x (s_base s) (ent a)) as [[[rg|] b']|e| |] eqn:Ec; simpl; try discriminate.
    - apply IH. simpl. lia.
    - exfalso. exact (convert_raw_nf dbg c x (s_base s) (ent a) Ec).
  Qed.

  Lemma list_next_np dbg c x : valid_asize (c_asize c) = true -> forall fuel s,
    fst (lnext fuel dbg c x s) <> Panic.
  Proof.
    intros Hv. induction fuel as [|f IH]; intros s; simpl; [discriminate|].
    destruct (raw_next parse (s_inp s)) as [r inp'] eqn:E.
    pose proof (raw_next_good parse Hgood (s_inp s)) as [Hnp _]. rewrite E in Hnp. simpl in Hnp.
    destruct r as [[a|]|e| |]; simpl; try discriminate; try contradiction.
    pose proof (convert_raw_good dbg c x (s_base s) (ent a) Hv) as [Hc _].
    destruct (convert_raw dbg c x (s_base s) (ent a)) as [[[rg|] b']|e| |]; simpl; try discriminate; try contradiction.
    apply IH.
  Qed.

  (* every call either reports the end (and leaves nothing to read) or strictly shrinks the input *)
  Lemma list_next_progress dbg c x : forall fuel s r s',
    lnext fuel dbg c x s = (r, s') ->
    (length (s_inp s') <= length (s_inp s))%nat /\
    (r = Ok None -> s_inp s' = []) /\
    ((exists b, r = Ok (Some b)) \/ (exists e, r = Err e) -> (length (s_inp s') < length (s_inp s))%nat).
  Proof.
    induction fuel as [|f IH]; intros s r s' H; simpl in H.
    - inversion H; subst. repeat split; try lia; try discriminate; try (intros [[? ?]|[? ?]]; discriminate).
    - destruct (raw_next parse (s_inp s)) as [r0 inp'] eqn:E.
      destruct r0 as [[a|]|e| |].
      + apply (raw_next_some parse Hlen) in E as [_ L].
        destruct (convert_raw dbg c x (s_base s) (ent a)) as [[[rg|] b']|e| |] eqn:Ec.
        * inversion H; subst; simpl. repeat split; try lia; try discriminate.
        * apply IH in H. simpl in H. destruct H as [H1 [H2 H3]].
          split; [lia|split; [exact H2|intros Hx; specialize (H3 Hx); lia]].
        * inversion H; subst; simpl. repeat split; try lia; try discriminate.
        * inversion H; subst; simpl. repeat split; try lia; try discriminate; try (intros [[? ?]|[? ?]]; discriminate).
        * inversion H; subst; simpl. repeat split; try lia; try discriminate; try (intros [[? ?]|[? ?]]; discriminate).
      + apply raw_next_stop in E; [|discriminate]. inversion H; subst; simpl.
        repeat split; try lia; auto; try (intros [[? ?]|[? ?]]; discriminate).
      + pose proof (raw_next_err_nonempty parse _ _ _ E) as Hne.
        apply raw_next_stop in E; [|discriminate]. inversion H; subst; simpl.
        repeat split; try lia; try discriminate. intros _. destruct (s_inp s); [contradiction|simpl; lia].
      + inversion H; subst; simpl. eapply raw_next_le in E; [|exact Hgood|exact Hlen].
        repeat split; try lia; try discriminate; try (intros [[? ?]|[? ?]]; discriminate).
      + inversion H; subst; simpl. repeat split; try lia; try discriminate; try (intros [[? ?]|[? ?]]; discriminate).
  Qed.

  (* once the end was reported the iterator keeps reporting it *)
  Lemma list_next_nil dbg c x fuel base :
    lnext (S fuel) dbg c x {| s_inp := []; s_base := base |} = (Ok None, {| s_inp := []; s_base := base |}).
  Proof. reflexivity. Qed.

  (* the property's universal clause, for ANY input and configuration *)
  Lemma list_next_yield dbg c x : forall fuel s b s',
    lnext fuel dbg c x s = (Ok (Some b), s') ->
    exists rg a, b = mk rg a /\ fst rg < snd rg /\
                 exists t, min_tombstone_raw dbg (c_asize c) = Ok t /\ fst rg < t.
  Proof.
    induction fuel as [|f IH]; intros s b s' H; simpl in H; [discriminate|].
    destruct (raw_next parse (s_inp s)) as [r0 inp'] eqn:E.
    destruct r0 as [[a|]|e| |]; try discriminate.
    destruct (convert_raw dbg c x (s_base s) (ent a)) as [[[rg|] b']|e| |] eqn:Ec; try discriminate.
    - inversion H; subst. exists rg, a. split; [reflexivity|]. eapply convert_raw_yield; exact Ec.
    - eapply IH; exact H.
  Qed.
End ListNext.

(* ------------------------------------------------------------------ draining *)

Section Drain.
  Context {A St : Type} (next : St -> res (option A) * St) (mu : St -> nat).
  Hypothesis Hdec : forall s r s', next s = (r, s') ->
    (exists a, r = Ok (Some a)) \/ (exists e, r = Err e) -> (mu s' < mu s)%nat.
  Hypothesis Hnf : forall s, fst (next s) <> OutOfFuel.

  Lemma drain_fuel : forall calls s, (mu s < calls)%nat -> drain next calls s <> OutOfFuel.
  Proof.
    induction calls as [|k IH]; intros s Hm; [lia|]. simpl.
    destruct (next s) as [r s'] eqn:E. specialize (Hnf s). rewrite E in Hnf. simpl in Hnf.
    destruct r as [[a|]|e| |]; try discriminate; try contradiction.
    - apply bind_nf; [|discriminate]. apply IH.
      assert (mu s' < mu s)%nat by (eapply Hdec; [exact E|left; eauto]). lia.
    - apply bind_nf; [|discriminate]. apply IH.
      assert (mu s' < mu s)%nat by (eapply Hdec; [exact E|right; eauto]). lia.
  Qed.

  (* at most mu(s) items and errors before the final Ok(None) *)
  Lemma drain_length : forall calls s l, drain next calls s = Ok l -> (length l <= mu s)%nat.
  Proof.
    induction calls as [|k IH]; intros s l H; simpl in H; [discriminate|].
    destruct (next s) as [r s'] eqn:E.
    destruct r as [[a|]|e| |]; try discriminate.
    - apply bind_Ok in H as [l' [H1 H]]. inversion H; subst. apply IH in H1. simpl.
      assert (mu s' < mu s)%nat by (eapply Hdec; [exact E|left; eauto]). lia.
    - inversion H; subst. simpl. lia.
    - apply bind_Ok in H as [l' [H1 H]]. inversion H; subst. apply IH in H1. simpl.
      assert (mu s' < mu s)%nat by (eapply Hdec; [exact E|right; eauto]). lia.
  Qed.

  Lemma drain_np : (forall s, fst (next s) <> Panic) -> forall calls s, drain next calls s <> Panic.
  Proof.
    intros Hnp. induction calls as [|k IH]; intros s; simpl; [discriminate|].
    destruct (next s) as [r s'] eqn:E. specialize (Hnp s). rewrite E in Hnp. simpl in Hnp.
    destruct r as [[a|]|e| |]; try discriminate; try contradiction;
      (apply bind_np; [apply IH|discriminate]).
  Qed.

  Lemma drain_items (P : A -> Prop) :
    (forall s a s', next s = (Ok (Some a), s') -> P a) ->
    forall calls s l, drain next calls s = Ok l -> forall a, In (EvItem a) l -> P a.
  Proof.
    intros HP. induction calls as [|k IH]; intros s l H a Hin; simpl in H; [discriminate|].
    destruct (next s) as [r s'] eqn:E.
    destruct r as [[a'|]|e| |]; try discriminate.
    - apply bind_Ok in H as [l' [H1 H]]. inversion H; subst. destruct Hin as [Hin|Hin].
      + inversion Hin; subst. eapply HP; exact E.
      + eapply IH; eassumption.
    - inversion H; subst. contradiction.
    - apply bind_Ok in H as [l' [H1 H]]. inversion H; subst. destruct Hin as [Hin|Hin]; [discriminate|].
      eapply IH; eassumption.
  Qed.
End Drain.

(* ------------------------------------------------------------------ codecs: write then read *)

Lemma land_low_high a b k : a < 2 ^ k -> N.land a (b * 2 ^ k) = 0.
Proof.
  intros H. apply N.bits_inj_0. intros n. rewrite N.land_spec.
  destruct (N.lt_ge_cases n k) as [L|L].
  - rewrite N.mul_pow2_bits_low by assumption. apply andb_false_r.
  - replace a with (a mod 2 ^ k) by (apply N.mod_small; assumption).
    rewrite N.mod_pow2_bits_high by assumption. reflexivity.
Qed.

Lemma lor_add a b k : a < 2 ^ k -> N.lor a (b * 2 ^ k) = a + b * 2 ^ k.
Proof.
  intros H. pose proof (land_low_high a b k H) as L.
  rewrite <- N.lxor_lor by exact L. symmetry. apply N.add_nocarry_lxor. exact L.
Qed.

Lemma N_forall_lt (n : nat) (P : N -> bool) :
  forallb P (map N.of_nat (seq 0 n)) = true -> forall x, x < N.of_nat n -> P x = true.
Proof.
  intros H x Hx. rewrite forallb_forall in H. apply H.
  rewrite <- (N2Nat.id x). apply in_map. apply in_seq. lia.
Qed.

Lemma leb_byte_facts m : m < 128 ->
  has_cont m = false /\ low7 m = m /\ has_cont (128 + m) = true /\ low7 (128 + m) = m.
Proof.
  intros H.
  pose proof (N_forall_lt 128 (fun m => negb (has_cont m) && (low7 m =? m) && has_cont (128 + m) && (low7 (128 + m) =? m))) as F.
  specialize (F eq_refl m H). simpl in F.
  repeat rewrite andb_true_iff in F. destruct F as [[[F1 F2] F3] F4].
  rewrite negb_true_iff in F1. repeat split; auto; lia.
Qed.

Lemma shl64_small dbg x s : s < 64 -> x * 2 ^ s < two64 -> shl64 dbg x s = Ok (x * 2 ^ s).
Proof.
  intros Hs Hx. unfold shl64. replace (64 <=? s) with false by lia.
  rewrite N.shiftl_mul_pow2. now rewrite wrap64_small.
Qed.

Lemma pow2_lt_64 k : 2 ^ k < two64 -> k < 64.
Proof. unfold two64. change 18446744073709551616 with (2 ^ 64). intros H. apply N.pow_lt_mono_r_iff in H; lia. Qed.

Lemma uleb_loop_enc dbg : forall f v res0 k rest,
  v < 128 ^ N.of_nat (S f) -> res0 < 2 ^ (7 * k) -> 1 <= k -> k <= 9 ->
  res0 + v * 2 ^ (7 * k) < two64 ->
  uleb_loop dbg res0 (7 * k) (enc_uleb_fuel (S f) v ++ rest) = Ok (res0 + v * 2 ^ (7 * k), rest).
Proof.
  induction f as [|f IH]; intros v res0 k rest Hv Hr Hk1 Hk9 Hs.
  - (* one byte left *)
    change (128 ^ N.of_nat 1) with 128 in Hv. simpl enc_uleb_fuel.
    replace (v <? 128) with true by lia. simpl app.
    destruct (leb_byte_facts v Hv) as [Hc [Hl _]].
    cbn [uleb_loop]. rewrite b2n_n2b_small by lia.
    assert (Hp : 0 < 2 ^ (7 * k)) by (apply N.neq_0_lt_0, N.pow_nonzero; discriminate).
    assert (E63 : (7 * k =? 63) && negb (v =? 0) && negb (v =? 1) = false).
    { destruct (7 * k =? 63) eqn:E; [|reflexivity]. simpl.
      assert (7 * k = 63) by lia. rewrite H in Hs. change (2 ^ 63) with 9223372036854775808 in Hs.
      unfold two64 in Hs. destruct (v =? 0) eqn:E0; [reflexivity|]. destruct (v =? 1) eqn:E1; [reflexivity|]. lia. }
    rewrite E63, Hl, Hc.
    rewrite shl64_small by (try lia). simpl. now rewrite lor_add by exact Hr.
  - (* S f *)
    assert (Hp : 0 < 2 ^ (7 * k)) by (apply N.neq_0_lt_0, N.pow_nonzero; discriminate).
    change (enc_uleb_fuel (S (S f)) v)
      with (if v <? 128 then [n2b v] else n2b (128 + v mod 128) :: enc_uleb_fuel (S f) (v / 128)).
    destruct (v <? 128) eqn:E.
    + (* short value: same as the base case *)
      assert (Hv' : v < 128) by lia. simpl app.
      destruct (leb_byte_facts v Hv') as [Hc [Hl _]].
      cbn [uleb_loop]. rewrite b2n_n2b_small by lia.
      assert (E63 : (7 * k =? 63) && negb (v =? 0) && negb (v =? 1) = false).
      { destruct (7 * k =? 63) eqn:E'; [|reflexivity]. simpl.
        assert (7 * k = 63) by lia. rewrite H in Hs. change (2 ^ 63) with 9223372036854775808 in Hs.
        unfold two64 in Hs. destruct (v =? 0) eqn:E0; [reflexivity|]. destruct (v =? 1) eqn:E1; [reflexivity|]. lia. }
      rewrite E63, Hl, Hc.
      rewrite shl64_small by (try lia). simpl. now rewrite lor_add by exact Hr.
    + assert (Hge : 128 <= v) by lia.
      set (m := v mod 128). set (q := v / 128).
      assert (Hm : m < 128) by (apply N.mod_lt; discriminate).
      assert (Hvq : v = 128 * q + m) by (apply N.div_mod; discriminate).
      destruct (leb_byte_facts m Hm) as [_ [_ [Hc Hl]]].
      (* the shift stays below 63 *)
      assert (Hk8 : k <= 8).
      { assert (2 ^ (7 * k + 7) < two64).
        { rewrite N.pow_add_r. change (2 ^ 7) with 128.
          eapply N.le_lt_trans; [|exact Hs]. nia. }
        apply pow2_lt_64 in H. lia. }
      rewrite <- app_comm_cons. cbn [uleb_loop]. rewrite b2n_n2b_small by lia.
      replace (7 * k =? 63) with false by lia. cbn [andb]. rewrite Hl, Hc.
      assert (Hmk : m * 2 ^ (7 * k) < two64) by nia.
      rewrite shl64_small by (try lia; exact Hmk). cbn [bind]. rewrite lor_add by exact Hr.
      replace (7 * k + 7) with (7 * (k + 1)) by lia.
      assert (P : 2 ^ (7 * (k + 1)) = 128 * 2 ^ (7 * k)).
      { replace (7 * (k + 1)) with (7 + 7 * k) by lia. rewrite N.pow_add_r. reflexivity. }
      rewrite IH.
      * f_equal. f_equal. rewrite P, Hvq. ring.
      * (* q < 128^(S f) *)
        fold q. replace (N.of_nat (S (S f))) with (1 + N.of_nat (S f)) in Hv by lia.
        rewrite N.pow_add_r in Hv. change (128 ^ 1) with 128 in Hv.
        apply N.div_lt_upper_bound; [discriminate|exact Hv].
      * rewrite P. nia.
      * lia.
      * lia.
      * rewrite P. rewrite Hvq in Hs. nia.
Qed.

Lemma read_uleb128_enc dbg v rest :
  v < two64 -> read_uleb128 dbg (enc_uleb v ++ rest) = Ok (v, rest).
Proof.
  intros Hv. unfold enc_uleb.
  change (enc_uleb_fuel 19 v)
    with (if v <? 128 then [n2b v] else n2b (128 + v mod 128) :: enc_uleb_fuel 18 (v / 128)).
  destruct (v <? 128) eqn:E.
  - assert (Hv' : v < 128) by lia. destruct (leb_byte_facts v Hv') as [Hc _].
    simpl app. cbn [read_uleb128]. rewrite b2n_n2b_small by lia. now rewrite Hc.
  - set (m := v mod 128). set (q := v / 128).
    assert (Hm : m < 128) by (apply N.mod_lt; discriminate).
    assert (Hvq : v = 128 * q + m) by (apply N.div_mod; discriminate).
    destruct (leb_byte_facts m Hm) as [_ [_ [Hc Hl]]].
    rewrite <- app_comm_cons. cbn [read_uleb128]. rewrite b2n_n2b_small by lia. rewrite Hc, Hl.
    change 7 with (7 * 1). change 18%nat with (S 17).
    rewrite uleb_loop_enc.
    + f_equal. f_equal. change (2 ^ (7 * 1)) with 128. lia.
    + fold q. apply N.div_lt_upper_bound; [discriminate|].
      eapply N.lt_le_trans; [exact Hv|]. unfold two64. vm_compute. discriminate.
    + change (2 ^ (7 * 1)) with 128. exact Hm.
    + lia.
    + lia.
    + change (2 ^ (7 * 1)) with 128. lia.
Qed.

(* ---- fixed width *)

Lemma le_bytes_length n : forall v, length (le_bytes n v) = n.
Proof. induction n as [|n IH]; intros v; simpl; [reflexivity|]. now rewrite IH. Qed.

Lemma enc_un_length n be v : length (enc_un n be v) = n.
Proof. unfold enc_un, be_bytes. destruct be; [rewrite rev_length|]; apply le_bytes_length. Qed.

Lemma le_val_le_bytes n : forall v, le_val (le_bytes n v) = v mod 256 ^ N.of_nat n.
Proof.
  induction n as [|n IH]; intros v.
  - simpl. now rewrite N.mod_1_r.
  - cbn [le_bytes le_val]. rewrite IH, b2n_n2b.
    replace (N.of_nat (S n)) with (1 + N.of_nat n) by lia. rewrite N.pow_add_r. change (256 ^ 1) with 256.
    rewrite N.mod_mul_r by (try discriminate; apply N.pow_nonzero; discriminate). reflexivity.
Qed.

Lemma read_un_enc n be v rest :
  read_un n be (enc_un n be v ++ rest) = Ok (v mod 256 ^ N.of_nat n, rest).
Proof.
  unfold read_un, read_bytes. rewrite take_app by apply enc_un_length. simpl.
  f_equal. f_equal. unfold enc_un, be_bytes, be_val. destruct be.
  - rewrite rev_involutive. apply le_val_le_bytes.
  - apply le_val_le_bytes.
Qed.

Lemma read_address_enc c a rest :
  valid_asize (c_asize c) = true -> a < amod (c_asize c) ->
  read_address (c_asize c) (c_be c) (enc_addr c a ++ rest) = Ok (a, rest).
Proof.
  intros Hv Ha. rewrite read_address_eq by exact Hv. unfold enc_addr. rewrite read_un_enc.
  f_equal. f_equal. apply N.mod_small.
  replace (256 ^ N.of_nat (N.to_nat (c_asize c))) with (amod (c_asize c)); [exact Ha|].
  apply valid_asize_cases in Hv. destruct Hv as [-> | [-> | [-> | ->]]]; reflexivity.
Qed.

(* ------------------------------------------------------------------ raw entries: encode then parse *)

Ltac wf_bounds H :=
  unfold wf_rle, wf_pair, wf_lle, wf_locpair, wf_data, fits_u64, fits_addr, u64_max in H.

Ltac rt_step :=
  first [ rewrite <- app_assoc
        | rewrite <- app_comm_cons
        | rewrite read_uleb128_enc by (try assumption; unfold two64 in *; lia)
        | rewrite read_address_enc by (try assumption; lia)
        | progress cbn [bind] ].

Lemma read_u8_cons b r : read_u8 (b :: r) = Ok (b2n b, r).
Proof. reflexivity. Qed.

Lemma rng_parse_rle_end dbg c rest : rng_parse dbg c false (n2b 0 :: rest) = Ok (None, rest).
Proof. reflexivity. Qed.

(* one lemma per opcode keeps the kernel's re-check of the reduced if-chain small *)
Ltac opcode_start :=
  rewrite <- app_comm_cons, read_u8_cons; cbn [bind];
  rewrite b2n_n2b_small by lia; cbn [N.eqb Pos.eqb].

Section RleEntries.
  Variables (dbg : bool) (c : lcfg) (rest : list byte).
  Hypothesis Hv : valid_asize (c_asize c) = true.

  Lemma rle_basex i : i < two64 ->
    rng_parse dbg c false (enc_rle c (LBasex i) ++ rest) = Ok (Some (LBasex i), rest).
  Proof. intros. unfold rng_parse. cbn [enc_rle]. opcode_start. repeat rt_step. reflexivity. Qed.
  Lemma rle_sxex i j : i < two64 -> j < two64 ->
    rng_parse dbg c false (enc_rle c (LStartxEndx i j) ++ rest) = Ok (Some (LStartxEndx i j), rest).
  Proof. intros. unfold rng_parse. cbn [enc_rle]. opcode_start. repeat rt_step. reflexivity. Qed.
  Lemma rle_sxlen i l : i < two64 -> l < two64 ->
    rng_parse dbg c false (enc_rle c (LStartxLength i l) ++ rest) = Ok (Some (LStartxLength i l), rest).
  Proof. intros. unfold rng_parse. cbn [enc_rle]. opcode_start. repeat rt_step. reflexivity. Qed.
  Lemma rle_offp b e : b < two64 -> e < two64 ->
    rng_parse dbg c false (enc_rle c (LOffsetPair b e) ++ rest) = Ok (Some (LOffsetPair b e), rest).
  Proof. intros. unfold rng_parse. cbn [enc_rle]. opcode_start. repeat rt_step. reflexivity. Qed.
  Lemma rle_base a : a < amod (c_asize c) ->
    rng_parse dbg c false (enc_rle c (LBase a) ++ rest) = Ok (Some (LBase a), rest).
  Proof. intros. unfold rng_parse. cbn [enc_rle]. opcode_start. repeat rt_step. reflexivity. Qed.
  Lemma rle_se b e : b < amod (c_asize c) -> e < amod (c_asize c) ->
    rng_parse dbg c false (enc_rle c (LStartEnd b e) ++ rest) = Ok (Some (LStartEnd b e), rest).
  Proof. intros. unfold rng_parse. cbn [enc_rle]. opcode_start. repeat rt_step. reflexivity. Qed.
  Lemma rle_sl b l : b < amod (c_asize c) -> l < two64 ->
    rng_parse dbg c false (enc_rle c (LStartLength b l) ++ rest) = Ok (Some (LStartLength b l), rest).
  Proof. intros. unfold rng_parse. cbn [enc_rle]. opcode_start. repeat rt_step. reflexivity. Qed.
End RleEntries.

(* NB: never unfold u64_max / two64 inside hypotheses that a `destruct` generalises: the kernel's
   re-check of such conversions on 64-bit literals is pathologically slow. Go through these lemmas. *)
Lemma fits_u64_lt i : fits_u64 i = true -> i < two64.
Proof. unfold fits_u64, u64_max, two64. lia. Qed.
Lemma fits_addr_lt c a : fits_addr c a = true -> a < amod (c_asize c).
Proof. unfold fits_addr. lia. Qed.

Ltac wf_split :=
  repeat match goal with
  | H : _ && _ = true |- _ => apply andb_true_iff in H; destruct H
  | H : fits_u64 _ = true |- _ => apply fits_u64_lt in H
  | H : fits_addr _ _ = true |- _ => apply fits_addr_lt in H
  | H : negb _ = true |- _ => apply negb_true_iff in H
  end.

Lemma rng_parse_rle_enc dbg c e rest :
  valid_asize (c_asize c) = true -> wf_rle c e = true ->
  rng_parse dbg c false (enc_rle c e ++ rest) = Ok (Some e, rest).
Proof.
  intros Hv Hw.
  destruct e; try discriminate Hw; cbn [wf_rle] in Hw; wf_split.
  - apply rle_base; assumption.
  - apply rle_basex; assumption.
  - apply rle_sxex; assumption.
  - apply rle_sxlen; assumption.
  - apply rle_offp; assumption.
  - apply rle_se; assumption.
  - apply rle_sl; assumption.
Qed.

Lemma aones_lt sz : valid_asize sz = true -> aones sz < amod sz /\ aones sz <> 0.
Proof. intros H. pose proof (amod_valid sz H). unfold aones. lia. Qed.

Lemma parse_raw_range_pair dbg c b e rest :
  valid_asize (c_asize c) = true -> b < amod (c_asize c) -> e < amod (c_asize c) ->
  parse_raw_range dbg c (enc_addr c b ++ enc_addr c e ++ rest) =
  Ok ((if (b =? 0) && (e =? 0) then None
       else if b =? aones (c_asize c) then Some (inl e) else Some (inr (b, e))), rest).
Proof.
  intros Hv Hb He. unfold parse_raw_range. repeat rt_step.
  destruct ((b =? 0) && (e =? 0)); [reflexivity|].
  rewrite ones_sized_valid by exact Hv. cbn [bind].
  destruct (b =? aones (c_asize c)); reflexivity.
Qed.

Lemma rng_parse_pair_enc dbg c e rest :
  valid_asize (c_asize c) = true -> wf_pair c e = true ->
  rng_parse dbg c true (enc_pair c e ++ rest) = Ok (Some e, rest).
Proof.
  intros Hv Hw. pose proof (aones_lt _ Hv) as [Ho Ho0]. unfold rng_parse.
  destruct e; try discriminate Hw; cbn [wf_pair] in Hw; wf_split; cbn [enc_pair]; rewrite <- app_assoc;
    rewrite parse_raw_range_pair by assumption; cbn [bind].
  - repeat match goal with H : ?x = false |- context [?x] => rewrite H end. reflexivity.
  - replace ((aones (c_asize c) =? 0) && (a =? 0)) with false by lia.
    rewrite N.eqb_refl. reflexivity.
Qed.

Lemma rng_parse_pair_end dbg c rest :
  valid_asize (c_asize c) = true ->
  rng_parse dbg c true (enc_addr c 0 ++ enc_addr c 0 ++ rest) = Ok (None, rest).
Proof.
  intros Hv. pose proof (amod_valid _ Hv). unfold rng_parse.
  rewrite parse_raw_range_pair by (try assumption; lia). reflexivity.
Qed.

Lemma parse_data_enc dbg c d rest :
  wf_data c d = true -> parse_data dbg c (enc_data c d ++ rest) = Ok (d, rest).
Proof.
  intros Hw. unfold wf_data in Hw. unfold parse_data, enc_data. destruct (5 <=? c_version c).
  - wf_split. repeat rt_step. apply split_app.
  - rewrite <- app_assoc. unfold read_u16. rewrite read_un_enc. cbn [bind].
    rewrite N.mod_small by (change (256 ^ N.of_nat 2) with 65536; lia). apply split_app.
Qed.

Lemma loc_parse_lle_end dbg c rest : loc_parse dbg c false (n2b 0 :: rest) = Ok (None, rest).
Proof. reflexivity. Qed.

Section LleEntries.
  Variables (dbg : bool) (c : lcfg) (rest : list byte).
  Hypothesis Hv : valid_asize (c_asize c) = true.

  Ltac lle_go := intros; unfold loc_parse; cbn [enc_lle]; opcode_start; repeat rt_step;
    try (rewrite parse_data_enc by assumption); reflexivity.

  Lemma lle_basex i : i < two64 ->
    loc_parse dbg c false (enc_lle c (LBasex i, []) ++ rest) = Ok (Some (LBasex i, []), rest).
  Proof. lle_go. Qed.
  Lemma lle_base a : a < amod (c_asize c) ->
    loc_parse dbg c false (enc_lle c (LBase a, []) ++ rest) = Ok (Some (LBase a, []), rest).
  Proof. lle_go. Qed.
  Lemma lle_sxex i j d : i < two64 -> j < two64 -> wf_data c d = true ->
    loc_parse dbg c false (enc_lle c (LStartxEndx i j, d) ++ rest) = Ok (Some (LStartxEndx i j, d), rest).
  Proof. lle_go. Qed.
  Lemma lle_sxlen i l d : i < two64 ->
    (if 5 <=? c_version c then fits_u64 l else l <? 4294967296) = true -> wf_data c d = true ->
    loc_parse dbg c false (enc_lle c (LStartxLength i l, d) ++ rest) = Ok (Some (LStartxLength i l, d), rest).
  Proof.
    intros Hi Hl Hd. unfold loc_parse. cbn [enc_lle]. opcode_start. repeat rt_step.
    destruct (5 <=? c_version c).
    - wf_split. repeat rt_step. rewrite parse_data_enc by assumption. reflexivity.
    - repeat rewrite <- app_assoc. unfold read_u32. rewrite read_un_enc. cbn [bind].
      rewrite N.mod_small by (change (256 ^ N.of_nat 4) with 4294967296; lia).
      rewrite parse_data_enc by assumption. reflexivity.
  Qed.
  Lemma lle_offp b e d : b < two64 -> e < two64 -> wf_data c d = true ->
    loc_parse dbg c false (enc_lle c (LOffsetPair b e, d) ++ rest) = Ok (Some (LOffsetPair b e, d), rest).
  Proof. lle_go. Qed.
  Lemma lle_dflt d : wf_data c d = true ->
    loc_parse dbg c false (enc_lle c (LDefault, d) ++ rest) = Ok (Some (LDefault, d), rest).
  Proof. lle_go. Qed.
  Lemma lle_se b e d : b < amod (c_asize c) -> e < amod (c_asize c) -> wf_data c d = true ->
    loc_parse dbg c false (enc_lle c (LStartEnd b e, d) ++ rest) = Ok (Some (LStartEnd b e, d), rest).
  Proof. lle_go. Qed.
  Lemma lle_sl b l d : b < amod (c_asize c) -> l < two64 -> wf_data c d = true ->
    loc_parse dbg c false (enc_lle c (LStartLength b l, d) ++ rest) = Ok (Some (LStartLength b l, d), rest).
  Proof. lle_go. Qed.
End LleEntries.

Lemma loc_parse_lle_enc dbg c x rest :
  valid_asize (c_asize c) = true -> wf_lle c x = true ->
  loc_parse dbg c false (enc_lle c x ++ rest) = Ok (Some x, rest).
Proof.
  intros Hv Hw. destruct x as [e d]. unfold wf_lle in Hw. apply andb_true_iff in Hw as [Hd Hw].
  destruct e; try discriminate Hw; cbn [has_data] in Hd;
    try (destruct d; [|discriminate Hd]).
  - wf_split. apply lle_base; assumption.
  - wf_split. apply lle_basex; assumption.
  - wf_split. apply lle_sxex; assumption.
  - apply andb_true_iff in Hw as [Hi Hl]. apply fits_u64_lt in Hi. apply lle_sxlen; assumption.
  - wf_split. apply lle_offp; assumption.
  - apply lle_dflt; assumption.
  - wf_split. apply lle_se; assumption.
  - wf_split. apply lle_sl; assumption.
Qed.

Lemma loc_parse_pair_enc dbg c x rest :
  valid_asize (c_asize c) = true -> wf_locpair c x = true ->
  loc_parse dbg c true (enc_locpair c x ++ rest) = Ok (Some x, rest).
Proof.
  intros Hv Hw. destruct x as [e d]. pose proof (aones_lt _ Hv) as [Ho Ho0]. unfold loc_parse.
  destruct e; try discriminate Hw; cbn [enc_locpair wf_locpair wf_pair] in *; wf_split.
  - repeat rewrite <- app_assoc. rewrite parse_raw_range_pair by assumption. cbn [bind].
    repeat match goal with H : ?x = false |- context [?x] => rewrite H end.
    unfold read_u16. rewrite read_un_enc. cbn [bind].
    rewrite N.mod_small by (change (256 ^ N.of_nat 2) with 65536; lia).
    rewrite split_app. reflexivity.
  - destruct d; [|discriminate]. rewrite <- app_assoc.
    rewrite parse_raw_range_pair by assumption. cbn [bind].
    replace ((aones (c_asize c) =? 0) && (a =? 0)) with false by lia.
    rewrite N.eqb_refl. reflexivity.
Qed.

Lemma loc_parse_pair_end dbg c rest :
  valid_asize (c_asize c) = true ->
  loc_parse dbg c true (enc_addr c 0 ++ enc_addr c 0 ++ rest) = Ok (None, rest).
Proof.
  intros Hv. pose proof (amod_valid _ Hv). unfold loc_parse.
  rewrite parse_raw_range_pair by (try assumption; lia). reflexivity.
Qed.
