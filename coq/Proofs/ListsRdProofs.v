(* Proofs/ListsRdProofs.v — lemmas about Model/ListsRd.v against Spec/ListSpec.v (property C08). *)
From Coq Require Import List NArith ZArith Bool Lia ZifyBool ZifyN ZifyNat.
From Coq.Strings Require Import Byte.
Require Import GV.Base.Res GV.Base.Byt GV.Base.Ints GV.Model.Leb GV.Model.Prim
               GV.Spec.LebSpec GV.Spec.ListSpec GV.Model.ListsRd.
Import ListNotations.
Local Open Scope N_scope.

Local Ltac Zify.zify_post_hook ::= Z.div_mod_to_equations.
Local Arguments N.add : simpl never.
Local Arguments N.sub : simpl never.
Local Arguments N.mul : simpl never.
Local Arguments N.shiftl : simpl never.
Local Arguments N.shiftr : simpl never.
Local Arguments N.land : simpl never.
Local Arguments N.lor : simpl never.
Local Arguments N.pow : simpl never.
Local Arguments N.div : simpl never.
Local Arguments N.modulo : simpl never.
Local Arguments N.of_nat : simpl never.
Local Arguments N.to_nat : simpl never.

(* ------------------------------------------------------------------ res helpers *)

Lemma bind_Ok {A B} (r : res A) (f : A -> res B) b :
  bind r f = Ok b -> exists a, r = Ok a /\ f a = Ok b.
Proof. destruct r; simpl; intros H; try discriminate; eauto. Qed.

Lemma bind_np {A B} (r : res A) (f : A -> res B) :
  r <> Panic -> (forall a, r = Ok a -> f a <> Panic) -> bind r f <> Panic.
Proof. destruct r; simpl; intros H1 H2; auto; try discriminate. Qed.

Lemma bind_nf {A B} (r : res A) (f : A -> res B) :
  r <> OutOfFuel -> (forall a, r = Ok a -> f a <> OutOfFuel) -> bind r f <> OutOfFuel.
Proof. destruct r; simpl; intros H1 H2; auto; try discriminate. Qed.

(* "good" = neither Panic nor OutOfFuel *)
Definition good {A} (r : res A) : Prop := r <> Panic /\ r <> OutOfFuel.

Lemma good_Ok {A} (a : A) : good (Ok a).
Proof. split; discriminate. Qed.
Lemma good_Err {A} e : good (@Err A e).
Proof. split; discriminate. Qed.
Lemma good_bind {A B} (r : res A) (f : A -> res B) :
  good r -> (forall a, r = Ok a -> good (f a)) -> good (bind r f).
Proof.
  intros [H1 H2] H. split.
  - apply bind_np; auto. intros a Ha. apply (H a Ha).
  - apply bind_nf; auto. intros a Ha. apply (H a Ha).
Qed.

(* ------------------------------------------------------------------ primitive readers: lengths *)

Lemma take_spec n : forall bs h t,
  take n bs = Some (h, t) -> bs = h ++ t /\ length h = n.
Proof.
  induction n as [|n IH]; intros bs h t H; simpl in H.
  - inversion H; subst. split; reflexivity.
  - destruct bs as [|b r]; try discriminate.
    destruct (take n r) as [[h' t']|] eqn:E; try discriminate.
    inversion H; subst. destruct (IH _ _ _ E) as [-> Hl]. split; simpl; congruence.
Qed.

Lemma take_app n : forall h t, length h = n -> take n (h ++ t) = Some (h, t).
Proof.
  induction n as [|n IH]; intros h t Hl.
  - destruct h; try discriminate. reflexivity.
  - destruct h as [|b h]; try discriminate. simpl. rewrite IH by (simpl in Hl; lia). reflexivity.
Qed.

Lemma take_none n : forall bs, take n bs = None -> (length bs < n)%nat.
Proof.
  induction n as [|n IH]; intros bs H; simpl in H; try discriminate.
  destruct bs as [|b r]; simpl; try lia.
  destruct (take n r) as [[h t]|] eqn:E; try discriminate. apply IH in E. lia.
Qed.

Lemma take_firstn n : forall bs, (n <= length bs)%nat -> take n bs = Some (firstn n bs, skipn n bs).
Proof.
  intros bs H. rewrite <- (firstn_skipn n bs) at 1. apply take_app.
  rewrite firstn_length. lia.
Qed.

Lemma read_un_len n be bs v r :
  read_un n be bs = Ok (v, r) -> length bs = (n + length r)%nat.
Proof.
  unfold read_un, read_bytes. destruct (take n bs) as [[h t]|] eqn:E; simpl; try discriminate.
  intros H; inversion H; subst. apply take_spec in E as [-> Hl]. rewrite app_length. lia.
Qed.

Lemma read_un_good n be bs : good (read_un n be bs).
Proof.
  unfold read_un, read_bytes. destruct (take n bs) as [[h t]|]; simpl; [apply good_Ok|apply good_Err].
Qed.

Lemma read_u8_len bs v r : read_u8 bs = Ok (v, r) -> length bs = S (length r).
Proof. destruct bs; simpl; intros H; inversion H; subst; reflexivity. Qed.

Lemma read_u8_good bs : good (read_u8 bs).
Proof. destruct bs; simpl; [apply good_Err|apply good_Ok]. Qed.

Lemma valid_asize_cases sz : valid_asize sz = true -> sz = 1 \/ sz = 2 \/ sz = 4 \/ sz = 8.
Proof. unfold valid_asize. lia. Qed.

Lemma read_address_ok sz be bs v r :
  read_address sz be bs = Ok (v, r) ->
  valid_asize sz = true /\ length bs = (N.to_nat sz + length r)%nat.
Proof.
  unfold read_address, valid_asize.
  destruct (sz =? 1) eqn:E1; [intros H; apply read_un_len in H; split; [reflexivity|]; assert (sz = 1) by lia; subst; exact H|].
  destruct (sz =? 2) eqn:E2; [intros H; apply read_un_len in H; split; [reflexivity|]; assert (sz = 2) by lia; subst; exact H|].
  destruct (sz =? 4) eqn:E4; [intros H; apply read_un_len in H; split; [reflexivity|]; assert (sz = 4) by lia; subst; exact H|].
  destruct (sz =? 8) eqn:E8; [intros H; apply read_un_len in H; split; [reflexivity|]; assert (sz = 8) by lia; subst; exact H|].
  discriminate.
Qed.

Lemma read_address_good sz be bs : good (read_address sz be bs).
Proof.
  unfold read_address.
  repeat match goal with |- good (if ?c then _ else _) => destruct c end;
    try apply read_un_good. apply good_Err.
Qed.

Lemma read_address_eq sz be bs :
  valid_asize sz = true -> read_address sz be bs = read_un (N.to_nat sz) be bs.
Proof.
  intros H. apply valid_asize_cases in H. destruct H as [-> | [-> | [-> | ->]]]; reflexivity.
Qed.

(* ---- ULEB128: never panics, consumes at least one byte *)

Lemma shl64_good dbg x s : s < 64 -> exists v, shl64 dbg x s = Ok v.
Proof. intros H. unfold shl64. replace (64 <=? s) with false by lia. eauto. Qed.

Lemma uleb_loop_good dbg : forall bs k res0,
  (k <= 9)%nat -> good (uleb_loop dbg res0 (7 * N.of_nat k) bs).
Proof.
  induction bs as [|b r IH]; intros k res0 Hk; simpl.
  - apply good_Err.
  - destruct ((7 * N.of_nat k =? 63) && negb (b2n b =? 0) && negb (b2n b =? 1)) eqn:E.
    + apply good_Err.
    + destruct (shl64_good dbg (low7 (b2n b)) (7 * N.of_nat k)) as [v Hv]; [lia|].
      rewrite Hv. simpl.
      destruct (has_cont (b2n b)) eqn:Hc; [|apply good_Ok].
      (* a continuation byte at shift 63 is impossible: bytes 0 and 1 have no continuation bit *)
      assert (Hk' : (k <= 8)%nat).
      { destruct (Nat.eq_dec k 9) as [->|]; [|lia]. exfalso.
        change (7 * N.of_nat 9) with 63 in E. rewrite N.eqb_refl in E. simpl in E.
        unfold has_cont, CONT in Hc.
        destruct (b2n b =? 0) eqn:E0; [assert (b2n b = 0) by lia; rewrite H in Hc; discriminate|].
        destruct (b2n b =? 1) eqn:E1; [assert (b2n b = 1) by lia; rewrite H in Hc; discriminate|].
        discriminate. }
      replace (7 * N.of_nat k + 7) with (7 * N.of_nat (S k)) by lia.
      apply IH. lia.
Qed.

Lemma read_uleb128_good dbg bs : good (read_uleb128 dbg bs).
Proof.
  destruct bs as [|b r]; simpl; [apply good_Err|].
  destruct (has_cont (b2n b)); [|apply good_Ok].
  change 7 with (7 * N.of_nat 1). apply uleb_loop_good. lia.
Qed.

Lemma uleb_loop_len dbg : forall bs res0 sh v r,
  uleb_loop dbg res0 sh bs = Ok (v, r) -> (length r < length bs)%nat.
Proof.
  induction bs as [|b r0 IH]; intros res0 sh v r H; simpl in H; try discriminate.
  destruct ((sh =? 63) && negb (b2n b =? 0) && negb (b2n b =? 1)); try discriminate.
  apply bind_Ok in H as [s [_ H]].
  destruct (has_cont (b2n b)).
  - apply IH in H. simpl. lia.
  - inversion H; subst. simpl. lia.
Qed.

Lemma read_uleb128_len dbg bs v r :
  read_uleb128 dbg bs = Ok (v, r) -> (length r < length bs)%nat.
Proof.
  destruct bs as [|b r0]; simpl; try discriminate.
  destruct (has_cont (b2n b)).
  - intros H. apply uleb_loop_len in H. lia.
  - intros H; inversion H; subst. lia.
Qed.

(* ---- skip / split *)

Lemma skip_good n bs : good (skip n bs).
Proof. unfold skip. destruct (_ <? _); [apply good_Err|apply good_Ok]. Qed.

Lemma split_good n bs : good (split n bs).
Proof. unfold split. destruct (_ <? _); [apply good_Err|apply good_Ok]. Qed.

Lemma split_len n bs d r : split n bs = Ok (d, r) -> (length r <= length bs)%nat.
Proof.
  unfold split. destruct (_ <? _); try discriminate. intros H; inversion H; subst.
  rewrite skipn_length. lia.
Qed.

Lemma split_app (d r : list byte) : split (N.of_nat (length d)) (d ++ r) = Ok (d, r).
Proof.
  unfold split. rewrite app_length.
  replace (N.of_nat (length d + length r) <? N.of_nat (length d)) with false by lia.
  rewrite Nat2N.id. rewrite firstn_app, skipn_app, Nat.sub_diag, firstn_all, skipn_all. simpl.
  now rewrite app_nil_r.
Qed.

(* ------------------------------------------------------------------ address-size arithmetic *)

Lemma ones_sized_valid dbg sz : valid_asize sz = true -> ones_sized dbg sz = Ok (aones sz).
Proof.
  intros H. apply valid_asize_cases in H. destruct H as [-> | [-> | [-> | ->]]]; destruct dbg; reflexivity.
Qed.

Lemma amod_valid sz : valid_asize sz = true -> amod sz <= two64 /\ 256 <= amod sz.
Proof.
  intros H. apply valid_asize_cases in H. unfold amod, two64.
  destruct H as [-> | [-> | [-> | ->]]]; cbn; lia.
Qed.

Lemma aones_ones sz : aones sz = N.ones (8 * sz).
Proof. unfold aones, amod. rewrite N.ones_equiv. lia. Qed.

(* wrapping_add_sized at a validated size is addition modulo 2^(8*size) *)
Lemma wrapping_add_sized_raw_valid dbg a l sz :
  valid_asize sz = true ->
  wrapping_add_sized_raw dbg a l sz = Ok (wadd sz a l).
Proof.
  intros H. unfold wrapping_add_sized_raw. rewrite ones_sized_valid by exact H. simpl.
  f_equal. rewrite aones_ones, N.land_ones. unfold wadd, wrap64, amod.
  apply valid_asize_cases in H.
  assert (E : exists k, two64 = 2 ^ (8 * sz) * k /\ k <> 0).
  { destruct H as [-> | [-> | [-> | ->]]]; [exists (2^56)|exists (2^48)|exists (2^32)|exists 1]; split; try reflexivity; discriminate. }
  destruct E as [k [E Hk]]. rewrite E.
  assert (Hm : 2 ^ (8 * sz) <> 0) by (apply N.pow_nonzero; discriminate).
  set (m := 2 ^ (8 * sz)) in *. set (x := a + l).
  rewrite N.mod_mul_r by assumption.
  rewrite (N.mul_comm m ((x / m) mod k)), N.mod_add by assumption.
  apply N.mod_mod. assumption.
Qed.

Lemma min_tombstone_raw_valid dbg sz :
  valid_asize sz = true -> min_tombstone_raw dbg sz = Ok (atomb sz).
Proof.
  intros H. unfold min_tombstone_raw. rewrite wrapping_add_sized_raw_valid by exact H.
  f_equal. apply valid_asize_cases in H. destruct H as [-> | [-> | [-> | ->]]]; reflexivity.
Qed.

(* the validated-size functions of Model/Prim.v agree *)
Lemma min_tombstone_valid sz : valid_asize sz = true -> min_tombstone sz = atomb sz.
Proof.
  intros H. apply valid_asize_cases in H. destruct H as [-> | [-> | [-> | ->]]]; reflexivity.
Qed.

(* whenever the unvalidated tombstone computation succeeds at all, its value is positive ... *)
Lemma wadd_lt sz a l : wadd sz a l < amod sz.
Proof. unfold wadd, amod. apply N.mod_lt. apply N.pow_nonzero. discriminate. Qed.

(* ------------------------------------------------------------------ raw parsers: no panic, progress *)

Lemma parse_raw_range_good dbg c inp : good (parse_raw_range dbg c inp).
Proof.
  unfold parse_raw_range.
  apply good_bind; [apply read_address_good|]. intros [b r1] H1.
  apply good_bind; [apply read_address_good|]. intros [e r2] H2.
  destruct ((b =? 0) && (e =? 0)); [apply good_Ok|].
  apply read_address_ok in H1 as [Hv _]. rewrite ones_sized_valid by exact Hv. simpl.
  destruct (b =? aones (c_asize c)); apply good_Ok.
Qed.

Lemma parse_raw_range_len dbg c inp o r :
  parse_raw_range dbg c inp = Ok (o, r) ->
  valid_asize (c_asize c) = true /\ (length r < length inp)%nat.
Proof.
  unfold parse_raw_range. intros H.
  apply bind_Ok in H as [[b r1] [H1 H]]. apply bind_Ok in H as [[e r2] [H2 H]].
  apply read_address_ok in H1 as [Hv L1]. apply read_address_ok in H2 as [_ L2].
  assert (Hsz : (0 < N.to_nat (c_asize c))%nat).
  { apply valid_asize_cases in Hv. lia. }
  split; [exact Hv|].
  destruct ((b =? 0) && (e =? 0)).
  - inversion H; subst. lia.
  - rewrite ones_sized_valid in H by exact Hv. simpl in H.
    destruct (b =? aones (c_asize c)); inversion H; subst; lia.
Qed.

Ltac good_step :=
  match goal with
  | |- good (Ok _) => apply good_Ok
  | |- good (Err _) => apply good_Err
  | |- good (split _ _) => apply split_good
  | |- good (bind (read_uleb128 _ _) _) => apply good_bind; [apply read_uleb128_good|intros [? ?] ?]
  | |- good (bind (read_address _ _ _) _) => apply good_bind; [apply read_address_good|intros [? ?] ?]
  | |- good (bind (read_u8 _) _) => apply good_bind; [apply read_u8_good|intros [? ?] ?]
  | |- good (bind (read_u16 _ _) _) => apply good_bind; [apply read_un_good|intros [? ?] ?]
  | |- good (bind (read_u32 _ _) _) => apply good_bind; [apply read_un_good|intros [? ?] ?]
  | |- good (bind (split _ _) _) => apply good_bind; [apply split_good|intros [? ?] ?]
  | |- good (bind (parse_raw_range _ _ _) _) => apply good_bind; [apply parse_raw_range_good|intros [? ?] ?]
  | |- good (if ?c then _ else _) => destruct c
  | |- good (match ?o with Some _ => _ | None => _ end) => destruct o
  | |- good (match ?o with inl _ => _ | inr _ => _ end) => destruct o
  | |- good (let (_, _) := ?p in _) => destruct p
  end.

Lemma rng_parse_good dbg c bare inp : good (rng_parse dbg c bare inp).
Proof. unfold rng_parse. repeat good_step. Qed.

Lemma parse_data_good dbg c inp : good (parse_data dbg c inp).
Proof. unfold parse_data. repeat good_step. Qed.

Lemma parse_data_len dbg c inp d r :
  parse_data dbg c inp = Ok (d, r) -> (length r < length inp)%nat.
Proof.
  unfold parse_data. destruct (5 <=? c_version c); intros H;
    apply bind_Ok in H as [[len r0] [H0 H]]; apply split_len in H.
  - apply read_uleb128_len in H0. lia.
  - apply read_un_len in H0. lia.
Qed.

Lemma loc_parse_good dbg c bare inp : good (loc_parse dbg c bare inp).
Proof.
  unfold loc_parse.
  repeat first [ good_step
               | apply good_bind; [apply parse_data_good|intros [? ?] ?]
               | apply good_bind; [destruct (5 <=? c_version c); [apply read_uleb128_good|apply read_un_good]|intros [? ?] ?] ].
Qed.

(* every successful parse consumes at least one byte *)
Ltac len_step :=
  match goal with
  | H : bind _ _ = Ok _ |- _ => apply bind_Ok in H; destruct H as [[? ?] [? H]]
  | H : (if ?c then _ else _) = Ok _ |- _ => destruct c
  | H : Ok _ = Ok _ |- _ => inversion H; subst; clear H
  | H : Err _ = Ok _ |- _ => discriminate H
  | H : read_uleb128 _ _ = Ok _ |- _ => apply read_uleb128_len in H
  | H : read_address _ _ _ = Ok _ |- _ => apply read_address_ok in H; destruct H as [_ H]
  | H : read_u8 _ = Ok _ |- _ => apply read_u8_len in H
  | H : read_u16 _ _ = Ok _ |- _ => apply read_un_len in H
  | H : read_u32 _ _ = Ok _ |- _ => apply read_un_len in H
  | H : split _ _ = Ok _ |- _ => apply split_len in H
  | H : parse_data _ _ _ = Ok _ |- _ => apply parse_data_len in H
  | H : parse_raw_range _ _ _ = Ok _ |- _ => apply parse_raw_range_len in H; destruct H as [_ H]
  end.

Lemma rng_parse_len dbg c bare inp o r :
  rng_parse dbg c bare inp = Ok (o, r) -> (length r < length inp)%nat.
Proof.
  unfold rng_parse. intros H. destruct bare.
  - apply bind_Ok in H as [[o' r'] [H0 H]]. apply parse_raw_range_len in H0 as [_ H0].
    destruct o' as [[a|[b e]]|]; inversion H; subst; lia.
  - repeat len_step; lia.
Qed.

Lemma loc_parse_len dbg c bare inp o r :
  loc_parse dbg c bare inp = Ok (o, r) -> (length r < length inp)%nat.
Proof.
  unfold loc_parse. intros H. destruct bare.
  - apply bind_Ok in H as [[o' r'] [H0 H]]. apply parse_raw_range_len in H0 as [_ H0].
    destruct o' as [[a|[b e]]|]; [inversion H; subst; lia| |inversion H; subst; lia].
    repeat len_step; lia.
  - apply bind_Ok in H as [[op r0] [H0 H]]. apply read_u8_len in H0.
    repeat match goal with
    | H : (if ?c then _ else _) = Ok _ |- _ => destruct c
    end;
    repeat first [ len_step
      | match goal with
        | H : (if 5 <=? c_version c then read_uleb128 _ _ else read_u32 _ _) = Ok _ |- _ =>
            destruct (5 <=? c_version c); [apply read_uleb128_len in H|apply read_un_len in H]
        end ]; lia.
Qed.

(* ------------------------------------------------------------------ raw iterators *)

Section RawNext.
  Context {A : Type} (parse : list byte -> res (option A * list byte)).
  Hypothesis Hgood : forall inp, good (parse inp).
  Hypothesis Hlen : forall inp o r, parse inp = Ok (o, r) -> (length r < length inp)%nat.

  Lemma raw_next_good inp : good (fst (raw_next parse inp)).
  Proof.
    unfold raw_next. destruct inp as [|b t]; [apply good_Ok|].
    destruct (Hgood (b :: t)) as [Hp Hf].
    destruct (parse (b :: t)) as [[[a|] rest]|e| |]; simpl; try apply good_Ok; try apply good_Err; contradiction.
  Qed.

  Lemma raw_next_some inp a inp' :
    raw_next parse inp = (Ok (Some a), inp') ->
    parse inp = Ok (Some a, inp') /\ (length inp' < length inp)%nat.
  Proof.
    unfold raw_next. destruct inp as [|b t]; [discriminate|].
    destruct (parse (b :: t)) as [[[a'|] rest]|e| |] eqn:E; intros H; inversion H; subst.
    split; [reflexivity|]. eapply Hlen; exact E.
  Qed.

  (* input.empty() at the end-of-list entry and on every error: the iterator is finished *)
  Lemma raw_next_stop inp r inp' :
    raw_next parse inp = (r, inp') -> (forall a, r <> Ok (Some a)) -> inp' = [].
  Proof.
    unfold raw_next. destruct inp as [|b t]; [intros H; inversion H; reflexivity|].
    destruct (parse (b :: t)) as [[[a'|] rest]|e| |]; intros H Hn; inversion H; subst; try reflexivity.
    exfalso. eapply Hn; reflexivity.
  Qed.

  Lemma raw_next_nil : raw_next parse [] = (Ok None, []).
  Proof. reflexivity. Qed.

  Lemma raw_next_err_nonempty inp e inp' : raw_next parse inp = (Err e, inp') -> inp <> [].
  Proof. destruct inp; [discriminate|discriminate]. Qed.

  Lemma raw_next_le inp r inp' : raw_next parse inp = (r, inp') -> (length inp' <= length inp)%nat.
  Proof.
    intros H. destruct r as [[a|]|e| |].
    - apply raw_next_some in H. lia.
    - apply raw_next_stop in H; [subst; simpl; lia|discriminate].
    - apply raw_next_stop in H; [subst; simpl; lia|discriminate].
    - apply raw_next_stop in H; [subst; simpl; lia|discriminate].
    - apply raw_next_stop in H; [subst; simpl; lia|discriminate].
  Qed.
End RawNext.

(* ------------------------------------------------------------------ indexed tables: no panic *)

Lemma get_address_good be sect asize base index : good (get_address be sect asize base index).
Proof.
  unfold get_address. apply good_bind; [apply skip_good|]. intros r1 _.
  destruct (checked_mul64 index asize); [|apply good_Err].
  apply good_bind; [apply skip_good|]. intros r2 _.
  apply good_bind; [apply read_address_good|]. intros [a r] _. apply good_Ok.
Qed.

Lemma read_word_good f be bs : good (read_word f be bs).
Proof. unfold read_word. destruct f; apply read_un_good. Qed.

Lemma get_offset_good be f sect base index : good (get_offset be f sect base index).
Proof.
  unfold get_offset. apply good_bind; [apply skip_good|]. intros r1 _.
  destruct (checked_mul64 _ _); [|apply good_Err].
  apply good_bind; [apply skip_good|]. intros r2 _.
  apply good_bind; [apply read_word_good|]. intros [a r] _.
  destruct (_ <? _); [apply good_Ok|apply good_Err].
Qed.

Lemma get_str_offset_good be f sect base index : good (get_str_offset be f sect base index).
Proof.
  unfold get_str_offset. apply good_bind; [apply skip_good|]. intros r1 _.
  destruct (checked_mul64 _ _); [|apply good_Err].
  apply good_bind; [apply skip_good|]. intros r2 _.
  apply good_bind; [apply read_word_good|]. intros [a r] _. apply good_Ok.
Qed.

(* a successful address lookup proves the address size valid *)
Lemma get_address_ok_valid be sect asize base index a :
  get_address be sect asize base index = Ok a -> valid_asize asize = true.
Proof.
  unfold get_address. intros H. apply bind_Ok in H as [r1 [_ H]].
  destruct (checked_mul64 index asize); [|discriminate].
  apply bind_Ok in H as [r2 [_ H]]. apply bind_Ok in H as [[v r] [H _]].
  now apply read_address_ok in H.
Qed.

(* ------------------------------------------------------------------ convert_raw *)

(* the filter at the end of convert_raw, for ANY configuration: whatever is yielded is non-empty and
   begins below the tombstone value computed for the configured address size *)
Lemma convert_raw_yield dbg c x base e rg base' :
  convert_raw dbg c x base e = Ok (Some rg, base') ->
  fst rg < snd rg /\ exists t, min_tombstone_raw dbg (c_asize c) = Ok t /\ fst rg < t.
Proof.
  unfold convert_raw.
  assert (F : forall r, (let* tomb := min_tombstone_raw dbg (c_asize c) in
                         if (tomb <=? fst r) || (snd r <=? fst r) then Ok (None, base) else Ok (Some r, base))
                        = Ok (Some rg, base') ->
              fst rg < snd rg /\ exists t, min_tombstone_raw dbg (c_asize c) = Ok t /\ fst rg < t).
  { intros r H. apply bind_Ok in H as [t [Ht H]].
    destruct ((t <=? fst r) || (snd r <=? fst r)) eqn:E; inversion H; subst.
    split; [lia|]. exists t. split; [exact Ht|lia]. }
  destruct e; intros H;
    repeat match goal with
    | H : bind _ _ = Ok (Some _, _) |- _ =>
        first [ apply F in H; exact H
              | apply bind_Ok in H; destruct H as [? [? H]] ]
    | H : (if ?c then _ else _) = Ok _ |- _ => destruct c
    | H : Ok (None, _) = Ok (Some _, _) |- _ => discriminate H
    end.
Qed.

Lemma convert_raw_good dbg c x base e :
  valid_asize (c_asize c) = true -> good (convert_raw dbg c x base e).
Proof.
  intros Hv. unfold convert_raw, ctx_address.
  rewrite !min_tombstone_raw_valid by exact Hv.
  destruct e; simpl;
    repeat first
      [ rewrite wrapping_add_sized_raw_valid by exact Hv; simpl
      | apply good_Ok
      | apply good_bind; [apply get_address_good|intros ? ?]
      | match goal with |- good (if ?c then _ else _) => destruct c end ].
Qed.

Lemma ones_sized_nf dbg sz : ones_sized dbg sz <> OutOfFuel.
Proof.
  unfold ones_sized, chk_mul, chk_sub.
  repeat first [ apply bind_nf; [|intros ? ?]
               | match goal with |- (if ?c then _ else _) <> OutOfFuel => destruct c end
               | discriminate ].
Qed.

Lemma wrapping_add_sized_raw_nf dbg a l sz : wrapping_add_sized_raw dbg a l sz <> OutOfFuel.
Proof. unfold wrapping_add_sized_raw. apply bind_nf; [apply ones_sized_nf|discriminate]. Qed.

Lemma convert_raw_nf dbg c x base e : convert_raw dbg c x base e <> OutOfFuel.
Proof.
  unfold convert_raw, ctx_address, min_tombstone_raw.
  destruct e;
    repeat first
      [ discriminate
      | apply bind_nf; [first [apply wrapping_add_sized_raw_nf | apply get_address_good]|intros ? ?]
      | match goal with |- (if ?c then _ else _) <> OutOfFuel => destruct c end ].
Qed.

(* ------------------------------------------------------------------ RngListIter / LocListIter *)

Section ListNext.
  Context {A B : Type} (parse : list byte -> res (option A * list byte))
          (ent : A -> lent) (mk : N * N -> A -> B).
  Hypothesis Hgood : forall inp, good (parse inp).
  Hypothesis Hlen : forall inp o r, parse inp = Ok (o, r) -> (length r < length inp)%nat.

  Notation lnext := (list_next parse ent mk).

  (* fuel |input| + 1 always suffices *)
  Lemma list_next_fuel dbg c x : forall fuel s,
    (length (s_inp s) < fuel)%nat -> fst (lnext fuel dbg c x s) <> OutOfFuel.
  Proof.
    induction fuel as [|f IH]; intros s Hf; [lia|]. simpl.
    destruct (raw_next parse (s_inp s)) as [r inp'] eqn:E.
    pose proof (raw_next_good parse Hgood (s_inp s)) as [_ Hnf]. rewrite E in Hnf. simpl in Hnf.
    destruct r as [[a|]|e| |]; simpl; try discriminate; try contradiction.
    apply (raw_next_some parse Hlen) in E as [_ L].
    destruct (convert_raw dbg c x (s_base s) (ent a)) as [[[rg|] b']|e| |] eqn:Ec; simpl; try discriminate.
    - apply IH. simpl. lia.
    - exfalso. exact (convert_raw_nf dbg c x (s_base s) (ent a) Ec).
  Qed.

  Lemma list_next_np dbg c x : valid_asize (c_asize c) = true -> forall fuel s,
    fst (lnext fuel dbg c x s) <> Panic.
  Proof.
    intros Hv. induction fuel as [|f IH]; intros s; simpl; [discriminate|].
    destruct (raw_next parse (s_inp s)) as [r inp'] eqn:E.
    pose proof (raw_next_good parse Hgood (s_inp s)) as [Hnp _]. rewrite E in Hnp. simpl in Hnp.
    destruct r as [[a|]|e| |]; simpl; try discriminate; try contradiction.
    pose proof (convert_raw_good dbg c x (s_base s) (ent a) Hv) as [Hc _].
    destruct (convert_raw dbg c x (s_base s) (ent a)) as [[[rg|] b']|e| |]; simpl; try discriminate; try contradiction.
    apply IH.
  Qed.

  (* every call either reports the end (and leaves nothing to read) or strictly shrinks the input *)
  Lemma list_next_progress dbg c x : forall fuel s r s',
    lnext fuel dbg c x s = (r, s') ->
    (length (s_inp s') <= length (s_inp s))%nat /\
    (r = Ok None -> s_inp s' = []) /\
    ((exists b, r = Ok (Some b)) \/ (exists e, r = Err e) -> (length (s_inp s') < length (s_inp s))%nat).
  Proof.
    induction fuel as [|f IH]; intros s r s' H; simpl in H.
    - inversion H; subst. repeat split; try lia; try discriminate; try (intros [[? ?]|[? ?]]; discriminate).
    - destruct (raw_next parse (s_inp s)) as [r0 inp'] eqn:E.
      destruct r0 as [[a|]|e| |].
      + apply (raw_next_some parse Hlen) in E as [_ L].
        destruct (convert_raw dbg c x (s_base s) (ent a)) as [[[rg|] b']|e| |] eqn:Ec.
        * inversion H; subst; simpl. repeat split; try lia; try discriminate.
        * apply IH in H. simpl in H. destruct H as [H1 [H2 H3]].
          split; [lia|split; [exact H2|intros Hx; specialize (H3 Hx); lia]].
        * inversion H; subst; simpl. repeat split; try lia; try discriminate.
        * inversion H; subst; simpl. repeat split; try lia; try discriminate; try (intros [[? ?]|[? ?]]; discriminate).
        * inversion H; subst; simpl. repeat split; try lia; try discriminate; try (intros [[? ?]|[? ?]]; discriminate).
      + apply raw_next_stop in E; [|discriminate]. inversion H; subst; simpl.
        repeat split; try lia; auto; try (intros [[? ?]|[? ?]]; discriminate).
      + pose proof (raw_next_err_nonempty parse _ _ _ E) as Hne.
        apply raw_next_stop in E; [|discriminate]. inversion H; subst; simpl.
        repeat split; try lia; try discriminate. intros _. destruct (s_inp s); [contradiction|simpl; lia].
      + inversion H; subst; simpl. eapply raw_next_le in E; [|exact Hgood|exact Hlen].
        repeat split; try lia; try discriminate; try (intros [[? ?]|[? ?]]; discriminate).
      + inversion H; subst; simpl. repeat split; try lia; try discriminate; try (intros [[? ?]|[? ?]]; discriminate).
  Qed.

  (* once the end was reported the iterator keeps reporting it *)
  Lemma list_next_nil dbg c x fuel base :
    lnext (S fuel) dbg c x {| s_inp := []; s_base := base |} = (Ok None, {| s_inp := []; s_base := base |}).
  Proof. reflexivity. Qed.

  (* the property's universal clause, for ANY input and configuration *)
  Lemma list_next_yield dbg c x : forall fuel s b s',
    lnext fuel dbg c x s = (Ok (Some b), s') ->
    exists rg a, b = mk rg a /\ fst rg < snd rg /\
                 exists t, min_tombstone_raw dbg (c_asize c) = Ok t /\ fst rg < t.
  Proof.
    induction fuel as [|f IH]; intros s b s' H; simpl in H; [discriminate|].
    destruct (raw_next parse (s_inp s)) as [r0 inp'] eqn:E.
    destruct r0 as [[a|]|e| |]; try discriminate.
    destruct (convert_raw dbg c x (s_base s) (ent a)) as [[[rg|] b']|e| |] eqn:Ec; try discriminate.
    - inversion H; subst. exists rg, a. split; [reflexivity|]. eapply convert_raw_yield; exact Ec.
    - eapply IH; exact H.
  Qed.
End ListNext.

(* ------------------------------------------------------------------ draining *)

Section Drain.
  Context {A St : Type} (next : St -> res (option A) * St) (mu : St -> nat).
  Hypothesis Hdec : forall s r s', next s = (r, s') ->
    (exists a, r = Ok (Some a)) \/ (exists e, r = Err e) -> (mu s' < mu s)%nat.
  Hypothesis Hnf : forall s, fst (next s) <> OutOfFuel.

  Lemma drain_fuel : forall calls s, (mu s < calls)%nat -> drain next calls s <> OutOfFuel.
  Proof.
    induction calls as [|k IH]; intros s Hm; [lia|]. simpl.
    destruct (next s) as [r s'] eqn:E. specialize (Hnf s). rewrite E in Hnf. simpl in Hnf.
    destruct r as [[a|]|e| |]; try discriminate; try contradiction.
    - apply bind_nf; [|discriminate]. apply IH.
      assert (mu s' < mu s)%nat by (eapply Hdec; [exact E|left; eauto]). lia.
    - apply bind_nf; [|discriminate]. apply IH.
      assert (mu s' < mu s)%nat by (eapply Hdec; [exact E|right; eauto]). lia.
  Qed.

  (* at most mu(s) items and errors before the final Ok(None) *)
  Lemma drain_length : forall calls s l, drain next calls s = Ok l -> (length l <= mu s)%nat.
  Proof.
    induction calls as [|k IH]; intros s l H; simpl in H; [discriminate|].
    destruct (next s) as [r s'] eqn:E.
    destruct r as [[a|]|e| |]; try discriminate.
    - apply bind_Ok in H as [l' [H1 H]]. inversion H; subst. apply IH in H1. simpl.
      assert (mu s' < mu s)%nat by (eapply Hdec; [exact E|left; eauto]). lia.
    - inversion H; subst. simpl. lia.
    - apply bind_Ok in H as [l' [H1 H]]. inversion H; subst. apply IH in H1. simpl.
      assert (mu s' < mu s)%nat by (eapply Hdec; [exact E|right; eauto]). lia.
  Qed.

  Lemma drain_np : (forall s, fst (next s) <> Panic) -> forall calls s, drain next calls s <> Panic.
  Proof.
    intros Hnp. induction calls as [|k IH]; intros s; simpl; [discriminate|].
    destruct (next s) as [r s'] eqn:E. specialize (Hnp s). rewrite E in Hnp. simpl in Hnp.
    destruct r as [[a|]|e| |]; try discriminate; try contradiction;
      (apply bind_np; [apply IH|discriminate]).
  Qed.

  Lemma drain_items (P : A -> Prop) :
    (forall s a s', next s = (Ok (Some a), s') -> P a) ->
    forall calls s l, drain next calls s = Ok l -> forall a, In (EvItem a) l -> P a.
  Proof.
    intros HP. induction calls as [|k IH]; intros s l H a Hin; simpl in H; [discriminate|].
    destruct (next s) as [r s'] eqn:E.
    destruct r as [[a'|]|e| |]; try discriminate.
    - apply bind_Ok in H as [l' [H1 H]]. inversion H; subst. destruct Hin as [Hin|Hin].
      + inversion Hin; subst. eapply HP; exact E.
      + eapply IH; eassumption.
    - inversion H; subst. contradiction.
    - apply bind_Ok in H as [l' [H1 H]]. inversion H; subst. destruct Hin as [Hin|Hin]; [discriminate|].
      eapply IH; eassumption.
  Qed.
End Drain.
