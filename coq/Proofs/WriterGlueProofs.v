(* Proofs/WriterGlueProofs.v — the glue between C11 (UnitWr), C15 (OpWr) and C16 (ListsWr):
   facts about the composed model Model/UnitGlueWr.v obtained by COMPOSING the theorems of the three
   properties (nothing about expressions, units or lists is re-proved here). *)
From Coq Require Import List NArith ZArith Bool Lia ZifyBool ZifyN ZifyNat.
From Coq.Strings Require Import Byte.
Require Import GV.Base.Res GV.Base.Byt GV.Base.Ints GV.Spec.LebSpec GV.Model.Leb GV.Model.Prim.
Require Import GV.Spec.UnitWrSpec GV.Model.UnitWr GV.Proofs.UnitWrProofs GV.Proofs.UnitRoundtrip.
Require Import GV.Model.UnitGlueWr.
Require GV.Spec.OpEncSpec GV.Model.OpWr GV.Proofs.OpWrProofs GV.Proofs.OpWrDec GV.Proofs.OpWrTotal GV.Proofs.OpRoundtrip.
Require GV.Model.OpDec.
Require GV.Spec.ListWrSpec GV.Model.ListsWr GV.Model.ListsRd GV.Proofs.ListsWrProofs GV.Proofs.ListsRoundtrip.
Import ListNotations.
Local Open Scope N_scope.
Local Arguments N.add : simpl never.
Local Arguments N.sub : simpl never.
Local Arguments N.mul : simpl never.
Local Arguments N.pow : simpl never.
Local Arguments N.of_nat : simpl never.
Local Arguments N.to_nat : simpl never.

Module OW := GV.Model.OpWr.
Module OP := GV.Proofs.OpWrProofs.
Module OD := GV.Proofs.OpWrDec.
Module OT := GV.Proofs.OpWrTotal.
Module ORT := GV.Proofs.OpRoundtrip.

Lemma blen_same (bs : list byte) : OW.blen bs = UnitWr.blen bs.
Proof. reflexivity. Qed.

(* the table Operation::write sees while the DIEs of the unit described by `cx` are written *)
Definition cx_uo (cx : wcx) : OW.uoffs := ouo (wc_unit_off cx) (wc_entries cx).
Definition cx_oe (cx : wcx) : OW.enc := oenc (wc_enc cx) (wc_be cx).

(* ================================================================== (1) the Exprloc attribute *)

(* what AttributeValue::write does for Exprloc(ex), in the vocabulary of the three models: the emitted
   bytes are a ULEB prefix `l` and the bytes `body` Expression::write appends at pos + |l|; the UnitWr value
   with its opaque Expression instantiated by (size_expr, body) is written to the very same wops; the fix-ups
   are those Expression::write pushed. *)
Lemma gav_write_expr_inv dbg cx pos ex ops fx :
  gav_write dbg cx pos (GExpr ex) = Ok (ops, fx) ->
  exists size l body fx0,
    OW.size_expr dbg (cx_oe cx) (Some (cx_uo cx)) ex = Ok size /\
    write_uleb128 size = Ok l /\
    OW.write_expr dbg (cx_oe cx) (Some (cx_uo cx)) true (pos + UnitWr.blen l) ex = Ok (body, fx0) /\
    ops = [WB l; WB body] /\ fx = map gfix fx0 /\
    av_write dbg cx (inst dbg (cx_oe cx) (cx_uo cx) (pos + UnitWr.blen l) (GExpr ex)) = Ok ops.
Proof.
  intros H. unfold gav_write in H. fold (cx_oe cx) (cx_uo cx) in H.
  apply bind_ok_inv in H. destruct H as [size [Es H]].
  apply bind_ok_inv in H. destruct H as [l [El H]].
  apply bind_ok_inv in H. destruct H as [[body fx0] [Ew H]].
  cbn [fst snd] in H. injection H as <- <-.
  exists size, l, body, fx0. repeat (split; [first [assumption|reflexivity]|]).
  unfold inst, av_write. cbn [x_size x_out].
  replace (if 4 <=? e_ver (wc_enc cx) then _ else _) with (Ok tt : res unit).
  2:{ unfold assert_form, dassert. cbn [av_form fst]. destruct (4 <=? e_ver (wc_enc cx)); rewrite N.eqb_refl; destruct dbg; reflexivity. }
  cbn [bind]. rewrite Es. cbn [bind]. rewrite El. cbn [bind]. rewrite Ew. cbn [bind fst]. reflexivity.
Qed.

(* for every other value the composed writer is UnitWr's *)
Lemma gav_write_plain_inv dbg cx pos v ops fx :
  gav_write dbg cx pos (GV v) = Ok (ops, fx) -> av_write dbg cx v = Ok ops /\ fx = ops_fixups pos ops.
Proof.
  intros H. unfold gav_write in H. apply bind_ok_inv in H. destruct H as [o [E H]]. injection H as <- <-. tauto.
Qed.

(* size() does not look at the bytes *)
Lemma av_size_inst_base dbg e lpv oe uo b1 b2 v :
  av_size dbg e lpv (inst dbg oe uo b1 v) = av_size dbg e lpv (inst dbg oe uo b2 v).
Proof. destruct v; reflexivity. Qed.

(* the hypothesis C11 carries about an opaque Expression ("predicted size = bytes written") is C15's expr_size
   for the instantiated one *)
Lemma inst_expr_ok dbg oe uo base ex :
  (forall bs fx, OW.write_expr dbg oe (Some uo) true base ex = Ok (bs, fx) -> OW.blen bs < 2 ^ 64) ->
  expr_ok (inst dbg oe uo base (GExpr ex)).
Proof.
  intros B. cbn [inst expr_ok x_out x_size]. intros bs H.
  apply bind_ok_inv in H. destruct H as [[b f] [E H]]. cbn [fst] in H. injection H as <-.
  exact (OP.expr_size_write dbg oe (Some uo) true base ex b f E (B _ _ E)).
Qed.

(* opaque Exprloc values may still be mixed in (GV (AvExprloc x)); they keep C11's hypothesis *)
Definition gexpr_ok (v : gval) : Prop := match v with GV v => expr_ok v | GExpr _ => True end.

(* (1a) size() = bytes written, for the composed attribute writer: C11 form_size_write_len with its expression
   hypothesis discharged by C15 expr_size.  The table is the complete one (the one write sees). *)
Theorem exprloc_attr_size_write_lemma dbg cx pos v ops fx :
  gav_write dbg cx pos v = Ok (ops, fx) -> gexpr_ok v -> ops_len ops < 2 ^ 64 ->
  gav_size dbg (wc_enc cx) (wc_be cx) (wc_lpv cx) (cx_uo cx) v = Ok (ops_len ops).
Proof.
  intros H X B. destruct v as [v|ex].
  - destruct (gav_write_plain_inv _ _ _ _ _ _ H) as [W _]. unfold gav_size. cbn [inst].
    apply av_write_size; assumption.
  - destruct (gav_write_expr_inv _ _ _ _ _ _ H) as [size [l [body [fx0 [Es [El [Ew [-> [-> W]]]]]]]]].
    unfold gav_size. fold (cx_oe cx).
    rewrite (av_size_inst_base dbg (wc_enc cx) (wc_lpv cx) (cx_oe cx) (cx_uo cx) 0 (pos + UnitWr.blen l)).
    apply av_write_size; [exact W| |exact B].
    apply inst_expr_ok. intros bs fx E. rewrite Ew in E. injection E as <- <-.
    rewrite !ops_len_cons, ops_len_nil in B. cbn [op_bytes] in B. unfold OW.blen, UnitWr.blen in *; lia.
Qed.

(* ------------------------------------------------------------------ fix-ups sit at the reference operands *)

(* C15 ref_fixup along the layout of an expression: the k-th operation, if it is call_ref / variable_value /
   implicit_pointer naming entry (u, en), starts at offsets[k] and its fix-up points one byte further (just
   behind the opcode), with the reference size of the operation *)
Lemma laid_ref_fixups dbg e uo offsets : forall ex pos offs bs fx,
  OP.laid (OW.write_op dbg e uo true offsets) pos ex offs bs fx ->
  forall k o u en size, nth_error ex k = Some o -> OD.ref_operand e o = Some (OW.REntry u en, size) ->
  exists p, nth_error offs k = Some p /\
            In {| OW.fx_offset := p + 1; OW.fx_size := size; OW.fx_unit := u; OW.fx_entry := en |} fx.
Proof.
  induction 1 as [pos|pos o r offs b f bs fx Hw Hl IH]; intros k o' u en size Hk Hr.
  - destruct k; discriminate.
  - destruct k as [|k]; cbn [nth_error] in Hk |- *.
    + injection Hk as <-. exists pos. split; [reflexivity|].
      assert (S := OD.ref_write_spec dbg e uo true offsets pos o (OW.REntry u en) size Hr). cbn beta iota in S.
      destruct (S b f Hw) as [-> _]. apply in_or_app. left. left. reflexivity.
    + destruct (IH k o' u en size Hk Hr) as [p [Hp Hin]]. exists p. split; [exact Hp|]. apply in_or_app. now right.
Qed.

(* ------------------------------------------------------------------ (1b) the attribute, read by the reader models *)

Lemma expr_offsets_inj dbg e uo base ex o1 o2 :
  OW.expr_offsets dbg e uo base ex = Ok o1 -> OW.expr_offsets dbg e uo base ex = Ok o2 -> o1 = o2.
Proof. intros A B. rewrite A in B. now injection B. Qed.

(* AttributeValue::Exprloc(ex) written by the composed model at position `pos` of .debug_info:
     * C03: Attr.parse_attribute under the specification the writer stores (form exprloc from version 4, block
       before) consumes exactly the written bytes and yields a value whose expression block is `body`;
     * C07: OpDec's OperationIter over `body` ends normally and yields the reader forms of the normal forms of
       the built operations (typed references carry entry_offset under the unit's table: see normal_form);
     * layout: `body` starts at pos + |prefix|, the k-th operation at offsets[k]; the fix-ups pushed to
       sections.debug_info_fixups are exactly those of that layout (laid), converted by gfix. *)
Theorem exprloc_attr_read_lemma dbg dbg' rdbg cx pos name ex ops fx rest :
  gav_write dbg cx pos (GExpr ex) = Ok (ops, fx) ->
  forallb OW.wf_op ex = true -> OW.wf_uoffs (Some (cx_uo cx)) = true -> forallb OD.decodable ex = true ->
  pos + ops_len ops < 2 ^ 63 -> AttrProofs.addr_size_ok (renc cx) ->
  exists l body fx0 offsets dl ros val,
    ops_bytes ops = l ++ body /\
    OpEncSpec.rd_uleb (l ++ body ++ rest) = Some (UnitWr.blen body, body ++ rest) /\
    AT.parse_attribute dbg' (renc cx)
       (AT.mkSpec name (if 4 <=? e_ver (wc_enc cx) then DW_FORM_exprloc else DW_FORM_block) 0)
       (ops_bytes ops ++ rest) = Ok (val, rest) /\
    AT.exprloc_value val = Some body /\
    OpDec.operations rdbg (ORT.renc (OP.dcfg_of (cx_oe cx))) body = (ros, None) /\
    map (fun x => ORT.tr (snd x)) dl = map Some ros /\
    OD.decoded (fun p o d => exists b, OD.normal_form dbg (cx_oe cx) (Some (cx_uo cx)) true offsets p o b d)
               (pos + UnitWr.blen l) ex offsets dl /\
    OP.laid (OW.write_op dbg (cx_oe cx) (Some (cx_uo cx)) true offsets) (pos + UnitWr.blen l) ex offsets body fx0 /\
    fx = map gfix fx0.
Proof.
  intros H Hwf Hu Hdec B HA.
  destruct (gav_write_expr_inv _ _ _ _ _ _ H) as [size [l [body [fx0 [Es [El [Ew [-> [-> W]]]]]]]]].
  rewrite !ops_len_cons, ops_len_nil in B. cbn [op_bytes] in B.
  assert (Bb : pos + UnitWr.blen l + OW.blen body < 2 ^ 63) by (unfold OW.blen, UnitWr.blen in *; lia).
  destruct (ORT.decode_written_by_reader_lemma dbg rdbg (cx_oe cx) (Some (cx_uo cx)) true (pos + UnitWr.blen l) ex body fx0
              Hwf Hu Hdec Bb Ew) as [offsets [dl [ros [Eo [Hd [Hops Htr]]]]]].
  destruct (OP.write_expr_laid dbg (cx_oe cx) (Some (cx_uo cx)) true (pos + UnitWr.blen l) ex body fx0 Ew ltac:(lia))
    as [offsets' [Eo' Hl]].
  assert (offsets' = offsets) by (eapply expr_offsets_inj; eassumption). subst offsets'.
  assert (Esz := OP.expr_size_write dbg (cx_oe cx) (Some (cx_uo cx)) true _ ex body fx0 Ew ltac:(unfold OW.blen, UnitWr.blen in *; lia)).
  rewrite Es in Esz. injection Esz as ->.
  set (v := inst dbg (cx_oe cx) (cx_uo cx) (pos + UnitWr.blen l) (GExpr ex)) in *.
  assert (Xo : x_out (match v with AvExprloc x => x | _ => mkX (Ok 0) (Ok []) end) = Ok body).
  { unfold v. cbn [inst x_out]. rewrite Ew. reflexivity. }
  destruct (attr_read_by_reader_lemma dbg dbg' cx (fun _ => zeros (wsz (wc_enc cx))) name v [WB l; WB body] rest W)
    as [val [Hp [Hv _]]].
  - apply (inst_expr_ok dbg (cx_oe cx) (cx_uo cx) (pos + UnitWr.blen l) ex).
    intros bs fx E. rewrite Ew in E. injection E as <- <-. lia.
  - unfold v. cbn [inst av_typed x_size x_out]. exists (OW.blen body), body. rewrite Es, Ew. cbn [bind fst].
    repeat split; try reflexivity. unfold OW.blen, UnitWr.blen in *; lia.
  - exact I.
  - intros _. apply zeros_blen.
  - exact HA.
  - exists l, body, fx0, offsets, dl, ros, val.
    assert (Eb : ops_bytes [WB l; WB body] = l ++ body).
    { unfold ops_bytes. cbn [flat_map op_bytes]. now rewrite app_nil_r. }
    assert (Er : ops_resolved (fun _ => zeros (wsz (wc_enc cx))) [WB l; WB body] = l ++ body).
    { unfold ops_resolved. cbn [flat_map op_resolved op_bytes]. now rewrite app_nil_r. }
    split; [exact Eb|]. split.
    { change (UnitWr.blen body) with (OW.blen body). apply OP.rd_uleb_written; [exact El|unfold OW.blen, UnitWr.blen in *; lia]. }
    split.
    { rewrite Eb, <- Er. unfold v in Hp. cbn [inst av_form fst snd ic_of] in Hp. exact Hp. }
    split.
    { unfold v in Hv. cbn [inst av_form av_fd fst snd ic_of x_out] in Hv. rewrite Ew in Hv. cbn [bind fst] in Hv.
      destruct (4 <=? e_ver (wc_enc cx)); cbn [FS.form_value] in Hv; injection Hv as <-; reflexivity. }
    repeat (split; [assumption|]). reflexivity.
Qed.

(* ------------------------------------------------------------------ (1c) the forward-reference error *)

Lemma sum_sizes_app dbg szf : forall a acc b,
  OW.sum_sizes dbg szf acc (a ++ b) = (let* x := OW.sum_sizes dbg szf acc a in OW.sum_sizes dbg szf x b).
Proof.
  induction a as [|o r IH]; intros acc b; cbn [app].
  - rewrite OP.sum_sizes_nil. reflexivity.
  - rewrite !OP.sum_sizes_cons. destruct (szf o) as [s| | |]; cbn [bind]; try reflexivity.
    destruct (OW.uadd dbg acc s) as [a'| | |]; cbn [bind]; try reflexivity. apply IH.
Qed.

(* calculate_offsets reaches an Exprloc whose expression embeds, ULEB-encoded (typed operations, convert,
   reinterpret — not the fixed-width call / parameter_ref), the unit offset of an entry that has no offset yet
   in the table built so far (a later entry, or one that is not in the tree): AttributeValue::size fails with
   UnsupportedExpressionForwardReference — the operations before it being sizable — and nothing is written *)
Theorem exprloc_forward_ref_lemma dbg e be lpv uo pre o post en n :
  OD.uses_entry o = Some en -> OW.wf_op o = true ->
  match o with OW.WoCall _ | OW.WoParameterRef _ => False | _ => True end ->
  (OW.nth_N (OW.uo_entries uo) en = Some 0 \/ OW.nth_N (OW.uo_entries uo) en = None) ->
  OW.size_expr dbg (oenc e be) (Some uo) pre = Ok n ->
  gav_size dbg e be lpv uo (GExpr (pre ++ o :: post)) = Err WUnsupportedExpressionForwardReference.
Proof.
  intros Hu Hwf Hk Hz Hp.
  assert (He : OW.entry_offset dbg (Some uo) en = Err WUnsupportedExpressionForwardReference).
  { rewrite OD.entry_offset_cases. destruct Hz as [-> | ->]; reflexivity. }
  destruct (OD.typed_ref_needs_offset dbg (oenc e be) (Some uo) true [] 0 o en _ Hu Hwf He) as [_ Hs].
  assert (Hs' : OW.size_op dbg (oenc e be) (Some uo) o = Err WUnsupportedExpressionForwardReference).
  { destruct o; try exact Hs; contradiction. }
  assert (Hx : OW.size_expr dbg (oenc e be) (Some uo) (pre ++ o :: post) = Err WUnsupportedExpressionForwardReference).
  { unfold OW.size_expr in *. rewrite sum_sizes_app, Hp. cbn [bind]. rewrite OP.sum_sizes_cons, Hs'. reflexivity. }
  unfold gav_size, inst, av_size. cbn [x_size]. rewrite Hx.
  unfold assert_form, dassert. cbn [av_form fst]. destruct (4 <=? e_ver e); rewrite N.eqb_refl; destruct dbg; reflexivity.
Qed.

(* ================================================================== (2) RangeListRef / LocationListRef *)

Module LR := GV.Model.ListsRd.
Module LW := GV.Model.ListsWr.

(* the values Dwarf::attr_ranges_offset / attr_locations_offset distinguish, from Attribute::value() *)
Definition lrd_aval (v : FS.attr_value) : LR.aval :=
  match v with
  | FS.VRangeListsRef o => LR.AvRangesRef o
  | FS.VDebugRngListsIndex i => LR.AvRnglistx i
  | FS.VLocationListsRef o => LR.AvLocRef o
  | FS.VDebugLocListsIndex i => LR.AvLoclistx i
  | FS.VAddr a => LR.AvAddr a
  | FS.VDebugAddrIndex i => LR.AvAddrx i
  | FS.VUdata n => LR.AvUdata n
  | _ => LR.AvOther
  end.

Definition DW_AT_location : N := 2.
Definition DW_AT_ranges : N := 85.

Definition list_ref (isloc : bool) (i : nat) : aval := if isloc then AvLocationListRef i else AvRangeListRef i.
Definition list_offs (isloc : bool) (cx : wcx) : list N := if isloc then wc_loc cx else wc_rng cx.
Definition list_at (isloc : bool) : N := if isloc then DW_AT_location else DW_AT_ranges.

(* DW_AT_ranges = RangeListRef(id) / DW_AT_location = LocationListRef(id): the attribute reader model, under the
   specification the writer stores (sec_offset; data4/data8 in DWARF 2/3), reads back a section offset that
   Attribute::value() turns into RangeListsRef(o) / LocationListsRef(o) with o = offsets.get(id): the number
   the list writer returned for that list *)
Theorem list_ref_attr_read_lemma dbg dbg' cx (isloc : bool) i ops rest :
  av_write dbg cx (list_ref isloc i) = Ok ops ->
  (forall o, nth_error (list_offs isloc cx) i = Some o -> o < 2 ^ 64) ->
  AttrProofs.addr_size_ok (renc cx) ->
  exists o val,
    nth_error (list_offs isloc cx) i = Some o /\
    AT.parse_attribute dbg' (renc cx)
       (AT.mkSpec (list_at isloc) (fst (av_form (wc_enc cx) (list_ref isloc i))) 0) (ops_bytes ops ++ rest) = Ok (val, rest) /\
    AT.attr_normalise (list_at isloc) val = (if isloc then FS.VLocationListsRef o else FS.VRangeListsRef o) /\
    lrd_aval (AT.attr_normalise (list_at isloc) val) = (if isloc then LR.AvLocRef o else LR.AvRangesRef o).
Proof.
  intros W Hb HA.
  assert (Hw : exists o b, nth_error (list_offs isloc cx) i = Some o /\ write_udata (wc_be cx) o (wsz (wc_enc cx)) = Ok b /\ ops = [WB b]).
  { destruct isloc; cbn [list_ref list_offs] in *; unfold av_write in W;
      apply bind_ok_inv in W; destruct W as [_ [_ W]];
      apply bind_ok_inv in W; destruct W as [o [Eo W]];
      apply bind_ok_inv in W; destruct W as [b [Eb W]]; injection W as <-;
      unfold idx_get, unwrap in Eo.
    - destruct (nth_error (wc_loc cx) i) as [o'|]; [|discriminate]. injection Eo as ->. eauto.
    - destruct (nth_error (wc_rng cx) i) as [o'|]; [|discriminate]. injection Eo as ->. eauto. }
  destruct Hw as [o [b [Eo [Eb ->]]]].
  assert (Hf : fits o (wsz (wc_enc cx)) = None).
  { assert (F := write_udata_fits (wc_be cx) o (wsz (wc_enc cx))). destruct (fits o (wsz (wc_enc cx))); [congruence|reflexivity]. }
  destruct (attr_read_by_reader_lemma dbg dbg' cx (fun _ => zeros (wsz (wc_enc cx))) (list_at isloc) (list_ref isloc i) [WB b] rest W)
    as [val [Hp [Hv _]]].
  - destruct isloc; exact I.
  - destruct isloc; cbn [list_ref av_typed list_offs] in *; eauto.
  - destruct isloc; cbn [list_ref av_ranges list_offs] in *; unfold nth0; rewrite Eo; apply Hb; exact Eo.
  - intros _. apply zeros_blen.
  - exact HA.
  - exists o, val. split; [exact Eo|].
    assert (Er : ops_resolved (fun _ => zeros (wsz (wc_enc cx))) [WB b] = ops_bytes [WB b]) by reflexivity.
    rewrite Er in Hp.
    assert (Hic : ic_of (snd (av_form (wc_enc cx) (list_ref isloc i))) = 0%Z) by (destruct isloc; reflexivity).
    rewrite Hic in Hp, Hv. split; [exact Hp|].
    assert (Hval : val = FS.VSecOffset o).
    { destruct isloc; cbn [list_ref list_at av_fd fst snd list_offs] in *; unfold nth0 in Hv; rewrite Eo in Hv;
        unfold renc in Hv; destruct (wc_enc cx) as [ver fmt asz]; cbn [e_ver e_fmt64 e_asz] in Hv;
        unfold DW_AT_location, DW_AT_ranges in Hv;
        destruct ((ver =? 2) || (ver =? 3)) eqn:E23.
      all: try (destruct fmt; cbn [FS.form_value FS.fmt64 FS.version negb andb] in Hv;
                unfold FS.legacy_section_offset in Hv; cbn [existsb FS.legacy_pointer_names N.eqb Pos.eqb orb] in Hv;
                injection Hv as <-; reflexivity).
      all: cbn [FS.form_value] in Hv; injection Hv as <-; reflexivity. }
    subst val. destruct isloc; split; reflexivity.
Qed.

Module LP := GV.Proofs.ListsWrProofs.
Module LRT := GV.Proofs.ListsRoundtrip.

(* the attribute step in the vocabulary of the C08 reader helpers: Dwarf::attr_ranges_offset /
   attr_locations_offset on Attribute::value() of what the C03 reader parsed = the list writer's offset *)
Lemma list_ref_attr_offset dbg dbg' cx (isloc : bool) i ops rest (u : LR.uctx) :
  av_write dbg cx (list_ref isloc i) = Ok ops ->
  (forall o, nth_error (list_offs isloc cx) i = Some o -> o < 2 ^ 64) ->
  AttrProofs.addr_size_ok (renc cx) -> LR.u_dwo u = false ->
  exists o val,
    nth_error (list_offs isloc cx) i = Some o /\
    AT.parse_attribute dbg' (renc cx)
       (AT.mkSpec (list_at isloc) (fst (av_form (wc_enc cx) (list_ref isloc i))) 0) (ops_bytes ops ++ rest) = Ok (val, rest) /\
    (if isloc then LR.attr_locations_offset u (lrd_aval (AT.attr_normalise (list_at isloc) val))
     else LR.attr_ranges_offset u (lrd_aval (AT.attr_normalise (list_at isloc) val))) = Ok (Some o).
Proof.
  intros W Hb HA Hd. destruct (list_ref_attr_read_lemma dbg dbg' cx isloc i ops rest W Hb HA) as [o [val [Eo [Hp [_ Hl]]]]].
  exists o, val. split; [exact Eo|]. split; [exact Hp|]. rewrite Hl. destruct isloc; cbn [LR.attr_locations_offset LR.attr_ranges_offset].
  - reflexivity.
  - unfold LR.ranges_offset_from_raw. rewrite Hd. reflexivity.
Qed.

Section list_attrs.
  Variables (dbg dbg' rdbg be fmt64 : bool) (version asz : N) (attrs : list (N * ListWrSpec.attrval)) (rstart lstart : N)
            (rtbl : list (list ListWrSpec.wrange)) (ltbl : list (list ListWrSpec.wloc))
            (rb lb : list byte) (ro lo : list N) (rsec lsec other : list byte) (cx : wcx) (u : LR.uctx).
  Hypothesis Hw : LW.unit_write_lists be fmt64 version asz attrs rstart lstart rtbl ltbl = Ok ((rb, ro), (lb, lo)).
  Hypothesis Hrs : N.of_nat (length rsec) = rstart.
  Hypothesis Hls : N.of_nat (length lsec) = lstart.
  Hypothesis Hwf : LP.unit_wf rtbl ltbl.
  (* the DIE writer's context is the one Unit::write builds from the list writers' results *)
  Hypothesis Hcx : wc_enc cx = mkEnc version fmt64 asz /\ wc_be cx = be /\ wc_rng cx = ro /\ wc_loc cx = lo.
  Hypothesis Hfit : Forall (fun o => o < 2 ^ 64) (ro ++ lo).
  Hypothesis HA : AttrProofs.addr_size_ok (renc cx).
  Hypothesis Hd : LR.u_dwo u = false.

  Let offs_fit (isloc : bool) i : forall o, nth_error (list_offs isloc cx) i = Some o -> o < 2 ^ 64.
  Proof.
    destruct Hcx as [_ [_ [Er El]]]. rewrite Forall_forall in Hfit. intros o Ho. apply Hfit. apply in_or_app.
    destruct isloc; cbn [list_offs] in Ho; [right; rewrite <- El|left; rewrite <- Er]; eapply nth_error_In; exact Ho.
  Qed.

  (* DWARF 5 *)
  Theorem list_attrs_roundtrip_v5_lemma : version = 5 -> LP.size_ok asz ->
    (forall i l ops rest, nth_error rtbl i = Some l -> av_write dbg cx (AvRangeListRef i) = Ok ops ->
       exists o val es,
         AT.parse_attribute dbg' (renc cx) (AT.mkSpec DW_AT_ranges (fst (av_form (wc_enc cx) (AvRangeListRef i))) 0)
                            (ops_bytes ops ++ rest) = Ok (val, rest) /\
         LR.attr_ranges_offset u (lrd_aval (AT.attr_normalise DW_AT_ranges val)) = Ok (Some o) /\
         ListWrSpec.ents_of (map ListWrSpec.loc_of_range l) = Some es /\
         LR.raw_ranges_all rdbg (LRT.rd_cfg be asz 5) other (rsec ++ rb) o = Ok (map LR.EvItem (map LRT.tr_ent es)) /\
         forall x base, N.of_nat (length (LR.x_addr x)) < two64 ->
           exists rs, ListWrSpec.meaning_rng asz base l = Some rs /\
             LR.ranges_all rdbg (LRT.rd_cfg be asz 5) x other (rsec ++ rb) o base = Ok (map LR.EvItem rs)) /\
    (forall i l ops rest, nth_error ltbl i = Some l -> av_write dbg cx (AvLocationListRef i) = Ok ops ->
       exists o val es,
         AT.parse_attribute dbg' (renc cx) (AT.mkSpec DW_AT_location (fst (av_form (wc_enc cx) (AvLocationListRef i))) 0)
                            (ops_bytes ops ++ rest) = Ok (val, rest) /\
         LR.attr_locations_offset u (lrd_aval (AT.attr_normalise DW_AT_location val)) = Ok (Some o) /\
         ListWrSpec.ents_of l = Some es /\
         LR.raw_locations_all rdbg (LRT.rd_cfg be asz 5) false other (lsec ++ lb) o = Ok (map LR.EvItem (map LRT.tr_loc es)) /\
         forall x base, N.of_nat (length (LR.x_addr x)) < two64 ->
           exists rs, ListWrSpec.meaning_loc asz base l = Some rs /\
             LR.locations_all rdbg (LRT.rd_cfg be asz 5) false x other (lsec ++ lb) o base = Ok (map LR.EvItem rs)).
  Proof.
    intros Hv Hs. subst version.
    destruct (LRT.rt_unit_reader_v5 rdbg be fmt64 asz attrs rstart lstart rtbl ltbl rb ro lb lo rsec lsec other Hw Hs Hrs Hls Hwf)
      as [R L].
    destruct Hcx as [_ [_ [Er El]]]. split.
    - intros i l ops rest Hl W. destruct (R i l Hl) as [o [es [Ho [He [Hraw Hres]]]]].
      destruct (list_ref_attr_offset dbg dbg' cx false i ops rest u W (offs_fit false i) HA Hd) as [o' [val [Eo [Hp Hoff]]]].
      cbn [list_offs] in Eo. rewrite Er, Ho in Eo. injection Eo as <-. exists o, val, es. repeat (split; [assumption|]). exact Hres.
    - intros i l ops rest Hl W. destruct (L i l Hl) as [o [es [Ho [He [Hraw Hres]]]]].
      destruct (list_ref_attr_offset dbg dbg' cx true i ops rest u W (offs_fit true i) HA Hd) as [o' [val [Eo [Hp Hoff]]]].
      cbn [list_offs] in Eo. rewrite El, Ho in Eo. injection Eo as <-. exists o, val, es. repeat (split; [assumption|]). exact Hres.
  Qed.

  (* DWARF 2-4 *)
  Theorem list_attrs_roundtrip_v4_lemma : 2 <= version <= 4 ->
    (forall i l ops rest, nth_error rtbl i = Some l -> av_write dbg cx (AvRangeListRef i) = Ok ops ->
       exists o val ps,
         AT.parse_attribute dbg' (renc cx) (AT.mkSpec DW_AT_ranges (fst (av_form (wc_enc cx) (AvRangeListRef i))) 0)
                            (ops_bytes ops ++ rest) = Ok (val, rest) /\
         LR.attr_ranges_offset u (lrd_aval (AT.attr_normalise DW_AT_ranges val)) = Ok (Some o) /\
         ListWrSpec.pairs_of (map ListWrSpec.loc_of_range l) = Some ps /\
         LR.raw_ranges_all rdbg (LRT.rd_cfg be asz version) (rsec ++ rb) other o = Ok (map LR.EvItem (map LRT.tr_ent ps)) /\
         forall x, N.of_nat (length (LR.x_addr x)) < two64 ->
           exists rs, ListWrSpec.meaning_rng asz (ListWrSpec.unit_base attrs) l = Some rs /\
             LR.ranges_all rdbg (LRT.rd_cfg be asz version) x (rsec ++ rb) other o (ListWrSpec.unit_base attrs) = Ok (map LR.EvItem rs)) /\
    (forall i l ops rest, nth_error ltbl i = Some l -> av_write dbg cx (AvLocationListRef i) = Ok ops ->
       exists o val ps,
         AT.parse_attribute dbg' (renc cx) (AT.mkSpec DW_AT_location (fst (av_form (wc_enc cx) (AvLocationListRef i))) 0)
                            (ops_bytes ops ++ rest) = Ok (val, rest) /\
         LR.attr_locations_offset u (lrd_aval (AT.attr_normalise DW_AT_location val)) = Ok (Some o) /\
         ListWrSpec.pairs_of l = Some ps /\
         LR.raw_locations_all rdbg (LRT.rd_cfg be asz version) false (lsec ++ lb) other o = Ok (map LR.EvItem (map LRT.tr_loc ps)) /\
         forall x, N.of_nat (length (LR.x_addr x)) < two64 ->
           exists rs, ListWrSpec.meaning_loc asz (ListWrSpec.unit_base attrs) l = Some rs /\
             LR.locations_all rdbg (LRT.rd_cfg be asz version) false x (lsec ++ lb) other o (ListWrSpec.unit_base attrs) = Ok (map LR.EvItem rs)).
  Proof.
    intros Hv.
    destruct (LRT.rt_unit_reader_v4 rdbg be fmt64 version asz attrs rstart lstart rtbl ltbl rb ro lb lo rsec lsec other Hw Hv Hrs Hls Hwf)
      as [R L].
    destruct Hcx as [_ [_ [Er El]]]. split.
    - intros i l ops rest Hl W. destruct (R i l Hl) as [o [ps [Ho [He [Hraw Hres]]]]].
      destruct (list_ref_attr_offset dbg dbg' cx false i ops rest u W (offs_fit false i) HA Hd) as [o' [val [Eo [Hp Hoff]]]].
      cbn [list_offs] in Eo. rewrite Er, Ho in Eo. injection Eo as <-. exists o, val, ps. repeat (split; [assumption|]). exact Hres.
    - intros i l ops rest Hl W. destruct (L i l Hl) as [o [ps [Ho [He [Hraw Hres]]]]].
      destruct (list_ref_attr_offset dbg dbg' cx true i ops rest u W (offs_fit true i) HA Hd) as [o' [val [Eo [Hp Hoff]]]].
      cbn [list_offs] in Eo. rewrite El, Ho in Eo. injection Eo as <-. exists o, val, ps. repeat (split; [assumption|]). exact Hres.
  Qed.
End list_attrs.

(* ================================================================== (3) location lists holding expressions *)

Module WS := GV.Spec.ListWrSpec.

(* one expression inside a list entry that starts at section position `pos` with the bytes `h` before the
   expression: what loc.rs write_expression appends is what C16's raw model appends for the byte string `d`
   the expression is written as, and the operations (hence the fix-ups: laid_ref_fixups) are laid out from
   pos + |h| + |length prefix| *)
Lemma gentry_tail_raw dbg oe uo pos h ex bs fx :
  gentry_tail dbg oe uo pos h ex = Ok (bs, fx) -> pos + OW.blen bs < 2 ^ 64 ->
  exists p d offsets,
    bs = h ++ p ++ d /\
    LW.opt_expression true (OW.e_be oe) (OW.e_version oe) d = Ok (p ++ d) /\
    OW.write_expr dbg oe (Some uo) true (pos + OW.blen h + OW.blen p) ex = Ok (d, fx) /\
    OP.laid (OW.write_op dbg oe (Some uo) true offsets) (pos + OW.blen h + OW.blen p) ex offsets d fx.
Proof.
  intros H B. unfold gentry_tail in H. apply bind_ok_inv in H. destruct H as [[x fx'] [E H]].
  cbn [fst snd] in H. injection H as <- <-.
  unfold OW.write_loc_expression in E.
  apply bind_ok_inv in E. destruct E as [size [Hs E]].
  apply bind_ok_inv in E. destruct E as [p [Hp E]].
  apply bind_ok_inv in E. destruct E as [[d f] [Hw E]]. injection E as <- <-.
  rewrite !OP.blen_app in B.
  rewrite (OP.expr_size_write _ _ _ _ _ _ _ _ Hw) in Hs by (unfold OW.blen, UnitWr.blen in *; lia). injection Hs as <-.
  destruct (OP.write_expr_laid dbg oe (Some uo) true _ ex d f Hw ltac:(unfold OW.blen, UnitWr.blen in *; lia)) as [offsets [_ Hl]].
  exists p, d, offsets. split; [reflexivity|]. split.
  - unfold LW.opt_expression, LW.write_expression. change (N.of_nat (length d)) with (OW.blen d). rewrite Hp. reflexivity.
  - split; [exact Hw|exact Hl].
Qed.

(* the C16 view of a location: the expression replaced by the bytes it is written as *)
Inductive raw_rel (dbg : bool) (oe : OW.enc) (uo : OW.uoffs) : gloc -> WS.wloc -> Prop :=
| rr_base a : raw_rel dbg oe uo (GLBase a) (WS.LBase a)
| rr_pair b e ex d base fx : OW.write_expr dbg oe (Some uo) true base ex = Ok (d, fx) ->
    raw_rel dbg oe uo (GLOffsetPair b e ex) (WS.LOffsetPair b e d)
| rr_se b e ex d base fx : OW.write_expr dbg oe (Some uo) true base ex = Ok (d, fx) ->
    raw_rel dbg oe uo (GLStartEnd b e ex) (WS.LStartEnd b e d)
| rr_sl b n ex d base fx : OW.write_expr dbg oe (Some uo) true base ex = Ok (d, fx) ->
    raw_rel dbg oe uo (GLStartLength b n ex) (WS.LStartLength b n d)
| rr_def ex d base fx : OW.write_expr dbg oe (Some uo) true base ex = Ok (d, fx) ->
    raw_rel dbg oe uo (GLDefault ex) (WS.LDefault d).

(* where the expression of an entry written at `pos` as `bs` sits, with the fix-ups it pushed *)
Definition entry_laid (dbg : bool) (oe : OW.enc) (uo : OW.uoffs) (pos : N) (g : gloc) (bs : list byte)
           (fx : list OW.fixup) : Prop :=
  match g with
  | GLBase _ => fx = []
  | GLOffsetPair _ _ ex | GLStartEnd _ _ ex | GLStartLength _ _ ex | GLDefault ex =>
      exists h p d offsets, bs = h ++ p ++ d /\
        OP.laid (OW.write_op dbg oe (Some uo) true offsets) (pos + OW.blen h + OW.blen p) ex offsets d fx
  end.

Lemma gwrite_entry_v5_raw dbg oe uo asz pos g bs fx :
  gwrite_entry_v5 dbg oe uo asz pos g = Ok (bs, fx) -> pos + OW.blen bs < 2 ^ 64 ->
  exists r, raw_rel dbg oe uo g r /\
            LW.write_entry_v5 true (OW.e_be oe) (OW.e_version oe) asz r = Ok bs /\
            entry_laid dbg oe uo pos g bs fx.
Proof.
  intros H B. destruct g as [a|b e ex|b e ex|b n ex|ex]; cbn [gwrite_entry_v5] in H.
  - apply bind_ok_inv in H. destruct H as [x [E H]]. injection H as <- <-.
    exists (WS.LBase a). split; [constructor|]. split; [|reflexivity]. cbn [LW.write_entry_v5]. rewrite E. reflexivity.
  - apply bind_ok_inv in H. destruct H as [b1 [E1 H]]. apply bind_ok_inv in H. destruct H as [b2 [E2 H]].
    destruct (gentry_tail_raw _ _ _ _ _ _ _ _ H B) as [p [d [offsets [-> [Ho [Hw Hl]]]]]].
    exists (WS.LOffsetPair b e d). split; [econstructor; exact Hw|]. split.
    + cbn [LW.write_entry_v5]. rewrite E1, E2. cbn [bind]. rewrite Ho. cbn [bind]. f_equal. cbn [app]. rewrite <- ?app_assoc. reflexivity.
    + cbn [entry_laid]. do 4 eexists. split; [reflexivity|exact Hl].
  - apply bind_ok_inv in H. destruct H as [b1 [E1 H]]. apply bind_ok_inv in H. destruct H as [b2 [E2 H]].
    destruct (gentry_tail_raw _ _ _ _ _ _ _ _ H B) as [p [d [offsets [-> [Ho [Hw Hl]]]]]].
    exists (WS.LStartEnd b e d). split; [econstructor; exact Hw|]. split.
    + cbn [LW.write_entry_v5]. rewrite E1, E2. cbn [bind]. rewrite Ho. cbn [bind]. f_equal. cbn [app]. rewrite <- ?app_assoc. reflexivity.
    + cbn [entry_laid]. do 4 eexists. split; [reflexivity|exact Hl].
  - apply bind_ok_inv in H. destruct H as [b1 [E1 H]]. apply bind_ok_inv in H. destruct H as [b2 [E2 H]].
    destruct (gentry_tail_raw _ _ _ _ _ _ _ _ H B) as [p [d [offsets [-> [Ho [Hw Hl]]]]]].
    exists (WS.LStartLength b n d). split; [econstructor; exact Hw|]. split.
    + cbn [LW.write_entry_v5]. rewrite E1, E2. cbn [bind]. rewrite Ho. cbn [bind]. f_equal. cbn [app]. rewrite <- ?app_assoc. reflexivity.
    + cbn [entry_laid]. do 4 eexists. split; [reflexivity|exact Hl].
  - destruct (gentry_tail_raw _ _ _ _ _ _ _ _ H B) as [p [d [offsets [-> [Ho [Hw Hl]]]]]].
    exists (WS.LDefault d). split; [econstructor; exact Hw|]. split.
    + cbn [LW.write_entry_v5]. rewrite Ho. cbn [bind]. f_equal.
    + cbn [entry_laid]. do 4 eexists. split; [reflexivity|exact Hl].
Qed.

(* a written list as consecutive entries: (start position, entry, its bytes, its fix-ups) *)
Inductive list_laid (dbg : bool) (oe : OW.enc) (uo : OW.uoffs) : N -> list gloc -> list (list byte) -> list OW.fixup -> Prop :=
| ll_nil pos : list_laid dbg oe uo pos [] [] []
| ll_cons pos g gs bs chunks fx fxs :
    entry_laid dbg oe uo pos g bs fx -> list_laid dbg oe uo (pos + OW.blen bs) gs chunks fxs ->
    list_laid dbg oe uo pos (g :: gs) (bs :: chunks) (fx ++ fxs).

Lemma gwrite_list_v5_raw dbg oe uo asz : forall l pos bs fx,
  gwrite_list_v5 dbg oe uo asz pos l = Ok (bs, fx) -> pos + OW.blen bs < 2 ^ 64 ->
  exists raws chunks,
    Forall2 (raw_rel dbg oe uo) l raws /\
    LW.write_list_v5 true (OW.e_be oe) (OW.e_version oe) asz raws = Ok bs /\
    bs = concat chunks ++ [n2b 0] /\ list_laid dbg oe uo pos l chunks fx.
Proof.
  induction l as [|g r IH]; intros pos bs fx H B; cbn [gwrite_list_v5] in H.
  - injection H as <- <-. exists [], []. repeat split; constructor.
  - apply bind_ok_inv in H. destruct H as [[eb ef] [E H]]. apply bind_ok_inv in H. destruct H as [[rb rf] [Er H]].
    cbn [fst snd] in *. injection H as <- <-. rewrite OP.blen_app in B.
    destruct (gwrite_entry_v5_raw _ _ _ _ _ _ _ _ E ltac:(unfold OW.blen, UnitWr.blen in *; lia)) as [x [Hx [Hwx Hel]]].
    destruct (IH _ _ _ Er ltac:(unfold OW.blen, UnitWr.blen in *; lia)) as [raws [chunks [HF [Hw [-> Hll]]]]].
    exists (x :: raws), (eb :: chunks). split; [constructor; assumption|]. split.
    + cbn [LW.write_list_v5]. rewrite Hwx. cbn [bind]. rewrite Hw. reflexivity.
    + split; [cbn [concat]; now rewrite app_assoc|]. constructor; assumption.
Qed.

(* ================================================================== (4) the DIE tree: the composed passes are UnitWr's
   passes on the tree whose opaque Expressions are instantiated *)

Section gdie_induction.
  Variable P : gdie -> Prop.
  Hypothesis step : forall id tag sib attrs ch, Forall P ch -> P (GDie id tag sib attrs ch).
  Fixpoint gdie_ind2 (d : gdie) : P d :=
    match d with
    | GDie id tag sib attrs ch =>
        step id tag sib attrs ch
          ((fix go (l : list gdie) : Forall P l :=
              match l with
              | [] => Forall_nil P
              | c :: r => Forall_cons c (gdie_ind2 c) (go r)
              end) ch)
    end.
End gdie_induction.

Fixpoint gdie_ids (d : gdie) : list nat :=
  match d with GDie id _ _ _ ch => id :: flat_map gdie_ids ch end.
Definition gdies_ids (l : list gdie) : list nat := flat_map gdie_ids l.

(* opaque Exprloc values mixed into the tree keep C11's hypothesis *)
Fixpoint gdie_ok (d : gdie) : Prop :=
  match d with
  | GDie _ _ _ attrs ch =>
      Forall (fun p => gexpr_ok (snd p)) attrs /\
      (fix go (l : list gdie) : Prop := match l with [] => True | c :: r => gdie_ok c /\ go r end) ch
  end.
Fixpoint gdies_ok (l : list gdie) : Prop := match l with [] => True | c :: r => gdie_ok c /\ gdies_ok r end.
Lemma gdie_ok_unfold id tag sib attrs ch :
  gdie_ok (GDie id tag sib attrs ch) = (Forall (fun p => gexpr_ok (snd p)) attrs /\ gdies_ok ch).
Proof. reflexivity. Qed.

Section glue_tree.
  Variables (dbg : bool) (cx : wcx).

  Fixpoint gwrite_list (l : list gdie) (p : N) : res (list wop * list fixup) :=
    match l with
    | [] => Ok ([], [])
    | k :: r =>
        let* o := gwrite_die dbg cx k p in
        let* rest := gwrite_list r (p + ops_len (fst o)) in
        Ok (fst o ++ fst rest, snd o ++ snd rest)
    end.

  Lemma gwrite_die_unfold id tag sib attrs ch pos :
    gwrite_die dbg cx (GDie id tag sib attrs ch) pos =
    (let* _ := (if dbg
                then let* here := debug_info_offset dbg (wc_unit cx) (wc_entries cx) (mkEid (wc_unit cx) id) in
                     dassert dbg (match here with Some o => o =? pos | None => false end)
                else Ok tt) in
     let* code := idx_get (wc_codes cx) id in
     let* cb := write_uleb128 code in
     let w := wsz (wc_enc cx) in
     let has_sib := sib && ghas_kids ch in
     let head := UnitWr.blen cb + (if has_sib then w else 0) in
     let* a := gattrs_write dbg cx (pos + head) attrs in
     match ch with
     | [] => Ok (WMark id :: WB cb :: fst a, snd a)
     | _ =>
         let* c := gwrite_list ch (pos + head + ops_len (fst a)) in
         let after := pos + head + ops_len (fst a) + ops_len (fst c) + 1 in
         let* sibb := (if has_sib
                       then let* next := chk_sub 64 dbg after (wc_unit_off cx) in
                            let* b := write_udata (wc_be cx) next w in Ok [WB b]
                       else Ok []) in
         Ok (WMark id :: WB cb :: sibb ++ fst a ++ fst c ++ [WB [x00]], snd a ++ snd c)
     end).
  Proof. reflexivity. Qed.

  (* a UnitWr value that is the composed value with its Expression instantiated under the unit's complete table *)
  Definition vrel (gv : gval) (a : aval) : Prop :=
    match gv with
    | GV v => a = v
    | GExpr ex => exists base, a = inst dbg (cx_oe cx) (cx_uo cx) base (GExpr ex)
    end.
  Definition arel (ga : N * gval) (a : N * aval) : Prop :=
    fst ga = fst a /\ vrel (snd ga) (snd a) /\ expr_ok (snd a).

  Fixpoint xrel (g : gdie) (d : die) {struct g} : Prop :=
    match g, d with
    | GDie id tag sib gattrs gch, Die id' tag' sib' attrs ch =>
        id = id' /\ tag = tag' /\ sib = sib' /\ Forall2 arel gattrs attrs /\
        (fix go (l : list gdie) (m : list die) {struct l} : Prop :=
           match l, m with
           | [], [] => True
           | x :: r, y :: s => xrel x y /\ go r s
           | _, _ => False
           end) gch ch
    end.
  Fixpoint xrel_list (l : list gdie) (m : list die) {struct l} : Prop :=
    match l, m with
    | [], [] => True
    | x :: r, y :: s => xrel x y /\ xrel_list r s
    | _, _ => False
    end.
  Lemma xrel_unfold id tag sib gattrs gch id' tag' sib' attrs ch :
    xrel (GDie id tag sib gattrs gch) (Die id' tag' sib' attrs ch) =
    (id = id' /\ tag = tag' /\ sib = sib' /\ Forall2 arel gattrs attrs /\ xrel_list gch ch).
  Proof. reflexivity. Qed.

  Lemma xrel_list_kids l m : xrel_list l m -> has_kids m = ghas_kids l.
  Proof. destruct l, m; cbn; tauto. Qed.

  Lemma xrel_expr_ok : forall g d, xrel g d -> die_expr_ok d.
  Proof.
    induction g as [id tag sib gattrs gch IH] using gdie_ind2. intros [id' tag' sib' attrs ch] H.
    rewrite xrel_unfold in H. destruct H as [_ [_ [_ [Ha Hc]]]]. rewrite die_expr_ok_unfold. split.
    - clear - Ha. induction Ha as [|x y l l' [_ [_ Hx]] _ IHa]; constructor; assumption.
    - clear Ha. revert ch Hc. induction IH as [|c r Hc' _ IHr]; intros [|y s] H; cbn [xrel_list dies_expr_ok] in *; try tauto.
      destruct H as [H1 H2]. split; [apply Hc'; exact H1|apply IHr; exact H2].
  Qed.

  Lemma xrel_ids : forall g d, xrel g d -> die_ids d = gdie_ids g.
  Proof.
    induction g as [id tag sib gattrs gch IH] using gdie_ind2. intros [id' tag' sib' attrs ch] H.
    rewrite xrel_unfold in H. destruct H as [<- [_ [_ [_ Hc]]]]. cbn [die_ids gdie_ids]. f_equal.
    revert ch Hc. induction IH as [|c r Hc' _ IHr]; intros [|y s] H; cbn [xrel_list flat_map] in *; try tauto.
    destruct H as [H1 H2]. rewrite (Hc' _ H1), (IHr _ H2). reflexivity.
  Qed.

  (* ---- the write pass ---- *)
  Lemma gattrs_write_sim : forall attrs pos aops afx,
    gattrs_write dbg cx pos attrs = Ok (aops, afx) -> Forall (fun p => gexpr_ok (snd p)) attrs ->
    pos + ops_len aops < 2 ^ 64 ->
    exists attrs', Forall2 arel attrs attrs' /\ attrs_write dbg cx attrs' = Ok aops.
  Proof.
    induction attrs as [|[n v] r IH]; intros pos aops afx H X B; cbn [gattrs_write] in H.
    - injection H as <- <-. exists []. split; [constructor|reflexivity].
    - apply bind_ok_inv in H. destruct H as [[o f] [E H]]. apply bind_ok_inv in H. destruct H as [[ro rf] [Er H]].
      cbn [fst snd] in *. injection H as <- <-. rewrite ops_len_app in B.
      inversion X as [|? ? X1 X2]; subst. cbn [snd] in X1.
      destruct (IH _ _ _ Er X2 ltac:(lia)) as [r' [HF Hw]].
      destruct v as [v|ex].
      + destruct (gav_write_plain_inv _ _ _ _ _ _ E) as [W _].
        exists ((n, v) :: r'). split.
        * constructor; [|exact HF]. split; [reflexivity|]. split; [reflexivity|exact X1].
        * cbn [attrs_write]. rewrite W. cbn [bind]. rewrite Hw. reflexivity.
      + destruct (gav_write_expr_inv _ _ _ _ _ _ E) as [size [l [body [fx0 [Es [El [Ew [-> [-> W]]]]]]]]].
        exists ((n, inst dbg (cx_oe cx) (cx_uo cx) (pos + UnitWr.blen l) (GExpr ex)) :: r'). split.
        * constructor; [|exact HF]. split; [reflexivity|]. split; [eexists; reflexivity|].
          apply inst_expr_ok. intros bs fx Eb. rewrite Ew in Eb. injection Eb as <- <-.
          rewrite !ops_len_cons, ops_len_nil in B. cbn [op_bytes] in B. unfold OW.blen, UnitWr.blen in *. lia.
        * cbn [attrs_write]. rewrite W. cbn [bind]. rewrite Hw. reflexivity.
  Qed.

  Lemma gwrite_list_sim ch :
    Forall (fun g => forall pos ops fx, gwrite_die dbg cx g pos = Ok (ops, fx) -> gdie_ok g ->
                     pos + ops_len ops < 2 ^ 64 -> exists d, xrel g d /\ write_die dbg cx d pos = Ok ops) ch ->
    forall pos ops fx, gwrite_list ch pos = Ok (ops, fx) -> gdies_ok ch -> pos + ops_len ops < 2 ^ 64 ->
    exists ch', xrel_list ch ch' /\ write_list dbg cx ch' pos = Ok ops.
  Proof.
    induction 1 as [|c r Hc _ IH]; intros pos ops fx H X B; cbn [gwrite_list] in H.
    - injection H as <- <-. exists []. split; [exact I|reflexivity].
    - apply bind_ok_inv in H. destruct H as [[o f] [E H]]. apply bind_ok_inv in H. destruct H as [[ro rf] [Er H]].
      cbn [fst snd] in *. injection H as <- <-. rewrite ops_len_app in B. destruct X as [X1 X2].
      destruct (Hc _ _ _ E X1 ltac:(lia)) as [d [Hd Wd]].
      destruct (IH _ _ _ Er X2 ltac:(lia)) as [r' [Hr Wr]].
      exists (d :: r'). split; [split; assumption|]. cbn [write_list]. rewrite Wd. cbn [bind]. rewrite Wr. reflexivity.
  Qed.

  Lemma gwrite_die_sim : forall g pos ops fx,
    gwrite_die dbg cx g pos = Ok (ops, fx) -> gdie_ok g -> pos + ops_len ops < 2 ^ 64 ->
    exists d, xrel g d /\ write_die dbg cx d pos = Ok ops.
  Proof.
    induction g as [id tag sib gattrs gch IH] using gdie_ind2. intros pos ops fx H X B.
    rewrite gwrite_die_unfold in H. rewrite gdie_ok_unfold in X. destruct X as [Xa Xc].
    apply bind_ok_inv in H. destruct H as [u0 [E0 H]].
    apply bind_ok_inv in H. destruct H as [code [Ec H]].
    apply bind_ok_inv in H. destruct H as [cb [Eb H]]. cbv zeta in H.
    apply bind_ok_inv in H. destruct H as [[aops afx] [Ea H]]. cbn [fst snd] in H.
    destruct gch as [|c r].
    - injection H as <- <-. rewrite !ops_len_cons in B. cbn [op_bytes] in B. change (UnitWr.blen []) with 0 in B.
      cbn [ghas_kids] in *. rewrite andb_false_r in *.
      destruct (gattrs_write_sim _ _ _ _ Ea Xa ltac:(lia)) as [attrs' [HF Wa]].
      exists (Die id tag sib attrs' []). split.
      + rewrite xrel_unfold. repeat split; try assumption.
      + rewrite write_die_unfold. rewrite E0. cbn [bind]. rewrite Ec. cbn [bind]. rewrite Eb. cbn [bind]. cbv zeta.
        rewrite Wa. reflexivity.
    - apply bind_ok_inv in H. destruct H as [[cops cfx] [Ech H]]. cbn [fst snd] in H.
      apply bind_ok_inv in H. destruct H as [sibb [Es H]]. injection H as <- <-.
      rewrite !ops_len_cons, !ops_len_app in B. cbn [op_bytes] in B.
      change (UnitWr.blen []) with 0 in B. change (UnitWr.blen [x00]) with 1 in B. rewrite ?ops_len_nil in B.
      assert (Hs : ops_len sibb = (if sib && ghas_kids (c :: r) then wsz (wc_enc cx) else 0)).
      { destruct (sib && ghas_kids (c :: r)).
        - apply bind_ok_inv in Es. destruct Es as [nx [_ Es]]. apply bind_ok_inv in Es. destruct Es as [b [Ew Es]].
          injection Es as <-. rewrite ops_len_wb. eapply write_udata_len; exact Ew.
        - injection Es as <-. apply ops_len_nil. }
      rewrite Hs in B.
      destruct (gattrs_write_sim _ _ _ _ Ea Xa ltac:(lia)) as [attrs' [HF Wa]].
      destruct (gwrite_list_sim _ IH _ _ _ Ech Xc ltac:(lia)) as [ch' [Hch Wc]].
      exists (Die id tag sib attrs' ch'). split.
      + rewrite xrel_unfold. repeat split; assumption.
      + rewrite write_die_unfold. rewrite E0. cbn [bind]. rewrite Ec. cbn [bind]. rewrite Eb. cbn [bind]. cbv zeta.
        rewrite (xrel_list_kids _ _ Hch). rewrite Wa. cbn [bind].
        destruct ch' as [|y s]; [destruct Hch|]. rewrite Wc. cbn [bind]. rewrite Es. reflexivity.
  Qed.
End glue_tree.

(* ---- the offsets pass ---- *)

Lemma nth_N_nth_error {A} : forall (l : list A) n, OW.nth_N l n = nth_error l (N.to_nat n).
Proof.
  induction l as [|x r IH]; intros n; cbn [OW.nth_N].
  - destruct (N.to_nat n); reflexivity.
  - destruct (n =? 0) eqn:E.
    + apply N.eqb_eq in E. subst. reflexivity.
    + apply N.eqb_neq in E. replace (N.to_nat n) with (S (N.to_nat (n - 1))) by lia. cbn [nth_error]. apply IH.
Qed.

Lemma nodup_app_inv {A} : forall (a b : list A), NoDup (a ++ b) -> NoDup a /\ NoDup b /\ (forall x, In x a -> ~ In x b).
Proof.
  induction a as [|x r IH]; intros b H; cbn [app] in H.
  - split; [constructor|]. split; [exact H|]. intros x [].
  - inversion H as [|? ? Hx Hr]; subst. destruct (IH _ Hr) as [A1 [A2 A3]]. split.
    + constructor; [|exact A1]. intros Hin. apply Hx. apply in_or_app. now left.
    + split; [exact A2|]. intros y [<-|Hy]; [intros Hin; apply Hx; apply in_or_app; now right|now apply A3].
Qed.

(* T1 is a less complete version of T2: every assigned (non-zero) offset of T1 is the same in T2 *)
Definition le_tab (T1 T2 : list N) : Prop := forall i o, nth_error T1 i = Some o -> o <> 0 -> nth_error T2 i = Some o.
(* none of `ids` has an offset yet *)
Definition fresh (ids : list nat) (T : list N) : Prop := forall i o, In i ids -> nth_error T i = Some o -> o = 0.

Lemma le_tab_trans a b c : le_tab a b -> le_tab b c -> le_tab a c.
Proof. intros H1 H2 i o Hi Ho. apply H2; [apply H1; assumption|assumption]. Qed.

Lemma le_tab_extends uoff T1 T2 : le_tab T1 T2 -> OT.extends (ouo uoff T1) (ouo uoff T2).
Proof.
  intros H. split; [reflexivity|]. cbn [OW.uo_entries ouo]. intros en off Hn Ho.
  rewrite nth_N_nth_error in *. apply H; assumption.
Qed.

Section glue_calc.
  Variables (dbg : bool) (cx : wcx) (lpv : N).
  Notation e := (wc_enc cx).
  Notation be := (wc_be cx).
  Notation uoff := (wc_unit_off cx).

  Fixpoint gcalc_list (l : list gdie) (s : cst) : res cst :=
    match l with
    | [] => Ok s
    | c :: r => let* s' := gcalc dbg e be lpv uoff c s in gcalc_list r s'
    end.

  Lemma gcalc_unfold id tag sib attrs ch st :
    gcalc dbg e be lpv uoff (GDie id tag sib attrs ch) st =
    (let* ents := set_nth id (cs_off st) (cs_entries st) in
     let d0 := Die id tag sib (inst_attrs dbg (oenc e be) (ouo uoff ents) attrs) (map shell ch) in
     let* ab := die_abbrev dbg e d0 in
     let (code, tab) := abbrev_add (cs_abbrevs st) ab in
     let* codes := set_nth id code (cs_codes st) in
     let* sz := die_size dbg e lpv d0 code in
     let* off := chk_add 64 dbg (cs_off st) sz in
     let st1 := mkCst off ents tab codes in
     match ch with
     | [] => Ok st1
     | _ =>
         let* st2 := gcalc_list ch st1 in
         let* off2 := chk_add 64 dbg (cs_off st2) 1 in
         Ok (mkCst off2 (cs_entries st2) (cs_abbrevs st2) (cs_codes st2))
     end).
  Proof. reflexivity. Qed.

  Lemma gcalc_list_frame ch :
    Forall (fun g => forall st st', gcalc dbg e be lpv uoff g st = Ok st' -> calc_frame_stmt dbg e (gdie_ids g) st st') ch ->
    forall st st', gcalc_list ch st = Ok st' -> calc_frame_stmt dbg e (gdies_ids ch) st st'.
  Proof.
    induction 1 as [|c r Hc Hr IH]; intros st st' H; cbn [gcalc_list] in H.
    - injection H as <-. repeat split; reflexivity.
    - binds. unfold gdies_ids. cbn [flat_map]. eapply calc_frame_trans; [apply Hc; eassumption|apply IH; assumption].
  Qed.

  Lemma gcalc_frame : forall g st st',
    gcalc dbg e be lpv uoff g st = Ok st' -> calc_frame_stmt dbg e (gdie_ids g) st st'.
  Proof.
    induction g as [id tag sib attrs ch IH] using gdie_ind2. intros st st' H.
    rewrite gcalc_unfold in H. binds. cbv zeta in H. binds.
    destruct (abbrev_add (cs_abbrevs st) a0) as [code tab] eqn:EA. binds.
    destruct (set_nth_spec _ _ _ _ E) as [S1 [S2 S3]].
    destruct (set_nth_spec _ _ _ _ E1) as [T1 [T2 T3]].
    assert (F1 : calc_frame_stmt dbg e [id] st (mkCst a3 a tab a1)).
    { split; [exact S3|]. split; [exact T3|]. intros i Hi. cbn [cs_entries cs_codes].
      split; [apply S2|apply T2]; intros ->; apply Hi; now left. }
    destruct ch as [|c r].
    - injection H as <-. cbn [gdie_ids flat_map]. exact F1.
    - binds. injection H as <-.
      assert (F2 := gcalc_list_frame _ IH _ _ E4).
      assert (F := calc_frame_trans _ _ _ _ _ _ _ F1 F2).
      cbn [gdie_ids]. change (id :: flat_map gdie_ids (c :: r)) with ([id] ++ gdies_ids (c :: r)).
      destruct F as [G1 [G2 G3]]. split; [exact G1|]. split; [exact G2|]. exact G3.
  Qed.

  Lemma frame_le ids st st' :
    calc_frame_stmt dbg e ids st st' -> fresh ids (cs_entries st) -> le_tab (cs_entries st) (cs_entries st').
  Proof.
    intros [_ [_ F]] Fr i o Hi Ho. destruct (in_dec Nat.eq_dec i ids) as [Hin|Hn].
    - exfalso. apply Ho. eapply Fr; eauto.
    - destruct (F i Hn) as [E _]. congruence.
  Qed.

  Lemma frame_fresh ids1 ids2 st st' :
    calc_frame_stmt dbg e ids1 st st' -> (forall i, In i ids1 -> ~ In i ids2) ->
    fresh ids2 (cs_entries st) -> fresh ids2 (cs_entries st').
  Proof.
    intros [_ [_ F]] D Fr i o Hi Ho. destruct (F i) as [E _]; [intros Hin; exact (D i Hin Hi)|].
    rewrite E in Ho. eapply Fr; eauto.
  Qed.

  (* abbreviation() and size() of an entry see the same thing in the composed tree and in its instance *)
  Lemma av_form_rel uo gv a : vrel dbg cx gv a -> av_form e (inst dbg (cx_oe cx) uo 0 gv) = av_form e a.
  Proof. destruct gv as [v|ex]; cbn [vrel]; [intros ->; reflexivity|intros [base ->]; reflexivity]. Qed.

  Lemma specs_rel uo : forall gattrs attrs, Forall2 (arel dbg cx) gattrs attrs ->
    attr_specs dbg e (inst_attrs dbg (cx_oe cx) uo gattrs) = attr_specs dbg e attrs.
  Proof.
    induction 1 as [|[n gv] [n' a] l l' [Hn [Hv _]] _ IH]; [reflexivity|].
    cbn [fst snd] in Hn, Hv. subst n'. unfold inst_attrs in *. cbn [map attr_specs fst snd].
    rewrite (av_form_rel uo gv a Hv). destruct (av_form e a) as [form ic]. rewrite IH. reflexivity.
  Qed.

  Lemma assert_exprloc x :
    (if 4 <=? e_ver e then assert_form dbg e (AvExprloc x) DW_FORM_exprloc
     else assert_form dbg e (AvExprloc x) DW_FORM_block) = Ok tt.
  Proof.
    unfold assert_form, dassert. cbn [av_form fst]. destruct (4 <=? e_ver e); rewrite N.eqb_refl; destruct dbg; reflexivity.
  Qed.

  Lemma av_size_rel u1 gv a s : OT.extends u1 (cx_uo cx) -> vrel dbg cx gv a ->
    av_size dbg e lpv (inst dbg (cx_oe cx) u1 0 gv) = Ok s -> av_size dbg e lpv a = Ok s.
  Proof.
    intros X V H. destruct gv as [v|ex]; cbn [vrel] in V.
    - subst. exact H.
    - destruct V as [base ->]. cbn [inst] in *. unfold av_size in *. cbn [x_size] in *.
      rewrite assert_exprloc in *. cbn [bind] in *.
      apply bind_ok_inv in H. destruct H as [n [En H]].
      rewrite (OT.size_expr_mono _ _ _ _ _ _ X En). cbn [bind]. exact H.
  Qed.

  Lemma sizes_rel u1 : OT.extends u1 (cx_uo cx) -> forall gattrs attrs, Forall2 (arel dbg cx) gattrs attrs ->
    forall acc sz, attrs_size dbg e lpv acc (inst_attrs dbg (cx_oe cx) u1 gattrs) = Ok sz ->
                   attrs_size dbg e lpv acc attrs = Ok sz.
  Proof.
    intros X. induction 1 as [|[n gv] [n' a] l l' [Hn [Hv _]] _ IH]; intros acc sz H; [exact H|].
    cbn [fst snd] in Hn, Hv. unfold inst_attrs in *. cbn [map attrs_size fst snd] in *.
    apply bind_ok_inv in H. destruct H as [s [Es H]]. rewrite (av_size_rel _ _ _ _ X Hv Es). cbn [bind].
    apply bind_ok_inv in H. destruct H as [acc' [Ea H]]. rewrite Ea. cbn [bind]. apply IH. exact H.
  Qed.

  Lemma kids_shell ch : has_kids (map shell ch) = ghas_kids ch.
  Proof. destruct ch; reflexivity. Qed.

  Definition sim_stmt (g : gdie) : Prop := forall st st',
    gcalc dbg e be lpv uoff g st = Ok st' -> le_tab (cs_entries st') (wc_entries cx) ->
    NoDup (gdie_ids g) -> fresh (gdie_ids g) (cs_entries st) ->
    forall d, xrel dbg cx g d -> calc dbg e lpv d st = Ok st'.

  Lemma gcalc_list_sim gch : Forall sim_stmt gch -> forall st st' ch,
    gcalc_list gch st = Ok st' -> le_tab (cs_entries st') (wc_entries cx) ->
    NoDup (gdies_ids gch) -> fresh (gdies_ids gch) (cs_entries st) ->
    xrel_list dbg cx gch ch -> calc_list dbg e lpv ch st = Ok st'.
  Proof.
    induction 1 as [|c r Hc Hr IH]; intros st st' ch H LE ND FR X.
    - destruct ch; [|destruct X]. exact H.
    - destruct ch as [|y s]; [destruct X|]. destruct X as [X1 X2]. cbn [gcalc_list] in H.
      apply bind_ok_inv in H. destruct H as [s1 [E1 H]].
      unfold gdies_ids in ND, FR. cbn [flat_map] in ND, FR. destruct (nodup_app_inv _ _ ND) as [N1 [N2 N3]].
      assert (F1 := gcalc_frame _ _ _ E1).
      assert (Fr2 : fresh (gdies_ids r) (cs_entries s1)).
      { eapply frame_fresh; [exact F1|exact N3|]. intros i o Hi. apply FR. apply in_or_app. now right. }
      assert (F2 : calc_frame_stmt dbg e (gdies_ids r) s1 st').
      { apply (gcalc_list_frame r); [|exact H]. apply Forall_forall. intros g _. apply gcalc_frame. }
      cbn [calc_list]. rewrite (Hc st s1 E1); [cbn [bind]; apply IH; assumption| | | |exact X1].
      + eapply le_tab_trans; [eapply frame_le; eassumption|exact LE].
      + exact N1.
      + intros i o Hi. apply FR. apply in_or_app. now left.
  Qed.

  Lemma gcalc_sim : forall g, sim_stmt g.
  Proof.
    induction g as [id tag sib gattrs gch IH] using gdie_ind2. intros st st' H LE ND FR [id' tag' sib' attrs ch] X.
    rewrite xrel_unfold in X. destruct X as [<- [<- [<- [Ha Hc]]]].
    rewrite gcalc_unfold in H. rewrite calc_unfold.
    apply bind_ok_inv in H. destruct H as [ents [E H]]. cbv zeta in H.
    apply bind_ok_inv in H. destruct H as [ab [Eab H]].
    destruct (abbrev_add (cs_abbrevs st) ab) as [code tab] eqn:EA.
    apply bind_ok_inv in H. destruct H as [codes [Ecd H]].
    apply bind_ok_inv in H. destruct H as [sz [Esz H]].
    apply bind_ok_inv in H. destruct H as [off [Eoff H]].
    cbn [gdie_ids] in ND, FR. inversion ND as [|? ? Nid Nch]; subst.
    destruct (set_nth_spec _ _ _ _ E) as [S1 [S2 S3]].
    (* the table size() saw is a less complete version of the final one *)
    assert (Hle : le_tab ents (wc_entries cx)).
    { destruct gch as [|c r].
      - injection H as <-. exact LE.
      - apply bind_ok_inv in H. destruct H as [st2 [E2 H]]. apply bind_ok_inv in H. destruct H as [off2 [_ H]].
        injection H as <-. cbn [cs_entries] in LE.
        assert (F2 : calc_frame_stmt dbg e (gdies_ids (c :: r)) (mkCst off ents tab codes) st2).
        { apply (gcalc_list_frame (c :: r)); [|exact E2]. apply Forall_forall. intros g _. apply gcalc_frame. }
        eapply le_tab_trans; [|exact LE].
        apply (frame_le _ _ _ F2). cbn [cs_entries]. intros i o Hi Ho.
        assert (Hne : i <> id) by (intros ->; exact (Nid Hi)).
        rewrite (S2 i Hne) in Ho. eapply FR; [right; exact Hi|exact Ho]. }
    assert (Hext := le_tab_extends uoff _ _ Hle). fold (cx_uo cx) in Hext.
    rewrite E. cbn [bind].
    assert (Hab : die_abbrev dbg e (Die id tag sib attrs ch) = Ok ab).
    { rewrite <- Eab. unfold die_abbrev. rewrite kids_shell, (xrel_list_kids _ _ _ _ Hc).
      fold (cx_oe cx). rewrite (specs_rel _ _ _ Ha). reflexivity. }
    rewrite Hab. cbn [bind]. rewrite EA. rewrite Ecd. cbn [bind].
    assert (Hsz : die_size dbg e lpv (Die id tag sib attrs ch) code = Ok sz).
    { unfold die_size in *. rewrite kids_shell in Esz. rewrite (xrel_list_kids _ _ _ _ Hc).
      apply bind_ok_inv in Esz. destruct Esz as [s0 [Es0 Esz]]. rewrite Es0. cbn [bind].
      fold (cx_oe cx) in Esz. eapply sizes_rel; eassumption. }
    rewrite Hsz. cbn [bind]. rewrite Eoff. cbn [bind]. cbv zeta.
    destruct gch as [|c r]; destruct ch as [|y s]; try (destruct Hc; fail); [exact H|].
    apply bind_ok_inv in H. destruct H as [st2 [E2 H]].
    rewrite (gcalc_list_sim (c :: r) IH _ _ (y :: s) E2); [exact H| |exact Nch| |exact Hc].
    - apply bind_ok_inv in H. destruct H as [off2 [_ H]]. injection H as <-. exact LE.
    - cbn [cs_entries]. intros i o Hi Ho.
      assert (Hne : i <> id) by (intros ->; exact (Nid Hi)).
      rewrite (S2 i Hne) in Ho. eapply FR; [right; exact Hi|exact Ho].
  Qed.
End glue_calc.

(* ================================================================== (5) C11 offsets_exact o C15 references *)

(* The composed unit body.  Unit::write runs gcalc from an all-zero table and hands its result to the write pass
   (wc_entries / wc_codes).  Then there is ONE UnitWr tree `d` — the composed tree with every Expression
   instantiated under the complete table (xrel) — on which UnitWr's calculate_offsets and write produce the very
   same state and the very same output, so every C11 theorem applies to the composed output; in particular
   offsets_exact: the table under which the expressions were written (cx_uo cx) assigns to every entry of the tree
   the position at which its DIE was emitted. *)
Theorem glue_offsets_exact_lemma dbg cx g st0 st ops fx :
  gcalc dbg (wc_enc cx) (wc_be cx) (wc_lpv cx) (wc_unit_off cx) g st0 = Ok st ->
  wc_entries cx = cs_entries st -> wc_codes cx = cs_codes st ->
  gwrite_die dbg cx g (cs_off st0) = Ok (ops, fx) ->
  NoDup (gdie_ids g) -> gdie_ok g ->
  (forall j y, nth_error (cs_entries st0) j = Some y -> y = 0) ->
  cs_off st0 + ops_len ops < 2 ^ 64 ->
  exists d,
    xrel dbg cx g d /\ calc dbg (wc_enc cx) (wc_lpv cx) d st0 = Ok st /\ write_die dbg cx d (cs_off st0) = Ok ops /\
    die_expr_ok d /\ die_ids d = gdie_ids g /\
    cs_off st = cs_off st0 + ops_len ops /\
    map fst (ops_marks (cs_off st0) ops) = gdie_ids g /\
    (forall i p, In (i, p) (ops_marks (cs_off st0) ops) -> nth_error (wc_entries cx) i = Some p).
Proof.
  intros HC He Hc HW ND OK Z B.
  destruct (gwrite_die_sim dbg cx g _ _ _ HW OK B) as [d [X W]].
  assert (C : calc dbg (wc_enc cx) (wc_lpv cx) d st0 = Ok st).
  { apply (gcalc_sim dbg cx (wc_lpv cx) g st0 st HC).
    - rewrite He. intros i o H _. exact H.
    - exact ND.
    - intros i o _ H. eapply Z. exact H.
    - exact X. }
  assert (XO := xrel_expr_ok _ _ _ _ X). assert (XI := xrel_ids _ _ _ _ X).
  destruct (offsets_exact_lemma dbg cx d st0 st ops C Hc W ltac:(rewrite XI; exact ND) XO B) as [A1 [A2 A3]].
  exists d. rewrite He. repeat split; try assumption. rewrite <- XI. exact A2.
Qed.

(* what a typed operation / call / parameter_ref of an expression written under that table embeds (C15 normal_form:
   `entry_offset dbg (Some (cx_uo cx)) en`): the unit-relative position of the target's DIE ... *)
Lemma entry_offset_mark dbg cx en p :
  nth_error (wc_entries cx) (N.to_nat en) = Some p -> p <> 0 -> wc_unit_off cx <= p ->
  OW.entry_offset dbg (Some (cx_uo cx)) en = Ok (p - wc_unit_off cx).
Proof.
  intros H Hp Hu. rewrite OD.entry_offset_cases. cbn [cx_uo ouo OW.uo_entries OW.uo_unit].
  rewrite nth_N_nth_error, H. destruct (p =? 0) eqn:E; [apply N.eqb_eq in E; contradiction|].
  apply chk_sub_ok. exact Hu.
Qed.

(* ... and for an entry that is not in the written tree (deleted, orphaned, or reserved and never added — inside or
   beyond the entries vector): the forward-reference error, never bytes *)
Lemma entry_offset_orphan dbg e be lpv uoff g st0 st en :
  gcalc dbg e be lpv uoff g st0 = Ok st ->
  (forall j y, nth_error (cs_entries st0) j = Some y -> y = 0) ->
  ~ In (N.to_nat en) (gdie_ids g) ->
  OW.entry_offset dbg (Some (ouo uoff (cs_entries st))) en = Err WUnsupportedExpressionForwardReference.
Proof.
  intros HC Z Hn.
  set (cx := mkWcx e be 0 uoff [] [] None [] [] [] [] lpv).
  destruct (gcalc_frame dbg cx lpv g st0 st HC) as [_ [_ F]]. destruct (F _ Hn) as [E _].
  rewrite OD.entry_offset_cases. cbn [ouo OW.uo_entries OW.uo_unit]. rewrite nth_N_nth_error, E.
  destruct (nth_error (cs_entries st0) (N.to_nat en)) as [y|] eqn:Ey.
  - rewrite (Z _ _ Ey). reflexivity.
  - reflexivity.
Qed.

(* ================================================================== (6) location lists: DWARF 2-4 list, tables *)

(* ---- DWARF 2-4: LocationListTable::write_loc, one list ---- *)
Lemma gwrite_list_v4_raw dbg oe uo asz mk : forall l hb pos bs fx,
  gwrite_list_v4 dbg oe uo asz mk hb pos l = Ok (bs, fx) -> pos + OW.blen bs < 2 ^ 64 ->
  exists raws chunks tail,
    Forall2 (raw_rel dbg oe uo) l raws /\
    LW.write_list_v4 true (OW.e_be oe) (OW.e_version oe) asz mk hb raws = Ok bs /\
    bs = concat chunks ++ tail /\ list_laid dbg oe uo pos l chunks fx.
Proof.
  induction l as [|g r IH]; intros hb pos bs fx H B.
  - cbn [gwrite_list_v4] in H. apply bind_ok_inv in H. destruct H as [z1 [E1 H]]. apply bind_ok_inv in H. destruct H as [z2 [E2 H]].
    injection H as <- <-. rewrite E1 in E2. injection E2 as <-. exists [], [], (z1 ++ z1). split; [constructor|]. split.
    + cbn [LW.write_list_v4]. rewrite E1. reflexivity.
    + split; [reflexivity|constructor].
  - assert (ENT : forall h ex hb' b1b2,
              h = b1b2 ->
              (let* en := gentry_tail dbg oe uo pos h ex in
               let* rest := gwrite_list_v4 dbg oe uo asz mk hb' (pos + UnitWr.blen (fst en)) r in
               Ok (fst en ++ fst rest, snd en ++ snd rest)) = Ok (bs, fx) ->
              exists p d offsets rb rfx raws chunks tail,
                bs = (h ++ p ++ d) ++ rb /\
                LW.opt_expression true (OW.e_be oe) (OW.e_version oe) d = Ok (p ++ d) /\
                (exists base f, OW.write_expr dbg oe (Some uo) true base ex = Ok (d, f)) /\
                Forall2 (raw_rel dbg oe uo) r raws /\
                LW.write_list_v4 true (OW.e_be oe) (OW.e_version oe) asz mk hb' raws = Ok rb /\
                rb = concat chunks ++ tail /\
                (exists efx, fx = efx ++ rfx /\
                   OP.laid (OW.write_op dbg oe (Some uo) true offsets) (pos + OW.blen h + OW.blen p) ex offsets d efx /\
                   list_laid dbg oe uo (pos + OW.blen (h ++ p ++ d)) r chunks rfx)).
    { intros h ex hb' b1b2 _ H'. apply bind_ok_inv in H'. destruct H' as [[eb ef] [Ee H']].
      apply bind_ok_inv in H'. destruct H' as [[rb rf] [Er H']]. cbn [fst snd] in *. injection H' as <- <-.
      rewrite OP.blen_app in B.
      destruct (gentry_tail_raw _ _ _ _ _ _ _ _ Ee ltac:(unfold OW.blen, UnitWr.blen in *; lia)) as [p [d [offsets [-> [Ho [Hw Hl]]]]]].
      destruct (IH _ _ _ _ Er ltac:(unfold OW.blen, UnitWr.blen in *; lia)) as [raws [chunks [tail [HF [Hwr [Hrb Hll]]]]]].
      exists p, d, offsets, rb, rf, raws, chunks, tail. repeat (split; [first [reflexivity|eassumption|eauto]|]).
      exists ef. repeat split; assumption. }
    destruct g as [a|b e ex|b e ex|b n ex|ex]; cbn [gwrite_list_v4] in H.
    + apply bind_ok_inv in H. destruct H as [b1 [E1 H]]. apply bind_ok_inv in H. destruct H as [b2 [E2 H]].
      apply bind_ok_inv in H. destruct H as [[rb rf] [Er H]]. cbn [fst snd] in H. injection H as <- <-.
      rewrite OP.blen_app in B.
      destruct (IH _ _ _ _ Er ltac:(unfold OW.blen, UnitWr.blen in *; lia)) as [raws [chunks [tail [HF [Hwr [-> Hll]]]]]].
      exists (WS.LBase a :: raws), ((b1 ++ b2) :: chunks), tail. split; [constructor; [constructor|exact HF]|]. split.
      * cbn [LW.write_list_v4]. rewrite E1, E2. cbn [bind]. rewrite Hwr. cbn [bind]. f_equal. rewrite <- ?app_assoc. reflexivity.
      * split; [cbn [concat]; rewrite <- ?app_assoc; reflexivity|].
        change rf with ([] ++ rf). constructor; [reflexivity|exact Hll].
    + destruct (b =? e) eqn:C1; [discriminate|]. destruct (negb hb) eqn:C2; [discriminate|]. destruct (b =? mk) eqn:C3; [discriminate|].
      apply bind_ok_inv in H. destruct H as [b1 [E1 H]]. apply bind_ok_inv in H. destruct H as [b2 [E2 H]].
      destruct (ENT _ _ _ _ eq_refl H) as [p [d [offsets [rb [rfx [raws [chunks [tail [-> [Ho [[base [f Hw]] [HF [Hwr [-> [efx [-> [Hl Hll]]]]]]]]]]]]]]]]].
      exists (WS.LOffsetPair b e d :: raws), (((b1 ++ b2) ++ p ++ d) :: chunks), tail.
      split; [constructor; [econstructor; exact Hw|exact HF]|]. split.
      * cbn [LW.write_list_v4]. rewrite C1, C2, C3, E1, E2. cbn [bind]. rewrite Ho. cbn [bind]. rewrite Hwr. cbn [bind].
        f_equal. rewrite <- ?app_assoc. reflexivity.
      * split; [cbn [concat]; rewrite <- ?app_assoc; reflexivity|]. constructor; [|exact Hll].
        cbn [entry_laid]. do 4 eexists. split; [reflexivity|exact Hl].
    + destruct (WS.addr_eqb b e) eqn:C1; [discriminate|]. destruct hb eqn:C2; [discriminate|].
      destruct (WS.addr_eqb b (WS.AConst mk)) eqn:C3; [discriminate|].
      apply bind_ok_inv in H. destruct H as [b1 [E1 H]]. apply bind_ok_inv in H. destruct H as [b2 [E2 H]].
      destruct (ENT _ _ _ _ eq_refl H) as [p [d [offsets [rb [rfx [raws [chunks [tail [-> [Ho [[base [f Hw]] [HF [Hwr [-> [efx [-> [Hl Hll]]]]]]]]]]]]]]]]].
      exists (WS.LStartEnd b e d :: raws), (((b1 ++ b2) ++ p ++ d) :: chunks), tail.
      split; [constructor; [econstructor; exact Hw|exact HF]|]. split.
      * cbn [LW.write_list_v4]. rewrite C1, C3, E1, E2. cbn [bind]. rewrite Ho. cbn [bind]. rewrite Hwr. cbn [bind].
        f_equal. rewrite <- ?app_assoc. reflexivity.
      * split; [cbn [concat]; rewrite <- ?app_assoc; reflexivity|]. constructor; [|exact Hll].
        cbn [entry_laid]. do 4 eexists. split; [reflexivity|exact Hl].
    + apply bind_ok_inv in H. destruct H as [en [Een H]].
      destruct (WS.addr_eqb b en) eqn:C1; [discriminate|]. destruct hb eqn:C2; [discriminate|].
      destruct (WS.addr_eqb b (WS.AConst mk)) eqn:C3; [discriminate|].
      apply bind_ok_inv in H. destruct H as [b1 [E1 H]]. apply bind_ok_inv in H. destruct H as [b2 [E2 H]].
      destruct (ENT _ _ _ _ eq_refl H) as [p [d [offsets [rb [rfx [raws [chunks [tail [-> [Ho [[base [f Hw]] [HF [Hwr [-> [efx [-> [Hl Hll]]]]]]]]]]]]]]]]].
      exists (WS.LStartLength b n d :: raws), (((b1 ++ b2) ++ p ++ d) :: chunks), tail.
      split; [constructor; [econstructor; exact Hw|exact HF]|]. split.
      * cbn [LW.write_list_v4]. rewrite Een. cbn [bind]. rewrite C1, C3, E1, E2. cbn [bind]. rewrite Ho. cbn [bind]. rewrite Hwr. cbn [bind].
        f_equal. rewrite <- ?app_assoc. reflexivity.
      * split; [cbn [concat]; rewrite <- ?app_assoc; reflexivity|]. constructor; [|exact Hll].
        cbn [entry_laid]. do 4 eexists. split; [reflexivity|exact Hl].
    + discriminate.
Qed.

(* ---- several lists, and LocationListTable::write as a whole ---- *)
Lemma gwrite_lists_v4_raw dbg oe uo asz mk hb : forall tbl pos bytes offs fx,
  gwrite_lists (gwrite_list_v4 dbg oe uo asz mk hb) pos tbl = Ok (bytes, offs, fx) -> pos + OW.blen bytes < 2 ^ 64 ->
  exists rtbl, Forall2 (Forall2 (raw_rel dbg oe uo)) tbl rtbl /\
    LW.write_lists_v4 true (OW.e_be oe) (OW.e_version oe) asz mk hb pos rtbl = Ok (bytes, offs).
Proof.
  induction tbl as [|l r IH]; intros pos bytes offs fx H B; cbn [gwrite_lists] in H.
  - injection H as <- <- <-. exists []. split; [constructor|reflexivity].
  - apply bind_ok_inv in H. destruct H as [[lb lf] [El H]]. apply bind_ok_inv in H. destruct H as [[[rb ro] rf] [Er H]].
    cbn [fst snd] in *. injection H as <- <- <-. rewrite OP.blen_app in B.
    destruct (gwrite_list_v4_raw _ _ _ _ _ _ _ _ _ _ El ltac:(unfold OW.blen, UnitWr.blen in *; lia)) as [raws [_ [_ [HF [Hw _]]]]].
    destruct (IH _ _ _ _ Er ltac:(unfold OW.blen, UnitWr.blen in *; lia)) as [rtbl [HFF Hwr]].
    exists (raws :: rtbl). split; [constructor; assumption|].
    cbn [LW.write_lists_v4]. rewrite Hw. cbn [bind]. change (N.of_nat (length lb)) with (UnitWr.blen lb). rewrite Hwr. reflexivity.
Qed.

Lemma gwrite_lists_v5_raw dbg oe uo asz : forall tbl pos bytes offs fx,
  gwrite_lists (gwrite_list_v5 dbg oe uo asz) pos tbl = Ok (bytes, offs, fx) -> pos + OW.blen bytes < 2 ^ 64 ->
  exists rtbl, Forall2 (Forall2 (raw_rel dbg oe uo)) tbl rtbl /\
    LW.write_lists_v5 true (OW.e_be oe) (OW.e_version oe) asz pos rtbl = Ok (bytes, offs).
Proof.
  induction tbl as [|l r IH]; intros pos bytes offs fx H B; cbn [gwrite_lists] in H.
  - injection H as <- <- <-. exists []. split; [constructor|reflexivity].
  - apply bind_ok_inv in H. destruct H as [[lb lf] [El H]]. apply bind_ok_inv in H. destruct H as [[[rb ro] rf] [Er H]].
    cbn [fst snd] in *. injection H as <- <- <-. rewrite OP.blen_app in B.
    destruct (gwrite_list_v5_raw _ _ _ _ _ _ _ _ El ltac:(unfold OW.blen, UnitWr.blen in *; lia)) as [raws [_ [HF [Hw _]]]].
    destruct (IH _ _ _ _ Er ltac:(unfold OW.blen, UnitWr.blen in *; lia)) as [rtbl [HFF Hwr]].
    exists (raws :: rtbl). split; [constructor; assumption|].
    cbn [LW.write_lists_v5]. rewrite Hw. cbn [bind]. change (N.of_nat (length lb)) with (UnitWr.blen lb). rewrite Hwr. reflexivity.
Qed.

(* LocationListTable::write of the composed model = C16's table_write on the raw view of the table: same bytes, same
   LocationListOffsets — so every C16 theorem (write_read_by_reader_v5/_v4, rejects, ambiguity, no_panic) applies to the
   location lists the composed model writes, with `d` = the bytes each expression is written as *)
Theorem gloc_table_write_raw dbg oe uo hb start tbl bytes offs fx :
  gloc_table_write dbg oe uo hb start tbl = Ok (bytes, offs, fx) -> start + 20 + OW.blen bytes < 2 ^ 64 ->
  exists rtbl, Forall2 (Forall2 (raw_rel dbg oe uo)) tbl rtbl /\
    LW.table_write true (OW.e_be oe) (OW.e_fmt64 oe) (OW.e_version oe) (OW.e_asize oe) hb start rtbl = Ok (bytes, offs).
Proof.
  intros H B. unfold gloc_table_write in H. destruct tbl as [|l r].
  - injection H as <- <- <-. exists []. split; [constructor|reflexivity].
  - destruct ((2 <=? OW.e_version oe) && (OW.e_version oe <=? 4)) eqn:V4.
    + apply bind_ok_inv in H. destruct H as [mk [Em H]].
      destruct (gwrite_lists_v4_raw _ _ _ _ _ _ _ _ _ _ _ H ltac:(lia)) as [rtbl [HF Hw]].
      exists rtbl. split; [exact HF|]. inversion HF; subst. unfold LW.table_write. rewrite V4. unfold LW.write_tbl_v4. rewrite Em. exact Hw.
    + destruct (OW.e_version oe =? 5) eqn:V5; [|discriminate].
      apply bind_ok_inv in H. destruct H as [[[body bo] bf] [Eb H]]. cbn [fst snd] in H.
      apply bind_ok_inv in H. destruct H as [il [Ei H]]. injection H as <- <- <-.
      rewrite !OP.blen_app in B.
      destruct (gwrite_lists_v5_raw _ _ _ _ _ _ _ _ _ Eb) as [rtbl [HF Hw]].
      { unfold LW.initial_length_size. destruct (OW.e_fmt64 oe); lia. }
      exists rtbl. split; [exact HF|]. inversion HF; subst. unfold LW.table_write. rewrite V4, V5. unfold LW.write_tbl_v5. rewrite V5. cbn [negb].
      rewrite Hw. cbn [bind]. change (N.of_nat (length body)) with (UnitWr.blen body). rewrite Ei. reflexivity.
Qed.


(* ================================================================== (7) the unit-relative operands, end to end *)
Lemma ops_marks_ge : forall ops pos i p, In (i, p) (ops_marks pos ops) -> pos <= p.
Proof.
  induction ops as [|o r IH]; intros pos i p H; cbn [ops_marks] in H; [destruct H|].
  destruct o; try (apply IH in H; lia).
  destruct H as [E|H]; [injection E as _ <-; lia|apply IH in H; lia].
Qed.

(* In the unit body written by the composed passes, the operand that a typed operation / call / parameter_ref naming
   entry `en` embeds (C15 normal_form: entry_offset under the table the expressions were written with) is the
   position at which write emitted the DIE of `en` (its WMark) minus the unit's offset: C11 offsets_exact o C15. *)
Theorem glue_ref_operand_lemma dbg cx g st0 st ops fx :
  gcalc dbg (wc_enc cx) (wc_be cx) (wc_lpv cx) (wc_unit_off cx) g st0 = Ok st ->
  wc_entries cx = cs_entries st -> wc_codes cx = cs_codes st ->
  gwrite_die dbg cx g (cs_off st0) = Ok (ops, fx) ->
  NoDup (gdie_ids g) -> gdie_ok g ->
  (forall j y, nth_error (cs_entries st0) j = Some y -> y = 0) ->
  cs_off st0 + ops_len ops < 2 ^ 64 ->
  0 < cs_off st0 -> wc_unit_off cx <= cs_off st0 ->
  forall en p, In (N.to_nat en, p) (ops_marks (cs_off st0) ops) ->
    OW.entry_offset dbg (Some (cx_uo cx)) en = Ok (p - wc_unit_off cx).
Proof.
  intros HC He Hc HW ND OK Z B P0 PU en p Hin.
  destruct (glue_offsets_exact_lemma dbg cx g st0 st ops fx HC He Hc HW ND OK Z B) as [d [_ [_ [_ [_ [_ [_ [_ A]]]]]]]].
  assert (G := ops_marks_ge _ _ _ _ Hin).
  apply entry_offset_mark; [apply A; exact Hin|lia|lia].
Qed.
