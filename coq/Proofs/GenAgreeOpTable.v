(* Proofs/GenAgreeOpTable.v — translator tie for Operation::parse (src/read/op.rs): the opcode -> variant /
   operand-layout table regenerated from the source text (coq/Gen/OpTable.v) against Model/OpDec.v parse_opcode,
   for all 256 opcode bytes. *)
From Coq Require Import List NArith Bool String Lia.
From Coq.Strings Require Import Byte.
Require Import GV.Base.Res GV.Base.Byt GV.Proofs.GenSweep.
Require GV.Gen.OpTable GV.Gen.Constants.
Require Import GV.Model.OpDec.
Import ListNotations.
Local Open Scope string_scope.
Local Open Scope N_scope.

(* the Rust name of each constructor of the model's Operation *)
Definition op_ctor (o : operation) : string :=
  match o with
  | ODeref _ _ _ => "Deref" | ODrop => "Drop" | OPick _ => "Pick" | OSwap => "Swap" | ORot => "Rot"
  | OAbs => "Abs" | OAnd => "And" | ODiv => "Div" | OMinus => "Minus" | OMod => "Mod" | OMul => "Mul"
  | ONeg => "Neg" | ONot => "Not" | OOr => "Or" | OPlus => "Plus" | OPlusConstant _ => "PlusConstant"
  | OShl => "Shl" | OShr => "Shr" | OShra => "Shra" | OXor => "Xor" | OBra _ => "Bra"
  | OEq => "Eq" | OGe => "Ge" | OGt => "Gt" | OLe => "Le" | OLt => "Lt" | ONe => "Ne" | OSkip _ => "Skip"
  | OUnsignedConstant _ => "UnsignedConstant" | OSignedConstant _ => "SignedConstant"
  | ORegister _ => "Register" | ORegisterOffset _ _ _ => "RegisterOffset" | OFrameOffset _ => "FrameOffset"
  | ONop => "Nop" | OPushObjectAddress => "PushObjectAddress" | OCall _ => "Call"
  | OVariableValue _ => "VariableValue" | OTLS => "TLS" | OCallFrameCFA => "CallFrameCFA" | OPiece _ _ => "Piece"
  | OImplicitValue _ => "ImplicitValue" | OStackValue => "StackValue" | OImplicitPointer _ _ => "ImplicitPointer"
  | OEntryValue _ => "EntryValue" | OParameterRef _ => "ParameterRef" | OAddress _ => "Address"
  | OAddressIndex _ => "AddressIndex" | OConstantIndex _ => "ConstantIndex" | OTypedLiteral _ _ => "TypedLiteral"
  | OConvert _ => "Convert" | OReinterpret _ => "Reinterpret" | OUninitialized => "Uninitialized"
  | OWasmLocal _ => "WasmLocal" | OWasmGlobal _ => "WasmGlobal" | OWasmStack _ => "WasmStack"
  end.

Fixpoint lookup_op (n : N) (l : list (N * (list string * option (list string))))
  : option (list string * option (list string)) :=
  match l with
  | [] => None
  | (k, v) :: r => if n =? k then Some v else lookup_op n r
  end.

(* a benign operand tail: every LEB128 is the single byte 1, every length is 1, every register is 1 *)
Definition tail : list byte := repeat x01 24.
(* 8-byte addresses, 32-bit DWARF version 4, little endian; and version 2 for the DW_OP_implicit_pointer branch *)
Definition enc4 : enc := mkEnc 8 false 4 false.
Definition enc2 : enc := mkEnc 8 false 2 false.

(* bytes consumed by one reader call on that tail *)
Definition read_cost (call : string) : option N :=
  if String.eqb call "read_u8" || String.eqb call "read_i8" then Some 1
  else if String.eqb call "read_u16" || String.eqb call "read_i16" then Some 2
  else if String.eqb call "read_u32" || String.eqb call "read_i32" then Some 4
  else if String.eqb call "read_u64" || String.eqb call "read_i64" then Some 8
  else if String.eqb call "read_uleb128" || String.eqb call "read_sleb128" || String.eqb call "read_uleb128_u32" then Some 1
  else if String.eqb call "read_address" then Some 8
  else if String.eqb call "read_offset" then Some 4
  else if String.eqb call "split" then Some 1
  else None.
Fixpoint layout_cost (calls : list string) : option N :=
  match calls with
  | [] => Some 0
  | c :: r => match read_cost c, layout_cost r with Some a, Some b => Some (a + b) | _, _ => None end
  end.

Definition opcode_agree (e : enc) (opc : N) : bool :=
  match parse_opcode false e (n2b opc) tail, lookup_op opc OpTable.op_table with
  | Ok (op, rest), Some (ctors, layout) =>
      smem (op_ctor op) ctors &&
      match layout with
      | Some calls => match layout_cost calls with
                      | Some c => N.of_nat (List.length tail - List.length rest) =? c
                      | None => false
                      end
      | None => true
      end
  | Err EInvalidExpression, None => true
  | _, _ => false
  end.

Lemma gen_op_table_sweep :
  forallb (opcode_agree enc4) (count_up 256) = true /\ forallb (opcode_agree enc2) (count_up 256) = true.
Proof. split; vm_compute; reflexivity. Qed.

(* all 256 opcode bytes: the model decodes the byte to a variant the arm of that opcode in Operation::parse builds,
   consuming exactly the operands the arm reads; opcodes without an arm are InvalidExpression in both *)
Lemma gen_op_table_agree : forall opc, opc < 256 ->
  opcode_agree enc4 opc = true /\ opcode_agree enc2 opc = true.
Proof.
  intros opc H. destruct gen_op_table_sweep as [S4 S2].
  split; [exact (sweep_lt _ _ S4 opc H)|exact (sweep_lt _ _ S2 opc H)].
Qed.

(* the DW_OP_WASM_location arm: the four sub-opcodes give the variants the arm names *)
Lemma gen_op_wasm :
  map (fun sub => match parse_opcode false enc4 xed (sub :: tail) with Ok (op, _) => op_ctor op | _ => "" end)
      [x00; x01; x02; x03] = ["WasmLocal"; "WasmGlobal"; "WasmStack"; "WasmGlobal"] /\
  option_map fst (lookup_op Constants.DW_OP_WASM_location OpTable.op_table) = Some ["WasmLocal"; "WasmGlobal"; "WasmStack"].
Proof. split; vm_compute; reflexivity. Qed.

(* every arm is keyed by a DW_OP_* constant of constants.rs, none twice *)
Fixpoint nnodup (l : list N) : bool :=
  match l with [] => true | a :: r => negb (existsb (N.eqb a) r) && nnodup r end.
Lemma gen_op_table_keys :
  forallb (fun k => existsb (N.eqb k) Constants.DwOp_values) (map fst OpTable.op_table) = true /\
  nnodup (map fst OpTable.op_table) = true.
Proof. split; vm_compute; reflexivity. Qed.

(* ---- for ALL inputs (any operand bytes, any encoding, both build modes) *)
Definition arm_allows (opc : byte) (op : operation) : bool :=
  match lookup_op (b2n opc) OpTable.op_table with
  | Some (ctors, _) => smem (op_ctor op) ctors
  | None => false
  end.

Ltac crack H :=
  repeat (cbn [bind] in H;
          match type of H with
          | bind ?x _ = Ok _ => destruct x eqn:?; cbn [bind] in H; try discriminate H
          | (match ?x with _ => _ end) = Ok _ => destruct x eqn:?; try discriminate H
          end).

(* whenever the model decodes an operation, its variant is one the arm of that opcode in Operation::parse builds *)
Lemma gen_op_table_all_inputs : forall dbg e opc r op r',
  parse_opcode dbg e opc r = Ok (op, r') -> arm_allows opc op = true.
Proof.
  intros dbg e opc r op r' H.
  destruct opc; cbn [parse_opcode] in H; try discriminate H;
    try unfold parse_wasm in H;
    crack H; injection H as <- <-; vm_compute; reflexivity.
Qed.

(* an opcode without an arm is InvalidExpression whatever follows *)
Lemma gen_op_table_no_arm : forall dbg e opc r,
  lookup_op (b2n opc) OpTable.op_table = None -> parse_opcode dbg e opc r = Err EInvalidExpression.
Proof.
  intros dbg e opc r H. destruct opc; vm_compute in H; try discriminate H; reflexivity.
Qed.
