(* Proofs/UnitWrProofs.v — lemmas for C11 (written units read back as the same forest). *)
From Coq Require Import List NArith ZArith Bool Lia ZifyBool ZifyN ZifyNat Permutation.
From Coq.Strings Require Import Byte.
Require Import GV.Base.Res GV.Base.Byt GV.Base.Ints GV.Spec.LebSpec GV.Model.Leb GV.Model.Prim.
Require Import GV.Spec.UnitWrSpec GV.Model.UnitWr GV.Proofs.LebProofs.
Import ListNotations.
Local Open Scope N_scope.
Local Arguments N.add : simpl never.
Local Arguments N.sub : simpl never.
Local Arguments N.mul : simpl never.
Local Arguments N.shiftl : simpl never.
Local Arguments N.shiftr : simpl never.
Local Arguments N.land : simpl never.
Local Arguments N.lor : simpl never.
Local Arguments N.pow : simpl never.
Local Arguments N.modulo : simpl never.
Local Arguments N.div : simpl never.
Local Arguments N.of_nat : simpl never.
Local Arguments N.to_nat : simpl never.

(* ------------------------------------------------------------------ small tools *)

Lemma bind_ok_inv {A B} (r : res A) (f : A -> res B) (b : B) :
  bind r f = Ok b -> exists a, r = Ok a /\ f a = Ok b.
Proof. exact (bind_ok r f b). Qed.

Ltac inv_ok H :=
  match type of H with
  | bind ?r ?f = Ok ?b =>
      let a := fresh "a" in let H1 := fresh H "a" in let H2 := fresh H "b" in
      destruct (bind_ok_inv r f b H) as [a [H1 H2]]; clear H
  | Ok ?a = Ok ?b => injection H as H
  end.

Lemma blen_app (a b : list byte) : UnitWr.blen (a ++ b) = UnitWr.blen a + UnitWr.blen b.
Proof. unfold UnitWr.blen. rewrite app_length. lia. Qed.

Lemma blen_nil : UnitWr.blen [] = 0.
Proof. reflexivity. Qed.

Lemma blen_cons b (l : list byte) : UnitWr.blen (b :: l) = 1 + UnitWr.blen l.
Proof. unfold UnitWr.blen. cbn [length]. lia. Qed.

Lemma blen_spec_eq (l : list byte) : UnitWrSpec.blen l = UnitWr.blen l.
Proof. reflexivity. Qed.

Lemma chk_add_ok bits dbg a b : a + b < 2 ^ bits -> chk_add bits dbg a b = Ok (a + b).
Proof. intros H. unfold chk_add. apply N.ltb_lt in H. now rewrite H. Qed.

Lemma chk_add_ok_inv bits a b c : chk_add bits true a b = Ok c -> c = a + b /\ a + b < 2 ^ bits.
Proof.
  unfold chk_add. destruct (a + b <? 2 ^ bits) eqn:E; intros H; [|discriminate].
  injection H as <-. split; [reflexivity|now apply N.ltb_lt].
Qed.

Lemma chk_sub_ok bits dbg a b : b <= a -> chk_sub bits dbg a b = Ok (a - b).
Proof. intros H. unfold chk_sub. apply N.leb_le in H. now rewrite H. Qed.

Lemma dassert_true dbg : dassert dbg true = Ok tt.
Proof. unfold dassert. now rewrite andb_false_r. Qed.

Lemma dassert_ok dbg c u : dassert dbg c = Ok u -> dbg = true -> c = true.
Proof. unfold dassert. intros H ->. destruct c; [reflexivity|discriminate]. Qed.

(* ------------------------------------------------------------------ LEB128 writers: length *)

Lemma write_uleb_fuel_len f : forall v bs,
  write_uleb_fuel f v = Ok bs -> UnitWr.blen bs = uleb_size_fuel f v.
Proof.
  induction f as [|f IH]; intros v bs H; cbn [write_uleb_fuel uleb_size_fuel] in *; [discriminate|].
  destruct (N.shiftr v 7 =? 0) eqn:E.
  - injection H as <-. reflexivity.
  - inv_ok H. injection Hb as <-. rewrite blen_cons. now rewrite (IH _ _ Ha).
Qed.

Lemma write_uleb128_len v bs : write_uleb128 v = Ok bs -> UnitWr.blen bs = uleb128_size v.
Proof. apply write_uleb_fuel_len. Qed.

Lemma write_sleb_fuel_len f : forall z bs,
  write_sleb_fuel f z = Ok bs -> UnitWr.blen bs = sleb_size_fuel f z.
Proof.
  induction f as [|f IH]; intros z bs H; cbn [write_sleb_fuel sleb_size_fuel] in *; [discriminate|].
  cbv zeta in *.
  destruct ((Z.shiftr z 6 =? 0)%Z || (Z.shiftr z 6 =? -1)%Z) eqn:E.
  - injection H as <-. reflexivity.
  - inv_ok H. injection Hb as <-. rewrite blen_cons. now rewrite (IH _ _ Ha).
Qed.

Lemma write_sleb128_len z bs : write_sleb128 z = Ok bs -> UnitWr.blen bs = sleb128_size z.
Proof. apply write_sleb_fuel_len. Qed.

(* the unsigned writer succeeds (10 bytes suffice) for every u64 *)
Lemma shiftr7_lt v k : v < 2 ^ (7 * (k + 1)) -> N.shiftr v 7 < 2 ^ (7 * k).
Proof.
  intros H. rewrite N.shiftr_div_pow2. apply N.div_lt_upper_bound; [discriminate|].
  replace (7 * (k + 1)) with (7 + 7 * k) in H by lia. now rewrite N.pow_add_r in H.
Qed.

Lemma write_uleb_fuel_total f : forall v, v < 2 ^ (7 * N.of_nat f) -> (0 < f)%nat ->
  exists bs, write_uleb_fuel f v = Ok bs.
Proof.
  induction f as [|f IH]; intros v Hv Hf; [lia|].
  cbn [write_uleb_fuel]. destruct (N.shiftr v 7 =? 0) eqn:E; [eauto|].
  destruct f as [|f'].
  - exfalso. apply N.eqb_neq in E. apply E.
    assert (H := shiftr7_lt v 0). replace (7 * (0 + 1)) with (7 * N.of_nat 1) in H by lia.
    specialize (H Hv). cbn in H. lia.
  - destruct (IH (N.shiftr v 7)) as [bs Hbs].
    + apply shiftr7_lt. replace (N.of_nat (S f') + 1) with (N.of_nat (S (S f'))) by lia. exact Hv.
    + lia.
    + rewrite Hbs. cbn. eauto.
Qed.

Lemma write_uleb128_total v : v < 2 ^ 64 -> exists bs, write_uleb128 v = Ok bs.
Proof.
  intros H. apply write_uleb_fuel_total; [|lia].
  eapply N.lt_le_trans; [exact H|]. apply N.pow_le_mono_r; [discriminate|]. cbn. lia.
Qed.

(* ------------------------------------------------------------------ LEB128 writers: decoding *)

Lemma sweep_lt (n : nat) (P : N -> bool) :
  forallb P (map N.of_nat (seq 0 n)) = true -> forall x, x < N.of_nat n -> P x = true.
Proof.
  intros H x Hx. rewrite forallb_forall in H. apply H.
  replace x with (N.of_nat (N.to_nat x)) by lia. apply in_map. apply in_seq. lia.
Qed.

Lemma byte_low_facts x : x < 128 ->
  cont_bit (n2b x) = false /\ N.land (b2n (n2b x)) 127 = x /\
  cont_bit (n2b (N.lor x 128)) = true /\ N.land (b2n (n2b (N.lor x 128))) 127 = x.
Proof.
  intros H.
  assert (S := sweep_lt 128 (fun x =>
    negb (cont_bit (n2b x)) && (N.land (b2n (n2b x)) 127 =? x) &&
    cont_bit (n2b (N.lor x 128)) && (N.land (b2n (n2b (N.lor x 128))) 127 =? x))).
  specialize (S ltac:(vm_compute; reflexivity) x H). cbv beta in S.
  repeat rewrite andb_true_iff in S. destruct S as [[[A B] C] D].
  apply negb_true_iff in A. apply N.eqb_eq in B. apply N.eqb_eq in D. auto.
Qed.

Lemma low7_land255 v : low7 (N.land v 255) = v mod 128.
Proof.
  unfold low7. rewrite <- N.land_assoc. change (N.land 255 127) with (N.ones 7).
  now rewrite N.land_ones.
Qed.

Lemma shiftr7_div v : N.shiftr v 7 = v / 128.
Proof. now rewrite N.shiftr_div_pow2. Qed.

Lemma write_uleb_fuel_dec f : forall v bs rest,
  write_uleb_fuel f v = Ok bs -> split_leb (bs ++ rest) = Some (bs, rest) /\ uval bs = v.
Proof.
  induction f as [|f IH]; intros v bs rest H; cbn [write_uleb_fuel] in H; [discriminate|].
  rewrite low7_land255 in H. rewrite shiftr7_div in H. unfold CONT in H.
  assert (Hx : v mod 128 < 128) by (apply N.mod_lt; discriminate).
  destruct (byte_low_facts _ Hx) as [A [B [C D]]].
  assert (Hv := N.div_mod v 128 ltac:(discriminate)).
  destruct (v / 128 =? 0) eqn:E.
  - injection H as <-. apply N.eqb_eq in E. cbn [app split_leb uval]. rewrite A, B. split; [reflexivity|lia].
  - inv_ok H. injection Hb as <-. destruct (IH _ _ rest Ha) as [S U].
    cbn [app split_leb uval]. rewrite C, S, D, U. split; [reflexivity|lia].
Qed.

Lemma write_uleb128_dec v bs rest :
  write_uleb128 v = Ok bs -> dec_uleb (bs ++ rest) = Some (v, rest).
Proof.
  intros H. destruct (write_uleb_fuel_dec _ _ _ rest H) as [S U].
  unfold dec_uleb. now rewrite S, U.
Qed.

(* ------------------------------------------------------------------ fixed-width writers *)

Lemma le_bytes_len n : forall v, length (le_bytes n v) = n.
Proof. induction n as [|n IH]; intros v; cbn [le_bytes length]; [reflexivity|now rewrite IH]. Qed.

Lemma enc_un_len n be v : length (enc_un n be v) = n.
Proof. unfold enc_un, be_bytes. destruct be; [rewrite rev_length|]; apply le_bytes_len. Qed.

Lemma enc_un_blen n be v : UnitWr.blen (enc_un n be v) = N.of_nat n.
Proof. unfold UnitWr.blen. now rewrite enc_un_len. Qed.

Lemma write_udata_len be v size bs : write_udata be v size = Ok bs -> UnitWr.blen bs = size.
Proof.
  unfold write_udata. intros H.
  destruct (size =? 1) eqn:E1; [apply N.eqb_eq in E1; destruct (v <? 256); [|discriminate]; injection H as <-; now rewrite enc_un_blen|].
  destruct (size =? 2) eqn:E2; [apply N.eqb_eq in E2; destruct (v <? two16); [|discriminate]; injection H as <-; now rewrite enc_un_blen|].
  destruct (size =? 4) eqn:E4; [apply N.eqb_eq in E4; destruct (v <? two32); [|discriminate]; injection H as <-; now rewrite enc_un_blen|].
  destruct (size =? 8) eqn:E8; [apply N.eqb_eq in E8; injection H as <-; now rewrite enc_un_blen|].
  discriminate.
Qed.

Lemma write_udata_valid be v size bs : write_udata be v size = Ok bs -> valid_size size = true.
Proof.
  unfold write_udata, valid_size. intros H.
  destruct (size =? 1); [reflexivity|]. destruct (size =? 2); [reflexivity|].
  destruct (size =? 4); [reflexivity|]. destruct (size =? 8); [reflexivity|]. discriminate.
Qed.

Lemma zeros_blen n : UnitWr.blen (zeros n) = n.
Proof. unfold UnitWr.blen, zeros. rewrite repeat_length. lia. Qed.

(* ------------------------------------------------------------------ op lists *)

Lemma ops_len_nil : ops_len [] = 0.
Proof. reflexivity. Qed.

Lemma ops_len_cons o r : ops_len (o :: r) = UnitWr.blen (op_bytes o) + ops_len r.
Proof. unfold ops_len, ops_bytes. cbn [flat_map]. now rewrite blen_app. Qed.

Lemma ops_bytes_app a b : ops_bytes (a ++ b) = ops_bytes a ++ ops_bytes b.
Proof. unfold ops_bytes. now rewrite flat_map_app. Qed.

Lemma ops_len_app a b : ops_len (a ++ b) = ops_len a + ops_len b.
Proof. unfold ops_len. now rewrite ops_bytes_app, blen_app. Qed.

Lemma ops_len_wb bs : ops_len [WB bs] = UnitWr.blen bs.
Proof. rewrite ops_len_cons, ops_len_nil. cbn [op_bytes]. lia. Qed.

(* ------------------------------------------------------------------ form / size / write agree *)

(* what C15 proves about an expression: the predicted size is the number of bytes written *)
Definition expr_ok (v : aval) : Prop :=
  match v with
  | AvExprloc x => forall bs, x_out x = Ok bs -> x_size x = Ok (UnitWr.blen bs)
  | _ => True
  end.

Ltac unfold_asserts :=
  unfold sec_offset_assert; unfold assert_form; unfold word_form, wsz;
  cbn [av_form fst e_ver e_fmt64 e_asz].
Ltac asserts :=
  repeat rewrite N.eqb_refl; repeat rewrite dassert_true; cbn [bind].

Ltac case_ver ver :=
  repeat match goal with
  | |- context [4 <=? ver] => destruct (4 <=? ver) eqn:?
  | |- context [5 <=? ver] => destruct (5 <=? ver) eqn:?
  | |- context [(ver =? 2) || (ver =? 3)] => destruct ((ver =? 2) || (ver =? 3)) eqn:?
  end.

Ltac binds :=
  repeat match goal with
  | H : bind _ _ = Ok _ |- _ =>
      let a := fresh "a" in let E := fresh "E" in
      apply bind_ok_inv in H; destruct H as [a [E H]]
  end.

Ltac lens :=
  repeat match goal with
  | H : write_uleb128 _ = Ok ?b |- _ => rewrite (write_uleb128_len _ _ H) in *
  | H : write_sleb128 _ = Ok ?b |- _ => rewrite (write_sleb128_len _ _ H) in *
  | H : write_udata _ _ _ = Ok ?b |- _ => rewrite (write_udata_len _ _ _ _ H) in *
  end.

Lemma av_write_size dbg cx v ops :
  av_write dbg cx v = Ok ops -> expr_ok v -> ops_len ops < 2 ^ 64 ->
  av_size dbg (wc_enc cx) v = Ok (ops_len ops).
Proof.
  destruct cx as [e be u uoff ents codes line lstr str rng loc]. cbn [wc_enc].
  destruct e as [ver fmt asz].
  intros H X B.
  destruct v; unfold av_write in H; unfold av_size; cbn [wc_enc wc_be wc_line wc_loc wc_rng wc_str wc_lstr] in H;
    revert H; unfold_asserts; case_ver ver; destruct fmt; asserts; intros H.
  all: try (exfalso; lia).
  all: try (injection H as <-; rewrite ?ops_len_wb, ?ops_len_nil, ?enc_un_blen; reflexivity).
  all: try (inv_ok H; injection Hb as <-; rewrite ops_len_wb;
            first [ erewrite write_uleb128_len by eassumption; reflexivity
                  | erewrite write_sleb128_len by eassumption; reflexivity
                  | erewrite write_udata_len by eassumption; reflexivity ]).
  all: try match goal with H : match ?a with AConst _ => _ | ASym _ _ => _ end = _ |- _ => destruct a; [|discriminate] end.
  all: try match goal with H : match ?l with Some _ => _ | None => _ end = Ok _ |- _ => destruct l; [|discriminate] end.
  all: try match goal with H : match ?r with DSym _ => _ | DEntry _ _ => _ end = _ |- _ => destruct r; [discriminate|] end.
  all: try match goal with H : (if valid_size ?s then _ else _) = _ |- _ => destruct (valid_size s) eqn:?; [|discriminate] end.
  all: binds.
  all: try match goal with H : Ok _ = Ok _ |- _ => injection H as <- end.
  all: repeat rewrite ops_len_cons in *; rewrite ?ops_len_nil in *; cbn [op_bytes] in *.
  all: lens; rewrite ?zeros_blen, ?N.add_0_r in *.
  all: try reflexivity.
  all: try (now apply chk_add_ok).
  all: try (change (UnitWr.blen [x00]) with 1 in *; now apply chk_add_ok).
  all: try match goal with E : file_raw _ _ _ = Ok _ |- _ => rewrite E; reflexivity end.
  all: match goal with E : x_out ?x = Ok ?b, E2 : x_size ?x = Ok _ |- _ =>
         cbn [expr_ok] in X; rewrite (X _ E) in E2; injection E2 as <-; rewrite (X _ E); cbn [bind];
         now apply chk_add_ok end.
Qed.
