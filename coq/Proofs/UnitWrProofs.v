(* Proofs/UnitWrProofs.v — lemmas for C11 (written units read back as the same forest). *)
From Coq Require Import List NArith ZArith Bool Lia ZifyBool ZifyN ZifyNat Permutation.
From Coq.Strings Require Import Byte.
Require Import GV.Base.Res GV.Base.Byt GV.Base.Ints GV.Spec.LebSpec GV.Model.Leb GV.Model.Prim.
Require Import GV.Spec.UnitWrSpec GV.Model.UnitWr GV.Proofs.LebProofs.
Import ListNotations.
Local Open Scope N_scope.
Local Arguments N.add : simpl never.
Local Arguments N.sub : simpl never.
Local Arguments N.mul : simpl never.
Local Arguments N.shiftl : simpl never.
Local Arguments N.shiftr : simpl never.
Local Arguments N.land : simpl never.
Local Arguments N.lor : simpl never.
Local Arguments N.pow : simpl never.
Local Arguments N.modulo : simpl never.
Local Arguments N.div : simpl never.
Local Arguments N.of_nat : simpl never.
Local Arguments N.to_nat : simpl never.

(* ------------------------------------------------------------------ small tools *)

Lemma bind_ok_inv {A B} (r : res A) (f : A -> res B) (b : B) :
  bind r f = Ok b -> exists a, r = Ok a /\ f a = Ok b.
Proof. exact (bind_ok r f b). Qed.

Ltac inv_ok H :=
  match type of H with
  | bind ?r ?f = Ok ?b =>
      let a := fresh "a" in let H1 := fresh H "a" in let H2 := fresh H "b" in
      destruct (bind_ok_inv r f b H) as [a [H1 H2]]; clear H
  | Ok ?a = Ok ?b => injection H as H
  end.

Lemma blen_app (a b : list byte) : UnitWr.blen (a ++ b) = UnitWr.blen a + UnitWr.blen b.
Proof. unfold UnitWr.blen. rewrite app_length. lia. Qed.

Lemma blen_nil : UnitWr.blen [] = 0.
Proof. reflexivity. Qed.

Lemma blen_cons b (l : list byte) : UnitWr.blen (b :: l) = 1 + UnitWr.blen l.
Proof. unfold UnitWr.blen. cbn [length]. lia. Qed.

Lemma blen_spec_eq (l : list byte) : UnitWrSpec.blen l = UnitWr.blen l.
Proof. reflexivity. Qed.

Lemma chk_add_ok bits dbg a b : a + b < 2 ^ bits -> chk_add bits dbg a b = Ok (a + b).
Proof. intros H. unfold chk_add. apply N.ltb_lt in H. now rewrite H. Qed.

Lemma chk_add_ok_inv bits a b c : chk_add bits true a b = Ok c -> c = a + b /\ a + b < 2 ^ bits.
Proof.
  unfold chk_add. destruct (a + b <? 2 ^ bits) eqn:E; intros H; [|discriminate].
  injection H as <-. split; [reflexivity|now apply N.ltb_lt].
Qed.

Lemma chk_sub_ok bits dbg a b : b <= a -> chk_sub bits dbg a b = Ok (a - b).
Proof. intros H. unfold chk_sub. apply N.leb_le in H. now rewrite H. Qed.

Lemma dassert_true dbg : dassert dbg true = Ok tt.
Proof. unfold dassert. now rewrite andb_false_r. Qed.

Lemma dassert_ok dbg c u : dassert dbg c = Ok u -> dbg = true -> c = true.
Proof. unfold dassert. intros H ->. destruct c; [reflexivity|discriminate]. Qed.

(* ------------------------------------------------------------------ LEB128 writers: length *)

Lemma write_uleb_fuel_len f : forall v bs,
  write_uleb_fuel f v = Ok bs -> UnitWr.blen bs = uleb_size_fuel f v.
Proof.
  induction f as [|f IH]; intros v bs H; cbn [write_uleb_fuel uleb_size_fuel] in *; [discriminate|].
  destruct (N.shiftr v 7 =? 0) eqn:E.
  - injection H as <-. reflexivity.
  - inv_ok H. injection Hb as <-. rewrite blen_cons. now rewrite (IH _ _ Ha).
Qed.

Lemma write_uleb128_len v bs : write_uleb128 v = Ok bs -> UnitWr.blen bs = uleb128_size v.
Proof. apply write_uleb_fuel_len. Qed.

Lemma write_sleb_fuel_len f : forall z bs,
  write_sleb_fuel f z = Ok bs -> UnitWr.blen bs = sleb_size_fuel f z.
Proof.
  induction f as [|f IH]; intros z bs H; cbn [write_sleb_fuel sleb_size_fuel] in *; [discriminate|].
  cbv zeta in *.
  destruct ((Z.shiftr z 6 =? 0)%Z || (Z.shiftr z 6 =? -1)%Z) eqn:E.
  - injection H as <-. reflexivity.
  - inv_ok H. injection Hb as <-. rewrite blen_cons. now rewrite (IH _ _ Ha).
Qed.

Lemma write_sleb128_len z bs : write_sleb128 z = Ok bs -> UnitWr.blen bs = sleb128_size z.
Proof. apply write_sleb_fuel_len. Qed.

(* the unsigned writer succeeds (10 bytes suffice) for every u64 *)
Lemma shiftr7_lt v k : v < 2 ^ (7 * (k + 1)) -> N.shiftr v 7 < 2 ^ (7 * k).
Proof.
  intros H. rewrite N.shiftr_div_pow2. apply N.div_lt_upper_bound; [discriminate|].
  replace (7 * (k + 1)) with (7 + 7 * k) in H by lia. now rewrite N.pow_add_r in H.
Qed.

Lemma write_uleb_fuel_total f : forall v, v < 2 ^ (7 * N.of_nat f) -> (0 < f)%nat ->
  exists bs, write_uleb_fuel f v = Ok bs.
Proof.
  induction f as [|f IH]; intros v Hv Hf; [lia|].
  cbn [write_uleb_fuel]. destruct (N.shiftr v 7 =? 0) eqn:E; [eauto|].
  destruct f as [|f'].
  - exfalso. apply N.eqb_neq in E. apply E.
    assert (H := shiftr7_lt v 0). replace (7 * (0 + 1)) with (7 * N.of_nat 1) in H by lia.
    specialize (H Hv). cbn in H. lia.
  - destruct (IH (N.shiftr v 7)) as [bs Hbs].
    + apply shiftr7_lt. replace (N.of_nat (S f') + 1) with (N.of_nat (S (S f'))) by lia. exact Hv.
    + lia.
    + rewrite Hbs. cbn. eauto.
Qed.

Lemma write_uleb128_total v : v < 2 ^ 64 -> exists bs, write_uleb128 v = Ok bs.
Proof.
  intros H. apply write_uleb_fuel_total; [|lia].
  eapply N.lt_le_trans; [exact H|]. apply N.pow_le_mono_r; [discriminate|]. cbn. lia.
Qed.

(* ------------------------------------------------------------------ LEB128 writers: decoding *)

Lemma sweep_lt (n : nat) (P : N -> bool) :
  forallb P (map N.of_nat (seq 0 n)) = true -> forall x, x < N.of_nat n -> P x = true.
Proof.
  intros H x Hx. rewrite forallb_forall in H. apply H.
  replace x with (N.of_nat (N.to_nat x)) by lia. apply in_map. apply in_seq. lia.
Qed.

Lemma byte_low_facts x : x < 128 ->
  cont_bit (n2b x) = false /\ N.land (b2n (n2b x)) 127 = x /\
  cont_bit (n2b (N.lor x 128)) = true /\ N.land (b2n (n2b (N.lor x 128))) 127 = x.
Proof.
  intros H.
  assert (S := sweep_lt 128 (fun x =>
    negb (cont_bit (n2b x)) && (N.land (b2n (n2b x)) 127 =? x) &&
    cont_bit (n2b (N.lor x 128)) && (N.land (b2n (n2b (N.lor x 128))) 127 =? x))).
  specialize (S ltac:(vm_compute; reflexivity) x H). cbv beta in S.
  repeat rewrite andb_true_iff in S. destruct S as [[[A B] C] D].
  apply negb_true_iff in A. apply N.eqb_eq in B. apply N.eqb_eq in D. auto.
Qed.

Lemma low7_land255 v : low7 (N.land v 255) = v mod 128.
Proof.
  unfold low7. rewrite <- N.land_assoc. change (N.land 255 127) with (N.ones 7).
  now rewrite N.land_ones.
Qed.

Lemma shiftr7_div v : N.shiftr v 7 = v / 128.
Proof. now rewrite N.shiftr_div_pow2. Qed.

Lemma write_uleb_fuel_dec f : forall v bs rest,
  write_uleb_fuel f v = Ok bs -> split_leb (bs ++ rest) = Some (bs, rest) /\ uval bs = v.
Proof.
  induction f as [|f IH]; intros v bs rest H; cbn [write_uleb_fuel] in H; [discriminate|].
  rewrite low7_land255 in H. rewrite shiftr7_div in H. unfold CONT in H.
  assert (Hx : v mod 128 < 128) by (apply N.mod_lt; discriminate).
  destruct (byte_low_facts _ Hx) as [A [B [C D]]].
  assert (Hv := N.div_mod v 128 ltac:(discriminate)).
  destruct (v / 128 =? 0) eqn:E.
  - injection H as <-. apply N.eqb_eq in E. cbn [app split_leb uval]. rewrite A, B. split; [reflexivity|lia].
  - inv_ok H. injection Hb as <-. destruct (IH _ _ rest Ha) as [S U].
    cbn [app split_leb uval]. rewrite C, S, D, U. split; [reflexivity|lia].
Qed.

Lemma write_uleb128_dec v bs rest :
  write_uleb128 v = Ok bs -> dec_uleb (bs ++ rest) = Some (v, rest).
Proof.
  intros H. destruct (write_uleb_fuel_dec _ _ _ rest H) as [S U].
  unfold dec_uleb. now rewrite S, U.
Qed.

(* ------------------------------------------------------------------ fixed-width writers *)

Lemma le_bytes_len n : forall v, length (le_bytes n v) = n.
Proof. induction n as [|n IH]; intros v; cbn [le_bytes length]; [reflexivity|now rewrite IH]. Qed.

Lemma enc_un_len n be v : length (enc_un n be v) = n.
Proof. unfold enc_un, be_bytes. destruct be; [rewrite rev_length|]; apply le_bytes_len. Qed.

Lemma enc_un_blen n be v : UnitWr.blen (enc_un n be v) = N.of_nat n.
Proof. unfold UnitWr.blen. now rewrite enc_un_len. Qed.

Lemma write_udata_len be v size bs : write_udata be v size = Ok bs -> UnitWr.blen bs = size.
Proof.
  unfold write_udata. intros H.
  destruct (size =? 1) eqn:E1; [apply N.eqb_eq in E1; destruct (v <? 256); [|discriminate]; injection H as <-; now rewrite enc_un_blen|].
  destruct (size =? 2) eqn:E2; [apply N.eqb_eq in E2; destruct (v <? two16); [|discriminate]; injection H as <-; now rewrite enc_un_blen|].
  destruct (size =? 4) eqn:E4; [apply N.eqb_eq in E4; destruct (v <? two32); [|discriminate]; injection H as <-; now rewrite enc_un_blen|].
  destruct (size =? 8) eqn:E8; [apply N.eqb_eq in E8; injection H as <-; now rewrite enc_un_blen|].
  discriminate.
Qed.

Lemma write_udata_valid be v size bs : write_udata be v size = Ok bs -> valid_size size = true.
Proof.
  unfold write_udata, valid_size. intros H.
  destruct (size =? 1); [reflexivity|]. destruct (size =? 2); [reflexivity|].
  destruct (size =? 4); [reflexivity|]. destruct (size =? 8); [reflexivity|]. discriminate.
Qed.

Lemma zeros_blen n : UnitWr.blen (zeros n) = n.
Proof. unfold UnitWr.blen, zeros. rewrite repeat_length. lia. Qed.

(* ------------------------------------------------------------------ op lists *)

Lemma ops_len_nil : ops_len [] = 0.
Proof. reflexivity. Qed.

Lemma ops_len_cons o r : ops_len (o :: r) = UnitWr.blen (op_bytes o) + ops_len r.
Proof. unfold ops_len, ops_bytes. cbn [flat_map]. now rewrite blen_app. Qed.

Lemma ops_bytes_app a b : ops_bytes (a ++ b) = ops_bytes a ++ ops_bytes b.
Proof. unfold ops_bytes. now rewrite flat_map_app. Qed.

Lemma ops_len_app a b : ops_len (a ++ b) = ops_len a + ops_len b.
Proof. unfold ops_len. now rewrite ops_bytes_app, blen_app. Qed.

Lemma ops_len_wb bs : ops_len [WB bs] = UnitWr.blen bs.
Proof. rewrite ops_len_cons, ops_len_nil. cbn [op_bytes]. lia. Qed.

(* ------------------------------------------------------------------ form / size / write agree *)

(* what C15 proves about an expression: the predicted size is the number of bytes written *)
Definition expr_ok (v : aval) : Prop :=
  match v with
  | AvExprloc x => forall bs, x_out x = Ok bs -> x_size x = Ok (UnitWr.blen bs)
  | _ => True
  end.

Ltac unfold_asserts :=
  unfold sec_offset_assert; unfold assert_form; unfold word_form, wsz;
  cbn [av_form fst e_ver e_fmt64 e_asz].
Ltac asserts :=
  repeat rewrite N.eqb_refl; repeat rewrite dassert_true; cbn [bind].

Ltac case_ver ver :=
  repeat match goal with
  | |- context [4 <=? ver] => destruct (4 <=? ver) eqn:?
  | |- context [5 <=? ver] => destruct (5 <=? ver) eqn:?
  | |- context [(ver =? 2) || (ver =? 3)] => destruct ((ver =? 2) || (ver =? 3)) eqn:?
  end.

Ltac binds :=
  repeat match goal with
  | H : bind _ _ = Ok _ |- _ =>
      let a := fresh "a" in let E := fresh "E" in
      apply bind_ok_inv in H; destruct H as [a [E H]]
  end.

Ltac lens :=
  repeat match goal with
  | H : write_uleb128 _ = Ok ?b |- _ => rewrite (write_uleb128_len _ _ H) in *
  | H : write_sleb128 _ = Ok ?b |- _ => rewrite (write_sleb128_len _ _ H) in *
  | H : write_udata _ _ _ = Ok ?b |- _ => rewrite (write_udata_len _ _ _ _ H) in *
  end.

Lemma av_write_size dbg cx v ops :
  av_write dbg cx v = Ok ops -> expr_ok v -> ops_len ops < 2 ^ 64 ->
  av_size dbg (wc_enc cx) (wc_lpv cx) v = Ok (ops_len ops).
Proof.
  destruct cx as [e be u uoff ents codes line lstr str rng loc lpv]. cbn [wc_enc wc_lpv].
  destruct e as [ver fmt asz].
  intros H X B.
  destruct v; unfold av_write in H; unfold av_size; cbn [wc_enc wc_be wc_line wc_loc wc_rng wc_str wc_lstr wc_lpv] in H;
    revert H; unfold_asserts; case_ver ver; destruct fmt; asserts; intros H.
  all: try (exfalso; lia).
  all: try (injection H as <-; rewrite ?ops_len_wb, ?ops_len_nil, ?enc_un_blen; reflexivity).
  all: try (inv_ok H; injection Hb as <-; rewrite ops_len_wb;
            first [ erewrite write_uleb128_len by eassumption; reflexivity
                  | erewrite write_sleb128_len by eassumption; reflexivity
                  | erewrite write_udata_len by eassumption; reflexivity ]).
  all: try match goal with H : match ?a with AConst _ => _ | ASym _ _ => _ end = _ |- _ => destruct a; [|discriminate] end.
  all: try match goal with H : match ?l with Some _ => _ | None => _ end = Ok _ |- _ => destruct l; [|discriminate] end.
  all: try match goal with H : match ?r with DSym _ => _ | DEntry _ _ => _ end = _ |- _ => destruct r; [discriminate|] end.
  all: try match goal with H : (if valid_size ?s then _ else _) = _ |- _ => destruct (valid_size s) eqn:?; [|discriminate] end.
  all: binds.
  all: try match goal with H : Ok _ = Ok _ |- _ => injection H as <- end.
  all: repeat rewrite ops_len_cons in *; rewrite ?ops_len_nil in *; cbn [op_bytes] in *.
  all: lens; rewrite ?zeros_blen, ?N.add_0_r in *.
  all: try reflexivity.
  all: try (now apply chk_add_ok).
  all: try (change (UnitWr.blen [x00]) with 1 in *; now apply chk_add_ok).
  all: try match goal with E : file_raw _ _ _ = Ok _ |- _ => rewrite E; reflexivity end.
  all: match goal with E : x_out ?x = Ok ?b, E2 : x_size ?x = Ok _ |- _ =>
         cbn [expr_ok] in X; rewrite (X _ E) in E2; injection E2 as <-; rewrite (X _ E); cbn [bind];
         now apply chk_add_ok end.
Qed.

(* ------------------------------------------------------------------ lists with index update *)

Lemma set_nth_spec {A} i (x : A) : forall l l',
  set_nth i x l = Ok l' ->
  nth_error l' i = Some x /\ (forall j, j <> i -> nth_error l' j = nth_error l j) /\ length l' = length l.
Proof.
  induction i as [|i IH]; intros l l' H; destruct l as [|y r]; cbn [set_nth] in H; try discriminate.
  - injection H as <-. split; [reflexivity|]. split; [|reflexivity].
    intros [|j] Hj; [congruence|reflexivity].
  - inv_ok H. injection Hb as <-. destruct (IH _ _ Ha) as [A1 [A2 A3]].
    split; [exact A1|]. split.
    + intros [|j] Hj; [reflexivity|]. cbn [nth_error]. apply A2. congruence.
    + cbn [length]. now rewrite A3.
Qed.

Lemma set_nth_total {A} i (x : A) : forall l, (i < length l)%nat -> exists l', set_nth i x l = Ok l'.
Proof.
  induction i as [|i IH]; intros [|y r] H; cbn [length] in H; try lia; cbn [set_nth]; [eauto|].
  destruct (IH r) as [l' E]; [lia|]. rewrite E. cbn. eauto.
Qed.

(* ------------------------------------------------------------------ the DIE tree *)

Section die_induction.
  Variable P : die -> Prop.
  Hypothesis step : forall id tag sib attrs ch, Forall P ch -> P (Die id tag sib attrs ch).
  Fixpoint die_ind2 (d : die) : P d :=
    match d with
    | Die id tag sib attrs ch =>
        step id tag sib attrs ch
          ((fix go (l : list die) : Forall P l :=
              match l with
              | [] => Forall_nil P
              | c :: r => Forall_cons c (die_ind2 c) (go r)
              end) ch)
    end.
End die_induction.

(* ids in the order the two passes visit them *)
Fixpoint die_ids (d : die) : list nat :=
  match d with
  | Die id _ _ _ ch => id :: flat_map die_ids ch
  end.
Definition dies_ids (l : list die) : list nat := flat_map die_ids l.

Fixpoint die_expr_ok (d : die) : Prop :=
  match d with
  | Die _ _ _ attrs ch =>
      Forall (fun p => expr_ok (snd p)) attrs /\
      (fix go (l : list die) : Prop := match l with [] => True | c :: r => die_expr_ok c /\ go r end) ch
  end.
Fixpoint dies_expr_ok (l : list die) : Prop :=
  match l with [] => True | c :: r => die_expr_ok c /\ dies_expr_ok r end.

Lemma die_expr_ok_unfold id tag sib attrs ch :
  die_expr_ok (Die id tag sib attrs ch) = (Forall (fun p => expr_ok (snd p)) attrs /\ dies_expr_ok ch).
Proof. reflexivity. Qed.

Section lists_of_dies.
  Variables (dbg : bool) (e : encoding) (lpv : N) (cx : wcx).
  Fixpoint calc_list (l : list die) (s : cst) : res cst :=
    match l with
    | [] => Ok s
    | c :: r => let* s' := calc dbg e lpv c s in calc_list r s'
    end.
  Fixpoint write_list (l : list die) (p : N) : res (list wop) :=
    match l with
    | [] => Ok []
    | c :: r =>
        let* o := write_die dbg cx c p in
        let* rest := write_list r (p + ops_len o) in
        Ok (o ++ rest)
    end.
End lists_of_dies.

Lemma calc_unfold dbg e lpv id tag sib attrs ch st :
  calc dbg e lpv (Die id tag sib attrs ch) st =
  (let* ents := set_nth id (cs_off st) (cs_entries st) in
   let* ab := die_abbrev dbg e (Die id tag sib attrs ch) in
   let (code, tab) := abbrev_add (cs_abbrevs st) ab in
   let* codes := set_nth id code (cs_codes st) in
   let* sz := die_size dbg e lpv (Die id tag sib attrs ch) code in
   let* off := chk_add 64 dbg (cs_off st) sz in
   let st1 := mkCst off ents tab codes in
   match ch with
   | [] => Ok st1
   | _ =>
       let* st2 := calc_list dbg e lpv ch st1 in
       let* off2 := chk_add 64 dbg (cs_off st2) 1 in
       Ok (mkCst off2 (cs_entries st2) (cs_abbrevs st2) (cs_codes st2))
   end).
Proof. reflexivity. Qed.

Lemma write_die_unfold dbg cx id tag sib attrs ch pos :
  write_die dbg cx (Die id tag sib attrs ch) pos =
  (let* _ := (if dbg
              then let* here := debug_info_offset dbg (wc_unit cx) (wc_entries cx) (mkEid (wc_unit cx) id) in
                   dassert dbg (match here with Some o => o =? pos | None => false end)
              else Ok tt) in
   let* code := idx_get (wc_codes cx) id in
   let* cb := write_uleb128 code in
   let w := wsz (wc_enc cx) in
   let has_sib := sib && has_kids ch in
   let head := UnitWr.blen cb + (if has_sib then w else 0) in
   let* aops := attrs_write dbg cx attrs in
   match ch with
   | [] => Ok (WMark id :: WB cb :: aops)
   | _ =>
       let* cops := write_list dbg cx ch (pos + head + ops_len aops) in
       let after := pos + head + ops_len aops + ops_len cops + 1 in
       let* sibb := (if has_sib
                     then let* next := chk_sub 64 dbg after (wc_unit_off cx) in
                          let* b := write_udata (wc_be cx) next w in Ok [WB b]
                     else Ok []) in
       Ok (WMark id :: WB cb :: sibb ++ aops ++ cops ++ [WB [x00]])
   end).
Proof. reflexivity. Qed.

(* ------------------------------------------------------------------ attributes of one DIE *)

Lemma attrs_write_size dbg cx : forall attrs acc aops,
  attrs_write dbg cx attrs = Ok aops -> Forall (fun p => expr_ok (snd p)) attrs ->
  acc + ops_len aops < 2 ^ 64 ->
  attrs_size dbg (wc_enc cx) (wc_lpv cx) acc attrs = Ok (acc + ops_len aops).
Proof.
  induction attrs as [|[n v] r IH]; intros acc aops H X B; cbn [attrs_write attrs_size] in *.
  - injection H as <-. rewrite ops_len_nil. f_equal. lia.
  - binds. injection H as <-. rewrite ops_len_app in *.
    inversion X as [|? ? X1 X2]; subst. cbn [snd] in X1.
    rewrite (av_write_size _ _ _ _ E X1) by lia. cbn [bind].
    rewrite chk_add_ok by lia. cbn [bind].
    rewrite (IH _ _ E0 X2) by lia. f_equal. lia.
Qed.

Lemma die_size_eq dbg cx id tag sib attrs ch code cb aops :
  write_uleb128 code = Ok cb -> attrs_write dbg cx attrs = Ok aops ->
  Forall (fun p => expr_ok (snd p)) attrs ->
  UnitWr.blen cb + (if sib && has_kids ch then wsz (wc_enc cx) else 0) + ops_len aops < 2 ^ 64 ->
  die_size dbg (wc_enc cx) (wc_lpv cx) (Die id tag sib attrs ch) code =
  Ok (UnitWr.blen cb + (if sib && has_kids ch then wsz (wc_enc cx) else 0) + ops_len aops).
Proof.
  intros C A X B. unfold die_size. rewrite <- (write_uleb128_len _ _ C).
  destruct (sib && has_kids ch).
  - rewrite chk_add_ok by lia. cbn [bind]. now apply attrs_write_size.
  - cbn [bind]. rewrite (attrs_write_size _ _ _ _ _ A X) by lia. f_equal. lia.
Qed.

(* ops produced for attribute values carry no entry marks *)
Definition plain (o : wop) : bool := match o with WMark _ => false | _ => true end.

Lemma av_write_plain dbg cx v ops : av_write dbg cx v = Ok ops -> forallb plain ops = true.
Proof.
  destruct cx as [e be u uoff ents codes line lstr str rng loc lpv].
  destruct e as [ver fmt asz].
  intros H.
  destruct v; unfold av_write in H; cbn [wc_enc wc_be wc_line wc_loc wc_rng wc_str wc_lstr wc_lpv] in H;
    revert H; unfold_asserts; case_ver ver; destruct fmt; intros H.
  all: binds; try discriminate.
  all: try match goal with H : match ?a with AConst _ => _ | ASym _ _ => _ end = _ |- _ => destruct a end.
  all: try match goal with H : match ?l with Some _ => _ | None => _ end = Ok _ |- _ => destruct l end.
  all: try match goal with H : match ?r with DSym _ => _ | DEntry _ _ => _ end = _ |- _ => destruct r end.
  all: try match goal with H : (if valid_size ?s then _ else _) = _ |- _ => destruct (valid_size s) eqn:? end.
  all: binds; try discriminate.
  all: try match goal with H : Ok _ = Ok _ |- _ => injection H as <- end.
  all: reflexivity.
Qed.

Lemma ops_marks_app : forall a b p, ops_marks p (a ++ b) = ops_marks p a ++ ops_marks (p + ops_len a) b.
Proof.
  induction a as [|o r IH]; intros b p; cbn [app ops_marks].
  - rewrite ops_len_nil. f_equal. lia.
  - rewrite IH, ops_len_cons. replace (p + UnitWr.blen (op_bytes o) + ops_len r) with (p + (UnitWr.blen (op_bytes o) + ops_len r)) by lia.
    destruct o; reflexivity.
Qed.

Lemma ops_marks_plain : forall ops p, forallb plain ops = true -> ops_marks p ops = [].
Proof.
  induction ops as [|o r IH]; intros p H; cbn [ops_marks forallb] in *; [reflexivity|].
  apply andb_true_iff in H. destruct H as [H1 H2]. rewrite (IH _ H2). destruct o; [discriminate|reflexivity..].
Qed.

Lemma attrs_write_plain dbg cx : forall attrs aops, attrs_write dbg cx attrs = Ok aops -> forallb plain aops = true.
Proof.
  induction attrs as [|[n v] r IH]; intros aops H; cbn [attrs_write] in H.
  - now injection H as <-.
  - binds. injection H as <-. rewrite forallb_app. rewrite (av_write_plain _ _ _ _ E), (IH _ E0). reflexivity.
Qed.

(* ------------------------------------------------------------------ calculate_offsets: frame *)

Definition calc_frame_stmt (dbg : bool) (e : encoding) (ids : list nat) (st st' : cst) : Prop :=
  length (cs_entries st') = length (cs_entries st) /\ length (cs_codes st') = length (cs_codes st) /\
  (forall i, ~ In i ids -> nth_error (cs_entries st') i = nth_error (cs_entries st) i /\
                           nth_error (cs_codes st') i = nth_error (cs_codes st) i).

Lemma calc_frame_trans dbg e ids1 ids2 s1 s2 s3 :
  calc_frame_stmt dbg e ids1 s1 s2 -> calc_frame_stmt dbg e ids2 s2 s3 ->
  calc_frame_stmt dbg e (ids1 ++ ids2) s1 s3.
Proof.
  intros [A1 [A2 A3]] [B1 [B2 B3]]. split; [congruence|]. split; [congruence|].
  intros i Hi. rewrite in_app_iff in Hi.
  destruct (A3 i) as [X1 X2]; [tauto|]. destruct (B3 i) as [Y1 Y2]; [tauto|].
  split; congruence.
Qed.

Lemma calc_list_frame dbg e lpv ch :
  Forall (fun d => forall st st', calc dbg e lpv d st = Ok st' -> calc_frame_stmt dbg e (die_ids d) st st') ch ->
  forall st st', calc_list dbg e lpv ch st = Ok st' -> calc_frame_stmt dbg e (dies_ids ch) st st'.
Proof.
  induction 1 as [|c r Hc Hr IH]; intros st st' H; cbn [calc_list] in H.
  - injection H as <-. repeat split; reflexivity.
  - binds. unfold dies_ids. cbn [flat_map]. eapply calc_frame_trans; [apply Hc; eassumption|apply IH; assumption].
Qed.

Lemma calc_frame dbg e lpv : forall d st st',
  calc dbg e lpv d st = Ok st' -> calc_frame_stmt dbg e (die_ids d) st st'.
Proof.
  induction d as [id tag sib attrs ch IH] using die_ind2. intros st st' H.
  rewrite calc_unfold in H. binds.
  destruct (abbrev_add (cs_abbrevs st) a0) as [code tab] eqn:EA. binds. cbv zeta in H.
  destruct (set_nth_spec _ _ _ _ E) as [S1 [S2 S3]].
  destruct (set_nth_spec _ _ _ _ E1) as [T1 [T2 T3]].
  assert (F1 : calc_frame_stmt dbg e [id] st (mkCst a3 a tab a1)).
  { split; [exact S3|]. split; [exact T3|]. intros i Hi. cbn [cs_entries cs_codes].
    split; [apply S2|apply T2]; intros ->; apply Hi; now left. }
  destruct ch as [|c r].
  - injection H as <-. cbn [die_ids flat_map]. exact F1.
  - binds. injection H as <-.
    assert (F2 := calc_list_frame dbg e lpv _ IH _ _ E4).
    assert (F := calc_frame_trans _ _ _ _ _ _ _ F1 F2).
    cbn [die_ids]. change (id :: flat_map die_ids (c :: r)) with ([id] ++ dies_ids (c :: r)).
    destruct F as [G1 [G2 G3]]. split; [exact G1|]. split; [exact G2|]. exact G3.
Qed.

Lemma calc_list_frame' dbg e lpv ch st st' :
  calc_list dbg e lpv ch st = Ok st' -> calc_frame_stmt dbg e (dies_ids ch) st st'.
Proof.
  apply calc_list_frame. apply Forall_forall. intros d _. apply calc_frame.
Qed.

(* ------------------------------------------------------------------ offsets_exact *)

Definition agree_on (ids : list nat) (a b : list N) : Prop :=
  forall i, In i ids -> nth_error a i = nth_error b i.

Definition agree_stmt (dbg : bool) (cx : wcx) (ids : list nat) (st st' : cst) (ops : list wop) : Prop :=
  cs_off st' = cs_off st + ops_len ops /\
  map fst (ops_marks (cs_off st) ops) = ids /\
  (forall i p, In (i, p) (ops_marks (cs_off st) ops) -> nth_error (cs_entries st') i = Some p).

Definition agree_die (dbg : bool) (cx : wcx) (d : die) : Prop :=
  forall st st' ops,
    calc dbg (wc_enc cx) (wc_lpv cx) d st = Ok st' ->
    write_die dbg cx d (cs_off st) = Ok ops ->
    agree_on (die_ids d) (wc_codes cx) (cs_codes st') ->
    NoDup (die_ids d) -> die_expr_ok d ->
    cs_off st + ops_len ops < 2 ^ 64 ->
    agree_stmt dbg cx (die_ids d) st st' ops.

Lemma NoDup_app_l {A} (a b : list A) : NoDup (a ++ b) -> NoDup a.
Proof. induction a as [|x r IH]; intros H; [constructor|]. inversion H; subst. constructor; [rewrite in_app_iff in *; tauto|auto]. Qed.
Lemma NoDup_app_r {A} (a b : list A) : NoDup (a ++ b) -> NoDup b.
Proof. induction a as [|x r IH]; intros H; [exact H|]. inversion H; subst. auto. Qed.
Lemma NoDup_app_disj {A} (a b : list A) x : NoDup (a ++ b) -> In x a -> ~ In x b.
Proof.
  induction a as [|y r IH]; intros H Hx; [destruct Hx|]. inversion H; subst.
  destruct Hx as [->|Hx]; [rewrite in_app_iff in *; tauto|auto].
Qed.

Lemma in_marks_fst pos ops i p : In (i, p) (ops_marks pos ops) -> In i (map fst (ops_marks pos ops)).
Proof. intros H. change i with (fst (i, p)). now apply in_map. Qed.

Lemma agree_list dbg cx ch :
  Forall (agree_die dbg cx) ch ->
  forall st st' ops,
    calc_list dbg (wc_enc cx) (wc_lpv cx) ch st = Ok st' ->
    write_list dbg cx ch (cs_off st) = Ok ops ->
    agree_on (dies_ids ch) (wc_codes cx) (cs_codes st') ->
    NoDup (dies_ids ch) -> dies_expr_ok ch ->
    cs_off st + ops_len ops < 2 ^ 64 ->
    agree_stmt dbg cx (dies_ids ch) st st' ops.
Proof.
  induction 1 as [|c r Hc Hr IH]; intros st st' ops HC HW HA HN HX HB; cbn [calc_list write_list] in *.
  - injection HC as <-. injection HW as <-. unfold agree_stmt. rewrite ops_len_nil. cbn [ops_marks map].
    split; [lia|]. split; [reflexivity|]. intros i p [].
  - binds. injection HW as <-.
    match goal with H : calc _ _ _ c _ = Ok ?s |- _ => rename s into sA; rename H into EC end.
    match goal with H : write_die _ _ c _ = Ok ?x |- _ => rename x into o; rename H into EW end.
    match goal with H : write_list _ _ r _ = Ok ?x |- _ => rename x into rest; rename H into EWL end.
    unfold dies_ids in *. cbn [flat_map] in *. rewrite ops_len_app in HB.
    destruct HX as [HX1 HX2].
    assert (FR := calc_list_frame' _ _ _ _ _ _ HC). destruct FR as [_ [_ FR]].
    (* the first child *)
    assert (A1 : agree_stmt dbg cx (die_ids c) st sA o).
    { apply Hc; try assumption.
      - intros i Hi. rewrite HA by (rewrite in_app_iff; tauto).
        apply (FR i). eapply NoDup_app_disj; eassumption.
      - eapply NoDup_app_l; eassumption.
      - lia. }
    destruct A1 as [B1 [B2 B3]].
    (* the remaining children *)
    assert (A2 : agree_stmt dbg cx (flat_map die_ids r) sA st' rest).
    { apply IH; try assumption.
      - rewrite B1. exact EWL.
      - intros i Hi. apply HA. rewrite in_app_iff. tauto.
      - eapply NoDup_app_r; eassumption.
      - rewrite B1. lia. }
    destruct A2 as [C1 [C2 C3]].
    unfold agree_stmt. rewrite ops_len_app, ops_marks_app, map_app. rewrite <- B1.
    split; [lia|]. split; [now rewrite B2, C2|].
    intros i p Hi. rewrite in_app_iff in Hi. destruct Hi as [Hi|Hi].
    + assert (Hid : In i (die_ids c)) by (rewrite <- B2; eapply in_marks_fst; eassumption).
      destruct (FR i) as [F1 _]; [eapply NoDup_app_disj; eassumption|]. rewrite F1. now apply B3.
    + now apply C3.
Qed.

Lemma ops_marks_wb_plain p b r : forallb plain r = true -> ops_marks p (WB b :: r) = [].
Proof. intros H. cbn [ops_marks]. now apply ops_marks_plain. Qed.

Lemma agree_all dbg cx : forall d, agree_die dbg cx d.
Proof.
  induction d as [id tag sib attrs ch IH] using die_ind2.
  intros st st' ops HC HW HA HN HX HB.
  rewrite calc_unfold in HC. rewrite write_die_unfold in HW.
  rewrite die_expr_ok_unfold in HX. destruct HX as [HXa HXc].
  cbn [die_ids] in *. inversion HN as [|? ? HNid HNch]; subst.
  (* calculate_offsets side *)
  apply bind_ok_inv in HC. destruct HC as [ents [Eents HC]].
  apply bind_ok_inv in HC. destruct HC as [ab [Eab HC]].
  destruct (abbrev_add (cs_abbrevs st) ab) as [code tab] eqn:EA.
  apply bind_ok_inv in HC. destruct HC as [codes [Ecodes HC]].
  apply bind_ok_inv in HC. destruct HC as [sz [Esz HC]].
  apply bind_ok_inv in HC. destruct HC as [off1 [Eoff1 HC]]. cbv zeta in HC.
  destruct (set_nth_spec _ _ _ _ Eents) as [S1 [S2 S3]].
  destruct (set_nth_spec _ _ _ _ Ecodes) as [T1 [T2 T3]].
  (* write side *)
  apply bind_ok_inv in HW. destruct HW as [u0 [_ HW]].
  apply bind_ok_inv in HW. destruct HW as [code' [Ecode' HW]].
  apply bind_ok_inv in HW. destruct HW as [cb [Ecb HW]]. cbv zeta in HW.
  apply bind_ok_inv in HW. destruct HW as [aops [Eaops HW]].
  assert (Pa := attrs_write_plain _ _ _ _ Eaops).
  (* the code looked up by `write` is the one `calculate_offsets` stored *)
  assert (Hcode : forall stF, calc_frame_stmt dbg (wc_enc cx) (flat_map die_ids ch) (mkCst off1 ents tab codes) stF ->
                  cs_codes st' = cs_codes stF -> code' = code).
  { intros stF [_ [_ F]] Eq. unfold idx_get, unwrap in Ecode'.
    rewrite (HA id (or_introl eq_refl)) in Ecode'. rewrite Eq in Ecode'.
    destruct (F id HNid) as [_ F2]. rewrite F2 in Ecode'. cbn [cs_codes] in Ecode'. rewrite T1 in Ecode'.
    now injection Ecode' as <-. }
  destruct ch as [|c r].
  - (* leaf *)
    injection HC as <-. injection HW as <-.
    assert (code' = code).
    { apply (Hcode (mkCst off1 ents tab codes)); [|reflexivity].
      repeat split; reflexivity. }
    subst code'.
    rewrite !ops_len_cons in HB. cbn [op_bytes] in HB. rewrite blen_nil in HB.
    cbn [has_kids] in *. rewrite ?andb_false_r in *.
    rewrite (die_size_eq dbg cx id tag sib attrs [] code cb aops Ecb Eaops HXa) in Esz
      by (cbn [has_kids]; rewrite andb_false_r; lia).
    cbn [has_kids] in Esz. rewrite andb_false_r in Esz. injection Esz as <-.
    rewrite chk_add_ok in Eoff1 by lia. injection Eoff1 as <-.
    unfold agree_stmt. cbn [cs_off cs_entries flat_map]. rewrite !ops_len_cons. cbn [op_bytes]. rewrite blen_nil.
    cbn [ops_marks op_bytes]. rewrite blen_nil, N.add_0_r. rewrite (ops_marks_plain aops) by assumption.
    cbn [map fst].
    split; [lia|]. split; [reflexivity|]. intros i p [Hi|[]]. injection Hi as <- <-. exact S1.
  - (* node *)
    apply bind_ok_inv in HC. destruct HC as [st2 [Est2 HC]].
    apply bind_ok_inv in HC. destruct HC as [off2 [Eoff2 HC]]. injection HC as <-.
    apply bind_ok_inv in HW. destruct HW as [cops [Ecops HW]].
    apply bind_ok_inv in HW. destruct HW as [sibb [Esibb HW]]. injection HW as <-.
    assert (FR := calc_list_frame' _ _ _ _ _ _ Est2).
    assert (code' = code) by (apply (Hcode st2 FR); reflexivity). subst code'.
    cbn [has_kids] in *. rewrite ?andb_true_r in *.
    set (w := wsz (wc_enc cx)) in *.
    (* the sibling patch has the width of the placeholder *)
    assert (Hsib : ops_len sibb = (if sib then w else 0) /\ forallb plain sibb = true).
    { destruct sib.
      - binds. injection Esibb as <-. rewrite ops_len_wb.
        match goal with H : write_udata _ _ _ = Ok _ |- _ => rewrite (write_udata_len _ _ _ _ H) end. split; reflexivity.
      - injection Esibb as <-. split; reflexivity. }
    destruct Hsib as [Lsib Psib].
    rewrite !ops_len_cons, !ops_len_app, ops_len_wb in HB. cbn [op_bytes] in HB. rewrite blen_nil, Lsib in HB.
    change (UnitWr.blen [x00]) with 1 in HB.
    rewrite (die_size_eq dbg cx id tag sib attrs (c :: r) code cb aops Ecb Eaops HXa) in Esz
      by (cbn [has_kids]; rewrite andb_true_r; fold w; lia).
    cbn [has_kids] in Esz. rewrite andb_true_r in Esz. fold w in Esz. injection Esz as <-.
    rewrite chk_add_ok in Eoff1 by lia. injection Eoff1 as <-.
    (* children *)
    assert (AL : agree_stmt dbg cx (dies_ids (c :: r))
                   (mkCst (cs_off st + (UnitWr.blen cb + (if sib then w else 0) + ops_len aops)) ents tab codes) st2 cops).
    { apply (agree_list dbg cx (c :: r) IH); cbn [cs_off]; try assumption.
      - rewrite <- Ecops. f_equal. lia.
      - intros i Hi. apply (HA i). now right.
      - lia. }
    destruct AL as [L1 [L2 L3]]. cbn [cs_off] in L1, L2, L3.
    rewrite chk_add_ok in Eoff2 by lia. injection Eoff2 as <-.
    unfold agree_stmt. cbn [cs_off cs_entries].
    rewrite !ops_len_cons, !ops_len_app, ops_len_wb. cbn [op_bytes]. rewrite blen_nil, Lsib.
    change (UnitWr.blen [x00]) with 1.
    split; [lia|].
    (* marks *)
    assert (M : ops_marks (cs_off st) (WMark id :: WB cb :: sibb ++ aops ++ cops ++ [WB [x00]]) =
                (id, cs_off st) :: ops_marks (cs_off st + (UnitWr.blen cb + (if sib then w else 0) + ops_len aops)) cops).
    { cbn [ops_marks op_bytes]. rewrite blen_nil, N.add_0_r. f_equal.
      rewrite !ops_marks_app. rewrite (ops_marks_plain sibb) by assumption.
      rewrite (ops_marks_plain aops) by assumption. cbn [app].
      rewrite (ops_marks_plain [WB [x00]]) by reflexivity. rewrite app_nil_r.
      f_equal. rewrite Lsib. lia. }
    rewrite M. cbn [map fst]. split; [now rewrite L2|].
    intros i p [Hi|Hi].
    + injection Hi as <- <-. destruct FR as [_ [_ FR]]. destruct (FR id HNid) as [F1 _].
      rewrite F1. exact S1.
    + now apply L3.
Qed.

Theorem offsets_exact_lemma dbg cx root st0 st ops :
  calc dbg (wc_enc cx) (wc_lpv cx) root st0 = Ok st ->
  wc_codes cx = cs_codes st ->
  write_die dbg cx root (cs_off st0) = Ok ops ->
  NoDup (die_ids root) -> die_expr_ok root ->
  cs_off st0 + ops_len ops < 2 ^ 64 ->
  cs_off st = cs_off st0 + ops_len ops /\
  map fst (ops_marks (cs_off st0) ops) = die_ids root /\
  (forall i p, In (i, p) (ops_marks (cs_off st0) ops) -> nth_error (cs_entries st) i = Some p).
Proof.
  intros HC Hcodes HW HN HX HB.
  apply (agree_all dbg cx root st0 st ops HC HW); try assumption.
  intros i _. now rewrite Hcodes.
Qed.

(* ------------------------------------------------------------------ write_at / patches *)

Lemma firstn_blen_app (pre rest : list byte) : firstn (N.to_nat (UnitWr.blen pre)) (pre ++ rest) = pre.
Proof.
  unfold UnitWr.blen. rewrite Nat2N.id. rewrite firstn_app, Nat.sub_diag, firstn_all. cbn. apply app_nil_r.
Qed.

Lemma write_at_app (pre old tail b : list byte) :
  length old = length b ->
  write_at (pre ++ old ++ tail) (UnitWr.blen pre) b = Ok (pre ++ b ++ tail).
Proof.
  intros L. unfold write_at.
  assert (E1 : (UnitWr.blen (pre ++ old ++ tail) <? UnitWr.blen pre) = false).
  { rewrite blen_app. apply N.ltb_ge. lia. }
  rewrite E1.
  assert (E2 : (UnitWr.blen (pre ++ old ++ tail) - UnitWr.blen pre <? UnitWr.blen b) = false).
  { rewrite !blen_app. apply N.ltb_ge. unfold UnitWr.blen. rewrite L. lia. }
  rewrite E2. rewrite firstn_blen_app. f_equal. f_equal. f_equal.
  unfold UnitWr.blen. rewrite Nat2N.id.
  rewrite skipn_app. rewrite skipn_all2 by lia. cbn [app].
  replace (length pre + length b - length pre)%nat with (length b) by lia.
  rewrite <- L. rewrite skipn_app, skipn_all, Nat.sub_diag. reflexivity.
Qed.

(* final content of an op list once the unit-relative placeholders hold `f id` *)
Definition op_resolved (f : eid -> list byte) (o : wop) : list byte :=
  match o with WUnitRef id _ => f id | _ => op_bytes o end.
Definition ops_resolved (f : eid -> list byte) (ops : list wop) : list byte := flat_map (op_resolved f) ops.

(* the value Unit::write patches into the placeholder of a reference to `id` *)
Definition ref_value (dbg be : bool) (unit : nat) (unit_off : N) (entries : list N) (w : N) (id : eid)
  : option (list byte) :=
  match unit_offset dbg unit unit_off entries id with
  | Ok (Some v) => match write_udata be v w with Ok b => Some b | _ => None end
  | _ => None
  end.

Lemma patch_unit_refs_spec dbg be unit unit_off entries w (f : eid -> list byte) : forall ops pre post sec',
  (forall id w', In (WUnitRef id w') ops -> w' = w) ->
  (forall id b, ref_value dbg be unit unit_off entries w id = Some b -> f id = b) ->
  patch_unit_refs dbg be unit unit_off entries w (ops_unit_refs (UnitWr.blen pre) ops)
                  (pre ++ ops_bytes ops ++ post) = Ok sec' ->
  sec' = pre ++ ops_resolved f ops ++ post /\
  (forall id w', In (WUnitRef id w') ops -> ref_value dbg be unit unit_off entries w id = Some (f id)).
Proof.
  induction ops as [|o r IH]; intros pre post sec' HW Hf H.
  - cbn in H. injection H as <-. split; [reflexivity|]. intros ? ? [].
  - assert (HWr : forall id w', In (WUnitRef id w') r -> w' = w) by (intros; eapply HW; right; eassumption).
    assert (Step : forall bytes, op_bytes o = bytes ->
              (forall id w', o <> WUnitRef id w') ->
              patch_unit_refs dbg be unit unit_off entries w (ops_unit_refs (UnitWr.blen (pre ++ bytes)) r)
                              ((pre ++ bytes) ++ ops_bytes r ++ post) = Ok sec' ->
              op_resolved f o = bytes ->
              sec' = pre ++ ops_resolved f (o :: r) ++ post /\
              (forall id w', In (WUnitRef id w') (o :: r) -> ref_value dbg be unit unit_off entries w id = Some (f id))).
    { intros bytes Eb Hno H' Er. destruct (IH _ _ _ HWr Hf H') as [A1 A2]. split.
      - rewrite A1. unfold ops_resolved. cbn [flat_map]. rewrite Er. now rewrite <- !app_assoc.
      - intros id w' [Hi|Hi]; [exfalso; eapply Hno; eassumption|eauto]. }
    destruct o as [m|bs|id w'|u0 id0 sz].
    + apply (Step []); [reflexivity|discriminate| |reflexivity].
      cbn [ops_unit_refs op_bytes] in H. unfold ops_bytes in *. cbn [flat_map op_bytes] in H.
      rewrite blen_nil, N.add_0_r in H. now rewrite !app_nil_r.
    + apply (Step bs); [reflexivity|discriminate| |reflexivity].
      cbn [ops_unit_refs op_bytes] in H. unfold ops_bytes in *. cbn [flat_map op_bytes] in H.
      rewrite blen_app. rewrite <- ?app_assoc in *. exact H.
    + (* a placeholder *)
      assert (w' = w) by (eapply HW; left; reflexivity). subst w'.
      cbn [ops_unit_refs op_bytes patch_unit_refs] in H.
      apply bind_ok_inv in H. destruct H as [t [Et H]].
      apply bind_ok_inv in H. destruct H as [v [Ev H]].
      apply bind_ok_inv in H. destruct H as [sec1 [Esec1 H]].
      destruct t as [v'|]; [|discriminate]. injection Ev as ->.
      unfold write_udata_at in Esec1. apply bind_ok_inv in Esec1. destruct Esec1 as [b [Eb Esec1]].
      assert (Rv : ref_value dbg be unit unit_off entries w id = Some b).
      { unfold ref_value. now rewrite Et, Eb. }
      assert (Lb : UnitWr.blen b = w) by (eapply write_udata_len; eassumption).
      unfold ops_bytes in Esec1. cbn [flat_map op_bytes] in Esec1. rewrite <- app_assoc in Esec1.
      rewrite write_at_app in Esec1.
      2:{ unfold zeros. rewrite repeat_length. unfold UnitWr.blen in Lb. lia. }
      injection Esec1 as <-.
      replace (UnitWr.blen pre + UnitWr.blen (zeros w)) with (UnitWr.blen (pre ++ b)) in H
        by (rewrite blen_app, zeros_blen; lia).
      replace (pre ++ b ++ flat_map op_bytes r ++ post) with ((pre ++ b) ++ ops_bytes r ++ post) in H
        by (unfold ops_bytes; now rewrite <- !app_assoc).
      destruct (IH _ _ _ HWr Hf H) as [A1 A2]. split.
      * rewrite A1. unfold ops_resolved. cbn [flat_map op_resolved]. rewrite (Hf _ _ Rv). now rewrite <- !app_assoc.
      * intros id' w' [Hi|Hi]; [|eauto]. injection Hi as <- <-. now rewrite (Hf _ _ Rv).
    + apply (Step (zeros sz)); [reflexivity|discriminate| |reflexivity].
      cbn [ops_unit_refs op_bytes] in H. unfold ops_bytes in *. cbn [flat_map op_bytes] in H.
      rewrite blen_app. rewrite <- ?app_assoc in *. exact H.
Qed.

(* ------------------------------------------------------------------ properties of all ops of a DIE tree *)

Lemma attrs_write_forall dbg cx (Q : wop -> Prop) :
  (forall v ops, av_write dbg cx v = Ok ops -> Forall Q ops) ->
  forall attrs aops, attrs_write dbg cx attrs = Ok aops -> Forall Q aops.
Proof.
  intros HQ. induction attrs as [|[n v] r IH]; intros aops H; cbn [attrs_write] in H.
  - injection H as <-. constructor.
  - binds. injection H as <-. apply Forall_app. split; [eapply HQ; eassumption|apply IH; assumption].
Qed.

Lemma write_die_forall dbg cx (Q : wop -> Prop) :
  (forall v ops, av_write dbg cx v = Ok ops -> Forall Q ops) ->
  (forall bs, Q (WB bs)) -> (forall i, Q (WMark i)) ->
  forall d pos ops, write_die dbg cx d pos = Ok ops -> Forall Q ops.
Proof.
  intros HQ HB HM.
  induction d as [id tag sib attrs ch IH] using die_ind2. intros pos ops H.
  rewrite write_die_unfold in H.
  apply bind_ok_inv in H. destruct H as [u0 [_ H]].
  apply bind_ok_inv in H. destruct H as [code [_ H]].
  apply bind_ok_inv in H. destruct H as [cb [_ H]]. cbv zeta in H.
  apply bind_ok_inv in H. destruct H as [aops [Ea H]].
  assert (Qa := attrs_write_forall dbg cx Q HQ _ _ Ea).
  destruct ch as [|c r].
  - injection H as <-. repeat constructor; auto.
  - apply bind_ok_inv in H. destruct H as [cops [Ec H]].
    apply bind_ok_inv in H. destruct H as [sibb [Es H]]. injection H as <-.
    assert (Qc : forall l p o, Forall (fun d => forall pos ops, write_die dbg cx d pos = Ok ops -> Forall Q ops) l ->
                 write_list dbg cx l p = Ok o -> Forall Q o).
    { induction l as [|c' r' IHl]; intros p o HF Hl; cbn [write_list] in Hl.
      - injection Hl as <-. constructor.
      - binds. injection Hl as <-. inversion HF; subst. apply Forall_app. split; eauto. }
    assert (Qs : Forall Q sibb).
    { destruct (sib && has_kids (c :: r)); [binds; injection Es as <-; repeat constructor; auto|injection Es as <-; constructor]. }
    constructor; [auto|]. constructor; [auto|].
    apply Forall_app. split; [exact Qs|]. apply Forall_app. split; [exact Qa|].
    apply Forall_app. split; [eapply Qc; eassumption|repeat constructor; auto].
Qed.

(* every unit-relative placeholder has the width of the format's word *)
Lemma av_write_refw dbg cx v ops :
  av_write dbg cx v = Ok ops ->
  Forall (fun o => match o with WUnitRef _ w' => w' = wsz (wc_enc cx) | _ => True end) ops.
Proof.
  destruct cx as [e be u uoff ents codes line lstr str rng loc lpv].
  destruct e as [ver fmt asz].
  intros H.
  destruct v; unfold av_write in H; cbn [wc_enc wc_be wc_line wc_loc wc_rng wc_str wc_lstr wc_lpv] in H;
    revert H; unfold_asserts; case_ver ver; destruct fmt; intros H.
  all: binds; try discriminate.
  all: try match goal with H : match ?a with AConst _ => _ | ASym _ _ => _ end = _ |- _ => destruct a end.
  all: try match goal with H : match ?l with Some _ => _ | None => _ end = Ok _ |- _ => destruct l end.
  all: try match goal with H : match ?r with DSym _ => _ | DEntry _ _ => _ end = _ |- _ => destruct r end.
  all: try match goal with H : (if valid_size ?s then _ else _) = _ |- _ => destruct (valid_size s) eqn:? end.
  all: binds; try discriminate.
  all: try match goal with H : Ok _ = Ok _ |- _ => injection H as <- end.
  all: repeat constructor.
Qed.

Lemma write_die_refw dbg cx d pos ops :
  write_die dbg cx d pos = Ok ops ->
  forall id w', In (WUnitRef id w') ops -> w' = wsz (wc_enc cx).
Proof.
  intros H id w' Hi.
  assert (F := write_die_forall dbg cx _ (av_write_refw dbg cx) (fun _ => I) (fun _ => I) _ _ _ H).
  rewrite Forall_forall in F. exact (F _ Hi).
Qed.

Lemma ops_marks_ge : forall ops pos i p, In (i, p) (ops_marks pos ops) -> pos <= p.
Proof.
  induction ops as [|o r IH]; intros pos i p H; cbn [ops_marks] in H; [destruct H|].
  destruct o; try (apply IH in H; lia).
  destruct H as [H|H]; [injection H as <- <-; lia|apply IH in H; lia].
Qed.

Lemma unit_offset_value dbg unit unit_off entries id v :
  unit_offset dbg unit unit_off entries id = Ok (Some v) ->
  exists x, nth_error entries (id_idx id) = Some x /\ x <> 0 /\ (unit_off <= x -> v = x - unit_off) /\
            (dbg = true -> id_unit id = unit).
Proof.
  unfold unit_offset. intros H.
  apply bind_ok_inv in H. destruct H as [o [Eo H]].
  unfold debug_info_offset in Eo.
  apply bind_ok_inv in Eo. destruct Eo as [u0 [Ea Eo]].
  destruct (nth_error entries (id_idx id)) as [x|] eqn:En; [|injection Eo as <-; discriminate].
  destruct (x =? 0) eqn:Z; injection Eo as <-; [discriminate|].
  apply bind_ok_inv in H. destruct H as [r [Er H]]. injection H as <-.
  exists x. split; [reflexivity|]. split; [now apply N.eqb_neq|]. split.
  - intros L. rewrite chk_sub_ok in Er by assumption. now injection Er as <-.
  - intros ->. apply dassert_ok in Ea; [|reflexivity]. symmetry. now apply Nat.eqb_eq.
Qed.

Lemma calc_nonzero_in_tree dbg e lpv root st0 st i x :
  calc dbg e lpv root st0 = Ok st ->
  (forall j y, nth_error (cs_entries st0) j = Some y -> y = 0) ->
  nth_error (cs_entries st) i = Some x -> x <> 0 -> In i (die_ids root).
Proof.
  intros HC HZ Hn Hx. destruct (in_dec Nat.eq_dec i (die_ids root)) as [Hi|Hi]; [exact Hi|].
  destruct (calc_frame _ _ _ _ _ _ HC) as [_ [_ F]]. destruct (F i Hi) as [F1 _].
  rewrite F1 in Hn. apply HZ in Hn. contradiction.
Qed.

(* every UnitRef placeholder ends up holding the unit-relative offset of the position at which the
   referenced entry was emitted *)
Theorem refs_resolve_lemma dbg cx root st0 st ops pre post sec' (f : eid -> list byte) :
  calc dbg (wc_enc cx) (wc_lpv cx) root st0 = Ok st ->
  wc_codes cx = cs_codes st ->
  write_die dbg cx root (cs_off st0) = Ok ops ->
  NoDup (die_ids root) -> die_expr_ok root ->
  cs_off st0 + ops_len ops < 2 ^ 64 ->
  (forall j y, nth_error (cs_entries st0) j = Some y -> y = 0) ->
  UnitWr.blen pre = cs_off st0 -> wc_unit_off cx <= cs_off st0 ->
  (forall id b, ref_value dbg (wc_be cx) (wc_unit cx) (wc_unit_off cx) (cs_entries st) (wsz (wc_enc cx)) id = Some b -> f id = b) ->
  patch_unit_refs dbg (wc_be cx) (wc_unit cx) (wc_unit_off cx) (cs_entries st) (wsz (wc_enc cx))
                  (ops_unit_refs (cs_off st0) ops) (pre ++ ops_bytes ops ++ post) = Ok sec' ->
  sec' = pre ++ ops_resolved f ops ++ post /\
  (forall id w', In (WUnitRef id w') ops ->
     exists p, In (id_idx id, p) (ops_marks (cs_off st0) ops) /\
               write_udata (wc_be cx) (p - wc_unit_off cx) (wsz (wc_enc cx)) = Ok (f id) /\
               (dbg = true -> id_unit id = wc_unit cx)).
Proof.
  intros HC Hcodes HW HN HX HB HZ Hpre Huoff Hf HP.
  destruct (offsets_exact_lemma _ _ _ _ _ _ HC Hcodes HW HN HX HB) as [O1 [O2 O3]].
  rewrite <- Hpre in HP.
  destruct (patch_unit_refs_spec _ _ _ _ _ _ f ops pre post sec' (write_die_refw _ _ _ _ _ HW) Hf HP) as [A1 A2].
  split; [exact A1|]. intros id w' Hi. specialize (A2 _ _ Hi).
  unfold ref_value in A2.
  destruct (unit_offset dbg (wc_unit cx) (wc_unit_off cx) (cs_entries st) id) as [[v|]| | |] eqn:Eu; try discriminate.
  destruct (write_udata (wc_be cx) v (wsz (wc_enc cx))) as [b| | |] eqn:Eb; try discriminate.
  injection A2 as A2.
  destruct (unit_offset_value _ _ _ _ _ _ Eu) as [x [X1 [X2 [X3 X4]]]].
  assert (Hin : In (id_idx id) (die_ids root)) by (eapply calc_nonzero_in_tree; eassumption).
  rewrite <- O2 in Hin. apply in_map_iff in Hin. destruct Hin as [[i p] [Hfst Hin]]. cbn [fst] in Hfst. subst i.
  assert (Hp := O3 _ _ Hin). rewrite X1 in Hp. injection Hp as ->.
  assert (Hge := ops_marks_ge _ _ _ _ Hin).
  exists p. split; [exact Hin|]. split; [|exact X4].
  rewrite <- X3 by lia. now rewrite Eb, A2.
Qed.

(* ------------------------------------------------------------------ AbbreviationTable *)

Lemma NoDup_snoc {A} (l : list A) (x : A) : NoDup l -> ~ In x l -> NoDup (l ++ [x]).
Proof.
  induction l as [|y r IH]; intros ND Hn; cbn [app]; [constructor; [intros []|constructor]|].
  inversion ND; subst. constructor.
  - rewrite in_app_iff. intros [H|[H|[]]]; [contradiction|]. subst. apply Hn. now left.
  - apply IH; [assumption|]. intros H. apply Hn. now right.
Qed.

Lemma aspec_eqb_eq a b : aspec_eqb a b = true <-> a = b.
Proof.
  destruct a as [n1 f1 c1], b as [n2 f2 c2]. unfold aspec_eqb. cbn [as_name as_form as_ic].
  rewrite !andb_true_iff, !N.eqb_eq, Z.eqb_eq. split; [intros [[-> ->] ->]; reflexivity|intros H; injection H; auto].
Qed.

Lemma aspecs_eqb_eq : forall a b, aspecs_eqb a b = true <-> a = b.
Proof.
  induction a as [|x r IH]; intros [|y s]; cbn [aspecs_eqb]; split; intros H; try reflexivity; try discriminate.
  - apply andb_true_iff in H. destruct H as [H1 H2]. apply aspec_eqb_eq in H1. apply IH in H2. congruence.
  - injection H as -> ->. apply andb_true_iff. split; [now apply aspec_eqb_eq|now apply IH].
Qed.

Lemma abbrev_eqb_eq a b : abbrev_eqb a b = true <-> a = b.
Proof.
  destruct a as [t1 c1 l1], b as [t2 c2 l2]. unfold abbrev_eqb. cbn [ab_tag ab_children ab_attrs].
  rewrite !andb_true_iff, N.eqb_eq, eqb_true_iff, aspecs_eqb_eq.
  split; [intros [[-> ->] ->]; reflexivity|intros H; injection H; auto].
Qed.

Lemma abbrev_find_some : forall tab a i,
  abbrev_find tab a = Some i ->
  nth_error tab i = Some a /\ (forall j, (j < i)%nat -> nth_error tab j <> Some a).
Proof.
  induction tab as [|x r IH]; intros a i H; cbn [abbrev_find] in H; [discriminate|].
  destruct (abbrev_eqb x a) eqn:E.
  - injection H as <-. apply abbrev_eqb_eq in E. subst. split; [reflexivity|]. intros j Hj. lia.
  - destruct (abbrev_find r a) as [k|] eqn:F; [|discriminate]. injection H as <-.
    destruct (IH _ _ F) as [A B]. split; [exact A|].
    intros [|j] Hj; cbn [nth_error].
    + intros Heq. injection Heq as ->. assert (abbrev_eqb a a = true) by now apply abbrev_eqb_eq. congruence.
    + apply B. lia.
Qed.

Lemma abbrev_find_none : forall tab a, abbrev_find tab a = None -> ~ In a tab.
Proof.
  induction tab as [|x r IH]; intros a H; cbn [abbrev_find] in H; [intros []|].
  destruct (abbrev_eqb x a) eqn:E; [discriminate|].
  destruct (abbrev_find r a) eqn:F; [discriminate|].
  intros [->|Hi]; [|eapply IH; eassumption].
  assert (abbrev_eqb a a = true) by now apply abbrev_eqb_eq. congruence.
Qed.

Lemma abbrev_find_in : forall tab a, In a tab -> exists i, abbrev_find tab a = Some i.
Proof.
  intros tab a Hi. destruct (abbrev_find tab a) eqn:F; [eauto|]. apply abbrev_find_none in F. contradiction.
Qed.

(* AbbreviationTable::add: the returned code is the 1-based position of the first occurrence; the table
   only grows at its end and never holds the same abbreviation twice *)
Lemma abbrev_add_spec tab a code tab' :
  abbrev_add tab a = (code, tab') ->
  abbrev_lookup tab' code = Some a /\
  1 <= code <= N.of_nat (length tab') /\
  (forall c, c < code -> abbrev_lookup tab' c <> Some a) /\
  (In a tab -> tab' = tab) /\ (~ In a tab -> tab' = tab ++ [a] /\ code = N.of_nat (length tab) + 1) /\
  (NoDup tab -> NoDup tab').
Proof.
  unfold abbrev_add. destruct (abbrev_find tab a) as [i|] eqn:F; intros H; injection H as <- <-.
  - destruct (abbrev_find_some _ _ _ F) as [A B].
    assert (Li : (i < length tab)%nat) by (apply nth_error_Some; congruence).
    unfold abbrev_lookup.
    replace (N.of_nat i + 1 =? 0) with false by (symmetry; apply N.eqb_neq; lia).
    replace (N.to_nat (N.of_nat i + 1 - 1)) with i by lia.
    split; [exact A|]. split; [lia|]. split.
    { intros c Hc. destruct (c =? 0) eqn:Z; [discriminate|]. apply N.eqb_neq in Z. apply B. lia. }
    split; [reflexivity|]. split; [|auto].
    intros Hn. exfalso. apply Hn. eapply nth_error_In; eassumption.
  - assert (Hn := abbrev_find_none _ _ F).
    unfold abbrev_lookup.
    replace (N.of_nat (length tab) + 1 =? 0) with false by (symmetry; apply N.eqb_neq; lia).
    replace (N.to_nat (N.of_nat (length tab) + 1 - 1)) with (length tab) by lia.
    split; [rewrite nth_error_app2, Nat.sub_diag by lia; reflexivity|].
    split; [rewrite app_length; cbn [length]; lia|]. split.
    { intros c Hc. destruct (c =? 0) eqn:Z; [discriminate|]. apply N.eqb_neq in Z.
      rewrite nth_error_app1 by lia. intros Hx. apply Hn. eapply nth_error_In; eassumption. }
    split; [intros; contradiction|]. split; [auto|].
    intros ND. now apply NoDup_snoc.
Qed.

(* equal (tag, children flag, attribute specifications) -> the same code, and the table is not touched:
   in any later state of the table (which only grows and stays duplicate-free) *)
Lemma abbrev_add_again tab a code tab' ext :
  abbrev_add tab a = (code, tab') -> NoDup (tab' ++ ext) ->
  abbrev_add (tab' ++ ext) a = (code, tab' ++ ext).
Proof.
  intros H ND. destruct (abbrev_add_spec _ _ _ _ H) as [A [B [C _]]].
  unfold abbrev_lookup in A. destruct (code =? 0) eqn:Z; [discriminate|]. apply N.eqb_neq in Z.
  assert (Hin : In a (tab' ++ ext)) by (apply in_or_app; left; eapply nth_error_In; eassumption).
  destruct (abbrev_find_in _ _ Hin) as [i F]. unfold abbrev_add. rewrite F.
  destruct (abbrev_find_some _ _ _ F) as [F1 F2].
  assert (L : (N.to_nat (code - 1) < length tab')%nat) by (apply nth_error_Some; congruence).
  assert (A' : nth_error (tab' ++ ext) (N.to_nat (code - 1)) = Some a) by (rewrite nth_error_app1; assumption).
  (* two positions holding `a` in a duplicate-free list coincide *)
  assert (i = N.to_nat (code - 1)).
  { assert (Li : (i < length (tab' ++ ext))%nat) by (apply nth_error_Some; congruence).
    rewrite NoDup_nth_error in ND. apply ND; [exact Li|congruence]. }
  subst i. f_equal. lia.
Qed.

(* ------------------------------------------------------------------ StringTable / LineStringTable *)

Definition strs_bytes (l : list (list byte)) : list byte := flat_map (fun s => s ++ [x00]) l.

Lemma strs_bytes_app a b : strs_bytes (a ++ b) = strs_bytes a ++ strs_bytes b.
Proof. unfold strs_bytes. apply flat_map_app. Qed.

(* invariant: one offset per string, no duplicates, offset i = length of everything before string i,
   len = total length *)
Definition strtab_wf (t : strtab) : Prop :=
  NoDup (st_strings t) /\
  st_len t = UnitWr.blen (strs_bytes (st_strings t)) /\
  length (st_offsets t) = length (st_strings t) /\
  (forall i o, nth_error (st_offsets t) i = Some o ->
               o = UnitWr.blen (strs_bytes (firstn i (st_strings t)))).

Lemma strtab_empty_wf : strtab_wf strtab_empty.
Proof.
  unfold strtab_wf, strtab_empty. cbn. split; [constructor|]. split; [reflexivity|]. split; [reflexivity|].
  intros [|i] o H; discriminate.
Qed.

Lemma bytes_eqb_eq a b : bytes_eqb a b = true <-> a = b.
Proof. unfold bytes_eqb. destruct (list_eq_dec byte_eq_dec a b); split; intros; congruence. Qed.

Lemma str_find_some : forall l s i, str_find l s = Some i ->
  nth_error l i = Some s /\ (forall j, (j < i)%nat -> nth_error l j <> Some s).
Proof.
  induction l as [|x r IH]; intros s i H; cbn [str_find] in H; [discriminate|].
  destruct (bytes_eqb x s) eqn:E.
  - injection H as <-. apply bytes_eqb_eq in E. subst. split; [reflexivity|]. intros j Hj. lia.
  - destruct (str_find r s) as [k|] eqn:F; [|discriminate]. injection H as <-.
    destruct (IH _ _ F) as [A B]. split; [exact A|].
    intros [|j] Hj; cbn [nth_error].
    + intros Heq. injection Heq as ->. assert (bytes_eqb s s = true) by now apply bytes_eqb_eq. congruence.
    + apply B. lia.
Qed.

Lemma str_find_none : forall l s, str_find l s = None -> ~ In s l.
Proof.
  induction l as [|x r IH]; intros s H; cbn [str_find] in H; [intros []|].
  destruct (bytes_eqb x s) eqn:E; [discriminate|].
  destruct (str_find r s) eqn:F; [discriminate|].
  intros [->|Hi]; [|eapply IH; eassumption].
  assert (bytes_eqb s s = true) by now apply bytes_eqb_eq. congruence.
Qed.

(* add: the id names a copy of the string; an existing copy is reused (table unchanged), a new string is
   appended at offset = old total length *)
Lemma strtab_add_spec dbg t s i t' :
  strtab_wf t -> strtab_add dbg t s = Ok (i, t') ->
  UnitWr.blen (strs_bytes (st_strings t')) < 2 ^ 64 ->
  strtab_wf t' /\ nth_error (st_strings t') i = Some s /\
  (In s (st_strings t) -> t' = t) /\
  (~ In s (st_strings t) -> st_strings t' = st_strings t ++ [s] /\ i = length (st_strings t)) /\
  (forall j x, nth_error (st_strings t) j = Some x -> nth_error (st_strings t') j = Some x) /\
  (forall j o, nth_error (st_offsets t) j = Some o -> nth_error (st_offsets t') j = Some o).
Proof.
  intros [W1 [W2 [W3 W4]]] H B. unfold strtab_add in H.
  destruct (has_nul s); [discriminate|].
  destruct (str_find (st_strings t) s) as [k|] eqn:F.
  - injection H as <- <-. destruct (str_find_some _ _ _ F) as [A _].
    split; [repeat split; assumption|]. split; [exact A|]. split; [reflexivity|].
    split; [intros Hn; exfalso; apply Hn; eapply nth_error_In; eassumption|]. split; auto.
  - assert (Hn := str_find_none _ _ F).
    apply bind_ok_inv in H. destruct H as [l1 [E1 H]]. apply bind_ok_inv in H. destruct H as [len' [E2 H]].
    injection H as <- <-. cbn [st_strings st_offsets st_len] in *.
    rewrite strs_bytes_app, blen_app in B. unfold strs_bytes at 2 in B. cbn [flat_map] in B.
    rewrite app_nil_r, blen_app in B. change (UnitWr.blen [x00]) with 1 in B.
    rewrite chk_add_ok in E1 by lia. injection E1 as <-.
    rewrite chk_add_ok in E2 by lia. injection E2 as <-.
    unfold strtab_wf. cbn [st_strings st_offsets st_len].
    split.
    { split; [now apply NoDup_snoc|]. split.
      - rewrite strs_bytes_app, blen_app. unfold strs_bytes at 2. cbn [flat_map].
        rewrite app_nil_r, blen_app. change (UnitWr.blen [x00]) with 1. lia.
      - split; [rewrite !app_length; cbn [length]; lia|].
        intros j o Hj. destruct (Nat.lt_ge_cases j (length (st_offsets t))) as [Lj|Lj].
        + rewrite nth_error_app1 in Hj by assumption. rewrite firstn_app.
          replace (j - length (st_strings t))%nat with 0%nat by lia. cbn [firstn]. rewrite app_nil_r. now apply W4.
        + rewrite nth_error_app2 in Hj by assumption.
          destruct (j - length (st_offsets t))%nat as [|m] eqn:Em; [|destruct m; discriminate].
          injection Hj as <-. assert (j = length (st_strings t)) by lia. subst j.
          rewrite firstn_app, Nat.sub_diag, firstn_all. cbn [firstn]. now rewrite app_nil_r. }
    split; [rewrite nth_error_app2, Nat.sub_diag by lia; reflexivity|].
    split; [intros; contradiction|]. split; [auto|]. split.
    + intros j x Hj. rewrite nth_error_app1; [exact Hj|]. apply nth_error_Some. congruence.
    + intros j o Hj. rewrite nth_error_app1; [exact Hj|]. apply nth_error_Some. congruence.
Qed.

(* the offset recorded for id i is the position of a copy of string i in the written section *)
Lemma strtab_offset_points t i s o :
  strtab_wf t -> nth_error (st_strings t) i = Some s -> nth_error (st_offsets t) i = Some o ->
  exists pre post, strtab_write t = pre ++ (s ++ [x00]) ++ post /\ UnitWr.blen pre = o.
Proof.
  intros [_ [_ [_ W4]]] Hs Ho. apply W4 in Ho. subst o.
  exists (strs_bytes (firstn i (st_strings t))), (strs_bytes (skipn (S i) (st_strings t))).
  split; [|reflexivity]. unfold strtab_write. fold (strs_bytes (st_strings t)).
  rewrite <- (firstn_skipn i (st_strings t)) at 1. rewrite strs_bytes_app. f_equal.
  assert (E : skipn i (st_strings t) = s :: skipn (S i) (st_strings t)).
  { clear W4. revert i Hs. induction (st_strings t) as [|x r IH]; intros [|i] Hs; cbn in *; try discriminate.
    - now injection Hs as ->.
    - now apply IH. }
  rewrite E. unfold strs_bytes. cbn [flat_map]. reflexivity.
Qed.

(* equal strings -> equal ids -> one copy *)
Lemma strtab_add_again dbg t s i t' :
  strtab_add dbg t s = Ok (i, t') -> strtab_wf t ->
  UnitWr.blen (strs_bytes (st_strings t')) < 2 ^ 64 ->
  strtab_add dbg t' s = Ok (i, t').
Proof.
  intros H W B. destruct (strtab_add_spec _ _ _ _ _ W H B) as [[ND _] [A _]].
  unfold strtab_add in *. destruct (has_nul s); [discriminate|].
  destruct (str_find (st_strings t') s) as [k|] eqn:F.
  - destruct (str_find_some _ _ _ F) as [F1 _]. f_equal. f_equal.
    rewrite NoDup_nth_error in ND. apply ND; [apply nth_error_Some; congruence|congruence].
  - exfalso. apply (str_find_none _ _ F). eapply nth_error_In; eassumption.
Qed.

(* ------------------------------------------------------------------ reorder_base_types *)

Definition tag_is_base (ents : list entry) (c : nat) : bool :=
  match nth_error ents c with Some x => en_tag x =? DW_TAG_base_type | None => false end.

Lemma select_tags_spec ents want : forall l r,
  select_tags ents want l = Ok r -> r = filter (fun c => Bool.eqb (tag_is_base ents c) want) l.
Proof.
  induction l as [|c l IH]; intros r H; cbn [select_tags] in H.
  - now injection H as <-.
  - apply bind_ok_inv in H. destruct H as [t [Et H]]. apply bind_ok_inv in H. destruct H as [rest [Er H]].
    injection H as <-. cbn [filter]. rewrite <- (IH _ Er).
    unfold entry_tag_at, unwrap in Et. unfold tag_is_base.
    destruct (nth_error ents c) as [x|]; [|discriminate]. cbn [bind] in Et. injection Et as <-. reflexivity.
Qed.

Lemma filter_partition_perm {A} (p : A -> bool) : forall l,
  Permutation (filter p l ++ filter (fun x => negb (p x)) l) l.
Proof.
  induction l as [|x r IH]; cbn [filter]; [constructor|].
  destruct (p x); cbn [negb app].
  - now constructor.
  - eapply Permutation_trans; [apply Permutation_sym, Permutation_middle|]. now constructor.
Qed.

Lemma reorder_base_types_spec ents ents' :
  reorder_base_types ents = Ok ents' ->
  exists root,
    nth_error ents 0 = Some root /\
    nth_error ents' 0 =
      Some (mkEntry (en_parent root) (en_tag root) (en_sibling root) (en_attrs root)
                    (filter (tag_is_base ents) (en_children root) ++
                     filter (fun c => negb (tag_is_base ents c)) (en_children root))) /\
    (forall j, j <> 0%nat -> nth_error ents' j = nth_error ents j) /\
    length ents' = length ents.
Proof.
  unfold reorder_base_types, unwrap. intros H.
  destruct (nth_error ents 0) as [root|] eqn:E0; [|discriminate]. cbn [bind] in H.
  apply bind_ok_inv in H. destruct H as [a [Ea H]]. apply bind_ok_inv in H. destruct H as [b [Eb H]].
  apply select_tags_spec in Ea. apply select_tags_spec in Eb.
  destruct (set_nth_spec _ _ _ _ H) as [S1 [S2 S3]].
  exists root. split; [reflexivity|]. split; [|split; assumption].
  rewrite S1. rewrite Ea, Eb. do 3 f_equal.
  all: apply filter_ext; intros c; now destruct (tag_is_base ents c).
Qed.

(* ------------------------------------------------------------------ requests that cannot be encoded *)

(* Some e: AttributeValue::write refuses the value with e. The conditions are those of the code: symbolic
   addresses and references (no relocation support in the plain writer), values that do not fit the field,
   a field width that is not 1/2/4/8, a line program reference in a unit without line program. *)
Definition fits (v size : N) : option error :=
  if size =? 1 then (if v <? 256 then None else Some WValueTooLarge)
  else if size =? 2 then (if v <? two16 then None else Some WValueTooLarge)
  else if size =? 4 then (if v <? two32 then None else Some WValueTooLarge)
  else if size =? 8 then None
  else Some WUnsupportedWordSize.

Lemma write_udata_fits be v size :
  match fits v size with
  | Some e => write_udata be v size = Err e
  | None => exists b, write_udata be v size = Ok b
  end.
Proof.
  unfold fits, write_udata.
  destruct (size =? 1); [destruct (v <? 256); eauto|].
  destruct (size =? 2); [destruct (v <? two16); eauto|].
  destruct (size =? 4); [destruct (v <? two32); eauto|].
  destruct (size =? 8); eauto.
Qed.

Definition av_unencodable (cx : wcx) (v : aval) : option error :=
  let e := wc_enc cx in
  match v with
  | AvAddress (ASym _ _) => Some WInvalidAddress
  | AvAddress (AConst x) => fits x (e_asz e)
  | AvDebugInfoRef (DSym _) => Some WInvalidReference
  | AvDebugInfoRef (DEntry _ _) =>
      if valid_size (if e_ver e =? 2 then e_asz e else wsz e) then None else Some WUnsupportedWordSize
  | AvDebugInfoRefSup x | AvDebugMacinfoRef x | AvDebugMacroRef x | AvDebugStrRefSup x => fits x (wsz e)
  | AvLineProgramRef => match wc_line cx with None => Some WInvalidAttributeValue | Some o => fits o (wsz e) end
  | _ => None
  end.

Lemma wsz_fits_shape e x : fits x (wsz e) = if e_fmt64 e then None else (if x <? two32 then None else Some WValueTooLarge).
Proof. unfold fits, wsz. destruct (e_fmt64 e); reflexivity. Qed.

Theorem unencodable_is_error_lemma dbg cx v er :
  av_unencodable cx v = Some er -> av_write dbg cx v = Err er.
Proof.
  destruct cx as [e be u uoff ents codes line lstr str rng loc lpv].
  destruct e as [ver fmt asz].
  unfold av_unencodable. cbn [wc_enc wc_line].
  destruct v; try discriminate; intros H; unfold av_write;
    cbn [wc_enc wc_be wc_line wc_loc wc_rng wc_str wc_lstr wc_lpv]; unfold_asserts; case_ver ver; destruct fmt; asserts.
  all: try (exfalso; lia).
  all: try match goal with a : address |- _ => destruct a end.
  all: try match goal with r : dref |- _ => destruct r end.
  all: try match goal with l : option N |- _ => destruct l end.
  all: unfold wsz in H; cbn [e_ver e_fmt64 e_asz] in H.
  all: try (injection H as <-; reflexivity).
  all: try match goal with
       | H : fits ?x ?s = Some _ |- _ =>
           let W := fresh in assert (W := write_udata_fits be x s); rewrite H in W;
           rewrite W; reflexivity
       end.
  all: try match goal with
       | H : (if valid_size ?s then _ else _) = Some _ |- _ =>
           destruct (valid_size s); [discriminate|injection H as <-; reflexivity]
       end.
Qed.

(* ------------------------------------------------------------------ totality of the value writers *)

Lemma uleb_size_fuel_le f : forall v, uleb_size_fuel f v <= N.of_nat f.
Proof.
  induction f as [|f IH]; intros v; cbn [uleb_size_fuel]; [lia|].
  destruct (N.shiftr v 7 =? 0); [lia|]. specialize (IH (N.shiftr v 7)). lia.
Qed.

Lemma uleb128_size_le v : uleb128_size v <= 10.
Proof. apply (uleb_size_fuel_le 10). Qed.

Lemma shiftr7_z z : Z.shiftr (Z.shiftr z 6) 1 = (z / 128)%Z.
Proof. rewrite !Z.shiftr_div_pow2 by lia. rewrite Z.div_div by lia. reflexivity. Qed.

Lemma write_sleb_fuel_total f : forall z, (0 < f)%nat ->
  (- 2 ^ (7 * Z.of_nat f - 1) <= z < 2 ^ (7 * Z.of_nat f - 1))%Z ->
  exists bs, write_sleb_fuel f z = Ok bs.
Proof.
  induction f as [|f IH]; intros z Hf Hz; [lia|]. cbn [write_sleb_fuel]. cbv zeta.
  destruct ((Z.shiftr z 6 =? 0)%Z || (Z.shiftr z 6 =? -1)%Z) eqn:D; [eauto|].
  rewrite shiftr7_z.
  destruct f as [|f'].
  - exfalso. change (7 * Z.of_nat 1 - 1)%Z with 6%Z in Hz.
    rewrite Z.shiftr_div_pow2 in D by lia. change (2 ^ 6)%Z with 64%Z in *.
    apply orb_false_iff in D. destruct D as [D1 D2]. apply Z.eqb_neq in D1. apply Z.eqb_neq in D2.
    assert (z / 64 = 0 \/ z / 64 = -1)%Z; [|tauto].
    assert (H0 := Z.div_mod z 64 ltac:(lia)). assert (H1 := Z.mod_pos_bound z 64 ltac:(lia)). lia.
  - destruct (IH (z / 128)%Z) as [bs Hbs]; [lia| |rewrite Hbs; cbn; eauto].
    replace (7 * Z.of_nat (S (S f')) - 1)%Z with (7 + (7 * Z.of_nat (S f') - 1))%Z in Hz by lia.
    rewrite Z.pow_add_r in Hz by lia. change (2 ^ 7)%Z with 128%Z in Hz.
    set (P := (2 ^ (7 * Z.of_nat (S f') - 1))%Z) in *.
    assert (0 < P)%Z by (apply Z.pow_pos_nonneg; lia).
    assert (H0 := Z.div_mod z 128 ltac:(lia)). assert (H1 := Z.mod_pos_bound z 128 ltac:(lia)). nia.
Qed.

Lemma write_sleb128_total z : (- 2 ^ 63 <= z < 2 ^ 63)%Z -> exists bs, write_sleb128 z = Ok bs.
Proof.
  intros H. apply write_sleb_fuel_total; [lia|]. change (7 * Z.of_nat 10 - 1)%Z with 69%Z.
  assert (2 ^ 63 <= 2 ^ 69)%Z by (apply Z.pow_le_mono_r; lia). lia.
Qed.

(* the value ranges the Rust types guarantee (u8/u16/u32/u64/u128/i64 payloads, Vec lengths below
   isize::MAX, a FileId below usize::MAX) plus: ids issued by the tables of this write exist *)
Definition av_typed (cx : wcx) (v : aval) : Prop :=
  match v with
  | AvBlock bs | AvString bs => UnitWr.blen bs < 2 ^ 63
  | AvUdata x | AvEncoding x | AvDecimalSign x | AvEndianity x | AvAccessibility x | AvVisibility x
  | AvVirtuality x | AvLanguage x | AvAddressClass x | AvIdentifierCase x | AvCallingConvention x
  | AvInline x | AvOrdering x => x < 2 ^ 64
  | AvSdata z | AvImplicitConst z => (- 2 ^ 63 <= z < 2 ^ 63)%Z
  | AvExprloc x => exists n bs, x_size x = Ok n /\ x_out x = Ok bs /\ n < 2 ^ 63
  | AvFileIndex (Some i) => i < 2 ^ 64 - 1
  | AvLocationListRef i => exists o, nth_error (wc_loc cx) i = Some o /\ fits o (wsz (wc_enc cx)) = None
  | AvRangeListRef i => exists o, nth_error (wc_rng cx) i = Some o /\ fits o (wsz (wc_enc cx)) = None
  | AvStringRef i => exists o, nth_error (wc_str cx) i = Some o /\ fits o (wsz (wc_enc cx)) = None
  | AvLineStringRef i => exists o, nth_error (wc_lstr cx) i = Some o /\ fits o (wsz (wc_enc cx)) = None
  | _ => True
  end.

Lemma write_udata_ok be v size : fits v size = None -> exists b, write_udata be v size = Ok b.
Proof. intros H. assert (W := write_udata_fits be v size). now rewrite H in W. Qed.

(* a well-typed value is written unless it is unencodable: Ok or the classified Err, nothing else *)
Theorem encodable_is_ok_lemma dbg cx v :
  av_typed cx v -> av_unencodable cx v = None -> exists ops, av_write dbg cx v = Ok ops.
Proof.
  destruct cx as [e be u uoff ents codes line lstr str rng loc lpv].
  destruct e as [ver fmt asz].
  unfold av_unencodable, av_typed. cbn [wc_enc wc_line wc_loc wc_rng wc_str wc_lstr wc_lpv].
  destruct v; intros T H; unfold av_write;
    cbn [wc_enc wc_be wc_line wc_loc wc_rng wc_str wc_lstr wc_lpv]; unfold_asserts; case_ver ver; destruct fmt; asserts.
  all: try (exfalso; lia).
  all: try match goal with a : address |- _ => destruct a end.
  all: try match goal with r : dref |- _ => destruct r end.
  all: try match goal with l : option N |- _ => destruct l end.
  all: try discriminate.
  all: unfold wsz in *; cbn [e_ver e_fmt64 e_asz] in *.
  all: try (eexists; reflexivity).
  all: try match goal with
       | H : fits ?x ?s = None |- context [write_udata ?be ?x ?s] =>
           destruct (write_udata_ok be x s H) as [b Eb]; rewrite Eb; cbn [bind]; eauto
       end.
  all: try match goal with
       | |- context [write_uleb128 ?x] =>
           let Hb := fresh in
           assert (Hb : x < 2 ^ 64) by (try assumption; try lia);
           destruct (write_uleb128_total x Hb) as [b Eb]; rewrite Eb; cbn [bind]; eauto
       end.
  all: try match goal with
       | |- context [write_sleb128 ?z] =>
           destruct (write_sleb128_total z T) as [b Eb]; rewrite Eb; cbn [bind]; eauto
       end.
  all: try match goal with
       | H : (if valid_size ?s then None else _) = None |- _ => destruct (valid_size s); [eauto|discriminate]
       end.
  all: try match goal with
       | T : exists o, nth_error ?l ?i = Some o /\ _ |- _ =>
           destruct T as [o [To Tf]]; unfold idx_get, unwrap; rewrite To; cbn [bind];
           destruct (write_udata_ok be o _ Tf) as [b Eb]; rewrite Eb; cbn [bind]; eauto
       end.
  all: try (destruct T as [n0 [bs [E1 [E2 E3]]]]; rewrite E1; cbn [bind];
            destruct (write_uleb128_total n0 ltac:(lia)) as [b Eb]; rewrite Eb; cbn [bind]; rewrite E2; cbn [bind]; eauto).
  all: unfold file_raw; destruct (lpv <=? 4);
       [rewrite chk_add_ok by lia|]; cbn [bind];
       match goal with |- context [write_uleb128 ?x] =>
         destruct (write_uleb128_total x ltac:(lia)) as [b Eb]; rewrite Eb; cbn [bind]; eauto end.
Qed.

(* AttributeValue::size never panics on well-typed values, in either build mode *)
Theorem av_size_no_panic_lemma dbg cx v : av_typed cx v -> av_size dbg (wc_enc cx) (wc_lpv cx) v <> Panic.
Proof.
  destruct cx as [e be u uoff ents codes line lstr str rng loc lpv].
  destruct e as [ver fmt asz].
  unfold av_typed. cbn [wc_enc wc_line wc_loc wc_rng wc_str wc_lstr wc_lpv].
  destruct v; intros T; unfold av_size; unfold_asserts; case_ver ver; destruct fmt; asserts.
  all: try (exfalso; lia).
  all: try discriminate.
  all: try (assert (U := uleb128_size_le (UnitWr.blen bs)); rewrite chk_add_ok by lia; discriminate).
  all: try (rewrite chk_add_ok by lia; discriminate).
  all: try (destruct T as [n0 [bs [E1 [E2 E3]]]]; rewrite E1; cbn [bind];
            assert (U := uleb128_size_le n0); rewrite chk_add_ok by lia; discriminate).
  all: destruct f as [i|]; unfold file_raw; [destruct (lpv <=? 4); [rewrite chk_add_ok by lia|]|]; discriminate.
Qed.

(* AttributeValue::write never panics on well-typed values: it returns bytes or an error *)
Theorem av_write_no_panic_lemma dbg cx v : av_typed cx v -> av_write dbg cx v <> Panic.
Proof.
  intros T. destruct (av_unencodable cx v) as [er|] eqn:U.
  - rewrite (unencodable_is_error_lemma dbg cx v er U). discriminate.
  - destruct (encodable_is_ok_lemma dbg cx v T U) as [ops ->]. discriminate.
Qed.

(* ------------------------------------------------------------------ references that cannot be resolved *)

Lemma patch_unit_refs_all_resolve dbg be unit unit_off entries w : forall refs sec sec',
  patch_unit_refs dbg be unit unit_off entries w refs sec = Ok sec' ->
  forall off id, In (off, id) refs -> exists v, unit_offset dbg unit unit_off entries id = Ok (Some v).
Proof.
  induction refs as [|[o i] r IH]; intros sec sec' H off id Hin; [destruct Hin|].
  cbn [patch_unit_refs] in H.
  apply bind_ok_inv in H. destruct H as [t [Et H]].
  apply bind_ok_inv in H. destruct H as [v [Ev H]].
  apply bind_ok_inv in H. destruct H as [sec1 [_ H]].
  destruct Hin as [Hin|Hin].
  - injection Hin as -> ->. destruct t as [v'|]; [eauto|discriminate].
  - eapply IH; eassumption.
Qed.

(* a unit-relative reference to an entry that is not in the tree that gets written (deleted child, reserved
   but never added, orphan) never yields output *)
Theorem dangling_ref_is_error_lemma dbg e lpv root st0 st be unit unit_off w refs sec off id :
  calc dbg e lpv root st0 = Ok st ->
  (forall j y, nth_error (cs_entries st0) j = Some y -> y = 0) ->
  In (off, id) refs -> ~ In (id_idx id) (die_ids root) ->
  forall sec', patch_unit_refs dbg be unit unit_off (cs_entries st) w refs sec <> Ok sec'.
Proof.
  intros HC HZ Hin Hnot sec' HP.
  destruct (patch_unit_refs_all_resolve _ _ _ _ _ _ _ _ _ HP _ _ Hin) as [v Ev].
  destruct (unit_offset_value _ _ _ _ _ _ Ev) as [x [X1 [X2 _]]].
  apply Hnot. eapply calc_nonzero_in_tree; eassumption.
Qed.

(* same for UnitTable::write_debug_info_fixups *)
Lemma table_fixups_all_resolve dbg be units : forall fx info info',
  table_fixups dbg be units fx info = Ok info' ->
  forall f, In f fx ->
  exists t o, nth_error units (fx_unit f) = Some t /\
              debug_info_offset dbg (fx_unit f) (tu_entries t) (fx_entry f) = Ok (Some o).
Proof.
  induction fx as [|g r IH]; intros info info' H f Hin; [destruct Hin|].
  cbn [table_fixups] in H.
  apply bind_ok_inv in H. destruct H as [t [Et H]].
  apply bind_ok_inv in H. destruct H as [o [Eo H]].
  apply bind_ok_inv in H. destruct H as [v [Ev H]].
  apply bind_ok_inv in H. destruct H as [i1 [_ H]].
  destruct Hin as [<-|Hin].
  - unfold unwrap in Et. destruct (nth_error units (fx_unit g)) as [t'|]; [|discriminate]. injection Et as ->.
    destruct o as [o'|]; [|discriminate]. eauto.
  - eapply IH; eassumption.
Qed.

(* ------------------------------------------------------------------ decoding what was written *)

Lemma take_n_app (h rest : list byte) : take_n (length h) (h ++ rest) = Some (h, rest).
Proof. induction h as [|b r IH]; cbn [length take_n app]; [reflexivity|now rewrite IH]. Qed.

Lemma le_num_le_bytes n : forall v, le_num (le_bytes n v) = v mod 256 ^ N.of_nat n.
Proof.
  induction n as [|n IH]; intros v; cbn [le_bytes le_num].
  - change (256 ^ N.of_nat 0) with 1. now rewrite N.mod_1_r.
  - rewrite IH, b2n_n2b. replace (N.of_nat (S n)) with (1 + N.of_nat n) by lia.
    rewrite N.pow_add_r. change (256 ^ 1) with 256.
    rewrite N.mod_mul_r by (try discriminate; apply N.pow_nonzero; discriminate). reflexivity.
Qed.

Lemma fixed_num_enc_un n be v : fixed_num be (enc_un n be v) = v mod 256 ^ N.of_nat n.
Proof.
  unfold fixed_num, enc_un, be_bytes. destruct be; [rewrite rev_involutive|]; apply le_num_le_bytes.
Qed.

Lemma dec_fixed_enc_un n be v rest :
  dec_fixed (N.of_nat n) be (enc_un n be v ++ rest) = Some (RU (v mod 256 ^ N.of_nat n), rest).
Proof.
  unfold dec_fixed. rewrite Nat2N.id. rewrite <- (enc_un_len n be v) at 1.
  rewrite take_n_app. now rewrite fixed_num_enc_un.
Qed.

Lemma write_udata_dec be v size b rest :
  write_udata be v size = Ok b -> dec_fixed size be (b ++ rest) = Some (RU (v mod 2 ^ 64), rest).
Proof.
  unfold write_udata. intros H.
  destruct (size =? 1) eqn:E1.
  { apply N.eqb_eq in E1. subst. destruct (v <? 256) eqn:L; [|discriminate]. injection H as <-.
    apply N.ltb_lt in L. change 1 with (N.of_nat 1). rewrite dec_fixed_enc_un.
    rewrite !N.mod_small; [reflexivity| |exact L]. eapply N.lt_trans; [exact L|reflexivity]. }
  destruct (size =? 2) eqn:E2.
  { apply N.eqb_eq in E2. subst. destruct (v <? two16) eqn:L; [|discriminate]. injection H as <-.
    apply N.ltb_lt in L. change 2 with (N.of_nat 2). rewrite dec_fixed_enc_un.
    rewrite !N.mod_small; [reflexivity| |exact L]. eapply N.lt_trans; [exact L|reflexivity]. }
  destruct (size =? 4) eqn:E4.
  { apply N.eqb_eq in E4. subst. destruct (v <? two32) eqn:L; [|discriminate]. injection H as <-.
    apply N.ltb_lt in L. change 4 with (N.of_nat 4). rewrite dec_fixed_enc_un.
    rewrite !N.mod_small; [reflexivity| |exact L]. eapply N.lt_trans; [exact L|reflexivity]. }
  destruct (size =? 8) eqn:E8; [|discriminate].
  apply N.eqb_eq in E8. subst. injection H as <-.
  change 8 with (N.of_nat 8). now rewrite dec_fixed_enc_un.
Qed.

Lemma dec_cstr_app : forall bs rest, has_nul bs = false -> dec_cstr (bs ++ x00 :: rest) = Some (bs, rest).
Proof.
  induction bs as [|b r IH]; intros rest H; cbn [app dec_cstr].
  - reflexivity.
  - unfold has_nul in H. cbn [existsb] in H. apply orb_false_iff in H. destruct H as [H1 H2].
    rewrite H1. fold (has_nul r) in H2. now rewrite (IH _ H2).
Qed.

(* signed LEB128 *)
Lemma byte_hi_facts y : y < 256 ->
  cont_bit (n2b (N.lor y 128)) = true /\ N.land (b2n (n2b (N.lor y 128))) 127 = y mod 128.
Proof.
  intros H.
  assert (S := sweep_lt 256 (fun y =>
    cont_bit (n2b (N.lor y 128)) && (N.land (b2n (n2b (N.lor y 128))) 127 =? y mod 128))).
  specialize (S ltac:(vm_compute; reflexivity) y H). cbv beta in S.
  apply andb_true_iff in S. destruct S as [A B]. apply N.eqb_eq in B. auto.
Qed.

Lemma land127_mod y : N.land y 127 = y mod 128.
Proof. change 127 with (N.ones 7). now rewrite N.land_ones. Qed.

Lemma z_mod256_low z : (Z.to_N (z mod 256)) mod 128 = Z.to_N (z mod 128).
Proof.
  assert (H1 := Z.mod_pos_bound z 256 ltac:(lia)). assert (H2 := Z.mod_pos_bound z 128 ltac:(lia)).
  apply N2Z.inj. rewrite N2Z.inj_mod. rewrite !Z2N.id by lia. change (Z.of_N 128) with 128%Z.
  clear H1 H2. Z.div_mod_to_equations. lia.
Qed.

Lemma write_sleb_fuel_dec f : forall z bs rest,
  write_sleb_fuel f z = Ok bs ->
  split_leb (bs ++ rest) = Some (bs, rest) /\
  Z.of_N (uval bs) = (z mod 2 ^ (7 * Z.of_nat (length bs)))%Z /\
  (- 2 ^ (7 * Z.of_nat (length bs) - 1) <= z < 2 ^ (7 * Z.of_nat (length bs) - 1))%Z /\
  (0 < length bs)%nat.
Proof.
  induction f as [|f IH]; intros z bs rest H; cbn [write_sleb_fuel] in H; [discriminate|]. cbv zeta in H.
  assert (Hb : Z.to_N (z mod 256) < 256).
  { assert (H1 := Z.mod_pos_bound z 256 ltac:(lia)). lia. }
  assert (Hx : Z.to_N (z mod 128) < 128).
  { assert (H1 := Z.mod_pos_bound z 128 ltac:(lia)). lia. }
  assert (M128 := Z.mod_pos_bound z 128 ltac:(lia)).
  destruct ((Z.shiftr z 6 =? 0)%Z || (Z.shiftr z 6 =? -1)%Z) eqn:D.
  - injection H as <-. rewrite land127_mod, z_mod256_low.
    destruct (byte_low_facts _ Hx) as [A [B _]].
    cbn [app split_leb uval length]. rewrite A, B. split; [reflexivity|].
    change (7 * Z.of_nat 1)%Z with 7%Z. change (2 ^ 7)%Z with 128%Z. change (2 ^ (7 - 1))%Z with 64%Z.
    rewrite Z.shiftr_div_pow2 in D by lia. change (2 ^ 6)%Z with 64%Z in D.
    split; [lia|]. split; [|lia].
    apply orb_true_iff in D. assert (H0 := Z.div_mod z 64 ltac:(lia)). assert (H1 := Z.mod_pos_bound z 64 ltac:(lia)).
    destruct D as [D|D]; apply Z.eqb_eq in D; lia.
  - apply bind_ok_inv in H. destruct H as [r [Er H]]. injection H as <-.
    rewrite shiftr7_z in Er. destruct (IH _ _ rest Er) as [Sp [U [R Lr]]].
    destruct (byte_hi_facts _ Hb) as [C L]. unfold CONT.
    cbn [app split_leb uval length]. rewrite C, Sp, L, z_mod256_low. split; [reflexivity|].
    replace (7 * Z.of_nat (S (length r)))%Z with (7 + 7 * Z.of_nat (length r))%Z by lia.
    rewrite Z.pow_add_r by lia. change (2 ^ 7)%Z with 128%Z.
    set (M := (2 ^ (7 * Z.of_nat (length r)))%Z) in *.
    assert (HM : (0 < M)%Z) by (apply Z.pow_pos_nonneg; lia).
    split.
    + rewrite N2Z.inj_add, N2Z.inj_mul, U, Z2N.id by lia. change (Z.of_N 128) with 128%Z.
      rewrite Z.rem_mul_r by lia. reflexivity.
    + split; [|lia].
      replace (7 + 7 * Z.of_nat (length r) - 1)%Z with (7 + (7 * Z.of_nat (length r) - 1))%Z by lia.
      rewrite Z.pow_add_r by lia. change (2 ^ 7)%Z with 128%Z.
      set (P := (2 ^ (7 * Z.of_nat (length r) - 1))%Z) in *.
      assert (H0 := Z.div_mod z 128 ltac:(lia)). lia.
Qed.

Lemma write_sleb128_dec z bs rest :
  write_sleb128 z = Ok bs -> dec_sleb (bs ++ rest) = Some (z, rest).
Proof.
  intros H. destruct (write_sleb_fuel_dec _ _ _ rest H) as [Sp [U [R Lr]]].
  unfold dec_sleb. rewrite Sp. f_equal. f_equal. unfold sval.
  set (k := length bs) in *.
  assert (E7 : 7 * N.of_nat k - 1 = Z.to_N (7 * Z.of_nat k - 1)) by lia.
  assert (P1 : Z.of_N (2 ^ (7 * N.of_nat k - 1)) = (2 ^ (7 * Z.of_nat k - 1))%Z).
  { rewrite N2Z.inj_pow. f_equal. lia. }
  assert (P2 : Z.of_N (2 ^ (7 * N.of_nat k)) = (2 ^ (7 * Z.of_nat k))%Z).
  { rewrite N2Z.inj_pow. f_equal. lia. }
  assert (HP : (2 ^ (7 * Z.of_nat k) = 2 * 2 ^ (7 * Z.of_nat k - 1))%Z).
  { replace (7 * Z.of_nat k)%Z with (1 + (7 * Z.of_nat k - 1))%Z at 1 by lia. rewrite Z.pow_add_r by lia. reflexivity. }
  set (Q := (2 ^ (7 * Z.of_nat k - 1))%Z) in *.
  assert (HQ : (0 < Q)%Z) by (apply Z.pow_pos_nonneg; lia).
  rewrite HP in U.
  assert (Hm : (z mod (2 * Q) = if 0 <=? z then z else z + 2 * Q)%Z).
  { destruct (0 <=? z)%Z eqn:Sg.
    - apply Z.mod_small. lia.
    - rewrite <- (Z.mod_add z 1 (2 * Q)) by lia. rewrite Z.mul_1_l. apply Z.mod_small. lia. }
  rewrite Hm in U.
  destruct (uval bs <? 2 ^ (7 * N.of_nat k - 1)) eqn:Lt.
  - apply N.ltb_lt in Lt. assert (Lt' : (Z.of_N (uval bs) < Q)%Z) by (rewrite <- P1; lia).
    destruct (0 <=? z)%Z eqn:Sg; lia.
  - apply N.ltb_ge in Lt. assert (Lt' : (Q <= Z.of_N (uval bs))%Z) by (rewrite <- P1; lia).
    rewrite P2, HP. destruct (0 <=? z)%Z eqn:Sg; lia.
Qed.


(* the raw value an attribute carries once written (placeholders: 0, patched later) *)
Definition av_raw (cx : wcx) (v : aval) : rval :=
  let e := wc_enc cx in
  let off (l : list N) (i : nat) := match nth_error l i with Some o => RU (o mod 2 ^ 64) | None => RNone end in
  match v with
  | AvAddress (AConst x) => RU (x mod 2 ^ 64)
  | AvAddress (ASym _ _) => RNone
  | AvBlock bs => RB bs
  | AvData1 x => RU (x mod 256 ^ 1) | AvData2 x => RU (x mod 256 ^ 2) | AvData4 x => RU (x mod 256 ^ 4)
  | AvData8 x => RU (x mod 256 ^ 8) | AvData16 x => RU (x mod 256 ^ 16)
  | AvSdata z | AvImplicitConst z => RS z
  | AvUdata x => RU x
  | AvExprloc x => match x_out x with Ok b => RB b | _ => RNone end
  | AvFlag b => RU (if b then 1 else 0)
  | AvFlagPresent => if 4 <=? e_ver e then RNone else RU 1
  | AvUnitRef _ | AvDebugInfoRef _ => RU 0
  | AvDebugInfoRefSup x | AvDebugMacinfoRef x | AvDebugMacroRef x | AvDebugStrRefSup x => RU (x mod 2 ^ 64)
  | AvLineProgramRef => match wc_line cx with Some o => RU (o mod 2 ^ 64) | None => RNone end
  | AvLocationListRef i => off (wc_loc cx) i
  | AvRangeListRef i => off (wc_rng cx) i
  | AvStringRef i => off (wc_str cx) i
  | AvLineStringRef i => off (wc_lstr cx) i
  | AvDebugTypesRef x => RU (x mod 256 ^ 8)
  | AvString bs => RB bs
  | AvEncoding x | AvDecimalSign x | AvEndianity x | AvAccessibility x | AvVisibility x | AvVirtuality x
  | AvLanguage x | AvAddressClass x | AvIdentifierCase x | AvCallingConvention x | AvInline x | AvOrdering x => RU x
  | AvFileIndex None => RU 0
  | AvFileIndex (Some i) => RU (if wc_lpv cx <=? 4 then wrapN 64 (i + 1) else i)
  end.

(* documented precondition of AttributeValue::String ("must not include null bytes"); expressions: the
   length prefix is the number of bytes written *)
Definition av_decodable (v : aval) : Prop :=
  match v with
  | AvString bs => has_nul bs = false
  | AvExprloc x => forall bs, x_out x = Ok bs -> x_size x = Ok (UnitWr.blen bs)
  | _ => True
  end.

Lemma dec_zero_word sz be rest : valid_size sz = true ->
  dec_fixed sz be (zeros sz ++ rest) = Some (RU 0, rest).
Proof.
  intros V. unfold valid_size in V.
  assert (C : sz = 1 \/ sz = 2 \/ sz = 4 \/ sz = 8).
  { repeat rewrite orb_true_iff in V. repeat rewrite N.eqb_eq in V. tauto. }
  destruct C as [-> | [-> | [-> | ->]]]; destruct be; reflexivity.
Qed.

Lemma file_raw_val dbg lpv i r :
  file_raw dbg lpv (Some i) = Ok r -> r = (if lpv <=? 4 then wrapN 64 (i + 1) else i).
Proof.
  unfold file_raw. destruct (lpv <=? 4); [|now intros H; injection H].
  unfold chk_add, wrapN. destruct (i + 1 <? 2 ^ 64) eqn:L.
  - intros H. injection H as <-. apply N.ltb_lt in L. now rewrite N.mod_small.
  - destruct dbg; [discriminate|]. now intros H; injection H.
Qed.

Lemma take_n_blen (h rest : list byte) : take_n (N.to_nat (UnitWr.blen h)) (h ++ rest) = Some (h, rest).
Proof. unfold UnitWr.blen. rewrite Nat2N.id. apply take_n_app. Qed.

(* form_decode on each form the writer uses *)
Lemma fd_addr e be ic bs : form_decode e be DW_FORM_addr ic bs = dec_fixed (e_asz e) be bs. Proof. reflexivity. Qed.
Lemma fd_block e be ic bs : form_decode e be DW_FORM_block ic bs =
  match dec_uleb bs with Some (len, r) => match take_n (N.to_nat len) r with Some (h, t) => Some (RB h, t) | None => None end | None => None end.
Proof. reflexivity. Qed.
Lemma fd_exprloc e be ic bs : form_decode e be DW_FORM_exprloc ic bs =
  match dec_uleb bs with Some (len, r) => match take_n (N.to_nat len) r with Some (h, t) => Some (RB h, t) | None => None end | None => None end.
Proof. reflexivity. Qed.
Lemma fd_data1 e be ic bs : form_decode e be DW_FORM_data1 ic bs = dec_fixed 1 be bs. Proof. reflexivity. Qed.
Lemma fd_flag e be ic bs : form_decode e be DW_FORM_flag ic bs = dec_fixed 1 be bs. Proof. reflexivity. Qed.
Lemma fd_data2 e be ic bs : form_decode e be DW_FORM_data2 ic bs = dec_fixed 2 be bs. Proof. reflexivity. Qed.
Lemma fd_data4 e be ic bs : form_decode e be DW_FORM_data4 ic bs = dec_fixed 4 be bs. Proof. reflexivity. Qed.
Lemma fd_ref4 e be ic bs : form_decode e be DW_FORM_ref4 ic bs = dec_fixed 4 be bs. Proof. reflexivity. Qed.
Lemma fd_ref_sup4 e be ic bs : form_decode e be DW_FORM_ref_sup4 ic bs = dec_fixed 4 be bs. Proof. reflexivity. Qed.
Lemma fd_data8 e be ic bs : form_decode e be DW_FORM_data8 ic bs = dec_fixed 8 be bs. Proof. reflexivity. Qed.
Lemma fd_ref8 e be ic bs : form_decode e be DW_FORM_ref8 ic bs = dec_fixed 8 be bs. Proof. reflexivity. Qed.
Lemma fd_ref_sup8 e be ic bs : form_decode e be DW_FORM_ref_sup8 ic bs = dec_fixed 8 be bs. Proof. reflexivity. Qed.
Lemma fd_ref_sig8 e be ic bs : form_decode e be DW_FORM_ref_sig8 ic bs = dec_fixed 8 be bs. Proof. reflexivity. Qed.
Lemma fd_data16 e be ic bs : form_decode e be DW_FORM_data16 ic bs = dec_fixed 16 be bs. Proof. reflexivity. Qed.
Lemma fd_sdata e be ic bs : form_decode e be DW_FORM_sdata ic bs =
  match dec_sleb bs with Some (z, r) => Some (RS z, r) | None => None end. Proof. reflexivity. Qed.
Lemma fd_udata e be ic bs : form_decode e be DW_FORM_udata ic bs =
  match dec_uleb bs with Some (n, r) => Some (RU n, r) | None => None end. Proof. reflexivity. Qed.
Lemma fd_flag_present e be ic bs : form_decode e be DW_FORM_flag_present ic bs = Some (RNone, bs). Proof. reflexivity. Qed.
Lemma fd_implicit_const e be ic bs : form_decode e be DW_FORM_implicit_const ic bs = Some (RS ic, bs). Proof. reflexivity. Qed.
Lemma fd_string e be ic bs : form_decode e be DW_FORM_string ic bs =
  match dec_cstr bs with Some (s, r) => Some (RB s, r) | None => None end. Proof. reflexivity. Qed.
Lemma fd_strp e be ic bs : form_decode e be DW_FORM_strp ic bs = dec_fixed (wsz e) be bs. Proof. reflexivity. Qed.
Lemma fd_line_strp e be ic bs : form_decode e be DW_FORM_line_strp ic bs = dec_fixed (wsz e) be bs. Proof. reflexivity. Qed.
Lemma fd_strp_sup e be ic bs : form_decode e be DW_FORM_strp_sup ic bs = dec_fixed (wsz e) be bs. Proof. reflexivity. Qed.
Lemma fd_sec_offset e be ic bs : form_decode e be DW_FORM_sec_offset ic bs = dec_fixed (wsz e) be bs. Proof. reflexivity. Qed.
Lemma fd_ref_addr e be ic bs : form_decode e be DW_FORM_ref_addr ic bs =
  dec_fixed (if e_ver e =? 2 then e_asz e else wsz e) be bs. Proof. reflexivity. Qed.

Ltac rewrite_fd :=
  first [ rewrite fd_addr | rewrite fd_block | rewrite fd_exprloc | rewrite fd_data1 | rewrite fd_flag
        | rewrite fd_data2 | rewrite fd_data4 | rewrite fd_ref4 | rewrite fd_ref_sup4 | rewrite fd_data8
        | rewrite fd_ref8 | rewrite fd_ref_sup8 | rewrite fd_ref_sig8 | rewrite fd_data16 | rewrite fd_sdata
        | rewrite fd_udata | rewrite fd_flag_present | rewrite fd_implicit_const | rewrite fd_string
        | rewrite fd_strp | rewrite fd_line_strp | rewrite fd_strp_sup | rewrite fd_sec_offset | rewrite fd_ref_addr ].

Theorem av_write_decodes dbg cx v ops rest :
  av_write dbg cx v = Ok ops -> av_decodable v ->
  form_decode (wc_enc cx) (wc_be cx) (fst (av_form (wc_enc cx) v))
              (match snd (av_form (wc_enc cx) v) with Some z => z | None => 0%Z end)
              (ops_bytes ops ++ rest) = Some (av_raw cx v, rest).
Proof.
  destruct cx as [e be u uoff ents codes line lstr str rng loc lpv].
  destruct e as [ver fmt asz].
  intros H X.
  destruct v; unfold av_write in H; cbn [wc_enc wc_be wc_line wc_loc wc_rng wc_str wc_lstr wc_lpv] in *;
    unfold av_raw; cbn [wc_enc wc_be wc_line wc_loc wc_rng wc_str wc_lstr wc_lpv];
    revert H; unfold_asserts; case_ver ver; destruct fmt; asserts; intros H.
  all: try (exfalso; lia).
  all: cbn [snd].
  all: try match goal with H : match ?a with AConst _ => _ | ASym _ _ => _ end = _ |- _ => destruct a; [|discriminate] end.
  all: try match goal with H : match ?l with Some _ => _ | None => _ end = Ok _ |- _ => destruct l; [|discriminate] end.
  all: try match goal with H : match ?r with DSym _ => _ | DEntry _ _ => _ end = _ |- _ => destruct r; [discriminate|] end.
  all: try match goal with H : (if valid_size ?s then _ else _) = _ |- _ => destruct (valid_size s) eqn:?; [|discriminate] end.
  all: binds.
  all: try match goal with H : Ok _ = Ok _ |- _ => injection H as <- end.
  all: unfold ops_bytes; cbn [flat_map op_bytes]; rewrite ?app_nil_r; rewrite <- ?app_assoc.
  all: rewrite_fd; cbn [e_ver e_fmt64 e_asz]; unfold wsz; cbn [e_fmt64].
  all: try reflexivity.
  all: try match goal with E : write_udata _ _ _ = Ok ?a |- dec_fixed _ _ (?a ++ ?r) = _ =>
         rewrite (write_udata_dec _ _ _ _ r E); reflexivity end.
  all: try (exact (dec_fixed_enc_un 1 be v rest)).
  all: try (exact (dec_fixed_enc_un 2 be v rest)).
  all: try (exact (dec_fixed_enc_un 4 be v rest)).
  all: try (exact (dec_fixed_enc_un 8 be v rest)).
  all: try (exact (dec_fixed_enc_un 16 be v rest)).
  all: try match goal with E : write_sleb128 _ = Ok ?a |- context [dec_sleb (?a ++ ?r)] =>
         rewrite (write_sleb128_dec _ _ r E); reflexivity end.
  all: try match goal with E : write_uleb128 _ = Ok ?a |- context [dec_uleb (?a ++ ?r)] =>
         rewrite (write_uleb128_dec _ _ r E); try reflexivity end.
  all: try (destruct b; destruct be; reflexivity).
  all: try (apply dec_zero_word; reflexivity).
  all: try (apply dec_zero_word; assumption).
  all: try (rewrite take_n_blen; reflexivity).
  all: try (destruct be; reflexivity).
  all: try match goal with
       | E : idx_get ?l ?i = Ok ?o, E0 : write_udata _ ?o _ = Ok ?b |- dec_fixed _ _ (?b ++ ?r) = _ =>
           unfold idx_get, unwrap in E; destruct (nth_error l i); [|discriminate]; injection E as ->;
           rewrite (write_udata_dec _ _ _ _ r E0); reflexivity
       end.
  all: try match goal with
       | E1 : x_out ?x = Ok ?b, E2 : x_size ?x = Ok ?n |- _ =>
           cbn [av_decodable] in X; rewrite (X _ E1) in E2; injection E2 as <-; rewrite E1;
           rewrite take_n_blen; reflexivity
       end.
  all: try (cbn [app]; rewrite dec_cstr_app by exact X; reflexivity).
  all: destruct f as [i|]; [apply file_raw_val in E; now subst a|cbn in E; now injection E as <-].
Qed.

(* ------------------------------------------------------------------ no panic in the two passes *)

Lemma sleb_size_fuel_le f : forall z, sleb_size_fuel f z <= N.of_nat f.
Proof.
  induction f as [|f IH]; intros z; cbn [sleb_size_fuel]; [lia|]. cbv zeta.
  destruct ((Z.shiftr z 6 =? 0)%Z || (Z.shiftr z 6 =? -1)%Z); [lia|].
  specialize (IH (Z.shiftr (Z.shiftr z 6) 1)). lia.
Qed.
Lemma sleb128_size_le z : sleb128_size z <= 10.
Proof. apply (sleb_size_fuel_le 10). Qed.

(* an upper bound of AttributeValue::size that does not depend on the build mode *)
Definition asize_ub (e : encoding) (v : aval) : N :=
  match v with
  | AvAddress _ => e_asz e
  | AvBlock bs => 10 + UnitWr.blen bs
  | AvString bs => UnitWr.blen bs + 1
  | AvExprloc x => match x_size x with Ok n => 10 + n | _ => 0 end
  | AvData16 _ => 16
  | AvDebugInfoRef _ => N.max (e_asz e) 8
  | _ => 10
  end.

Lemma av_size_le dbg e lpv v s : av_size dbg e lpv v = Ok s -> s <= asize_ub e v.
Proof.
  destruct e as [ver fmt asz]. intros H.
  destruct v; unfold av_size in H; revert H; unfold_asserts; case_ver ver; destruct fmt; asserts; intros H.
  all: try (exfalso; lia).
  all: unfold asize_ub; cbn [e_asz].
  all: try (injection H as <-; lia).
  all: try (injection H as <-; first [apply uleb128_size_le | apply sleb128_size_le]).
  all: try (destruct (ver =? 2); injection H as <-; lia).
  all: try (unfold chk_add in H; assert (U := uleb128_size_le (UnitWr.blen bs));
            destruct (_ <? 2 ^ 64) eqn:L in H; [injection H as <-; lia|destruct dbg; [discriminate|injection H as <-];
            unfold wrapN; etransitivity; [apply N.mod_le; discriminate|lia]]).
  all: try (binds; match goal with E : x_size ?x = Ok ?n |- _ => rewrite E end;
            match goal with n : N |- _ => assert (U := uleb128_size_le n) end;
            unfold chk_add in H; destruct (_ <? 2 ^ 64) eqn:L in H;
            [injection H as <-; lia|destruct dbg; [discriminate|injection H as <-];
             unfold wrapN; etransitivity; [apply N.mod_le; discriminate|lia]]).
  all: try (binds; injection H as <-; apply uleb128_size_le).
Qed.

Fixpoint attrs_ub (e : encoding) (attrs : list (N * aval)) : N :=
  match attrs with [] => 0 | (_, v) :: r => asize_ub e v + attrs_ub e r end.

Fixpoint dsize_ub (e : encoding) (d : die) : N :=
  match d with
  | Die _ _ _ attrs ch =>
      19 + attrs_ub e attrs + (fix go (l : list die) : N := match l with [] => 0 | c :: r => dsize_ub e c + go r end) ch
  end.
Section dsizes.
  Variable e : encoding.
  Fixpoint dsizes_ub (l : list die) : N :=
    match l with [] => 0 | c :: r => dsize_ub e c + dsizes_ub r end.
End dsizes.
Lemma dsize_ub_unfold e id tag sib attrs ch :
  dsize_ub e (Die id tag sib attrs ch) = 19 + attrs_ub e attrs + dsizes_ub e ch.
Proof. reflexivity. Qed.

Fixpoint die_typed (cx : wcx) (d : die) : Prop :=
  match d with
  | Die _ _ _ attrs ch =>
      Forall (fun p => av_typed cx (snd p)) attrs /\
      (fix go (l : list die) : Prop := match l with [] => True | c :: r => die_typed cx c /\ go r end) ch
  end.
Section dtyped.
  Variable cx : wcx.
  Fixpoint dies_typed (l : list die) : Prop :=
    match l with [] => True | c :: r => die_typed cx c /\ dies_typed r end.
End dtyped.
Lemma die_typed_unfold cx id tag sib attrs ch :
  die_typed cx (Die id tag sib attrs ch) = (Forall (fun p => av_typed cx (snd p)) attrs /\ dies_typed cx ch).
Proof. reflexivity. Qed.

Lemma attrs_size_no_panic dbg cx : forall attrs acc,
  Forall (fun p => av_typed cx (snd p)) attrs -> acc + attrs_ub (wc_enc cx) attrs < 2 ^ 64 ->
  attrs_size dbg (wc_enc cx) (wc_lpv cx) acc attrs <> Panic /\
  (forall r, attrs_size dbg (wc_enc cx) (wc_lpv cx) acc attrs = Ok r -> r <= acc + attrs_ub (wc_enc cx) attrs).
Proof.
  induction attrs as [|[n v] r IH]; intros acc T B; cbn [attrs_size attrs_ub] in *.
  - split; [discriminate|]. intros ? H. injection H as <-. lia.
  - inversion T as [|? ? T1 T2]; subst. cbn [snd] in T1.
    assert (NP := av_size_no_panic_lemma dbg cx v T1).
    destruct (av_size dbg (wc_enc cx) (wc_lpv cx) v) as [s| | |] eqn:Es; try (split; [discriminate|intros; discriminate]); [|contradiction].
    cbn [bind]. assert (Ls := av_size_le _ _ _ _ _ Es).
    rewrite chk_add_ok by lia. cbn [bind].
    destruct (IH (acc + s) T2) as [I1 I2]; [lia|]. split; [exact I1|].
    intros r0 H. specialize (I2 _ H). lia.
Qed.

Lemma aspec_new_form dbg e name v :
  let (form, ic) := av_form e v in exists s, aspec_new dbg name form ic = Ok s.
Proof.
  destruct e as [ver fmt asz].
  destruct v; cbn [av_form]; unfold word_form; cbn [e_ver e_fmt64]; case_ver ver; try destruct fmt;
    unfold aspec_new; cbn [Bool.eqb]; rewrite ?dassert_true; cbn [bind]; eauto.
Qed.

Lemma attr_specs_no_panic dbg e : forall attrs, attr_specs dbg e attrs <> Panic.
Proof.
  induction attrs as [|[n v] r IH]; cbn [attr_specs]; [discriminate|].
  assert (A := aspec_new_form dbg e n v). destruct (av_form e v) as [form ic]. destruct A as [s ->]. cbn [bind].
  destruct (attr_specs dbg e r); try discriminate. contradiction.
Qed.

Lemma die_abbrev_no_panic dbg e d : die_abbrev dbg e d <> Panic.
Proof.
  destruct d as [id tag sib attrs ch]. unfold die_abbrev.
  assert (S : exists l, (if sib && has_kids ch
                         then let* s := aspec_new dbg DW_AT_sibling (word_form e DW_FORM_ref4 DW_FORM_ref8) None in Ok [s]
                         else Ok []) = Ok l).
  { destruct (sib && has_kids ch); [|eauto]. unfold aspec_new, word_form.
    destruct (e_fmt64 e); cbn [Bool.eqb]; rewrite dassert_true; cbn [bind]; eauto. }
  destruct S as [l ->]. cbn [bind].
  assert (A := attr_specs_no_panic dbg e attrs).
  destruct (attr_specs dbg e attrs); try discriminate. contradiction.
Qed.

Definition ids_in_range (ids : list nat) (st : cst) : Prop :=
  forall i, In i ids -> (i < length (cs_entries st))%nat /\ (i < length (cs_codes st))%nat.

Definition calc_np (dbg : bool) (cx : wcx) (d : die) : Prop :=
  forall st, die_typed cx d -> ids_in_range (die_ids d) st ->
    cs_off st + dsize_ub (wc_enc cx) d < 2 ^ 64 ->
    calc dbg (wc_enc cx) (wc_lpv cx) d st <> Panic /\
    (forall st', calc dbg (wc_enc cx) (wc_lpv cx) d st = Ok st' -> cs_off st' <= cs_off st + dsize_ub (wc_enc cx) d).

Lemma calc_list_np dbg cx ch :
  Forall (calc_np dbg cx) ch ->
  forall st, dies_typed cx ch -> ids_in_range (dies_ids ch) st ->
    cs_off st + dsizes_ub (wc_enc cx) ch < 2 ^ 64 ->
    calc_list dbg (wc_enc cx) (wc_lpv cx) ch st <> Panic /\
    (forall st', calc_list dbg (wc_enc cx) (wc_lpv cx) ch st = Ok st' -> cs_off st' <= cs_off st + dsizes_ub (wc_enc cx) ch).
Proof.
  induction 1 as [|c r Hc Hr IH]; intros st T R B; cbn [calc_list dsizes_ub dies_typed] in *.
  - split; [discriminate|]. intros ? H. injection H as <-. lia.
  - destruct T as [T1 T2]. unfold dies_ids in R. cbn [flat_map] in R.
    destruct (Hc st T1) as [N1 N2]; [intros i Hi; apply R; apply in_or_app; now left|lia|].
    destruct (calc dbg (wc_enc cx) (wc_lpv cx) c st) as [sA| | |] eqn:EA; try (split; [discriminate|intros; discriminate]); [|contradiction].
    cbn [bind]. specialize (N2 _ eq_refl).
    destruct (calc_frame _ _ _ _ _ _ EA) as [L1 [L2 _]].
    destruct (IH sA T2) as [I1 I2].
    + intros i Hi. destruct (R i) as [R1 R2]; [apply in_or_app; now right|]. rewrite L1, L2. now split.
    + lia.
    + split; [exact I1|]. intros st' H. specialize (I2 _ H). lia.
Qed.

Theorem calc_no_panic_lemma dbg cx : forall d, calc_np dbg cx d.
Proof.
  induction d as [id tag sib attrs ch IH] using die_ind2.
  intros st T R B. rewrite die_typed_unfold in T. destruct T as [Ta Tc].
  rewrite dsize_ub_unfold in *. rewrite calc_unfold.
  destruct (R id (or_introl eq_refl)) as [R1 R2].
  destruct (set_nth_total id (cs_off st) _ R1) as [ents Eents]. rewrite Eents. cbn [bind].
  assert (NA := die_abbrev_no_panic dbg (wc_enc cx) (Die id tag sib attrs ch)).
  destruct (die_abbrev dbg (wc_enc cx) (Die id tag sib attrs ch)) as [ab| | |] eqn:Eab;
    try (split; [discriminate|intros; discriminate]); [|contradiction].
  cbn [bind]. destruct (abbrev_add (cs_abbrevs st) ab) as [code tab].
  destruct (set_nth_total id code _ R2) as [codes Ecodes]. rewrite Ecodes. cbn [bind].
  (* size of this entry *)
  assert (Hsz : die_size dbg (wc_enc cx) (wc_lpv cx) (Die id tag sib attrs ch) code <> Panic /\
                forall sz, die_size dbg (wc_enc cx) (wc_lpv cx) (Die id tag sib attrs ch) code = Ok sz ->
                           sz <= 18 + attrs_ub (wc_enc cx) attrs).
  { unfold die_size. assert (U := uleb128_size_le code).
    assert (W : wsz (wc_enc cx) <= 8) by (unfold wsz; destruct (e_fmt64 (wc_enc cx)); lia).
    destruct (sib && has_kids ch).
    - rewrite chk_add_ok by lia. cbn [bind].
      destruct (attrs_size_no_panic dbg cx attrs (uleb128_size code + wsz (wc_enc cx)) Ta) as [A1 A2]; [lia|].
      split; [exact A1|]. intros sz H. specialize (A2 _ H). lia.
    - cbn [bind]. destruct (attrs_size_no_panic dbg cx attrs (uleb128_size code) Ta) as [A1 A2]; [lia|].
      split; [exact A1|]. intros sz H. specialize (A2 _ H). lia. }
  destruct Hsz as [Hs1 Hs2].
  destruct (die_size dbg (wc_enc cx) (wc_lpv cx) (Die id tag sib attrs ch) code) as [sz| | |] eqn:Esz;
    try (split; [discriminate|intros; discriminate]); [|contradiction].
  cbn [bind]. specialize (Hs2 _ eq_refl).
  rewrite chk_add_ok by lia. cbn [bind]. cbv zeta.
  destruct (set_nth_spec _ _ _ _ Eents) as [_ [_ S3]].
  destruct (set_nth_spec _ _ _ _ Ecodes) as [_ [_ T3]].
  destruct ch as [|c r].
  - split; [discriminate|]. intros st' H. injection H as <-. cbn [cs_off dsizes_ub]. lia.
  - destruct (calc_list_np dbg cx (c :: r) IH (mkCst (cs_off st + sz) ents tab codes) Tc) as [L1 L2].
    + intros i Hi. cbn [cs_entries cs_codes]. rewrite S3, T3. apply R. cbn [die_ids]. now right.
    + cbn [cs_off]. lia.
    + destruct (calc_list dbg (wc_enc cx) (wc_lpv cx) (c :: r) (mkCst (cs_off st + sz) ents tab codes)) as [st2| | |] eqn:E2;
        try (split; [discriminate|intros; discriminate]); [|contradiction].
      cbn [bind]. specialize (L2 _ eq_refl). cbn [cs_off] in L2.
      rewrite chk_add_ok by lia. cbn [bind].
      split; [discriminate|]. intros st' H. injection H as <-. cbn [cs_off]. lia.
Qed.

(* the bytes written for a value are bounded like its size *)
Lemma av_write_len_ub dbg cx v ops :
  av_write dbg cx v = Ok ops -> expr_ok v -> ops_len ops <= asize_ub (wc_enc cx) v.
Proof.
  destruct cx as [e be u uoff ents codes line lstr str rng loc lpv]. cbn [wc_enc wc_lpv].
  destruct e as [ver fmt asz].
  intros H X.
  destruct v; unfold av_write in H; unfold asize_ub; cbn [wc_enc wc_be wc_line wc_loc wc_rng wc_str wc_lstr wc_lpv e_asz] in *;
    revert H; unfold_asserts; case_ver ver; destruct fmt; asserts; intros H.
  all: try (exfalso; lia).
  all: try match goal with H : match ?a with AConst _ => _ | ASym _ _ => _ end = _ |- _ => destruct a; [|discriminate] end.
  all: try match goal with H : match ?l with Some _ => _ | None => _ end = Ok _ |- _ => destruct l; [|discriminate] end.
  all: try match goal with H : match ?r with DSym _ => _ | DEntry _ _ => _ end = _ |- _ => destruct r; [discriminate|] end.
  all: try match goal with H : (if valid_size ?s then _ else _) = _ |- _ => destruct (valid_size s) eqn:?; [|discriminate] end.
  all: binds.
  all: try match goal with H : Ok _ = Ok _ |- _ => injection H as <- end.
  all: repeat rewrite ops_len_cons in *; rewrite ?ops_len_nil in *; cbn [op_bytes] in *.
  all: lens; rewrite ?zeros_blen, ?enc_un_blen, ?N.add_0_r in *.
  all: try (change (UnitWr.blen [x00]) with 1).
  all: try match goal with |- context [uleb128_size ?x] => assert (U := uleb128_size_le x) end.
  all: try match goal with |- context [sleb128_size ?x] => assert (U := sleb128_size_le x) end.
  all: try (cbn [UnitWr.blen length]; lia).
  all: try (destruct (ver =? 2); lia).
  all: try (unfold UnitWr.blen; cbn [length]; lia).
  all: match goal with E : x_out ?x = Ok ?b, E2 : x_size ?x = Ok _ |- _ =>
         cbn [expr_ok] in X; rewrite (X _ E) in E2; injection E2 as <-; rewrite (X _ E) in *; lia end.
Qed.

Lemma attrs_write_len_ub dbg cx : forall attrs aops,
  attrs_write dbg cx attrs = Ok aops -> Forall (fun p => expr_ok (snd p)) attrs ->
  ops_len aops <= attrs_ub (wc_enc cx) attrs.
Proof.
  induction attrs as [|[n v] r IH]; intros aops H X; cbn [attrs_write attrs_ub] in *.
  - injection H as <-. rewrite ops_len_nil. lia.
  - binds. injection H as <-. inversion X as [|? ? X1 X2]; subst. cbn [snd] in X1.
    rewrite ops_len_app.
    match goal with E : av_write _ _ v = Ok _ |- _ => assert (A := av_write_len_ub _ _ _ _ E X1) end.
    match goal with E : attrs_write _ _ r = Ok _ |- _ => assert (B := IH _ E X2) end. lia.
Qed.

Lemma write_list_len_ub dbg cx ch :
  Forall (fun d => forall pos ops, write_die dbg cx d pos = Ok ops -> die_expr_ok d ->
                   ops_len ops <= dsize_ub (wc_enc cx) d) ch ->
  forall pos ops, write_list dbg cx ch pos = Ok ops -> dies_expr_ok ch ->
                  ops_len ops <= dsizes_ub (wc_enc cx) ch.
Proof.
  induction 1 as [|c r Hc Hr IH]; intros pos ops H X; cbn [write_list dsizes_ub dies_expr_ok] in *.
  - injection H as <-. rewrite ops_len_nil. lia.
  - binds. injection H as <-. destruct X as [X1 X2]. rewrite ops_len_app.
    match goal with E : write_die _ _ c _ = Ok _ |- _ => assert (A := Hc _ _ E X1) end.
    match goal with E : write_list _ _ r _ = Ok _ |- _ => assert (B := IH _ _ E X2) end. lia.
Qed.

Lemma write_die_len_ub dbg cx : forall d pos ops,
  write_die dbg cx d pos = Ok ops -> die_expr_ok d -> ops_len ops <= dsize_ub (wc_enc cx) d.
Proof.
  induction d as [id tag sib attrs ch IH] using die_ind2. intros pos ops H X.
  rewrite die_expr_ok_unfold in X. destruct X as [Xa Xc]. rewrite dsize_ub_unfold.
  rewrite write_die_unfold in H.
  apply bind_ok_inv in H. destruct H as [u0 [_ H]].
  apply bind_ok_inv in H. destruct H as [code [_ H]].
  apply bind_ok_inv in H. destruct H as [cb [Ecb H]]. cbv zeta in H.
  apply bind_ok_inv in H. destruct H as [aops [Ea H]].
  assert (La := attrs_write_len_ub _ _ _ _ Ea Xa).
  assert (Lc : UnitWr.blen cb <= 10) by (rewrite (write_uleb128_len _ _ Ecb); apply uleb128_size_le).
  destruct ch as [|c r].
  - injection H as <-. rewrite !ops_len_cons. cbn [op_bytes dsizes_ub]. rewrite blen_nil. lia.
  - apply bind_ok_inv in H. destruct H as [cops [Ec H]].
    apply bind_ok_inv in H. destruct H as [sibb [Es H]]. injection H as <-.
    assert (Lk := write_list_len_ub dbg cx (c :: r) IH _ _ Ec Xc).
    assert (Ls : ops_len sibb <= 8).
    { destruct (sib && has_kids (c :: r)).
      - binds. injection Es as <-. rewrite ops_len_wb.
        match goal with E : write_udata _ _ _ = Ok _ |- _ => rewrite (write_udata_len _ _ _ _ E) end.
        unfold wsz. destruct (e_fmt64 (wc_enc cx)); lia.
      - injection Es as <-. rewrite ops_len_nil. lia. }
    rewrite !ops_len_cons, !ops_len_app, ops_len_wb. cbn [op_bytes]. rewrite blen_nil.
    change (UnitWr.blen [x00]) with 1. lia.
Qed.

Lemma attrs_write_no_panic dbg cx : forall attrs,
  Forall (fun p => av_typed cx (snd p)) attrs -> attrs_write dbg cx attrs <> Panic.
Proof.
  induction attrs as [|[n v] r IH]; intros T; cbn [attrs_write]; [discriminate|].
  inversion T as [|? ? T1 T2]; subst. cbn [snd] in T1.
  assert (A := av_write_no_panic_lemma dbg cx v T1).
  destruct (av_write dbg cx v); try discriminate; [|contradiction]. cbn [bind].
  specialize (IH T2). destruct (attrs_write dbg cx r); try discriminate. contradiction.
Qed.

Lemma write_udata_no_panic be v size : write_udata be v size <> Panic.
Proof.
  assert (W := write_udata_fits be v size). destruct (fits v size); [rewrite W; discriminate|].
  destruct W as [b ->]. discriminate.
Qed.

Definition write_np (dbg : bool) (cx : wcx) (d : die) : Prop :=
  forall st st',
    calc dbg (wc_enc cx) (wc_lpv cx) d st = Ok st' ->
    agree_on (die_ids d) (wc_entries cx) (cs_entries st') ->
    agree_on (die_ids d) (wc_codes cx) (cs_codes st') ->
    (forall i c, nth_error (wc_codes cx) i = Some c -> c < 2 ^ 64) ->
    die_typed cx d -> die_expr_ok d -> NoDup (die_ids d) ->
    0 < cs_off st -> wc_unit_off cx <= cs_off st ->
    cs_off st + dsize_ub (wc_enc cx) d < 2 ^ 64 ->
    write_die dbg cx d (cs_off st) <> Panic.

Lemma write_list_np dbg cx ch :
  Forall (write_np dbg cx) ch ->
  forall st st',
    calc_list dbg (wc_enc cx) (wc_lpv cx) ch st = Ok st' ->
    agree_on (dies_ids ch) (wc_entries cx) (cs_entries st') ->
    agree_on (dies_ids ch) (wc_codes cx) (cs_codes st') ->
    (forall i c, nth_error (wc_codes cx) i = Some c -> c < 2 ^ 64) ->
    dies_typed cx ch -> dies_expr_ok ch -> NoDup (dies_ids ch) ->
    0 < cs_off st -> wc_unit_off cx <= cs_off st ->
    cs_off st + dsizes_ub (wc_enc cx) ch < 2 ^ 64 ->
    write_list dbg cx ch (cs_off st) <> Panic.
Proof.
  induction 1 as [|c r Hc Hr IH]; intros st st' HC HE HA HK T X ND P0 PU B;
    cbn [calc_list write_list dsizes_ub dies_typed dies_expr_ok] in *; [discriminate|].
  apply bind_ok_inv in HC. destruct HC as [sA [EA HC]].
  destruct T as [T1 T2]. destruct X as [X1 X2]. unfold dies_ids in *. cbn [flat_map] in *.
  assert (FR := calc_list_frame' _ _ _ _ _ _ HC). destruct FR as [_ [_ FR]].
  assert (NDc := NoDup_app_l _ _ ND). assert (NDr := NoDup_app_r _ _ ND).
  assert (Ac : agree_on (die_ids c) (wc_codes cx) (cs_codes sA)).
  { intros i Hi. rewrite HA by (apply in_or_app; now left). apply (FR i). eapply NoDup_app_disj; eassumption. }
  assert (Ae : agree_on (die_ids c) (wc_entries cx) (cs_entries sA)).
  { intros i Hi. rewrite HE by (apply in_or_app; now left). apply (FR i). eapply NoDup_app_disj; eassumption. }
  assert (N1 : write_die dbg cx c (cs_off st) <> Panic) by (eapply Hc; try eassumption; lia).
  destruct (write_die dbg cx c (cs_off st)) as [o| | |] eqn:EW; try discriminate; [|contradiction].
  cbn [bind].
  assert (Lo := write_die_len_ub _ _ _ _ _ EW X1).
  destruct (agree_all dbg cx c st sA o EA EW Ac NDc X1 ltac:(lia)) as [G1 _].
  rewrite <- G1.
  assert (N2 : write_list dbg cx r (cs_off sA) <> Panic).
  { eapply IH; try eassumption.
    - intros i Hi. apply HE. apply in_or_app. now right.
    - intros i Hi. apply HA. apply in_or_app. now right.
    - lia.
    - lia.
    - lia. }
  destruct (write_list dbg cx r (cs_off sA)); try discriminate. contradiction.
Qed.

Theorem write_die_no_panic_lemma dbg cx : forall d, write_np dbg cx d.
Proof.
  induction d as [id tag sib attrs ch IH] using die_ind2.
  intros st st' HC HE HA HK T X ND P0 PU B.
  rewrite die_typed_unfold in T. destruct T as [Ta Tc].
  rewrite die_expr_ok_unfold in X. destruct X as [Xa Xc].
  rewrite dsize_ub_unfold in B. cbn [die_ids] in *. inversion ND as [|? ? NDid NDch]; subst.
  rewrite calc_unfold in HC.
  apply bind_ok_inv in HC. destruct HC as [ents [Eents HC]].
  apply bind_ok_inv in HC. destruct HC as [ab [Eab HC]].
  destruct (abbrev_add (cs_abbrevs st) ab) as [code tab] eqn:EAb.
  apply bind_ok_inv in HC. destruct HC as [codes [Ecodes HC]].
  apply bind_ok_inv in HC. destruct HC as [sz [Esz HC]].
  apply bind_ok_inv in HC. destruct HC as [off1 [Eoff1 HC]]. cbv zeta in HC.
  destruct (set_nth_spec _ _ _ _ Eents) as [S1 _].
  destruct (set_nth_spec _ _ _ _ Ecodes) as [T1 _].
  (* what the final tables hold for this entry *)
  assert (Hfin : nth_error (wc_entries cx) id = Some (cs_off st) /\ nth_error (wc_codes cx) id = Some code).
  { rewrite (HE id (or_introl eq_refl)), (HA id (or_introl eq_refl)).
    destruct ch as [|c r].
    - injection HC as <-. cbn [cs_entries cs_codes]. now split.
    - apply bind_ok_inv in HC. destruct HC as [st2 [E2 HC]].
      apply bind_ok_inv in HC. destruct HC as [off2 [_ HC]]. injection HC as <-. cbn [cs_entries cs_codes].
      destruct (calc_list_frame' _ _ _ _ _ _ E2) as [_ [_ F]]. destruct (F id NDid) as [F1 F2].
      rewrite F1, F2. cbn [cs_entries cs_codes]. now split. }
  destruct Hfin as [He Hc].
  rewrite write_die_unfold.
  (* the debug assertion holds *)
  assert (Hassert : (if dbg
                     then let* here := debug_info_offset dbg (wc_unit cx) (wc_entries cx) (mkEid (wc_unit cx) id) in
                          dassert dbg (match here with Some o => o =? cs_off st | None => false end)
                     else Ok tt) = Ok tt).
  { destruct dbg; [|reflexivity]. unfold debug_info_offset, idx_get, unwrap. cbn [id_unit id_idx].
    rewrite Nat.eqb_refl, dassert_true. cbn [bind]. rewrite He. cbn [bind].
    replace (cs_off st =? 0) with false by (symmetry; apply N.eqb_neq; lia).
    rewrite N.eqb_refl. apply dassert_true. }
  rewrite Hassert. cbn [bind].
  unfold idx_get, unwrap. rewrite Hc. cbn [bind].
  destruct (write_uleb128_total code (HK _ _ Hc)) as [cb Ecb]. rewrite Ecb. cbn [bind]. cbv zeta.
  assert (Na := attrs_write_no_panic dbg cx attrs Ta).
  destruct (attrs_write dbg cx attrs) as [aops| | |] eqn:Ea; try discriminate; [|contradiction].
  cbn [bind].
  destruct ch as [|c r]; [discriminate|].
  (* position of the first child = the running offset after this entry's own bytes *)
  assert (La := attrs_write_len_ub _ _ _ _ Ea Xa).
  assert (Lc : UnitWr.blen cb <= 10) by (rewrite (write_uleb128_len _ _ Ecb); apply uleb128_size_le).
  assert (W : wsz (wc_enc cx) <= 8) by (unfold wsz; destruct (e_fmt64 (wc_enc cx)); lia).
  rewrite (die_size_eq dbg cx id tag sib attrs (c :: r) code cb aops Ecb Ea Xa) in Esz
    by (cbn [has_kids]; rewrite andb_true_r; destruct sib; lia).
  cbn [has_kids] in *. rewrite ?andb_true_r in *.
  injection Esz as <-.
  rewrite chk_add_ok in Eoff1 by (destruct sib; lia). injection Eoff1 as <-.
  apply bind_ok_inv in HC. destruct HC as [st2 [E2 HC]].
  apply bind_ok_inv in HC. destruct HC as [off2 [_ HC]]. injection HC as <-. cbn [cs_entries cs_codes] in *.
  set (st1 := mkCst (cs_off st + (UnitWr.blen cb + (if sib then wsz (wc_enc cx) else 0) + ops_len aops)) ents tab codes) in *.
  assert (Epos : cs_off st + (UnitWr.blen cb + (if sib then wsz (wc_enc cx) else 0)) + ops_len aops = cs_off st1)
    by (unfold st1; cbn [cs_off]; lia).
  rewrite Epos.
  assert (Nl : write_list dbg cx (c :: r) (cs_off st1) <> Panic).
  { apply (write_list_np dbg cx (c :: r) IH st1 st2 E2); try assumption.
    - intros i Hi. apply HE. now right.
    - intros i Hi. apply HA. now right.
    - unfold st1; cbn [cs_off]; lia.
    - unfold st1; cbn [cs_off]; lia.
    - unfold st1; cbn [cs_off]. destruct sib; lia. }
  destruct (write_list dbg cx (c :: r) (cs_off st1)) as [cops| | |]; try discriminate; [|contradiction].
  cbn [bind].
  destruct sib.
  - rewrite chk_sub_ok by lia. cbn [bind].
    match goal with |- context [write_udata ?b ?v ?w] =>
      assert (Nu := write_udata_no_panic b v w); destruct (write_udata b v w); try discriminate; contradiction end.
  - discriminate.
Qed.

(* ------------------------------------------------------------------ round trip: decoding the written unit *)

Definition is_unit_ref (o : wop) : bool := match o with WUnitRef _ _ => true | _ => false end.

Lemma ops_resolved_noref f : forall ops, forallb (fun o => negb (is_unit_ref o)) ops = true ->
  ops_resolved f ops = ops_bytes ops.
Proof.
  induction ops as [|o r IH]; intros H; [reflexivity|]. cbn [forallb] in H. apply andb_true_iff in H.
  destruct H as [H1 H2]. unfold ops_resolved, ops_bytes in *. cbn [flat_map]. rewrite (IH H2).
  destruct o; try reflexivity. discriminate.
Qed.

Lemma ops_resolved_app f a b : ops_resolved f (a ++ b) = ops_resolved f a ++ ops_resolved f b.
Proof. unfold ops_resolved. apply flat_map_app. Qed.

(* the ops of a value: a single unit-relative placeholder for UnitRef, no such placeholder otherwise *)
Lemma av_write_refs dbg cx v ops :
  av_write dbg cx v = Ok ops ->
  match v with
  | AvUnitRef id => ops = [WUnitRef id (wsz (wc_enc cx))]
  | _ => forallb (fun o => negb (is_unit_ref o)) ops = true
  end.
Proof.
  destruct cx as [e be u uoff ents codes line lstr str rng loc lpv].
  destruct e as [ver fmt asz].
  intros H.
  destruct v; unfold av_write in H; cbn [wc_enc wc_be wc_line wc_loc wc_rng wc_str wc_lstr wc_lpv] in *;
    revert H; unfold_asserts; case_ver ver; destruct fmt; asserts; intros H.
  all: try (exfalso; lia).
  all: try match goal with H : match ?a with AConst _ => _ | ASym _ _ => _ end = _ |- _ => destruct a; [|discriminate] end.
  all: try match goal with H : match ?l with Some _ => _ | None => _ end = Ok _ |- _ => destruct l; [|discriminate] end.
  all: try match goal with H : match ?r with DSym _ => _ | DEntry _ _ => _ end = _ |- _ => destruct r; [discriminate|] end.
  all: try match goal with H : (if valid_size ?s then _ else _) = _ |- _ => destruct (valid_size s) eqn:?; [|discriminate] end.
  all: binds.
  all: try match goal with H : Ok _ = Ok _ |- _ => injection H as <- end.
  all: reflexivity.
Qed.

(* what a reader finds for an attribute once the placeholders are patched *)
Definition av_final (cx : wcx) (f : eid -> list byte) (v : aval) : rval :=
  match v with
  | AvUnitRef id => RU (fixed_num (wc_be cx) (f id))
  | _ => av_raw cx v
  end.

Definition attr_sem (cx : wcx) (f : eid -> list byte) (p : N * aval) : N * N * rval :=
  (fst p, fst (av_form (wc_enc cx) (snd p)), av_final cx f (snd p)).

Lemma dec_fixed_bytes w be (b rest : list byte) :
  UnitWr.blen b = w -> dec_fixed w be (b ++ rest) = Some (RU (fixed_num be b), rest).
Proof. intros <-. unfold dec_fixed. now rewrite take_n_blen. Qed.

Lemma aspec_new_ok dbg name form ic s :
  aspec_new dbg name form ic = Ok s ->
  as_name s = name /\ as_form s = form /\ as_ic s = match ic with Some z => z | None => 0%Z end.
Proof. unfold aspec_new. intros H. binds. injection H as <-. repeat split. Qed.

Lemma decode_attrs_written dbg cx (f : eid -> list byte) : forall attrs aops specs rest,
  attrs_write dbg cx attrs = Ok aops ->
  attr_specs dbg (wc_enc cx) attrs = Ok specs ->
  Forall (fun p => av_decodable (snd p)) attrs ->
  (forall id, UnitWr.blen (f id) = wsz (wc_enc cx)) ->
  decode_attrs (wc_enc cx) (wc_be cx) specs (ops_resolved f aops ++ rest) =
  Some (map (attr_sem cx f) attrs, rest).
Proof.
  induction attrs as [|[n v] r IH]; intros aops specs rest HW HS HD Hf; cbn [attrs_write attr_specs] in *.
  - injection HW as <-. injection HS as <-. reflexivity.
  - apply bind_ok_inv in HW. destruct HW as [o [Eo HW]]. apply bind_ok_inv in HW. destruct HW as [ro [Ero HW]].
    injection HW as <-.
    destruct (av_form (wc_enc cx) v) as [form ic] eqn:EF.
    apply bind_ok_inv in HS. destruct HS as [s [Es HS]]. apply bind_ok_inv in HS. destruct HS as [rs [Ers HS]].
    injection HS as <-.
    destruct (aspec_new_ok _ _ _ _ _ Es) as [A1 [A2 A3]].
    assert (D1 := Forall_inv HD). assert (D2 := Forall_inv_tail HD). cbn [snd] in D1.
    cbn [decode_attrs map]. rewrite ops_resolved_app, <- app_assoc.
    assert (FD : form_decode (wc_enc cx) (wc_be cx) (as_form s) (as_ic s)
                   (ops_resolved f o ++ ops_resolved f ro ++ rest) =
                 Some (av_final cx f v, ops_resolved f ro ++ rest)).
    { rewrite A2, A3. assert (R := av_write_refs _ _ _ _ Eo).
      destruct v; try (rewrite (ops_resolved_noref f o R);
                       assert (Dv := av_write_decodes dbg cx _ _ (ops_resolved f ro ++ rest) Eo D1);
                       rewrite EF in Dv; cbn [fst snd] in Dv; exact Dv).
      subst o. unfold ops_resolved at 1. cbn [flat_map op_resolved]. rewrite app_nil_r.
      cbn [av_form] in EF. injection EF as <- <-. cbn [av_final].
      unfold word_form, wsz in *. specialize (Hf id).
      destruct (e_fmt64 (wc_enc cx)); [rewrite fd_ref8|rewrite fd_ref4]; now apply dec_fixed_bytes. }
    rewrite FD. rewrite (IH _ _ _ Ero Ers D2 Hf).
    unfold attr_sem at 2. cbn [fst snd]. rewrite A1, A2, EF. reflexivity.
Qed.

Lemma uleb_first_byte v bs : write_uleb128 v = Ok bs -> v <> 0 ->
  exists b r, bs = b :: r /\ (b2n b =? 0) = false.
Proof.
  unfold write_uleb128. cbn [write_uleb_fuel]. rewrite low7_land255, shiftr7_div.
  assert (Hx : v mod 128 < 128) by (apply N.mod_lt; discriminate).
  assert (Hv := N.div_mod v 128 ltac:(discriminate)).
  intros H Hnz. destruct (v / 128 =? 0) eqn:E.
  - injection H as <-. apply N.eqb_eq in E. exists (n2b (v mod 128)), []. split; [reflexivity|].
    rewrite b2n_n2b_small by lia. apply N.eqb_neq. lia.
  - apply bind_ok_inv in H. destruct H as [r [_ H]]. injection H as <-. unfold CONT.
    exists (n2b (N.lor (v mod 128) 128)), r. split; [reflexivity|].
    assert (S := sweep_lt 128 (fun x => negb (b2n (n2b (N.lor x 128)) =? 0))).
    specialize (S ltac:(vm_compute; reflexivity) _ Hx). cbv beta in S. now apply negb_true_iff in S.
Qed.

Lemma ops_resolved_len (f : eid -> list byte) (w : N) : forall ops,
  (forall id, UnitWr.blen (f id) = w) -> (forall id w', In (WUnitRef id w') ops -> w' = w) ->
  UnitWr.blen (ops_resolved f ops) = ops_len ops.
Proof.
  induction ops as [|o r IH]; intros Hf HW; [reflexivity|].
  unfold ops_resolved in *. cbn [flat_map]. rewrite blen_app, ops_len_cons.
  rewrite IH by (auto; intros; eapply HW; right; eassumption). f_equal.
  destruct o; try reflexivity. cbn [op_resolved op_bytes]. rewrite zeros_blen, Hf. symmetry. eapply HW. left. reflexivity.
Qed.

Lemma decode_attrs_app e be : forall s1 s2 bs l1 bs1,
  decode_attrs e be s1 bs = Some (l1, bs1) ->
  decode_attrs e be (s1 ++ s2) bs =
  match decode_attrs e be s2 bs1 with Some (l2, bs2) => Some (l1 ++ l2, bs2) | None => None end.
Proof.
  induction s1 as [|s r IH]; intros s2 bs l1 bs1 H; cbn [decode_attrs app] in *.
  - injection H as E1 E2. subst l1 bs1. destruct (decode_attrs e be s2 bs) as [[l2 b2]|]; reflexivity.
  - destruct (form_decode e be (as_form s) (as_ic s) bs) as [[v b']|]; [|discriminate].
    destruct (decode_attrs e be r b') as [[l b'']|] eqn:E; [|discriminate]. injection H as E1 E2. subst l1 bs1.
    rewrite (IH s2 _ _ _ E). destruct (decode_attrs e be s2 b'') as [[l2 b2]|]; reflexivity.
Qed.

(* each entry of the tree finds its abbreviation under its code in the table the reader uses *)
Section codes.
  Variables (dbg : bool) (cx : wcx) (tab : list abbrev).
  Fixpoint codes_ok (d : die) : Prop :=
    match d with
    | Die id _ _ _ ch =>
        (exists code ab, nth_error (wc_codes cx) id = Some code /\
                         die_abbrev dbg (wc_enc cx) d = Ok ab /\ abbrev_lookup tab code = Some ab) /\
        (fix go (l : list die) : Prop := match l with [] => True | c :: r => codes_ok c /\ go r end) ch
    end.
  Fixpoint codes_ok_list (l : list die) : Prop :=
    match l with [] => True | c :: r => codes_ok c /\ codes_ok_list r end.
End codes.

Lemma codes_ok_unfold dbg cx tab id tag sib attrs ch :
  codes_ok dbg cx tab (Die id tag sib attrs ch) =
  ((exists code ab, nth_error (wc_codes cx) id = Some code /\
                    die_abbrev dbg (wc_enc cx) (Die id tag sib attrs ch) = Ok ab /\ abbrev_lookup tab code = Some ab) /\
   codes_ok_list dbg cx tab ch).
Proof. reflexivity. Qed.

Fixpoint die_decodable (d : die) : Prop :=
  match d with
  | Die _ _ _ attrs ch =>
      Forall (fun p => av_decodable (snd p)) attrs /\
      (fix go (l : list die) : Prop := match l with [] => True | c :: r => die_decodable c /\ go r end) ch
  end.
Fixpoint dies_decodable (l : list die) : Prop :=
  match l with [] => True | c :: r => die_decodable c /\ dies_decodable r end.
Lemma die_decodable_unfold id tag sib attrs ch :
  die_decodable (Die id tag sib attrs ch) = (Forall (fun p => av_decodable (snd p)) attrs /\ dies_decodable ch).
Proof. reflexivity. Qed.

(* the decoded tree corresponds to the written tree: same tags, nesting and attribute lists (with the
   DW_AT_sibling the writer adds), every entry where `write` put it, the sibling value pointing at the end
   of the entry's subtree *)
Inductive dmatch (cx : wcx) (f : eid -> list byte) : die -> N -> N -> sdie -> Prop :=
| DMleaf : forall id tag sib attrs pos endp,
    dmatch cx f (Die id tag sib attrs []) pos endp (SDie pos tag (map (attr_sem cx f) attrs) [])
| DMnode : forall id tag sib attrs c r pos endp p0 kids,
    kmatch cx f (c :: r) p0 (endp - 1) kids -> pos < p0 -> p0 < endp ->
    dmatch cx f (Die id tag sib attrs (c :: r)) pos endp
      (SDie pos tag
         ((if sib then [(DW_AT_sibling, word_form (wc_enc cx) DW_FORM_ref4 DW_FORM_ref8, RU (endp - wc_unit_off cx))]
           else []) ++ map (attr_sem cx f) attrs) kids)
with kmatch (cx : wcx) (f : eid -> list byte) : list die -> N -> N -> list sdie -> Prop :=
| KMnil : forall p, kmatch cx f [] p p []
| KMcons : forall c r p m q k ks,
    dmatch cx f c p m k -> kmatch cx f r m q ks -> kmatch cx f (c :: r) p q (k :: ks).

Lemma abbrev_lookup_nonzero tab code ab : abbrev_lookup tab code = Some ab -> code <> 0.
Proof. unfold abbrev_lookup. destruct (code =? 0) eqn:Z; [discriminate|]. intros _. now apply N.eqb_neq. Qed.

Lemma ops_resolved_cons f o r : ops_resolved f (o :: r) = op_resolved f o ++ ops_resolved f r.
Proof. reflexivity. Qed.

(* a written entry starts with the (non-zero) first byte of its abbreviation code *)
Lemma write_die_first_byte dbg cx (f : eid -> list byte) tab d pos ops :
  write_die dbg cx d pos = Ok ops -> codes_ok dbg cx tab d ->
  exists b r, ops_resolved f ops = b :: r /\ (b2n b =? 0) = false /\ 1 <= ops_len ops.
Proof.
  destruct d as [id tag sib attrs ch]. intros H C.
  rewrite codes_ok_unfold in C. destruct C as [[code [ab [C1 [_ C3]]]] _].
  rewrite write_die_unfold in H.
  apply bind_ok_inv in H. destruct H as [u0 [_ H]].
  apply bind_ok_inv in H. destruct H as [code' [Ec H]].
  unfold idx_get, unwrap in Ec. rewrite C1 in Ec. injection Ec as <-.
  apply bind_ok_inv in H. destruct H as [cb [Ecb H]]. cbv zeta in H.
  apply bind_ok_inv in H. destruct H as [aops [_ H]].
  destruct (uleb_first_byte _ _ Ecb (abbrev_lookup_nonzero _ _ _ C3)) as [b [r [-> Hb]]].
  assert (L : 1 <= UnitWr.blen (b :: r)) by (rewrite blen_cons; lia).
  destruct ch as [|c r'].
  - injection H as <-. exists b, (r ++ ops_resolved f aops). rewrite !ops_resolved_cons. cbn [op_resolved op_bytes app].
    split; [reflexivity|]. split; [exact Hb|]. rewrite !ops_len_cons. cbn [op_bytes]. lia.
  - apply bind_ok_inv in H. destruct H as [cops [_ H]]. apply bind_ok_inv in H. destruct H as [sibb [_ H]].
    injection H as <-. eexists b, _. rewrite !ops_resolved_cons. cbn [op_resolved op_bytes app].
    split; [reflexivity|]. split; [exact Hb|]. rewrite !ops_len_cons. cbn [op_bytes]. lia.
Qed.

Lemma write_list_count dbg cx (f : eid -> list byte) tab : forall ch p cops,
  write_list dbg cx ch p = Ok cops -> codes_ok_list dbg cx tab ch -> N.of_nat (length ch) <= ops_len cops.
Proof.
  induction ch as [|c r IH]; intros p cops H C; cbn [write_list codes_ok_list length] in *.
  - injection H as <-. rewrite ops_len_nil. lia.
  - apply bind_ok_inv in H. destruct H as [o [Eo H]]. apply bind_ok_inv in H. destruct H as [ro [Ero H]].
    injection H as <-. destruct C as [C1 C2]. rewrite ops_len_app.
    destruct (write_die_first_byte dbg cx f tab c p o Eo C1) as [_ [_ [_ [_ L]]]].
    specialize (IH _ _ Ero C2). lia.
Qed.

Definition dec_stmt (dbg : bool) (cx : wcx) (f : eid -> list byte) (tab : list abbrev) (d : die) : Prop :=
  forall fuel pos ops rest,
    write_die dbg cx d pos = Ok ops ->
    codes_ok dbg cx tab d -> die_decodable d ->
    (forall id, UnitWr.blen (f id) = wsz (wc_enc cx)) ->
    pos + ops_len ops < 2 ^ 64 -> wc_unit_off cx <= pos ->
    ops_len ops <= N.of_nat fuel ->
    exists sd, decode_die fuel (wc_enc cx) (wc_be cx) tab pos (ops_resolved f ops ++ rest) = Some (sd, rest) /\
               dmatch cx f d pos (pos + ops_len ops) sd.

Lemma decode_kids_written dbg cx f tab ch :
  Forall (dec_stmt dbg cx f tab) ch ->
  forall fuel n p cops rest,
    write_list dbg cx ch p = Ok cops ->
    codes_ok_list dbg cx tab ch -> dies_decodable ch ->
    (forall id, UnitWr.blen (f id) = wsz (wc_enc cx)) ->
    p + ops_len cops < 2 ^ 64 -> wc_unit_off cx <= p ->
    ops_len cops <= N.of_nat fuel -> (length ch < n)%nat ->
    exists kids,
      decode_kids (decode_die fuel (wc_enc cx) (wc_be cx) tab) n p (ops_resolved f cops ++ x00 :: rest) = Some (kids, rest) /\
      kmatch cx f ch p (p + ops_len cops) kids.
Proof.
  induction 1 as [|c r Hc Hr IH]; intros fuel n p cops rest HW C D Hf B U F Ln;
    cbn [write_list codes_ok_list dies_decodable length] in *.
  - injection HW as <-. destruct n as [|k]; [lia|]. exists []. cbn [decode_kids app]. unfold ops_resolved. cbn [flat_map app].
    change (b2n x00 =? 0) with true. cbn iota. rewrite ops_len_nil, N.add_0_r. split; [reflexivity|constructor].
  - apply bind_ok_inv in HW. destruct HW as [o [Eo HW]]. apply bind_ok_inv in HW. destruct HW as [ro [Ero HW]].
    injection HW as <-. destruct C as [C1 C2]. destruct D as [D1 D2].
    rewrite ops_len_app in *. rewrite ops_resolved_app, <- app_assoc.
    destruct n as [|k]; [lia|].
    destruct (write_die_first_byte dbg cx f tab c p o Eo C1) as [b [tl [Eb [Hb Lo]]]].
    destruct (Hc fuel p o (ops_resolved f ro ++ x00 :: rest) Eo C1 D1 Hf ltac:(lia) U ltac:(lia)) as [k0 [Dk Mk]].
    cbn [decode_kids]. rewrite Eb in *. cbn [app]. rewrite Hb. cbn [app] in Dk. rewrite Dk.
    (* position of the next child *)
    assert (Lr : UnitWr.blen (ops_resolved f o) = ops_len o).
    { apply (ops_resolved_len f (wsz (wc_enc cx))); [exact Hf|]. eapply write_die_refw; eassumption. }
    rewrite Eb in Lr.
    assert (Epos : p + (UnitWrSpec.blen (b :: tl ++ ops_resolved f ro ++ x00 :: rest) -
                        UnitWrSpec.blen (ops_resolved f ro ++ x00 :: rest)) = p + ops_len o).
    { change UnitWrSpec.blen with UnitWr.blen. change (b :: tl ++ ops_resolved f ro ++ x00 :: rest) with ((b :: tl) ++ ops_resolved f ro ++ x00 :: rest).
      rewrite blen_app, Lr. lia. }
    rewrite Epos.
    destruct (IH fuel k (p + ops_len o) ro rest Ero C2 D2 Hf ltac:(lia) ltac:(lia) ltac:(lia) ltac:(lia)) as [ks [Dks Mks]].
    rewrite Dks. exists (k0 :: ks). split; [reflexivity|].
    econstructor; [exact Mk|]. replace (p + (ops_len o + ops_len ro)) with (p + ops_len o + ops_len ro) by lia. exact Mks.
Qed.

Theorem decode_written dbg cx f tab : forall d, dec_stmt dbg cx f tab d.
Proof.
  induction d as [id tag sib attrs ch IH] using die_ind2.
  intros fuel pos ops rest HW C D Hf B U F.
  assert (RW := write_die_refw _ _ _ _ _ HW).
  rewrite codes_ok_unfold in C. destruct C as [[code [ab [C1 [C2 C3]]]] Cl].
  rewrite die_decodable_unfold in D. destruct D as [Da Dc].
  rewrite write_die_unfold in HW.
  apply bind_ok_inv in HW. destruct HW as [u0 [_ HW]].
  apply bind_ok_inv in HW. destruct HW as [code' [Ec HW]].
  unfold idx_get, unwrap in Ec. rewrite C1 in Ec. injection Ec as <-.
  apply bind_ok_inv in HW. destruct HW as [cb [Ecb HW]]. cbv zeta in HW.
  apply bind_ok_inv in HW. destruct HW as [aops [Ea HW]].
  assert (Lcb : 1 <= UnitWr.blen cb).
  { destruct (uleb_first_byte _ _ Ecb (abbrev_lookup_nonzero _ _ _ C3)) as [b [r [-> _]]]. rewrite blen_cons. lia. }
  (* the abbreviation of this entry *)
  unfold die_abbrev in C2.
  apply bind_ok_inv in C2. destruct C2 as [sibspec [Esib C2]].
  apply bind_ok_inv in C2. destruct C2 as [specs [Especs C2]]. injection C2 as <-.
  (* the attribute values *)
  assert (Hattrs : forall tail, decode_attrs (wc_enc cx) (wc_be cx) specs (ops_resolved f aops ++ tail) =
                                Some (map (attr_sem cx f) attrs, tail)).
  { intros tail. eapply decode_attrs_written; eassumption. }
  assert (Laops : UnitWr.blen (ops_resolved f aops) = ops_len aops).
  { apply (ops_resolved_len f (wsz (wc_enc cx))); [exact Hf|].
    intros i w' Hi. apply (RW i w'). destruct ch.
    - injection HW as <-. right. right. exact Hi.
    - apply bind_ok_inv in HW. destruct HW as [cops [_ HW]]. apply bind_ok_inv in HW. destruct HW as [sibb [_ HW]].
      injection HW as <-. right. right. apply in_or_app. right. apply in_or_app. now left. }
  destruct ch as [|c r].
  - (* leaf *)
    injection HW as <-. cbn [has_kids] in Esib. rewrite andb_false_r in Esib. injection Esib as <-.
    rewrite !ops_len_cons in *. cbn [op_bytes] in *. rewrite blen_nil in *.
    destruct fuel as [|f']; [lia|].
    rewrite !ops_resolved_cons. cbn [op_resolved op_bytes app]. rewrite <- app_assoc.
    cbn [decode_die]. rewrite (write_uleb128_dec _ _ (ops_resolved f aops ++ rest) Ecb).
    rewrite C3. cbn [ab_attrs ab_children ab_tag app has_kids]. rewrite Hattrs.
    eexists. split; [reflexivity|]. constructor.
  - (* node *)
    apply bind_ok_inv in HW. destruct HW as [cops [Ecops HW]].
    apply bind_ok_inv in HW. destruct HW as [sibb [Esibb HW]]. injection HW as <-.
    cbn [has_kids] in *. rewrite andb_true_r in *.
    set (w := wsz (wc_enc cx)) in *.
    (* widths *)
    assert (Hs : ops_len sibb = (if sib then w else 0) /\ forallb (fun o => negb (is_unit_ref o)) sibb = true).
    { destruct sib.
      - binds. injection Esibb as <-. rewrite ops_len_wb.
        match goal with E : write_udata _ _ _ = Ok _ |- _ => rewrite (write_udata_len _ _ _ _ E) end. split; reflexivity.
      - injection Esibb as <-. split; reflexivity. }
    destruct Hs as [Ls Ps].
    rewrite !ops_len_cons, !ops_len_app, ops_len_wb in *. cbn [op_bytes] in *. rewrite blen_nil, Ls in *.
    change (UnitWr.blen [x00]) with 1 in *.
    destruct fuel as [|f']; [lia|].
    rewrite !ops_resolved_cons, !ops_resolved_app. cbn [op_resolved op_bytes app].
    rewrite (ops_resolved_noref f sibb Ps).
    replace (ops_resolved f [WB [x00]]) with [x00] by reflexivity.
    set (p0 := pos + (UnitWr.blen cb + (if sib then w else 0)) + ops_len aops) in *.
    set (endp := pos + (0 + (UnitWr.blen cb + ((if sib then w else 0) + (ops_len aops + (ops_len cops + 1)))))).
    (* children *)
    destruct (decode_kids_written dbg cx f tab (c :: r) IH f' f' p0 cops rest Ecops Cl Dc Hf) as [kids [Dk Mk]].
    { unfold p0. lia. } { unfold p0. lia. } { lia. }
    { assert (Cn := write_list_count dbg cx f tab _ _ _ Ecops Cl). lia. }
    (* the sibling attribute and the other attributes *)
    assert (Hall : decode_attrs (wc_enc cx) (wc_be cx) (sibspec ++ specs)
                     (ops_bytes sibb ++ ops_resolved f aops ++ ops_resolved f cops ++ x00 :: rest) =
                   Some ((if sib then [(DW_AT_sibling, word_form (wc_enc cx) DW_FORM_ref4 DW_FORM_ref8, RU (endp - wc_unit_off cx))]
                          else []) ++ map (attr_sem cx f) attrs,
                         ops_resolved f cops ++ x00 :: rest)).
    { destruct sib.
      - apply bind_ok_inv in Esib. destruct Esib as [s [Es Esib]]. injection Esib as <-.
        destruct (aspec_new_ok _ _ _ _ _ Es) as [A1 [A2 A3]].
        apply bind_ok_inv in Esibb. destruct Esibb as [next [En Esibb]].
        apply bind_ok_inv in Esibb. destruct Esibb as [b [Eb Esibb]]. injection Esibb as <-.
        assert (Enext : next = endp - wc_unit_off cx).
        { rewrite chk_sub_ok in En by (unfold p0 in *; lia). injection En as <-. unfold endp, p0. f_equal. lia. }
        unfold ops_bytes. cbn [flat_map op_bytes app]. rewrite app_nil_r.
        cbn [decode_attrs]. rewrite A1, A2, A3.
        assert (FD : form_decode (wc_enc cx) (wc_be cx) (word_form (wc_enc cx) DW_FORM_ref4 DW_FORM_ref8) 0
                       (b ++ ops_resolved f aops ++ ops_resolved f cops ++ x00 :: rest) =
                     Some (RU (next mod 2 ^ 64), ops_resolved f aops ++ ops_resolved f cops ++ x00 :: rest)).
        { unfold word_form. unfold w, wsz in Eb. destruct (e_fmt64 (wc_enc cx)); [rewrite fd_ref8|rewrite fd_ref4];
            eapply write_udata_dec; eassumption. }
        rewrite FD, Hattrs. rewrite N.mod_small by (subst next; unfold endp; lia). now rewrite Enext.
      - injection Esib as <-. injection Esibb as <-. cbn [app ops_bytes flat_map]. apply Hattrs. }
    cbn [decode_die]. rewrite <- !app_assoc.
    rewrite (write_uleb128_dec _ _ _ Ecb). rewrite C3. cbn [ab_attrs ab_children ab_tag has_kids].
    cbn [app]. rewrite Hall.
    (* position of the first child *)
    assert (Epos : pos + (UnitWrSpec.blen (cb ++ ops_bytes sibb ++ ops_resolved f aops ++ ops_resolved f cops ++ x00 :: rest) -
                          UnitWrSpec.blen (ops_resolved f cops ++ x00 :: rest)) = p0).
    { change UnitWrSpec.blen with UnitWr.blen. rewrite !blen_app, Laops. fold (ops_len sibb). rewrite Ls. unfold p0. lia. }
    rewrite Epos, Dk.
    eexists. split; [reflexivity|].
    replace (pos + (0 + (UnitWr.blen cb + ((if sib then w else 0) + (ops_len aops + (ops_len cops + 1)))))) with endp by reflexivity.
    apply DMnode with (p0 := p0).
    + replace (endp - 1) with (p0 + ops_len cops) by (unfold endp, p0; lia). exact Mk.
    + unfold p0. lia.
    + unfold endp, p0. lia.
Qed.

(* ------------------------------------------------------------------ the abbreviation table serves every entry *)

Definition tab_ext (a b : list abbrev) : Prop := exists ext, b = a ++ ext.
Lemma tab_ext_refl a : tab_ext a a. Proof. exists []. now rewrite app_nil_r. Qed.
Lemma tab_ext_trans a b c : tab_ext a b -> tab_ext b c -> tab_ext a c.
Proof. intros [x ->] [y ->]. exists (x ++ y). now rewrite app_assoc. Qed.

Lemma abbrev_add_ext tab a code tab' : abbrev_add tab a = (code, tab') -> tab_ext tab tab'.
Proof.
  unfold abbrev_add. destruct (abbrev_find tab a); intros H; injection H as <- <-; [apply tab_ext_refl|now exists [a]].
Qed.

Lemma abbrev_lookup_ext tab tab' code ab : tab_ext tab tab' -> abbrev_lookup tab code = Some ab -> abbrev_lookup tab' code = Some ab.
Proof.
  intros [ext ->]. unfold abbrev_lookup. destruct (code =? 0); [discriminate|]. intros H.
  rewrite nth_error_app1; [exact H|]. apply nth_error_Some. congruence.
Qed.

Lemma calc_list_abbrevs_ext dbg e lpv ch :
  Forall (fun d => forall st st', calc dbg e lpv d st = Ok st' -> tab_ext (cs_abbrevs st) (cs_abbrevs st')) ch ->
  forall st st', calc_list dbg e lpv ch st = Ok st' -> tab_ext (cs_abbrevs st) (cs_abbrevs st').
Proof.
  induction 1 as [|c r Hc Hr IH]; intros st st' H; cbn [calc_list] in H.
  - injection H as <-. apply tab_ext_refl.
  - binds. eapply tab_ext_trans; [eapply Hc; eassumption|eapply IH; eassumption].
Qed.

Lemma calc_abbrevs_ext dbg e lpv : forall d st st',
  calc dbg e lpv d st = Ok st' -> tab_ext (cs_abbrevs st) (cs_abbrevs st').
Proof.
  induction d as [id tag sib attrs ch IH] using die_ind2. intros st st' H.
  rewrite calc_unfold in H.
  apply bind_ok_inv in H. destruct H as [ents [_ H]].
  apply bind_ok_inv in H. destruct H as [ab [_ H]].
  destruct (abbrev_add (cs_abbrevs st) ab) as [code tab] eqn:EA.
  apply bind_ok_inv in H. destruct H as [codes [_ H]].
  apply bind_ok_inv in H. destruct H as [sz [_ H]].
  apply bind_ok_inv in H. destruct H as [off1 [_ H]]. cbv zeta in H.
  assert (X := abbrev_add_ext _ _ _ _ EA).
  destruct ch as [|c r].
  - injection H as <-. exact X.
  - apply bind_ok_inv in H. destruct H as [st2 [E2 H]].
    apply bind_ok_inv in H. destruct H as [off2 [_ H]]. injection H as <-. cbn [cs_abbrevs].
    eapply tab_ext_trans; [exact X|]. apply (calc_list_abbrevs_ext dbg e lpv _ IH _ _ E2).
Qed.

Definition codes_stmt (dbg : bool) (cx : wcx) (tabF : list abbrev) (d : die) : Prop :=
  forall st st',
    calc dbg (wc_enc cx) (wc_lpv cx) d st = Ok st' ->
    tab_ext (cs_abbrevs st') tabF ->
    agree_on (die_ids d) (wc_codes cx) (cs_codes st') ->
    NoDup (die_ids d) ->
    codes_ok dbg cx tabF d.

Lemma calc_list_codes_ok dbg cx tabF ch :
  Forall (codes_stmt dbg cx tabF) ch ->
  forall st st',
    calc_list dbg (wc_enc cx) (wc_lpv cx) ch st = Ok st' ->
    tab_ext (cs_abbrevs st') tabF ->
    agree_on (dies_ids ch) (wc_codes cx) (cs_codes st') ->
    NoDup (dies_ids ch) ->
    codes_ok_list dbg cx tabF ch.
Proof.
  induction 1 as [|c r Hc Hr IH]; intros st st' H X A ND; cbn [calc_list codes_ok_list] in *; [exact I|].
  apply bind_ok_inv in H. destruct H as [sA [EA H]].
  unfold dies_ids in *. cbn [flat_map] in *.
  assert (FR := calc_list_frame' _ _ _ _ _ _ H). destruct FR as [_ [_ FR]].
  assert (XR : tab_ext (cs_abbrevs sA) (cs_abbrevs st')).
  { apply (calc_list_abbrevs_ext dbg (wc_enc cx) (wc_lpv cx) r); [|exact H]. apply Forall_forall. intros d _. apply calc_abbrevs_ext. }
  split.
  - eapply Hc; [exact EA| | |eapply NoDup_app_l; eassumption].
    + eapply tab_ext_trans; eassumption.
    + intros i Hi. rewrite A by (apply in_or_app; now left). apply (FR i). eapply NoDup_app_disj; eassumption.
  - eapply IH; [exact H|exact X| |eapply NoDup_app_r; eassumption].
    intros i Hi. apply A. apply in_or_app. now right.
Qed.

Lemma calc_codes_ok dbg cx tabF : forall d, codes_stmt dbg cx tabF d.
Proof.
  induction d as [id tag sib attrs ch IH] using die_ind2. intros st st' H X A ND.
  cbn [die_ids] in *. inversion ND as [|? ? NDid NDch]; subst.
  rewrite calc_unfold in H.
  apply bind_ok_inv in H. destruct H as [ents [_ H]].
  apply bind_ok_inv in H. destruct H as [ab [Eab H]].
  destruct (abbrev_add (cs_abbrevs st) ab) as [code tab] eqn:EA.
  apply bind_ok_inv in H. destruct H as [codes [Ecodes H]].
  apply bind_ok_inv in H. destruct H as [sz [_ H]].
  apply bind_ok_inv in H. destruct H as [off1 [_ H]]. cbv zeta in H.
  destruct (set_nth_spec _ _ _ _ Ecodes) as [T1 _].
  destruct (abbrev_add_spec _ _ _ _ EA) as [L _].
  rewrite codes_ok_unfold.
  destruct ch as [|c r].
  - injection H as <-. cbn [cs_abbrevs cs_codes] in *. split; [|exact I].
    exists code, ab. split; [rewrite (A id (or_introl eq_refl)); exact T1|]. split; [exact Eab|].
    eapply abbrev_lookup_ext; eassumption.
  - apply bind_ok_inv in H. destruct H as [st2 [E2 H]].
    apply bind_ok_inv in H. destruct H as [off2 [_ H]]. injection H as <-. cbn [cs_abbrevs cs_codes] in *.
    assert (FR := calc_list_frame' _ _ _ _ _ _ E2). destruct FR as [_ [_ FR]].
    assert (X2 : tab_ext tab (cs_abbrevs st2)).
    { apply (calc_list_abbrevs_ext dbg (wc_enc cx) (wc_lpv cx) (c :: r)) in E2; [exact E2|].
      apply Forall_forall. intros d _. apply calc_abbrevs_ext. }
    split.
    + exists code, ab. split.
      * rewrite (A id (or_introl eq_refl)). destruct (FR id NDid) as [_ F2]. rewrite F2. exact T1.
      * split; [exact Eab|]. eapply abbrev_lookup_ext; [|exact L]. eapply tab_ext_trans; eassumption.
    + eapply (calc_list_codes_ok dbg cx tabF (c :: r) IH); [exact E2|exact X| |exact NDch].
      intros i Hi. apply A. now right.
Qed.

(* ------------------------------------------------------------------ roundtrip of one unit's entries *)

Theorem roundtrip_lemma dbg cx root st0 st ops pre post sec' (f : eid -> list byte) fuel rest :
  calc dbg (wc_enc cx) (wc_lpv cx) root st0 = Ok st ->
  wc_codes cx = cs_codes st ->
  write_die dbg cx root (cs_off st0) = Ok ops ->
  NoDup (die_ids root) -> die_expr_ok root -> die_decodable root ->
  cs_off st0 + ops_len ops < 2 ^ 64 ->
  (forall j y, nth_error (cs_entries st0) j = Some y -> y = 0) ->
  UnitWr.blen pre = cs_off st0 -> wc_unit_off cx <= cs_off st0 ->
  (forall id b, ref_value dbg (wc_be cx) (wc_unit cx) (wc_unit_off cx) (cs_entries st) (wsz (wc_enc cx)) id = Some b -> f id = b) ->
  (forall id, UnitWr.blen (f id) = wsz (wc_enc cx)) ->
  patch_unit_refs dbg (wc_be cx) (wc_unit cx) (wc_unit_off cx) (cs_entries st) (wsz (wc_enc cx))
                  (ops_unit_refs (cs_off st0) ops) (pre ++ ops_bytes ops ++ post) = Ok sec' ->
  ops_len ops <= N.of_nat fuel ->
  exists sd,
    sec' = pre ++ ops_resolved f ops ++ post /\
    decode_die fuel (wc_enc cx) (wc_be cx) (cs_abbrevs st) (cs_off st0) (ops_resolved f ops ++ rest) = Some (sd, rest) /\
    dmatch cx f root (cs_off st0) (cs_off st0 + ops_len ops) sd /\
    (forall id w', In (WUnitRef id w') ops ->
       exists p, In (id_idx id, p) (ops_marks (cs_off st0) ops) /\
                 nth_error (cs_entries st) (id_idx id) = Some p /\
                 fixed_num (wc_be cx) (f id) = p - wc_unit_off cx).
Proof.
  intros HC Hcodes HW ND HX HD HB HZ Hpre Hu Hf Hfl HP HF.
  destruct (refs_resolve_lemma dbg cx root st0 st ops pre post sec' f HC Hcodes HW ND HX HB HZ Hpre Hu Hf HP) as [R1 R2].
  destruct (offsets_exact_lemma _ _ _ _ _ _ HC Hcodes HW ND HX HB) as [_ [_ O3]].
  assert (CK : codes_ok dbg cx (cs_abbrevs st) root).
  { eapply calc_codes_ok; [exact HC|apply tab_ext_refl| |exact ND]. intros i _. now rewrite Hcodes. }
  destruct (decode_written dbg cx f (cs_abbrevs st) root fuel (cs_off st0) ops rest HW CK HD Hfl HB Hu HF) as [sd [D1 D2]].
  exists sd. split; [exact R1|]. split; [exact D1|]. split; [exact D2|].
  intros id w' Hi. destruct (R2 _ _ Hi) as [p [P1 [P2 _]]]. exists p. split; [exact P1|]. split; [now apply O3|].
  assert (Dd := write_udata_dec _ _ _ _ [] P2).
  assert (Lb := write_udata_len _ _ _ _ P2).
  rewrite (dec_fixed_bytes _ _ _ [] Lb) in Dd. injection Dd as Dd. rewrite Dd.
  apply N.mod_small. assert (Hge := ops_marks_ge _ _ _ _ P1).
  assert (Hm := O3 _ _ P1).
  (* p is a position inside the written bytes *)
  assert (p <= cs_off st0 + ops_len ops); [|lia].
  clear - P1. revert P1. generalize (cs_off st0) as q. induction ops as [|o r IH]; intros q P1; cbn [ops_marks] in P1; [destruct P1|].
  rewrite ops_len_cons. destruct o; try (apply IH in P1; lia).
  destruct P1 as [P1|P1]; [injection P1 as _ <-; lia|apply IH in P1; cbn [op_bytes] in *; lia].
Qed.

(* ------------------------------------------------------------------ Unit::write as a whole *)

Lemma repeat_zero_nth n j y : nth_error (repeat 0 n) j = Some y -> y = 0.
Proof. intros H. apply nth_error_In in H. now apply repeat_spec in H. Qed.

Lemma ops_len_ops_bytes ops : UnitWr.blen (ops_bytes ops) = ops_len ops.
Proof. reflexivity. Qed.

Theorem unit_write_roundtrip_lemma dbg be uidx u p lstr str info abbrev_off out :
  unit_write dbg be uidx u p lstr str info abbrev_off = Ok out ->
  exists ents1 ents2 root st line rng loc hdr,
    (* the tree: root attributes adjusted for DW_AT_stmt_list, base types first *)
    reorder_base_types ents1 = Ok ents2 /\ length ents1 = length (u_entries u) /\
    tree_of (S (length ents2)) ents2 0 = Ok root /\
    let e := u_enc u in
    let pos0 := UnitWr.blen info + UnitWr.blen hdr in
    let cx := mkWcx e be uidx (UnitWr.blen info) (cs_entries st) (cs_codes st) line lstr str rng loc (up_lp_version p) in
    calc dbg e (up_lp_version p) root (mkCst pos0 (repeat 0 (length ents2)) [] (repeat 0 (length ents2))) = Ok st /\
    uo_entries out = cs_entries st /\ uo_abbrevs out = cs_abbrevs st /\ uo_unit_off out = UnitWr.blen info /\
    (NoDup (die_ids root) -> die_expr_ok root -> die_decodable root -> UnitWr.blen (uo_info out) < 2 ^ 64 ->
     forall f : eid -> list byte,
       (forall id b, ref_value dbg be uidx (UnitWr.blen info) (cs_entries st) (wsz e) id = Some b -> f id = b) ->
       (forall id, UnitWr.blen (f id) = wsz e) ->
     exists ops hdr' sd,
       write_die dbg cx root pos0 = Ok ops /\
       uo_info out = info ++ hdr' ++ ops_resolved f ops /\ UnitWr.blen hdr' = UnitWr.blen hdr /\
       uo_fixups out = ops_fixups pos0 ops /\
       decode_die (S (length (ops_bytes ops))) e be (cs_abbrevs st) pos0 (ops_resolved f ops) = Some (sd, []) /\
       dmatch cx f root pos0 (pos0 + ops_len ops) sd /\
       (forall i q, In (i, q) (ops_marks pos0 ops) -> nth_error (uo_entries out) i = Some q) /\
       (forall id w', In (WUnitRef id w') ops ->
          exists q, In (id_idx id, q) (ops_marks pos0 ops) /\ fixed_num be (f id) = q - UnitWr.blen info)).
Proof.
  unfold unit_write. intros H.
  apply bind_ok_inv in H. destruct H as [ents1 [E1 H]].
  apply bind_ok_inv in H. destruct H as [line [Eline H]].
  apply bind_ok_inv in H. destruct H as [len0 [Elen0 H]].
  apply bind_ok_inv in H. destruct H as [hdrr [Ehdr H]].
  apply bind_ok_inv in H. destruct H as [ents2 [E2 H]].
  apply bind_ok_inv in H. destruct H as [root [Eroot H]].
  apply bind_ok_inv in H. destruct H as [st [Est H]].
  apply bind_ok_inv in H. destruct H as [rng [Erng H]].
  apply bind_ok_inv in H. destruct H as [loc [Eloc H]].
  apply bind_ok_inv in H. destruct H as [ops [Eops H]].
  apply bind_ok_inv in H. destruct H as [u0 [Eres H]].
  apply bind_ok_inv in H. destruct H as [sec2 [Esec2 H]].
  apply bind_ok_inv in H. destruct H as [sec3 [Esec3 H]]. injection H as <-.
  cbn [uo_info uo_fixups uo_unit_off uo_entries uo_abbrevs].
  set (e := u_enc u) in *. set (w := wsz e) in *.
  set (esc := if e_fmt64 e then enc_un 4 be 4294967295 else []) in *.
  set (hdr := esc ++ len0 ++ enc_un 2 be (e_ver e) ++ hdrr) in *.
  exists ents1, ents2, root, st, line, rng, loc, hdr.
  split; [exact E2|]. split.
  { clear - E1. revert E1. generalize (u_entries u) as l. intros l.
    destruct l as [|x r]; cbn [upd_nth]; [discriminate|]. intros H. injection H as <-. reflexivity. }
  split; [exact Eroot|]. cbv zeta.
  split; [exact Est|]. split; [reflexivity|]. split; [reflexivity|]. split; [reflexivity|].
  intros ND HX HD HB f Hf Hfl.
  set (pos0 := UnitWr.blen info + UnitWr.blen hdr) in *.
  set (cx := mkWcx e be uidx (UnitWr.blen info) (cs_entries st) (cs_codes st) line lstr str rng loc (up_lp_version p)) in *.
  (* the length patch rewrites only the placeholder in the header *)
  unfold write_udata_at in Esec2. apply bind_ok_inv in Esec2. destruct Esec2 as [lenb [Elenb Esec2]].
  assert (Llen0 : UnitWr.blen len0 = w) by (eapply write_udata_len; eassumption).
  assert (Llenb : UnitWr.blen lenb = w) by (eapply write_udata_len; eassumption).
  assert (Esec1 : info ++ hdr ++ ops_bytes ops =
                  (info ++ esc) ++ len0 ++ (enc_un 2 be (e_ver e) ++ hdrr ++ ops_bytes ops)).
  { unfold hdr. now rewrite <- !app_assoc. }
  rewrite Esec1 in Esec2.
  replace (UnitWr.blen info + UnitWr.blen esc) with (UnitWr.blen (info ++ esc)) in Esec2 by apply blen_app.
  rewrite write_at_app in Esec2 by (unfold UnitWr.blen in *; lia). injection Esec2 as <-.
  set (hdr' := esc ++ lenb ++ enc_un 2 be (e_ver e) ++ hdrr).
  assert (Lh : UnitWr.blen hdr' = UnitWr.blen hdr) by (unfold hdr', hdr; rewrite !blen_app; lia).
  assert (Esec2' : (info ++ esc) ++ lenb ++ enc_un 2 be (e_ver e) ++ hdrr ++ ops_bytes ops =
                   (info ++ hdr') ++ ops_bytes ops ++ []).
  { unfold hdr'. now rewrite app_nil_r, <- !app_assoc. }
  rewrite Esec2' in Esec3.
  assert (Lpre : UnitWr.blen (info ++ hdr') = pos0) by (rewrite blen_app, Lh; reflexivity).
  (* size of the section after the unit *)
  assert (Hlen3 : UnitWr.blen sec3 = UnitWr.blen (info ++ hdr') + ops_len ops).
  { clear - Esec3. set (pre := info ++ hdr') in *. set (refs := ops_unit_refs pos0 ops) in *.
    assert (G : forall refs s s', patch_unit_refs dbg be uidx (UnitWr.blen info) (cs_entries st) w refs s = Ok s' ->
                                  UnitWr.blen s' = UnitWr.blen s).
    { induction refs0 as [|[o i] r IH]; intros s s' H; cbn [patch_unit_refs] in H; [now injection H as <-|].
      binds. rewrite (IH _ _ H). unfold write_udata_at in *. binds. unfold write_at in *.
      destruct (UnitWr.blen s <? o) eqn:L1; [discriminate|]. destruct (UnitWr.blen s - o <? UnitWr.blen a2) eqn:L2; [discriminate|].
      match goal with E : Ok _ = Ok _ |- _ => injection E as <- end.
      apply N.ltb_ge in L1. apply N.ltb_ge in L2.
      unfold UnitWr.blen in *. rewrite !app_length, firstn_length, skipn_length. lia. }
    rewrite (G _ _ _ Esec3). rewrite !blen_app. rewrite blen_nil. unfold ops_len. lia. }
  assert (HB' : pos0 + ops_len ops < 2 ^ 64) by (rewrite <- Lpre, <- Hlen3; exact HB).
  destruct (roundtrip_lemma dbg cx root (mkCst pos0 (repeat 0 (length ents2)) [] (repeat 0 (length ents2))) st ops
              (info ++ hdr') [] sec3 f (S (length (ops_bytes ops))) []) as [sd [R1 [R2 [R3 R4]]]];
    try assumption; try reflexivity.
  { intros j y Hj. cbn [cs_entries] in Hj. eapply repeat_zero_nth; eassumption. }
  { cbn [cs_off wc_unit_off cx]. unfold pos0. lia. }
  { unfold ops_len, UnitWr.blen. lia. }
  destruct (offsets_exact_lemma dbg cx root _ st ops Est eq_refl Eops ND HX HB') as [_ [_ O3]].
  exists ops, hdr', sd. split; [exact Eops|]. split; [rewrite R1, app_nil_r, <- app_assoc; reflexivity|].
  split; [exact Lh|]. split; [reflexivity|]. rewrite app_nil_r in R2. split; [exact R2|]. split; [exact R3|].
  split; [exact O3|].
  intros id w' Hi. destruct (R4 _ _ Hi) as [q [Q1 [_ Q3]]]. exists q. split; [exact Q1|exact Q3].
Qed.

(* ------------------------------------------------------------------ after the repairs c42c00d / c92c4f4 *)

(* ... and it is reported as Err(InvalidReference), without a panic, also when the id lies beyond the
   entries vector (reserved, never added, nothing added after it): the first such reference ends the write *)
Lemma dassert_unit dbg unit id : (dbg = true -> id_unit id = unit) -> dassert dbg (Nat.eqb unit (id_unit id)) = Ok tt.
Proof.
  intros H. destruct dbg; [|reflexivity]. rewrite (H eq_refl), Nat.eqb_refl. apply dassert_true.
Qed.

Lemma unit_offset_dangling dbg e lpv root st0 st unit unit_off id :
  calc dbg e lpv root st0 = Ok st ->
  (forall j y, nth_error (cs_entries st0) j = Some y -> y = 0) ->
  ~ In (id_idx id) (die_ids root) -> (dbg = true -> id_unit id = unit) ->
  unit_offset dbg unit unit_off (cs_entries st) id = Ok None.
Proof.
  intros HC HZ Hn Hu. unfold unit_offset, debug_info_offset. rewrite (dassert_unit _ _ _ Hu). cbn [bind].
  destruct (nth_error (cs_entries st) (id_idx id)) as [x|] eqn:En; [|reflexivity].
  destruct (calc_frame _ _ _ _ _ _ HC) as [_ [_ F]]. destruct (F _ Hn) as [F1 _].
  rewrite F1 in En. apply HZ in En. subst x. reflexivity.
Qed.

Theorem dangling_ref_invalid_reference_lemma dbg e lpv root st0 st be unit unit_off w r sec off id :
  calc dbg e lpv root st0 = Ok st ->
  (forall j y, nth_error (cs_entries st0) j = Some y -> y = 0) ->
  ~ In (id_idx id) (die_ids root) -> (dbg = true -> id_unit id = unit) ->
  patch_unit_refs dbg be unit unit_off (cs_entries st) w ((off, id) :: r) sec = Err WInvalidReference.
Proof.
  intros HC HZ Hn Hu. cbn [patch_unit_refs]. rewrite (unit_offset_dangling _ _ _ _ _ _ _ _ _ HC HZ Hn Hu). reflexivity.
Qed.

Lemma write_at_no_panic sec off bs : write_at sec off bs <> Panic.
Proof. unfold write_at. destruct (_ <? off); [discriminate|]. destruct (_ <? _); discriminate. Qed.

(* patching the unit-relative references never panics when the ids were issued by this unit *)
Theorem patch_unit_refs_no_panic_lemma dbg be unit unit_off entries w : forall refs sec,
  (forall off id, In (off, id) refs -> dbg = true -> id_unit id = unit) ->
  (forall i x, nth_error entries i = Some x -> x <> 0 -> unit_off <= x) ->
  patch_unit_refs dbg be unit unit_off entries w refs sec <> Panic.
Proof.
  induction refs as [|[off id] r IH]; intros sec Hu Hx; cbn [patch_unit_refs]; [discriminate|].
  unfold unit_offset, debug_info_offset.
  rewrite (dassert_unit dbg unit id (Hu off id (or_introl eq_refl))). cbn [bind].
  destruct (nth_error entries (id_idx id)) as [x|] eqn:En; [|discriminate]. cbn [bind].
  destruct (x =? 0) eqn:Z; [discriminate|]. apply N.eqb_neq in Z.
  rewrite chk_sub_ok by (eapply Hx; eassumption). cbn [bind of_option].
  unfold write_udata_at.
  assert (Nu := write_udata_no_panic be (x - unit_off) w).
  destruct (write_udata be (x - unit_off) w) as [b| | |]; try discriminate; [|contradiction]. cbn [bind].
  assert (Na := write_at_no_panic sec off b).
  destruct (write_at sec off b) as [sec1| | |]; try discriminate; [|contradiction]. cbn [bind].
  apply IH; [|exact Hx]. intros o i Hi. apply (Hu o i). now right.
Qed.

(* what a reader using the line program's numbering finds for a written file index *)
Definition file_of_raw (lpv raw : N) : option N :=
  if lpv <=? 4 then (if raw =? 0 then None else Some (raw - 1)) else Some raw.

Lemma file_index_roundtrip_lemma dbg lpv i r :
  i + 1 < 2 ^ 64 -> file_raw dbg lpv (Some i) = Ok r -> file_of_raw lpv r = Some i.
Proof.
  intros B H. apply file_raw_val in H. unfold file_of_raw. destruct (lpv <=? 4); [|now subst].
  unfold wrapN in H. rewrite N.mod_small in H by exact B. subst r.
  replace (i + 1 =? 0) with false by (symmetry; apply N.eqb_neq; lia). f_equal. lia.
Qed.

