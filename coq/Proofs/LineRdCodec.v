(* Proofs/LineRdCodec.v — the readers of Model/Leb.v, Model/Prim.v invert the reference encoders of the
   specs (canonical LEB128, fixed-width) — the facts the instruction/header round trips rest on. *)
From Coq Require Import List NArith ZArith Bool Lia ZifyBool ZifyN ZifyNat.
From Coq.Strings Require Import Byte.
Require Import GV.Base.Res GV.Base.Byt GV.Base.Ints GV.Model.Leb GV.Model.Prim GV.Spec.LebSpec GV.Spec.LineSpec
               GV.Proofs.LineRdBase.
Import ListNotations.
Local Open Scope N_scope.
Local Ltac Zify.zify_post_hook ::= Z.div_mod_to_equations.
Local Arguments N.add : simpl never.
Local Arguments N.sub : simpl never.
Local Arguments N.mul : simpl never.
Local Arguments N.shiftl : simpl never.
Local Arguments N.shiftr : simpl never.
Local Arguments N.land : simpl never.
Local Arguments N.lor : simpl never.
Local Arguments N.pow : simpl never.
Local Arguments N.modulo : simpl never.
Local Arguments N.div : simpl never.

(* ---------------------------------------------------------------- bit facts *)
Lemma testbit_small a s n : a < 2 ^ s -> s <= n -> N.testbit a n = false.
Proof.
  intros H L. destruct (N.eq_dec a 0) as [->|NZ]; [apply N.bits_0|].
  apply N.bits_above_log2. apply N.log2_lt_pow2 in H; lia.
Qed.
Lemma land_shift_small a b s : a < 2 ^ s -> N.land a (N.shiftl b s) = 0.
Proof.
  intros H. apply N.bits_inj_0. intros n. rewrite N.land_spec.
  destruct (N.ltb_spec n s).
  - rewrite N.shiftl_spec_low by assumption. apply andb_false_r.
  - rewrite (testbit_small a s n) by assumption. reflexivity.
Qed.
Lemma lor_shift_add a b s : a < 2 ^ s -> N.lor a (N.shiftl b s) = a + N.shiftl b s.
Proof.
  intros H. pose proof (land_shift_small a b s H) as L.
  rewrite (N.add_nocarry_lxor _ _ L). symmetry. now apply N.lxor_lor.
Qed.

(* bytes: continuation bit and payload, by a sweep over all 256 values *)
Lemma byte_bits x : x < 256 ->
  (x < 128 -> has_cont x = false /\ low7 x = x) /\
  (128 <= x -> has_cont x = true /\ low7 x = x - 128).
Proof.
  intros Hx.
  assert (S := sweep256 (fun x => if x <? 128 then negb (has_cont x) && (low7 x =? x)
                                  else has_cont x && (low7 x =? x - 128))
                        ltac:(vm_compute; reflexivity) x Hx).
  cbn beta in S. destruct (x <? 128) eqn:E.
  - apply andb_true_iff in S as [S1 S2]. split; [|lia]. intros _. split; [now destruct (has_cont x)|lia].
  - apply andb_true_iff in S as [S1 S2]. split; [lia|]. intros _. split; [assumption|lia].
Qed.

Ltac pow_eval :=
  repeat match goal with
  | |- context[2 ^ ?e] => let c := eval vm_compute in (2 ^ e) in change (2 ^ e) with c
  | H : context[2 ^ ?e] |- _ => let c := eval vm_compute in (2 ^ e) in change (2 ^ e) with c in H
  end.

(* ---------------------------------------------------------------- unsigned LEB128 *)
Lemma uleb_loop_enc dbg : forall f k v result tail shift P Q,
  shift = 7 * N.of_nat k -> P = 2 ^ shift -> Q = 2 ^ (64 - shift) ->
  (1 <= k <= 9)%nat -> result < P -> v < Q -> (10 <= f + k)%nat ->
  uleb_loop dbg result shift (enc_uleb_fuel f v ++ tail) = Ok (result + v * P, tail).
Proof.
  induction f as [|f IH]; intros k v result tail shift P Q Hs HP HQ Hk Hr Hv Hf; [lia|].
  cbn [enc_uleb_fuel].
  destruct (v <? 128) eqn:Ev.
  - (* last byte *)
    cbn [app uleb_loop]. rewrite b2n_n2b_small by lia.
    destruct (byte_bits v ltac:(lia)) as [[C L] _]; [lia|]. rewrite C, L.
    assert (E63 : (shift =? 63) && negb (v =? 0) && negb (v =? 1) = false).
    { destruct (shift =? 63) eqn:E; [|reflexivity]. apply N.eqb_eq in E.
      assert (k = 9)%nat by lia. subst k. subst shift. vm_compute in HQ. subst Q.
      destruct (v =? 0) eqn:E0; [reflexivity|]. destruct (v =? 1) eqn:E1; [reflexivity|]. lia. }
    rewrite E63. unfold shl64.
    assert (shift < 64) by lia. destruct (64 <=? shift) eqn:E64; [lia|]. cbn [bind].
    assert (W : wrap64 (N.shiftl v shift) = N.shiftl v shift).
    { apply wrap64_small. rewrite N.shiftl_mul_pow2. rewrite <- HP.
      assert (P * Q = two64).
      { subst P Q. rewrite <- N.pow_add_r. replace (shift + (64 - shift)) with 64 by lia. reflexivity. }
      assert (v * P < Q * P) by (apply N.mul_lt_mono_pos_r; lia). lia. }
    rewrite W, lor_shift_add by (rewrite <- HP; exact Hr).
    rewrite N.shiftl_mul_pow2, <- HP. reflexivity.
  - (* continuation byte *)
    cbn [app uleb_loop].
    assert (M : v mod 128 < 128) by (apply N.mod_lt; lia).
    rewrite b2n_n2b_small by lia.
    destruct (byte_bits (128 + v mod 128) ltac:(lia)) as [_ [C L]]; [lia|]. rewrite C, L.
    replace (128 + v mod 128 - 128) with (v mod 128) by lia.
    assert (K8 : (k <= 8)%nat).
    { destruct (Nat.eq_dec k 9) as [->|]; [|lia]. subst shift. vm_compute in HQ. subst Q. lia. }
    assert (E63 : (shift =? 63) = false) by (apply N.eqb_neq; lia).
    rewrite E63. cbn [andb]. unfold shl64.
    destruct (64 <=? shift) eqn:E64; [lia|]. cbn [bind].
    assert (PQ : P * Q = two64).
    { subst P Q. rewrite <- N.pow_add_r. replace (shift + (64 - shift)) with 64 by lia. reflexivity. }
    assert (Q128 : Q = 128 * 2 ^ (64 - (shift + 7))).
    { subst Q. change 128 with (2 ^ 7). rewrite <- N.pow_add_r. f_equal. lia. }
    assert (W : wrap64 (N.shiftl (v mod 128) shift) = N.shiftl (v mod 128) shift).
    { apply wrap64_small. rewrite N.shiftl_mul_pow2. rewrite <- HP.
      assert (v mod 128 * P < Q * P) by (apply N.mul_lt_mono_pos_r; lia). lia. }
    rewrite W, lor_shift_add by (rewrite <- HP; exact Hr).
    rewrite N.shiftl_mul_pow2, <- HP.
    assert (G1 : shift + 7 = 7 * N.of_nat (S k)) by lia.
    assert (G2 : 128 * P = 2 ^ (shift + 7)).
    { subst P. change 128 with (2 ^ 7). rewrite <- N.pow_add_r. f_equal. lia. }
    assert (G5 : result + v mod 128 * P < 128 * P).
    { assert (v mod 128 * P <= 127 * P) by (apply N.mul_le_mono_r; lia). lia. }
    assert (G6 : v / 128 < 2 ^ (64 - (shift + 7))).
    { set (Q' := 2 ^ (64 - (shift + 7))) in *. apply N.div_lt_upper_bound; lia. }
    rewrite (IH (S k) (v / 128) (result + v mod 128 * P) tail (shift + 7) (128 * P) (2 ^ (64 - (shift + 7)))
                G1 G2 eq_refl ltac:(lia) G5 G6 ltac:(lia)).
    f_equal. f_equal. pose proof (N.div_mod v 128 ltac:(lia)). lia.
Qed.

Lemma read_uleb128_enc dbg v tail : v < two64 -> read_uleb128 dbg (enc_uleb v ++ tail) = Ok (v, tail).
Proof.
  intros Hv. unfold enc_uleb.
  change (enc_uleb_fuel 19 v) with
    (if v <? 128 then [n2b v] else n2b (128 + v mod 128) :: enc_uleb_fuel 18 (v / 128)).
  destruct (v <? 128) eqn:Ev.
  - cbn [app read_uleb128]. rewrite b2n_n2b_small by lia.
    destruct (byte_bits v ltac:(lia)) as [[C L] _]; [lia|]. rewrite C. reflexivity.
  - cbn [app read_uleb128].
    assert (M : v mod 128 < 128) by (apply N.mod_lt; lia).
    rewrite b2n_n2b_small by lia.
    destruct (byte_bits (128 + v mod 128) ltac:(lia)) as [_ [C L]]; [lia|]. rewrite C, L.
    replace (128 + v mod 128 - 128) with (v mod 128) by lia.
    rewrite (uleb_loop_enc dbg 18 1 (v / 128) (v mod 128) tail 7 128 (2 ^ 57)); try reflexivity; try lia.
    + f_equal. f_equal. pose proof (N.div_mod v 128 ltac:(lia)). lia.
    + change (2 ^ 57) with 144115188075855872. unfold two64 in Hv. apply N.div_lt_upper_bound; lia.
Qed.

(* ---------------------------------------------------------------- signed LEB128 *)
Lemma byte_bit6 x : x < 128 -> (N.land x 64 =? 64) = (64 <=? x).
Proof.
  intros Hx.
  assert (S := sweep256 (fun x => implb (x <? 128) (Bool.eqb (N.land x 64 =? 64) (64 <=? x)))
                        ltac:(vm_compute; reflexivity) x ltac:(lia)).
  cbn beta in S. destruct (x <? 128) eqn:E; [|lia]. cbn in S. now apply Bool.eqb_prop in S.
Qed.

Ltac numerals :=
  repeat match goal with
  | |- context[7 * N.of_nat ?c] => let v := eval vm_compute in (7 * N.of_nat c) in change (7 * N.of_nat c) with v
  | H : context[7 * N.of_nat ?c] |- _ => let v := eval vm_compute in (7 * N.of_nat c) in change (7 * N.of_nat c) with v in H
  end;
  repeat match goal with
  | |- context[2 ^ ?e] => let c := eval vm_compute in (2 ^ e) in change (2 ^ e) with c
  | H : context[2 ^ ?e] |- _ => let c := eval vm_compute in (2 ^ e) in change (2 ^ e) with c in H
  end.

Lemma sleb_loop_enc dbg : forall f k z result tail,
  (k <= 9)%nat -> result < 2 ^ (7 * N.of_nat k) ->
  (- Z.of_N (2 ^ (63 - 7 * N.of_nat k)) <= z < Z.of_N (2 ^ (63 - 7 * N.of_nat k)))%Z ->
  (10 <= f + k)%nat ->
  sleb_loop dbg result (7 * N.of_nat k) (enc_sleb_fuel f z ++ tail) =
  Ok (to_i64 (Z.to_N ((Z.of_N result + z * Z.of_N (2 ^ (7 * N.of_nat k))) mod 18446744073709551616)), tail).
Proof.
  induction f as [|f IH]; intros k z result tail Hk Hr Hz Hf; [lia|].
  cbn [enc_sleb_fuel].
  set (low := (z mod 128)%Z). set (rest := (z / 128)%Z).
  assert (Hlow : (0 <= low < 128)%Z) by (subst low; lia).
  assert (Hzz : z = (128 * rest + low)%Z) by (subst low rest; lia).
  destruct (((rest =? 0)%Z && (low <? 64)%Z) || ((rest =? -1)%Z && (64 <=? low)%Z)) eqn:T.
  - (* terminal byte *)
    cbn [app sleb_loop]. rewrite b2n_n2b_small by lia.
    destruct (byte_bits (Z.to_N low) ltac:(lia)) as [[C L] _]; [lia|]. rewrite C, L.
    rewrite (byte_bit6 (Z.to_N low)) by lia.
    assert (Kc : (k = 0 \/ k = 1 \/ k = 2 \/ k = 3 \/ k = 4 \/ k = 5 \/ k = 6 \/ k = 7 \/ k = 8 \/ k = 9)%nat) by lia.
    destruct Kc as [K|[K|[K|[K|[K|[K|[K|[K|[K|K]]]]]]]]]; subst k; numerals.
    10:{ (* shift = 63: z is 0 or -1 *)
      assert (Z0 : z = 0%Z \/ z = (-1)%Z) by lia.
      destruct Z0 as [-> | ->].
      - subst low. change (Z.to_N (0 mod 128)) with 0.
        change ((63 =? 63) && negb (0 =? 0) && negb (0 =? 127)) with false. cbv iota.
        change (shl64 dbg 0 63) with (Ok 0 : res N). cbn [bind].
        change (63 + 7 <? 64) with false. cbn [andb]. rewrite N.lor_0_r. f_equal. f_equal. f_equal. lia.
      - subst low. change (Z.to_N (-1 mod 128)) with 127.
        change ((63 =? 63) && negb (127 =? 0) && negb (127 =? 127)) with false. cbv iota.
        change (shl64 dbg 127 63) with (Ok (N.shiftl 1 63) : res N). cbn [bind].
        rewrite lor_shift_add by (change (2 ^ 63) with 9223372036854775808; exact Hr).
        change (63 + 7 <? 64) with false. cbn [andb]. f_equal. f_equal. f_equal.
        change (N.shiftl 1 63) with 9223372036854775808. lia. }
    all: match goal with |- context[(?s =? 63) && _ && _] => change (s =? 63) with false end; cbn [andb].
    all: match goal with |- context[shl64 ?d ?x ?s] =>
           change (shl64 d x s) with (Ok (wrap64 (N.shiftl x s)) : res N) end; cbn [bind].
    all: match goal with |- context[wrap64 (N.shiftl ?x ?s)] =>
           rewrite (wrap64_small (N.shiftl x s)) by (rewrite N.shiftl_mul_pow2; numerals; unfold two64; lia) end.
    all: match goal with |- context[N.lor ?r0 (N.shiftl ?x ?s)] =>
           rewrite (lor_shift_add r0 x s) by (numerals; assumption) end.
    all: match goal with |- context[(?s + 7 <? 64)] => change (s + 7 <? 64) with true end; cbn [andb].
    all: match goal with |- context[64 <=? ?x] => destruct (64 <=? x) eqn:E6 end.
    all: try match goal with |- context[shl64 ?d (two64 - 1) ?s] =>
           let v := eval vm_compute in (wrap64 (N.shiftl (two64 - 1) s)) in
           change (shl64 d (two64 - 1) s) with (Ok v : res N) end; cbn [bind].
    all: rewrite N.shiftl_mul_pow2; numerals.
    all: f_equal; f_equal.
    (* sign bit set: lor with the all-ones tail *)
    all: try match goal with |- to_i64 (N.lor ?a ?ones) = _ =>
           let s := match goal with |- context[Z.to_N _ * ?p] => constr:(N.log2 p + 7) end in
           let sv := eval vm_compute in s in
           let b := eval vm_compute in (ones / 2 ^ sv) in
           replace ones with (N.shiftl b sv) by (vm_compute; reflexivity);
           rewrite (lor_shift_add a b sv) by (numerals; lia);
           rewrite N.shiftl_mul_pow2; numerals end.
    all: f_equal; lia.
  - (* continuation byte *)
    cbn [app sleb_loop]. rewrite b2n_n2b_small by lia.
    destruct (byte_bits (128 + Z.to_N low) ltac:(lia)) as [_ [C L]]; [lia|]. rewrite C, L.
    replace (128 + Z.to_N low - 128) with (Z.to_N low) by lia.
    assert (Kc : (k = 0 \/ k = 1 \/ k = 2 \/ k = 3 \/ k = 4 \/ k = 5 \/ k = 6 \/ k = 7 \/ k = 8 \/ k = 9)%nat) by lia.
    destruct Kc as [K|[K|[K|[K|[K|[K|[K|[K|[K|K]]]]]]]]]; subst k; numerals.
    10:{ exfalso. assert (Z0 : z = 0%Z \/ z = (-1)%Z) by lia. destruct Z0 as [-> | ->]; subst low rest; discriminate T. }
    all: match goal with |- context[(?s =? 63) && _ && _] => change (s =? 63) with false end; cbn [andb].
    all: match goal with |- context[shl64 ?d ?x ?s] =>
           change (shl64 d x s) with (Ok (wrap64 (N.shiftl x s)) : res N) end; cbn [bind].
    all: match goal with |- context[wrap64 (N.shiftl ?x ?s)] =>
           rewrite (wrap64_small (N.shiftl x s)) by (rewrite N.shiftl_mul_pow2; numerals; unfold two64; lia) end.
    all: match goal with |- context[N.lor ?r0 (N.shiftl ?x ?s)] =>
           rewrite (lor_shift_add r0 x s) by (numerals; assumption) end.
    all: rewrite N.shiftl_mul_pow2; numerals.
    1: specialize (IH 1%nat rest). 2: specialize (IH 2%nat rest). 3: specialize (IH 3%nat rest).
    4: specialize (IH 4%nat rest). 5: specialize (IH 5%nat rest). 6: specialize (IH 6%nat rest).
    7: specialize (IH 7%nat rest). 8: specialize (IH 8%nat rest). 9: specialize (IH 9%nat rest).
    all: numerals.
    all: match goal with |- context[sleb_loop _ _ (?s + 7) _] =>
           let v := eval vm_compute in (s + 7) in change (s + 7) with v end.
    all: match goal with |- sleb_loop _ ?r ?s _ = _ => specialize (IH r tail) end.
    all: rewrite IH by lia.
    all: f_equal; f_equal; f_equal; f_equal; lia.
Qed.

Lemma to_i64_of_mod z : (-9223372036854775808 <= z < 9223372036854775808)%Z ->
  to_i64 (Z.to_N (z mod 18446744073709551616)) = z.
Proof.
  intros H. unfold to_i64, to_signed, wrapN. change (64 - 1) with 63. pow_eval.
  set (x := Z.to_N (z mod 18446744073709551616)).
  assert (X : Z.of_N x = (z mod 18446744073709551616)%Z) by (subst x; lia).
  assert (Xs : x mod 18446744073709551616 = x) by (apply N.mod_small; lia).
  rewrite Xs. destruct (x <? 9223372036854775808) eqn:E; lia.
Qed.

Lemma read_sleb128_enc dbg z tail : (-9223372036854775808 <= z < 9223372036854775808)%Z ->
  read_sleb128 dbg (enc_sleb z ++ tail) = Ok (z, tail).
Proof.
  intros Hz. unfold read_sleb128, enc_sleb.
  pose proof (sleb_loop_enc dbg 19 0 z 0 tail ltac:(lia)) as S.
  change (7 * N.of_nat 0) with 0 in S. change (63 - 0) with 63 in S. pow_eval.
  rewrite S by lia. f_equal. f_equal.
  replace (Z.of_N 0 + z * Z.of_N 1)%Z with z by lia. now apply to_i64_of_mod.
Qed.

(* ---------------------------------------------------------------- fixed-width *)
Lemma take_app_exact : forall h t, take (length h) (h ++ t) = Some (h, t).
Proof. induction h as [|b h IH]; intros t; simpl; [reflexivity|]. now rewrite IH. Qed.

Lemma le_enc_length : forall n v, length (le_enc n v) = n.
Proof. induction n as [|n IH]; intros v; simpl; [reflexivity|]. now rewrite IH. Qed.

Lemma le_val_le_enc : forall n v, le_val (le_enc n v) = v mod 256 ^ N.of_nat n.
Proof.
  induction n as [|n IH]; intros v.
  - simpl. now rewrite N.mod_1_r.
  - cbn [le_enc le_val]. rewrite IH, b2n_n2b, Nat2N.inj_succ, N.pow_succ_r'.
    rewrite N.mod_mul_r; [reflexivity|lia|]. apply N.pow_nonzero. lia.
Qed.

Lemma read_un_enc n be v tail : v < 256 ^ N.of_nat n -> read_un n be (enc_fixed n be v ++ tail) = Ok (v, tail).
Proof.
  intros H. unfold read_un, read_bytes, enc_fixed.
  assert (L : length (if be then rev (le_enc n v) else le_enc n v) = n).
  { destruct be; [rewrite rev_length|]; apply le_enc_length. }
  rewrite <- L at 1. rewrite take_app_exact. cbn [bind]. f_equal. f_equal.
  destruct be.
  - unfold be_val. rewrite rev_involutive, le_val_le_enc. now apply N.mod_small.
  - rewrite le_val_le_enc. now apply N.mod_small.
Qed.
