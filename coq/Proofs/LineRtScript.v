(* Proofs/LineRtScript.v — whole scripts of writer calls emit programs that are well-formed for the line
   READER's specification; hence (C04 rows_refine_spec) LineRd.rows_model over the written program bytes
   equals the meaning of the script. Part of property C13. *)
From Coq Require Import List NArith ZArith Bool Lia ZifyBool ZifyN ZifyNat.
From Coq.Strings Require Import Byte.
Require Import GV.Base.Res GV.Base.Byt GV.Base.Ints GV.Model.Leb GV.Model.Prim.
Require Import GV.Spec.LineSpec GV.Model.LineRd GV.Proofs.LineRdRefine GV.Proofs.LineRdInsn.
Require GV.Spec.LineAdvSpec GV.Model.LineWr GV.Proofs.LineWrProofs GV.Proofs.LineWrSeqProofs.
Require Import GV.Proofs.LineRtBytes GV.Proofs.LineRtRows.
Import ListNotations.

Local Ltac Zify.zify_post_hook ::= Z.div_mod_to_equations.
Local Open Scope Z_scope.

(* the u64 row fields of the writer API *)
Definition wrow_u64 (row : W.wrow) : Prop :=
  (W.w_file row + 1 < 18446744073709551616 /\ W.w_column row < 18446744073709551616 /\
   W.w_isa row < 18446744073709551616 /\ W.w_discriminator row < 18446744073709551616)%N.

(* generate_row = field instructions ++ line chunks ++ advance instructions *)
Lemma generate_row_struct dbg p row p' :
  W.generate_row dbg (W.set_row row p) = Ok p' ->
  exists chunks d opa adv,
    W.line_chunks 3 (Z.of_N (W.w_line row) - Z.of_N (W.w_line (W.p_prev p))) = Ok (chunks, d) /\
    W.op_advance dbg (W.p_lenc p) (W.clear_row_flags row) (W.p_prev p) = Ok opa /\
    W.advance_insns dbg (W.p_lenc p) (wrap_signed 64 d) opa = Ok adv /\
    W.p_insns p' = W.p_insns p ++ (W.field_insns row (W.p_prev p) ++ chunks ++ adv).
Proof.
  unfold W.generate_row. cbn [W.p_row W.p_prev W.p_lenc W.set_row W.clear_row_flags W.w_line].
  intros H. apply bind_ok in H as ([chunks d] & H1 & H).
  apply bind_ok in H as (opa & H2 & H). apply bind_ok in H as (adv & H3 & H).
  inversion H; subst p'. exists chunks, d, opa, adv. repeat split; assumption.
Qed.

Section WithHeader.
Variables (e : W.enc) (l : W.lenc) (h : header).
Hypothesis HM : hdr_matches e l h.
Hypothesis HP : enc_params_ok e l.
Let ver := W.e_version e.
Let P : pwf h := hdr_matches_pwf e l h HM HP.

Definition fieldlike (i : W.linsn) : Prop :=
  neutral (tr ver i) /\ insn_wf h (tr ver i) = true /\ insn_enc_ok e i /\ nosym i.

Lemma fieldlike_intro i :
  match i with
  | W.ISetFile f => (f + 1 < 18446744073709551616)%N
  | W.ISetColumn n | W.ISetIsa n | W.ISetDiscriminator n => (n < 18446744073709551616)%N
  | W.INegateStatement | W.ISetBasicBlock | W.ISetPrologueEnd | W.ISetEpilogueBegin => True
  | _ => False
  end -> fieldlike i.
Proof.
  intros H. unfold fieldlike.
  destruct i; try contradiction; cbn [tr neutral insn_wf insn_enc_ok nosym];
    rewrite ?(std_known_ok e l h HM) by lia; unfold u64b, two64; repeat split; try exact I; try lia.
  fold ver. destruct (ver <=? 4)%N; lia.
Qed.

Lemma fields_like row prev : wrow_u64 row -> Forall fieldlike (W.field_insns row prev).
Proof.
  intros (Hf & Hc & Hi & Hd). unfold W.field_insns.
  repeat (apply Forall_app; split);
    match goal with |- Forall _ (if ?c then _ else _) => destruct c end;
    try constructor; try constructor; try (apply fieldlike_intro; cbn; try exact I; assumption).
Qed.

Lemma fieldlike_wf : forall is s, Forall fieldlike is -> bounds h s ->
  prog_wf_from h s (map (tr ver) is) = true /\ Forall (insn_enc_ok e) is /\ Forall nosym is.
Proof.
  induction is as [|i is IH]; intros s Hf Hb; [repeat split; constructor|].
  inversion Hf as [|x xs (Hn & Hw & He & Hs) Hrest]; subst.
  destruct (neutral_step h s _ Hn Hb Hw) as [Hstep Hb'].
  destruct (IH _ Hrest Hb') as (W1 & E1 & N1).
  cbn [map prog_wf_from]. rewrite Hstep, W1. repeat split; constructor; assumption.
Qed.

(* one generate_row call *)
Lemma generate_row_wf dbg p row r new :
  W.p_lenc p = l -> W.p_enc p = e ->
  P1.enc_ok l -> P1.synced ver (W.p_prev p) r -> P2.row_ok l (W.p_prev p) row -> wrow_u64 row ->
  bounds h (r2s r) ->
  bounds h (r2s (P2.row_regs ver r (W.w_address_offset (W.p_prev p)) row)) ->
  W.generate_row dbg (W.set_row row p) =
    Ok (W.set_prev (W.clear_row_flags row) (W.set_row (W.clear_row_flags row)
          (W.push_insns new (W.set_in_seq true (W.set_row row p))))) ->
  prog_wf_from h (r2s r) (map (tr ver) new) = true /\ Forall (insn_enc_ok e) new /\ Forall nosym new.
Proof.
  intros Hl He Hok Hsync Hrow Hu64 Hb HbF Hgen.
  destruct (generate_row_struct dbg p row _ Hgen) as (chunks & d & opa & adv & Hch & Hop & Hadv & Hins).
  cbn [W.p_insns W.set_prev W.set_row W.push_insns W.set_in_seq] in Hins.
  apply app_inv_head in Hins. subst new. rewrite Hl in *.
  set (prev := W.p_prev p) in *.
  pose proof Hrow as (Hstep & Hpl & Hrl & Hq).
  pose proof Hsync as (Sop & Sfile & Sline & Scol & Sstmt & Sisa & Sdisc & Sbb & Spe & Seb & Ses).
  (* the operation advance *)
  assert (Eop : W.op_advance dbg l (W.clear_row_flags row) prev = W.op_advance dbg l row prev) by reflexivity.
  rewrite Eop, (P2.op_advance_ok dbg l row prev Hok Hstep Hq) in Hop. inversion Hop; subst opa. clear Hop Eop.
  set (oadv := P2.op_advance_value l (W.w_address_offset prev) (W.w_op_index prev) (W.w_address_offset row)
                 (W.w_op_index row)) in *.
  pose proof Hstep as (Hle & Hpm & Hm & Hpo & Ho & Hmono).
  assert (Hoadv : (oadv < 18446744073709551616)%N /\ (Z.of_N (W.w_op_index prev) + Z.of_N oadv < two64z)).
  { pose proof HP as (_ & _ & Hmops256 & _). unfold oadv, P2.op_advance_value, two64z.
    set (q := ((W.w_address_offset row - W.w_address_offset prev) / W.le_min_len l * W.le_max_ops l)%N) in *. lia. }
  (* fields *)
  destruct (fieldlike_wf _ (r2s r) (fields_like row prev Hu64) Hb) as (W1 & E1 & N1).
  pose proof (P1.row_fields ver (W.params_of l) row prev r Hsync) as Rf.
  destruct (srun_iso e l h _ r _ _ HM N1 Ses Rf) as [If Ef]. fold ver in If.
  set (r1 := P1.fields_set ver row r) in *.
  assert (Hb1 : bounds h (r2s r1)) by exact Hb.
  (* chunks *)
  destruct (chunks_wf e l h HM 3 _ (r2s r1) chunks d Hch Hb1) as (W2 & R2 & E2 & N2 & B2 & D2).
  { cbn. rewrite Sline. unfold two64z. lia. }
  set (delta := Z.of_N (W.w_line row) - Z.of_N (W.w_line prev)) in *.
  set (r2 := A.line_adv (delta - d) r1) in *.
  change (s_add_line (delta - d) (r2s r1)) with (r2s r2) in R2, B2.
  (* advance *)
  assert (Hd : P1.i64 d) by exact D2.
  rewrite (P2.wrap_signed64_id d Hd) in Hadv.
  assert (Hreg2 : P1.regs_ok (W.params_of l) r2).
  { unfold P1.regs_ok. cbn. rewrite Sop. destruct Hok as (_ & _ & _ & _ & ?). lia. }
  assert (EF : A.op_adv (W.params_of l) (Z.of_N oadv) (A.line_adv d r2) =
               P2.row_regs ver r (W.w_address_offset prev) row).
  { unfold oadv. rewrite (P2.op_advance_vliw l _ _ _ _ _ Hok Hstep) by (cbn; exact Sop).
    unfold P2.row_regs. cbn. f_equal. unfold delta. lia. }
  destruct (advance_wf e l h HM HP dbg d oadv adv r2 Hok Hd (proj1 Hoadv) Hadv Hreg2 Ef B2) as (W3 & E3 & N3).
  { rewrite EF. exact HbF. }
  { cbn. rewrite Sop. exact (proj2 Hoadv). }
  fold ver in W2, R2, W3.
  rewrite !map_app, !prog_wf_from_app. rewrite If. cbn [snd]. rewrite R2. cbn [snd].
  rewrite W1, W2, W3. split; [reflexivity|].
  split; (apply Forall_app; split; [assumption | apply Forall_app; split; assumption]).
Qed.

(* one end_sequence call *)
Lemma end_sequence_wf dbg p off opi r new :
  W.p_lenc p = l ->
  P1.enc_ok l -> P1.synced ver (W.p_prev p) r -> P2.end_ok l (W.p_prev p) off opi ->
  bounds h (r2s r) ->
  bounds h (r2s (P2.end_regs r (W.w_address_offset (W.p_prev p)) off opi)) ->
  W.end_sequence dbg (W.set_row (W.with_op_index (W.p_row p) opi) p) off =
    Ok (W.set_prev (W.wrow_initial (W.p_enc p) (W.p_lenc p)) (W.set_row (W.wrow_initial (W.p_enc p) (W.p_lenc p))
          (W.push_insns new (W.set_in_seq false (W.set_row (W.with_op_index (W.p_row p) opi) p))))) ->
  prog_wf_from h (r2s r) (map (tr ver) new) = true /\ Forall (insn_enc_ok e) new /\ Forall nosym new.
Proof.
  intros Hl Hok Hsync (Hstep & Hq) Hb HbF Hend. rewrite Hl in *.
  set (prev := W.p_prev p) in *.
  unfold W.end_sequence in Hend.
  cbn [W.p_row W.p_prev W.p_lenc W.p_enc W.set_row W.with_op_index W.w_op_index W.w_address_offset] in Hend.
  fold prev in Hend. rewrite Hl in Hend.
  match type of Hend with context [W.op_advance dbg l ?rw prev] => set (row := rw) in * end.
  assert (Hstep' : P2.step_ok l (W.w_address_offset prev) (W.w_op_index prev) (W.w_address_offset row) (W.w_op_index row))
    by exact Hstep.
  rewrite (P2.op_advance_ok dbg l row prev Hok Hstep' Hq) in Hend. cbn [bind] in Hend.
  cbn [W.w_address_offset W.w_op_index row] in Hend.
  set (oadv := P2.op_advance_value l (W.w_address_offset prev) (W.w_op_index prev) off opi) in *.
  inversion Hend as [Hins]. apply app_inv_head in Hins. subst new. clear Hend.
  pose proof Hsync as (Sop & _ & _ & _ & _ & _ & _ & _ & _ & _ & Ses).
  pose proof Hstep as (Hle & Hpm & Hm & Hpo & Ho & Hmono).
  pose proof Hb as [[Ha0 Ha1] Hl0].
  assert (Hoadv : (oadv < 18446744073709551616)%N /\ (Z.of_N (W.w_op_index prev) + Z.of_N oadv < two64z)).
  { pose proof HP as (_ & _ & Hmops256 & _). unfold oadv, P2.op_advance_value, two64z.
    set (q := ((off - W.w_address_offset prev) / W.le_min_len l * W.le_max_ops l)%N) in *. lia. }
  assert (Eadv : r2s (A.op_adv (W.params_of l) (Z.of_N oadv) r) =
                 mk_sregs (A.r_address r + (Z.of_N off - Z.of_N (W.w_address_offset prev))) (Z.of_N opi)
                   (A.r_file r) (A.r_line r) (A.r_column r) (A.r_is_stmt r) (A.r_basic_block r)
                   (A.r_end_sequence r) (A.r_prologue_end r) (A.r_epilogue_begin r) (A.r_isa r) (A.r_discriminator r)).
  { unfold oadv. rewrite (P2.op_advance_vliw l _ _ _ _ _ Hok Hstep Sop). reflexivity. }
  assert (Eiso : r2s (A.op_adv (W.params_of l) (Z.of_N oadv) r) = s_advance h (Z.of_N oadv) (r2s r)).
  { pose proof HM as (_ & _ & Hmil & Hmops & _). unfold A.op_adv, s_advance, r2s. cbn. rewrite Hmil, Hmops. reflexivity. }
  destruct (negb (oadv =? 0)%N); cbn [app map tr prog_wf_from exec_spec fst].
  - rewrite (endseq_step e l h HM HP).
    assert (Ho0 : 0 <= s_op_index (r2s r)) by (cbn; rewrite Sop; lia).
    assert (Hw0 : s_op_index (r2s r) + Z.of_N oadv < two64z) by (cbn; rewrite Sop; exact (proj2 Hoadv)).
    assert (Hm0 : s_address (s_advance h (Z.of_N oadv) (r2s r)) <= addr_mask h)
      by (rewrite <- Eiso, Eadv; cbn; destruct HbF as [[_ Hm'] _]; exact Hm').
    rewrite (advpc_step e l h HM HP (r2s r) oadv (proj1 Hoadv) Hb Ho0 Hw0 Hm0).
    split; [reflexivity|]. split; repeat constructor. exact (proj1 Hoadv).
  - rewrite (endseq_step e l h HM HP). split; [reflexivity|]. split; repeat constructor.
Qed.

End WithHeader.

(* ------------------------------------------------------------------ whole scripts *)

(* what the script must respect for the bytes to be readable: addresses fit the address size and stay
   below the tombstone values, set_address does not go backwards (documented), the u64 row fields *)
Fixpoint script_enc_ok (h : header) (ver : N) (lp : A.lparams) (st : A.regs * N) (ops : list P2.rop) : Prop :=
  match ops with
  | [] => True
  | o :: r =>
      (match o with
       | P2.RBegin None => True
       | P2.RBegin (Some a) => A.r_address (fst st) <= Z.of_N a < addr_mask h - 1
       | P2.RSetAddr a => A.r_address (fst st) <= Z.of_N a < addr_mask h - 1
       | P2.RRow row => wrow_u64 row /\ bounds h (r2s (P2.row_regs ver (fst st) (snd st) row))
       | P2.REnd off opi => bounds h (r2s (P2.end_regs (fst st) (snd st) off opi))
       end) /\ script_enc_ok h ver lp (snd (P2.m_step ver lp st o)) r
  end.

Lemma pwf_params_wf h : pwf h -> params_wf h = true.
Proof.
  intros [? ? ? ? ? ? Hs]. unfold params_wf.
  repeat (apply andb_true_intro; split); try lia; try (apply N.eqb_eq; exact Hs).
Qed.

Section WithHeader2.
Variables (e : W.enc) (l : W.lenc) (h : header).
Hypothesis HM : hdr_matches e l h.
Hypothesis HP : enc_params_ok e l.
Let ver := W.e_version e.
Let lp := W.params_of l.
Let P : pwf h := hdr_matches_pwf e l h HM HP.

Lemma setaddr_enc_ok a : Z.of_N a < addr_mask h - 1 -> insn_enc_ok e (W.ISetAddress (W.AConst a)).
Proof.
  intros Ha. pose proof HP as (Hsz & _). pose proof HM as (_ & Hasz & _).
  cbn. split; [exact Hsz|]. rewrite addr_mask_pow, Hasz in Ha. lia.
Qed.

Lemma script_wf dbg ops : forall p r,
  W.p_lenc p = l -> W.p_enc p = e ->
  P1.enc_ok l -> (ver <= 5)%N ->
  P1.synced ver (W.p_prev p) r -> bounds h (r2s r) ->
  P2.script_ok e l (W.p_prev p) (W.p_in_seq p) ops ->
  script_enc_ok h ver lp (r, W.w_address_offset (W.p_prev p)) ops ->
  exists p' new,
    P2.apply_rops dbg p ops = Ok p' /\ W.p_insns p' = W.p_insns p ++ new /\
    prog_wf_from h (r2s r) (map (tr ver) new) = true /\
    Forall (insn_enc_ok e) new /\ Forall nosym new /\ Forall P1.special_ok new /\
    A.run lp (map (W.denote ver) new) r =
      (fst (P2.meaning ver lp (r, W.w_address_offset (W.p_prev p)) ops),
       fst (snd (P2.meaning ver lp (r, W.w_address_offset (W.p_prev p)) ops))).
Proof.
  induction ops as [|o ops IH]; intros p r Hl He Hok Hver Hsync Hb Hscript Henc.
  - exists p, []. cbn. rewrite app_nil_r. repeat split; constructor.
  - pose proof Hsync as (Sop & _ & _ & _ & _ & _ & _ & _ & _ & _ & Ses).
    cbn [script_enc_ok] in Henc. destruct Henc as [Ho Henc].
    destruct o as [a|a|row|off opi]; cbn [P2.script_ok] in Hscript.
    + (* begin_sequence *)
      destruct Hscript as (Hin & Hop0 & Hrest).
      cbn [P2.apply_rops P2.apply_rop]. unfold W.begin_sequence. rewrite Hin.
      destruct a as [a|]; cbn [option_map bind].
      * set (p1 := W.push_insns [W.ISetAddress (W.AConst a)] (W.set_in_seq true p)).
        cbn [P2.m_step fst snd] in Henc, Ho.
        assert (Hb1 : bounds h (r2s (A.set_address (Z.of_N a) r))).
        { destruct Hb as [Ha Hl0]. split; [cbn; lia|exact Hl0]. }
        destruct (IH p1 (A.set_address (Z.of_N a) r) Hl He Hok Hver
                    (P2.set_address_synced0 _ _ _ _ Hsync Hop0) Hb1 Hrest Henc)
          as (p' & new & Eap & Eins & W1 & E1 & N1 & S1 & R1).
        exists p', (W.ISetAddress (W.AConst a) :: new). split; [exact Eap|].
        split; [rewrite Eins; cbn; now rewrite <- app_assoc|].
        cbn [map tr prog_wf_from exec_spec fst].
        rewrite (setaddr_step e l h HM HP (r2s r) a Hb Ho).
        change (mk_sregs (Z.of_N a) 0 (s_file (r2s r)) (s_line (r2s r)) (s_column (r2s r)) (s_is_stmt (r2s r))
                  (s_basic_block (r2s r)) (s_end_sequence (r2s r)) (s_prologue_end (r2s r))
                  (s_epilogue_begin (r2s r)) (s_isa (r2s r)) (s_discriminator (r2s r)))
          with (r2s (A.set_address (Z.of_N a) r)).
        rewrite W1. split; [reflexivity|].
        split; [constructor; [apply setaddr_enc_ok; lia|exact E1]|].
        split; [constructor; [exact I|exact N1]|]. split; [constructor; [exact I|exact S1]|].
        cbn [W.denote A.run A.step A.exec P2.meaning P2.m_step fst snd].
        cbn [p1 W.p_prev W.push_insns W.set_in_seq] in R1. rewrite R1.
        destruct (P2.meaning ver lp (A.set_address (Z.of_N a) r, W.w_address_offset (W.p_prev p)) ops) as [rows st].
        reflexivity.
      * set (p1 := W.set_in_seq true p).
        cbn [P2.m_step fst snd] in Henc.
        destruct (IH p1 r Hl He Hok Hver Hsync Hb Hrest Henc) as (p' & new & Eap & Eins & W1 & E1 & N1 & S1 & R1).
        exists p', new. split; [exact Eap|]. split; [exact Eins|].
        split; [exact W1|]. split; [exact E1|]. split; [exact N1|]. split; [exact S1|].
        cbn [P2.meaning P2.m_step fst snd]. cbn [p1 W.p_prev W.set_in_seq] in R1. rewrite R1.
        destruct (P2.meaning ver lp (r, W.w_address_offset (W.p_prev p)) ops) as [rows st]. reflexivity.
    + (* set_address *)
      cbn [P2.apply_rops P2.apply_rop bind]. unfold W.set_address.
      set (p1 := W.set_prev (W.with_op_index (W.p_prev p) 0)
                   (W.push_insns [W.ISetAddress (W.AConst a)] (W.set_in_seq true p))).
      cbn [P2.m_step fst snd] in Henc, Ho.
      assert (Hb1 : bounds h (r2s (A.set_address (Z.of_N a) r))).
      { destruct Hb as [Ha Hl0]. split; [cbn; lia|exact Hl0]. }
      destruct (IH p1 (A.set_address (Z.of_N a) r) Hl He Hok Hver
                  (P2.set_address_synced _ _ _ (Z.of_N a) Hsync) Hb1 Hscript Henc)
        as (p' & new & Eap & Eins & W1 & E1 & N1 & S1 & R1).
      exists p', (W.ISetAddress (W.AConst a) :: new). split; [exact Eap|].
      split; [rewrite Eins; cbn; now rewrite <- app_assoc|].
      cbn [map tr prog_wf_from exec_spec fst].
      rewrite (setaddr_step e l h HM HP (r2s r) a Hb Ho).
      change (mk_sregs (Z.of_N a) 0 (s_file (r2s r)) (s_line (r2s r)) (s_column (r2s r)) (s_is_stmt (r2s r))
                (s_basic_block (r2s r)) (s_end_sequence (r2s r)) (s_prologue_end (r2s r))
                (s_epilogue_begin (r2s r)) (s_isa (r2s r)) (s_discriminator (r2s r)))
        with (r2s (A.set_address (Z.of_N a) r)).
      rewrite W1. split; [reflexivity|].
      split; [constructor; [apply setaddr_enc_ok; lia|exact E1]|].
      split; [constructor; [exact I|exact N1]|]. split; [constructor; [exact I|exact S1]|].
      cbn [W.denote A.run A.step A.exec P2.meaning P2.m_step fst snd].
      cbn [p1 W.p_prev W.push_insns W.set_in_seq W.set_prev W.with_op_index W.w_address_offset] in R1.
      rewrite R1.
      destruct (P2.meaning ver lp (A.set_address (Z.of_N a) r, W.w_address_offset (W.p_prev p)) ops) as [rows st].
      reflexivity.
    + (* row *)
      destruct Hscript as (Hrow & Hrest). destruct Ho as (Hu64 & HbF).
      cbn [fst snd] in HbF. cbn [P2.m_step fst snd] in Henc.
      rewrite <- Hl in Hok, Hrow.
      destruct (P2.generate_row_correct dbg p row ver r Hok Hsync Hrow) as (new1 & Egen & F1 & R1 & S1).
      rewrite Hl in Hok, Hrow.
      destruct (generate_row_wf e l h HM HP dbg p row r new1 Hl He Hok Hsync Hrow Hu64 Hb HbF Egen)
        as (Wn & En & Nn).
      cbn [P2.apply_rops P2.apply_rop]. rewrite Egen. cbn [bind].
      match goal with |- context [P2.apply_rops dbg ?q ops] => set (p1 := q) end.
      set (rr := P2.row_regs ver r (W.w_address_offset (W.p_prev p)) row) in *.
      rewrite Hl in R1, S1. fold lp in R1, S1.
      assert (Hb1 : bounds h (r2s (A.after_row lp rr))) by exact HbF.
      destruct (IH p1 (A.after_row lp rr) Hl He Hok Hver S1 Hb1 Hrest Henc)
        as (p' & new & Eap & Eins & W1 & E1 & N1 & Sp1 & Rn).
      exists p', (new1 ++ new). split; [exact Eap|].
      split; [rewrite Eins; cbn; now rewrite <- app_assoc|].
      destruct (srun_iso e l h new1 r _ _ HM Nn Ses R1) as [Iso _]. fold ver in Iso.
      rewrite map_app, prog_wf_from_app, Iso. cbn [snd]. fold ver in Wn. rewrite Wn, W1.
      split; [reflexivity|]. split; [apply Forall_app; split; assumption|].
      split; [apply Forall_app; split; assumption|]. split; [apply Forall_app; split; assumption|].
      rewrite map_app, P1.run_app, R1. cbv beta iota.
      cbn [p1 W.p_prev W.push_insns W.set_in_seq W.set_row W.set_prev W.clear_row_flags W.w_address_offset] in Rn.
      rewrite Rn. cbn [P2.meaning P2.m_step fst snd]. fold rr.
      destruct (P2.meaning ver lp (A.after_row lp rr, W.w_address_offset row) ops) as [rows st]. reflexivity.
    + (* end_sequence *)
      destruct Hscript as (Hend & Hrest). cbn [fst snd] in Ho. cbn [P2.m_step fst snd] in Henc.
      rewrite <- Hl in Hok, Hend.
      destruct (P2.end_sequence_correct dbg p off opi ver r Hok Hsync Hend) as (new1 & Eend & F1 & R1).
      rewrite Hl in Hok, Hend.
      destruct (end_sequence_wf e l h HM HP dbg p off opi r new1 Hl Hok Hsync Hend Hb Ho Eend) as (Wn & En & Nn).
      cbn [P2.apply_rops P2.apply_rop]. rewrite Eend. cbn [bind].
      match goal with |- context [P2.apply_rops dbg ?q ops] => set (p1 := q) end.
      rewrite Hl in R1. fold lp in R1.
      assert (Hb1 : bounds h (r2s (A.init_regs lp))).
      { split; [|cbn; unfold two64z; lia].
        change (s_address (r2s (A.init_regs lp))) with 0. unfold addr_mask.
        assert (0 < 2 ^ (8 * Z.of_N (h_addr_size h))) by (apply Z.pow_pos_nonneg; lia). lia. }
      assert (S1 : P1.synced ver (W.p_prev p1) (A.init_regs lp)).
      { cbn [p1 W.p_prev W.set_prev]. rewrite He, Hl. apply P2.seq_reset. exact Hver. }
      assert (Hrest' : P2.script_ok e l (W.p_prev p1) (W.p_in_seq p1) ops).
      { cbn [p1 W.p_prev W.p_in_seq W.set_prev W.set_row W.push_insns W.set_in_seq]. rewrite He, Hl. exact Hrest. }
      assert (Henc' : script_enc_ok h ver lp (A.init_regs lp, W.w_address_offset (W.p_prev p1)) ops).
      { cbn [p1 W.p_prev W.set_prev W.wrow_initial W.w_address_offset]. exact Henc. }
      destruct (IH p1 (A.init_regs lp) Hl He Hok Hver S1 Hb1 Hrest' Henc')
        as (p' & new & Eap & Eins & W1 & E1 & N1 & Sp1 & Rn).
      exists p', (new1 ++ new). split; [exact Eap|].
      split; [rewrite Eins; cbn; now rewrite <- app_assoc|].
      destruct (srun_iso e l h new1 r _ _ HM Nn Ses R1) as [Iso _]. fold ver in Iso.
      rewrite map_app, prog_wf_from_app, Iso. cbn [snd]. fold ver in Wn. rewrite Wn, W1.
      split; [reflexivity|]. split; [apply Forall_app; split; assumption|].
      split; [apply Forall_app; split; assumption|]. split; [apply Forall_app; split; assumption|].
      rewrite map_app, P1.run_app, R1. cbv beta iota.
      cbn [p1 W.p_prev W.set_prev W.wrow_initial W.w_address_offset] in Rn.
      rewrite Rn. cbn [P2.meaning P2.m_step fst snd].
      destruct (P2.meaning ver lp (A.init_regs lp, 0%N) ops) as [rows st]. reflexivity.
Qed.

End WithHeader2.
