(* Proofs/RelocProofs.v — lemmas about Model/Reloc.v (C18). *)
From Coq Require Import List NArith ZArith Bool Lia ZifyBool ZifyN ZifyNat.
From Coq.Strings Require Import Byte.
Require Import GV.Base.Res GV.Base.Byt GV.Base.Ints GV.Spec.LebSpec GV.Model.Leb GV.Model.Prim GV.Model.Reloc GV.Proofs.LebProofs.
Import ListNotations.
Local Open Scope N_scope.

Local Ltac Zify.zify_post_hook ::= Z.div_mod_to_equations.
Local Arguments N.add : simpl never.
Local Arguments N.sub : simpl never.
Local Arguments N.mul : simpl never.
Local Arguments N.pow : simpl never.
Local Arguments N.shiftl : simpl never.
Local Arguments N.shiftr : simpl never.
Local Arguments N.land : simpl never.
Local Arguments N.lor : simpl never.
Local Arguments N.modulo : simpl never.
Local Arguments N.div : simpl never.
Local Arguments N.of_nat : simpl never.
Local Arguments N.to_nat : simpl never.

(* ------------------------------------------------------------------ lists by index *)

Lemma list_ext {A} : forall (a b : list A), (forall i, nth_error a i = nth_error b i) -> a = b.
Proof.
  induction a as [|x a IH]; intros [|y b] H; auto.
  - specialize (H O); discriminate.
  - specialize (H O); discriminate.
  - f_equal.
    + specialize (H O); cbn in H; congruence.
    + apply IH; intros i; exact (H (S i)).
Qed.

Lemma nth_error_firstn {A} (l : list A) n i :
  nth_error (firstn n l) i = if (i <? n)%nat then nth_error l i else None.
Proof.
  revert n i; induction l as [|x l IH]; intros n i.
  - rewrite firstn_nil. destruct i; cbn [nth_error]; destruct (Nat.ltb _ n); reflexivity.
  - destruct n as [|n].
    + cbn. destruct i; reflexivity.
    + destruct i as [|i]; cbn [firstn nth_error].
      * reflexivity.
      * rewrite IH. change (S i <? S n)%nat with (i <? n)%nat. reflexivity.
Qed.

Lemma nth_error_skipn {A} (l : list A) n i : nth_error (skipn n l) i = nth_error l (n + i)%nat.
Proof.
  revert l; induction n as [|n IH]; intros l; cbn; auto.
  destruct l; cbn; auto. destruct i; auto.
Qed.

Lemma nth_error_ge {A} (l : list A) i : (length l <= i)%nat -> nth_error l i = None.
Proof. apply nth_error_None. Qed.

Lemma nth_error_app {A} (a b : list A) i :
  nth_error (a ++ b) i = if (i <? length a)%nat then nth_error a i else nth_error b (i - length a)%nat.
Proof.
  destruct (Nat.ltb_spec i (length a)).
  - now apply nth_error_app1.
  - now apply nth_error_app2.
Qed.

Lemma nth_error_patch (pos : nat) (new bs : list byte) i :
  (pos + length new <= length bs)%nat ->
  nth_error (patch pos new bs) i =
  if ((pos <=? i) && (i <? pos + length new))%nat then nth_error new (i - pos)%nat else nth_error bs i.
Proof.
  intros Hb. unfold patch.
  rewrite nth_error_app, firstn_length, Nat.min_l by lia.
  destruct (Nat.ltb_spec i pos) as [Hi|Hi].
  - rewrite nth_error_firstn.
    destruct (Nat.ltb_spec i pos); try lia.
    destruct (Nat.leb_spec pos i); try lia. reflexivity.
  - rewrite nth_error_app.
    destruct (Nat.leb_spec pos i); try lia. cbn [andb].
    destruct (Nat.ltb_spec (i - pos) (length new)), (Nat.ltb_spec i (pos + length new)); try lia; auto.
    rewrite nth_error_skipn. f_equal. lia.
Qed.

Lemma patch_length pos new bs :
  (pos + length new <= length bs)%nat -> length (patch pos new bs) = length bs.
Proof.
  intros H. unfold patch. rewrite !app_length, firstn_length, skipn_length. lia.
Qed.

Lemma patch_app_l pos new a b :
  (pos + length new <= length a)%nat -> patch pos new (a ++ b) = patch pos new a ++ b.
Proof.
  intros H. apply list_ext; intros i.
  rewrite nth_error_patch by (rewrite app_length; lia).
  rewrite !nth_error_app, patch_length by lia.
  rewrite nth_error_patch by lia.
  destruct (Nat.leb_spec pos i), (Nat.ltb_spec i (pos + length new)), (Nat.ltb_spec i (length a)); cbn [andb]; auto; lia.
Qed.

Lemma patch_end a new old :
  length old = length new -> patch (length a) new (a ++ old) = a ++ new.
Proof.
  intros H. unfold patch.
  rewrite firstn_app, Nat.sub_diag, firstn_all, firstn_O, app_nil_r.
  rewrite skipn_app, skipn_all2 by lia.
  replace (length a + length new - length a)%nat with (length old) by lia.
  now rewrite skipn_all, !app_nil_r.
Qed.

Lemma patch_patch_same pos n1 n2 bs :
  length n1 = length n2 -> (pos + length n1 <= length bs)%nat ->
  patch pos n2 (patch pos n1 bs) = patch pos n2 bs.
Proof.
  intros Hl Hb. apply list_ext; intros i.
  rewrite nth_error_patch by (rewrite patch_length; lia).
  rewrite (nth_error_patch pos n2 bs) by lia.
  destruct ((pos <=? i) && (i <? pos + length n2))%nat eqn:E; auto.
  rewrite nth_error_patch by lia.
  rewrite Hl, E. reflexivity.
Qed.

Lemma patch_comm p1 n1 p2 n2 bs :
  (p1 + length n1 <= length bs)%nat -> (p2 + length n2 <= length bs)%nat ->
  (p1 + length n1 <= p2 \/ p2 + length n2 <= p1)%nat ->
  patch p1 n1 (patch p2 n2 bs) = patch p2 n2 (patch p1 n1 bs).
Proof.
  intros H1 H2 Hd. apply list_ext; intros i.
  rewrite !nth_error_patch by (rewrite ?patch_length; lia).
  destruct (Nat.leb_spec p1 i), (Nat.ltb_spec i (p1 + length n1)),
           (Nat.leb_spec p2 i), (Nat.ltb_spec i (p2 + length n2)); cbn [andb]; auto; lia.
Qed.

(* ------------------------------------------------------------------ encodings *)

Lemma le_bytes_length n v : length (le_bytes n v) = n.
Proof. revert v; induction n; intros; cbn [le_bytes length]; auto. Qed.

Lemma enc_un_length n be v : length (enc_un n be v) = n.
Proof. unfold enc_un, be_bytes. destruct be; rewrite ?rev_length; apply le_bytes_length. Qed.

Lemma pow8_S n : 2 ^ (8 * N.of_nat (S n)) = 256 * 2 ^ (8 * N.of_nat n).
Proof.
  replace (8 * N.of_nat (S n)) with (8 + 8 * N.of_nat n) by lia.
  rewrite N.pow_add_r. reflexivity.
Qed.

Lemma le_bytes_congr : forall n a b,
  a mod 2 ^ (8 * N.of_nat n) = b mod 2 ^ (8 * N.of_nat n) -> le_bytes n a = le_bytes n b.
Proof.
  induction n as [|n IH]; intros a b H; cbn [le_bytes]; auto.
  rewrite pow8_S in H.
  assert (HM : 2 ^ (8 * N.of_nat n) <> 0) by (apply N.pow_nonzero; lia).
  rewrite !N.mod_mul_r in H by (auto; lia).
  pose proof (N.mod_lt a 256 ltac:(lia)) as Ha. pose proof (N.mod_lt b 256 ltac:(lia)) as Hb.
  set (M := 2 ^ (8 * N.of_nat n)) in *.
  set (x := (a / 256) mod M) in *. set (y := (b / 256) mod M) in *.
  set (ra := a mod 256) in *. set (rb := b mod 256) in *.
  assert (ra = rb /\ x = y) as [E1 E2] by lia.
  f_equal.
  - unfold n2b. fold ra. fold rb. now rewrite E1.
  - apply IH. exact E2.
Qed.

Lemma enc_un_congr n be a b :
  a mod 2 ^ (8 * N.of_nat n) = b mod 2 ^ (8 * N.of_nat n) -> enc_un n be a = enc_un n be b.
Proof.
  intros H. unfold enc_un, be_bytes. now rewrite (le_bytes_congr n a b H).
Qed.

Lemma write_udata_ok be v size e :
  write_udata be v size = Ok e ->
  e = enc_un (N.to_nat size) be v /\ (size = 1 \/ size = 2 \/ size = 4 \/ size = 8).
Proof.
  unfold write_udata. intros H.
  destruct (N.eqb_spec size 1) as [->|]; [destruct (v <? 256); inversion H; auto|].
  destruct (N.eqb_spec size 2) as [->|]; [destruct (v <? two16); inversion H; auto|].
  destruct (N.eqb_spec size 4) as [->|]; [destruct (v <? two32); inversion H; auto 6|].
  destruct (N.eqb_spec size 8) as [->|]; [inversion H; auto 6|].
  discriminate.
Qed.

Lemma write_udata_len be v size e : write_udata be v size = Ok e -> blen e = size.
Proof.
  intros H. apply write_udata_ok in H as [-> _]. unfold blen. rewrite enc_un_length. lia.
Qed.

Lemma of_to_i64_mod (v : N) (k : N) :
  (k = 16 \/ k = 32 \/ k = 64) -> of_signed k (to_i64 v) mod 2 ^ k = v mod 2 ^ k.
Proof.
  intros Hk. unfold of_signed, to_i64, to_signed, wrapN.
  change (2 ^ 64) with 18446744073709551616. change (2 ^ (64 - 1)) with 9223372036854775808.
  destruct Hk as [->|[->| ->]].
  - change (2 ^ 16) with 65536.
    destruct (v mod 18446744073709551616 <? 9223372036854775808); lia.
  - change (2 ^ 32) with 4294967296.
    destruct (v mod 18446744073709551616 <? 9223372036854775808); lia.
  - change (2 ^ 64) with 18446744073709551616.
    destruct (v mod 18446744073709551616 <? 9223372036854775808); lia.
Qed.

Lemma write_sdata_i64_ok be v size e :
  (size = 2 \/ size = 4 \/ size = 8) ->
  write_sdata be (to_i64 v) size = Ok e -> e = enc_un (N.to_nat size) be v.
Proof.
  intros Hs H. unfold write_sdata in H.
  destruct Hs as [->|[->| ->]]; cbn [N.eqb Pos.eqb] in H.
  - destruct (in_signed 16 (to_i64 v)); inversion H.
    apply enc_un_congr. change (8 * N.of_nat (N.to_nat 2)) with 16. apply of_to_i64_mod; auto.
  - destruct (in_signed 32 (to_i64 v)); inversion H.
    apply enc_un_congr. change (8 * N.of_nat (N.to_nat 4)) with 32. apply of_to_i64_mod; auto.
  - inversion H.
    apply enc_un_congr. change (8 * N.of_nat (N.to_nat 8)) with 64. apply of_to_i64_mod; auto.
Qed.

(* ------------------------------------------------------------------ applying recorded relocations *)

Definition site_in (b : list byte) (r : reloc) : Prop := r_off r + r_size r <= blen b.

Lemma apply_reloc_length env be r b : length (apply_reloc env be r b) = length b.
Proof.
  unfold apply_reloc. destruct (N.ltb_spec (blen b) (r_off r + r_size r)); auto.
  apply patch_length. rewrite enc_un_length. unfold blen in *. lia.
Qed.

Lemma apply_relocs_length env be rs : forall b, length (apply_relocs env be rs b) = length b.
Proof.
  unfold apply_relocs. induction rs as [|r rs IH]; intros b; cbn [fold_left]; auto.
  rewrite IH. apply apply_reloc_length.
Qed.

Lemma blen_apply_relocs env be rs b : blen (apply_relocs env be rs b) = blen b.
Proof. unfold blen. now rewrite apply_relocs_length. Qed.

Lemma apply_relocs_snoc env be rs r b :
  apply_relocs env be (rs ++ [r]) b = apply_reloc env be r (apply_relocs env be rs b).
Proof. unfold apply_relocs. now rewrite fold_left_app. Qed.

Lemma apply_reloc_app env be r b x :
  site_in b r -> apply_reloc env be r (b ++ x) = apply_reloc env be r b ++ x.
Proof.
  unfold site_in, apply_reloc, blen. intros H. rewrite app_length.
  destruct (N.ltb_spec (N.of_nat (length b + length x)) (r_off r + r_size r)); try lia.
  destruct (N.ltb_spec (N.of_nat (length b)) (r_off r + r_size r)); try lia.
  apply patch_app_l. rewrite enc_un_length. lia.
Qed.

Lemma site_in_len b b' r : length b = length b' -> site_in b r -> site_in b' r.
Proof. unfold site_in, blen. intros ->. auto. Qed.

Lemma apply_relocs_app env be rs : forall b x,
  Forall (site_in b) rs -> apply_relocs env be rs (b ++ x) = apply_relocs env be rs b ++ x.
Proof.
  unfold apply_relocs. induction rs as [|r rs IH]; intros b x H; cbn [fold_left]; auto.
  inversion H as [|? ? Hr Hrs]; subst.
  rewrite apply_reloc_app by exact Hr.
  apply IH. eapply Forall_impl; [|exact Hrs].
  intros r'. apply site_in_len. now rewrite apply_reloc_length.
Qed.

Definition site_away (pos n : N) (r : reloc) : Prop :=
  r_off r + r_size r <= pos \/ pos + n <= r_off r.

Lemma apply_reloc_patch env be r pos new b :
  pos + blen new <= blen b -> site_away pos (blen new) r ->
  apply_reloc env be r (patch (N.to_nat pos) new b) = patch (N.to_nat pos) new (apply_reloc env be r b).
Proof.
  unfold site_away, apply_reloc, blen. intros Hb Hd.
  rewrite patch_length by lia.
  destruct (N.ltb_spec (N.of_nat (length b)) (r_off r + r_size r)); auto.
  apply patch_comm; rewrite ?enc_un_length; lia.
Qed.

Lemma apply_relocs_patch env be rs pos new : forall b,
  pos + blen new <= blen b -> Forall (site_away pos (blen new)) rs ->
  apply_relocs env be rs (patch (N.to_nat pos) new b) = patch (N.to_nat pos) new (apply_relocs env be rs b).
Proof.
  unfold apply_relocs. induction rs as [|r rs IH]; intros b Hb H; cbn [fold_left]; auto.
  inversion H as [|? ? Hr Hrs]; subst.
  rewrite apply_reloc_patch by auto.
  apply IH; auto. unfold blen in *. now rewrite apply_reloc_length.
Qed.

(* a fresh relocation over a placeholder of the right width yields the encoded value *)
Lemma apply_reloc_end env be r a old :
  r_off r = blen a -> blen old = r_size r ->
  apply_reloc env be r (a ++ old) = a ++ enc_un (N.to_nat (r_size r)) be (reloc_value env r).
Proof.
  intros Ho Hl. unfold apply_reloc, blen in *. rewrite app_length.
  destruct (N.ltb_spec (N.of_nat (length a + length old)) (r_off r + r_size r)); try lia.
  rewrite Ho. rewrite Nat2N.id. apply patch_end. rewrite enc_un_length. lia.
Qed.

Lemma apply_reloc_over env be r old b :
  blen old = r_size r -> r_off r + r_size r <= blen b ->
  apply_reloc env be r (patch (N.to_nat (r_off r)) old b) =
  patch (N.to_nat (r_off r)) (enc_un (N.to_nat (r_size r)) be (reloc_value env r)) b.
Proof.
  intros Hl Hb. unfold apply_reloc, blen in *. rewrite patch_length by lia.
  destruct (N.ltb_spec (N.of_nat (length b)) (r_off r + r_size r)); try lia.
  apply patch_patch_same; rewrite ?enc_un_length; lia.
Qed.

(* ------------------------------------------------------------------ the writer invariant *)

Lemma of_to_i64 v : of_i64 (to_i64 v) = wrap64 v.
Proof.
  unfold of_i64, wrap64. pose proof (of_to_i64_mod v 64 ltac:(auto)) as H.
  change (2 ^ 64) with two64 in H. rewrite <- H.
  symmetry. apply N.mod_small. unfold of_signed. change (2 ^ 64) with 18446744073709551616.
  unfold two64. lia.
Qed.

Lemma wadd64s_to_i64 a v : wadd64s a (to_i64 v) = wrap64 (a + v).
Proof.
  unfold wadd64s. rewrite of_to_i64. unfold wrap64.
  rewrite N.add_mod_idemp_r by (unfold two64; lia). reflexivity.
Qed.

Definition winv (env : target -> N) (be : bool) (st : wstate) (bp : list byte) : Prop :=
  apply_relocs env be (snd st) (fst st) = bp /\ Forall (site_in (fst st)) (snd st).

Lemma winv_blen env be b rs bp : winv env be (b, rs) bp -> blen bp = blen b.
Proof. intros [<- _]. cbn [fst snd]. apply blen_apply_relocs. Qed.

Lemma site_in_app b e r : site_in b r -> site_in (b ++ e) r.
Proof. unfold site_in, blen. rewrite app_length. lia. Qed.

Lemma winv_app env be b rs bp e : winv env be (b, rs) bp -> winv env be (b ++ e, rs) (bp ++ e).
Proof.
  intros [H1 H2]; cbn [fst snd] in *. split; cbn [fst snd].
  - rewrite apply_relocs_app by exact H2. now rewrite H1.
  - eapply Forall_impl; [|exact H2]. intros r. apply site_in_app.
Qed.

Lemma winv_snoc_end env be b rs bp r old :
  winv env be (b, rs) bp -> r_off r = blen b -> blen old = r_size r ->
  winv env be (b ++ old, rs ++ [r]) (bp ++ enc_un (N.to_nat (r_size r)) be (reloc_value env r)).
Proof.
  intros Hi Ho Hl. pose proof (winv_blen _ _ _ _ _ Hi) as Hlen.
  destruct (winv_app env be b rs bp old Hi) as [H1 H2]; cbn [fst snd] in *.
  split; cbn [fst snd].
  - rewrite apply_relocs_snoc, H1. apply apply_reloc_end; congruence.
  - apply Forall_app; split; auto. constructor; auto.
    unfold site_in, blen in *. rewrite app_length. lia.
Qed.

Lemma winv_patch env be b rs bp pos new :
  winv env be (b, rs) bp -> pos + blen new <= blen b -> Forall (site_away pos (blen new)) rs ->
  winv env be (patch (N.to_nat pos) new b, rs) (patch (N.to_nat pos) new bp).
Proof.
  intros [H1 H2] Hb Hd; cbn [fst snd] in *. split; cbn [fst snd].
  - rewrite apply_relocs_patch by auto. now rewrite H1.
  - eapply Forall_impl; [|exact H2]. intros r. apply site_in_len.
    rewrite patch_length; auto. unfold blen in *. lia.
Qed.

Lemma winv_offset_at env be b rs bp r old :
  winv env be (b, rs) bp -> r_off r + r_size r <= blen b -> blen old = r_size r ->
  Forall (site_away (r_off r) (r_size r)) rs ->
  winv env be (patch (N.to_nat (r_off r)) old b, rs ++ [r])
       (patch (N.to_nat (r_off r)) (enc_un (N.to_nat (r_size r)) be (reloc_value env r)) bp).
Proof.
  intros Hi Hb Hl Hd. pose proof (winv_blen _ _ _ _ _ Hi) as Hlen.
  assert (Hp : winv env be (patch (N.to_nat (r_off r)) old b, rs) (patch (N.to_nat (r_off r)) old bp)).
  { apply winv_patch; auto; rewrite Hl; auto. }
  destruct Hp as [H1 H2]; cbn [fst snd] in *. split; cbn [fst snd].
  - rewrite apply_relocs_snoc, H1. apply apply_reloc_over; auto. lia.
  - apply Forall_app; split; auto. constructor; auto.
    unfold site_in, blen in *. rewrite patch_length; lia.
Qed.

Lemma ev_write_at_ok buf pos e x :
  ev_write_at buf pos e = Ok x -> x = patch (N.to_nat pos) e buf /\ pos + blen e <= blen buf.
Proof.
  unfold ev_write_at. intros H.
  destruct (N.ltb_spec (blen buf) pos); try discriminate.
  destruct (N.ltb_spec (blen buf - pos) (blen e)); try discriminate.
  inversion H. split; auto. lia.
Qed.

Lemma at_ok_away op rs pos n :
  at_range op = Some (pos, n) -> at_ok op rs = true -> Forall (site_away pos n) rs.
Proof.
  unfold at_ok. intros ->. rewrite forallb_forall. intros H. apply Forall_forall. intros r Hr.
  specialize (H r Hr). unfold ranges_disjoint in H. unfold site_away. lia.
Qed.

Lemma eh_sym_data be eh size sz v e :
  eh_sym_size eh size = Ok sz -> eh_pointer_data be v (eh_format eh) size = Ok e ->
  e = enc_un (N.to_nat sz) be v.
Proof.
  unfold eh_sym_size, eh_pointer_data. remember (eh_format eh) as f eqn:Ef. clear Ef.
  intros Hs Hd.
  destruct (N.eqb_spec f 0) as [E|N0]. { subst f. cbn [N.eqb Pos.eqb orb] in Hs, Hd. inversion Hs; subst. now apply write_udata_ok in Hd. }
  destruct (N.eqb_spec f 1) as [E|N1]. { subst f. cbn [N.eqb Pos.eqb orb] in Hs, Hd. discriminate. }
  destruct (N.eqb_spec f 2) as [E|N2]. { subst f. cbn [N.eqb Pos.eqb orb] in Hs, Hd. inversion Hs; subst. now apply write_udata_ok in Hd. }
  destruct (N.eqb_spec f 3) as [E|N3]. { subst f. cbn [N.eqb Pos.eqb orb] in Hs, Hd. inversion Hs; subst. now apply write_udata_ok in Hd. }
  destruct (N.eqb_spec f 4) as [E|N4]. { subst f. cbn [N.eqb Pos.eqb orb] in Hs, Hd. inversion Hs; subst. now apply write_udata_ok in Hd. }
  destruct (N.eqb_spec f 9) as [E|N9]. { subst f. cbn [N.eqb Pos.eqb orb] in Hs, Hd. discriminate. }
  destruct (N.eqb_spec f 10) as [E|N10]. { subst f. cbn [N.eqb Pos.eqb orb] in Hs, Hd. inversion Hs; subst. apply write_sdata_i64_ok in Hd; auto. }
  destruct (N.eqb_spec f 11) as [E|N11]. { subst f. cbn [N.eqb Pos.eqb orb] in Hs, Hd. inversion Hs; subst. apply write_sdata_i64_ok in Hd; auto. }
  destruct (N.eqb_spec f 12) as [E|N12]. { subst f. cbn [N.eqb Pos.eqb orb] in Hs, Hd. inversion Hs; subst. apply write_sdata_i64_ok in Hd; auto. }
  discriminate.
Qed.

Lemma bind_ok_inv {A B} (r : res A) (f : A -> res B) b :
  (let* x := r in f x) = Ok b -> exists a, r = Ok a /\ f a = Ok b.
Proof. apply bind_ok. Qed.

Lemma step_inv env be op b rs bp b1 rs1 bp1 :
  at_ok op rs = true ->
  winv env be (b, rs) bp ->
  step_reloc be op (b, rs) = Ok (b1, rs1) ->
  step_plain be (resolve env op) bp = Ok bp1 ->
  winv env be (b1, rs1) bp1.
Proof.
  intros Hat Hi Hr Hp. pose proof (winv_blen _ _ _ _ _ Hi) as Hlen.
  destruct op as [bs|pos bs|v size|pos v size|a size|v sect size|pos v sect size|a eh size|sym size];
    cbn [step_reloc step_plain resolve resolve_addr] in Hr, Hp.
  - (* WBytes *) inversion Hr; inversion Hp; subst. now apply winv_app.
  - (* WAt *)
    apply bind_ok_inv in Hr as (x & Hx & Hr). inversion Hr; subst.
    apply ev_write_at_ok in Hx as [-> Hb]. apply ev_write_at_ok in Hp as [-> _].
    apply winv_patch; auto. eapply at_ok_away; eauto. reflexivity.
  - (* WUdata *)
    apply bind_ok_inv in Hr as (x & Hx & Hr). inversion Hr; subst.
    unfold ev_udata in *. apply bind_ok_inv in Hx as (e & He & Hx). apply bind_ok_inv in Hp as (e' & He' & Hp).
    inversion Hx; inversion Hp; subst. rewrite He in He'. inversion He'; subst. now apply winv_app.
  - (* WUdataAt *)
    apply bind_ok_inv in Hr as (x & Hx & Hr). inversion Hr; subst.
    unfold ev_udata_at in *. apply bind_ok_inv in Hx as (e & He & Hx). apply bind_ok_inv in Hp as (e' & He' & Hp).
    rewrite He in He'. inversion He'; subst e'.
    apply ev_write_at_ok in Hx as [-> Hb]. apply ev_write_at_ok in Hp as [-> _].
    apply winv_patch; auto. eapply at_ok_away; eauto. cbn [at_range].
    now rewrite (write_udata_len _ _ _ _ He).
  - (* WAddr *)
    destruct a as [v|s addend]; cbn [resolve_addr] in Hp.
    + apply bind_ok_inv in Hr as (x & Hx & Hr). inversion Hr; subst. cbn [step_plain] in Hx.
      unfold ev_udata in *. apply bind_ok_inv in Hx as (e & He & Hx). apply bind_ok_inv in Hp as (e' & He' & Hp).
      inversion Hx; inversion Hp; subst. rewrite He in He'. inversion He'; subst. now apply winv_app.
    + apply bind_ok_inv in Hr as (x & Hx & Hr). inversion Hr; subst.
      unfold ev_udata in *. apply bind_ok_inv in Hx as (z & Hz & Hx). apply bind_ok_inv in Hp as (e & He & Hp).
      inversion Hx; inversion Hp; subst.
      pose proof (write_udata_len _ _ _ _ Hz) as Hzl.
      apply write_udata_ok in He as [-> _].
      set (r := mkReloc (blen b) size (TSym s) addend None).
      change (enc_un (N.to_nat size) be (wadd64s (env (TSym s)) addend))
        with (enc_un (N.to_nat (r_size r)) be (reloc_value env r)).
      apply winv_snoc_end; auto.
  - (* WOffset *)
    apply bind_ok_inv in Hr as (x & Hx & Hr). inversion Hr; subst.
    unfold ev_udata in *. apply bind_ok_inv in Hx as (z & Hz & Hx). apply bind_ok_inv in Hp as (e & He & Hp).
    inversion Hx; inversion Hp; subst.
    pose proof (write_udata_len _ _ _ _ Hz) as Hzl.
    apply write_udata_ok in He as [-> _].
    set (r := mkReloc (blen b) size (TSect sect) (to_i64 v) None).
    replace (wrap64 (env (TSect sect) + v)) with (reloc_value env r)
      by (unfold reloc_value, r; cbn [r_target r_addend r_ehpe]; apply wadd64s_to_i64).
    change size with (r_size r) at 1.
    apply winv_snoc_end; auto.
  - (* WOffsetAt *)
    apply bind_ok_inv in Hr as (x & Hx & Hr). inversion Hr; subst.
    unfold ev_udata_at in *. apply bind_ok_inv in Hx as (z & Hz & Hx). apply bind_ok_inv in Hp as (e & He & Hp).
    pose proof (write_udata_len _ _ _ _ Hz) as Hzl.
    apply write_udata_ok in He as [-> _].
    apply ev_write_at_ok in Hx as [-> Hb]. apply ev_write_at_ok in Hp as [-> _].
    set (r := mkReloc pos size (TSect sect) (to_i64 v) None).
    replace (wrap64 (env (TSect sect) + v)) with (reloc_value env r)
      by (unfold reloc_value, r; cbn [r_target r_addend r_ehpe]; apply wadd64s_to_i64).
    change size with (r_size r) at 1. change pos with (r_off r).
    apply winv_offset_at; auto.
    + unfold r; cbn [r_off r_size]. lia.
    + unfold r; cbn [r_off r_size]. eapply at_ok_away; eauto. reflexivity.
  - (* WEhPtr *)
    destruct a as [v|s addend]; cbn [resolve_addr] in Hp.
    + apply bind_ok_inv in Hr as (x & Hx & Hr). inversion Hr; subst. cbn [step_plain] in Hx.
      apply bind_ok_inv in Hx as (e & He & Hx). apply bind_ok_inv in Hp as (e' & He' & Hp).
      inversion Hx; inversion Hp; subst. rewrite Hlen, He in He'. inversion He'; subst. now apply winv_app.
    + apply bind_ok_inv in Hr as (sz & Hsz & Hr).
      apply bind_ok_inv in Hr as (x & Hx & Hr). inversion Hr; subst.
      unfold ev_udata in Hx. apply bind_ok_inv in Hx as (z & Hz & Hx). inversion Hx; subst.
      apply bind_ok_inv in Hp as (e & He & Hp). inversion Hp; subst.
      pose proof (write_udata_len _ _ _ _ Hz) as Hzl.
      set (r := mkReloc (blen b) sz (TSym s) addend (Some eh)).
      assert (Ee : e = enc_un (N.to_nat (r_size r)) be (reloc_value env r)).
      { unfold eh_plain in He. unfold reloc_value, r; cbn [r_target r_addend r_ehpe r_off r_size].
        destruct (N.eqb_spec (eh_application eh) 0) as [E0|E0].
        - rewrite E0. cbn [N.eqb]. eapply eh_sym_data; eauto.
        - destruct (N.eqb_spec (eh_application eh) 16) as [E16|E16]; try discriminate.
          rewrite Hlen in He. eapply eh_sym_data; eauto. }
      rewrite Ee. apply winv_snoc_end; auto.
  - (* WRef *) discriminate.
Qed.

Lemma run_inv env be : forall ws b rs bp b' rs' bp',
  no_clobber be ws (b, rs) = true ->
  winv env be (b, rs) bp ->
  run_reloc be ws (b, rs) = Ok (b', rs') ->
  run_plain be (map (resolve env) ws) bp = Ok bp' ->
  winv env be (b', rs') bp'.
Proof.
  induction ws as [|op ws IH]; intros b rs bp b' rs' bp' Hnc Hi Hr Hp.
  - cbn in Hr, Hp. inversion Hr; inversion Hp; subst. exact Hi.
  - cbn [run_reloc run_plain map no_clobber] in Hr, Hp, Hnc.
    apply bind_ok_inv in Hr as ([b1 rs1] & Hs & Hr).
    apply bind_ok_inv in Hp as (bp1 & Hsp & Hp).
    rewrite Hs in Hnc. apply andb_true_iff in Hnc as [Hat Hnc]. cbn [snd] in Hat.
    eapply IH; eauto. eapply step_inv; eauto.
Qed.

Lemma patch_blen pos new b : pos + blen new <= blen b -> blen (patch (N.to_nat pos) new b) = blen b.
Proof. unfold blen. intros H. rewrite patch_length; lia. Qed.

Lemma step_reloc_spec be op b rs b1 rs1 :
  step_reloc be op (b, rs) = Ok (b1, rs1) ->
  rs1 = rs ++ op_relocs (blen b) op /\ blen b1 = blen b + op_len be (blen b) op.
Proof.
  intros Hr.
  assert (Happ : forall e, blen (b ++ e) = blen b + blen e) by (intros; unfold blen; rewrite app_length; lia).
  destruct op as [bs|pos bs|v size|pos v size|a size|v sect size|pos v sect size|a eh size|sym size];
    cbn [step_reloc step_plain op_relocs op_len] in Hr |- *.
  - inversion Hr; subst. rewrite app_nil_r. auto.
  - apply bind_ok_inv in Hr as (x & Hx & Hr). inversion Hr; subst.
    apply ev_write_at_ok in Hx as [-> Hb]. rewrite app_nil_r, patch_blen by auto. split; auto; lia.
  - apply bind_ok_inv in Hr as (x & Hx & Hr). inversion Hr; subst.
    unfold ev_udata in Hx. apply bind_ok_inv in Hx as (e & He & Hx). inversion Hx; subst.
    rewrite app_nil_r, Happ, (write_udata_len _ _ _ _ He). auto.
  - apply bind_ok_inv in Hr as (x & Hx & Hr). inversion Hr; subst.
    unfold ev_udata_at in Hx. apply bind_ok_inv in Hx as (e & He & Hx).
    apply ev_write_at_ok in Hx as [-> Hb]. rewrite app_nil_r, patch_blen by auto. split; auto; lia.
  - destruct a as [v|s addend].
    + apply bind_ok_inv in Hr as (x & Hx & Hr). inversion Hr; subst. cbn [step_plain] in Hx.
      unfold ev_udata in Hx. apply bind_ok_inv in Hx as (e & He & Hx). inversion Hx; subst.
      rewrite app_nil_r, Happ, (write_udata_len _ _ _ _ He). auto.
    + apply bind_ok_inv in Hr as (x & Hx & Hr). inversion Hr; subst.
      unfold ev_udata in Hx. apply bind_ok_inv in Hx as (e & He & Hx). inversion Hx; subst.
      rewrite Happ, (write_udata_len _ _ _ _ He). auto.
  - apply bind_ok_inv in Hr as (x & Hx & Hr). inversion Hr; subst.
    unfold ev_udata in Hx. apply bind_ok_inv in Hx as (e & He & Hx). inversion Hx; subst.
    rewrite Happ, (write_udata_len _ _ _ _ He). auto.
  - apply bind_ok_inv in Hr as (x & Hx & Hr). inversion Hr; subst.
    unfold ev_udata_at in Hx. apply bind_ok_inv in Hx as (e & He & Hx).
    apply ev_write_at_ok in Hx as [-> Hb]. rewrite patch_blen by auto. split; auto; lia.
  - destruct a as [v|s addend].
    + apply bind_ok_inv in Hr as (x & Hx & Hr). inversion Hr; subst. cbn [step_plain] in Hx.
      apply bind_ok_inv in Hx as (e & He & Hx). inversion Hx; subst.
      rewrite He, app_nil_r, Happ. auto.
    + apply bind_ok_inv in Hr as (sz & Hsz & Hr).
      apply bind_ok_inv in Hr as (x & Hx & Hr). inversion Hr; subst.
      unfold ev_udata in Hx. apply bind_ok_inv in Hx as (e & He & Hx). inversion Hx; subst.
      rewrite Hsz, Happ, (write_udata_len _ _ _ _ He). auto.
  - discriminate.
Qed.

Lemma run_reloc_spec be : forall ws b rs b' rs',
  run_reloc be ws (b, rs) = Ok (b', rs') -> rs' = rs ++ spec_relocs be (blen b) ws.
Proof.
  induction ws as [|op ws IH]; intros b rs b' rs' Hr.
  - cbn in Hr. inversion Hr; subst. cbn. now rewrite app_nil_r.
  - cbn [run_reloc spec_relocs] in *.
    apply bind_ok_inv in Hr as ([b1 rs1] & Hs & Hr).
    apply step_reloc_spec in Hs as [-> Hl].
    apply IH in Hr. rewrite Hr, Hl, app_assoc. reflexivity.
Qed.

Lemma reloc_write_transparent_lemma : forall (be : bool) (env : target -> N) (ws : list wop) b rs bp,
  no_clobber be ws ([], []) = true ->
  run_reloc be ws ([], []) = Ok (b, rs) ->
  run_plain be (map (resolve env) ws) [] = Ok bp ->
  apply_relocs env be rs b = bp /\ rs = spec_relocs be 0 ws.
Proof.
  intros be env ws b rs bp Hnc Hr Hp. split.
  - assert (Hi : winv env be ([], []) []) by (split; cbn; auto).
    destruct (run_inv env be ws [] [] [] b rs bp Hnc Hi Hr Hp) as [H _]. exact H.
  - apply run_reloc_spec in Hr. exact Hr.
Qed.

(* ================================================================== READER HALF *)

(* ------------------------------------------------------------------ slices *)

Lemma nth_error_slice (s : list byte) o l i :
  nth_error (slice s o l) i = if (i <? l)%nat then nth_error s (o + i)%nat else None.
Proof. unfold slice. rewrite nth_error_firstn, nth_error_skipn. reflexivity. Qed.

Lemma slice_length (s : list byte) o l : (o + l <= length s)%nat -> length (slice s o l) = l.
Proof. intros H. unfold slice. rewrite firstn_length, skipn_length. lia. Qed.

Lemma firstn_slice (s : list byte) o l c : (c <= l)%nat -> firstn c (slice s o l) = slice s o c.
Proof. intros H. unfold slice. rewrite firstn_firstn. f_equal. lia. Qed.

Lemma skipn_slice (s : list byte) o l c :
  (c <= l)%nat -> skipn c (slice s o l) = slice s (o + c) (l - c).
Proof.
  intros H. apply list_ext; intros i.
  rewrite nth_error_skipn, !nth_error_slice.
  destruct (Nat.ltb_spec (c + i) l), (Nat.ltb_spec i (l - c)); try lia; auto.
  f_equal. lia.
Qed.

Lemma slice_ext (s t : list byte) o l :
  (forall i, (o <= i < o + l)%nat -> nth_error s i = nth_error t i) -> slice s o l = slice t o l.
Proof.
  intros H. apply list_ext; intros i. rewrite !nth_error_slice.
  destruct (Nat.ltb_spec i l); auto. apply H. lia.
Qed.

Lemma slice_patch_in pos new bs :
  (pos + length new <= length bs)%nat -> slice (patch pos new bs) pos (length new) = new.
Proof.
  intros H. apply list_ext; intros i. rewrite nth_error_slice, nth_error_patch by auto.
  destruct (Nat.ltb_spec i (length new)).
  - destruct (Nat.leb_spec pos (pos + i)), (Nat.ltb_spec (pos + i) (pos + length new)); try lia.
    cbn [andb]. f_equal. lia.
  - symmetry. apply nth_error_None. lia.
Qed.

(* ------------------------------------------------------------------ decoding / encoding *)

Lemma le_val_bound bs : le_val bs < 2 ^ (8 * N.of_nat (length bs)).
Proof.
  induction bs as [|b r IH]; cbn [le_val length].
  - cbn. lia.
  - rewrite pow8_S. pose proof (b2n_lt b). lia.
Qed.

Lemma le_val_le_bytes n x : le_val (le_bytes n x) = x mod 2 ^ (8 * N.of_nat n).
Proof.
  revert x; induction n as [|n IH]; intros x; cbn [le_bytes le_val].
  - cbn. now rewrite N.mod_1_r.
  - rewrite IH, b2n_n2b, pow8_S.
    assert (HM : 2 ^ (8 * N.of_nat n) <> 0) by (apply N.pow_nonzero; lia).
    rewrite N.mod_mul_r by (auto; lia). reflexivity.
Qed.

Lemma dec_enc_un n be x : dec_un be (enc_un n be x) = x mod 2 ^ (8 * N.of_nat n).
Proof.
  unfold dec_un, enc_un, be_val, be_bytes. destruct be.
  - rewrite rev_involutive. apply le_val_le_bytes.
  - apply le_val_le_bytes.
Qed.

Lemma take_spec : forall n (w : list byte),
  take n w = if (n <=? length w)%nat then Some (firstn n w, skipn n w) else None.
Proof.
  induction n as [|n IH]; intros w; cbn [take].
  - reflexivity.
  - destruct w as [|b w]; cbn [length firstn skipn]; auto.
    rewrite IH. change (S n <=? S (length w))%nat with (n <=? length w)%nat.
    destruct (n <=? length w)%nat; reflexivity.
Qed.

Lemma read_un_spec n be w :
  read_un n be w =
  if (n <=? length w)%nat then Ok (dec_un be (firstn n w), skipn n w) else Err EUnexpectedEof.
Proof.
  unfold read_un, read_bytes. rewrite take_spec.
  destruct (n <=? length w)%nat; reflexivity.
Qed.

(* ------------------------------------------------------------------ the pre-applied section *)

Lemma apply_rrel_length be r bs : length (apply_rrel be r bs) = length bs.
Proof.
  unfold apply_rrel. destruct (N.ltb_spec (blen bs) (rr_pos r + rr_w r)); auto.
  apply patch_length. rewrite enc_un_length. unfold blen in *. lia.
Qed.

Lemma apply_rrels_length be R : forall bs, length (apply_rrels be R bs) = length bs.
Proof.
  unfold apply_rrels. induction R as [|r R IH]; intros bs; cbn [fold_left]; auto.
  rewrite IH. apply apply_rrel_length.
Qed.

Definition idx_away (r : rrel) (i : nat) : Prop :=
  N.of_nat i < rr_pos r \/ rr_pos r + rr_w r <= N.of_nat i.

Lemma apply_rrel_away be r bs i : idx_away r i -> nth_error (apply_rrel be r bs) i = nth_error bs i.
Proof.
  unfold idx_away, apply_rrel. intros H.
  destruct (N.ltb_spec (blen bs) (rr_pos r + rr_w r)); auto.
  rewrite nth_error_patch by (rewrite enc_un_length; unfold blen in *; lia).
  rewrite enc_un_length.
  destruct (Nat.leb_spec (N.to_nat (rr_pos r)) i), (Nat.ltb_spec i (N.to_nat (rr_pos r) + N.to_nat (rr_w r)));
    cbn [andb]; auto; lia.
Qed.

(* F2: an index outside every site is unchanged *)
Lemma apply_rrels_away be R : forall bs i,
  (forall r, In r R -> idx_away r i) -> nth_error (apply_rrels be R bs) i = nth_error bs i.
Proof.
  unfold apply_rrels. induction R as [|r R IH]; intros bs i H; cbn [fold_left]; auto.
  rewrite IH by (intros r' Hr'; apply H; now right).
  apply apply_rrel_away. apply H. now left.
Qed.

Lemma sites_disjointb_cons r R :
  sites_disjointb (r :: R) = true ->
  (forall r', In r' R -> site_disjoint r' (rr_pos r) (rr_w r)) /\ sites_disjointb R = true.
Proof.
  cbn [sites_disjointb]. rewrite andb_true_iff, forallb_forall. intros [H1 H2]. split; auto.
  intros r' Hr'. specialize (H1 r' Hr'). unfold site_disjointb in H1. unfold site_disjoint. lia.
Qed.

Definition rrel_in (bs : list byte) (r : rrel) : Prop := rr_pos r + rr_w r <= blen bs.

(* F3: the field of a relocation of the set holds its encoded relocated value *)
Lemma apply_rrels_site be R : forall bs r,
  sites_disjointb R = true -> In r R -> rrel_in bs r -> 1 <= rr_w r ->
  slice (apply_rrels be R bs) (N.to_nat (rr_pos r)) (N.to_nat (rr_w r)) =
  enc_un (N.to_nat (rr_w r)) be
    (rrel_value r (dec_un be (slice bs (N.to_nat (rr_pos r)) (N.to_nat (rr_w r))))).
Proof.
  induction R as [|r0 R IH]; intros bs r Hd Hin Hb Hw; [destruct Hin|].
  apply sites_disjointb_cons in Hd as [Hd0 Hd].
  change (apply_rrels be (r0 :: R) bs) with (apply_rrels be R (apply_rrel be r0 bs)).
  destruct Hin as [->|Hin].
  - (* the head: patched now, untouched afterwards *)
    transitivity (slice (apply_rrel be r bs) (N.to_nat (rr_pos r)) (N.to_nat (rr_w r))).
    + apply slice_ext. intros i Hi. apply apply_rrels_away. intros r' Hr'.
      specialize (Hd0 r' Hr'). unfold site_disjoint in Hd0. unfold idx_away. lia.
    + unfold apply_rrel. unfold rrel_in in Hb.
      destruct (N.ltb_spec (blen bs) (rr_pos r + rr_w r)); try lia.
      set (e := enc_un _ _ _).
      replace (N.to_nat (rr_w r)) with (length e) at 1 by (unfold e; apply enc_un_length).
      apply slice_patch_in. unfold e. rewrite enc_un_length. unfold blen in *. lia.
  - (* a later one: the head does not touch its field *)
    specialize (Hd0 r Hin). unfold site_disjoint in Hd0.
    rewrite IH; auto.
    + f_equal. f_equal. f_equal. apply slice_ext. intros i Hi. apply apply_rrel_away.
      unfold idx_away. lia.
    + unfold rrel_in, blen in *. now rewrite apply_rrel_length.
Qed.

(* the relocation map finds the unique entry at a position *)
Lemma relocate_unique R : forall r pos v,
  sites_disjointb R = true -> In r R -> rr_pos r = pos -> 1 <= rr_w r ->
  (forall r', In r' R -> rr_pos r' = pos -> 1 <= rr_w r') ->
  relocate R pos v = rrel_value r v.
Proof.
  unfold relocate. induction R as [|r0 R IH]; intros r pos v Hd Hin Hp Hw Hall; [destruct Hin|].
  apply sites_disjointb_cons in Hd as [Hd0 Hd]. cbn [find].
  destruct (N.eqb_spec (rr_pos r0) pos) as [E|E].
  - destruct Hin as [->|Hin]; auto.
    exfalso. specialize (Hd0 r Hin). unfold site_disjoint in Hd0.
    specialize (Hall r0 (or_introl eq_refl) E). lia.
  - destruct Hin as [->|Hin]; [contradiction|].
    apply IH; auto. intros r' Hr'. apply Hall. now right.
Qed.

Lemma relocate_none R pos v : (forall r, In r R -> rr_pos r <> pos) -> relocate R pos v = v.
Proof.
  unfold relocate. induction R as [|r0 R IH]; intros H; cbn [find]; auto.
  destruct (N.eqb_spec (rr_pos r0) pos) as [E|E].
  - exfalso. apply (H r0); auto. now left.
  - apply IH. intros r Hr. apply H. now right.
Qed.

(* ------------------------------------------------------------------ readers determined by a prefix *)

Definition prefix_det {A} (f : list byte -> res (A * list byte)) : Prop :=
  forall w v rest, f w = Ok (v, rest) ->
    exists c, (c <= length w)%nat /\ rest = skipn c w /\
      forall w', firstn c w' = firstn c w -> (c <= length w')%nat -> f w' = Ok (v, skipn c w').

Lemma prefix_det_read_un n be : prefix_det (read_un n be).
Proof.
  intros w v rest H. rewrite read_un_spec in H.
  destruct (Nat.leb_spec n (length w)); try discriminate. inversion H; subst.
  exists n. repeat split; auto. intros w' Hw' Hl. rewrite read_un_spec.
  destruct (Nat.leb_spec n (length w')); try lia. now rewrite Hw'.
Qed.

Lemma prefix_det_ext {A} (f g : list byte -> res (A * list byte)) :
  (forall w, f w = g w) -> prefix_det g -> prefix_det f.
Proof.
  intros E Hg w v rest H. rewrite E in H. destruct (Hg w v rest H) as (c & Hc & Hr & Hw).
  exists c. repeat split; auto. intros w' H1 H2. rewrite E. auto.
Qed.

Lemma prefix_det_read_word f be : prefix_det (read_word f be).
Proof. unfold read_word. destruct f; apply prefix_det_read_un. Qed.

Lemma split_leb_prefix : forall bs e rest,
  split_leb bs = Some (e, rest) -> forall t, split_leb (e ++ t) = Some (e, t).
Proof.
  induction bs as [|b bs IH]; intros e rest H t; cbn [split_leb] in H; [discriminate|].
  destruct (cont_bit b) eqn:Eb.
  - destruct (split_leb bs) as [[e' rest']|] eqn:Es; [|discriminate]. inversion H; subst.
    cbn [app split_leb]. rewrite Eb, (IH e' rest eq_refl t). reflexivity.
  - inversion H; subst. cbn [app split_leb]. now rewrite Eb.
Qed.

Lemma firstn_skipn_eq {A} (c : nat) (w w' : list A) :
  firstn c w' = firstn c w -> w' = firstn c w ++ skipn c w'.
Proof. intros H. rewrite <- H. symmetry. apply firstn_skipn. Qed.

Lemma prefix_det_uleb dbg : prefix_det (read_uleb128 dbg).
Proof.
  intros w v rest H. rewrite read_uleb128_exact in H. unfold uleb_spec in H.
  destruct (split_leb w) as [[e r]|] eqn:Es.
  2:{ destruct (10 <=? length w)%nat; discriminate. }
  destruct ((length e <=? 10)%nat && (uval e <? 2 ^ 64)) eqn:Ec; [|discriminate].
  inversion H; subst. pose proof (split_leb_app _ _ _ Es) as Hw.
  exists (length e). subst w. rewrite app_length. split; [lia|].
  rewrite skipn_app, skipn_all, Nat.sub_diag. cbn [skipn app]. split; auto.
  intros w' Hw' Hl. rewrite firstn_app, firstn_all, Nat.sub_diag, firstn_O, app_nil_r in Hw'.
  rewrite read_uleb128_exact. unfold uleb_spec.
  rewrite (firstn_skipn_eq (length e) (e ++ rest) w') at 1
    by (rewrite firstn_app, firstn_all, Nat.sub_diag, firstn_O, app_nil_r; exact Hw').
  rewrite firstn_app, firstn_all, Nat.sub_diag, firstn_O, app_nil_r.
  rewrite (split_leb_prefix _ _ _ Es), Ec. reflexivity.
Qed.

Lemma prefix_det_sleb dbg : prefix_det (read_sleb128 dbg).
Proof.
  intros w v rest H. rewrite read_sleb128_exact in H. unfold sleb_spec in H.
  destruct (split_leb w) as [[e r]|] eqn:Es.
  2:{ destruct (10 <=? length w)%nat; discriminate. }
  destruct ((length e <=? 10)%nat && in_i64 (sval e)) eqn:Ec; [|discriminate].
  inversion H; subst. pose proof (split_leb_app _ _ _ Es) as Hw.
  exists (length e). subst w. rewrite app_length. split; [lia|].
  rewrite skipn_app, skipn_all, Nat.sub_diag. cbn [skipn app]. split; auto.
  intros w' Hw' Hl. rewrite firstn_app, firstn_all, Nat.sub_diag, firstn_O, app_nil_r in Hw'.
  rewrite read_sleb128_exact. unfold sleb_spec.
  rewrite (firstn_skipn_eq (length e) (e ++ rest) w') at 1
    by (rewrite firstn_app, firstn_all, Nat.sub_diag, firstn_O, app_nil_r; exact Hw').
  rewrite firstn_app, firstn_all, Nat.sub_diag, firstn_O, app_nil_r.
  rewrite (split_leb_prefix _ _ _ Es), Ec. reflexivity.
Qed.

(* the three relocatable methods read a fixed-width unsigned field or reject the size *)
Definition sized_reader (be : bool) (w : N) (f : list byte -> res (N * list byte)) : Prop :=
  (exists k, (1 <= k)%nat /\ N.of_nat k = w /\ forall bs, f bs = read_un k be bs) \/
  (exists e, forall bs, f bs = Err e).

Lemma sized_read_address size be : sized_reader be size (read_address size be).
Proof.
  unfold sized_reader, read_address.
  destruct (N.eqb_spec size 1) as [->|]; [left; exists 1%nat; repeat split; auto; lia|].
  destruct (N.eqb_spec size 2) as [->|]; [left; exists 2%nat; repeat split; auto; lia|].
  destruct (N.eqb_spec size 4) as [->|]; [left; exists 4%nat; repeat split; auto; lia|].
  destruct (N.eqb_spec size 8) as [->|]; [left; exists 8%nat; repeat split; auto; lia|].
  right; eauto.
Qed.

Lemma sized_read_sized_offset size be : sized_reader be size (read_sized_offset size be).
Proof.
  unfold sized_reader, read_sized_offset.
  destruct (N.eqb_spec size 1) as [->|]; [left; exists 1%nat; repeat split; auto; lia|].
  destruct (N.eqb_spec size 2) as [->|]; [left; exists 2%nat; repeat split; auto; lia|].
  destruct (N.eqb_spec size 4) as [->|]; [left; exists 4%nat; repeat split; auto; lia|].
  destruct (N.eqb_spec size 8) as [->|]; [left; exists 8%nat; repeat split; auto; lia|].
  right; eauto.
Qed.

Lemma sized_read_word f be : sized_reader be (word_size f) (read_word f be).
Proof.
  unfold sized_reader, read_word, word_size.
  destruct f; [left; exists 8%nat; repeat split; auto; lia|left; exists 4%nat; repeat split; auto; lia].
Qed.

(* ------------------------------------------------------------------ simulation *)

Section Sim.
  Variables (be dbg : bool) (R : list rrel) (sec : list byte) (base : N).
  Hypothesis HR : sites_disjointb R = true.

  Definition mkst (s : list byte) (o l : nat) : rd := mkRd (base + N.of_nat o) (slice s o l).

  (* the relocating reader over the raw section and the plain reader over the pre-applied section
     look at the same window *)
  Definition st_rel (x : rrd) (r : rd) : Prop :=
    exists o l, (o + l <= length sec)%nat /\
      x = mkRrd (mkRd base sec) (mkst sec o l) /\ r = mkst (apply_rrels be R sec) o l.

  Definition res_rel {A} (a : res (A * rrd)) (b : res (A * rd)) : Prop :=
    match a, b with
    | Ok (v, x), Ok (v', r) => v = v' /\ st_rel x r
    | Err e, Err e' => e = e'
    | Panic, Panic => True
    | OutOfFuel, OutOfFuel => True
    | _, _ => False
    end.

  Lemma rd_len_mkst s o l : (o + l <= length s)%nat -> rd_len (mkst s o l) = N.of_nat l.
  Proof. intros H. unfold rd_len, mkst, blen. cbn [win]. now rewrite slice_length. Qed.

  Lemma rd_lift_mkst {A} (f : list byte -> res (A * list byte)) s o l v c :
    (o + l <= length s)%nat -> (c <= l)%nat ->
    f (slice s o l) = Ok (v, skipn c (slice s o l)) ->
    rd_lift f (mkst s o l) = Ok (v, mkst s (o + c) (l - c)).
  Proof.
    intros Hb Hc Hf. unfold rd_lift, mkst. cbn [win off]. rewrite Hf. cbn [bind].
    unfold rd_len, blen. cbn [win]. rewrite skipn_length, slice_length, skipn_slice by auto.
    do 2 f_equal. f_equal. lia.
  Qed.

  Lemma rd_lift_fail {A} (f : list byte -> res (A * list byte)) (r : rd) :
    (forall v rest, f (win r) <> Ok (v, rest)) ->
    rd_lift f r = match f (win r) with Ok _ => Panic | Err e => Err e | Panic => Panic | OutOfFuel => OutOfFuel end.
  Proof.
    intros H. unfold rd_lift. destruct (f (win r)) as [[v rest]| | |]; auto. exfalso. eapply H; eauto.
  Qed.

  Lemma offset_from_mkst o l :
    (o + l <= length sec)%nat -> rd_offset_from dbg (mkst sec o l) (mkRd base sec) = Ok (N.of_nat o).
  Proof.
    intros H. unfold rd_offset_from. rewrite rd_len_mkst by auto. unfold mkst, rd_len, blen. cbn [off win].
    destruct (N.ltb_spec (base + N.of_nat o) base); try lia.
    destruct (N.ltb_spec (base + N.of_nat (length sec)) (base + N.of_nat o + N.of_nat l)); try lia.
    rewrite andb_false_r. unfold chk_sub.
    destruct (N.leb_spec base (base + N.of_nat o)); try lia. f_equal. lia.
  Qed.

  Lemma slices_agree o n :
    (o + n <= length sec)%nat ->
    (forall r, In r R -> site_disjoint r (N.of_nat o) (N.of_nat n)) ->
    slice (apply_rrels be R sec) o n = slice sec o n.
  Proof.
    intros Hb H. apply slice_ext. intros i Hi. apply apply_rrels_away. intros r Hr.
    specialize (H r Hr). unfold site_disjoint in H. unfold idx_away. lia.
  Qed.

  Lemma plain_case {A} (f : list byte -> res (A * list byte)) x r :
    prefix_det f -> st_rel x r -> trace_ok R (fst (rr_plain f x)) ->
    res_rel (snd (rr_plain f x)) (rd_lift f r).
  Proof.
    intros Hf (o & l & Hb & -> & ->) Ht.
    unfold rr_plain in *. cbn [reader section] in *.
    replace (off (mkst sec o l) - off (mkRd base sec)) with (N.of_nat o) in Ht
      by (unfold mkst; cbn [off]; lia).
    destruct (f (slice sec o l)) as [[v rest]|e| |] eqn:Ef.
    - destruct (Hf _ _ _ Ef) as (c & Hc & Hrest & Hdet). rewrite slice_length in Hc by auto.
      subst rest.
      rewrite (rd_lift_mkst f sec o l v c Hb Hc Ef) in *. cbn [fst snd] in *.
      rewrite !rd_len_mkst in Ht by lia.
      inversion Ht as [|? ? He _]; subst. cbn [ev_ok] in He.
      assert (Hs : slice (apply_rrels be R sec) o c = slice sec o c).
      { apply slices_agree; [lia|]. intros r Hr. specialize (He r Hr).
        unfold site_disjoint in *. lia. }
      assert (Hp : f (slice (apply_rrels be R sec) o l) = Ok (v, skipn c (slice (apply_rrels be R sec) o l))).
      { apply Hdet.
        - rewrite !firstn_slice by auto. exact Hs.
        - rewrite slice_length; auto. now rewrite apply_rrels_length. }
      rewrite (rd_lift_mkst f _ o l v c) by (rewrite ?apply_rrels_length; auto).
      cbn [res_rel]. split; auto. exists (o + c)%nat, (l - c)%nat. repeat split; auto. lia.
    - assert (Hl : rd_lift f (mkst sec o l) = Err e) by (unfold rd_lift, mkst; cbn [win]; now rewrite Ef).
      rewrite Hl in *. cbn [fst snd] in *. rewrite rd_len_mkst in Ht by auto.
      inversion Ht as [|? ? He _]; subst. cbn [ev_ok] in He.
      rewrite <- (slices_agree o l Hb He) in Ef.
      unfold rd_lift, mkst. cbn [win]. rewrite Ef. cbn. reflexivity.
    - assert (Hl : rd_lift f (mkst sec o l) = Panic) by (unfold rd_lift, mkst; cbn [win]; now rewrite Ef).
      rewrite Hl in *. cbn [fst snd] in *. rewrite rd_len_mkst in Ht by auto.
      inversion Ht as [|? ? He _]; subst. cbn [ev_ok] in He.
      rewrite <- (slices_agree o l Hb He) in Ef.
      unfold rd_lift, mkst. cbn [win]. rewrite Ef. cbn. exact I.
    - assert (Hl : rd_lift f (mkst sec o l) = OutOfFuel) by (unfold rd_lift, mkst; cbn [win]; now rewrite Ef).
      rewrite Hl in *. cbn [fst snd] in *. rewrite rd_len_mkst in Ht by auto.
      inversion Ht as [|? ? He _]; subst. cbn [ev_ok] in He.
      rewrite <- (slices_agree o l Hb He) in Ef.
      unfold rd_lift, mkst. cbn [win]. rewrite Ef. cbn. exact I.
  Qed.

  Lemma read_un_slice k s o l :
    (o + l <= length s)%nat -> (k <= l)%nat ->
    read_un k be (slice s o l) = Ok (dec_un be (slice s o k), skipn k (slice s o l)).
  Proof.
    intros Hb Hk. rewrite read_un_spec, slice_length by auto.
    destruct (Nat.leb_spec k l); try lia. now rewrite firstn_slice.
  Qed.

  Lemma read_un_slice_eof k s o l :
    (o + l <= length s)%nat -> (l < k)%nat -> read_un k be (slice s o l) = Err EUnexpectedEof.
  Proof.
    intros Hb Hk. rewrite read_un_spec, slice_length by auto.
    destruct (Nat.leb_spec k l); try lia. reflexivity.
  Qed.

  Lemma rel_case (w : N) (f : list byte -> res (N * list byte)) (hook : N -> N -> res N) x r :
    (forall pos v, hook pos v = Ok (relocate R pos v)) ->
    sized_reader be w f -> st_rel x r ->
    trace_ok R (fst (rr_rel dbg w f hook x)) ->
    res_rel (snd (rr_rel dbg w f hook x)) (rd_lift f r).
  Proof.
    intros Hh Hs (o & l & Hb & -> & ->) Ht.
    unfold rr_rel in *. cbn [reader section] in *. rewrite offset_from_mkst in * by auto.
    set (P := apply_rrels be R sec) in *.
    assert (HbP : (o + l <= length P)%nat) by (unfold P; now rewrite apply_rrels_length).
    destruct Hs as [(k & Hk & Hw & Hfk) | (e & He)].
    - destruct (Nat.le_gt_cases k l) as [Hkl|Hkl].
      + assert (E1 : f (slice sec o l) = Ok (dec_un be (slice sec o k), skipn k (slice sec o l)))
          by (rewrite Hfk; now apply read_un_slice).
        assert (E2 : f (slice P o l) = Ok (dec_un be (slice P o k), skipn k (slice P o l)))
          by (rewrite Hfk; now apply read_un_slice).
        rewrite (rd_lift_mkst f sec o l _ k Hb Hkl E1) in *.
        rewrite (rd_lift_mkst f P o l _ k HbP Hkl E2).
        cbn [fst snd] in *. rewrite Hh. cbn [bind res_rel].
        set (v := dec_un be (slice sec o k)) in *.
        apply Forall_inv in Ht. cbn [ev_ok] in Ht. destruct Ht as (H1 & H2).
        split.
        * (* the value *)
          destruct (find (fun r => rr_pos r =? N.of_nat o) R) as [r|] eqn:Efind.
          -- apply find_some in Efind as [Hin Hpos]. apply N.eqb_eq in Hpos.
             destruct (H1 r Hin Hpos) as [Hrw H3].
             assert (Hu : relocate R (N.of_nat o) v = rrel_value r v).
             { apply relocate_unique; auto; try lia. intros r' Hr' Hp'.
               destruct (H1 r' Hr' Hp') as [Hw' _]. rewrite Hw'. lia. }
             pose proof (apply_rrels_site be R sec r HR Hin) as Hsite.
             rewrite Hpos, Hrw, <- Hw, !Nat2N.id in Hsite. fold P in Hsite.
             rewrite Hsite by (unfold rrel_in, blen; lia).
             rewrite dec_enc_un. fold v. rewrite Hu. symmetry. apply N.mod_small.
             rewrite Hw. exact H3.
          -- assert (Hnone : forall r, In r R -> rr_pos r <> N.of_nat o).
             { intros r Hr Hp. pose proof (find_none _ _ Efind r Hr) as Hf. cbn in Hf.
               apply N.eqb_neq in Hf. contradiction. }
             rewrite relocate_none by exact Hnone.
             unfold P. rewrite slices_agree; auto; try lia.
             intros r Hr. rewrite Hw. apply H2; auto.
        * exists (o + k)%nat, (l - k)%nat. repeat split; auto. lia.
      + assert (E1 : rd_lift f (mkst sec o l) = Err EUnexpectedEof).
        { unfold rd_lift, mkst. cbn [win]. rewrite Hfk, read_un_slice_eof by auto. reflexivity. }
        assert (E2 : rd_lift f (mkst P o l) = Err EUnexpectedEof).
        { unfold rd_lift, mkst. cbn [win]. rewrite Hfk, read_un_slice_eof by auto. reflexivity. }
        rewrite E1, E2. cbn. reflexivity.
    - assert (E1 : rd_lift f (mkst sec o l) = Err e) by (unfold rd_lift; now rewrite He).
      assert (E2 : rd_lift f (mkst P o l) = Err e) by (unfold rd_lift; now rewrite He).
      rewrite E1, E2. cbn. reflexivity.
  Qed.

  Lemma tbind_rel {V A} (t : tres (V * rrd)) (g : V * rrd -> tres (A * rrd))
        (b : res (V * rd)) (h : V * rd -> res (A * rd)) :
    trace_ok R (fst (tbind t g)) ->
    (trace_ok R (fst t) -> res_rel (snd t) b) ->
    (forall v x' r', st_rel x' r' -> trace_ok R (fst (g (v, x'))) ->
                     res_rel (snd (g (v, x'))) (h (v, r'))) ->
    res_rel (snd (tbind t g)) (bind b h).
  Proof.
    intros Ht H1 H2. unfold tbind in *. destruct t as [tr [[v x']|e| |]]; cbn [fst snd] in *.
    - apply Forall_app in Ht as [Ht1 Ht2]. specialize (H1 Ht1).
      destruct b as [[v' r']|e'| |]; cbn [res_rel] in H1; try contradiction.
      destruct H1 as [<- Hst]. cbn [bind]. apply H2; auto.
    - specialize (H1 Ht). destruct b as [[v' r']|e'| |]; cbn [res_rel] in H1; try contradiction.
      subst. cbn. reflexivity.
    - specialize (H1 Ht). destruct b as [[v' r']|e'| |]; cbn [res_rel] in H1; try contradiction.
      cbn. exact I.
    - specialize (H1 Ht). destruct b as [[v' r']|e'| |]; cbn [res_rel] in H1; try contradiction.
      cbn. exact I.
  Qed.

  Lemma rd_skip_mkst s o l n :
    (o + l <= length s)%nat ->
    rd_skip n (mkst s o l) =
    if N.of_nat l <? n then Err EUnexpectedEof else Ok (mkst s (o + N.to_nat n) (l - N.to_nat n)).
  Proof.
    intros Hb. unfold rd_skip. rewrite rd_len_mkst by auto.
    destruct (N.ltb_spec (N.of_nat l) n); auto.
    unfold mkst. cbn [off win]. rewrite skipn_slice by lia. do 2 f_equal. lia.
  Qed.

  Lemma rd_truncate_mkst s o l n :
    (o + l <= length s)%nat ->
    rd_truncate n (mkst s o l) =
    if N.of_nat l <? n then Err EUnexpectedEof else Ok (mkst s o (N.to_nat n)).
  Proof.
    intros Hb. unfold rd_truncate. rewrite rd_len_mkst by auto.
    destruct (N.ltb_spec (N.of_nat l) n); auto.
    unfold mkst. cbn [off win]. rewrite firstn_slice by lia. reflexivity.
  Qed.

  Lemma rd_split_mkst s o l n :
    (o + l <= length s)%nat ->
    rd_split n (mkst s o l) =
    if N.of_nat l <? n then Err EUnexpectedEof
    else Ok (mkst s o (N.to_nat n), mkst s (o + N.to_nat n) (l - N.to_nat n)).
  Proof.
    intros Hb. unfold rd_split. rewrite rd_len_mkst by auto.
    destruct (N.ltb_spec (N.of_nat l) n); auto.
    unfold mkst. cbn [off win]. rewrite firstn_slice, skipn_slice by lia. do 3 f_equal. lia.
  Qed.

  Lemma sim_run {A} (p : prog A) : forall x r,
    st_rel x r ->
    trace_ok R (fst (run_reloc_rd be dbg (map_relocator R) p x)) ->
    res_rel (snd (run_reloc_rd be dbg (map_relocator R) p x)) (run_plain_rd be dbg p r).
  Proof.
    induction p as [a|e| |n k IH|k IH|k IH|n k IH|k IH|size k IH|f k IH|size k IH|f k IH|len sub IHs k IHk];
      intros x r Hst Ht; cbn [run_reloc_rd run_plain_rd] in *.
    - cbn. auto.
    - cbn. auto.
    - cbn. auto.
    - apply tbind_rel; [exact Ht| |].
      + intros Ht'. apply plain_case; auto. apply prefix_det_read_un.
      + intros v x' r' Hst' Ht'. apply IH; auto.
    - apply tbind_rel; [exact Ht| |].
      + intros Ht'. apply plain_case; auto. apply prefix_det_uleb.
      + intros v x' r' Hst' Ht'. apply IH; auto.
    - apply tbind_rel; [exact Ht| |].
      + intros Ht'. apply plain_case; auto. apply prefix_det_sleb.
      + intros v x' r' Hst' Ht'. apply IH; auto.
    - destruct Hst as (o & l & Hb & -> & ->). cbn [reader section] in *.
      assert (HbP : (o + l <= length (apply_rrels be R sec))%nat) by now rewrite apply_rrels_length.
      rewrite !rd_skip_mkst in * by auto.
      destruct (N.ltb_spec (N.of_nat l) n).
      + cbn. reflexivity.
      + unfold tbind, tret in *. cbn [fst snd bind app] in *.
        apply IH; auto. exists (o + N.to_nat n)%nat, (l - N.to_nat n)%nat. repeat split; auto. lia.
    - destruct Hst as (o & l & Hb & -> & ->). cbn [reader section] in *.
      rewrite !rd_len_mkst in * by (rewrite ?apply_rrels_length; auto).
      apply IH; auto. exists o, l. auto.
    - apply tbind_rel; [exact Ht| |].
      + intros Ht'. apply rel_case; auto. apply sized_read_address.
      + intros v x' r' Hst' Ht'. apply IH; auto.
    - apply tbind_rel; [exact Ht| |].
      + intros Ht'. apply rel_case; auto. apply sized_read_word.
      + intros v x' r' Hst' Ht'. apply IH; auto.
    - apply tbind_rel; [exact Ht| |].
      + intros Ht'. apply rel_case; auto. apply sized_read_sized_offset.
      + intros v x' r' Hst' Ht'. apply IH; auto.
    - apply tbind_rel; [exact Ht| |].
      + intros Ht'. apply plain_case; auto. apply prefix_det_read_word.
      + intros v x' r' Hst' Ht'. apply IH; auto.
    - destruct Hst as (o & l & Hb & -> & ->).
      assert (HbP : (o + l <= length (apply_rrels be R sec))%nat) by now rewrite apply_rrels_length.
      unfold rr_split in *. cbn [reader section] in *.
      rewrite rd_truncate_mkst, rd_skip_mkst, rd_split_mkst in * by auto.
      destruct (N.ltb_spec (N.of_nat l) len).
      + cbn. reflexivity.
      + cbn [bind] in *. unfold tbind at 1 in Ht. unfold tbind at 1. unfold tret in *.
        cbn [fst snd app] in *.
        apply tbind_rel; [exact Ht| |].
        * intros Ht'. apply IHs; auto. exists o, (N.to_nat len). repeat split; auto. lia.
        * intros a x'' r'' _ Ht'. apply IHk; auto.
          exists (o + N.to_nat len)%nat, (l - N.to_nat len)%nat. repeat split; auto. lia.
  Qed.
End Sim.

(* ------------------------------------------------------------------ top-level reader statements *)

Lemma mkst_whole base (s : list byte) : mkst base s 0 (length s) = mkRd base s.
Proof. unfold mkst, slice. cbn [skipn]. rewrite firstn_all. f_equal. lia. Qed.

Lemma st_rel_start be R sec base :
  st_rel be R sec base (rrd_new (mkRd base sec)) (mkRd base (apply_rrels be R sec)).
Proof.
  exists 0%nat, (length sec). repeat split; auto.
  - unfold rrd_new. now rewrite mkst_whole.
  - rewrite <- (apply_rrels_length be R sec). now rewrite mkst_whole.
Qed.

Lemma res_rel_out {A} be R sec base (a : res (A * rrd)) (b : res (A * rd)) :
  res_rel be R sec base a b ->
  out_reloc a = out_plain (mkRd base (apply_rrels be R sec)) b.
Proof.
  unfold res_rel, out_reloc, out_plain.
  destruct a as [[v x]|e| |], b as [[v' r]|e'| |]; cbn [bind]; try contradiction; auto.
  - intros [<- (o & l & Hb & -> & ->)]. cbn [reader section off].
    rewrite !rd_len_mkst by (rewrite ?apply_rrels_length; auto).
    unfold mkst. cbn [off]. do 2 f_equal.
  - now intros ->.
Qed.

Lemma parser_reloc_lemma : forall (A : Type) (be dbg : bool) (R : list rrel) (p : prog A) (bs : list byte) (base : N),
  sites_disjointb R = true ->
  trace_ok R (fst (run_reloc_rd be dbg (map_relocator R) p (rrd_new (mkRd base bs)))) ->
  out_reloc (snd (run_reloc_rd be dbg (map_relocator R) p (rrd_new (mkRd base bs)))) =
  out_plain (mkRd base (apply_rrels be R bs))
            (run_plain_rd be dbg p (mkRd base (apply_rrels be R bs))).
Proof.
  intros A be dbg R p bs base HR Ht. apply res_rel_out.
  apply sim_run; auto. apply st_rel_start.
Qed.

(* boolean side conditions reflect the propositional ones *)
Lemma site_disjointb_ok r pos n : site_disjointb r pos n = true -> site_disjoint r pos n.
Proof. unfold site_disjointb, site_disjoint. lia. Qed.

Lemma ev_okb_ok R e : ev_okb R e = true -> ev_ok R e.
Proof.
  destruct e as [pos n|pos w v]; cbn [ev_okb ev_ok]; rewrite forallb_forall; intros H.
  - intros r Hr. apply site_disjointb_ok. auto.
  - split; intros r Hr Hp; specialize (H r Hr).
    + apply N.eqb_eq in Hp. rewrite Hp in H. apply andb_true_iff in H as [H1 H2].
      apply N.eqb_eq in H1. apply N.ltb_lt in H2. auto.
    + apply N.eqb_neq in Hp. rewrite Hp in H. now apply site_disjointb_ok.
Qed.

Lemma trace_okb_ok R t : trace_okb R t = true -> trace_ok R t.
Proof.
  unfold trace_okb, trace_ok. rewrite forallb_forall. intros H. apply Forall_forall.
  intros e He. apply ev_okb_ok. auto.
Qed.

(* the empty relocation set: every trace is acceptable, the section is unchanged *)
Lemma trace_ok_nil t : trace_ok [] t.
Proof.
  unfold trace_ok. apply Forall_forall. intros [pos n|pos w v] _; cbn [ev_ok].
  - intros r [].
  - split; intros r [].
Qed.

Lemma identity_reloc_lemma : forall (A : Type) (be dbg : bool) (p : prog A) (bs : list byte) (base : N),
  out_reloc (snd (run_reloc_rd be dbg id_relocator p (rrd_new (mkRd base bs)))) =
  out_plain (mkRd base bs) (run_plain_rd be dbg p (mkRd base bs)).
Proof.
  intros A be dbg p bs base.
  change id_relocator with (map_relocator []).
  change bs with (apply_rrels be [] bs) at 2 3.
  apply parser_reloc_lemma; auto. apply trace_ok_nil.
Qed.

(* ------------------------------------------------------------------ one relocatable read *)

Definition reloc_method (be : bool) (w : N) (f : list byte -> res (N * list byte)) : Prop :=
  f = read_address w be \/ f = read_sized_offset w be \/ (exists fmt, w = word_size fmt /\ f = read_word fmt be).

Lemma reloc_method_sized be w f : reloc_method be w f -> sized_reader be w f.
Proof.
  intros [->|[->|(fmt & -> & ->)]].
  - apply sized_read_address.
  - apply sized_read_sized_offset.
  - apply sized_read_word.
Qed.

Lemma prim_reloc_lemma : forall (be dbg : bool) (R : list rrel) (bs : list byte) (base : N) (o l : nat) (w : N) f,
  sites_disjointb R = true -> reloc_method be w f -> (o + l <= length bs)%nat ->
  let x := mkRrd (mkRd base bs) (mkRd (base + N.of_nat o) (slice bs o l)) in
  let P := apply_rrels be R bs in
  let t := rr_rel dbg w f (fun pos v => Ok (relocate R pos v)) x in
  trace_ok R (fst t) ->
  out_reloc (snd t) = out_plain (mkRd base P) (rd_lift f (mkRd (base + N.of_nat o) (slice P o l))).
Proof.
  intros be dbg R bs base o l w f HR Hm Hb x P t Ht.
  apply res_rel_out. apply rel_case; auto.
  - now apply reloc_method_sized.
  - exists o, l. auto.
Qed.

Lemma sites_pairwise R : forall r1 r2,
  sites_disjointb R = true -> In r1 R -> In r2 R ->
  r1 = r2 \/ site_disjoint r1 (rr_pos r2) (rr_w r2).
Proof.
  induction R as [|r0 R IH]; intros r1 r2 Hd H1 H2; [destruct H1|].
  apply sites_disjointb_cons in Hd as [Hd0 Hd].
  destruct H1 as [->|H1], H2 as [->|H2]; auto.
  - right. specialize (Hd0 r2 H2). unfold site_disjoint in *. lia.
Qed.

(* explicit form: a relocation (pos, w, addend) of the set, a field of that width at pos holding v:
   the relocating read returns v (+) addend, and so does the plain read of the pre-applied section *)
Lemma prim_reloc_value_lemma : forall (be dbg : bool) (R : list rrel) (bs : list byte) (base : N) (r : rrel) (l : nat) f,
  sites_disjointb R = true -> (forall r', In r' R -> 1 <= rr_w r') -> In r R ->
  reloc_method be (rr_w r) f ->
  (rr_w r = 1 \/ rr_w r = 2 \/ rr_w r = 4 \/ rr_w r = 8) ->
  let o := N.to_nat (rr_pos r) in
  let k := N.to_nat (rr_w r) in
  (k <= l)%nat -> (o + l <= length bs)%nat ->
  let v := dec_un be (slice bs o k) in
  rrel_value r v < 2 ^ (8 * rr_w r) ->
  let x := mkRrd (mkRd base bs) (mkRd (base + rr_pos r) (slice bs o l)) in
  let P := apply_rrels be R bs in
  snd (rr_rel dbg (rr_w r) f (fun pos v => Ok (relocate R pos v)) x) =
    Ok (rrel_value r v, mkRrd (mkRd base bs) (mkRd (base + rr_pos r + rr_w r) (slice bs (o + k) (l - k)))) /\
  rd_lift f (mkRd (base + rr_pos r) (slice P o l)) =
    Ok (rrel_value r v, mkRd (base + rr_pos r + rr_w r) (slice P (o + k) (l - k))).
Proof.
  intros be dbg R bs base r l f HR Hw1 Hin Hm Hw o k Hkl Hb v Hfit x P.
  assert (Hs : sized_reader be (rr_w r) f) by now apply reloc_method_sized.
  assert (Hfk : forall w, f w = read_un k be w).
  { destruct Hs as [(k' & _ & Hk' & Hf)|(e & He)].
    - intros w. rewrite Hf. f_equal. unfold k. lia.
    - exfalso. destruct Hm as [->|[->|(fmt & E & ->)]].
      + specialize (He (repeat x00 8)). unfold read_address in He.
        destruct Hw as [E|[E|[E|E]]]; rewrite E in He; cbn in He; discriminate.
      + specialize (He (repeat x00 8)). unfold read_sized_offset in He.
        destruct Hw as [E|[E|[E|E]]]; rewrite E in He; cbn in He; discriminate.
      + specialize (He (repeat x00 8)). unfold read_word in He. destruct fmt; cbn in He; discriminate. }
  assert (Hx : x = mkRrd (mkRd base bs) (mkst base bs o l)).
  { unfold x, mkst. do 3 f_equal. unfold o. lia. }
  assert (Htr : trace_ok R [EvRel (N.of_nat o) (rr_w r) v]).
  { constructor; [|constructor]. cbn [ev_ok]. split.
    - intros r' Hr' Hp'.
      destruct (sites_pairwise R r' r HR Hr' Hin) as [->|Hd]; auto.
      exfalso. pose proof (Hw1 r' Hr'). unfold site_disjoint, o in *. lia.
    - intros r' Hr' Hp'.
      destruct (sites_pairwise R r' r HR Hr' Hin) as [->|Hd].
      + exfalso. apply Hp'. unfold o. lia.
      + unfold site_disjoint, o in *. lia. }
  assert (Hlift : rd_lift f (mkst base bs o l) = Ok (v, mkst base bs (o + k) (l - k))).
  { apply (rd_lift_mkst R base f bs o l v k Hb Hkl). rewrite Hfk. now apply (read_un_slice be R). }
  assert (Hrel : snd (rr_rel dbg (rr_w r) f (fun pos v => Ok (relocate R pos v)) x) =
    Ok (rrel_value r v, mkRrd (mkRd base bs) (mkst base bs (o + k) (l - k)))).
  { rewrite Hx. unfold rr_rel. cbn [reader section]. rewrite (offset_from_mkst dbg R bs base o l Hb).
    rewrite Hlift. cbn [snd bind]. do 2 f_equal.
    apply relocate_unique; auto; try (unfold o; lia). }
  assert (Hgen := prim_reloc_lemma be dbg R bs base o l (rr_w r) f HR Hm Hb).
  cbn zeta in Hgen.
  assert (Hfst : fst (rr_rel dbg (rr_w r) f (fun pos v => Ok (relocate R pos v))
                  (mkRrd (mkRd base bs) (mkRd (base + N.of_nat o) (slice bs o l)))) = [EvRel (N.of_nat o) (rr_w r) v]).
  { change (mkRd (base + N.of_nat o) (slice bs o l)) with (mkst base bs o l).
    unfold rr_rel. cbn [reader section]. rewrite (offset_from_mkst dbg R bs base o l Hb).
    rewrite Hlift. reflexivity. }
  rewrite Hfst in Hgen. specialize (Hgen Htr).
  change (mkRd (base + N.of_nat o) (slice bs o l)) with (mkst base bs o l) in Hgen.
  rewrite <- Hx, Hrel in Hgen.
  split.
  - rewrite Hrel. unfold mkst. do 4 f_equal. unfold o, k. lia.
  - assert (HbP : (o + l <= length P)%nat) by (unfold P; now rewrite apply_rrels_length).
    assert (E2 : f (slice P o l) = Ok (dec_un be (slice P o k), skipn k (slice P o l)))
      by (rewrite Hfk; now apply (read_un_slice be R)).
    replace (mkRd (base + rr_pos r) (slice P o l)) with (mkst base P o l)
      by (unfold mkst; f_equal; unfold o; lia).
    fold P in Hgen.
    change (mkRd (base + N.of_nat o) (slice P o l)) with (mkst base P o l) in Hgen.
    rewrite (rd_lift_mkst R base f P o l _ k HbP Hkl E2) in *.
    unfold out_reloc, out_plain in Hgen. cbn [bind reader section off] in Hgen.
    injection Hgen as Hv _.
    f_equal. f_equal; [congruence|].
    unfold mkst. f_equal. unfold o, k. lia.
Qed.

(* ------------------------------------------------------------------ no panic, reader side *)

Section NoPanic.
  Variables (be dbg : bool) (rl : relocator) (sec : list byte) (base : N).
  Hypothesis Hrl1 : forall pos v, rl_addr rl pos v <> Panic.
  Hypothesis Hrl2 : forall pos v, rl_off rl pos v <> Panic.

  (* reachable states: the inner reader's window lies inside the section *)
  Definition rinv (x : rrd) : Prop :=
    exists o l, (o + l <= length sec)%nat /\ x = mkRrd (mkRd base sec) (mkst base sec o l).

  Definition np {A} (r : res (A * rrd)) : Prop :=
    match r with Ok (_, x') => rinv x' | Panic => False | _ => True end.

  Lemma np_tbind {V A} (t : tres (V * rrd)) (g : V * rrd -> tres (A * rrd)) :
    np (snd t) -> (forall v x', rinv x' -> np (snd (g (v, x')))) -> np (snd (tbind t g)).
  Proof.
    intros H1 H2. unfold tbind. destruct t as [tr [[v x']|e| |]]; cbn [fst snd np] in *; auto.
  Qed.

  Lemma np_plain {A} (f : list byte -> res (A * list byte)) x :
    prefix_det f -> (forall w, f w <> Panic) -> rinv x -> np (snd (rr_plain f x)).
  Proof.
    intros Hf Hnp (o & l & Hb & ->). unfold rr_plain. cbn [reader section].
    destruct (f (slice sec o l)) as [[v rest]|e| |] eqn:Ef.
    - destruct (Hf _ _ _ Ef) as (c & Hc & -> & _). rewrite slice_length in Hc by auto.
      rewrite (rd_lift_mkst [] base f sec o l v c Hb Hc Ef). cbn [snd np].
      exists (o + c)%nat, (l - c)%nat. split; auto. lia.
    - unfold rd_lift, mkst. cbn [win]. rewrite Ef. cbn. exact I.
    - exfalso. eapply Hnp; eauto.
    - unfold rd_lift, mkst. cbn [win]. rewrite Ef. cbn. exact I.
  Qed.

  Lemma np_rel w (f : list byte -> res (N * list byte)) hook x :
    sized_reader be w f -> (forall pos v, hook pos v <> Panic) -> rinv x ->
    np (snd (rr_rel dbg w f hook x)).
  Proof.
    intros Hs Hh (o & l & Hb & ->). unfold rr_rel. cbn [reader section].
    rewrite (offset_from_mkst dbg [] sec base o l Hb).
    destruct Hs as [(k & Hk & Hw & Hfk)|(e & He)].
    - destruct (Nat.le_gt_cases k l) as [Hkl|Hkl].
      + rewrite (rd_lift_mkst [] base f sec o l (dec_un be (slice sec o k)) k Hb Hkl)
          by (rewrite Hfk; now apply (read_un_slice be [])).
        cbn [snd]. specialize (Hh (N.of_nat o) (dec_un be (slice sec o k))).
        destruct (hook (N.of_nat o) (dec_un be (slice sec o k))); cbn [bind np]; auto.
        exists (o + k)%nat, (l - k)%nat. split; auto. lia.
      + unfold rd_lift, mkst. cbn [win]. rewrite Hfk, (read_un_slice_eof be []) by auto. cbn. exact I.
    - unfold rd_lift. rewrite He. cbn. exact I.
  Qed.

  Lemma read_un_no_panic n w : read_un n be w <> Panic.
  Proof. rewrite read_un_spec. destruct (n <=? length w)%nat; discriminate. Qed.

  Lemma read_word_no_panic f w : read_word f be w <> Panic.
  Proof. unfold read_word. destruct f; apply read_un_no_panic. Qed.

  Lemma reloc_rd_no_panic {A} (p : prog A) : forall x,
    rinv x -> np (snd (run_reloc_rd be dbg rl p x)).
  Proof.
    induction p as [a|e| |n k IH|k IH|k IH|n k IH|k IH|size k IH|f k IH|size k IH|f k IH|len sub IHs k IHk];
      intros x Hx; cbn [run_reloc_rd].
    - cbn. exact Hx.
    - cbn. exact I.
    - cbn. exact I.
    - apply np_tbind; [apply np_plain; auto|intros; apply IH; auto].
      + apply prefix_det_read_un.
      + apply read_un_no_panic.
    - apply np_tbind; [apply np_plain; auto|intros; apply IH; auto].
      + apply prefix_det_uleb.
      + intros w. apply read_uleb128_total.
    - apply np_tbind; [apply np_plain; auto|intros; apply IH; auto].
      + apply prefix_det_sleb.
      + intros w. apply read_sleb128_total.
    - destruct Hx as (o & l & Hb & ->). cbn [reader section].
      rewrite (rd_skip_mkst [] base sec o l n Hb).
      destruct (N.ltb_spec (N.of_nat l) n).
      + cbn. exact I.
      + unfold tbind, tret. cbn [fst snd bind]. apply IH.
        exists (o + N.to_nat n)%nat, (l - N.to_nat n)%nat. split; auto. lia.
    - apply IH; auto.
    - apply np_tbind; [apply np_rel; auto|intros; apply IH; auto]. apply sized_read_address.
    - apply np_tbind; [apply np_rel; auto|intros; apply IH; auto]. apply sized_read_word.
    - apply np_tbind; [apply np_rel; auto|intros; apply IH; auto]. apply sized_read_sized_offset.
    - apply np_tbind; [apply np_plain; auto|intros; apply IH; auto].
      + apply prefix_det_read_word.
      + apply read_word_no_panic.
    - destruct Hx as (o & l & Hb & ->). unfold rr_split. cbn [reader section].
      rewrite (rd_truncate_mkst [] base sec o l len Hb), (rd_skip_mkst [] base sec o l len Hb).
      destruct (N.ltb_spec (N.of_nat l) len).
      + cbn. exact I.
      + cbn [bind]. unfold tbind at 1. unfold tret. cbn [fst snd].
        apply np_tbind.
        * apply IHs. exists o, (N.to_nat len). split; auto. lia.
        * intros a x'' _. apply IHk.
          exists (o + N.to_nat len)%nat, (l - N.to_nat len)%nat. split; auto. lia.
  Qed.
End NoPanic.

Lemma reloc_rd_no_panic_lemma : forall (A : Type) (be dbg : bool) (rl : relocator) (p : prog A) (bs : list byte) (base : N),
  (forall pos v, rl_addr rl pos v <> Panic) -> (forall pos v, rl_off rl pos v <> Panic) ->
  snd (run_reloc_rd be dbg rl p (rrd_new (mkRd base bs))) <> Panic.
Proof.
  intros A be dbg rl p bs base H1 H2 Hp.
  assert (Hx : rinv bs base (rrd_new (mkRd base bs))).
  { exists 0%nat, (length bs). split; auto. unfold rrd_new. now rewrite mkst_whole. }
  pose proof (reloc_rd_no_panic be dbg rl bs base H1 H2 p _ Hx) as Hn.
  rewrite Hp in Hn. exact Hn.
Qed.

(* ------------------------------------------------------------------ no panic, writer side *)

Definition is_okb {A} (r : res A) : Prop := exists a, r = Ok a.

Lemma write_uleb_fuel_S f v :
  write_uleb_fuel (S f) v =
  if N.shiftr v 7 =? 0 then Ok [n2b (low7 (N.land v 255))]
  else let* rest := write_uleb_fuel f (N.shiftr v 7) in Ok (n2b (N.lor (low7 (N.land v 255)) CONT) :: rest).
Proof. reflexivity. Qed.

Lemma write_sleb_fuel_S f z :
  write_sleb_fuel (S f) z =
  if ((Z.shiftr z 6 =? 0) || (Z.shiftr z 6 =? -1))%Z then Ok [n2b (N.land (Z.to_N (z mod 256)%Z) 127)]
  else let* rest := write_sleb_fuel f (Z.shiftr (Z.shiftr z 6) 1) in
       Ok (n2b (N.lor (Z.to_N (z mod 256)%Z) CONT) :: rest).
Proof. reflexivity. Qed.

Lemma write_uleb_fuel_ok : forall f v, v < 2 ^ (7 * N.of_nat (S f)) -> is_okb (write_uleb_fuel (S f) v).
Proof.
  induction f as [|f IH]; intros v Hv; rewrite write_uleb_fuel_S.
  - rewrite N.shiftr_div_pow2. change (2 ^ 7) with 128. change (2 ^ (7 * N.of_nat 1)) with 128 in Hv.
    destruct (N.eqb_spec (v / 128) 0) as [E|E]; [eexists; reflexivity|]. exfalso. lia.
  - rewrite N.shiftr_div_pow2. change (2 ^ 7) with 128.
    destruct (N.eqb_spec (v / 128) 0) as [E|E]; [eexists; reflexivity|].
    assert (Hv' : v / 128 < 2 ^ (7 * N.of_nat (S f))).
    { replace (7 * N.of_nat (S (S f))) with (7 + 7 * N.of_nat (S f)) in Hv by lia.
      rewrite N.pow_add_r in Hv. change (2 ^ 7) with 128 in Hv.
      set (M := 2 ^ (7 * N.of_nat (S f))) in *.
      apply N.div_lt_upper_bound; lia. }
    destruct (IH _ Hv') as [a Ha]. rewrite Ha. eexists; reflexivity.
Qed.

Lemma write_uleb128_ok v : v < two64 -> is_okb (write_uleb128 v).
Proof.
  intros H. unfold write_uleb128. apply write_uleb_fuel_ok.
  eapply N.lt_le_trans; [exact H|]. unfold two64. cbn. lia.
Qed.

Lemma write_sleb_fuel_ok : forall f z,
  (- 2 ^ (7 * Z.of_nat f + 6) <= z < 2 ^ (7 * Z.of_nat f + 6))%Z -> is_okb (write_sleb_fuel (S f) z).
Proof.
  induction f as [|f IH]; intros z Hz; rewrite write_sleb_fuel_S.
  - rewrite Z.shiftr_div_pow2 by lia. change (2 ^ 6)%Z with 64%Z.
    change (2 ^ (7 * Z.of_nat 0 + 6))%Z with 64%Z in Hz.
    destruct (Z.eqb_spec (z / 64) 0) as [E|E]; [eexists; reflexivity|].
    destruct (Z.eqb_spec (z / 64) (-1)) as [E1|E1]; [eexists; reflexivity|].
    exfalso. lia.
  - rewrite !Z.shiftr_div_pow2 by lia. change (2 ^ 6)%Z with 64%Z. change (2 ^ 1)%Z with 2%Z.
    destruct (Z.eqb_spec (z / 64) 0) as [E|E]; [eexists; reflexivity|].
    destruct (Z.eqb_spec (z / 64) (-1)) as [E1|E1]; [eexists; reflexivity|].
    cbn [orb].
    assert (Hz' : (- 2 ^ (7 * Z.of_nat f + 6) <= z / 64 / 2 < 2 ^ (7 * Z.of_nat f + 6))%Z).
    { replace (7 * Z.of_nat (S f) + 6)%Z with (7 + (7 * Z.of_nat f + 6))%Z in Hz by lia.
      rewrite Z.pow_add_r in Hz by lia. change (2 ^ 7)%Z with 128%Z in Hz.
      assert (0 < 2 ^ (7 * Z.of_nat f + 6))%Z by (apply Z.pow_pos_nonneg; lia).
      set (M := (2 ^ (7 * Z.of_nat f + 6))%Z) in *. lia. }
    destruct (IH _ Hz') as [a Ha]. rewrite Ha. eexists; reflexivity.
Qed.

Lemma to_i64_range v : (- 2 ^ 63 <= to_i64 v < 2 ^ 63)%Z.
Proof.
  unfold to_i64, to_signed, wrapN. change (2 ^ 64) with 18446744073709551616.
  change (2 ^ (64 - 1)) with 9223372036854775808. change (2 ^ 63)%Z with 9223372036854775808%Z.
  destruct (N.ltb_spec (v mod 18446744073709551616) 9223372036854775808); lia.
Qed.

Lemma write_sleb128_i64_ok v : is_okb (write_sleb128 (to_i64 v)).
Proof.
  unfold write_sleb128. apply (write_sleb_fuel_ok 9).
  pose proof (to_i64_range v) as H. change (2 ^ (7 * Z.of_nat 9 + 6))%Z with (2 ^ 69)%Z.
  change (2 ^ 63)%Z with 9223372036854775808%Z in H. change (2 ^ 69)%Z with 590295810358705651712%Z. lia.
Qed.

Lemma write_udata_no_panic be v size : write_udata be v size <> Panic.
Proof.
  unfold write_udata.
  destruct (size =? 1); [destruct (v <? 256); discriminate|].
  destruct (size =? 2); [destruct (v <? two16); discriminate|].
  destruct (size =? 4); [destruct (v <? two32); discriminate|].
  destruct (size =? 8); discriminate.
Qed.

Lemma write_sdata_no_panic be z size : write_sdata be z size <> Panic.
Proof.
  unfold write_sdata.
  destruct (size =? 1); [destruct (in_signed 8 z); discriminate|].
  destruct (size =? 2); [destruct (in_signed 16 z); discriminate|].
  destruct (size =? 4); [destruct (in_signed 32 z); discriminate|].
  destruct (size =? 8); discriminate.
Qed.

Lemma eh_pointer_data_no_panic be v fmt size : v < two64 -> eh_pointer_data be v fmt size <> Panic.
Proof.
  intros Hv. unfold eh_pointer_data.
  destruct (fmt =? 0); [apply write_udata_no_panic|].
  destruct (fmt =? 1); [destruct (write_uleb128_ok v Hv) as [a ->]; discriminate|].
  destruct (fmt =? 2); [apply write_udata_no_panic|].
  destruct (fmt =? 3); [apply write_udata_no_panic|].
  destruct (fmt =? 4); [apply write_udata_no_panic|].
  destruct (fmt =? 9); [destruct (write_sleb128_i64_ok v) as [a ->]; discriminate|].
  destruct (fmt =? 10); [apply write_sdata_no_panic|].
  destruct (fmt =? 11); [apply write_sdata_no_panic|].
  destruct (fmt =? 12); [apply write_sdata_no_panic|].
  discriminate.
Qed.

(* well-typedness of a script: the u64 argument of a constant eh pointer is a u64 *)
Definition wop_u64 (op : wop) : Prop :=
  match op with WEhPtr (AConst v) _ _ => v < two64 | _ => True end.

Lemma bind_no_panic {A B} (r : res A) (f : A -> res B) :
  r <> Panic -> (forall a, f a <> Panic) -> bind r f <> Panic.
Proof. destruct r; cbn; auto; intros; discriminate. Qed.

Lemma ev_write_at_no_panic buf pos bs : ev_write_at buf pos bs <> Panic.
Proof. unfold ev_write_at. destruct (_ <? _); [discriminate|]. destruct (_ <? _); discriminate. Qed.

Lemma wsub64_lt a b : wsub64 a b < two64.
Proof. unfold wsub64. apply wrap64_lt. Qed.

Lemma eh_plain_no_panic be len a eh size :
  (match a with AConst v => v < two64 | _ => True end) -> eh_plain be len a eh size <> Panic.
Proof.
  intros H. unfold eh_plain. destruct a as [v|s ad]; [|discriminate].
  destruct (_ =? 0); [now apply eh_pointer_data_no_panic|].
  destruct (_ =? 16); [apply eh_pointer_data_no_panic; apply wsub64_lt|discriminate].
Qed.

Lemma step_plain_no_panic be op buf : wop_u64 op -> step_plain be op buf <> Panic.
Proof.
  intros Hw. destruct op as [bs|pos bs|v size|pos v size|a size|v sect size|pos v sect size|a eh size|sym size];
    cbn [step_plain]; try discriminate.
  - apply ev_write_at_no_panic.
  - unfold ev_udata. apply bind_no_panic; [apply write_udata_no_panic|discriminate].
  - unfold ev_udata_at. apply bind_no_panic; [apply write_udata_no_panic|intros; apply ev_write_at_no_panic].
  - destruct a; [|discriminate].
    unfold ev_udata. apply bind_no_panic; [apply write_udata_no_panic|discriminate].
  - unfold ev_udata. apply bind_no_panic; [apply write_udata_no_panic|discriminate].
  - unfold ev_udata_at. apply bind_no_panic; [apply write_udata_no_panic|intros; apply ev_write_at_no_panic].
  - apply bind_no_panic; [|discriminate]. apply eh_plain_no_panic. destruct a; auto.
Qed.

Lemma step_reloc_no_panic be op st : wop_u64 op -> step_reloc be op st <> Panic.
Proof.
  intros Hw. destruct st as [buf rs].
  destruct op as [bs|pos bs|v size|pos v size|a size|v sect size|pos v sect size|a eh size|sym size];
    cbn [step_reloc];
    try (apply bind_no_panic; [now apply step_plain_no_panic|discriminate]).
  - destruct a.
    + apply bind_no_panic; [now apply step_plain_no_panic|discriminate].
    + unfold ev_udata. apply bind_no_panic; [|discriminate].
      apply bind_no_panic; [apply write_udata_no_panic|discriminate].
  - unfold ev_udata. apply bind_no_panic; [|discriminate].
    apply bind_no_panic; [apply write_udata_no_panic|discriminate].
  - unfold ev_udata_at. apply bind_no_panic; [|discriminate].
    apply bind_no_panic; [apply write_udata_no_panic|intros; apply ev_write_at_no_panic].
  - destruct a.
    + apply bind_no_panic; [now apply step_plain_no_panic|discriminate].
    + apply bind_no_panic.
      * unfold eh_sym_size. repeat (destruct (_ || _) || destruct (_ =? _)); discriminate.
      * intros sz. unfold ev_udata. apply bind_no_panic; [|discriminate].
        apply bind_no_panic; [apply write_udata_no_panic|discriminate].
Qed.

Lemma run_plain_no_panic be : forall ws buf, Forall wop_u64 ws -> run_plain be ws buf <> Panic.
Proof.
  induction ws as [|op ws IH]; intros buf H; cbn [run_plain]; [discriminate|].
  inversion H; subst. apply bind_no_panic; [now apply step_plain_no_panic|auto].
Qed.

Lemma run_reloc_no_panic be : forall ws st, Forall wop_u64 ws -> run_reloc be ws st <> Panic.
Proof.
  induction ws as [|op ws IH]; intros st H; cbn [run_reloc]; [discriminate|].
  inversion H; subst. apply bind_no_panic; [now apply step_reloc_no_panic|auto].
Qed.

Lemma resolve_u64 env op : wop_u64 op -> wop_u64 (resolve env op).
Proof.
  destruct op as [bs|pos bs|v size|pos v size|a size|v sect size|pos v sect size|a eh size|sym size];
    cbn [resolve wop_u64]; auto.
  destruct a as [v|s ad]; cbn [resolve_addr]; auto. intros _. unfold wadd64s. apply wrap64_lt.
Qed.

Lemma writer_no_panic_lemma : forall (be : bool) (env : target -> N) (ws : list wop),
  Forall wop_u64 ws ->
  run_reloc be ws ([], []) <> Panic /\ run_plain be (map (resolve env) ws) [] <> Panic.
Proof.
  intros be env ws H. split.
  - now apply run_reloc_no_panic.
  - apply run_plain_no_panic. apply Forall_forall. intros op Hop.
    apply in_map_iff in Hop as (op0 & <- & Hin). apply resolve_u64.
    rewrite Forall_forall in H. auto.
Qed.

(* ------------------------------------------------------------------ writer and reader composed *)

Lemma apply_rrel_of env be r bs : apply_rrel be (rrel_of env r) bs = apply_reloc env be r bs.
Proof. reflexivity. Qed.

Lemma apply_rrels_of env be rs : forall bs,
  apply_rrels be (map (rrel_of env) rs) bs = apply_relocs env be rs bs.
Proof.
  unfold apply_rrels, apply_relocs. induction rs as [|r rs IH]; intros bs; cbn [map fold_left]; auto.
Qed.

Lemma write_read_transparent_lemma :
  forall (A : Type) (be dbg : bool) (env : target -> N) (ws : list wop) b rs bp (p : prog A) (base : N),
  no_clobber be ws ([], []) = true ->
  run_reloc be ws ([], []) = Ok (b, rs) ->
  run_plain be (map (resolve env) ws) [] = Ok bp ->
  let R := map (rrel_of env) rs in
  sites_disjointb R = true ->
  trace_ok R (fst (run_reloc_rd be dbg (map_relocator R) p (rrd_new (mkRd base b)))) ->
  out_reloc (snd (run_reloc_rd be dbg (map_relocator R) p (rrd_new (mkRd base b)))) =
  out_plain (mkRd base bp) (run_plain_rd be dbg p (mkRd base bp)).
Proof.
  intros A be dbg env ws b rs bp p base Hnc Hr Hp R HR Ht.
  destruct (reloc_write_transparent_lemma be env ws b rs bp Hnc Hr Hp) as [Happ _].
  rewrite <- Happ, <- (apply_rrels_of env be rs b). fold R.
  apply parser_reloc_lemma; auto.
Qed.

(* ------------------------------------------------------------------ instances for the two model parsers *)

Lemma parser_reloc_b_lemma : forall (A : Type) (be dbg : bool) (R : list rrel) (p : prog A) (bs : list byte) (base : N),
  sites_disjointb R = true ->
  trace_okb R (fst (run_reloc_rd be dbg (map_relocator R) p (rrd_new (mkRd base bs)))) = true ->
  out_reloc (snd (run_reloc_rd be dbg (map_relocator R) p (rrd_new (mkRd base bs)))) =
  out_plain (mkRd base (apply_rrels be R bs))
            (run_plain_rd be dbg p (mkRd base (apply_rrels be R bs))).
Proof. intros. apply parser_reloc_lemma; auto. now apply trace_okb_ok. Qed.

Lemma parser_reloc_unit_header_lemma : forall (be dbg types : bool) (R : list rrel) (bs : list byte) (base : N),
  sites_disjointb R = true ->
  trace_okb R (fst (run_reloc_rd be dbg (map_relocator R) (p_unit_header types) (rrd_new (mkRd base bs)))) = true ->
  out_reloc (snd (run_reloc_rd be dbg (map_relocator R) (p_unit_header types) (rrd_new (mkRd base bs)))) =
  out_plain (mkRd base (apply_rrels be R bs))
            (run_plain_rd be dbg (p_unit_header types) (mkRd base (apply_rrels be R bs))).
Proof. intros. now apply parser_reloc_b_lemma. Qed.

Lemma parser_reloc_raw_ranges_lemma : forall (be dbg : bool) (fuel : nat) (asz : N) (R : list rrel) (bs : list byte) (base : N),
  sites_disjointb R = true ->
  trace_okb R (fst (run_reloc_rd be dbg (map_relocator R) (p_raw_ranges fuel asz []) (rrd_new (mkRd base bs)))) = true ->
  out_reloc (snd (run_reloc_rd be dbg (map_relocator R) (p_raw_ranges fuel asz []) (rrd_new (mkRd base bs)))) =
  out_plain (mkRd base (apply_rrels be R bs))
            (run_plain_rd be dbg (p_raw_ranges fuel asz []) (mkRd base (apply_rrels be R bs))).
Proof. intros. now apply parser_reloc_b_lemma. Qed.

(* ------------------------------------------------------------------ a static side condition for the pair lists *)

Definition valid_asz (asz : N) : Prop := asz = 1 \/ asz = 2 \/ asz = 4 \/ asz = 8.

Lemma read_address_valid asz be w : valid_asz asz -> read_address asz be w = read_un (N.to_nat asz) be w.
Proof. intros [->|[->|[->| ->]]]; reflexivity. Qed.

Lemma rr_rel_addr_shape be dbg (R : list rrel) sec base o l asz hook :
  valid_asz asz -> (o + l <= length sec)%nat ->
  rr_rel dbg asz (read_address asz be) hook (mkRrd (mkRd base sec) (mkst base sec o l)) =
  if (N.to_nat asz <=? l)%nat then
    ([EvRel (N.of_nat o) asz (dec_un be (slice sec o (N.to_nat asz)))],
     let* v' := hook (N.of_nat o) (dec_un be (slice sec o (N.to_nat asz))) in
     Ok (v', mkRrd (mkRd base sec) (mkst base sec (o + N.to_nat asz) (l - N.to_nat asz))))
  else ([], Err EUnexpectedEof).
Proof.
  intros Hv Hb. unfold rr_rel. cbn [reader section]. rewrite (offset_from_mkst dbg R sec base o l Hb).
  destruct (Nat.leb_spec (N.to_nat asz) l) as [Hk|Hk].
  - rewrite (rd_lift_mkst R base (read_address asz be) sec o l (dec_un be (slice sec o (N.to_nat asz))) (N.to_nat asz) Hb Hk).
    + reflexivity.
    + rewrite read_address_valid by auto. now apply (read_un_slice be R).
  - unfold rd_lift, mkst. cbn [win]. rewrite read_address_valid by auto.
    rewrite (read_un_slice_eof be R) by auto. reflexivity.
Qed.

Definition aligned_ev (asz : N) (e : ev) : Prop :=
  match e with EvRel pos w _ => w = asz /\ pos mod asz = 0 | EvPlain _ _ => False end.

Lemma raw_ranges_trace be dbg (R : list rrel) sec base asz :
  valid_asz asz -> forall fuel acc o l,
  (o + l <= length sec)%nat -> N.of_nat o mod asz = 0 ->
  Forall (aligned_ev asz)
    (fst (run_reloc_rd be dbg (map_relocator R) (p_raw_ranges fuel asz acc)
            (mkRrd (mkRd base sec) (mkst base sec o l)))).
Proof.
  intros Hv. assert (Hz : asz <> 0) by (destruct Hv as [->|[->|[->| ->]]]; discriminate).
  induction fuel as [|fuel IH]; intros acc o l Hb Ho; cbn [p_raw_ranges run_reloc_rd].
  - cbn. constructor.
  - cbn [reader]. rewrite (rd_len_mkst base sec o l Hb).
    destruct (N.of_nat l =? 0); [cbn; constructor|].
    cbn [run_reloc_rd]. rewrite (rr_rel_addr_shape be dbg R sec base o l asz _ Hv Hb).
    destruct (Nat.leb_spec (N.to_nat asz) l) as [Hk|Hk]; [|cbn; constructor].
    unfold tbind at 1. cbn [map_relocator rl_addr bind fst snd].
    apply Forall_app. split.
    { constructor; [|constructor]. cbn. auto. }
    cbn [run_reloc_rd].
    assert (Hb2 : (o + N.to_nat asz + (l - N.to_nat asz) <= length sec)%nat) by lia.
    rewrite (rr_rel_addr_shape be dbg R sec base _ _ asz _ Hv Hb2).
    destruct (Nat.leb_spec (N.to_nat asz) (l - N.to_nat asz)) as [Hk2|Hk2]; [|cbn; constructor].
    unfold tbind at 1. cbn [map_relocator rl_addr bind fst snd].
    assert (Ho2 : N.of_nat (o + N.to_nat asz) mod asz = 0).
    { rewrite Nat2N.inj_add, N2Nat.id. rewrite <- N.add_mod_idemp_l, Ho by auto.
      cbn [N.add]. now apply N.mod_same. }
    assert (Ho3 : N.of_nat (o + N.to_nat asz + N.to_nat asz) mod asz = 0).
    { rewrite Nat2N.inj_add, N2Nat.id. rewrite <- N.add_mod_idemp_l, Ho2 by auto.
      cbn [N.add]. now apply N.mod_same. }
    apply Forall_app. split.
    { constructor; [|constructor]. cbn. auto. }
    set (b := relocate R (N.of_nat o) _). set (e := relocate R (N.of_nat (o + N.to_nat asz)) _).
    destruct ((b =? 0) && (e =? 0)); [cbn; constructor|].
    destruct (b =? mask_of asz); apply IH; auto; lia.
Qed.

Lemma aligned_trace_ok (R : list rrel) asz t :
  valid_asz asz ->
  (forall r, In r R -> rr_w r = asz /\ rr_pos r mod asz = 0 /\ rr_impl r = false /\ rr_add r < 2 ^ (8 * asz)) ->
  Forall (aligned_ev asz) t -> trace_ok R t.
Proof.
  intros Hv HR Ht. assert (Hz : asz <> 0) by (destruct Hv as [->|[->|[->| ->]]]; discriminate).
  unfold trace_ok. eapply Forall_impl; [|exact Ht].
  intros [pos n|pos w v]; cbn [aligned_ev ev_ok]; [contradiction|].
  intros [-> Hp]. split.
  - intros r Hr Hpos. destruct (HR r Hr) as (Hw & _ & Hi & Ha). split; auto.
    unfold rrel_value. now rewrite Hi.
  - intros r Hr Hpos. destruct (HR r Hr) as (Hw & Hm & _ & _).
    unfold site_disjoint. rewrite Hw.
    (* both positions are multiples of asz and differ: they are at least asz apart *)
    pose proof (N.div_mod (rr_pos r) asz Hz) as E1. pose proof (N.div_mod pos asz Hz) as E2.
    rewrite Hm in E1. rewrite Hp in E2.
    set (q1 := rr_pos r / asz) in *. set (q2 := pos / asz) in *.
    assert (q1 <> q2) by (intros E; apply Hpos; rewrite E1, E2, E; reflexivity).
    destruct (N.lt_ge_cases q1 q2); [left|right]; nia.
Qed.

Lemma parser_reloc_raw_ranges_static_lemma :
  forall (be dbg : bool) (fuel : nat) (asz : N) (R : list rrel) (bs : list byte) (base : N),
  valid_asz asz -> sites_disjointb R = true ->
  (forall r, In r R -> rr_w r = asz /\ rr_pos r mod asz = 0 /\ rr_impl r = false /\ rr_add r < 2 ^ (8 * asz)) ->
  out_reloc (snd (run_reloc_rd be dbg (map_relocator R) (p_raw_ranges fuel asz []) (rrd_new (mkRd base bs)))) =
  out_plain (mkRd base (apply_rrels be R bs))
            (run_plain_rd be dbg (p_raw_ranges fuel asz []) (mkRd base (apply_rrels be R bs))).
Proof.
  intros be dbg fuel asz R bs base Hv Hd HR.
  apply parser_reloc_lemma; auto.
  eapply aligned_trace_ok; eauto.
  replace (rrd_new (mkRd base bs)) with (mkRrd (mkRd base bs) (mkst base bs 0 (length bs)))
    by (unfold rrd_new; now rewrite mkst_whole).
  apply raw_ranges_trace; auto.
Qed.

(* ------------------------------------------------------------------ legacy data4/data8 section offsets *)

(* In DWARF 2 and 3 every attribute whose classes include loclistptr/lineptr/macptr/rangelistptr is read with
   the relocatable read_offset when given as DW_FORM_data4 (32-bit format) or DW_FORM_data8 (64-bit format);
   DW_FORM_sec_offset always is *)
Lemma attr_legacy_secoff_relocatable_lemma : forall (name ver : N),
  In name dwarf3_secoff_names -> ver = 2 \/ ver = 3 ->
  p_attr_word false ver name 6 = POffset false (fun v => PRet [1; v]) /\
  p_attr_word true ver name 7 = POffset true (fun v => PRet [1; v]).
Proof.
  intros name ver Hn Hv. unfold dwarf3_secoff_names in Hn. cbn [In] in Hn.
  destruct Hv as [-> | ->];
    repeat (destruct Hn as [<- | Hn]; [split; reflexivity|]); destruct Hn.
Qed.

Lemma attr_sec_offset_relocatable_lemma : forall (fmt64 : bool) (name ver : N),
  p_attr_word fmt64 ver name 23 = POffset fmt64 (fun v => PRet [1; v]).
Proof. reflexivity. Qed.

Lemma parser_reloc_attr_word_lemma :
  forall (be dbg fmt64 : bool) (ver name form field : N) (R : list rrel) (bs : list byte) (base : N),
  let p := PSkip field (p_attr_word fmt64 ver name form) in
  sites_disjointb R = true ->
  trace_okb R (fst (run_reloc_rd be dbg (map_relocator R) p (rrd_new (mkRd base bs)))) = true ->
  out_reloc (snd (run_reloc_rd be dbg (map_relocator R) p (rrd_new (mkRd base bs)))) =
  out_plain (mkRd base (apply_rrels be R bs))
            (run_plain_rd be dbg p (mkRd base (apply_rrels be R bs))).
Proof. intros. now apply parser_reloc_b_lemma. Qed.
