(* Proofs/RelocProofs.v — lemmas about Model/Reloc.v (C18). *)
From Coq Require Import List NArith ZArith Bool Lia ZifyBool ZifyN ZifyNat.
From Coq.Strings Require Import Byte.
Require Import GV.Base.Res GV.Base.Byt GV.Base.Ints GV.Model.Leb GV.Model.Prim GV.Model.Reloc.
Import ListNotations.
Local Open Scope N_scope.

Local Ltac Zify.zify_post_hook ::= Z.div_mod_to_equations.
Local Arguments N.add : simpl never.
Local Arguments N.sub : simpl never.
Local Arguments N.mul : simpl never.
Local Arguments N.pow : simpl never.
Local Arguments N.shiftl : simpl never.
Local Arguments N.shiftr : simpl never.
Local Arguments N.land : simpl never.
Local Arguments N.lor : simpl never.
Local Arguments N.modulo : simpl never.
Local Arguments N.div : simpl never.
Local Arguments N.of_nat : simpl never.
Local Arguments N.to_nat : simpl never.

(* ------------------------------------------------------------------ lists by index *)

Lemma list_ext {A} : forall (a b : list A), (forall i, nth_error a i = nth_error b i) -> a = b.
Proof.
  induction a as [|x a IH]; intros [|y b] H; auto.
  - specialize (H O); discriminate.
  - specialize (H O); discriminate.
  - f_equal.
    + specialize (H O); cbn in H; congruence.
    + apply IH; intros i; exact (H (S i)).
Qed.

Lemma nth_error_firstn {A} (l : list A) n i :
  nth_error (firstn n l) i = if (i <? n)%nat then nth_error l i else None.
Proof.
  revert n i; induction l as [|x l IH]; intros n i.
  - rewrite firstn_nil. destruct i; cbn [nth_error]; destruct (Nat.ltb _ n); reflexivity.
  - destruct n as [|n].
    + cbn. destruct i; reflexivity.
    + destruct i as [|i]; cbn [firstn nth_error].
      * reflexivity.
      * rewrite IH. change (S i <? S n)%nat with (i <? n)%nat. reflexivity.
Qed.

Lemma nth_error_skipn {A} (l : list A) n i : nth_error (skipn n l) i = nth_error l (n + i)%nat.
Proof.
  revert l; induction n as [|n IH]; intros l; cbn; auto.
  destruct l; cbn; auto. destruct i; auto.
Qed.

Lemma nth_error_ge {A} (l : list A) i : (length l <= i)%nat -> nth_error l i = None.
Proof. apply nth_error_None. Qed.

Lemma nth_error_app {A} (a b : list A) i :
  nth_error (a ++ b) i = if (i <? length a)%nat then nth_error a i else nth_error b (i - length a)%nat.
Proof.
  destruct (Nat.ltb_spec i (length a)).
  - now apply nth_error_app1.
  - now apply nth_error_app2.
Qed.

Lemma nth_error_patch (pos : nat) (new bs : list byte) i :
  (pos + length new <= length bs)%nat ->
  nth_error (patch pos new bs) i =
  if ((pos <=? i) && (i <? pos + length new))%nat then nth_error new (i - pos)%nat else nth_error bs i.
Proof.
  intros Hb. unfold patch.
  rewrite nth_error_app, firstn_length, Nat.min_l by lia.
  destruct (Nat.ltb_spec i pos) as [Hi|Hi].
  - rewrite nth_error_firstn.
    destruct (Nat.ltb_spec i pos); try lia.
    destruct (Nat.leb_spec pos i); try lia. reflexivity.
  - rewrite nth_error_app.
    destruct (Nat.leb_spec pos i); try lia. cbn [andb].
    destruct (Nat.ltb_spec (i - pos) (length new)), (Nat.ltb_spec i (pos + length new)); try lia; auto.
    rewrite nth_error_skipn. f_equal. lia.
Qed.

Lemma patch_length pos new bs :
  (pos + length new <= length bs)%nat -> length (patch pos new bs) = length bs.
Proof.
  intros H. unfold patch. rewrite !app_length, firstn_length, skipn_length. lia.
Qed.

Lemma patch_app_l pos new a b :
  (pos + length new <= length a)%nat -> patch pos new (a ++ b) = patch pos new a ++ b.
Proof.
  intros H. apply list_ext; intros i.
  rewrite nth_error_patch by (rewrite app_length; lia).
  rewrite !nth_error_app, patch_length by lia.
  rewrite nth_error_patch by lia.
  destruct (Nat.leb_spec pos i), (Nat.ltb_spec i (pos + length new)), (Nat.ltb_spec i (length a)); cbn [andb]; auto; lia.
Qed.

Lemma patch_end a new old :
  length old = length new -> patch (length a) new (a ++ old) = a ++ new.
Proof.
  intros H. unfold patch.
  rewrite firstn_app, Nat.sub_diag, firstn_all, firstn_O, app_nil_r.
  rewrite skipn_app, skipn_all2 by lia.
  replace (length a + length new - length a)%nat with (length old) by lia.
  now rewrite skipn_all, !app_nil_r.
Qed.

Lemma patch_patch_same pos n1 n2 bs :
  length n1 = length n2 -> (pos + length n1 <= length bs)%nat ->
  patch pos n2 (patch pos n1 bs) = patch pos n2 bs.
Proof.
  intros Hl Hb. apply list_ext; intros i.
  rewrite nth_error_patch by (rewrite patch_length; lia).
  rewrite (nth_error_patch pos n2 bs) by lia.
  destruct ((pos <=? i) && (i <? pos + length n2))%nat eqn:E; auto.
  rewrite nth_error_patch by lia.
  rewrite Hl, E. reflexivity.
Qed.

Lemma patch_comm p1 n1 p2 n2 bs :
  (p1 + length n1 <= length bs)%nat -> (p2 + length n2 <= length bs)%nat ->
  (p1 + length n1 <= p2 \/ p2 + length n2 <= p1)%nat ->
  patch p1 n1 (patch p2 n2 bs) = patch p2 n2 (patch p1 n1 bs).
Proof.
  intros H1 H2 Hd. apply list_ext; intros i.
  rewrite !nth_error_patch by (rewrite ?patch_length; lia).
  destruct (Nat.leb_spec p1 i), (Nat.ltb_spec i (p1 + length n1)),
           (Nat.leb_spec p2 i), (Nat.ltb_spec i (p2 + length n2)); cbn [andb]; auto; lia.
Qed.

(* ------------------------------------------------------------------ encodings *)

Lemma le_bytes_length n v : length (le_bytes n v) = n.
Proof. revert v; induction n; intros; cbn [le_bytes length]; auto. Qed.

Lemma enc_un_length n be v : length (enc_un n be v) = n.
Proof. unfold enc_un, be_bytes. destruct be; rewrite ?rev_length; apply le_bytes_length. Qed.

Lemma pow8_S n : 2 ^ (8 * N.of_nat (S n)) = 256 * 2 ^ (8 * N.of_nat n).
Proof.
  replace (8 * N.of_nat (S n)) with (8 + 8 * N.of_nat n) by lia.
  rewrite N.pow_add_r. reflexivity.
Qed.

Lemma le_bytes_congr : forall n a b,
  a mod 2 ^ (8 * N.of_nat n) = b mod 2 ^ (8 * N.of_nat n) -> le_bytes n a = le_bytes n b.
Proof.
  induction n as [|n IH]; intros a b H; cbn [le_bytes]; auto.
  rewrite pow8_S in H.
  assert (HM : 2 ^ (8 * N.of_nat n) <> 0) by (apply N.pow_nonzero; lia).
  rewrite !N.mod_mul_r in H by (auto; lia).
  pose proof (N.mod_lt a 256 ltac:(lia)) as Ha. pose proof (N.mod_lt b 256 ltac:(lia)) as Hb.
  set (M := 2 ^ (8 * N.of_nat n)) in *.
  set (x := (a / 256) mod M) in *. set (y := (b / 256) mod M) in *.
  set (ra := a mod 256) in *. set (rb := b mod 256) in *.
  assert (ra = rb /\ x = y) as [E1 E2] by lia.
  f_equal.
  - unfold n2b. fold ra. fold rb. now rewrite E1.
  - apply IH. exact E2.
Qed.

Lemma enc_un_congr n be a b :
  a mod 2 ^ (8 * N.of_nat n) = b mod 2 ^ (8 * N.of_nat n) -> enc_un n be a = enc_un n be b.
Proof.
  intros H. unfold enc_un, be_bytes. now rewrite (le_bytes_congr n a b H).
Qed.

Lemma write_udata_ok be v size e :
  write_udata be v size = Ok e ->
  e = enc_un (N.to_nat size) be v /\ (size = 1 \/ size = 2 \/ size = 4 \/ size = 8).
Proof.
  unfold write_udata. intros H.
  destruct (N.eqb_spec size 1) as [->|]; [destruct (v <? 256); inversion H; auto|].
  destruct (N.eqb_spec size 2) as [->|]; [destruct (v <? two16); inversion H; auto|].
  destruct (N.eqb_spec size 4) as [->|]; [destruct (v <? two32); inversion H; auto 6|].
  destruct (N.eqb_spec size 8) as [->|]; [inversion H; auto 6|].
  discriminate.
Qed.

Lemma write_udata_len be v size e : write_udata be v size = Ok e -> blen e = size.
Proof.
  intros H. apply write_udata_ok in H as [-> _]. unfold blen. rewrite enc_un_length. lia.
Qed.

Lemma of_to_i64_mod (v : N) (k : N) :
  (k = 16 \/ k = 32 \/ k = 64) -> of_signed k (to_i64 v) mod 2 ^ k = v mod 2 ^ k.
Proof.
  intros Hk. unfold of_signed, to_i64, to_signed, wrapN.
  change (2 ^ 64) with 18446744073709551616. change (2 ^ (64 - 1)) with 9223372036854775808.
  destruct Hk as [->|[->| ->]].
  - change (2 ^ 16) with 65536.
    destruct (v mod 18446744073709551616 <? 9223372036854775808); lia.
  - change (2 ^ 32) with 4294967296.
    destruct (v mod 18446744073709551616 <? 9223372036854775808); lia.
  - change (2 ^ 64) with 18446744073709551616.
    destruct (v mod 18446744073709551616 <? 9223372036854775808); lia.
Qed.

Lemma write_sdata_i64_ok be v size e :
  (size = 2 \/ size = 4 \/ size = 8) ->
  write_sdata be (to_i64 v) size = Ok e -> e = enc_un (N.to_nat size) be v.
Proof.
  intros Hs H. unfold write_sdata in H.
  destruct Hs as [->|[->| ->]]; cbn [N.eqb Pos.eqb] in H.
  - destruct (in_signed 16 (to_i64 v)); inversion H.
    apply enc_un_congr. change (8 * N.of_nat (N.to_nat 2)) with 16. apply of_to_i64_mod; auto.
  - destruct (in_signed 32 (to_i64 v)); inversion H.
    apply enc_un_congr. change (8 * N.of_nat (N.to_nat 4)) with 32. apply of_to_i64_mod; auto.
  - inversion H.
    apply enc_un_congr. change (8 * N.of_nat (N.to_nat 8)) with 64. apply of_to_i64_mod; auto.
Qed.

(* ------------------------------------------------------------------ applying recorded relocations *)

Definition site_in (b : list byte) (r : reloc) : Prop := r_off r + r_size r <= blen b.

Lemma apply_reloc_length env be r b : length (apply_reloc env be r b) = length b.
Proof.
  unfold apply_reloc. destruct (N.ltb_spec (blen b) (r_off r + r_size r)); auto.
  apply patch_length. rewrite enc_un_length. unfold blen in *. lia.
Qed.

Lemma apply_relocs_length env be rs : forall b, length (apply_relocs env be rs b) = length b.
Proof.
  unfold apply_relocs. induction rs as [|r rs IH]; intros b; cbn [fold_left]; auto.
  rewrite IH. apply apply_reloc_length.
Qed.

Lemma blen_apply_relocs env be rs b : blen (apply_relocs env be rs b) = blen b.
Proof. unfold blen. now rewrite apply_relocs_length. Qed.

Lemma apply_relocs_snoc env be rs r b :
  apply_relocs env be (rs ++ [r]) b = apply_reloc env be r (apply_relocs env be rs b).
Proof. unfold apply_relocs. now rewrite fold_left_app. Qed.

Lemma apply_reloc_app env be r b x :
  site_in b r -> apply_reloc env be r (b ++ x) = apply_reloc env be r b ++ x.
Proof.
  unfold site_in, apply_reloc, blen. intros H. rewrite app_length.
  destruct (N.ltb_spec (N.of_nat (length b + length x)) (r_off r + r_size r)); try lia.
  destruct (N.ltb_spec (N.of_nat (length b)) (r_off r + r_size r)); try lia.
  apply patch_app_l. rewrite enc_un_length. lia.
Qed.

Lemma site_in_len b b' r : length b = length b' -> site_in b r -> site_in b' r.
Proof. unfold site_in, blen. intros ->. auto. Qed.

Lemma apply_relocs_app env be rs : forall b x,
  Forall (site_in b) rs -> apply_relocs env be rs (b ++ x) = apply_relocs env be rs b ++ x.
Proof.
  unfold apply_relocs. induction rs as [|r rs IH]; intros b x H; cbn [fold_left]; auto.
  inversion H as [|? ? Hr Hrs]; subst.
  rewrite apply_reloc_app by exact Hr.
  apply IH. eapply Forall_impl; [|exact Hrs].
  intros r'. apply site_in_len. now rewrite apply_reloc_length.
Qed.

Definition site_away (pos n : N) (r : reloc) : Prop :=
  r_off r + r_size r <= pos \/ pos + n <= r_off r.

Lemma apply_reloc_patch env be r pos new b :
  pos + blen new <= blen b -> site_away pos (blen new) r ->
  apply_reloc env be r (patch (N.to_nat pos) new b) = patch (N.to_nat pos) new (apply_reloc env be r b).
Proof.
  unfold site_away, apply_reloc, blen. intros Hb Hd.
  rewrite patch_length by lia.
  destruct (N.ltb_spec (N.of_nat (length b)) (r_off r + r_size r)); auto.
  apply patch_comm; rewrite ?enc_un_length; lia.
Qed.

Lemma apply_relocs_patch env be rs pos new : forall b,
  pos + blen new <= blen b -> Forall (site_away pos (blen new)) rs ->
  apply_relocs env be rs (patch (N.to_nat pos) new b) = patch (N.to_nat pos) new (apply_relocs env be rs b).
Proof.
  unfold apply_relocs. induction rs as [|r rs IH]; intros b Hb H; cbn [fold_left]; auto.
  inversion H as [|? ? Hr Hrs]; subst.
  rewrite apply_reloc_patch by auto.
  apply IH; auto. unfold blen in *. now rewrite apply_reloc_length.
Qed.

(* a fresh relocation over a placeholder of the right width yields the encoded value *)
Lemma apply_reloc_end env be r a old :
  r_off r = blen a -> blen old = r_size r ->
  apply_reloc env be r (a ++ old) = a ++ enc_un (N.to_nat (r_size r)) be (reloc_value env r).
Proof.
  intros Ho Hl. unfold apply_reloc, blen in *. rewrite app_length.
  destruct (N.ltb_spec (N.of_nat (length a + length old)) (r_off r + r_size r)); try lia.
  rewrite Ho. rewrite Nat2N.id. apply patch_end. rewrite enc_un_length. lia.
Qed.

Lemma apply_reloc_over env be r old b :
  blen old = r_size r -> r_off r + r_size r <= blen b ->
  apply_reloc env be r (patch (N.to_nat (r_off r)) old b) =
  patch (N.to_nat (r_off r)) (enc_un (N.to_nat (r_size r)) be (reloc_value env r)) b.
Proof.
  intros Hl Hb. unfold apply_reloc, blen in *. rewrite patch_length by lia.
  destruct (N.ltb_spec (N.of_nat (length b)) (r_off r + r_size r)); try lia.
  apply patch_patch_same; rewrite ?enc_un_length; lia.
Qed.

(* ------------------------------------------------------------------ the writer invariant *)

Lemma of_to_i64 v : of_i64 (to_i64 v) = wrap64 v.
Proof.
  unfold of_i64, wrap64. pose proof (of_to_i64_mod v 64 ltac:(auto)) as H.
  change (2 ^ 64) with two64 in H. rewrite <- H.
  symmetry. apply N.mod_small. unfold of_signed. change (2 ^ 64) with 18446744073709551616.
  unfold two64. lia.
Qed.

Lemma wadd64s_to_i64 a v : wadd64s a (to_i64 v) = wrap64 (a + v).
Proof.
  unfold wadd64s. rewrite of_to_i64. unfold wrap64.
  rewrite N.add_mod_idemp_r by (unfold two64; lia). reflexivity.
Qed.

Definition winv (env : target -> N) (be : bool) (st : wstate) (bp : list byte) : Prop :=
  apply_relocs env be (snd st) (fst st) = bp /\ Forall (site_in (fst st)) (snd st).

Lemma winv_blen env be b rs bp : winv env be (b, rs) bp -> blen bp = blen b.
Proof. intros [<- _]. cbn [fst snd]. apply blen_apply_relocs. Qed.

Lemma site_in_app b e r : site_in b r -> site_in (b ++ e) r.
Proof. unfold site_in, blen. rewrite app_length. lia. Qed.

Lemma winv_app env be b rs bp e : winv env be (b, rs) bp -> winv env be (b ++ e, rs) (bp ++ e).
Proof.
  intros [H1 H2]; cbn [fst snd] in *. split; cbn [fst snd].
  - rewrite apply_relocs_app by exact H2. now rewrite H1.
  - eapply Forall_impl; [|exact H2]. intros r. apply site_in_app.
Qed.

Lemma winv_snoc_end env be b rs bp r old :
  winv env be (b, rs) bp -> r_off r = blen b -> blen old = r_size r ->
  winv env be (b ++ old, rs ++ [r]) (bp ++ enc_un (N.to_nat (r_size r)) be (reloc_value env r)).
Proof.
  intros Hi Ho Hl. pose proof (winv_blen _ _ _ _ _ Hi) as Hlen.
  destruct (winv_app env be b rs bp old Hi) as [H1 H2]; cbn [fst snd] in *.
  split; cbn [fst snd].
  - rewrite apply_relocs_snoc, H1. apply apply_reloc_end; congruence.
  - apply Forall_app; split; auto. constructor; auto.
    unfold site_in, blen in *. rewrite app_length. lia.
Qed.

Lemma winv_patch env be b rs bp pos new :
  winv env be (b, rs) bp -> pos + blen new <= blen b -> Forall (site_away pos (blen new)) rs ->
  winv env be (patch (N.to_nat pos) new b, rs) (patch (N.to_nat pos) new bp).
Proof.
  intros [H1 H2] Hb Hd; cbn [fst snd] in *. split; cbn [fst snd].
  - rewrite apply_relocs_patch by auto. now rewrite H1.
  - eapply Forall_impl; [|exact H2]. intros r. apply site_in_len.
    rewrite patch_length; auto. unfold blen in *. lia.
Qed.

Lemma winv_offset_at env be b rs bp r old :
  winv env be (b, rs) bp -> r_off r + r_size r <= blen b -> blen old = r_size r ->
  Forall (site_away (r_off r) (r_size r)) rs ->
  winv env be (patch (N.to_nat (r_off r)) old b, rs ++ [r])
       (patch (N.to_nat (r_off r)) (enc_un (N.to_nat (r_size r)) be (reloc_value env r)) bp).
Proof.
  intros Hi Hb Hl Hd. pose proof (winv_blen _ _ _ _ _ Hi) as Hlen.
  assert (Hp : winv env be (patch (N.to_nat (r_off r)) old b, rs) (patch (N.to_nat (r_off r)) old bp)).
  { apply winv_patch; auto; rewrite Hl; auto. }
  destruct Hp as [H1 H2]; cbn [fst snd] in *. split; cbn [fst snd].
  - rewrite apply_relocs_snoc, H1. apply apply_reloc_over; auto. lia.
  - apply Forall_app; split; auto. constructor; auto.
    unfold site_in, blen in *. rewrite patch_length; lia.
Qed.

Lemma ev_write_at_ok buf pos e x :
  ev_write_at buf pos e = Ok x -> x = patch (N.to_nat pos) e buf /\ pos + blen e <= blen buf.
Proof.
  unfold ev_write_at. intros H.
  destruct (N.ltb_spec (blen buf) pos); try discriminate.
  destruct (N.ltb_spec (blen buf - pos) (blen e)); try discriminate.
  inversion H. split; auto. lia.
Qed.

Lemma at_ok_away op rs pos n :
  at_range op = Some (pos, n) -> at_ok op rs = true -> Forall (site_away pos n) rs.
Proof.
  unfold at_ok. intros ->. rewrite forallb_forall. intros H. apply Forall_forall. intros r Hr.
  specialize (H r Hr). unfold ranges_disjoint in H. unfold site_away. lia.
Qed.

Lemma eh_sym_data be eh size sz v e :
  eh_sym_size eh size = Ok sz -> eh_pointer_data be v (eh_format eh) size = Ok e ->
  e = enc_un (N.to_nat sz) be v.
Proof.
  unfold eh_sym_size, eh_pointer_data. remember (eh_format eh) as f eqn:Ef. clear Ef.
  intros Hs Hd.
  destruct (N.eqb_spec f 0) as [E|N0]. { subst f. cbn [N.eqb Pos.eqb orb] in Hs, Hd. inversion Hs; subst. now apply write_udata_ok in Hd. }
  destruct (N.eqb_spec f 1) as [E|N1]. { subst f. cbn [N.eqb Pos.eqb orb] in Hs, Hd. discriminate. }
  destruct (N.eqb_spec f 2) as [E|N2]. { subst f. cbn [N.eqb Pos.eqb orb] in Hs, Hd. inversion Hs; subst. now apply write_udata_ok in Hd. }
  destruct (N.eqb_spec f 3) as [E|N3]. { subst f. cbn [N.eqb Pos.eqb orb] in Hs, Hd. inversion Hs; subst. now apply write_udata_ok in Hd. }
  destruct (N.eqb_spec f 4) as [E|N4]. { subst f. cbn [N.eqb Pos.eqb orb] in Hs, Hd. inversion Hs; subst. now apply write_udata_ok in Hd. }
  destruct (N.eqb_spec f 9) as [E|N9]. { subst f. cbn [N.eqb Pos.eqb orb] in Hs, Hd. discriminate. }
  destruct (N.eqb_spec f 10) as [E|N10]. { subst f. cbn [N.eqb Pos.eqb orb] in Hs, Hd. inversion Hs; subst. apply write_sdata_i64_ok in Hd; auto. }
  destruct (N.eqb_spec f 11) as [E|N11]. { subst f. cbn [N.eqb Pos.eqb orb] in Hs, Hd. inversion Hs; subst. apply write_sdata_i64_ok in Hd; auto. }
  destruct (N.eqb_spec f 12) as [E|N12]. { subst f. cbn [N.eqb Pos.eqb orb] in Hs, Hd. inversion Hs; subst. apply write_sdata_i64_ok in Hd; auto. }
  discriminate.
Qed.

Lemma bind_ok_inv {A B} (r : res A) (f : A -> res B) b :
  (let* x := r in f x) = Ok b -> exists a, r = Ok a /\ f a = Ok b.
Proof. apply bind_ok. Qed.

Lemma step_inv env be op b rs bp b1 rs1 bp1 :
  at_ok op rs = true ->
  winv env be (b, rs) bp ->
  step_reloc be op (b, rs) = Ok (b1, rs1) ->
  step_plain be (resolve env op) bp = Ok bp1 ->
  winv env be (b1, rs1) bp1.
Proof.
  intros Hat Hi Hr Hp. pose proof (winv_blen _ _ _ _ _ Hi) as Hlen.
  destruct op as [bs|pos bs|v size|pos v size|a size|v sect size|pos v sect size|a eh size|sym size];
    cbn [step_reloc step_plain resolve resolve_addr] in Hr, Hp.
  - (* WBytes *) inversion Hr; inversion Hp; subst. now apply winv_app.
  - (* WAt *)
    apply bind_ok_inv in Hr as (x & Hx & Hr). inversion Hr; subst.
    apply ev_write_at_ok in Hx as [-> Hb]. apply ev_write_at_ok in Hp as [-> _].
    apply winv_patch; auto. eapply at_ok_away; eauto. reflexivity.
  - (* WUdata *)
    apply bind_ok_inv in Hr as (x & Hx & Hr). inversion Hr; subst.
    unfold ev_udata in *. apply bind_ok_inv in Hx as (e & He & Hx). apply bind_ok_inv in Hp as (e' & He' & Hp).
    inversion Hx; inversion Hp; subst. rewrite He in He'. inversion He'; subst. now apply winv_app.
  - (* WUdataAt *)
    apply bind_ok_inv in Hr as (x & Hx & Hr). inversion Hr; subst.
    unfold ev_udata_at in *. apply bind_ok_inv in Hx as (e & He & Hx). apply bind_ok_inv in Hp as (e' & He' & Hp).
    rewrite He in He'. inversion He'; subst e'.
    apply ev_write_at_ok in Hx as [-> Hb]. apply ev_write_at_ok in Hp as [-> _].
    apply winv_patch; auto. eapply at_ok_away; eauto. cbn [at_range].
    now rewrite (write_udata_len _ _ _ _ He).
  - (* WAddr *)
    destruct a as [v|s addend]; cbn [resolve_addr] in Hp.
    + apply bind_ok_inv in Hr as (x & Hx & Hr). inversion Hr; subst. cbn [step_plain] in Hx.
      unfold ev_udata in *. apply bind_ok_inv in Hx as (e & He & Hx). apply bind_ok_inv in Hp as (e' & He' & Hp).
      inversion Hx; inversion Hp; subst. rewrite He in He'. inversion He'; subst. now apply winv_app.
    + apply bind_ok_inv in Hr as (x & Hx & Hr). inversion Hr; subst.
      unfold ev_udata in *. apply bind_ok_inv in Hx as (z & Hz & Hx). apply bind_ok_inv in Hp as (e & He & Hp).
      inversion Hx; inversion Hp; subst.
      pose proof (write_udata_len _ _ _ _ Hz) as Hzl.
      apply write_udata_ok in He as [-> _].
      set (r := mkReloc (blen b) size (TSym s) addend None).
      change (enc_un (N.to_nat size) be (wadd64s (env (TSym s)) addend))
        with (enc_un (N.to_nat (r_size r)) be (reloc_value env r)).
      apply winv_snoc_end; auto.
  - (* WOffset *)
    apply bind_ok_inv in Hr as (x & Hx & Hr). inversion Hr; subst.
    unfold ev_udata in *. apply bind_ok_inv in Hx as (z & Hz & Hx). apply bind_ok_inv in Hp as (e & He & Hp).
    inversion Hx; inversion Hp; subst.
    pose proof (write_udata_len _ _ _ _ Hz) as Hzl.
    apply write_udata_ok in He as [-> _].
    set (r := mkReloc (blen b) size (TSect sect) (to_i64 v) None).
    replace (wrap64 (env (TSect sect) + v)) with (reloc_value env r)
      by (unfold reloc_value, r; cbn [r_target r_addend r_ehpe]; apply wadd64s_to_i64).
    change size with (r_size r) at 1.
    apply winv_snoc_end; auto.
  - (* WOffsetAt *)
    apply bind_ok_inv in Hr as (x & Hx & Hr). inversion Hr; subst.
    unfold ev_udata_at in *. apply bind_ok_inv in Hx as (z & Hz & Hx). apply bind_ok_inv in Hp as (e & He & Hp).
    pose proof (write_udata_len _ _ _ _ Hz) as Hzl.
    apply write_udata_ok in He as [-> _].
    apply ev_write_at_ok in Hx as [-> Hb]. apply ev_write_at_ok in Hp as [-> _].
    set (r := mkReloc pos size (TSect sect) (to_i64 v) None).
    replace (wrap64 (env (TSect sect) + v)) with (reloc_value env r)
      by (unfold reloc_value, r; cbn [r_target r_addend r_ehpe]; apply wadd64s_to_i64).
    change size with (r_size r) at 1. change pos with (r_off r).
    apply winv_offset_at; auto.
    + unfold r; cbn [r_off r_size]. lia.
    + unfold r; cbn [r_off r_size]. eapply at_ok_away; eauto. reflexivity.
  - (* WEhPtr *)
    destruct a as [v|s addend]; cbn [resolve_addr] in Hp.
    + apply bind_ok_inv in Hr as (x & Hx & Hr). inversion Hr; subst. cbn [step_plain] in Hx.
      apply bind_ok_inv in Hx as (e & He & Hx). apply bind_ok_inv in Hp as (e' & He' & Hp).
      inversion Hx; inversion Hp; subst. rewrite Hlen, He in He'. inversion He'; subst. now apply winv_app.
    + apply bind_ok_inv in Hr as (sz & Hsz & Hr).
      apply bind_ok_inv in Hr as (x & Hx & Hr). inversion Hr; subst.
      unfold ev_udata in Hx. apply bind_ok_inv in Hx as (z & Hz & Hx). inversion Hx; subst.
      apply bind_ok_inv in Hp as (e & He & Hp). inversion Hp; subst.
      pose proof (write_udata_len _ _ _ _ Hz) as Hzl.
      set (r := mkReloc (blen b) sz (TSym s) addend (Some eh)).
      assert (Ee : e = enc_un (N.to_nat (r_size r)) be (reloc_value env r)).
      { unfold eh_plain in He. unfold reloc_value, r; cbn [r_target r_addend r_ehpe r_off r_size].
        destruct (N.eqb_spec (eh_application eh) 0) as [E0|E0].
        - rewrite E0. cbn [N.eqb]. eapply eh_sym_data; eauto.
        - destruct (N.eqb_spec (eh_application eh) 16) as [E16|E16]; try discriminate.
          rewrite Hlen in He. eapply eh_sym_data; eauto. }
      rewrite Ee. apply winv_snoc_end; auto.
  - (* WRef *) discriminate.
Qed.

Lemma run_inv env be : forall ws b rs bp b' rs' bp',
  no_clobber be ws (b, rs) = true ->
  winv env be (b, rs) bp ->
  run_reloc be ws (b, rs) = Ok (b', rs') ->
  run_plain be (map (resolve env) ws) bp = Ok bp' ->
  winv env be (b', rs') bp'.
Proof.
  induction ws as [|op ws IH]; intros b rs bp b' rs' bp' Hnc Hi Hr Hp.
  - cbn in Hr, Hp. inversion Hr; inversion Hp; subst. exact Hi.
  - cbn [run_reloc run_plain map no_clobber] in Hr, Hp, Hnc.
    apply bind_ok_inv in Hr as ([b1 rs1] & Hs & Hr).
    apply bind_ok_inv in Hp as (bp1 & Hsp & Hp).
    rewrite Hs in Hnc. apply andb_true_iff in Hnc as [Hat Hnc]. cbn [snd] in Hat.
    eapply IH; eauto. eapply step_inv; eauto.
Qed.

Lemma patch_blen pos new b : pos + blen new <= blen b -> blen (patch (N.to_nat pos) new b) = blen b.
Proof. unfold blen. intros H. rewrite patch_length; lia. Qed.

Lemma step_reloc_spec be op b rs b1 rs1 :
  step_reloc be op (b, rs) = Ok (b1, rs1) ->
  rs1 = rs ++ op_relocs (blen b) op /\ blen b1 = blen b + op_len be (blen b) op.
Proof.
  intros Hr.
  assert (Happ : forall e, blen (b ++ e) = blen b + blen e) by (intros; unfold blen; rewrite app_length; lia).
  destruct op as [bs|pos bs|v size|pos v size|a size|v sect size|pos v sect size|a eh size|sym size];
    cbn [step_reloc step_plain op_relocs op_len] in Hr |- *.
  - inversion Hr; subst. rewrite app_nil_r. auto.
  - apply bind_ok_inv in Hr as (x & Hx & Hr). inversion Hr; subst.
    apply ev_write_at_ok in Hx as [-> Hb]. rewrite app_nil_r, patch_blen by auto. split; auto; lia.
  - apply bind_ok_inv in Hr as (x & Hx & Hr). inversion Hr; subst.
    unfold ev_udata in Hx. apply bind_ok_inv in Hx as (e & He & Hx). inversion Hx; subst.
    rewrite app_nil_r, Happ, (write_udata_len _ _ _ _ He). auto.
  - apply bind_ok_inv in Hr as (x & Hx & Hr). inversion Hr; subst.
    unfold ev_udata_at in Hx. apply bind_ok_inv in Hx as (e & He & Hx).
    apply ev_write_at_ok in Hx as [-> Hb]. rewrite app_nil_r, patch_blen by auto. split; auto; lia.
  - destruct a as [v|s addend].
    + apply bind_ok_inv in Hr as (x & Hx & Hr). inversion Hr; subst. cbn [step_plain] in Hx.
      unfold ev_udata in Hx. apply bind_ok_inv in Hx as (e & He & Hx). inversion Hx; subst.
      rewrite app_nil_r, Happ, (write_udata_len _ _ _ _ He). auto.
    + apply bind_ok_inv in Hr as (x & Hx & Hr). inversion Hr; subst.
      unfold ev_udata in Hx. apply bind_ok_inv in Hx as (e & He & Hx). inversion Hx; subst.
      rewrite Happ, (write_udata_len _ _ _ _ He). auto.
  - apply bind_ok_inv in Hr as (x & Hx & Hr). inversion Hr; subst.
    unfold ev_udata in Hx. apply bind_ok_inv in Hx as (e & He & Hx). inversion Hx; subst.
    rewrite Happ, (write_udata_len _ _ _ _ He). auto.
  - apply bind_ok_inv in Hr as (x & Hx & Hr). inversion Hr; subst.
    unfold ev_udata_at in Hx. apply bind_ok_inv in Hx as (e & He & Hx).
    apply ev_write_at_ok in Hx as [-> Hb]. rewrite patch_blen by auto. split; auto; lia.
  - destruct a as [v|s addend].
    + apply bind_ok_inv in Hr as (x & Hx & Hr). inversion Hr; subst. cbn [step_plain] in Hx.
      apply bind_ok_inv in Hx as (e & He & Hx). inversion Hx; subst.
      rewrite He, app_nil_r, Happ. auto.
    + apply bind_ok_inv in Hr as (sz & Hsz & Hr).
      apply bind_ok_inv in Hr as (x & Hx & Hr). inversion Hr; subst.
      unfold ev_udata in Hx. apply bind_ok_inv in Hx as (e & He & Hx). inversion Hx; subst.
      rewrite Hsz, Happ, (write_udata_len _ _ _ _ He). auto.
  - discriminate.
Qed.

Lemma run_reloc_spec be : forall ws b rs b' rs',
  run_reloc be ws (b, rs) = Ok (b', rs') -> rs' = rs ++ spec_relocs be (blen b) ws.
Proof.
  induction ws as [|op ws IH]; intros b rs b' rs' Hr.
  - cbn in Hr. inversion Hr; subst. cbn. now rewrite app_nil_r.
  - cbn [run_reloc spec_relocs] in *.
    apply bind_ok_inv in Hr as ([b1 rs1] & Hs & Hr).
    apply step_reloc_spec in Hs as [-> Hl].
    apply IH in Hr. rewrite Hr, Hl, app_assoc. reflexivity.
Qed.

Lemma reloc_write_transparent_lemma : forall (be : bool) (env : target -> N) (ws : list wop) b rs bp,
  no_clobber be ws ([], []) = true ->
  run_reloc be ws ([], []) = Ok (b, rs) ->
  run_plain be (map (resolve env) ws) [] = Ok bp ->
  apply_relocs env be rs b = bp /\ rs = spec_relocs be 0 ws.
Proof.
  intros be env ws b rs bp Hnc Hr Hp. split.
  - assert (Hi : winv env be ([], []) []) by (split; cbn; auto).
    destruct (run_inv env be ws [] [] [] b rs bp Hnc Hi Hr Hp) as [H _]. exact H.
  - apply run_reloc_spec in Hr. exact Hr.
Qed.
