(* Proofs/FilterProofs.v — lemmas for C19 (Model/Filter.v against Spec/Graph.v). *)
From Coq Require Import List NArith ZArith Bool Lia Permutation.
Require Import GV.Base.Res GV.Spec.Graph GV.Model.Filter.
Import ListNotations.
Local Open Scope N_scope.

(* ========================================================================================== *)
(* A. association-list map                                                                     *)

Lemma em_get_remove_same : forall k m, em_get k (em_remove k m) = None.
Proof.
  intros k m. induction m as [|[k' v] m IH]; cbn; auto.
  destruct (k =? k') eqn:E; auto. cbn. rewrite E. exact IH.
Qed.

Lemma em_get_remove_other : forall k k' m, k <> k' -> em_get k (em_remove k' m) = em_get k m.
Proof.
  intros k k' m Hne. induction m as [|[k2 v] m IH]; cbn; auto.
  destruct (k' =? k2) eqn:E1.
  - apply N.eqb_eq in E1. subst k2.
    destruct (k =? k') eqn:E2; [apply N.eqb_eq in E2; contradiction|]. exact IH.
  - cbn. destruct (k =? k2); auto.
Qed.

Lemma em_remove_length_le : forall k m, (length (em_remove k m) <= length m)%nat.
Proof.
  intros k m. induction m as [|[k' v] m IH]; cbn; auto.
  destruct (k =? k'); cbn; lia.
Qed.

Lemma em_remove_length_lt : forall k m v, em_get k m = Some v ->
  (length (em_remove k m) < length m)%nat.
Proof.
  intros k m. induction m as [|[k' v'] m IH]; cbn; intros v H; [discriminate|].
  destruct (k =? k') eqn:E.
  - pose proof (em_remove_length_le k m). lia.
  - cbn. specialize (IH _ H). lia.
Qed.

Lemma em_get_insert_same : forall k v m, em_get k (em_insert k v m) = Some v.
Proof. intros. unfold em_insert. cbn. now rewrite N.eqb_refl. Qed.

Lemma em_get_insert_other : forall k k' v m, k <> k' -> em_get k (em_insert k' v m) = em_get k m.
Proof.
  intros k k' v m Hne. unfold em_insert. cbn.
  destruct (k =? k') eqn:E; [apply N.eqb_eq in E; contradiction|].
  now apply em_get_remove_other.
Qed.

Lemma em_push_some : forall k y m v, em_get k m = Some v -> exists m', em_push k y m = Some m'.
Proof.
  intros k y m. induction m as [|[k' v'] m IH]; cbn; intros v H; [discriminate|].
  destruct (k =? k'); [eauto|].
  destruct (IH _ H) as [m' Hm']. rewrite Hm'. eauto.
Qed.

Lemma em_push_get_same : forall k y m m' v, em_push k y m = Some m' -> em_get k m = Some v ->
  em_get k m' = Some (v ++ [y]).
Proof.
  intros k y m. induction m as [|[k' v'] m IH]; cbn; intros m' v Hp Hg; [discriminate|].
  destruct (k =? k') eqn:E.
  - inversion Hp; subst. inversion Hg; subst. cbn. now rewrite E.
  - destruct (em_push k y m) as [m''|] eqn:Ep; [|discriminate].
    inversion Hp; subst. cbn. rewrite E. eapply IH; eauto.
Qed.

Lemma em_push_get_other : forall k y m m' x, em_push k y m = Some m' -> x <> k ->
  em_get x m' = em_get x m.
Proof.
  intros k y m. induction m as [|[k' v'] m IH]; cbn; intros m' x Hp Hne; [discriminate|].
  destruct (k =? k') eqn:E.
  - apply N.eqb_eq in E. subst k'. inversion Hp; subst. cbn.
    destruct (x =? k) eqn:E2; [apply N.eqb_eq in E2; contradiction|]. reflexivity.
  - destruct (em_push k y m) as [m''|] eqn:Ep; [|discriminate].
    inversion Hp; subst. cbn. destruct (x =? k'); auto.
Qed.

(* ========================================================================================== *)
(* B. sorting                                                                                  *)

Lemma ins_sorted_perm : forall x l, Permutation (ins_sorted x l) (x :: l).
Proof.
  intros x l. induction l as [|y l IH]; cbn; auto.
  destruct (x <=? y); auto.
  eapply perm_trans; [apply perm_skip, IH|]. apply perm_swap.
Qed.

Lemma sort_n_perm : forall l, Permutation (sort_n l) l.
Proof.
  induction l as [|x l IH]; cbn; auto.
  eapply perm_trans; [apply ins_sorted_perm|]. now apply perm_skip.
Qed.

Lemma sort_n_in : forall l x, In x (sort_n l) <-> In x l.
Proof.
  intros l x. split; intro H.
  - eapply Permutation_in; [apply sort_n_perm|exact H].
  - eapply Permutation_in; [apply Permutation_sym, sort_n_perm|exact H].
Qed.

Lemma strict_sorted_tail : forall x l, strict_sorted (x :: l) -> strict_sorted l.
Proof. intros x l H. inversion H; subst; auto. constructor. Qed.

Lemma strict_sorted_lt : forall x l, strict_sorted (x :: l) -> forall y, In y l -> x < y.
Proof.
  intros x l. revert x. induction l as [|z l IH]; intros x H y Hy; [destruct Hy|].
  inversion H; subst. destruct Hy as [->|Hy]; auto.
  specialize (IH _ H4 _ Hy). lia.
Qed.

Lemma strict_sorted_cons : forall x l, strict_sorted l -> (forall y, In y l -> x < y) ->
  strict_sorted (x :: l).
Proof.
  intros x l Hs Hlt. destruct l as [|y l]; constructor; auto. apply Hlt. now left.
Qed.

Lemma ins_sorted_strict : forall x l, strict_sorted l -> ~ In x l -> strict_sorted (ins_sorted x l).
Proof.
  intros x l. induction l as [|y l IH]; cbn; intros Hs Hn; [constructor|].
  destruct (x <=? y) eqn:E.
  - apply N.leb_le in E. constructor; auto.
    assert (x <> y) by (intro; subst; apply Hn; now left). lia.
  - apply N.leb_gt in E.
    apply strict_sorted_cons.
    + apply IH; [eapply strict_sorted_tail; eauto|]. intro; apply Hn; now right.
    + intros z Hz. eapply Permutation_in in Hz; [|apply ins_sorted_perm].
      destruct Hz as [<-|Hz]; auto. eapply strict_sorted_lt; eauto.
Qed.

Lemma sort_n_strict : forall l, NoDup l -> strict_sorted (sort_n l).
Proof.
  induction l as [|x l IH]; cbn; intros Hnd; [constructor|].
  inversion Hnd; subst. apply ins_sorted_strict; auto.
  now rewrite sort_n_in.
Qed.

Lemma strict_sorted_NoDup : forall l, strict_sorted l -> NoDup l.
Proof.
  induction l as [|x l IH]; intros H; constructor.
  - intro Hin. pose proof (strict_sorted_lt _ _ H _ Hin). lia.
  - apply IH. eapply strict_sorted_tail; eauto.
Qed.

(* a strictly sorted list is determined by its elements *)
Lemma strict_sorted_unique : forall l1 l2, strict_sorted l1 -> strict_sorted l2 ->
  (forall x, In x l1 <-> In x l2) -> l1 = l2.
Proof.
  induction l1 as [|a l1 IH]; intros l2 H1 H2 Heq.
  - destruct l2 as [|b l2]; auto. exfalso. apply (proj2 (Heq b)). now left.
  - destruct l2 as [|b l2]; [exfalso; apply (proj1 (Heq a)); now left|].
    assert (a = b).
    { destruct (proj1 (Heq a) (or_introl eq_refl)) as [->|Ha]; auto.
      destruct (proj2 (Heq b) (or_introl eq_refl)) as [->|Hb]; auto.
      pose proof (strict_sorted_lt _ _ H1 _ Hb). pose proof (strict_sorted_lt _ _ H2 _ Ha). lia. }
    subst b. f_equal. apply IH; try (eapply strict_sorted_tail; eauto).
    intros x. split; intro Hx.
    + destruct (proj1 (Heq x) (or_intror Hx)) as [<-|]; auto.
      pose proof (strict_sorted_lt _ _ H1 _ Hx). lia.
    + destruct (proj2 (Heq x) (or_intror Hx)) as [<-|]; auto.
      pose proof (strict_sorted_lt _ _ H2 _ Hx). lia.
Qed.

(* ========================================================================================== *)
(* C. the worklist of get_reachable computes reachability                                      *)

Section Worklist.
  Variable m0 : emap.
  Variable req : list N.

  Let valid0 (x : N) : Prop := exists l, em_get x m0 = Some l.
  Let edge0 (x y : N) : Prop := exists l, em_get x m0 = Some l /\ In y l.
  Let req0 (x : N) : Prop := In x req.
  Let R := reach valid0 edge0 req0.

  Definition pending (pend : list (list N)) (y : N) : Prop := exists l, In l pend /\ In y l.

  Record winv (m : emap) (pend : list (list N)) (acc : list N) : Prop := {
    wi_get_in   : forall x, In x acc -> em_get x m = None;
    wi_get_out  : forall x, ~ In x acc -> em_get x m = em_get x m0;
    wi_nodup    : NoDup acc;
    wi_acc      : forall x, In x acc -> R x;
    wi_pend     : forall y, pending pend y -> valid0 y -> R y;
    wi_closed   : forall x y, In x acc -> edge0 x y -> valid0 y -> In y acc \/ pending pend y;
    wi_req      : forall x, In x req -> valid0 x -> In x acc \/ pending pend x
  }.

  Lemma pending_cons_nil : forall q y, pending ([] :: q) y -> pending q y.
  Proof. intros q y [l [[<-|Hl] Hy]]; [destruct Hy|]. exists l; auto. Qed.

  Lemma pending_weaken : forall q y l, pending q y -> pending (l :: q) y.
  Proof. intros q y l [l' [H1 H2]]. exists l'; split; auto. now right. Qed.

  Lemma winv_visit : forall es m q acc,
    winv m (es :: q) acc ->
    let '(m', q', acc') := gr_visit es m q acc in winv m' q' acc'.
  Proof.
    induction es as [|e es IH]; intros m q acc Hinv; cbn.
    - destruct Hinv. constructor; auto.
      + intros y Hp. apply wi_pend0. now apply pending_weaken.
      + intros x y Hx He Hv. destruct (wi_closed0 x y Hx He Hv) as [|Hp]; auto.
        right. now apply pending_cons_nil.
      + intros x Hx Hv. destruct (wi_req0 x Hx Hv) as [|Hp]; auto.
        right. now apply pending_cons_nil.
    - destruct (em_get e m) as [ds|] eqn:Eg.
      + (* first visit of e *)
        assert (Hnacc : ~ In e acc).
        { intro Hin. rewrite (wi_get_in _ _ _ Hinv _ Hin) in Eg. discriminate. }
        assert (Eg0 : em_get e m0 = Some ds).
        { rewrite <- (wi_get_out _ _ _ Hinv _ Hnacc). exact Eg. }
        assert (Hve : valid0 e) by (exists ds; exact Eg0).
        assert (HRe : R e).
        { apply (wi_pend _ _ _ Hinv); auto. exists (e :: es). split; [now left|now left]. }
        specialize (IH (em_remove e m) (ds :: q) (e :: acc)).
        apply IH. destruct Hinv. constructor.
        * intros x [<-|Hx]; [apply em_get_remove_same|].
          destruct (N.eq_dec x e) as [->|Hne]; [apply em_get_remove_same|].
          rewrite em_get_remove_other by auto. auto.
        * intros x Hx. assert (x <> e) by (intro; subst; apply Hx; now left).
          rewrite em_get_remove_other by auto. apply wi_get_out0. intro; apply Hx; now right.
        * constructor; auto.
        * intros x [<-|Hx]; auto.
        * intros y [l [Hl Hy]] Hv.
          destruct Hl as [<-|[<-|Hl]].
          -- apply wi_pend0; auto. exists (e :: es). split; [now left|now right].
          -- eapply reach_edge; [exact HRe| |exact Hv]. exists ds. split; auto.
          -- apply wi_pend0; auto. exists l. split; auto. now right.
        * intros x y [<-|Hx] He Hv.
          -- destruct He as [l [Hl Hy]]. rewrite Eg0 in Hl. inversion Hl; subst l.
             right. exists ds. split; auto. right; now left.
          -- destruct (wi_closed0 x y Hx He Hv) as [Hy|[l [Hl Hy]]]; [left; now right|].
             destruct Hl as [<-|Hl].
             ++ destruct Hy as [<-|Hy]; [left; now left|].
                right. exists es. split; auto. now left.
             ++ right. exists l. split; auto. right; now right.
        * intros x Hx Hv.
          destruct (wi_req0 x Hx Hv) as [Hy|[l [Hl Hy]]]; [left; now right|].
          destruct Hl as [<-|Hl].
          -- destruct Hy as [<-|Hy]; [left; now left|].
             right. exists es. split; auto. now left.
          -- right. exists l. split; auto. right; now right.
      + (* e is not a node, or was visited before *)
        apply IH. destruct Hinv. constructor; auto.
        * intros y [l [Hl Hy]] Hv. apply wi_pend0; auto.
          destruct Hl as [<-|Hl]; [exists (e :: es); split; [now left|now right]|].
          exists l; split; auto. now right.
        * intros x y Hx He Hv.
          destruct (wi_closed0 x y Hx He Hv) as [Hy|[l [Hl Hy]]]; auto.
          destruct Hl as [<-|Hl]; [|right; exists l; split; auto; now right].
          destruct Hy as [<-|Hy]; [|right; exists es; split; auto; now left].
          left. destruct (in_dec N.eq_dec e acc) as [|Hn]; auto.
          exfalso. destruct Hv as [l Hl]. rewrite <- (wi_get_out0 _ Hn), Eg in Hl. discriminate.
        * intros x Hx Hv.
          destruct (wi_req0 x Hx Hv) as [Hy|[l [Hl Hy]]]; auto.
          destruct Hl as [<-|Hl]; [|right; exists l; split; auto; now right].
          destruct Hy as [<-|Hy]; [|right; exists es; split; auto; now left].
          left. destruct (in_dec N.eq_dec e acc) as [|Hn]; auto.
          exfalso. destruct Hv as [l Hl]. rewrite <- (wi_get_out0 _ Hn), Eg in Hl. discriminate.
  Qed.

  Lemma winv_loop : forall fuel m q acc l,
    winv m q acc -> gr_loop fuel m q acc = Ok l -> exists m', winv m' [] l.
  Proof.
    induction fuel as [|f IH]; intros m q acc l Hinv Hl; cbn in Hl; [discriminate|].
    destruct q as [|es q].
    - inversion Hl; subst. eauto.
    - pose proof (winv_visit es m q acc Hinv) as Hv.
      destruct (gr_visit es m q acc) as [[m' q'] acc']. eapply IH; eauto.
  Qed.

  Lemma winv_final : forall m l, winv m [] l -> forall x, In x l <-> R x.
  Proof.
    intros m l Hinv x. split; [apply (wi_acc _ _ _ Hinv)|].
    intros HR. induction HR as [x Hr Hv|x y Hx IH He Hv].
    - destruct (wi_req _ _ _ Hinv x Hr Hv) as [|[l' [[] _]]]; auto.
    - destruct (wi_closed _ _ _ Hinv x y IH He Hv) as [|[l' [[] _]]]; auto.
  Qed.

  Lemma winv_init : winv m0 [req] [].
  Proof.
    constructor.
    - intros x [].
    - reflexivity.
    - constructor.
    - intros x [].
    - intros y [l [[<-|[]] Hy]] Hv. now apply reach_req.
    - intros x y [].
    - intros x Hx Hv. right. exists req. split; auto. now left.
  Qed.

  (* termination: every vector is popped once, every node pushes at most one vector *)
  Lemma visit_measure : forall es m q acc,
    let '(m', q', _) := gr_visit es m q acc in
    (length q' + length m' <= length q + length m)%nat.
  Proof.
    induction es as [|e es IH]; intros m q acc; cbn; [lia|].
    destruct (em_get e m) as [ds|] eqn:Eg.
    - specialize (IH (em_remove e m) (ds :: q) (e :: acc)).
      destruct (gr_visit es (em_remove e m) (ds :: q) (e :: acc)) as [[m' q'] acc'].
      pose proof (em_remove_length_lt _ _ _ Eg). cbn in IH. lia.
    - apply IH.
  Qed.

  Lemma loop_fuel : forall fuel m q acc, (length q + length m < fuel)%nat ->
    gr_loop fuel m q acc <> OutOfFuel.
  Proof.
    induction fuel as [|f IH]; intros m q acc Hlt; [lia|]. cbn.
    destruct q as [|es q]; [discriminate|].
    pose proof (visit_measure es m q acc) as Hm.
    destruct (gr_visit es m q acc) as [[m' q'] acc']. apply IH. cbn in Hlt. lia.
  Qed.

  Lemma loop_no_err : forall fuel m q acc, match gr_loop fuel m q acc with Ok _ | OutOfFuel => True | _ => False end.
  Proof.
    induction fuel as [|f IH]; intros m q acc; cbn; auto.
    destruct q as [|es q]; auto.
    destruct (gr_visit es m q acc) as [[m' q'] acc']. apply IH.
  Qed.
End Worklist.

Lemma get_reachable_correct : forall d,
  exists l, get_reachable d = Ok l /\ strict_sorted l /\
            forall x, In x l <-> reach (dep_valid d) (dep_edge d) (dep_required d) x.
Proof.
  intros d. unfold get_reachable.
  pose proof (loop_fuel (gr_fuel d) (d_edges d) [d_required d] []) as Hf.
  pose proof (loop_no_err (gr_fuel d) (d_edges d) [d_required d] []) as Hn.
  destruct (gr_loop (gr_fuel d) (d_edges d) [d_required d] []) as [acc| | |] eqn:El;
    try contradiction.
  - destruct (winv_loop (d_edges d) (d_required d) _ _ _ _ _ (winv_init _ _) El) as [m' Hinv].
    exists (sort_n (rev acc)). cbn. split; auto. split.
    + apply sort_n_strict. apply NoDup_rev. apply (wi_nodup _ _ _ _ _ Hinv).
    + intros x. rewrite sort_n_in, <- in_rev.
      apply (winv_final _ _ _ _ Hinv).
  - exfalso. apply Hf; auto. unfold gr_fuel. cbn. lia.
Qed.

(* explicit statement about the fuel: #nodes + 2 iterations suffice, a fortiori #nodes + #edges + 2 *)
Lemma get_reachable_fuel : forall d fuel, (length (d_edges d) + 2 <= fuel)%nat ->
  gr_loop fuel (d_edges d) [d_required d] [] <> OutOfFuel.
Proof. intros d fuel H. apply loop_fuel. cbn. lia. Qed.

Lemma get_reachable_canonical : forall (d : deps) (l l' : list N),
  get_reachable d = Ok l -> strict_sorted l' ->
  (forall x, In x l' <-> reach (dep_valid d) (dep_edge d) (dep_required d) x) -> l' = l.
Proof.
  intros d l l' Hl Hs' Hin'. destruct (get_reachable_correct d) as [l0 [H0 [Hs0 Hin0]]].
  rewrite Hl in H0. inversion H0; subst l0.
  apply strict_sorted_unique; auto. intros x. now rewrite Hin', Hin0.
Qed.
