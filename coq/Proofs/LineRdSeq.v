(* Proofs/LineRdSeq.v — sequences()/resume_from(): the instruction decoder is local (its result depends
   only on the bytes it consumes), so replaying the slice cut by remove_trailing from a fresh row yields
   exactly the rows of the straight run; bounds are the first and the end address. *)
From Coq Require Import List NArith ZArith Bool Lia ZifyBool ZifyN ZifyNat.
From Coq.Strings Require Import Byte.
Require Import GV.Base.Res GV.Base.Byt GV.Base.Ints GV.Model.Leb GV.Model.Prim GV.Spec.LineSpec GV.Model.LineRd
               GV.Proofs.LineRdBase GV.Proofs.LineRdMono.
Import ListNotations.
Local Open Scope N_scope.
Local Arguments N.add : simpl never.
Local Arguments N.sub : simpl never.
Local Arguments N.mul : simpl never.
Local Arguments N.shiftl : simpl never.
Local Arguments N.land : simpl never.
Local Arguments N.lor : simpl never.
Local Arguments N.pow : simpl never.
Local Arguments N.ltb : simpl never.
Local Arguments N.leb : simpl never.
Local Arguments N.eqb : simpl never.

(* ---------------------------------------------------------------- locality of the primitive readers *)
(* `local p`: if p succeeds on a ++ suf and leaves at least suf, it succeeds identically on a alone *)
Definition local {A} (p : list byte -> res (A * list byte)) : Prop :=
  forall a suf v r, p (a ++ suf) = Ok (v, r) -> (length suf <= length r)%nat ->
  exists x, r = x ++ suf /\ p a = Ok (v, x).

Lemma local_bind {A B} (p : list byte -> res (A * list byte)) (q : A -> list byte -> res (B * list byte)) :
  local p -> (forall v, local (q v)) ->
  (forall inp v r, p inp = Ok (v, r) -> (length r <= length inp)%nat) ->
  (forall v inp w r, q v inp = Ok (w, r) -> (length r <= length inp)%nat) ->
  local (fun inp => let* (v, r) := p inp in q v r).
Proof.
  intros Lp Lq Sp Sq a suf w r H Hl. cbn beta in *.
  destruct (p (a ++ suf)) as [[v r1]| | |] eqn:E; cbn [bind] in H; try discriminate.
  assert (length suf <= length r1)%nat by (apply Sq in H; lia).
  destruct (Lp _ _ _ _ E H0) as [x1 [-> E1]]. rewrite E1. cbn [bind].
  exact (Lq v _ _ _ _ H Hl).
Qed.

Lemma read_u8_local : local read_u8.
Proof.
  intros a suf v r H Hl. destruct a as [|b a].
  - cbn [app] in H. apply read_u8_ok in H as [b [-> _]]. simpl in Hl. lia.
  - cbn in H. inversion H; subst. exists a. split; reflexivity.
Qed.

Lemma uleb_loop_local dbg : forall a result shift suf v r,
  uleb_loop dbg result shift (a ++ suf) = Ok (v, r) -> (length suf <= length r)%nat ->
  on_grid shift -> exists x, r = x ++ suf /\ uleb_loop dbg result shift a = Ok (v, x).
Proof.
  induction a as [|b a IH]; intros result shift suf v r H Hl G.
  - cbn [app] in H. apply (uleb_loop_props dbg suf result shift G) in H as [_ H]. lia.
  - cbn [app uleb_loop] in H |- *. destruct G as [k [-> Hk]].
    destruct ((7 * k =? 63) && negb (b2n b =? 0) && negb (b2n b =? 1)) eqn:E1; [discriminate|].
    destruct (shl64 dbg (low7 (b2n b)) (7 * k)) as [sh| | |] eqn:Es; cbn [bind] in H |- *; try discriminate.
    destruct (has_cont (b2n b)) eqn:Ec.
    + apply IH; auto.
      assert (k <> 9).
      { intros ->. rewrite has_cont_01 in Ec; [discriminate|].
        change (7 * 9 =? 63) with true in E1. cbn [andb] in E1.
        destruct (b2n b =? 0), (b2n b =? 1); cbn in *; try reflexivity; discriminate. }
      exists (k + 1). lia.
    + inversion H; subst. exists a. split; reflexivity.
Qed.

Lemma read_uleb128_local dbg : local (read_uleb128 dbg).
Proof.
  intros a suf v r H Hl. destruct a as [|b a].
  - cbn [app] in H. apply read_uleb128_sfx in H as [_ H]. lia.
  - cbn [app read_uleb128] in H |- *. destruct (has_cont (b2n b)).
    + eapply uleb_loop_local; eauto. apply grid7.
    + inversion H; subst. exists a. split; reflexivity.
Qed.

Lemma sleb_loop_local dbg : forall a result shift suf v r,
  sleb_loop dbg result shift (a ++ suf) = Ok (v, r) -> (length suf <= length r)%nat ->
  on_grid shift -> exists x, r = x ++ suf /\ sleb_loop dbg result shift a = Ok (v, x).
Proof.
  induction a as [|b a IH]; intros result shift suf v r H Hl G.
  - cbn [app] in H. apply (sleb_loop_props dbg suf result shift G) in H as [_ H]. lia.
  - cbn [app sleb_loop] in H |- *. destruct G as [k [-> Hk]].
    destruct ((7 * k =? 63) && negb (b2n b =? 0) && negb (b2n b =? 127)) eqn:E1; [discriminate|].
    destruct (shl64 dbg (low7 (b2n b)) (7 * k)) as [sh| | |] eqn:Es; cbn [bind] in H |- *; try discriminate.
    destruct (has_cont (b2n b)) eqn:Ec.
    + apply IH; auto.
      assert (k <> 9).
      { intros ->. rewrite has_cont_0_127 in Ec; [discriminate|].
        change (7 * 9 =? 63) with true in E1. cbn [andb] in E1.
        destruct (b2n b =? 0), (b2n b =? 127); cbn in *; try reflexivity; discriminate. }
      exists (k + 1). lia.
    + destruct ((7 * k + 7 <? 64) && (N.land (b2n b) 64 =? 64)).
      * destruct (shl64 dbg (two64 - 1) (7 * k + 7)) as [on| | |]; cbn [bind] in H |- *; try discriminate.
        inversion H; subst. exists a. split; reflexivity.
      * inversion H; subst. exists a. split; reflexivity.
Qed.

Lemma read_sleb128_local dbg : local (read_sleb128 dbg).
Proof. intros a suf v r H Hl. eapply sleb_loop_local; eauto. apply grid0. Qed.

Lemma read_cstr_local : local read_cstr.
Proof.
  intros a. induction a as [|b a IH]; intros suf v r H Hl.
  - cbn [app] in H. apply read_cstr_sfx in H as [_ H]. lia.
  - cbn [app read_cstr] in H |- *. destruct (b2n b =? 0).
    + inversion H; subst. exists a. split; reflexivity.
    + destruct (read_cstr (a ++ suf)) as [[s t]| | |] eqn:E; cbn [bind] in H; try discriminate.
      inversion H; subst. destruct (IH _ _ _ E Hl) as [x [-> E2]]. rewrite E2. cbn. exists x. split; reflexivity.
Qed.

Lemma take_local : forall n a suf h t, take n (a ++ suf) = Some (h, t) -> (length suf <= length t)%nat ->
  exists x, t = x ++ suf /\ take n a = Some (h, x).
Proof.
  induction n as [|n IH]; intros a suf h t H Hl.
  - cbn in H. inversion H; subst. exists a. split; reflexivity.
  - destruct a as [|b a].
    + cbn [app] in H. apply take_app in H as [E L]. subst suf. rewrite app_length in Hl. lia.
    + cbn [app take] in H |- *. destruct (take n (a ++ suf)) as [[h' t']|] eqn:E; [|discriminate].
      inversion H; subst. destruct (IH _ _ _ _ E Hl) as [x [-> E2]]. rewrite E2. exists x. split; reflexivity.
Qed.

Lemma read_un_local n be : local (read_un n be).
Proof.
  intros a suf v r H Hl. unfold read_un, read_bytes in *.
  destruct (take n (a ++ suf)) as [[h t]|] eqn:E; cbn [bind] in H; [|discriminate].
  inversion H; subst. destruct (take_local _ _ _ _ _ E Hl) as [x [-> E2]]. rewrite E2. cbn.
  exists x. split; reflexivity.
Qed.

Lemma split_n_local n : local (split_n n).
Proof.
  intros a suf v r H Hl. unfold split_n in *.
  destruct (N.of_nat (length (a ++ suf)) <? n) eqn:E; [discriminate|]. inversion H; subst; clear H.
  rewrite app_length in E. rewrite skipn_length, app_length in Hl.
  assert (Ln : (N.to_nat n <= length a)%nat) by lia.
  destruct (N.of_nat (length a) <? n) eqn:E2; [lia|].
  exists (skipn (N.to_nat n) a). split.
  - rewrite skipn_app. replace (N.to_nat n - length a)%nat with 0%nat by lia. reflexivity.
  - rewrite firstn_app. replace (N.to_nat n - length a)%nat with 0%nat by lia. cbn [firstn]. now rewrite app_nil_r.
Qed.

Lemma skip_ulebs_local dbg : forall k a suf r,
  skip_ulebs dbg k (a ++ suf) = Ok r -> (length suf <= length r)%nat ->
  exists x, r = x ++ suf /\ skip_ulebs dbg k a = Ok x.
Proof.
  induction k as [|k IH]; intros a suf r H Hl; cbn [skip_ulebs] in *.
  - inversion H; subst. exists a. split; reflexivity.
  - destruct (read_uleb128 dbg (a ++ suf)) as [[v r1]| | |] eqn:E; cbn [bind] in H; try discriminate.
    pose proof (skip_ulebs_good dbg k r1) as G. rewrite H in G. cbn in G. apply sfx_len in G.
    destruct (read_uleb128_local dbg _ _ _ _ E ltac:(lia)) as [x1 [-> E1]]. rewrite E1. cbn [bind].
    apply IH; assumption.
Qed.

(* LineInstruction::parse is local *)
Lemma parse_insn_local dbg be h : local (parse_insn dbg be h).
Proof.
  intros a suf i r H Hl.
  destruct a as [|b a].
  { cbn [app] in H. pose proof (parse_insn_good dbg be h suf) as G. rewrite H in G.
    destruct G as (_ & G & _). cbn [snd] in G. lia. }
  cbn [app] in H. unfold parse_insn in H |- *.
  destruct (b2n b =? 0) eqn:E0.
  { (* extended *)
    destruct (read_uleb128 dbg (a ++ suf)) as [[len r1]| | |] eqn:E1; cbn [bind] in H; try discriminate.
    destruct (split_n len r1) as [[instr_rest r2]| | |] eqn:E2; cbn [bind] in H; try discriminate.
    assert (R : r = r2).
    { destruct (read_u8 instr_rest) as [[op ir]| | |]; cbn [bind] in H; try discriminate.
      repeat match type of H with
      | context[if ?c then _ else _] => destruct c
      | context[bind ?x _] => destruct x as [[? ?]| | |]; cbn [bind] in H; try discriminate
      end; inversion H; reflexivity. }
    subst r2.
    assert (L1 : (length suf <= length r1)%nat).
    { pose proof (split_n_sfx len r1) as G. rewrite E2 in G. cbn in G. apply sfx_len in G. lia. }
    destruct (read_uleb128_local dbg _ _ _ _ E1 L1) as [x1 [-> F1]]. rewrite F1. cbn [bind].
    destruct (split_n_local len _ _ _ _ E2 Hl) as [x2 [-> F2]]. rewrite F2. cbn [bind].
    destruct (read_u8 instr_rest) as [[op ir]| | |]; cbn [bind] in H |- *; try discriminate.
    repeat match type of H with
      | context[if ?c then _ else _] => destruct c
      | context[bind ?x _] => destruct x as [[? ?]| | |]; cbn [bind] in H |- *; try discriminate
      end; inversion H; subst; eexists; split; reflexivity. }
  destruct (h_opcode_base h <=? b2n b).
  { inversion H; subst. eexists; split; reflexivity. }
  repeat match type of H with
  | (if ?c then _ else _) = _ => destruct c
  end;
  try (inversion H; subst; eexists; split; reflexivity);
  try (match type of H with
       | bind (read_uleb128 ?d (a ++ suf)) _ = _ =>
           destruct (read_uleb128 d (a ++ suf)) as [[v r1]| | |] eqn:E1; cbn [bind] in H; try discriminate;
           inversion H; subst;
           destruct (read_uleb128_local d _ _ _ _ E1 Hl) as [x1 [-> F1]]; rewrite F1; cbn [bind];
           eexists; split; reflexivity
       | bind (read_sleb128 ?d (a ++ suf)) _ = _ =>
           destruct (read_sleb128 d (a ++ suf)) as [[v r1]| | |] eqn:E1; cbn [bind] in H; try discriminate;
           inversion H; subst;
           destruct (read_sleb128_local d _ _ _ _ E1 Hl) as [x1 [-> F1]]; rewrite F1; cbn [bind];
           eexists; split; reflexivity
       | bind (read_u16 ?e (a ++ suf)) _ = _ =>
           unfold read_u16 in *;
           destruct (read_un 2 e (a ++ suf)) as [[v r1]| | |] eqn:E1; cbn [bind] in H; try discriminate;
           inversion H; subst;
           destruct (read_un_local 2 e _ _ _ _ E1 Hl) as [x1 [-> F1]]; rewrite F1; cbn [bind];
           eexists; split; reflexivity
       end).
  (* unknown standard opcode *)
  destruct (skip_n (b2n b - 1) (h_std_lengths h)) as [ol| | |]; cbn [bind] in H |- *; try discriminate.
  destruct (read_u8 ol) as [[num_args ol']| | |]; cbn [bind] in H |- *; try discriminate.
  destruct (num_args =? 0); [inversion H; subst; eexists; split; reflexivity|].
  destruct (num_args =? 1).
  { destruct (read_uleb128 dbg (a ++ suf)) as [[v r1]| | |] eqn:E1; cbn [bind] in H; try discriminate.
    inversion H; subst.
    destruct (read_uleb128_local dbg _ _ _ _ E1 Hl) as [x1 [-> F1]]; rewrite F1; cbn [bind].
    eexists; split; reflexivity. }
  destruct (skip_ulebs dbg (N.to_nat num_args) (a ++ suf)) as [r1| | |] eqn:E1; cbn [bind] in H; try discriminate.
  inversion H; subst.
  destruct (skip_ulebs_local dbg _ _ _ _ E1 Hl) as [x1 [-> F1]]. rewrite F1. cbn [bind].
  exists x1. split; [reflexivity|]. f_equal. f_equal. f_equal.
  pose proof (skip_ulebs_good dbg (N.to_nat num_args) a) as G. rewrite F1 in G. cbn in G. destruct G as [p ->].
  rewrite !app_length. rewrite <- app_assoc.
  replace (length p + length x1 + length suf - (length x1 + length suf))%nat with (length p) by lia.
  replace (length p + length x1 - length x1)%nat with (length p) by lia.
  rewrite !firstn_app, Nat.sub_diag, !firstn_all. cbn [firstn]. now rewrite !app_nil_r.
Qed.

(* ---------------------------------------------------------------- next_row is local *)
Lemma sfx_nil inp : sfx [] inp.
Proof. exists inp. now rewrite app_nil_r. Qed.

Lemma next_row_loop_len dbg be res h : forall fuel r inp added q out st',
  next_row_loop fuel dbg be res h r inp added q = (out, st') ->
  (length (st_inp st') <= length inp)%nat /\
  (out = NRow -> (length (st_inp st') < length inp)%nat /\ st_inseq st' = negb (r_end (st_row st'))).
Proof.
  induction fuel as [|f IH]; intros r inp added q out st' H; cbn [next_row_loop] in H.
  - inversion H; subst. cbn. split; [lia|discriminate].
  - destruct inp as [|b inp]; [inversion H; subst; cbn; split; [lia|discriminate]|].
    pose proof (parse_insn_good dbg be h (b :: inp)) as G.
    destruct (parse_insn dbg be h (b :: inp)) as [[i rest]| | |]; cbn [good] in G;
      try (inversion H; subst; cbn; split; [lia|discriminate]).
    destruct G as (_ & G & _). cbn [snd] in G.
    destruct (execute dbg h r i) as [[r' x]| | |];
      try (inversion H; subst; cbn [st_inp]; split; [lia|discriminate]).
    destruct x.
    + destruct (r_tomb r' && negb (r_end r' && q)).
      * apply IH in H as [H1 H2]. split; [lia|]. intros E. destruct (H2 E). split; [lia|assumption].
      * inversion H; subst; cbn [st_inp st_inseq st_row]; split; [lia|]. intros _. split; [exact G|reflexivity].
    + apply IH in H as [H1 H2]. split; [lia|]. intros E. destruct (H2 E). split; [lia|assumption].
    + inversion H; subst; cbn [st_inp]; split; [lia|discriminate].
Qed.

Lemma next_row_loop_sfx dbg be res h : forall fuel r inp added q out st',
  next_row_loop fuel dbg be res h r inp added q = (out, st') -> sfx (st_inp st') inp.
Proof.
  induction fuel as [|f IH]; intros r inp added q out st' H; cbn [next_row_loop] in H.
  - inversion H; subst. apply sfx_refl.
  - destruct inp as [|b inp]; [inversion H; subst; apply sfx_refl|].
    pose proof (parse_insn_good dbg be h (b :: inp)) as G.
    destruct (parse_insn dbg be h (b :: inp)) as [[i rest]| | |]; cbn [good] in G;
      try (inversion H; subst; cbn [st_inp]; first [apply sfx_refl|apply sfx_nil]).
    destruct G as (G & _ & _). cbn [snd] in G.
    destruct (execute dbg h r i) as [[r' x]| | |]; try (inversion H; subst; cbn [st_inp]; exact G).
    destruct x.
    + destruct (r_tomb r' && negb (r_end r' && q)).
      * apply IH in H. eapply sfx_trans; eauto.
      * inversion H; subst; cbn [st_inp]; exact G.
    + apply IH in H. eapply sfx_trans; eauto.
    + inversion H; subst; cbn [st_inp]; exact G.
Qed.

(* fuel beyond the input length is irrelevant *)
Lemma next_row_loop_fuel dbg be res h : forall f1 f2 r inp added q,
  (length inp < f1)%nat -> (length inp < f2)%nat ->
  next_row_loop f1 dbg be res h r inp added q = next_row_loop f2 dbg be res h r inp added q.
Proof.
  induction f1 as [|f1 IH]; intros f2 r inp added q H1 H2; [lia|].
  destruct f2 as [|f2]; [lia|]. cbn [next_row_loop].
  destruct inp as [|b inp]; [reflexivity|].
  pose proof (parse_insn_good dbg be h (b :: inp)) as G.
  destruct (parse_insn dbg be h (b :: inp)) as [[i rest]| | |]; cbn [good] in G; try reflexivity.
  destruct G as (_ & G & _). cbn [snd length] in *.
  destruct (execute dbg h r i) as [[r' x]| | |]; try reflexivity.
  destruct x; [destruct (r_tomb r' && negb (r_end r' && q))|..]; try reflexivity; apply IH; lia.
Qed.

Lemma next_row_loop_local dbg be h : forall fuel res res' r a suf added added' q st',
  next_row_loop fuel dbg be res h r (a ++ suf) added q = (NRow, st') ->
  (length suf <= length (st_inp st'))%nat ->
  exists x st'', st_inp st' = x ++ suf /\
    next_row_loop fuel dbg be res' h r a added' q = (NRow, st'') /\
    st_row st'' = st_row st' /\ st_inp st'' = x /\ st_inseq st'' = st_inseq st'.
Proof.
  induction fuel as [|f IH]; intros res res' r a suf added added' q st' H Hl; cbn [next_row_loop] in H.
  - discriminate.
  - destruct a as [|b a].
    { cbn [app] in H. exfalso.
      assert (H' : next_row_loop (S f) dbg be res h r suf added q = (NRow, st')) by exact H.
      apply next_row_loop_len in H' as [_ H']. destruct (H' eq_refl). lia. }
    cbn [app] in H. cbn [next_row_loop].
    destruct (parse_insn dbg be h (b :: a ++ suf)) as [[i rest]| | |] eqn:Ep; try discriminate.
    assert (Lr : (length suf <= length rest)%nat).
    { destruct (execute dbg h r i) as [[r' x]| | |]; try discriminate.
      destruct x; [destruct (r_tomb r' && negb (r_end r' && q))|..]; try discriminate.
      - apply next_row_loop_len in H as [H _]. lia.
      - inversion H; subst. exact Hl.
      - apply next_row_loop_len in H as [H _]. lia. }
    destruct (parse_insn_local dbg be h (b :: a) suf i rest Ep Lr) as [x1 [-> Ep']].
    rewrite Ep'.
    destruct (execute dbg h r i) as [[r' x]| | |]; try discriminate.
    destruct x; [destruct (r_tomb r' && negb (r_end r' && q)) eqn:Et|..]; try discriminate.
    + eapply IH; eauto.
    + inversion H; subst. cbn [st_inp st_row st_inseq] in *. eexists _, _. repeat split; reflexivity.
    + eapply IH; eauto.
Qed.

(* successive next_row calls of the straight run that each return a row *)
Section Steps.
Variables (dbg be : bool) (h : header).

Inductive steps : lr_state -> list row -> lr_state -> Prop :=
| steps_nil st : steps st [] st
| steps_cons st st' rs stk :
    next_row dbg be false h st = (NRow, st') -> steps st' rs stk -> steps st (st_row st' :: rs) stk.

Lemma steps_snoc st0 pre st st' :
  steps st0 pre st -> next_row dbg be false h st = (NRow, st') -> steps st0 (pre ++ [st_row st']) st'.
Proof.
  induction 1 as [st|st st1 rs stk N St IH]; intros Hn.
  - cbn [app]. econstructor; [exact Hn|constructor].
  - cbn [app]. econstructor; [exact N|]. apply IH. exact Hn.
Qed.

Lemma steps_sfx st rs stk : steps st rs stk -> sfx (st_inp stk) (st_inp st).
Proof.
  induction 1 as [st|st st1 rs stk N St IH]; [apply sfx_refl|].
  unfold next_row in N. apply next_row_loop_sfx in N. eapply sfx_trans; eauto.
Qed.

(* replaying a slice from a state with the same row and in_sequence flag: the same rows, then the end *)
Lemma resume_sim : forall st rs stk, steps st rs stk ->
  forall str fuel, row_reset h (st_row str) = row_reset h (st_row st) -> st_inseq str = st_inseq st ->
  st_inp st = st_inp str ++ st_inp stk ->
  (length (st_inp str) < fuel)%nat ->
  exists stf, rows_loop fuel dbg be true h str = (rs, SEnd, stf).
Proof.
  induction 1 as [st|st st1 rs stk N St IH]; intros str fuel Hr Hq Hi Hf.
  - assert (E : st_inp str = []).
    { apply (f_equal (@length byte)) in Hi. rewrite app_length in Hi.
      destruct (st_inp str); [reflexivity|simpl in Hi; lia]. }
    destruct fuel as [|f]; [lia|]. cbn [rows_loop]. unfold next_row. rewrite E. cbn [length next_row_loop].
    eexists. reflexivity.
  - destruct fuel as [|f]; [lia|]. cbn [rows_loop].
    unfold next_row in N. rewrite Hi in N.
    pose proof (steps_sfx _ _ _ St) as Sf. apply sfx_len in Sf.
    destruct (next_row_loop_local dbg be h _ false true _ _ _ _ (st_added str) _ _ N Sf)
      as (x & st2 & X1 & X2 & X3 & X4 & X5).
    unfold next_row. rewrite Hr, Hq.
    rewrite (next_row_loop_fuel dbg be true h (S (length (st_inp str))) (S (length (st_inp str ++ st_inp stk))))
      by (rewrite ?app_length; lia).
    rewrite X2.
    pose proof X2 as X2'. apply next_row_loop_len in X2' as [_ X2']. destruct (X2' eq_refl) as [X2'' _].
    destruct (IH st2 f ltac:(rewrite X3; reflexivity) X5 ltac:(rewrite X1, X4; reflexivity) ltac:(lia)) as (stf & L1).
    rewrite L1. eexists. rewrite X3. reflexivity.
Qed.
End Steps.

(* ---------------------------------------------------------------- sequences() *)
Definition seq_shape (s : line_seq) (rows : list row) : Prop :=
  exists body e, rows = body ++ [e] /\ Forall (fun r => r_end r = false) body /\ r_end e = true /\
    sq_end s = r_addr e /\ sq_start s = match body with [] => 0 | r :: _ => r_addr r end.

Definition seq_good (dbg be : bool) (h : header) (s : line_seq) : Prop :=
  snd (resume_rows dbg be h s) = SEnd /\ seq_shape s (fst (resume_rows dbg be h s)).

Lemma remove_trailing_app a b : remove_trailing (a ++ b) b = a.
Proof.
  unfold remove_trailing. rewrite app_length, Nat.add_sub, firstn_app, Nat.sub_diag, firstn_all.
  cbn [firstn]. now rewrite app_nil_r.
Qed.

Lemma seq_loop_rel dbg be h : forall fuel st0 pre st start files ss,
  row_reset h (st_row st0) = row_new h -> st_inseq st0 = false ->
  steps dbg be h st0 pre st -> Forall (fun r => r_end r = false) pre ->
  start = match pre with [] => None | r :: _ => Some (r_addr r) end ->
  (length (st_inp st) < fuel)%nat ->
  seq_loop fuel dbg be h st (st_inp st0) start = Ok (files, ss) ->
  exists l stf tail,
    rows_loop fuel dbg be false h st = (l, SEnd, stf) /\
    pre ++ l = concat (map (fun s => fst (resume_rows dbg be h s)) ss) ++ tail /\
    Forall (fun r => r_end r = false) tail /\ Forall (seq_good dbg be h) ss /\ files = st_added stf.
Proof.
  induction fuel as [|f IH]; intros st0 pre st start files ss Fr Fq St Fp Hs Hf H; [lia|].
  cbn [seq_loop] in H. cbn [rows_loop].
  destruct (next_row dbg be false h st) as [out st'] eqn:N.
  destruct out; try discriminate.
  - (* a row *)
    pose proof N as N'. unfold next_row in N'. apply next_row_loop_len in N' as [_ N'].
    destruct (N' eq_refl) as [N1 N2].
    pose proof (steps_snoc _ _ _ _ _ _ _ St N) as St'.
    destruct (r_end (st_row st')) eqn:Ee.
    + destruct (seq_loop f dbg be h st' (st_inp st') None) as [[fs ss']| | |] eqn:E; cbn [bind] in H; try discriminate.
      inversion H; subst files ss; clear H.
      assert (Fr' : row_reset h (st_row st') = row_new h) by (unfold row_reset; rewrite Ee; reflexivity).
      assert (Fq' : st_inseq st' = false) by (rewrite N2; try rewrite Ee; reflexivity).
      destruct (IH st' [] st' None fs ss' Fr' Fq' (steps_nil _ _ _ _) (Forall_nil _) eq_refl ltac:(lia) E)
        as (l & stf & tail & L1 & L2 & L3 & L4 & L5).
      rewrite L1. exists (st_row st' :: l), stf, tail.
      pose proof (steps_sfx _ _ _ _ _ _ St') as [a Ea].
      assert (G : resume_rows dbg be h
                    (mk_seq (match start with Some a0 => a0 | None => 0 end) (r_addr (st_row st'))
                            (remove_trailing (st_inp st0) (st_inp st'))) = (pre ++ [st_row st'], SEnd)).
      { rewrite Ea, remove_trailing_app. unfold resume_rows. cbn [sq_insns].
        destruct (resume_sim dbg be h _ _ _ St' (st_init h a) (S (length a))) as (stf0 & R1).
        - cbn [st_row st_init]. rewrite Fr. reflexivity.
        - cbn [st_inseq st_init]. symmetry. exact Fq.
        - exact Ea.
        - cbn. lia.
        - rewrite R1. reflexivity. }
      split; [reflexivity|]. split; [|split; [exact L3|split; [|exact L5]]].
      * cbn [map concat fst]. rewrite G. cbn [fst]. rewrite <- !app_assoc. cbn [app] in L2 |- *.
        rewrite <- L2. reflexivity.
      * constructor; [|exact L4]. unfold seq_good. rewrite G. cbn [fst snd]. split; [reflexivity|].
        exists pre, (st_row st'). cbn [sq_end sq_start]. repeat split; auto.
        subst start. destruct pre; reflexivity.
    + assert (Fp' : Forall (fun r => r_end r = false) (pre ++ [st_row st'])).
      { apply Forall_app. split; [exact Fp|]. constructor; [exact Ee|constructor]. }
      destruct (IH st0 (pre ++ [st_row st']) st'
                  (match start with None => Some (r_addr (st_row st')) | Some a => Some a end)
                  files ss Fr Fq St' Fp' ltac:(subst start; destruct pre; reflexivity) ltac:(lia) H)
        as (l & stf & tail & L1 & L2 & L3 & L4 & L5).
      rewrite L1. exists (st_row st' :: l), stf, tail. split; [reflexivity|].
      split; [|split; [exact L3|split; [exact L4|exact L5]]].
      rewrite <- L2, <- app_assoc. reflexivity.
  - (* end of the program *)
    inversion H; subst. exists [], st', pre. rewrite app_nil_r. repeat split; auto.
Qed.

Lemma sequences_eq_rows_lemma dbg be h files ss :
  sequences dbg be h = Ok (files, ss) ->
  exists tail,
    fst (rows_model dbg be h) = concat (map (fun s => fst (resume_rows dbg be h s)) ss) ++ tail /\
    snd (rows_model dbg be h) = SEnd /\
    Forall (fun r => r_end r = false) tail /\
    Forall (seq_good dbg be h) ss /\
    files = st_added (snd (rows_full dbg be h)).
Proof.
  intros H. unfold sequences in H.
  destruct (seq_loop_rel dbg be h (S (length (h_program h))) (st_init h (h_program h)) []
              (st_init h (h_program h)) None files ss eq_refl eq_refl (steps_nil _ _ _ _) (Forall_nil _)
              eq_refl ltac:(cbn; lia) H) as (l & stf & tail & L1 & L2 & L3 & L4 & L5).
  exists tail. unfold rows_model, rows_full. rewrite L1. cbn [fst snd]. cbn [app] in L2.
  repeat split; auto.
Qed.

Lemma sample_sequences : forall dbg,
  match sequences dbg false sample_header with
  | Ok (files, ss) => map (fun s => (sq_start s, sq_end s, length (sq_insns s))) ss =
                      [(4100, 4104, 14%nat); (2048, 2048, 11%nat)] /\ files = []
  | _ => False
  end.
Proof. intros [|]; vm_compute; split; reflexivity. Qed.

(* ---------------------------------------------------------------- bounds are ordered *)
Lemma chain_body_last h : forall body a e,
  chain h a (body ++ [e]) -> Forall (fun r => r_end r = false) body ->
  a <= r_addr e /\ r_addr e <= amask h /\ match body with [] => True | r :: _ => r_addr r <= r_addr e end.
Proof.
  induction body as [|r body IH]; intros a e C F.
  - cbn [app chain] in C. destruct C as (C1 & C2 & _). repeat split; assumption.
  - cbn [app chain] in C. destruct C as (C1 & C2 & C3). inversion F as [|? ? Fr Fb]; subst.
    rewrite Fr in C3. destruct (IH _ _ C3 Fb) as (J1 & J2 & _). repeat split; [lia|exact J2|exact J1].
Qed.

Lemma sequence_bounds_ordered_lemma dbg be h files ss : hdr_ok h ->
  sequences dbg be h = Ok (files, ss) ->
  Forall (fun s => sq_start s <= sq_end s /\ sq_end s <= amask h /\
                   rows_monotone (fst (resume_rows dbg be h s))) ss.
Proof.
  intros Hh H. destruct (sequences_eq_rows_lemma dbg be h files ss H) as (tail & _ & _ & _ & G & _).
  eapply Forall_impl; [|exact G]. intros s [Gs (body & e & Er & Fb & Ee & Eend & Estart)].
  unfold resume_rows in *.
  destruct (rows_loop (S (length (sq_insns s))) dbg be true h (st_init h (sq_insns s))) as [[rs st] stf] eqn:R.
  cbn [fst snd] in *.
  destruct (rows_loop_post dbg be true h Hh (S (length (sq_insns s))) (st_init h (sq_insns s)) _ _ _
              (st_init_ok h _) ltac:(cbn; lia) R) as (_ & _ & C & _).
  change (floor_of (st_init h (sq_insns s))) with 0 in C.
  split; [|split].
  - subst rs. destruct (chain_body_last h body 0 e C Fb) as (_ & _ & J). rewrite Estart, Eend.
    destruct body; [lia|exact J].
  - subst rs. destruct (chain_body_last h body 0 e C Fb) as (_ & J & _). rewrite Eend. exact J.
  - eapply chain_monotone; eauto.
Qed.
